import TTV.Model.Result
import TTV.Model.ResC04
import TTV.Spec.C04
import TTV.Lemmas.LeafAct
import TTV.Generated.ResCtlSrc
import TTV.Lemmas.SrcRefRes
/-! # C04 — run verdict and stop control are consistent with the outcomes reported

Theorems over the tree model M-Res (`TTV/Model/Result.lean`), for **every** graph (any depth / fan-out) of
`ExtendedToOriginalDecorator`, `TestResultDecorator`, `Tagger`, `ThreadsafeForwardingResult`, `MultiTestResult`
over `TestResult` / `TextTestResult` leaves — for the fail-fast clauses that do not speak about a single result
(`failfast-kept`, `failfast-read`, `failfast-stops`, `stop-sets`, `stop-sticky`) also over recording results of the old
flavours (2.6, 2.7, Twisted; with or without a `failfast` attribute assigned on them before or after wrapping:
`Shape.fsink`) behind their `ExtendedToOriginalDecorator` (`adaptLeaves`); for these and `not-earlier` also with
stream pipelines (`ExtendedToStreamDecorator` + `StreamFailFast`) anywhere in the graph: what `failfast` / `shouldStop`
of an object read never lies below a stream decorator, whose own fields are characterised by `e2s_own` — and
**every** call history (no bound).

* `holds_model_partial`        : all fourteen clauses of `Spec.C04.clauses` are true of the model's trace (see its docstring for the scope)
* `C04_verdict`                : `wasSuccessful()` is false exactly when an error / failure / unexpected success was reported
                                 since the last `startTestRun` (on any branch of a `MultiTestResult`)
* `C04_text_summary_partial`   : what every `TextTestResult` writes (graphs without `ThreadsafeForwardingResult`)
* `C04_failfast_read`          : `failfast` read through any stack is what was set on the result(s) it reads through to,
                                 before or after wrapping, from construction on and after every call
* `C04_failfast_stops`         : with `failfast` reading true, the first bad outcome sets `shouldStop` (also on a
                                 `TestResultDecorator` / `Tagger` reported to directly, on a directly used
                                 `ThreadsafeForwardingResult`, D15, and over old-flavour results: `etodStop_ss`)
* `C04_stop_reaches`, `root_stop` : `stop()` on any node sets `shouldStop` on every result below it (no stream pipeline) and
                                 on the node (every graph)
* `C04_stop_sticky`            : `shouldStop` stays set under every call but `startTestRun` (stream decorators: once started)
* `C04_not_earlier`            : `shouldStop` only after `stop()` or after a bad outcome with fail-fast set somewhere, since the last
                                 `startTestRun` — also where the flag is the `ExtendedToOriginalDecorator`'s own (Twisted-style
                                 targets: `resetLeaves`, `etodStep_exact_own`)
* `C04_leaf_failfast_kept`, `C04_leaf_stops` : per result: its own `failfast` survives every `startTestRun` on any wrapper; it stops
                                 by its own setting and under every `ExtendedToOriginalDecorator` whose `failfast` reads true
                                 (`inv3_steps`, `etod_stops_leaves`), and otherwise does not
* `C04_callback`               : a `StreamFailFast` given to the stream decorator as its target calls its own callback once per bad
                                 outcome, independently of the decorator's `failfast` (`Shape.sff`)
* `C04_exit`                   : exit status and summary of `testtools.run` for a module of test cases, with and without `-f`,
                                 tests that call `sys.exit` included (finding `sysExitZero`: status 0 under `FAILED`)
* `C04_failfast_kept`          : wrapping leaves the `failfast` of every result alone (D14), at any nesting depth
Not proved (correspondence only): `TextTestResult` behind `ThreadsafeForwardingResult`.  Not stated for graphs with a stream
pipeline (spec clauses conditioned on `noStream`; there the correspondence check alone ties model and code): verdict,
text summary, and the clauses about the results *behind* the stream (`stop-reaches`, `leaf-*`).
-/
namespace TTV.Props.C04
open TTV.Result TTV.ResC04 TTV.Spec.C04 TTV.Lemmas.LeafAct TTV.Lemmas.ResEmit
set_option linter.unusedSimpArgs false

/-! ## verdict -/
def leafWs : LeafSt → Bool
  | .sink _ s => s.ok
  | .tt s => s.wasSuccessful
  | .text s => s.tt.wasSuccessful
  | .tbt s => s.tt.wasSuccessful

mutual
theorem ws_leaves : ∀ (s : Shape), s.noStream = true → ∀ (st : St s),
    wasSuccessfulOf s st = (leaves s st).all leafWs
  | .sink _, _, _ => by simp [wasSuccessfulOf, leaves, leafWs]
  | .fsink _ _ _, _, _ => by simp [wasSuccessfulOf, leaves, leafWs]
  | .tt _, _, _ => by simp [wasSuccessfulOf, leaves, leafWs]
  | .text _, _, _ => by simp [wasSuccessfulOf, leaves, leafWs]
  | .tbt, _, _ => by simp [wasSuccessfulOf, leaves, leafWs]
  | .etod c, h, (_, inner) => by
      simp only [wasSuccessfulOf, leaves]; exact ws_leaves c (by simpa [Shape.noStream] using h) inner
  | .deco c, h, st => by
      simp only [wasSuccessfulOf, leaves]; exact ws_leaves c (by simpa [Shape.noStream] using h) st
  | .tagger _ _ c, h, st => by
      simp only [wasSuccessfulOf, leaves]; exact ws_leaves c (by simpa [Shape.noStream] using h) st
  | .tfr c, h, (_, inner) => by
      simp only [wasSuccessfulOf, leaves]; exact ws_leaves c (by simpa [Shape.noStream] using h) inner
  | .multi cs, h, (_, inner) => by
      simp only [wasSuccessfulOf, leaves]; exact ws_leavesL cs (by simpa [Shape.noStream] using h) inner
  | .e2s _, h, _ => by simp [Shape.noStream] at h
  | .sff, h, _ => by simp [Shape.noStream] at h
theorem ws_leavesL : ∀ (ss : List Shape), Shape.noStreamL ss = true → ∀ (st : StL ss),
    (wasSuccessfulL ss st).all id = (leavesL ss st).all leafWs
  | [], _, _ => rfl
  | s :: ss, h, (x, xs) => by
      simp only [Shape.noStreamL, Bool.and_eq_true] at h
      simp only [wasSuccessfulL, leavesL, List.all_cons, List.all_append, id]
      rw [ws_leaves s h.1 x, ws_leavesL ss h.2 xs]
end

/-- "an error, failure or unexpected success since the last `startTestRun`", per leaf (`none`: not a testtools result) -/
def badAbs : LeafSt → Option Bool
  | .sink _ _ => none
  | .tt s => some (!s.wasSuccessful)
  | .text s => some (!s.tt.wasSuccessful)
  | .tbt s => some (!s.tt.wasSuccessful)

def badAct (c : Call) (a : Option Bool) : Option Bool :=
  match c with
  | .startTestRun => a.map fun _ => false
  | .add k _ _ => a.map (· || Kind.bad k)
  | _ => a

theorem tt_bad (s : TT) (c : Call) : some (!(ttStep s c).wasSuccessful) = badAct c (some (!s.wasSuccessful)) := by
  cases c with
  | add k t a => cases k <;> simp [ttStep, badAct, TT.wasSuccessful, Kind.bad, Call.logged]
  | _ => simp [ttStep, badAct, TT.wasSuccessful, TT.reset, Call.logged]

def badAction : Action (Option Bool) where
  abs := badAbs
  act := badAct
  neutral := by intro c hc a; cases c <;> simp_all [Call.key, badAct]
  leaf_sink := by intro f st c; cases c <;> simp [badAbs, badAct]
  leaf_tt := by intro st c; exact tt_bad st c
  leaf_text := by intro st c; cases c <;> simp only [badAbs, textStep] <;> exact tt_bad _ _
  leaf_tbt := by intro st c; cases c <;> simp only [badAbs, tbtStep] <;> exact tt_bad _ _
  capsOk := fun caps => caps.startRun
  capsRun := fun _ h => h
  degrade := by
    intro caps _ k t x a
    have hk : Kind.bad (Spec.C08.degradeKind caps k) = Kind.bad k := by
      cases k <;> simp only [Spec.C08.degradeKind] <;> (try split) <;> rfl
    simp [Spec.C08.degradeCall, badAct, hk]
  tfrFree := false
  startNeutral := by intro _ t a; rfl

mutual
theorem ok_of_own : ∀ (s : Shape), ownLeaves s = true → s.noStream = true → okShape badAction s = true
  | .sink _, h, _ => by simp [ownLeaves] at h
  | .fsink _ _ _, h, _ => by simp [ownLeaves] at h
  | .tbt, h, _ => by simp [ownLeaves] at h
  | .tt _, _, _ => rfl
  | .text _, _, _ => rfl
  | .etod c, h, hn => by
      have h' : ownLeaves c = true := by simpa [ownLeaves] using h
      have := ok_of_own c h' (by simpa [Shape.noStream] using hn)
      simp only [okShape, okShapeG, Bool.and_eq_true] at this ⊢
      refine ⟨?_, this⟩
      cases c <;> simp_all [ownLeaves, caps, badAction]
  | .deco c, h, hn => by
      have := ok_of_own c (by simpa [ownLeaves] using h) (by simpa [Shape.noStream] using hn)
      simpa [okShape, okShapeG] using this
  | .tagger _ _ c, h, hn => by
      have := ok_of_own c (by simpa [ownLeaves] using h) (by simpa [Shape.noStream] using hn)
      simpa [okShape, okShapeG] using this
  | .tfr c, h, hn => by
      have := ok_of_own c (by simpa [ownLeaves] using h) (by simpa [Shape.noStream] using hn)
      simpa [okShape, okShapeG, badAction] using this
  | .multi cs, h, hn => by
      have := ok_of_ownL cs (by simpa [ownLeaves] using h) (by simpa [Shape.noStream] using hn)
      simpa [okShape, okShapeL, okShapeG] using this
  | .e2s _, _, hn => by simp [Shape.noStream] at hn
  | .sff, _, hn => by simp [Shape.noStream] at hn
theorem ok_of_ownL : ∀ (ss : List Shape), ownLeavesL ss = true → Shape.noStreamL ss = true → okShapeL badAction ss = true
  | [], _, _ => rfl
  | s :: ss, h, hn => by
      simp only [ownLeavesL, Bool.and_eq_true] at h
      simp only [Shape.noStreamL, Bool.and_eq_true] at hn
      have a := ok_of_own s h.1 hn.1
      have b := ok_of_ownL ss h.2 hn.2
      simp only [okShape, okShapeL, okShapeGL, Bool.and_eq_true] at a b ⊢
      exact ⟨a, b⟩
end

/-- every leaf is a testtools result whose "bad since the last `startTestRun`" flag is `b` -/
def AllBad (s : Shape) (st : St s) (b : Bool) : Prop := ∀ l ∈ leaves s st, badAbs l = some b

theorem allBad_step (s : Shape) (hs : okShape badAction s = true) (st : St s) (b : Bool) (c : Call)
    (h : AllBad s st b) :
    AllBad s (step s st c) (match c with | .startTestRun => false | .add k _ _ => b || Kind.bad k | _ => b) := by
  have := act_steps badAction s hs [c] st
  simp only [leavesAbs, List.foldl_cons, List.foldl_nil] at this
  intro l hl
  have hm : badAbs l ∈ (leaves s (step s st c)).map badAbs := List.mem_map_of_mem hl
  rw [show badAction.abs = badAbs from rfl] at this
  rw [this] at hm
  simp only [List.mem_map] at hm
  obtain ⟨a, ⟨l0, hl0, rfl⟩, ha⟩ := hm
  rw [← ha, h l0 hl0]
  cases c <;> rfl

theorem ws_of_allBad (s : Shape) (hn : s.noStream = true) (st : St s) (b : Bool) (h : AllBad s st b)
    (hne : leaves s st ≠ []) : wasSuccessfulOf s st = !b := by
  rw [ws_leaves s hn]
  have : ∀ l ∈ leaves s st, leafWs l = !b := by
    intro l hl
    have := h l hl
    cases l <;> simp_all [badAbs, leafWs]
  cases hl : leaves s st with
  | nil => exact absurd hl hne
  | cons x xs =>
    rw [hl] at this
    cases b <;> simp_all

theorem leaves_len_step (s : Shape) (hs : okShape badAction s = true) (st : St s) (c : Call) :
    (leaves s (step s st c)).length = (leaves s st).length := by
  have := congrArg List.length (act_steps badAction s hs [c] st)
  simpa [leavesAbs] using this

theorem verdict_states (s : Shape) (hs : okShape badAction s = true) (hn : s.noStream = true) :
    ∀ (h : List Call) (st : St s) (b : Bool), AllBad s st b → leaves s st ≠ [] →
    (states s st h).map (wasSuccessfulOf s) = verdicts b h
  | [], _, _, _, _ => rfl
  | c :: h, st, b, hb, hne => by
      have hb' := allBad_step s hs st b c hb
      have hne' : leaves s (step s st c) ≠ [] := by
        intro h0
        have := leaves_len_step s hs st c
        rw [h0] at this
        exact hne (List.length_eq_zero_iff.mp this.symm)
      simp only [states, List.map_cons, verdicts]
      rw [ws_of_allBad s hn _ _ hb' hne', verdict_states s hs hn h _ _ hb' hne']
      cases c <;> rfl

mutual
theorem leaves_ne : ∀ (s : Shape), s.wf = true → s.noStream = true → ∀ (st : St s), leaves s st ≠ []
  | .sink _, _, _, _ => by simp [leaves]
  | .fsink _ _ _, _, _, _ => by simp [leaves]
  | .tt _, _, _, _ => by simp [leaves]
  | .text _, _, _, _ => by simp [leaves]
  | .tbt, _, _, _ => by simp [leaves]
  | .etod c, h, hn, (_, inner) => by
      simp only [leaves]
      cases c with
      | sink f => simp [leaves]
      | fsink l0 b0 f => simp [leaves]
      | _ => exact leaves_ne _ (by simpa [Shape.wf] using h) (by simpa [Shape.noStream] using hn) inner
  | .deco c, h, hn, st => by
      simp only [leaves]; exact leaves_ne c (by simpa [Shape.wf] using h) (by simpa [Shape.noStream] using hn) st
  | .tagger _ _ c, h, hn, st => by
      simp only [leaves]; exact leaves_ne c (by simpa [Shape.wf] using h) (by simpa [Shape.noStream] using hn) st
  | .tfr c, h, hn, (_, inner) => by
      simp only [leaves]
      cases c with
      | etod d => exact leaves_ne (.etod d) (by simpa [Shape.wf] using h) (by simpa [Shape.noStream] using hn) inner
      | _ => simp [Shape.wf] at h
  | .e2s _, _, hn, _ => by simp [Shape.noStream] at hn
  | .sff, _, hn, _ => by simp [Shape.noStream] at hn
  | .multi cs, h, hn, (_, inner) => by
      simp only [leaves]
      cases cs with
      | nil => simp [Shape.wf] at h
      | cons d ds =>
        obtain ⟨x, xs⟩ := inner
        simp only [leavesL]
        cases d with
        | etod e =>
          have : (Shape.etod e).wf = true := by
            simp only [Shape.wf, Shape.wfL, Bool.and_eq_true] at h; exact h.1
          have hne : (Shape.etod e).noStream = true := by
            simp only [Shape.noStream, Shape.noStreamL, Bool.and_eq_true] at hn ⊢; exact hn.1
          have := leaves_ne (.etod e) this hne x
          simp [this]
        | _ => simp [Shape.wf, Shape.wfL] at h
end

mutual
theorem abs_init : ∀ (s : Shape), ownLeaves s = true → s.noStream = true →
    ∀ a ∈ (leaves s (init s)).map badAbs, a = some false
  | .sink _, h, _ => by simp [ownLeaves] at h
  | .fsink _ _ _, h, _ => by simp [ownLeaves] at h
  | .tbt, h, _ => by simp [ownLeaves] at h
  | .tt _, _, _ => by simp [leaves, init, badAbs, TT.wasSuccessful]
  | .text _, _, _ => by simp [leaves, init, badAbs, TT.wasSuccessful]
  | .etod c, h, hn => by
      simp only [leaves, init]; exact abs_init c (by simpa [ownLeaves] using h) (by simpa [Shape.noStream] using hn)
  | .deco c, h, hn => by
      simp only [leaves, init]; exact abs_init c (by simpa [ownLeaves] using h) (by simpa [Shape.noStream] using hn)
  | .tagger _ _ c, h, hn => by
      simp only [leaves, init]; exact abs_init c (by simpa [ownLeaves] using h) (by simpa [Shape.noStream] using hn)
  | .tfr c, h, hn => by
      simp only [leaves, init]; exact abs_init c (by simpa [ownLeaves] using h) (by simpa [Shape.noStream] using hn)
  | .e2s _, _, hn => by simp [Shape.noStream] at hn
  | .sff, _, hn => by simp [Shape.noStream] at hn
  | .multi cs, h, hn => by
      have ho : ownLeavesL cs = true := by simpa [ownLeaves] using h
      have hn' : Shape.noStreamL cs = true := by simpa [Shape.noStream] using hn
      simp only [leaves, init]
      exact abs_initL cs ho hn'
theorem abs_initL : ∀ (ss : List Shape), ownLeavesL ss = true → Shape.noStreamL ss = true →
    ∀ a ∈ (leavesL ss (initL ss)).map badAbs, a = some false
  | [], _, _ => by simp [leavesL]
  | s :: ss, h, hn => by
      simp only [ownLeavesL, Bool.and_eq_true] at h
      simp only [Shape.noStreamL, Bool.and_eq_true] at hn
      simp only [leavesL, initL, List.map_append, List.mem_append]
      intro a ha
      rcases ha with ha | ha
      · exact abs_init s h.1 hn.1 a ha
      · exact abs_initL ss h.2 hn.2 a ha
end

theorem allBad_init (s : Shape) (ho : ownLeaves s = true) (hn : s.noStream = true) : AllBad s (init s) false :=
  fun l hl => abs_init s ho hn _ (List.mem_map_of_mem hl)

/-- **C04 (verdict).**  On every graph of `ExtendedToOriginalDecorator`, `TestResultDecorator`, `Tagger`,
`ThreadsafeForwardingResult`, `MultiTestResult` over `TestResult` / `TextTestResult` leaves, after every call of
every history, `wasSuccessful()` is false exactly when an error, a failure or an unexpected success has been
reported since the last `startTestRun` (`Spec.C04.verdicts`). -/
theorem C04_verdict (s : Shape) (hw : s.wf = true) (ho : ownLeaves s = true) (hn : s.noStream = true)
    (h : List Call) : (states s (init s) h).map (wasSuccessfulOf s) = verdicts false h :=
  verdict_states s (ok_of_own s ho hn) hn h (init s) false (allBad_init s ho hn) (leaves_ne s hw hn _)

/-! ## stop() reaches every underlying result -/
theorem caps_own (c : Shape) (h : ownLeaves c = true) : (caps c).stop = true ∧ (caps c).shouldStop = true := by
  cases c <;> simp_all [ownLeaves, caps]

mutual
theorem stop_leaves : ∀ (s : Shape), ownLeaves s = true → s.noStream = true → ∀ (st : St s),
    ∀ l ∈ leaves s (step s st .stop), LeafSt.shouldStop l = true
  | .sink _, h, _, _ => by simp [ownLeaves] at h
  | .fsink _ _ _, h, _, _ => by simp [ownLeaves] at h
  | .tbt, h, _, _ => by simp [ownLeaves] at h
  | .tt _, _, _, st => by simp [leaves, step, ttStep, LeafSt.shouldStop, Call.logged]
  | .text _, _, _, st => by simp [leaves, step, textStep, ttStep, LeafSt.shouldStop, Call.logged]
  | .etod c, h, hn, (own, inner) => by
      have h' : ownLeaves c = true := by simpa [ownLeaves] using h
      simp only [leaves, step, etodStep, etodStop, (caps_own c h').1, ite_true]
      exact stop_leaves c h' (by simpa [Shape.noStream] using hn) inner
  | .deco c, h, hn, st => by
      simp only [leaves, step]; exact stop_leaves c (by simpa [ownLeaves] using h) (by simpa [Shape.noStream] using hn) st
  | .tagger _ _ c, h, hn, st => by
      simp only [leaves, step]; exact stop_leaves c (by simpa [ownLeaves] using h) (by simpa [Shape.noStream] using hn) st
  | .tfr c, h, hn, (own, inner) => by
      simp only [leaves, step, tfrStep]
      exact stop_leaves c (by simpa [ownLeaves] using h) (by simpa [Shape.noStream] using hn) inner
  | .multi cs, h, hn, (own, inner) => by
      simp only [leaves, step]
      exact stop_leavesL cs (by simpa [ownLeaves] using h) (by simpa [Shape.noStream] using hn) inner
  | .e2s _, _, hn, _ => by simp [Shape.noStream] at hn
  | .sff, _, hn, _ => by simp [Shape.noStream] at hn
theorem stop_leavesL : ∀ (ss : List Shape), ownLeavesL ss = true → Shape.noStreamL ss = true → ∀ (st : StL ss),
    ∀ l ∈ leavesL ss (stepL ss st .stop), LeafSt.shouldStop l = true
  | [], _, _, _ => by simp [leavesL]
  | s :: ss, h, hn, (x, xs) => by
      simp only [ownLeavesL, Bool.and_eq_true] at h
      simp only [Shape.noStreamL, Bool.and_eq_true] at hn
      simp only [leavesL, stepL, List.mem_append]
      intro l hl
      rcases hl with hl | hl
      · exact stop_leaves s h.1 hn.1 x l hl
      · exact stop_leavesL ss h.2 hn.2 xs l hl
end

/- `shouldStop` of a graph is that of its leaves -/
mutual
theorem ss_leaves : ∀ (s : Shape), ownLeaves s = true → s.noStream = true → ∀ (st : St s),
    shouldStopOf s st = (leaves s st).any LeafSt.shouldStop
  | .sink _, h, _, _ => by simp [ownLeaves] at h
  | .fsink _ _ _, h, _, _ => by simp [ownLeaves] at h
  | .tbt, h, _, _ => by simp [ownLeaves] at h
  | .tt _, _, _, _ => by simp [shouldStopOf, leaves, LeafSt.shouldStop]
  | .text _, _, _, _ => by simp [shouldStopOf, leaves, LeafSt.shouldStop]
  | .etod c, h, hn, (own, inner) => by
      have h' : ownLeaves c = true := by simpa [ownLeaves] using h
      simp only [shouldStopOf, leaves, (caps_own c h').2, ite_true]
      exact ss_leaves c h' (by simpa [Shape.noStream] using hn) inner
  | .deco c, h, hn, st => by
      simp only [shouldStopOf, leaves]; exact ss_leaves c (by simpa [ownLeaves] using h) (by simpa [Shape.noStream] using hn) st
  | .tagger _ _ c, h, hn, st => by
      simp only [shouldStopOf, leaves]; exact ss_leaves c (by simpa [ownLeaves] using h) (by simpa [Shape.noStream] using hn) st
  | .tfr c, h, hn, (own, inner) => by
      simp only [shouldStopOf, leaves]; exact ss_leaves c (by simpa [ownLeaves] using h) (by simpa [Shape.noStream] using hn) inner
  | .multi cs, h, hn, (own, inner) => by
      simp only [shouldStopOf, leaves]
      exact ss_leavesL cs (by simpa [ownLeaves] using h) (by simpa [Shape.noStream] using hn) inner
  | .e2s _, _, hn, _ => by simp [Shape.noStream] at hn
  | .sff, _, hn, _ => by simp [Shape.noStream] at hn
theorem ss_leavesL : ∀ (ss : List Shape), ownLeavesL ss = true → Shape.noStreamL ss = true → ∀ (st : StL ss),
    (shouldStopL ss st).any id = (leavesL ss st).any LeafSt.shouldStop
  | [], _, _, _ => rfl
  | s :: ss, h, hn, (x, xs) => by
      simp only [ownLeavesL, Bool.and_eq_true] at h
      simp only [Shape.noStreamL, Bool.and_eq_true] at hn
      simp only [shouldStopL, leavesL, List.any_cons, List.any_append, id]
      rw [ss_leaves s h.1 hn.1 x, ss_leavesL ss h.2 hn.2 xs]
end

/-- **C04 (stop reaches).**  `stop()` on any adapter or multiplexer sets `shouldStop` on every result below it,
and on the object itself. -/
theorem C04_stop_reaches (s : Shape) (hw : s.wf = true) (ho : ownLeaves s = true) (hn : s.noStream = true) (st : St s) :
    (∀ l ∈ leaves s (step s st .stop), LeafSt.shouldStop l = true) ∧ shouldStopOf s (step s st .stop) = true := by
  have h1 := stop_leaves s ho hn st
  refine ⟨h1, ?_⟩
  rw [ss_leaves s ho hn]
  cases hl : leaves s (step s st .stop) with
  | nil => exact absurd hl (leaves_ne s hw hn _)
  | cons x xs =>
    rw [hl] at h1
    simp [h1 x (by simp)]

/-! ## the text summary and the exit status -/
def tallyOfTT (s : TT) : Tally := { n := s.testsRun, errs := s.errors, fails := s.failures, uxs := s.uxs }

theorem summary_eq (s : TT) : textSummary s = (tallyOfTT s).summary := by
  simp [textSummary, Tally.summary, tallyOfTT, TT.wasSuccessful, Bool.and_assoc]

/-- a started `TextTestResult` writes what `Spec.C04.textSpec` says, whatever calls it gets -/
theorem text_out : ∀ (cs : List Call) (s : TextSt), s.started = true →
    (cs.foldl textStep s).out = s.out ++ textSpec (tallyOfTT s.tt) cs
  | [], s, _ => by simp [textSpec]
  | c :: cs, s, hs => by
      rw [List.foldl_cons]
      cases c with
      | startTestRun =>
        rw [text_out cs _ rfl]
        simp [textStep, textSpec, ttStep, TT.reset, tallyOfTT, Call.logged]
      | stopTestRun =>
        rw [text_out cs _ (by simpa [textStep] using hs)]
        simp [textStep, textSpec, hs, summary_eq, ttStep, tallyOfTT, Call.logged]
      | add k t a =>
        rw [text_out cs _ (by simpa [textStep] using hs)]
        cases k <;> simp [textStep, textSpec, ttStep, tallyOfTT, Call.logged]
      | _ =>
        rw [text_out cs _ (by simpa [textStep] using hs)]
        simp [textStep, textSpec, ttStep, tallyOfTT, Call.logged]

theorem bad_iff_not_passing (k : Kind) : Kind.bad k = !k.passing := by cases k <;> rfl

/-- what the tally is after the calls of a suite -/
theorem prog_tally : ∀ (ks : List Kind) (ff : Bool) (i : Nat) (T : Tally) (rest : List Call),
    textSpec T (progCalls ff i ks ++ rest) = textSpec (tallyOf T i (dispatched ff ks)) rest
  | [], _, _, _, _ => rfl
  | k :: ks, ff, i, T, rest => by
      have ih := prog_tally ks ff (i + 1)
      cases ff <;> cases k <;>
        simp [progCalls, dispatched, textSpec, tallyOf, Kind.bad, Kind.passing, ih]

theorem dispatched_any (ff : Bool) : ∀ (ks : List Kind), (dispatched ff ks).any Kind.bad = ks.any Kind.bad
  | [] => rfl
  | k :: ks => by
      have ih := dispatched_any ff ks
      cases ff <;> cases hk : Kind.bad k <;> simp [dispatched, hk, ih]

theorem tallyOf_clean : ∀ (ks : List Kind) (T : Tally) (i : Nat),
    let T' := tallyOf T i ks
    (T'.errs.isEmpty && T'.fails.isEmpty && T'.uxs.isEmpty)
      = ((T.errs.isEmpty && T.fails.isEmpty && T.uxs.isEmpty) && !ks.any Kind.bad)
  | [], T, _ => by simp [tallyOf]
  | k :: ks, T, i => by
      have ih := tallyOf_clean ks
      cases k <;> simp [tallyOf, ih, Kind.bad] <;> cases T.errs <;> cases T.fails <;> cases T.uxs <;> simp

def tallyStep (T : Tally) (c : Call) : Tally :=
  match c with
  | .startTestRun => {}
  | .startTest _ => { T with n := T.n + 1 }
  | .add .error t _ => { T with errs := T.errs ++ [t] }
  | .add .failure t _ => { T with fails := T.fails ++ [t] }
  | .add .uxsuccess t _ => { T with uxs := T.uxs ++ [t] }
  | _ => T

/-- the tally a `TextTestResult` keeps -/
theorem text_tally : ∀ (cs : List Call) (s : TextSt),
    tallyOfTT (cs.foldl textStep s).tt = cs.foldl tallyStep (tallyOfTT s.tt)
  | [], _ => rfl
  | c :: cs, s => by
      rw [List.foldl_cons, List.foldl_cons, text_tally cs]
      congr 1
      cases c with
      | add k t a => cases k <;> simp [textStep, ttStep, tallyOfTT, tallyStep, Call.logged]
      | _ => simp [textStep, ttStep, tallyOfTT, tallyStep, Call.logged, TT.reset]

theorem prog_run : ∀ (ks : List Kind) (ff : Bool) (i : Nat) (T : Tally),
    (progCalls ff i ks).foldl tallyStep T = tallyOf T i (dispatched ff ks)
  | [], _, _, _ => rfl
  | k :: ks, ff, i, T => by
      have ih := prog_run ks ff (i + 1)
      cases ff <;> cases k <;>
        simp [progCalls, dispatched, tallyStep, tallyOf, Kind.bad, Kind.passing, ih, List.foldl_append]

/-- **C04 (exit status and summary of `testtools.run`).**  For a module of test cases with outcomes `ks`, run with or
without `-f`: the exit status is 1 exactly when some outcome is an error, a failure or an unexpected success, and
the output is the banner, one section per problem of the tests dispatched (with `-f`: up to the first bad one),
their count, and `OK` / `FAILED (failures=k)` with `k` the number of sections. -/
theorem C04_exitK (ff : Bool) (ks : List Kind) :
    runProgK ff ks = (if ks.any Kind.bad then 1 else 0, .running :: (tallyOf {} 0 (dispatched ff ks)).summary) := by
  have hstart : step (.text ff) (init (.text ff)) .startTestRun
      = ({ tt := ttStep { failfast := ff } .startTestRun, started := true, out := [.running] } : TextSt) := rfl
  have hrun : (run (.text ff) (init (.text ff)) ([.startTestRun] ++ progCalls ff 0 ks ++ [.stopTestRun]) : TextSt)
      = (progCalls ff 0 ks ++ [Call.stopTestRun]).foldl textStep
          { tt := ttStep { failfast := ff } .startTestRun, started := true, out := [.running] } := by
    rfl
  have hT : tallyOfTT (ttStep { failfast := ff } .startTestRun) = {} := by
    simp [ttStep, TT.reset, tallyOfTT, Call.logged]
  simp only [runProgK]
  rw [hrun]
  refine Prod.ext ?_ ?_
  · -- exit status
    simp only
    have h1 := text_tally (progCalls ff 0 ks ++ [Call.stopTestRun])
      { tt := ttStep { failfast := ff } .startTestRun, started := true, out := [.running] }
    have h2 := tallyOf_clean (dispatched ff ks) {} 0
    simp only [dispatched_any] at h2
    have h3 : ∀ (s : TT), s.wasSuccessful = ((tallyOfTT s).errs.isEmpty && (tallyOfTT s).fails.isEmpty && (tallyOfTT s).uxs.isEmpty) := by
      intro s; simp [TT.wasSuccessful, tallyOfTT]
    rw [h3, h1]
    simp only [hT, List.foldl_append, prog_run, List.foldl_cons, List.foldl_nil, tallyStep]
    rw [h2]
    cases ks.any Kind.bad <;> simp
  · -- output
    simp only
    rw [text_out _ _ rfl, hT, prog_tally]
    simp [textSpec]

/-- a `sys.exit` test that is reached is reported as an error: the summary printed is `FAILED` -/
theorem progExit_bad (ff : Bool) : ∀ (ps : List PKind) (c : Option Nat), progExit ff ps = some c →
    (progKinds ps).any Kind.bad = true
  | [], _, h => by simp [progExit] at h
  | .exit c :: ps, _, _ => by simp [progKinds, cutAtExit, PKind.kind, Kind.bad]
  | .out k :: ps, c, h => by
      simp only [progExit] at h
      split at h
      · cases h
      · have := progExit_bad ff ps c h
        simp only [progKinds, cutAtExit, List.map_cons, List.any_cons, Bool.or_eq_true] at this ⊢
        exact .inr this

/-- **C04 (exit status and summary of `testtools.run`, tests that call `sys.exit` included).**  The output is the banner,
one section per problem of the tests dispatched (with `-f`: up to the first bad one; nothing after a test that calls
`sys.exit`, which is itself reported as an error), their count and `OK` / `FAILED`.  The exit status is 1 exactly when
some outcome is bad — unless a test that calls `sys.exit(code)` is reached: then it is `code` (`None`: 0), although the
summary says `FAILED` (`progExit_bad`): for `code` 0 / `None` the status contradicts the summary (finding
`sysExitZero`). -/
theorem C04_exit (ff : Bool) (ps : List PKind) :
    runProg ff ps =
      (match progExit ff ps with
        | some c => c.getD 0
        | none => if (progKinds ps).any Kind.bad then 1 else 0,
       .running :: (tallyOf {} 0 (dispatched ff (progKinds ps))).summary) := by
  simp only [runProg, C04_exitK]
  cases progExit ff ps <;> rfl

/-! ### every `TextTestResult` below adapters (no `ThreadsafeForwardingResult`) -/
def textAbs : LeafSt → Option (Bool × Tally × List Out)
  | .text s => some (s.started, tallyOfTT s.tt, s.out)
  | _ => none

def textAct (c : Call) : Option (Bool × Tally × List Out) → Option (Bool × Tally × List Out) :=
  Option.map fun p =>
    match c with
    | .startTestRun => (true, {}, p.2.2 ++ [.running])
    | .stopTestRun => (p.1, p.2.1, if p.1 then p.2.2 ++ p.2.1.summary else p.2.2)
    | c => (p.1, tallyStep p.2.1 c, p.2.2)

theorem text_leaf (s : TextSt) (c : Call) : textAbs (.text (textStep s c)) = textAct c (textAbs (.text s)) := by
  have ht := text_tally [c] s
  simp only [List.foldl_cons, List.foldl_nil] at ht
  cases c with
  | startTestRun => simp [textAbs, textAct, textStep, ttStep, TT.reset, tallyOfTT, Call.logged]
  | stopTestRun => simp [textAbs, textAct, textStep, summary_eq, ttStep, tallyOfTT, Call.logged]
  | _ => simp only [textAbs, textAct, Option.map_some, ht]; simp [textStep]

def fullCaps (caps : Caps) : Bool := caps.startRun && caps.skip && caps.xfail && caps.uxs

def textAction : Action (Option (Bool × Tally × List Out)) where
  abs := textAbs
  act := textAct
  neutral := by
    intro c hc a
    cases a with
    | none => rfl
    | some p => cases c <;> simp_all [Call.key, textAct, tallyStep]
  leaf_sink := by intro f st c; rfl
  leaf_tt := by intro st c; rfl
  leaf_text := text_leaf
  leaf_tbt := by intro st c; rfl
  capsOk := fullCaps
  capsRun := by intro caps h; simp only [fullCaps, Bool.and_eq_true] at h; exact h.1.1.1
  degrade := by
    intro caps h k t x a
    simp only [fullCaps, Bool.and_eq_true] at h
    have hk : Spec.C08.degradeKind caps k = k := by
      cases k <;> simp [Spec.C08.degradeKind, h.1.1.2, h.1.2, h.2]
    cases a with
    | none => rfl
    | some p => cases k <;> simp_all [Spec.C08.degradeCall, textAct, tallyStep]
  tfrFree := true
  startNeutral := by intro h; cases h

mutual
theorem okText_of_own : ∀ (s : Shape), ownLeaves s = true → s.noStream = true → s.hasTfr = false →
    okShape textAction s = true
  | .sink _, h, _, _ => by simp [ownLeaves] at h
  | .fsink _ _ _, h, _, _ => by simp [ownLeaves] at h
  | .tbt, h, _, _ => by simp [ownLeaves] at h
  | .tt _, _, _, _ => rfl
  | .text _, _, _, _ => rfl
  | .etod c, h, hn, ht => by
      have h' : ownLeaves c = true := by simpa [ownLeaves] using h
      have := okText_of_own c h' (by simpa [Shape.noStream] using hn) (by simpa [Shape.hasTfr] using ht)
      simp only [okShape, okShapeG, Bool.and_eq_true] at this ⊢
      refine ⟨?_, this⟩
      cases c <;> simp_all [ownLeaves, caps, textAction, fullCaps]
  | .deco c, h, hn, ht => by
      have := okText_of_own c (by simpa [ownLeaves] using h) (by simpa [Shape.noStream] using hn) (by simpa [Shape.hasTfr] using ht)
      simpa [okShape, okShapeG] using this
  | .tagger _ _ c, h, hn, ht => by
      have := okText_of_own c (by simpa [ownLeaves] using h) (by simpa [Shape.noStream] using hn) (by simpa [Shape.hasTfr] using ht)
      simpa [okShape, okShapeG] using this
  | .tfr _, _, _, ht => by simp [Shape.hasTfr] at ht
  | .multi cs, h, hn, ht => by
      have := okText_of_ownL cs (by simpa [ownLeaves] using h) (by simpa [Shape.noStream] using hn) (by simpa [Shape.hasTfr] using ht)
      simpa [okShape, okShapeL, okShapeG] using this
  | .e2s _, _, hn, _ => by simp [Shape.noStream] at hn
  | .sff, _, hn, _ => by simp [Shape.noStream] at hn
theorem okText_of_ownL : ∀ (ss : List Shape), ownLeavesL ss = true → Shape.noStreamL ss = true → Shape.hasTfrL ss = false →
    okShapeL textAction ss = true
  | [], _, _, _ => rfl
  | s :: ss, h, hn, ht => by
      simp only [ownLeavesL, Bool.and_eq_true] at h
      simp only [Shape.noStreamL, Bool.and_eq_true] at hn
      simp only [Shape.hasTfrL, Bool.or_eq_false_iff] at ht
      have a := okText_of_own s h.1 hn.1 ht.1
      have b := okText_of_ownL ss h.2 hn.2 ht.2
      simp only [okShape, okShapeL, okShapeGL, Bool.and_eq_true] at a b ⊢
      exact ⟨a, b⟩
end

theorem textAct_run : ∀ (cs : List Call) (T : Tally) (out : List Out),
    ∃ T', cs.foldl (fun a c => textAct c a) (some (true, T, out)) = some (true, T', out ++ textSpec T cs)
  | [], T, out => ⟨T, by simp [textSpec]⟩
  | c :: cs, T, out => by
      simp only [List.foldl_cons]
      have gen : ∀ (T1 : Tally) (out1 : List Out), textAct c (some (true, T, out)) = some (true, T1, out1) →
          out1 ++ textSpec T1 cs = out ++ textSpec T (c :: cs) →
          ∃ T', cs.foldl (fun a c => textAct c a) (textAct c (some (true, T, out)))
            = some (true, T', out ++ textSpec T (c :: cs)) := by
        intro T1 out1 e1 e2
        obtain ⟨T', h⟩ := textAct_run cs T1 out1
        exact ⟨T', by rw [e1, h, e2]⟩
      cases c with
      | startTestRun => exact gen {} (out ++ [.running]) rfl (by simp [textSpec])
      | stopTestRun => exact gen T (out ++ T.summary) rfl (by simp [textSpec])
      | add k t a => cases k <;> exact gen _ out rfl (by simp [textSpec, tallyStep])
      | startTest t => exact gen _ out rfl (by simp [textSpec, tallyStep])
      | stopTest t => exact gen T out rfl (by simp [textSpec])
      | tags n g => exact gen T out rfl (by simp [textSpec])
      | time d => exact gen T out rfl (by simp [textSpec])
      | stop => exact gen T out rfl (by simp [textSpec])
      | done => exact gen T out rfl (by simp [textSpec])
      | progress => exact gen T out rfl (by simp [textSpec])
      | setFailfast b => exact gen T out rfl (by simp [textSpec])

mutual
theorem textAbs_init : ∀ (s : Shape), ownLeaves s = true → s.noStream = true → s.hasTfr = false →
    ∀ a ∈ (leaves s (init s)).map textAbs, a = none ∨ a = some (false, {}, [])
  | .sink _, h, _, _ => by simp [ownLeaves] at h
  | .fsink _ _ _, h, _, _ => by simp [ownLeaves] at h
  | .tbt, h, _, _ => by simp [ownLeaves] at h
  | .tt _, _, _, _ => by simp [leaves, init, textAbs]
  | .text _, _, _, _ => by simp [leaves, init, textAbs, tallyOfTT]
  | .etod c, h, hn, ht => by
      simp only [leaves, init]
      exact textAbs_init c (by simpa [ownLeaves] using h) (by simpa [Shape.noStream] using hn) (by simpa [Shape.hasTfr] using ht)
  | .deco c, h, hn, ht => by
      simp only [leaves, init]
      exact textAbs_init c (by simpa [ownLeaves] using h) (by simpa [Shape.noStream] using hn) (by simpa [Shape.hasTfr] using ht)
  | .tagger _ _ c, h, hn, ht => by
      simp only [leaves, init]
      exact textAbs_init c (by simpa [ownLeaves] using h) (by simpa [Shape.noStream] using hn) (by simpa [Shape.hasTfr] using ht)
  | .tfr _, _, _, ht => by simp [Shape.hasTfr] at ht
  | .e2s _, _, hn, _ => by simp [Shape.noStream] at hn
  | .sff, _, hn, _ => by simp [Shape.noStream] at hn
  | .multi cs, h, hn, ht => by
      have ho : ownLeavesL cs = true := by simpa [ownLeaves] using h
      have hn' : Shape.noStreamL cs = true := by simpa [Shape.noStream] using hn
      have ht' : Shape.hasTfrL cs = false := by simpa [Shape.hasTfr] using ht
      simp only [leaves, init]
      exact textAbs_initL cs ho hn' ht'
theorem textAbs_initL : ∀ (ss : List Shape), ownLeavesL ss = true → Shape.noStreamL ss = true → Shape.hasTfrL ss = false →
    ∀ a ∈ (leavesL ss (initL ss)).map textAbs, a = none ∨ a = some (false, {}, [])
  | [], _, _, _ => by simp [leavesL]
  | s :: ss, h, hn, ht => by
      simp only [ownLeavesL, Bool.and_eq_true] at h
      simp only [Shape.noStreamL, Bool.and_eq_true] at hn
      simp only [Shape.hasTfrL, Bool.or_eq_false_iff] at ht
      simp only [leavesL, initL, List.map_append, List.mem_append]
      intro a ha
      rcases ha with ha | ha
      · exact textAbs_init s h.1 hn.1 ht.1 a ha
      · exact textAbs_initL ss h.2 hn.2 ht.2 a ha
end

/-- **C04 (text summary).**  Below any stack of `ExtendedToOriginalDecorator`, `TestResultDecorator`, `Tagger`,
`MultiTestResult`, every `TextTestResult` writes, for a history that starts with `startTestRun`, exactly
`Spec.C04.textSpec`: the banner at each `startTestRun`; at each `stopTestRun` one section per error, failure and
unexpected success since the `startTestRun`, `Ran n` with `n` the tests started since then, and `OK` iff there is
no section, else `FAILED (failures=k)` with `k` their number. -/
theorem C04_text_summary_partial (s : Shape) (ho : ownLeaves s = true) (hn : s.noStream = true)
    (ht : s.hasTfr = false) (h : List Call) :
    ∀ out ∈ (leaves s (run s (init s) (.startTestRun :: h))).filterMap LeafSt.textOut,
      out = textSpec {} (.startTestRun :: h) := by
  intro out hout
  obtain ⟨l, hl, hlo⟩ := List.mem_filterMap.mp hout
  have hsteps := act_steps textAction s (okText_of_own s ho hn ht) (.startTestRun :: h) (init s)
  simp only [leavesAbs] at hsteps
  have hm : textAbs l ∈ (leaves s (run s (init s) (.startTestRun :: h))).map textAbs := List.mem_map_of_mem hl
  rw [show textAction.abs = textAbs from rfl, show textAction.act = textAct from rfl] at hsteps
  rw [run, hsteps] at hm
  obtain ⟨a, ha, hal⟩ := List.mem_map.mp hm
  cases l with
  | text st =>
    simp only [LeafSt.textOut, Option.some.injEq] at hlo
    rcases textAbs_init s ho hn ht a ha with rfl | rfl
    · simp [textAbs] at hal
      have : ∀ cs : List Call, cs.foldl (fun a c => textAct c a) none = none := by
        intro cs; induction cs with
        | nil => rfl
        | cons c cs ih => simpa [textAct] using ih
      rw [show textAct Call.startTestRun none = none from rfl, this] at hal; cases hal
    · simp only [List.foldl_cons] at hal
      obtain ⟨T', hT⟩ := textAct_run h {} [.running]
      rw [show textAct .startTestRun (some (false, {}, [])) = some (true, {}, [.running]) from rfl, hT] at hal
      simp only [textAbs, Option.some.injEq, Prod.mk.injEq] at hal
      rw [← hlo, ← hal.2.2]
      simp [textSpec]
  | _ => simp [LeafSt.textOut] at hlo

/-! ## fail-fast -/
/- Bookkeeping for the recursions of this section, which stop at stream decorators (what lies below an
`ExtendedToStreamDecorator` cannot be read from above: its `failfast` / `shouldStop` are its own): `cutS` has the
recursion scheme of `Shape.noStream` but accepts every graph (`cutS_all`). -/
mutual
theorem cutS_all : ∀ (s : Shape), s.cutS = true
  | .sink _ => rfl
  | .fsink _ _ _ => rfl
  | .tt _ => rfl
  | .text _ => rfl
  | .tbt => rfl
  | .e2s _ => rfl
  | .sff => rfl
  | .etod c => by simp only [Shape.cutS]; exact cutS_all c
  | .deco c => by simp only [Shape.cutS]; exact cutS_all c
  | .tagger _ _ c => by simp only [Shape.cutS]; exact cutS_all c
  | .tfr c => by simp only [Shape.cutS]; exact cutS_all c
  | .multi cs => by simp only [Shape.cutS]; exact cutSL_all cs
theorem cutSL_all : ∀ (ss : List Shape), Shape.cutSL ss = true
  | [] => rfl
  | s :: ss => by simp only [Shape.cutSL, Bool.and_eq_true]; exact ⟨cutS_all s, cutSL_all ss⟩
end

/-! ### the `ExtendedToStreamDecorator`'s own fields (`StreamFailFast(self.stop)` installed by `failfast = True`) -/
section e2sown
variable {σ : Type} (I : Iface σ)
theorem e2sAuto_fields (own : E2S) (inner : σ) :
    (e2sAuto I own inner).1.failfast = own.failfast ∧ (e2sAuto I own inner).1.started = true ∧
    ((e2sAuto I own inner).1.shouldStop = if own.started then own.shouldStop else false) := by
  unfold e2sAuto
  split
  · rename_i h; simp [h]
  · rename_i h; simp [e2sStart, h]

theorem e2s_add_own (own : E2S) (inner : σ) (k : Kind) (t : Nat) (a : Arg) :
    (e2sStep I own inner (.add k t a)).1.failfast = own.failfast ∧
    (e2sStep I own inner (.add k t a)).1.started = true ∧
    (e2sStep I own inner (.add k t a)).1.shouldStop =
      ((if own.started then own.shouldStop else false) || (own.failfast && Kind.bad k)) := by
  obtain ⟨h1, h2, h3⟩ := e2sAuto_fields I own inner
  cases k <;> simp only [e2sStep, streamKind, Kind.bad] <;>
    (generalize e2sAuto I own inner = p at h1 h2 h3; obtain ⟨o, i⟩ := p; simp only at h1 h2 h3 ⊢) <;>
    simp [h1, h2, h3] <;> (split <;> simp_all)

/-- `shouldStop` of a stream decorator that starts itself on first use -/
def e2sAutoSS (own : E2S) : Bool := if own.started then own.shouldStop else false

/-- **the stream decorator by itself**: `failfast` changes by assignment only; it is started by `startTestRun` and on
first use, for good; `shouldStop` is cleared by (an automatic) `startTestRun`, set by `stop()` and — `StreamFailFast`
calls `self.stop` — by an error / failure / unexpected success while `failfast` is set, and by nothing else -/
theorem e2s_own (own : E2S) (inner : σ) (c : Call) :
    (e2sStep I own inner c).1.failfast = (match c with | .setFailfast b => b | _ => own.failfast) ∧
    ((e2sStep I own inner c).1.started = match c with
      | .startTestRun | .startTest _ | .add .. => true | _ => own.started) ∧
    ((e2sStep I own inner c).1.shouldStop = match c with
      | .startTestRun => false
      | .startTest _ => e2sAutoSS own
      | .add k _ _ => (e2sAutoSS own || (own.failfast && Kind.bad k))
      | .stop => true
      | _ => own.shouldStop) := by
  cases c with
  | add k t a => simpa [e2sAutoSS] using e2s_add_own I own inner k t a
  | startTest t =>
    obtain ⟨h1, h2, h3⟩ := e2sAuto_fields I own inner
    simp only [e2sStep, e2sAutoSS]
    generalize e2sAuto I own inner = p at h1 h2 h3; obtain ⟨o, i⟩ := p; simp only at h1 h2 h3 ⊢
    exact ⟨h1, h2, h3⟩
  | startTestRun => simp [e2sStep, e2sStart]
  | stopTestRun => simp only [e2sStep]; split <;> simp
  | tags n g => simp only [e2sStep]; split <;> simp
  | _ => simp [e2sStep]
end e2sown

/-- the calls an outcome can turn into on its way down: none of them assigns `failfast` -/
def frameCall : Call → Bool
  | .add .. | .stop | .time _ | .startTest _ | .stopTest _ | .tags _ _ => true
  | _ => false

theorem frame_main (caps : Caps) (c : Call) (hc : frameCall c = true) : ∀ x ∈ etodMain caps c, frameCall x = true := by
  cases c <;> simp [frameCall] at hc <;> simp [etodMain, Spec.C08.degradeCall, frameCall] <;> (try split) <;> simp [frameCall]

mutual
theorem ff_frame : ∀ (s : Shape), s.cutS = true → ∀ (cs : List Call), (∀ x ∈ cs, frameCall x = true) →
    ∀ (st : St s), failfastOf s (cs.foldl (step s) st) = failfastOf s st
  | _, _, [], _, _ => rfl
  | .sink f, hn, c :: cs, hc, st => by
      rw [List.foldl_cons, ff_frame (.sink f) hn cs (fun x hx => hc x (List.mem_cons_of_mem _ hx))]
      have := hc c List.mem_cons_self
      cases c <;> simp [frameCall] at this <;> simp [failfastOf, step, sinkStep, Call.logged] <;> (repeat' split) <;> rfl
  | .fsink l0 b0 f, hn, c :: cs, hc, st => by
      rw [List.foldl_cons, ff_frame (.fsink l0 b0 f) hn cs (fun x hx => hc x (List.mem_cons_of_mem _ hx))]
      have := hc c List.mem_cons_self
      cases c <;> simp [frameCall] at this <;> simp [failfastOf, step, sinkStep, Call.logged] <;> (repeat' split) <;> rfl
  | .tt ff, hn, c :: cs, hc, st => by
      rw [List.foldl_cons, ff_frame (.tt ff) hn cs (fun x hx => hc x (List.mem_cons_of_mem _ hx))]
      have := hc c List.mem_cons_self
      cases c with
      | add k t a => cases k <;> simp [failfastOf, step, ttStep, Call.logged]
      | _ => simp [frameCall] at this <;> simp [failfastOf, step, ttStep, Call.logged]
  | .text ff, hn, c :: cs, hc, st => by
      rw [List.foldl_cons, ff_frame (.text ff) hn cs (fun x hx => hc x (List.mem_cons_of_mem _ hx))]
      have := hc c List.mem_cons_self
      cases c with
      | add k t a => cases k <;> simp [failfastOf, step, textStep, ttStep, Call.logged]
      | _ => simp [frameCall] at this <;> simp [failfastOf, step, textStep, ttStep, Call.logged]
  | .tbt, hn, c :: cs, hc, st => by
      rw [List.foldl_cons, ff_frame .tbt hn cs (fun x hx => hc x (List.mem_cons_of_mem _ hx))]
      have := hc c List.mem_cons_self
      cases c with
      | add k t a => cases k <;> simp [failfastOf, step, tbtStep, ttStep, Call.logged]
      | _ => simp [frameCall] at this <;> simp [failfastOf, step, tbtStep, ttStep, Call.logged]
  | .etod ch, hn, c :: cs, hc, (own, inner) => by
      rw [List.foldl_cons, ff_frame (.etod ch) hn cs (fun x hx => hc x (List.mem_cons_of_mem _ hx))]
      have hcf := hc c List.mem_cons_self
      obtain ⟨k, hk⟩ := etodStep_emits ⟨caps ch, step ch, failfastOf ch⟩ own inner c
      have h2 : (step (.etod ch) (own, inner) c).2
          = (etodMain (caps ch) c ++ List.replicate k Call.stop).foldl (step ch) inner := hk
      have h1 : (step (.etod ch) (own, inner) c).1.failfast = own.failfast := by
        show (etodStep ⟨caps ch, step ch, failfastOf ch⟩ own inner c).1.failfast = own.failfast
        cases c with
        | add kk t a =>
          cases kk <;> simp only [etodStep] <;> (repeat' split) <;>
            simp [etodFinally, etodStop] <;> (repeat' split) <;> rfl
        | stop => simp only [etodStep, etodStop]; split <;> rfl
        | tags n g => simp only [etodStep]; split <;> rfl
        | time d => rfl
        | startTest t => rfl
        | stopTest t => rfl
        | _ => simp [frameCall] at hcf
      simp only [failfastOf]
      rw [h1, h2, ff_frame ch (by simpa [Shape.cutS] using hn) _ (by
        intro x hx
        rcases List.mem_append.mp hx with hx | hx
        · exact frame_main _ c hcf x hx
        · rw [List.eq_of_mem_replicate hx]; rfl)]
  | .deco ch, hn, c :: cs, hc, st => by
      rw [List.foldl_cons, ff_frame (.deco ch) hn cs (fun x hx => hc x (List.mem_cons_of_mem _ hx))]
      have hcf := hc c List.mem_cons_self
      have h1 := ff_frame ch (by simpa [Shape.cutS] using hn) [c] (by simpa using hcf) st
      show failfastOf ch (step (.deco ch) st c) = failfastOf ch st
      cases c <;> first | exact h1 | simp [frameCall] at hcf
  | .tagger n g ch, hn, c :: cs, hc, st => by
      rw [List.foldl_cons, ff_frame (.tagger n g ch) hn cs (fun x hx => hc x (List.mem_cons_of_mem _ hx))]
      have hcf := hc c List.mem_cons_self
      have hn' : ch.cutS = true := by simpa [Shape.cutS] using hn
      have h1 := ff_frame ch hn' [c] (by simpa using hcf) st
      show failfastOf ch (step (.tagger n g ch) st c) = failfastOf ch st
      cases c with
      | startTest t => exact ff_frame ch hn' [.startTest t, .tags n g] (by simp [frameCall]) st
      | done => simp [frameCall] at hcf
      | _ => first | exact h1 | simp [frameCall] at hcf
  | .tfr ch, hn, c :: cs, hc, (own, inner) => by
      rw [List.foldl_cons, ff_frame (.tfr ch) hn cs (fun x hx => hc x (List.mem_cons_of_mem _ hx))]
      have hcf := hc c List.mem_cons_self
      simp only [failfastOf]
      cases c with
      | add k t a => rfl
      | tags n g => simp only [step, tfrStep]; split <;> simp [ttStep, Call.logged]
      | time d => simp [step, tfrStep, ttStep, Call.logged]
      | startTest t => simp [step, tfrStep, ttStep, Call.logged]
      | stopTest t => simp [step, tfrStep, ttStep, Call.logged]
      | stop => rfl
      | _ => simp [frameCall] at hcf
  | .multi ss, hn, c :: cs, hc, (own, inner) => by
      rw [List.foldl_cons, ff_frame (.multi ss) hn cs (fun x hx => hc x (List.mem_cons_of_mem _ hx))]
      have hcf := hc c List.mem_cons_self
      have hn' : Shape.cutSL ss = true := by simpa [Shape.cutS] using hn
      have : (step (.multi ss) (own, inner) c).2 = stepL ss inner c := by
        cases c <;> first | rfl | simp [frameCall] at hcf
      simp only [failfastOf, this, ffL_frame ss hn' c hcf inner]
  | .e2s ch, hn, c :: cs, hc, (own, inner) => by
      rw [List.foldl_cons, ff_frame (.e2s ch) hn cs (fun x hx => hc x (List.mem_cons_of_mem _ hx))]
      have hcf := hc c List.mem_cons_self
      have h1 := (e2s_own ⟨caps ch, step ch, failfastOf ch⟩ own inner c).1
      show (step (.e2s ch) (own, inner) c).1.failfast = own.failfast
      cases c <;> first | exact h1 | simp [frameCall] at hcf
  | .sff, hn, c :: cs, hc, (own, n) => by
      rw [List.foldl_cons, ff_frame (.sff) hn cs (fun x hx => hc x (List.mem_cons_of_mem _ hx))]
      have hcf := hc c List.mem_cons_self
      have h1 := (e2s_own nullTarget own () c).1
      show (step (.sff) (own, n) c).1.failfast = own.failfast
      cases c <;> first | exact h1 | simp [frameCall] at hcf
theorem ffL_frame : ∀ (ss : List Shape), Shape.cutSL ss = true → ∀ (c : Call), frameCall c = true →
    ∀ (st : StL ss), failfastL ss (stepL ss st c) = failfastL ss st
  | [], _, _, _, _ => rfl
  | s :: ss, hn, c, hc, (x, xs) => by
      simp only [Shape.cutSL, Bool.and_eq_true] at hn
      have := ff_frame s hn.1 [c] (by simpa using hc) x
      simp only [List.foldl_cons, List.foldl_nil] at this
      simp only [failfastL, stepL, this, ffL_frame ss hn.2 c hc xs]
end

theorem ss_stop (s : Shape) (hw : s.wf = true) (ho : ownLeaves s = true) (hn : s.noStream = true) (st : St s) :
    shouldStopOf s (step s st .stop) = true := (C04_stop_reaches s hw ho hn st).2

/-! ### old-flavour results behind their adapters are covered too (`adaptLeaves`) -/
mutual
theorem adapt_of_own : ∀ (s : Shape), ownLeaves s = true → adaptLeaves s = true
  | .sink _, h => by simp [ownLeaves] at h
  | .fsink _ _ _, _ => rfl
  | .tbt, h => by simp [ownLeaves] at h
  | .tt _, _ => rfl
  | .text _, _ => rfl
  | .etod c, h => by simp only [adaptLeaves]; exact adapt_of_own c (by simpa [ownLeaves] using h)
  | .deco c, h => by simp only [adaptLeaves]; exact adapt_of_own c (by simpa [ownLeaves] using h)
  | .tagger _ _ c, h => by simp only [adaptLeaves]; exact adapt_of_own c (by simpa [ownLeaves] using h)
  | .tfr c, h => by simp only [adaptLeaves]; exact adapt_of_own c (by simpa [ownLeaves] using h)
  | .e2s c, h => by simp only [adaptLeaves]; exact adapt_of_own c (by simpa [ownLeaves] using h)
  | .sff, _ => rfl
  | .multi cs, h => by simp only [adaptLeaves]; exact adapt_of_ownL cs (by simpa [ownLeaves] using h)
theorem adapt_of_ownL : ∀ (ss : List Shape), ownLeavesL ss = true → adaptLeavesL ss = true
  | [], _ => rfl
  | s :: ss, h => by
      simp only [ownLeavesL, Bool.and_eq_true] at h
      simp only [adaptLeavesL, Bool.and_eq_true]
      exact ⟨adapt_of_own s h.1, adapt_of_ownL ss h.2⟩
end

/-- every object that has `stop` has `shouldStop` and conversely -/
theorem caps_coherent (c : Shape) : (caps c).stop = (caps c).shouldStop := by
  cases c <;> simp [caps] <;> (rename_i f; cases f <;> simp [Flavour.caps])

/-- every object reported to has a `failfast` attribute -/
theorem caps_ff_wf (s : Shape) (h : s.wf = true) : (caps s).failfast = true := by
  cases s <;> simp_all [caps, Shape.wf]
  rename_i f; subst h; rfl

/-- `ExtendedToOriginalDecorator.stop()`: afterwards `shouldStop` reads true on the adapter — from the decorated result
if that has `stop` / `shouldStop`, from the adapter's own flag otherwise -/
theorem etodStop_ss (ch : Shape) (own : EtodOwn) (inner : St ch)
    (hch : shouldStopOf ch (step ch inner .stop) = true) :
    shouldStopOf (.etod ch) (etodStop ⟨caps ch, step ch, failfastOf ch⟩ own inner) = true := by
  have hco := caps_coherent ch
  cases hs : (caps ch).stop
  · simp only [etodStop, hs, Bool.false_eq_true, ite_false, shouldStopOf, ← hco]
  · simp only [etodStop, hs, ite_true, shouldStopOf, ← hco]; exact hch

theorem etodFinally_ss (ch : Shape) (p : EtodOwn × St ch)
    (hch : ∀ inner, shouldStopOf ch (step ch inner .stop) = true)
    (h : etodFailfast ⟨caps ch, step ch, failfastOf ch⟩ p.1 p.2 = true ∨ shouldStopOf (.etod ch) p = true) :
    shouldStopOf (.etod ch) (etodFinally ⟨caps ch, step ch, failfastOf ch⟩ p) = true := by
  obtain ⟨own, inner⟩ := p
  simp only [etodFinally]
  split
  · exact etodStop_ss ch own inner (hch inner)
  · rename_i hf
    rcases h with h | h
    · exact absurd h hf
    · exact h

mutual
/-- `stop()` on any object makes its `shouldStop` read true -/
theorem root_stop : ∀ (s : Shape), s.wf = true → s.cutS = true → ∀ (st : St s),
    shouldStopOf s (step s st .stop) = true
  | .sink f, _, _, st => by simp [shouldStopOf, step, sinkStep, Call.logged]
  | .fsink _ _ f, _, _, st => by simp [shouldStopOf, step, sinkStep, Call.logged]
  | .tt _, _, _, st => by simp [shouldStopOf, step, ttStep, Call.logged]
  | .text _, _, _, st => by simp [shouldStopOf, step, textStep, ttStep, Call.logged]
  | .tbt, _, _, st => by simp [shouldStopOf, step, tbtStep, ttStep, Call.logged]
  | .etod ch, hw, hn, (own, inner) => by
      show shouldStopOf (.etod ch) (etodStop ⟨caps ch, step ch, failfastOf ch⟩ own inner) = true
      refine etodStop_ss ch own inner ?_
      exact leaf_or_stop ch hw (by simpa [Shape.cutS] using hn) inner
  | .deco ch, hw, hn, st => root_stop ch (by simpa [Shape.wf] using hw) (by simpa [Shape.cutS] using hn) st
  | .tagger _ _ ch, hw, hn, st => root_stop ch (by simpa [Shape.wf] using hw) (by simpa [Shape.cutS] using hn) st
  | .tfr ch, hw, hn, (own, inner) => by
      have hwc : ch.wf = true := by cases ch <;> simp_all [Shape.wf]
      exact root_stop ch hwc (by simpa [Shape.cutS] using hn) inner
  | .e2s ch, _, _, (own, inner) => (e2s_own ⟨caps ch, step ch, failfastOf ch⟩ own inner .stop).2.2
  | .sff, _, _, (own, n) => (e2s_own nullTarget own () .stop).2.2
  | .multi ss, hw, hn, (own, inner) => by
      cases ss with
      | nil => simp [Shape.wf] at hw
      | cons d ds =>
        obtain ⟨x, xs⟩ := inner
        cases d with
        | etod e =>
          have hwd : (Shape.etod e).wf = true := by
            simp only [Shape.wf, Shape.wfL, Bool.and_eq_true] at hw; exact hw.1
          have hnd : (Shape.etod e).cutS = true := by
            simp only [Shape.cutS, Shape.cutSL, Bool.and_eq_true] at hn ⊢; exact hn.1
          have := root_stop (.etod e) hwd hnd x
          show (shouldStopOf (.etod e) (step (.etod e) x .stop) :: shouldStopL ds _).any id = true
          simp [this]
        | _ => simp [Shape.wf, Shape.wfL] at hw
/-- the target of an `ExtendedToOriginalDecorator` -/
theorem leaf_or_stop : ∀ (ch : Shape), (Shape.etod ch).wf = true → ch.cutS = true → ∀ (inner : St ch),
    shouldStopOf ch (step ch inner .stop) = true
  | .sink f, _, _, st => by simp [shouldStopOf, step, sinkStep, Call.logged]
  | .fsink _ _ f, _, _, st => by simp [shouldStopOf, step, sinkStep, Call.logged]
  | .tt ff, hw, hn, st => root_stop (.tt ff) rfl hn st
  | .text ff, hw, hn, st => root_stop (.text ff) rfl hn st
  | .tbt, hw, hn, st => root_stop .tbt rfl hn st
  | .etod c, hw, hn, st => root_stop (.etod c) (by simpa [Shape.wf] using hw) hn st
  | .deco c, hw, hn, st => root_stop (.deco c) (by simpa [Shape.wf] using hw) hn st
  | .tagger n g c, hw, hn, st => root_stop (.tagger n g c) (by simpa [Shape.wf] using hw) hn st
  | .tfr c, hw, hn, st => root_stop (.tfr c) (by simpa [Shape.wf] using hw) hn st
  | .e2s c, hw, hn, st => root_stop (.e2s c) (by simpa [Shape.wf] using hw) hn st
  | .sff, _, hn, st => root_stop .sff rfl hn st
  | .multi cs, hw, hn, st => root_stop (.multi cs) (by simpa [Shape.wf] using hw) hn st
end

/-- a failing outcome through an `ExtendedToOriginalDecorator` whose `failfast` reads true stops the run: its
`shouldStop` reads true afterwards -/
theorem etod_stops (ch : Shape) (hw : (Shape.etod ch).wf = true)
    (hn : ch.cutS = true) (own : EtodOwn) (inner : St ch) (k : Kind) (t : Nat) (a : Arg) (hk : Kind.bad k = true)
    (hff : failfastOf (.etod ch) (own, inner) = true) :
    shouldStopOf (.etod ch) (step (.etod ch) (own, inner) (.add k t a)) = true := by
  have hstop := leaf_or_stop ch hw hn
  -- the state after the outcome reached the target
  have key : ∀ (a' : Arg) (k' : Kind),
      shouldStopOf (.etod ch) (etodFinally ⟨caps ch, step ch, failfastOf ch⟩ (own, step ch inner (.add k' t a'))) = true := by
    intro a' k'
    have hfr := ff_frame ch hn [.add k' t a'] (by simp [frameCall]) inner
    simp only [List.foldl_cons, List.foldl_nil] at hfr
    refine etodFinally_ss ch _ hstop (.inl ?_)
    simp only [etodFailfast, failfastOf] at hff ⊢
    rw [hfr]; exact hff
  cases k <;> simp [Kind.bad] at hk <;> simp only [step, etodStep]
  · exact key _ _
  · exact key _ _
  · split
    · exact etodFinally_ss ch _ hstop (.inr (key _ _))
    · exact key _ _

/-- **C04 (fail-fast stops).**  On every object whose `failfast` reads true — a `TestResult` / `TextTestResult`, an
`ExtendedToOriginalDecorator` (over an own result, or over a result of an old flavour on which `failfast` was
assigned before or after wrapping, or through the adapter: then "`shouldStop` true" is the adapter's reading, see
`etodStop_ss`), a `TestResultDecorator` / `Tagger` (their `failfast` is the decorated result's), a
`MultiTestResult`, a `ThreadsafeForwardingResult` on which `failfast` was assigned and that is reported to directly
(D15) — an error, a failure or an unexpected success makes `shouldStop` true. -/
theorem failfast_stops : ∀ (s : Shape), s.wf = true → adaptLeaves s = true → s.cutS = true →
    ∀ (st : St s) (k : Kind) (t : Nat) (a : Arg), Kind.bad k = true → readFF s st = some true →
    shouldStopOf s (step s st (.add k t a)) = true
  | .sink f, hw, ho, _, _, _, _, _, _, _ => by
      have : f = .ext := by simpa [Shape.wf] using hw
      subst this; simp [adaptLeaves] at ho
  | .fsink _ _ _, hw, _, _, _, _, _, _, _, _ => by simp [Shape.wf] at hw
  | .tbt, _, ho, _, _, _, _, _, _, _ => by simp [adaptLeaves] at ho
  | .tt ff, _, _, _, st, k, t, a, hk, hff => by
      simp only [readFF, caps, failfastOf, ite_true, Option.some.injEq] at hff
      cases k <;> simp [Kind.bad] at hk <;> simp [shouldStopOf, step, ttStep, hff, Call.logged]
  | .text ff, _, _, _, st, k, t, a, hk, hff => by
      simp only [readFF, caps, failfastOf, ite_true, Option.some.injEq] at hff
      cases k <;> simp [Kind.bad] at hk <;> simp [shouldStopOf, step, textStep, ttStep, hff, Call.logged]
  | .etod ch, hw, _, hn, (own, inner), k, t, a, hk, hff => by
      simp only [readFF, caps, ite_true, Option.some.injEq] at hff
      exact etod_stops ch hw (by simpa [Shape.cutS] using hn) own inner k t a hk hff
  | .deco ch, hw, ho, hn, st, k, t, a, hk, hff => by
      have hwc : ch.wf = true := by simpa [Shape.wf] using hw
      have hff' : readFF ch st = some true := by
        simp only [readFF, caps, ite_true, Option.some.injEq, failfastOf] at hff
        simp only [readFF, caps_ff_wf ch hwc, ite_true, hff]
      exact failfast_stops ch hwc (by simpa [adaptLeaves] using ho) (by simpa [Shape.cutS] using hn) st k t a hk hff'
  | .tagger n g ch, hw, ho, hn, st, k, t, a, hk, hff => by
      have hwc : ch.wf = true := by simpa [Shape.wf] using hw
      have hff' : readFF ch st = some true := by
        simp only [readFF, caps, ite_true, Option.some.injEq, failfastOf] at hff
        simp only [readFF, caps_ff_wf ch hwc, ite_true, hff]
      exact failfast_stops ch hwc (by simpa [adaptLeaves] using ho) (by simpa [Shape.cutS] using hn) st k t a hk hff'
  | .tfr ch, hw, _, hn, (own, inner), k, t, a, hk, hff => by
      have hf : own.tt.failfast = true := by simpa [readFF, caps, failfastOf] using hff
      have hwc : ch.wf = true := by cases ch <;> simp_all [Shape.wf]
      have hp : k.passing = false := by rw [bad_iff_not_passing] at hk; simpa using hk
      show shouldStopOf ch ((tfrBlock own k t a ++ tfrStops own k).foldl (step ch) inner) = true
      rw [tfrStops_on own k hf hp, List.foldl_append]
      exact root_stop ch hwc (by simpa [Shape.cutS] using hn) _
  | .e2s ch, _, _, _, (own, inner), k, t, a, hk, hff => by
      have hf : own.failfast = true := by simpa [readFF, caps, failfastOf] using hff
      have h := (e2s_own ⟨caps ch, step ch, failfastOf ch⟩ own inner (.add k t a)).2.2
      show (e2sStep ⟨caps ch, step ch, failfastOf ch⟩ own inner (.add k t a)).1.shouldStop = true
      rw [h]; simp [hf, hk]
  | .sff, _, _, _, (own, n), k, t, a, hk, hff => by
      have hf : own.failfast = true := by simpa [readFF, caps, failfastOf] using hff
      have h := (e2s_own nullTarget own () (.add k t a)).2.2
      show (e2sStep nullTarget own () (.add k t a)).1.shouldStop = true
      rw [h]; simp [hf, hk]
  | .multi ss, hw, _, hn, (own, inner), k, t, a, hk, hff => by
      cases ss with
      | nil => simp [Shape.wf] at hw
      | cons d ds =>
        obtain ⟨x, xs⟩ := inner
        cases d with
        | etod e =>
          simp only [readFF, caps, ite_true, failfastOf, failfastL, List.headD_cons, Option.some.injEq] at hff
          have hwd : (Shape.etod e).wf = true := by
            simp only [Shape.wf, Shape.wfL, Bool.and_eq_true] at hw; exact hw.1
          have hnd : e.cutS = true := by
            simp only [Shape.cutS, Shape.cutSL, Bool.and_eq_true] at hn; exact hn.1
          obtain ⟨own', inner'⟩ := x
          have := etod_stops e hwd hnd own' inner' k t a hk hff
          have hstep : step (.multi (.etod e :: ds)) (own, ((own', inner'), xs)) (.add k t a)
              = (multiOwn own (.add k t a), (step (.etod e) (own', inner') (.add k t a), stepL ds xs (.add k t a))) := rfl
          rw [hstep]
          show (shouldStopOf (.etod e) (step (.etod e) (own', inner') (.add k t a)) :: shouldStopL ds _).any id = true
          simp [this]
        | _ => simp [Shape.wf, Shape.wfL] at hw

/-- **C04 (fail-fast stops).**  `failfast_stops` for every well-formed graph — stream pipelines included: on an
`ExtendedToStreamDecorator` with `failfast` set (a `StreamFailFast` whose `on_error` is the decorator's own `stop`) an
error, a failure or an unexpected success sets the decorator's `shouldStop` (`e2s_own`); an expected failure, a skip or
a success does not. -/
theorem C04_failfast_stops (s : Shape) (hw : s.wf = true) (ho : adaptLeaves s = true)
    (st : St s) (k : Kind) (t : Nat) (a : Arg) (hk : Kind.bad k = true) (hff : readFF s st = some true) :
    shouldStopOf s (step s st (.add k t a)) = true :=
  failfast_stops s hw ho (cutS_all s) st k t a hk hff

/-! ### `shouldStop` stays set until the next `startTestRun` -/
theorem main_noRun (caps : Caps) (c : Call) (hc : c ≠ .startTestRun) : ∀ x ∈ etodMain caps c, x ≠ .startTestRun := by
  cases c <;> simp [etodMain, Spec.C08.degradeCall] at hc ⊢ <;> (try split) <;> simp

theorem tfrStops_noRun (own : TfrOwn) (k : Kind) : ∀ x ∈ tfrStops own k, x ≠ Call.startTestRun := by
  intro x hx; rw [mem_tfrStops own k x hx]; simp

theorem tfrBlock_noRun (own : TfrOwn) (k : Kind) (t : Nat) (a : Arg) :
    ∀ x ∈ tfrBlock own k t a, x ≠ Call.startTestRun := by
  have : (tfrBlock own k t a).all (fun x => x != Call.startTestRun) = true := by
    cases h1 : anyTags own.globalTags <;> cases h2 : anyTags own.testTags <;> simp [tfrBlock, h1, h2]
  intro x hx
  have := List.all_eq_true.mp this x hx
  simpa using this

theorem tt_ss_mono (s : TT) (c : Call) (hc : c ≠ .startTestRun) (h : s.shouldStop = true) : (ttStep s c).shouldStop = true := by
  cases c with
  | add k t a => cases k <;> simp [ttStep, h, Call.logged]
  | startTestRun => exact absurd rfl hc
  | _ => simp [ttStep, h, Call.logged]

section ownflag
variable {σ : Type} (I : Iface σ)
/-- the adapter's own `_shouldStop` is never reset -/
theorem etodStop_own_ss (own : EtodOwn) (inner : σ) (h : own.shouldStop = true) :
    (etodStop I own inner).1.shouldStop = true := by
  unfold etodStop; split <;> simp [h]
theorem etodFinally_own_ss (p : EtodOwn × σ) (h : p.1.shouldStop = true) : (etodFinally I p).1.shouldStop = true := by
  unfold etodFinally; split
  · exact etodStop_own_ss I _ _ h
  · exact h
theorem etodStep_own_ss (own : EtodOwn) (inner : σ) (c : Call) (hc : c ≠ .startTestRun) (h : own.shouldStop = true) :
    (etodStep I own inner c).1.shouldStop = true := by
  cases c with
  | startTestRun => exact absurd rfl hc
  | add k t a =>
    cases k <;> simp only [etodStep] <;> (try split) <;>
      first
        | exact h
        | exact etodFinally_own_ss I _ h
        | exact etodFinally_own_ss I _ (etodFinally_own_ss I _ h)
        | (split <;> exact h)
  | stop => exact etodStop_own_ss I _ _ h
  | tags n g => simp only [etodStep]; split <;> exact h
  | setFailfast b => simp only [etodStep]; split <;> exact h
  | _ => exact h
end ownflag

/-! ### started stream decorators -/
/- every `ExtendedToStreamDecorator` that can be read from the object (i.e. not below another one) has been started -/
mutual
def Started : (s : Shape) → St s → Prop
  | .e2s _, (own, _) => own.started = true
  | .sff, (own, _) => own.started = true
  | .etod c, (_, inner) => Started c inner
  | .deco c, st => Started c st
  | .tagger _ _ c, st => Started c st
  | .tfr c, (_, inner) => Started c inner
  | .multi cs, (_, inner) => StartedL cs inner
  | .sink _, _ => True
  | .fsink _ _ _, _ => True
  | .tt _, _ => True
  | .text _, _ => True
  | .tbt, _ => True
def StartedL : (cs : List Shape) → StL cs → Prop
  | [], _ => True
  | c :: cs, (x, xs) => Started c x ∧ StartedL cs xs
end

mutual
/-- once started, for good -/
theorem started_steps : ∀ (s : Shape) (cs : List Call) (st : St s), Started s st → Started s (cs.foldl (step s) st)
  | _, [], _, h => h
  | .sink _, _ :: _, _, _ => trivial
  | .fsink _ _ _, _ :: _, _, _ => trivial
  | .tt _, _ :: _, _, _ => trivial
  | .text _, _ :: _, _, _ => trivial
  | .tbt, _ :: _, _, _ => trivial
  | .e2s ch, c :: cs, (own, inner), h => by
      rw [List.foldl_cons]
      refine started_steps (.e2s ch) cs _ ?_
      have h2 := (e2s_own ⟨caps ch, step ch, failfastOf ch⟩ own inner c).2.1
      show (e2sStep ⟨caps ch, step ch, failfastOf ch⟩ own inner c).1.started = true
      rw [h2]
      have hs : own.started = true := h
      cases c <;> first | rfl | exact hs
  | .sff, c :: cs, (own, n), h => by
      rw [List.foldl_cons]
      refine started_steps (.sff) cs _ ?_
      have h2 := (e2s_own nullTarget own () c).2.1
      show (e2sStep nullTarget own () c).1.started = true
      rw [h2]
      have hs : own.started = true := h
      cases c <;> first | rfl | exact hs
  | .etod ch, c :: cs, (own, inner), h => by
      rw [List.foldl_cons]
      refine started_steps (.etod ch) cs _ ?_
      obtain ⟨k, hk⟩ := etodStep_emits ⟨caps ch, step ch, failfastOf ch⟩ own inner c
      have h2 : (step (.etod ch) (own, inner) c).2
          = (etodMain (caps ch) c ++ List.replicate k Call.stop).foldl (step ch) inner := hk
      show Started ch (step (.etod ch) (own, inner) c).2
      rw [h2]; exact started_steps ch _ inner h
  | .deco ch, c :: cs, st, h => by
      rw [List.foldl_cons]
      refine started_steps (.deco ch) cs _ ?_
      have h1 := started_steps ch [c] st h
      show Started ch (step (.deco ch) st c)
      cases c <;> first | exact h1 | exact h
  | .tagger n g ch, c :: cs, st, h => by
      rw [List.foldl_cons]
      refine started_steps (.tagger n g ch) cs _ ?_
      have h1 := started_steps ch [c] st h
      show Started ch (step (.tagger n g ch) st c)
      cases c with
      | startTest t => exact started_steps ch [.startTest t, .tags n g] st h
      | done => exact h
      | _ => exact h1
  | .tfr ch, c :: cs, (own, inner), h => by
      rw [List.foldl_cons]
      refine started_steps (.tfr ch) cs _ ?_
      show Started ch (step (.tfr ch) (own, inner) c).2
      cases c with
      | add k t a => exact started_steps ch (tfrBlock own k t a ++ tfrStops own k) inner h
      | startTestRun => exact started_steps ch [.startTestRun] inner h
      | stopTestRun => exact started_steps ch [.stopTestRun] inner h
      | stop => exact started_steps ch [.stop] inner h
      | done => exact started_steps ch [.done] inner h
      | tags n g =>
        have e : (step (.tfr ch) (own, inner) (.tags n g)).2 = inner := by simp only [step, tfrStep]; try (split <;> rfl)
        rw [e]; exact h
      | _ => exact h
  | .multi ss, c :: cs, (own, inner), h => by
      rw [List.foldl_cons]
      refine started_steps (.multi ss) cs _ ?_
      show StartedL ss (step (.multi ss) (own, inner) c).2
      have h1 := startedL_step ss c inner h
      cases c with
      | progress => exact h
      | _ => exact h1
theorem startedL_step : ∀ (ss : List Shape) (c : Call) (st : StL ss), StartedL ss st → StartedL ss (stepL ss st c)
  | [], _, _, _ => trivial
  | s :: ss, c, (x, xs), h => ⟨by simpa using started_steps s [c] x h.1, startedL_step ss c xs h.2⟩
end

theorem started_step (s : Shape) (st : St s) (c : Call) (h : Started s st) : Started s (step s st c) := by
  simpa using started_steps s [c] st h

mutual
/-- `startTestRun` starts every stream decorator that can be read from the object -/
theorem started_run : ∀ (s : Shape) (st : St s), Started s (step s st .startTestRun)
  | .sink _, _ => trivial
  | .fsink _ _ _, _ => trivial
  | .tt _, _ => trivial
  | .text _, _ => trivial
  | .tbt, _ => trivial
  | .e2s ch, (own, inner) => (e2s_own ⟨caps ch, step ch, failfastOf ch⟩ own inner .startTestRun).2.1
  | .sff, (own, n) => (e2s_own nullTarget own () .startTestRun).2.1
  | .etod ch, (own, inner) => by
      show Started ch (step (.etod ch) (own, inner) .startTestRun).2
      simp only [step, etodStep]
      split
      · exact started_run ch inner
      · rename_i hr
        -- only the old flavours have no `startTestRun`
        cases ch <;> simp_all [caps] <;> trivial
  | .deco ch, st => started_run ch st
  | .tagger _ _ ch, st => started_run ch st
  | .tfr ch, (_, inner) => started_run ch inner
  | .multi ss, (_, inner) => startedL_run ss inner
theorem startedL_run : ∀ (ss : List Shape) (st : StL ss), StartedL ss (stepL ss st .startTestRun)
  | [], _ => trivial
  | s :: ss, (x, xs) => ⟨started_run s x, startedL_run ss xs⟩
end

mutual
/-- without stream decorators nothing needs starting -/
theorem started_of_noE2s : ∀ (s : Shape), Spec.C17.Shape.hasE2s s = false → ∀ (st : St s), Started s st
  | .sink _, _, _ => trivial
  | .fsink _ _ _, _, _ => trivial
  | .tt _, _, _ => trivial
  | .text _, _, _ => trivial
  | .tbt, _, _ => trivial
  | .e2s _, h, _ => by simp [Spec.C17.Shape.hasE2s] at h
  | .sff, h, _ => by simp [Spec.C17.Shape.hasE2s] at h
  | .etod c, h, (_, inner) => started_of_noE2s c (by simpa [Spec.C17.Shape.hasE2s] using h) inner
  | .deco c, h, st => started_of_noE2s c (by simpa [Spec.C17.Shape.hasE2s] using h) st
  | .tagger _ _ c, h, st => started_of_noE2s c (by simpa [Spec.C17.Shape.hasE2s] using h) st
  | .tfr c, h, (_, inner) => started_of_noE2s c (by simpa [Spec.C17.Shape.hasE2s] using h) inner
  | .multi cs, h, (_, inner) => startedL_of_noE2s cs (by simpa [Spec.C17.Shape.hasE2s] using h) inner
theorem startedL_of_noE2s : ∀ (ss : List Shape), Spec.C17.Shape.hasE2sL ss = false → ∀ (st : StL ss), StartedL ss st
  | [], _, _ => trivial
  | s :: ss, h, (x, xs) => by
      simp only [Spec.C17.Shape.hasE2sL, Bool.or_eq_false_iff] at h
      exact ⟨started_of_noE2s s h.1 x, startedL_of_noE2s ss h.2 xs⟩
end

mutual
theorem ss_mono : ∀ (s : Shape), adaptLeaves s = true → s.cutS = true → ∀ (cs : List Call),
    (∀ x ∈ cs, x ≠ Call.startTestRun) → ∀ (st : St s), Started s st → shouldStopOf s st = true →
    shouldStopOf s (cs.foldl (step s) st) = true
  | _, _, _, [], _, _, _, h => h
  | .sink f, ho, hn, c :: cs, hc, st, hst, h => by
      rw [List.foldl_cons]
      refine ss_mono (.sink f) ho hn cs (fun x hx => hc x (List.mem_cons_of_mem _ hx)) _ (started_step _ _ _ hst) ?_
      simp only [shouldStopOf] at h ⊢
      cases c <;> simp [step, sinkStep, h, Call.logged] <;> (repeat' split) <;> simp [h]
  | .fsink l b f, ho, hn, c :: cs, hc, st, hst, h => by
      rw [List.foldl_cons]
      refine ss_mono (.fsink l b f) ho hn cs (fun x hx => hc x (List.mem_cons_of_mem _ hx)) _ (started_step _ _ _ hst) ?_
      simp only [shouldStopOf] at h ⊢
      cases c <;> simp [step, sinkStep, h, Call.logged] <;> (repeat' split) <;> simp [h]
  | .tbt, ho, _, _ :: _, _, _, _, _ => by simp [adaptLeaves] at ho
  | .tt ff, ho, hn, c :: cs, hc, st, hst, h => by
      rw [List.foldl_cons]
      exact ss_mono (.tt ff) ho hn cs (fun x hx => hc x (List.mem_cons_of_mem _ hx)) _ (started_step _ _ _ hst)
        (tt_ss_mono st c (hc c List.mem_cons_self) h)
  | .text ff, ho, hn, c :: cs, hc, st, hst, h => by
      rw [List.foldl_cons]
      refine ss_mono (.text ff) ho hn cs (fun x hx => hc x (List.mem_cons_of_mem _ hx)) _ (started_step _ _ _ hst) ?_
      have := tt_ss_mono st.tt c (hc c List.mem_cons_self) h
      cases c <;> simpa [shouldStopOf, step, textStep] using this
  | .etod ch, ho, hn, c :: cs, hc, (own, inner), hst, h => by
      rw [List.foldl_cons]
      have ho' : adaptLeaves ch = true := by simpa [adaptLeaves] using ho
      have hn' : ch.cutS = true := by simpa [Shape.cutS] using hn
      refine ss_mono (.etod ch) ho hn cs (fun x hx => hc x (List.mem_cons_of_mem _ hx)) _ (started_step _ _ _ hst) ?_
      obtain ⟨k, hk⟩ := etodStep_emits ⟨caps ch, step ch, failfastOf ch⟩ own inner c
      have h2 : (step (.etod ch) (own, inner) c).2
          = (etodMain (caps ch) c ++ List.replicate k Call.stop).foldl (step ch) inner := hk
      cases hss : (caps ch).shouldStop
      · simp only [shouldStopOf, hss, Bool.false_eq_true, ite_false] at h ⊢
        exact etodStep_own_ss ⟨caps ch, step ch, failfastOf ch⟩ own inner c (hc c List.mem_cons_self) h
      · simp only [shouldStopOf, hss, ite_true] at h ⊢
        rw [h2]
        refine ss_mono ch ho' hn' _ ?_ inner hst h
        intro x hx
        rcases List.mem_append.mp hx with hx | hx
        · exact main_noRun _ c (hc c List.mem_cons_self) x hx
        · rw [List.eq_of_mem_replicate hx]; simp
  | .deco ch, ho, hn, c :: cs, hc, st, hst, h => by
      rw [List.foldl_cons]
      have ho' : adaptLeaves ch = true := by simpa [adaptLeaves] using ho
      have hn' : ch.cutS = true := by simpa [Shape.cutS] using hn
      refine ss_mono (.deco ch) ho hn cs (fun x hx => hc x (List.mem_cons_of_mem _ hx)) _ (started_step _ _ _ hst) ?_
      have h1 := ss_mono ch ho' hn' [c] (by simpa using hc c List.mem_cons_self) st hst h
      simp only [shouldStopOf] at h ⊢
      cases c <;> first | exact h1 | exact h
  | .tagger n g ch, ho, hn, c :: cs, hc, st, hst, h => by
      rw [List.foldl_cons]
      have ho' : adaptLeaves ch = true := by simpa [adaptLeaves] using ho
      have hn' : ch.cutS = true := by simpa [Shape.cutS] using hn
      refine ss_mono (.tagger n g ch) ho hn cs (fun x hx => hc x (List.mem_cons_of_mem _ hx)) _ (started_step _ _ _ hst) ?_
      have h1 := ss_mono ch ho' hn' [c] (by simpa using hc c List.mem_cons_self) st hst h
      simp only [shouldStopOf] at h ⊢
      cases c with
      | startTest t => exact ss_mono ch ho' hn' [.startTest t, .tags n g] (by simp) st hst h
      | done => exact h
      | _ => exact h1
  | .tfr ch, ho, hn, c :: cs, hc, (own, inner), hst, h => by
      rw [List.foldl_cons]
      have ho' : adaptLeaves ch = true := by simpa [adaptLeaves] using ho
      have hn' : ch.cutS = true := by simpa [Shape.cutS] using hn
      refine ss_mono (.tfr ch) ho hn cs (fun x hx => hc x (List.mem_cons_of_mem _ hx)) _ (started_step _ _ _ hst) ?_
      simp only [shouldStopOf] at h ⊢
      have hcn := hc c List.mem_cons_self
      cases c with
      | add k t a =>
        refine ss_mono ch ho' hn' (tfrBlock own k t a ++ tfrStops own k) ?_ inner hst h
        intro x hx
        rcases List.mem_append.mp hx with hx | hx
        · exact tfrBlock_noRun own k t a x hx
        · exact tfrStops_noRun own k x hx
      | startTestRun => exact absurd rfl hcn
      | stopTestRun => exact ss_mono ch ho' hn' [.stopTestRun] (by simp) inner hst h
      | stop => exact ss_mono ch ho' hn' [.stop] (by simp) inner hst h
      | done => exact ss_mono ch ho' hn' [.done] (by simp) inner hst h
      | _ => exact h
  | .multi ss, ho, hn, c :: cs, hc, (own, inner), hst, h => by
      rw [List.foldl_cons]
      have ho' : adaptLeavesL ss = true := by simpa [adaptLeaves] using ho
      have hn' : Shape.cutSL ss = true := by simpa [Shape.cutS] using hn
      refine ss_mono (.multi ss) ho hn cs (fun x hx => hc x (List.mem_cons_of_mem _ hx)) _ (started_step _ _ _ hst) ?_
      have hcn := hc c List.mem_cons_self
      simp only [shouldStopOf] at h ⊢
      have h1 := ssL_mono ss ho' hn' c hcn inner hst h
      cases c <;> first | exact h1 | exact h | exact absurd rfl hcn
  | .e2s ch, ho, hn, c :: cs, hc, (own, inner), hst, h => by
      rw [List.foldl_cons]
      refine ss_mono (.e2s ch) ho hn cs (fun x hx => hc x (List.mem_cons_of_mem _ hx)) _ (started_step _ _ _ hst) ?_
      have hcn := hc c List.mem_cons_self
      have hs : own.started = true := hst
      have h0 : own.shouldStop = true := h
      have h3 := (e2s_own ⟨caps ch, step ch, failfastOf ch⟩ own inner c).2.2
      show (e2sStep ⟨caps ch, step ch, failfastOf ch⟩ own inner c).1.shouldStop = true
      rw [h3]
      cases c <;> first | exact h0 | exact absurd rfl hcn | simp [e2sAutoSS, hs, h0]
  | .sff, ho, hn, c :: cs, hc, (own, n), hst, h => by
      rw [List.foldl_cons]
      refine ss_mono (.sff) ho hn cs (fun x hx => hc x (List.mem_cons_of_mem _ hx)) _ (started_step _ _ _ hst) ?_
      have hcn := hc c List.mem_cons_self
      have hs : own.started = true := hst
      have h0 : own.shouldStop = true := h
      have h3 := (e2s_own nullTarget own () c).2.2
      show (e2sStep nullTarget own () c).1.shouldStop = true
      rw [h3]
      cases c <;> first | exact h0 | exact absurd rfl hcn | simp [e2sAutoSS, hs, h0]
theorem ssL_mono : ∀ (ss : List Shape), adaptLeavesL ss = true → Shape.cutSL ss = true → ∀ (c : Call),
    c ≠ Call.startTestRun → ∀ (st : StL ss), StartedL ss st → (shouldStopL ss st).any id = true →
    (shouldStopL ss (stepL ss st c)).any id = true
  | [], _, _, _, _, _, _, h => by simp [shouldStopL] at h
  | s :: ss, ho, hn, c, hc, (x, xs), hst, h => by
      simp only [adaptLeavesL, Bool.and_eq_true] at ho
      simp only [Shape.cutSL, Bool.and_eq_true] at hn
      simp only [shouldStopL, stepL, List.any_cons, id, Bool.or_eq_true] at h ⊢
      rcases h with h | h
      · left
        have := ss_mono s ho.1 hn.1 [c] (by simpa using hc) x hst.1 h
        simpa using this
      · right; exact ssL_mono ss ho.2 hn.2 c hc xs hst.2 h
end

/-- **C04 (stop is sticky).**  Once `shouldStop` is set it stays set under every call except `startTestRun` — on every
graph, stream pipelines included, provided every `ExtendedToStreamDecorator` that can be read from the object has been
started (`Started`: explicitly, or by its first `startTest` / outcome; an unstarted one starts itself at the next
`startTest` / outcome, which is a `startTestRun`). -/
theorem C04_stop_sticky (s : Shape) (ho : adaptLeaves s = true) (st : St s) (c : Call)
    (hc : c ≠ .startTestRun) (hst : Started s st) (h : shouldStopOf s st = true) : shouldStopOf s (step s st c) = true := by
  have := ss_mono s ho (cutS_all s) [c] (by simpa using hc) st hst h
  simpa using this

theorem sticky_states (s : Shape) (ho : adaptLeaves s = true) :
    ∀ (h : List Call) (st : St s), Started s st → sticky (shouldStopOf s st) h ((states s st h).map (observe s)) = true
  | [], _, _ => rfl
  | c :: h, st, hst => by
      simp only [states, List.map_cons, sticky, Bool.and_eq_true, Bool.or_eq_true, Bool.not_eq_true']
      refine ⟨?_, sticky_states s ho h _ (started_step _ _ _ hst)⟩
      by_cases h1 : shouldStopOf s st = true
      · by_cases hc : c = .startTestRun
        · left; simp [hc]
        · right; exact C04_stop_sticky s ho st c hc hst h1
      · left; simp [h1]

/-! ### not earlier: without `stop()` and without fail-fast nothing sets `shouldStop` -/
/- nothing that `shouldStop` of the object reads is set: no result down to (and including) the first stream decorator on
each path — what lies below an `ExtendedToStreamDecorator` is not read from above -/
mutual
def Calm : (s : Shape) → St s → Prop
  | .sink _, st => st.shouldStop = false
  | .fsink _ _ _, st => st.shouldStop = false
  | .tt _, st => st.shouldStop = false
  | .text _, st => st.tt.shouldStop = false
  | .tbt, st => st.tt.shouldStop = false
  | .etod c, (own, inner) => if (caps c).shouldStop then Calm c inner else own.shouldStop = false
  | .deco c, st => Calm c st
  | .tagger _ _ c, st => Calm c st
  | .tfr c, (_, inner) => Calm c inner
  | .multi cs, (_, inner) => CalmL cs inner
  | .e2s _, (own, _) => own.shouldStop = false
  | .sff, (own, _) => own.shouldStop = false
def CalmL : (cs : List Shape) → StL cs → Prop
  | [], _ => True
  | c :: cs, (x, xs) => Calm c x ∧ CalmL cs xs
end

/- `failfast` is set nowhere in the graph -/
mutual
def FFree : (s : Shape) → St s → Prop
  | .sink _, st => st.failfast = false
  | .fsink _ _ _, st => st.failfast = false
  | .tt _, st => st.failfast = false
  | .text _, st => st.tt.failfast = false
  | .tbt, st => st.tt.failfast = false
  | .etod c, (own, inner) => own.failfast = false ∧ FFree c inner
  | .deco c, st => FFree c st
  | .tagger _ _ c, st => FFree c st
  | .tfr c, (own, inner) => own.tt.failfast = false ∧ FFree c inner
  | .multi cs, (_, inner) => FFreeL cs inner
  | .e2s _, (own, _) => own.failfast = false
  | .sff, (own, _) => own.failfast = false
def FFreeL : (cs : List Shape) → StL cs → Prop
  | [], _ => True
  | c :: cs, (x, xs) => FFree c x ∧ FFreeL cs xs
end

mutual
theorem ffree_read : ∀ (s : Shape) (st : St s), FFree s st → failfastOf s st = false
  | .sink _, _, h => h
  | .fsink _ _ _, _, h => h
  | .tt _, _, h => h
  | .text _, _, h => h
  | .tbt, _, h => h
  | .etod c, (own, inner), h => by
      simp only [failfastOf]; split
      · exact ffree_read c inner h.2
      · exact h.1
  | .deco c, st, h => ffree_read c st h
  | .tagger _ _ c, st, h => ffree_read c st h
  | .tfr _, (own, _), h => h.1
  | .e2s _, (own, _), h => h
  | .sff, (own, _), h => h
  | .multi cs, (_, inner), h => by
      simp only [failfastOf]
      have := ffreeL_read cs inner h
      cases hl : failfastL cs inner with
      | nil => rfl
      | cons b bs => rw [hl] at this; simpa using this b (by simp)
theorem ffreeL_read : ∀ (ss : List Shape) (st : StL ss), FFreeL ss st → ∀ b ∈ failfastL ss st, b = false
  | [], _, _ => by simp [failfastL]
  | s :: ss, (x, xs), h => by
      simp only [failfastL, List.mem_cons]
      intro b hb
      rcases hb with rfl | hb
      · exact ffree_read s x h.1
      · exact ffreeL_read ss xs h.2 b hb
end

section exact
variable {σ : Type} (I : Iface σ)
/-- without fail-fast firing, an `ExtendedToOriginalDecorator` sends exactly the forwarded form of the call -/
theorem etodStep_exact (own : EtodOwn) (inner : σ) (c : Call) (hc : c ≠ .stop)
    (hff : isBadAdd c = true → etodFailfast I own ((etodMain I.caps c).foldl I.step inner) = false) :
    (etodStep I own inner c).2 = (etodMain I.caps c).foldl I.step inner := by
  cases c with
  | add k t a =>
    have fin : ∀ (p : EtodOwn × σ), etodFailfast I p.1 p.2 = false → etodFinally I p = p := by
      intro p h; simp [etodFinally, h]
    cases k <;> simp only [etodStep, etodMain, Spec.C08.degradeCall, Spec.C08.degradeKind, Spec.C08.degradeArg,
      List.foldl_cons, List.foldl_nil, isBadAdd, Kind.bad, forall_const] at hff ⊢
    · cases a <;> rfl
    · rw [fin _ (by cases a <;> simpa using hff)]
      cases a <;> rfl
    · rw [fin _ (by cases a <;> simpa using hff)]
      cases a <;> rfl
    · split <;> cases a <;> simp_all
    · split <;> cases a <;> simp_all
    · by_cases hu : I.caps.uxs = true
      · simp only [hu, Bool.not_true, Bool.false_eq_true, ite_false, ite_true] at hff ⊢
        rw [fin _ (by cases a <;> simpa using hff)]
        cases a <;> rfl
      · simp only [hu, Bool.not_false, ite_true, Bool.false_eq_true, ite_false] at hff ⊢
        have h1 := fin (own, I.step inner (.add .failure t (.exc .synth))) (by simpa using hff)
        rw [h1, h1]
  | stop => exact absurd rfl hc
  | startTest t => rfl
  | stopTest t => rfl
  | startTestRun => simp only [etodStep, etodMain]; split <;> simp
  | stopTestRun => simp only [etodStep, etodMain]; split <;> simp
  | tags n g => simp only [etodStep, etodMain]; split <;> simp
  | time d => simp only [etodStep, etodMain]; split <;> simp
  | progress => simp only [etodStep, etodMain]; split <;> simp
  | done => simp only [etodStep, etodMain]; split <;> simp
  | setFailfast b => simp only [etodStep, etodMain]; split <;> simp

/-- without `stop()` and without fail-fast firing the adapter's own `_shouldStop` is not set (and `startTestRun` clears it) -/
theorem etodStep_exact_own (own : EtodOwn) (inner : σ) (c : Call) (hc : c ≠ .stop)
    (hff : isBadAdd c = true → etodFailfast I own ((etodMain I.caps c).foldl I.step inner) = false)
    (h0 : own.shouldStop = false) : (etodStep I own inner c).1.shouldStop = false := by
  cases c with
  | add k t a =>
    have fin : ∀ (p : EtodOwn × σ), etodFailfast I p.1 p.2 = false → etodFinally I p = p := by
      intro p h; simp [etodFinally, h]
    cases k <;> simp only [etodStep, etodMain, Spec.C08.degradeCall, Spec.C08.degradeKind, Spec.C08.degradeArg,
      List.foldl_cons, List.foldl_nil, isBadAdd, Kind.bad, forall_const] at hff ⊢
    · exact h0
    · rw [fin _ (by cases a <;> simpa using hff)]; exact h0
    · rw [fin _ (by cases a <;> simpa using hff)]; exact h0
    · split
      · exact h0
      · cases a <;> exact h0
    · split <;> exact h0
    · by_cases hu : I.caps.uxs = true
      · simp only [hu, Bool.not_true, Bool.false_eq_true, ite_false, ite_true] at hff ⊢
        rw [fin _ (by cases a <;> simpa using hff)]; exact h0
      · simp only [hu, Bool.not_false, ite_true, Bool.false_eq_true, ite_false] at hff ⊢
        have h1 := fin (own, I.step inner (.add .failure t (.exc .synth))) (by simpa using hff)
        rw [h1, h1]; exact h0
  | stop => exact absurd rfl hc
  | startTestRun => rfl
  | tags n g => simp only [etodStep]; split <;> exact h0
  | setFailfast b => simp only [etodStep]; split <;> exact h0
  | _ => exact h0

/-- the decorator's own `failfast` changes only by an assignment that the target cannot take -/
theorem etodStep_ownff (own : EtodOwn) (inner : σ) (c : Call) :
    (etodStep I own inner c).1.failfast =
      match c with
      | .setFailfast b => if I.caps.failfast then own.failfast else b
      | _ => own.failfast := by
  cases c with
  | add k t a =>
    cases k <;> simp only [etodStep] <;> (repeat' split) <;> simp [etodFinally, etodStop] <;> (repeat' split) <;> rfl
  | stop => simp only [etodStep, etodStop]; split <;> rfl
  | tags n g => simp only [etodStep]; split <;> rfl
  | setFailfast b => simp only [etodStep]; split <;> rfl
  | _ => rfl
end exact

def notFFTrue : Call → Bool
  | .setFailfast true => false
  | _ => true

theorem main_notFF (caps : Caps) (c : Call) (hc : notFFTrue c = true) : ∀ x ∈ etodMain caps c, notFFTrue x = true := by
  cases c <;> simp [etodMain, Spec.C08.degradeCall, notFFTrue] at hc ⊢ <;> (try split) <;> simp_all [notFFTrue]

theorem tfrBlock_notFF (own : TfrOwn) (k : Kind) (t : Nat) (a : Arg) : ∀ x ∈ tfrBlock own k t a, notFFTrue x = true := by
  have : (tfrBlock own k t a).all notFFTrue = true := by
    cases h1 : anyTags own.globalTags <;> cases h2 : anyTags own.testTags <;> simp [tfrBlock, h1, h2, notFFTrue]
  exact fun x hx => List.all_eq_true.mp this x hx

theorem tt_ffree (s : TT) (c : Call) (hc : notFFTrue c = true) (h : s.failfast = false) : (ttStep s c).failfast = false := by
  cases c with
  | add k t a => cases k <;> simp [ttStep, h, Call.logged]
  | setFailfast b => cases b <;> simp [notFFTrue] at hc; simp [ttStep, Call.logged]
  | _ => simp [ttStep, h, Call.logged, TT.reset]

mutual
theorem ffree_steps : ∀ (s : Shape), s.cutS = true → ∀ (cs : List Call), (∀ x ∈ cs, notFFTrue x = true) →
    ∀ (st : St s), FFree s st → FFree s (cs.foldl (step s) st)
  | _, _, [], _, _, h => h
  | .sink f, hn, c :: cs, hc, st, h => by
      rw [List.foldl_cons]
      refine ffree_steps (.sink f) hn cs (fun x hx => hc x (List.mem_cons_of_mem _ hx)) _ ?_
      have hcc := hc c List.mem_cons_self
      simp only [FFree] at h ⊢
      cases c with
      | setFailfast b => cases b <;> simp [notFFTrue] at hcc; simp [step, sinkStep, Call.logged]
      | _ => simp [step, sinkStep, Call.logged, h] <;> (repeat' split) <;> simp [h]
  | .fsink l0 b0 f, hn, c :: cs, hc, st, h => by
      rw [List.foldl_cons]
      refine ffree_steps (.fsink l0 b0 f) hn cs (fun x hx => hc x (List.mem_cons_of_mem _ hx)) _ ?_
      have hcc := hc c List.mem_cons_self
      simp only [FFree] at h ⊢
      cases c with
      | setFailfast b => cases b <;> simp [notFFTrue] at hcc; simp [step, sinkStep, Call.logged]
      | _ => simp [step, sinkStep, Call.logged, h] <;> (repeat' split) <;> simp [h]
  | .tt ff, hn, c :: cs, hc, st, h => by
      rw [List.foldl_cons]
      exact ffree_steps (.tt ff) hn cs (fun x hx => hc x (List.mem_cons_of_mem _ hx)) _
        (tt_ffree st c (hc c List.mem_cons_self) h)
  | .text ff, hn, c :: cs, hc, st, h => by
      rw [List.foldl_cons]
      refine ffree_steps (.text ff) hn cs (fun x hx => hc x (List.mem_cons_of_mem _ hx)) _ ?_
      have := tt_ffree st.tt c (hc c List.mem_cons_self) h
      cases c <;> simpa [FFree, step, textStep] using this
  | .tbt, hn, c :: cs, hc, st, h => by
      rw [List.foldl_cons]
      refine ffree_steps .tbt hn cs (fun x hx => hc x (List.mem_cons_of_mem _ hx)) _ ?_
      have := tt_ffree st.tt c (hc c List.mem_cons_self) h
      cases c <;> simpa [FFree, step, tbtStep] using this
  | .etod ch, hn, c :: cs, hc, (own, inner), h => by
      rw [List.foldl_cons]
      refine ffree_steps (.etod ch) hn cs (fun x hx => hc x (List.mem_cons_of_mem _ hx)) _ ?_
      have hcc := hc c List.mem_cons_self
      obtain ⟨k, hk⟩ := etodStep_emits ⟨caps ch, step ch, failfastOf ch⟩ own inner c
      have h2 : (step (.etod ch) (own, inner) c).2
          = (etodMain (caps ch) c ++ List.replicate k Call.stop).foldl (step ch) inner := hk
      have h1 := etodStep_ownff ⟨caps ch, step ch, failfastOf ch⟩ own inner c
      refine ⟨?_, ?_⟩
      · show (etodStep ⟨caps ch, step ch, failfastOf ch⟩ own inner c).1.failfast = false
        rw [h1]
        cases c with
        | setFailfast b => cases b <;> simp [notFFTrue] at hcc; simp [h.1]
        | _ => exact h.1
      · show FFree ch (step (.etod ch) (own, inner) c).2
        rw [h2]
        refine ffree_steps ch (by simpa [Shape.cutS] using hn) _ ?_ inner h.2
        intro x hx
        rcases List.mem_append.mp hx with hx | hx
        · exact main_notFF _ c hcc x hx
        · rw [List.eq_of_mem_replicate hx]; rfl
  | .deco ch, hn, c :: cs, hc, st, h => by
      rw [List.foldl_cons]
      refine ffree_steps (.deco ch) hn cs (fun x hx => hc x (List.mem_cons_of_mem _ hx)) _ ?_
      have h1 := ffree_steps ch (by simpa [Shape.cutS] using hn) [c] (by simpa using hc c List.mem_cons_self) st h
      simp only [FFree] at h ⊢
      cases c <;> first | exact h1 | exact h
  | .tagger n g ch, hn, c :: cs, hc, st, h => by
      rw [List.foldl_cons]
      refine ffree_steps (.tagger n g ch) hn cs (fun x hx => hc x (List.mem_cons_of_mem _ hx)) _ ?_
      have hn' : ch.cutS = true := by simpa [Shape.cutS] using hn
      have h1 := ffree_steps ch hn' [c] (by simpa using hc c List.mem_cons_self) st h
      simp only [FFree] at h ⊢
      cases c with
      | startTest t => exact ffree_steps ch hn' [.startTest t, .tags n g] (by simp [notFFTrue]) st h
      | done => exact h
      | _ => exact h1
  | .tfr ch, hn, c :: cs, hc, (own, inner), h => by
      rw [List.foldl_cons]
      refine ffree_steps (.tfr ch) hn cs (fun x hx => hc x (List.mem_cons_of_mem _ hx)) _ ?_
      have hn' : ch.cutS = true := by simpa [Shape.cutS] using hn
      have hcc := hc c List.mem_cons_self
      have hown : ∀ c', notFFTrue c' = true → (ttStep own.tt c').failfast = false := fun c' h' => tt_ffree own.tt c' h' h.1
      cases c with
      | add k t a =>
        refine ⟨h.1, ffree_steps ch hn' _ ?_ inner h.2⟩
        intro x hx
        rcases List.mem_append.mp hx with hx | hx
        · exact tfrBlock_notFF own k t a x hx
        · rw [mem_tfrStops own k x hx]; rfl
      | startTestRun => exact ⟨hown _ rfl, ffree_steps ch hn' [.startTestRun] (by simp [notFFTrue]) inner h.2⟩
      | stopTestRun => exact ⟨h.1, ffree_steps ch hn' [.stopTestRun] (by simp [notFFTrue]) inner h.2⟩
      | stop => exact ⟨h.1, ffree_steps ch hn' [.stop] (by simp [notFFTrue]) inner h.2⟩
      | done => exact ⟨h.1, ffree_steps ch hn' [.done] (by simp [notFFTrue]) inner h.2⟩
      | startTest t => exact ⟨hown _ rfl, h.2⟩
      | stopTest t => exact ⟨hown _ rfl, h.2⟩
      | tags n g => simp only [step, tfrStep]; split <;> exact ⟨hown _ rfl, h.2⟩
      | time d => exact ⟨hown _ rfl, h.2⟩
      | setFailfast b => exact ⟨hown _ hcc, h.2⟩
      | progress => exact h
  | .multi ss, hn, c :: cs, hc, (own, inner), h => by
      rw [List.foldl_cons]
      refine ffree_steps (.multi ss) hn cs (fun x hx => hc x (List.mem_cons_of_mem _ hx)) _ ?_
      have hn' : Shape.cutSL ss = true := by simpa [Shape.cutS] using hn
      have hcc := hc c List.mem_cons_self
      simp only [FFree] at h ⊢
      have h1 := ffreeL_step ss hn' c hcc inner h
      cases c with
      | progress => exact h
      | _ => exact h1
  | .e2s ch, hn, c :: cs, hc, (own, inner), h => by
      rw [List.foldl_cons]
      refine ffree_steps (.e2s ch) hn cs (fun x hx => hc x (List.mem_cons_of_mem _ hx)) _ ?_
      have hcc := hc c List.mem_cons_self
      have h1 := (e2s_own ⟨caps ch, step ch, failfastOf ch⟩ own inner c).1
      have h0 : own.failfast = false := h
      show (e2sStep ⟨caps ch, step ch, failfastOf ch⟩ own inner c).1.failfast = false
      rw [h1]
      cases c with
      | setFailfast b => cases b <;> simp [notFFTrue] at hcc; rfl
      | _ => exact h0
  | .sff, hn, c :: cs, hc, (own, n), h => by
      rw [List.foldl_cons]
      refine ffree_steps (.sff) hn cs (fun x hx => hc x (List.mem_cons_of_mem _ hx)) _ ?_
      have hcc := hc c List.mem_cons_self
      have h1 := (e2s_own nullTarget own () c).1
      have h0 : own.failfast = false := h
      show (e2sStep nullTarget own () c).1.failfast = false
      rw [h1]
      cases c with
      | setFailfast b => cases b <;> simp [notFFTrue] at hcc; rfl
      | _ => exact h0
theorem ffreeL_step : ∀ (ss : List Shape), Shape.cutSL ss = true → ∀ (c : Call), notFFTrue c = true →
    ∀ (st : StL ss), FFreeL ss st → FFreeL ss (stepL ss st c)
  | [], _, _, _, _, _ => trivial
  | s :: ss, hn, c, hc, (x, xs), h => by
      simp only [Shape.cutSL, Bool.and_eq_true] at hn
      have := ffree_steps s hn.1 [c] (by simpa using hc) x h.1
      exact ⟨by simpa using this, ffreeL_step ss hn.2 c hc xs h.2⟩
end


theorem main_noStop (caps : Caps) (c : Call) (hc : c ≠ .stop) : ∀ x ∈ etodMain caps c, x ≠ Call.stop := by
  cases c <;> simp [etodMain, Spec.C08.degradeCall] at hc ⊢ <;> (try split) <;> simp

theorem main_noBad (caps : Caps) (c : Call) (hc : isBadAdd c = false) : ∀ x ∈ etodMain caps c, isBadAdd x = false := by
  cases c with
  | add k t a =>
    have hk : Kind.bad (Spec.C08.degradeKind caps k) = Kind.bad k := by
      cases k <;> simp only [Spec.C08.degradeKind] <;> (try split) <;> rfl
    simpa [etodMain, Spec.C08.degradeCall, isBadAdd, hk] using hc
  | _ => simp [etodMain] <;> (try split) <;> simp [isBadAdd]

theorem tfrBlock_noStop (own : TfrOwn) (k : Kind) (t : Nat) (a : Arg) : ∀ x ∈ tfrBlock own k t a, x ≠ Call.stop := by
  have : (tfrBlock own k t a).all (fun x => x != Call.stop) = true := by
    cases h1 : anyTags own.globalTags <;> cases h2 : anyTags own.testTags <;> simp [tfrBlock, h1, h2]
  intro x hx
  simpa using List.all_eq_true.mp this x hx

theorem tfrBlock_noBad (own : TfrOwn) (k : Kind) (t : Nat) (a : Arg) (hk : Kind.bad k = false) :
    ∀ x ∈ tfrBlock own k t a, isBadAdd x = false := by
  have : (tfrBlock own k t a).all (fun x => !isBadAdd x) = true := by
    cases h1 : anyTags own.globalTags <;> cases h2 : anyTags own.testTags <;> simp [tfrBlock, h1, h2, isBadAdd, hk]
  intro x hx
  simpa using List.all_eq_true.mp this x hx

/-- the side condition under which nothing can set `shouldStop`: fail-fast is set nowhere (and is not being set),
or no bad outcome is among the calls -/
def Safe (s : Shape) (st : St s) (cs : List Call) : Prop :=
  (FFree s st ∧ ∀ x ∈ cs, notFFTrue x = true) ∨ (∀ x ∈ cs, isBadAdd x = false)

theorem tt_calm (s : TT) (c : Call) (hc : c ≠ .stop) (hs : s.failfast = false ∨ isBadAdd c = false)
    (h : s.shouldStop = false) : (ttStep s c).shouldStop = false := by
  cases c with
  | add k t a =>
    rcases hs with hs | hs
    · cases k <;> simp [ttStep, h, hs, Call.logged]
    · cases k <;> simp [isBadAdd, Kind.bad] at hs <;> simp [ttStep, h, Call.logged]
  | stop => exact absurd rfl hc
  | _ => simp [ttStep, h, Call.logged, TT.reset]

mutual
theorem calm_steps : ∀ (s : Shape), s.cutS = true → ∀ (cs : List Call), (∀ x ∈ cs, x ≠ Call.stop) →
    ∀ (st : St s), Safe s st cs → Calm s st → Calm s (cs.foldl (step s) st)
  | _, _, [], _, _, _, h => h
  | s, hn, c :: cs, hc, st, hs, h => by
      rw [List.foldl_cons]
      have hcc := hc c List.mem_cons_self
      have hs1 : Safe s st [c] := by
        rcases hs with ⟨hf, hx⟩ | hx
        · exact .inl ⟨hf, by simpa using hx c List.mem_cons_self⟩
        · exact .inr (by simpa using hx c List.mem_cons_self)
      refine calm_steps s hn cs (fun x hx => hc x (List.mem_cons_of_mem _ hx)) _ ?_ (calm_step s hn c hcc st hs1 h)
      rcases hs with ⟨hf, hx⟩ | hx
      · refine .inl ⟨?_, fun x hx' => hx x (List.mem_cons_of_mem _ hx')⟩
        have := ffree_steps s hn [c] (by simpa using hx c List.mem_cons_self) st hf
        simpa using this
      · exact .inr (fun x hx' => hx x (List.mem_cons_of_mem _ hx'))
theorem calm_step : ∀ (s : Shape), s.cutS = true → ∀ (c : Call), c ≠ Call.stop →
    ∀ (st : St s), Safe s st [c] → Calm s st → Calm s (step s st c)
  | .sink f, _, c, hc, st, hs, h => by
      have h0 : st.shouldStop = false := h
      have hs' : st.failfast = false ∨ isBadAdd c = false := by
        rcases hs with ⟨hf, _⟩ | hx
        · exact .inl hf
        · exact .inr (by simpa using hx)
      show (sinkStep f st c).shouldStop = false
      cases c with
      | add k t a =>
        rcases hs' with hs' | hs'
        · simp [sinkStep, Call.logged, h0, hs'] <;> (repeat' split) <;> simp_all
        · cases k <;> simp [isBadAdd, Kind.bad] at hs' <;>
            simp [sinkStep, Call.logged, h0] <;> (repeat' split) <;> simp_all
      | stop => exact absurd rfl hc
      | _ => simp [sinkStep, Call.logged, h0] <;> (repeat' split) <;> simp_all
  | .fsink l0 b0 f, _, c, hc, st, hs, h => by
      have h0 : st.shouldStop = false := h
      have hs' : st.failfast = false ∨ isBadAdd c = false := by
        rcases hs with ⟨hf, _⟩ | hx
        · exact .inl hf
        · exact .inr (by simpa using hx)
      show (sinkStep f st c).shouldStop = false
      cases c with
      | add k t a =>
        rcases hs' with hs' | hs'
        · simp [sinkStep, Call.logged, h0, hs'] <;> (repeat' split) <;> simp_all
        · cases k <;> simp [isBadAdd, Kind.bad] at hs' <;>
            simp [sinkStep, Call.logged, h0] <;> (repeat' split) <;> simp_all
      | stop => exact absurd rfl hc
      | _ => simp [sinkStep, Call.logged, h0] <;> (repeat' split) <;> simp_all
  | .tt ff, _, c, hc, st, hs, h => by
      have h0 : st.shouldStop = false := h
      have hs' : st.failfast = false ∨ isBadAdd c = false := by
        rcases hs with ⟨hf, _⟩ | hx
        · exact .inl hf
        · exact .inr (by simpa using hx)
      exact tt_calm st c hc hs' h0
  | .text ff, _, c, hc, st, hs, h => by
      have h0 : st.tt.shouldStop = false := h
      have hs' : st.tt.failfast = false ∨ isBadAdd c = false := by
        rcases hs with ⟨hf, _⟩ | hx
        · exact .inl hf
        · exact .inr (by simpa using hx)
      have := tt_calm st.tt c hc hs' h0
      show (textStep st c).tt.shouldStop = false
      cases c <;> simpa [textStep] using this
  | .tbt, _, c, hc, st, hs, h => by
      have h0 : st.tt.shouldStop = false := h
      have hs' : st.tt.failfast = false ∨ isBadAdd c = false := by
        rcases hs with ⟨hf, _⟩ | hx
        · exact .inl hf
        · exact .inr (by simpa using hx)
      have := tt_calm st.tt c hc hs' h0
      show (tbtStep st c).tt.shouldStop = false
      cases c <;> simpa [tbtStep] using this
  | .etod ch, hn, c, hc, (own, inner), hs, h => by
      have hn' : ch.cutS = true := by simpa [Shape.cutS] using hn
      have hmain_ff : (∀ x ∈ [c], notFFTrue x = true) → ∀ x ∈ etodMain (caps ch) c, notFFTrue x = true :=
        fun hx => main_notFF _ c (by simpa using hx)
      have hcond : isBadAdd c = true → etodFailfast ⟨caps ch, step ch, failfastOf ch⟩ own
          ((etodMain (caps ch) c).foldl (step ch) inner) = false := by
        intro hb
        rcases hs with ⟨hf, hx⟩ | hx
        · have hf' := ffree_steps ch hn' _ (hmain_ff hx) inner hf.2
          simp only [etodFailfast]
          split
          · exact ffree_read ch _ hf'
          · exact hf.1
        · have : isBadAdd c = false := by simpa using hx
          rw [this] at hb; cases hb
      have hex := etodStep_exact ⟨caps ch, step ch, failfastOf ch⟩ own inner c hc hcond
      have h2 : (step (.etod ch) (own, inner) c).2 = (etodMain (caps ch) c).foldl (step ch) inner := hex
      cases hss : (caps ch).shouldStop
      · -- the flag lives in the adapter
        have h0 : own.shouldStop = false := by simpa [Calm, hss] using h
        have := etodStep_exact_own ⟨caps ch, step ch, failfastOf ch⟩ own inner c hc hcond h0
        show Calm (.etod ch) (step (.etod ch) (own, inner) c)
        simp only [Calm, hss, Bool.false_eq_true, ite_false]
        exact this
      · have h' : Calm ch inner := by simpa [Calm, hss] using h
        show Calm (.etod ch) (step (.etod ch) (own, inner) c)
        simp only [Calm, hss, ite_true]
        show Calm ch (step (.etod ch) (own, inner) c).2
        rw [h2]
        refine calm_steps ch hn' _ (main_noStop _ c hc) inner ?_ h'
        rcases hs with ⟨hf, hx⟩ | hx
        · exact .inl ⟨hf.2, hmain_ff hx⟩
        · exact .inr (main_noBad _ c (by simpa using hx))
  | .deco ch, hn, c, hc, st, hs, h => by
      have h1 := calm_step ch (by simpa [Shape.cutS] using hn) c hc st hs h
      show Calm ch (step (.deco ch) st c)
      cases c <;> first | exact h1 | exact h
  | .tagger n g ch, hn, c, hc, st, hs, h => by
      have hn' : ch.cutS = true := by simpa [Shape.cutS] using hn
      have h1 := calm_step ch hn' c hc st hs h
      show Calm ch (step (.tagger n g ch) st c)
      cases c with
      | startTest t =>
        refine calm_steps ch hn' [.startTest t, .tags n g] (by simp) st ?_ h
        rcases hs with ⟨hf, _⟩ | _
        · exact .inl ⟨hf, by simp [notFFTrue]⟩
        · exact .inr (by simp [isBadAdd])
      | done => exact h
      | _ => exact h1
  | .tfr ch, hn, c, hc, (own, inner), hs, h => by
      have hn' : ch.cutS = true := by simpa [Shape.cutS] using hn
      show Calm ch (step (.tfr ch) (own, inner) c).2
      have one : ∀ c', c' ≠ Call.stop → (isBadAdd c' = false) → Calm ch (step ch inner c') := by
        intro c' h1 h2
        have := calm_steps ch hn' [c'] (by simpa using h1) inner (.inr (by simpa using h2)) h
        simpa using this
      cases c with
      | add k t a =>
        have hoff : tfrStops own k = [] := by
          rcases hs with ⟨hf, _⟩ | hx
          · exact tfrStops_off own k (.inl hf.1)
          · have hb : Kind.bad k = false := by simpa [isBadAdd] using hx
            rw [bad_iff_not_passing] at hb
            exact tfrStops_off own k (.inr (by simpa using hb))
        show Calm ch ((tfrBlock own k t a ++ tfrStops own k).foldl (step ch) inner)
        rw [hoff, List.append_nil]
        refine calm_steps ch hn' _ (tfrBlock_noStop own k t a) inner ?_ h
        rcases hs with ⟨hf, _⟩ | hx
        · exact .inl ⟨hf.2, tfrBlock_notFF own k t a⟩
        · exact .inr (tfrBlock_noBad own k t a (by simpa [isBadAdd] using hx))
      | startTestRun => exact one _ (by simp) rfl
      | stopTestRun => exact one _ (by simp) rfl
      | stop => exact absurd rfl hc
      | done => exact one _ (by simp) rfl
      | _ => exact h
  | .multi ss, hn, c, hc, (own, inner), hs, h => by
      have hn' : Shape.cutSL ss = true := by simpa [Shape.cutS] using hn
      show CalmL ss (step (.multi ss) (own, inner) c).2
      cases c with
      | progress => exact h
      | stop => exact absurd rfl hc
      | _ =>
        refine calmL_step ss hn' _ hc inner ?_ h
        rcases hs with ⟨hf, hx⟩ | hx
        · exact .inl ⟨hf, by simpa using hx⟩
        · exact .inr (by simpa using hx)
  | .e2s ch, _, c, hc, (own, inner), hs, h => by
      have h0 : own.shouldStop = false := h
      have h3 := (e2s_own ⟨caps ch, step ch, failfastOf ch⟩ own inner c).2.2
      show (e2sStep ⟨caps ch, step ch, failfastOf ch⟩ own inner c).1.shouldStop = false
      rw [h3]
      have hauto : e2sAutoSS own = false := by simp [e2sAutoSS, h0]
      cases c with
      | add k t a =>
        rcases hs with ⟨hf, _⟩ | hx
        · have hf' : own.failfast = false := hf
          simp [hauto, hf']
        · have : Kind.bad k = false := by simpa [isBadAdd] using hx
          simp [hauto, this]
      | stop => exact absurd rfl hc
      | startTestRun => rfl
      | startTest t => exact hauto
      | _ => exact h0
  | .sff, _, c, hc, (own, n), hs, h => by
      have h0 : own.shouldStop = false := h
      have h3 := (e2s_own nullTarget own () c).2.2
      show (e2sStep nullTarget own () c).1.shouldStop = false
      rw [h3]
      have hauto : e2sAutoSS own = false := by simp [e2sAutoSS, h0]
      cases c with
      | add k t a =>
        rcases hs with ⟨hf, _⟩ | hx
        · have hf' : own.failfast = false := hf
          simp [hauto, hf']
        · have : Kind.bad k = false := by simpa [isBadAdd] using hx
          simp [hauto, this]
      | stop => exact absurd rfl hc
      | startTestRun => rfl
      | startTest t => exact hauto
      | _ => exact h0
theorem calmL_step : ∀ (ss : List Shape), Shape.cutSL ss = true → ∀ (c : Call), c ≠ Call.stop →
    ∀ (st : StL ss), ((FFreeL ss st ∧ notFFTrue c = true) ∨ isBadAdd c = false) → CalmL ss st → CalmL ss (stepL ss st c)
  | [], _, _, _, _, _, _ => trivial
  | s :: ss, hn, c, hc, (x, xs), hs, h => by
      simp only [Shape.cutSL, Bool.and_eq_true] at hn
      exact ⟨calm_step s hn.1 c hc x (hs.imp (fun p => ⟨p.1.1, by simpa using p.2⟩) (fun p => by simpa using p)) h.1,
        calmL_step ss hn.2 c hc xs (hs.imp (fun p => ⟨p.1.2, p.2⟩) id) h.2⟩
end

mutual
theorem calm_run : ∀ (s : Shape), resetLeaves s = true → s.cutS = true → ∀ (st : St s),
    Calm s (step s st .startTestRun)
  | .sink _, ho, _, _ => by simp [resetLeaves] at ho
  | .fsink _ _ _, ho, _, _ => by simp [resetLeaves] at ho
  | .tbt, ho, _, _ => by simp [resetLeaves] at ho
  | .tt _, _, _, st => by simp [Calm, step, ttStep, TT.reset, Call.logged]
  | .text _, _, _, st => by simp [Calm, step, textStep, ttStep, TT.reset, Call.logged]
  | .etod ch, ho, hn, (own, inner) => by
      show Calm (.etod ch) (step (.etod ch) (own, inner) .startTestRun)
      cases hss : (caps ch).shouldStop
      · simp [Calm, hss, step, etodStep]
      · have ho' : resetLeaves ch = true := by simpa [resetLeaves, hss] using ho
        have hr : (caps ch).startRun = true := by cases ch <;> simp_all [resetLeaves, caps]
        simp only [Calm, hss, ite_true, step, etodStep, hr]
        exact calm_run ch ho' (by simpa [Shape.cutS] using hn) inner
  | .deco ch, ho, hn, st => calm_run ch (by simpa [resetLeaves] using ho) (by simpa [Shape.cutS] using hn) st
  | .tagger _ _ ch, ho, hn, st => calm_run ch (by simpa [resetLeaves] using ho) (by simpa [Shape.cutS] using hn) st
  | .tfr ch, ho, hn, (own, inner) =>
      calm_run ch (by simpa [resetLeaves] using ho) (by simpa [Shape.cutS] using hn) inner
  | .multi ss, ho, hn, (own, inner) => by
      show CalmL ss (step (.multi ss) (own, inner) .startTestRun).2
      simp only [step]
      exact calmL_run ss (by simpa [resetLeaves] using ho) (by simpa [Shape.cutS] using hn) _
  | .e2s ch, _, _, (own, inner) => (e2s_own ⟨caps ch, step ch, failfastOf ch⟩ own inner .startTestRun).2.2
  | .sff, _, _, (own, n) => (e2s_own nullTarget own () .startTestRun).2.2
theorem calmL_run : ∀ (ss : List Shape), resetLeavesL ss = true → Shape.cutSL ss = true → ∀ (st : StL ss),
    CalmL ss (stepL ss st .startTestRun)
  | [], _, _, _ => trivial
  | s :: ss, ho, hn, (x, xs) => by
      simp only [resetLeavesL, Bool.and_eq_true] at ho
      simp only [Shape.cutSL, Bool.and_eq_true] at hn
      exact ⟨calm_run s ho.1 hn.1 x, calmL_run ss ho.2 hn.2 xs⟩
end

mutual
theorem calm_init : ∀ (s : Shape), s.cutS = true → Calm s (init s)
  | .sink _, _ => rfl
  | .fsink _ _ _, _ => rfl
  | .tt _, _ => rfl
  | .text _, _ => rfl
  | .tbt, _ => rfl
  | .etod c, hn => by
      simp only [Calm, init]; split
      · exact calm_init c (by simpa [Shape.cutS] using hn)
      · first | rfl | trivial
  | .deco c, hn => calm_init c (by simpa [Shape.cutS] using hn)
  | .tagger _ _ c, hn => calm_init c (by simpa [Shape.cutS] using hn)
  | .tfr c, hn => calm_init c (by simpa [Shape.cutS] using hn)
  | .e2s _, _ => rfl
  | .sff, _ => rfl
  | .multi ss, hn => calmL_init ss (by simpa [Shape.cutS] using hn)
theorem calmL_init : ∀ (ss : List Shape), Shape.cutSL ss = true → CalmL ss (initL ss)
  | [], _ => trivial
  | s :: ss, hn => by
      simp only [Shape.cutSL, Bool.and_eq_true] at hn
      exact ⟨calm_init s hn.1, calmL_init ss hn.2⟩
end

mutual
theorem ffree_init : ∀ (s : Shape), s.cutS = true → (leafParams s).any id = false → FFree s (init s)
  | .sink _, _, _ => rfl
  | .fsink _ b _, _, h => by simp only [FFree, init]; simpa [leafParams] using h
  | .tt ff, _, h => by simp only [FFree, init]; simpa [leafParams] using h
  | .text ff, _, h => by simp only [FFree, init]; simpa [leafParams] using h
  | .tbt, _, _ => rfl
  | .etod c, hn, h => ⟨rfl, ffree_init c (by simpa [Shape.cutS] using hn) (by simpa [leafParams] using h)⟩
  | .deco c, hn, h => ffree_init c (by simpa [Shape.cutS] using hn) (by simpa [leafParams] using h)
  | .tagger _ _ c, hn, h => ffree_init c (by simpa [Shape.cutS] using hn) (by simpa [leafParams] using h)
  | .tfr c, hn, h => ⟨rfl, ffree_init c (by simpa [Shape.cutS] using hn) (by simpa [leafParams] using h)⟩
  | .e2s _, _, _ => rfl
  | .sff, _, _ => rfl
  | .multi ss, hn, h => by
      have hn' : Shape.cutSL ss = true := by simpa [Shape.cutS] using hn
      show FFreeL ss (init (.multi ss)).2
      simp only [init]
      exact ffreeL_init ss hn' (by simpa [leafParams] using h)
theorem ffreeL_init : ∀ (ss : List Shape), Shape.cutSL ss = true → (leafParamsL ss).any id = false →
    FFreeL ss (initL ss)
  | [], _, _ => trivial
  | s :: ss, hn, h => by
      simp only [Shape.cutSL, Bool.and_eq_true] at hn
      simp only [leafParamsL, List.any_append, Bool.or_eq_false_iff] at h
      exact ⟨ffree_init s hn.1 h.1, ffreeL_init ss hn.2 h.2⟩
end

mutual
theorem calm_ss : ∀ (s : Shape), resetLeaves s = true → ∀ (st : St s), Calm s st → shouldStopOf s st = false
  | .sink _, ho, _, _ => by simp [resetLeaves] at ho
  | .fsink _ _ _, ho, _, _ => by simp [resetLeaves] at ho
  | .tbt, ho, _, _ => by simp [resetLeaves] at ho
  | .tt _, _, _, h => h
  | .text _, _, _, h => h
  | .etod c, ho, (own, inner), h => by
      cases hss : (caps c).shouldStop
      · simpa [shouldStopOf, Calm, hss] using h
      · simp only [shouldStopOf, hss, ite_true]
        exact calm_ss c (by simpa [resetLeaves, hss] using ho) inner (by simpa [Calm, hss] using h)
  | .deco c, ho, st, h => calm_ss c (by simpa [resetLeaves] using ho) st h
  | .tagger _ _ c, ho, st, h => calm_ss c (by simpa [resetLeaves] using ho) st h
  | .tfr c, ho, (_, inner), h => calm_ss c (by simpa [resetLeaves] using ho) inner h
  | .e2s _, _, (own, _), h => h
  | .sff, _, (own, _), h => h
  | .multi cs, ho, (_, inner), h => by
      simp only [shouldStopOf, List.any_eq_false]
      intro b hb
      simpa using calmL_ss cs (by simpa [resetLeaves] using ho) inner h b hb
theorem calmL_ss : ∀ (ss : List Shape), resetLeavesL ss = true → ∀ (st : StL ss), CalmL ss st →
    ∀ b ∈ shouldStopL ss st, b = false
  | [], _, _, _ => by simp [shouldStopL]
  | s :: ss, ho, (x, xs), h => by
      simp only [resetLeavesL, Bool.and_eq_true] at ho
      simp only [shouldStopL, List.mem_cons]
      intro b hb
      rcases hb with rfl | hb
      · exact calm_ss s ho.1 x h.1
      · exact calmL_ss ss ho.2 xs h.2 b hb
end

theorem ss_of_calm (s : Shape) (ho : resetLeaves s = true) (_hn : s.cutS = true) (st : St s) (h : Calm s st) :
    shouldStopOf s st = false := calm_ss s ho st h

def ffNext (ffEver : Bool) (c : Call) : Bool := ffEver || (match c with | .setFailfast b => b | _ => false)
def reasonNext (reason ffEver' : Bool) (c : Call) : Bool :=
  match c with
  | .startTestRun => false
  | .stop => true
  | c => reason || (isBadAdd c && ffEver')

theorem notEarlier_cons (f r : Bool) (c : Call) (h : List Call) (o : Obs) (os : List Obs) :
    notEarlier f r (c :: h) (o :: os)
      = ((!o.ss || reasonNext r (ffNext f c) c) && notEarlier (ffNext f c) (reasonNext r (ffNext f c) c) h os) := by
  cases c <;> rfl

theorem ffNext_false (f : Bool) (c : Call) (h : ffNext f c = false) : f = false ∧ notFFTrue c = true := by
  cases c with
  | setFailfast b => cases b <;> cases f <;> simp_all [ffNext, notFFTrue]
  | _ => cases f <;> simp_all [ffNext, notFFTrue]

theorem reasonNext_false (r f' : Bool) (c : Call) (h : reasonNext r f' c = false) :
    c = .startTestRun ∨ (c ≠ .stop ∧ r = false ∧ (isBadAdd c = true → f' = false)) := by
  cases c with
  | startTestRun => exact .inl rfl
  | stop => simp [reasonNext] at h
  | add k t a =>
    simp only [reasonNext, Bool.or_eq_false_iff, Bool.and_eq_false_iff] at h
    exact .inr ⟨by simp, h.1, fun hb => by rcases h.2 with h2 | h2 <;> simp_all⟩
  | _ =>
    simp only [reasonNext, Bool.or_eq_false_iff] at h
    exact .inr ⟨by simp, h.1, fun hb => by simp [isBadAdd] at hb⟩

/-- not earlier, along a whole history -/
theorem notEarlier_states (s : Shape) (ho : resetLeaves s = true) (hn : s.cutS = true) :
    ∀ (h : List Call) (st : St s) (ffEver reason : Bool), (ffEver = false → FFree s st) → (reason = false → Calm s st) →
    notEarlier ffEver reason h ((states s st h).map (observe s)) = true
  | [], _, _, _, _, _ => rfl
  | c :: h, st, ffEver, reason, hF, hC => by
      simp only [states, List.map_cons, notEarlier_cons, Bool.and_eq_true, Bool.or_eq_true, Bool.not_eq_true']
      have hF' : ffNext ffEver c = false → FFree s (step s st c) := by
        intro h0
        obtain ⟨h1, h2⟩ := ffNext_false _ _ h0
        have := ffree_steps s hn [c] (by simpa using h2) st (hF h1)
        simpa using this
      have hC' : reasonNext reason (ffNext ffEver c) c = false → Calm s (step s st c) := by
        intro h0
        rcases reasonNext_false _ _ _ h0 with rfl | ⟨hstop, hr, hb⟩
        · exact calm_run s ho hn st
        · refine calm_step s hn c hstop st ?_ (hC hr)
          by_cases hbad : isBadAdd c = true
          · obtain ⟨h1, h2⟩ := ffNext_false _ _ (hb hbad)
            exact .inl ⟨hF h1, by simpa using h2⟩
          · exact .inr (by simpa using hbad)
      refine ⟨?_, notEarlier_states s ho hn h _ _ _ hF' hC'⟩
      cases hr : reasonNext reason (ffNext ffEver c) c
      · left; exact ss_of_calm s ho hn _ (hC' hr)
      · right; rfl

/-- **C04 (not earlier).**  `shouldStop` is set only after a `stop()`, or after an error / failure / unexpected
success reported while fail-fast had been set somewhere (on a result before wrapping, or by an assignment) —
since the last `startTestRun`.  In particular with fail-fast off and no `stop()` it stays false. -/
theorem C04_not_earlier (s : Shape) (ho : resetLeaves s = true) (h : List Call) :
    notEarlier ((leafParams s).any id) false h ((states s (init s) h).map (observe s)) = true :=
  notEarlier_states s ho (cutS_all s) h (init s) _ _ (fun hf => ffree_init s (cutS_all s) hf) (fun _ => calm_init s (cutS_all s))

/-! ### wrapping a result leaves its `failfast` alone -/
mutual
theorem kept_init : ∀ (s : Shape), (leaves s (init s)).map LeafSt.failfast = leafParams s
  | .sink _ => rfl
  | .fsink _ _ _ => rfl
  | .tt _ => rfl
  | .text _ => rfl
  | .tbt => rfl
  | .etod c => kept_init c
  | .deco c => kept_init c
  | .tagger _ _ c => kept_init c
  | .tfr c => kept_init c
  | .e2s c => kept_init c
  | .sff => rfl
  | .multi cs => kept_initL cs
theorem kept_initL : ∀ (ss : List Shape), (leavesL ss (initL ss)).map LeafSt.failfast = leafParamsL ss
  | [] => rfl
  | s :: ss => by simp only [leavesL, initL, leafParamsL, List.map_append, kept_init s, kept_initL ss]
end

/-- **C04 (wrapping keeps fail-fast).**  Building any graph of adapters over results — at any nesting depth of
`MultiTestResult`s — leaves the `failfast` each result was constructed with unchanged (D14). -/
theorem C04_failfast_kept (s : Shape) : (leaves s (init s)).map LeafSt.failfast = leafParams s := kept_init s

/-! ### every result by itself -/
def upd (b : Bool) : Call → Bool
  | .startTestRun => false
  | .add k _ _ => b || Kind.bad k
  | _ => b

def noSF : Call → Bool
  | .setFailfast _ => false
  | _ => true

/- every result has the `failfast` it was built with and, if it is set and a bad outcome was reported since the
last `startTestRun` (`b`), has stopped; no wrapper has a `failfast` of its own -/
mutual
def Inv1 (b : Bool) : (s : Shape) → St s → Prop
  | .tt ff, st => st.failfast = ff ∧ (b = true → ff = true → st.shouldStop = true)
  | .text ff, st => st.tt.failfast = ff ∧ (b = true → ff = true → st.tt.shouldStop = true)
  | .sink _, _ => True
  | .fsink _ _ _, _ => True
  | .tbt, _ => True
  | .etod c, (own, inner) => own.failfast = false ∧ Inv1 b c inner
  | .deco c, st => Inv1 b c st
  | .tagger _ _ c, st => Inv1 b c st
  | .tfr c, (own, inner) => own.tt.failfast = false ∧ Inv1 b c inner
  | .multi cs, (_, inner) => Inv1L b cs inner
  | .e2s _, _ => True
  | .sff, _ => True
def Inv1L (b : Bool) : (cs : List Shape) → StL cs → Prop
  | [], _ => True
  | c :: cs, (x, xs) => Inv1 b c x ∧ Inv1L b cs xs
end

theorem main_noSF (caps : Caps) (c : Call) (hc : noSF c = true) : ∀ x ∈ etodMain caps c, noSF x = true := by
  cases c <;> simp [etodMain, Spec.C08.degradeCall, noSF] at hc ⊢ <;> (try split) <;> simp_all [noSF]

theorem upd_main (caps : Caps) (hr : caps.startRun = true) (c : Call) (b : Bool) :
    (etodMain caps c).foldl upd b = upd b c := by
  cases c with
  | add k t a =>
    have hk : Kind.bad (Spec.C08.degradeKind caps k) = Kind.bad k := by
      cases k <;> simp only [Spec.C08.degradeKind] <;> (try split) <;> rfl
    simp [etodMain, Spec.C08.degradeCall, upd, hk]
  | startTestRun => simp [etodMain, hr, upd]
  | stopTestRun => simp [etodMain, hr, upd]
  | _ => simp only [etodMain] <;> (try split) <;> simp [upd]

theorem upd_stops (k : Nat) (b : Bool) : (List.replicate k Call.stop).foldl upd b = b := by
  induction k with
  | zero => rfl
  | succ k ih => simp [List.replicate_succ, upd, ih]

theorem tfrBlock_noSF (own : TfrOwn) (k : Kind) (t : Nat) (a : Arg) : ∀ x ∈ tfrBlock own k t a, noSF x = true := by
  have : (tfrBlock own k t a).all noSF = true := by
    cases h1 : anyTags own.globalTags <;> cases h2 : anyTags own.testTags <;> simp [tfrBlock, h1, h2, noSF]
  exact fun x hx => List.all_eq_true.mp this x hx

theorem upd_tfrBlock (own : TfrOwn) (k : Kind) (t : Nat) (a : Arg) (b : Bool) :
    (tfrBlock own k t a).foldl upd b = upd b (.add k t a) := by
  cases h1 : anyTags own.globalTags <;> cases h2 : anyTags own.testTags <;> simp [tfrBlock, h1, h2, upd]

theorem tt_inv1 (ff : Bool) (st : TT) (c : Call) (hc : noSF c = true) (b : Bool)
    (h : st.failfast = ff ∧ (b = true → ff = true → st.shouldStop = true)) :
    (ttStep st c).failfast = ff ∧ (upd b c = true → ff = true → (ttStep st c).shouldStop = true) := by
  obtain ⟨h1, h2⟩ := h
  cases c with
  | add k t a =>
    cases k <;> simp only [ttStep, upd, Kind.bad, Call.logged, Bool.or_false, Bool.or_true] <;>
      refine ⟨h1, fun hb hf => ?_⟩ <;> simp_all
  | setFailfast x => simp [noSF] at hc
  | startTestRun => exact ⟨by simp [ttStep, TT.reset, Call.logged, h1], fun hb => by simp [upd] at hb⟩
  | _ => exact ⟨by simp [ttStep, Call.logged, h1], fun hb hf => by simpa [ttStep, Call.logged, upd] using h2 (by simpa [upd] using hb) hf⟩

/-! ### `failfast` reads as it was set -/
/- every result has the `failfast` it was built with (an old-flavour result: the attribute assigned on it, if any) and
no adapter has one of its own -/
mutual
def Inv0 : (s : Shape) → St s → Prop
  | .sink _, st => st.failfast = false
  | .fsink _ b _, st => st.failfast = b
  | .tt ff, st => st.failfast = ff
  | .text ff, st => st.tt.failfast = ff
  | .tbt, st => st.tt.failfast = false
  | .etod c, (own, inner) => own.failfast = false ∧ Inv0 c inner
  | .deco c, st => Inv0 c st
  | .tagger _ _ c, st => Inv0 c st
  | .tfr c, (own, inner) => own.tt.failfast = false ∧ Inv0 c inner
  | .multi cs, (_, inner) => Inv0L cs inner
  | .e2s _, (own, _) => own.failfast = false
  | .sff, (own, _) => own.failfast = false
def Inv0L : (cs : List Shape) → StL cs → Prop
  | [], _ => True
  | c :: cs, (x, xs) => Inv0 c x ∧ Inv0L cs xs
end

theorem tt_inv0 (s : TT) (c : Call) (hc : noSF c = true) {p : Bool} (h : s.failfast = p) : (ttStep s c).failfast = p := by
  cases c with
  | add k t a => cases k <;> simp [ttStep, h, Call.logged]
  | setFailfast b => simp [noSF] at hc
  | _ => simp [ttStep, h, Call.logged, TT.reset]

mutual
theorem inv0_steps : ∀ (s : Shape), s.cutS = true → ∀ (cs : List Call), (∀ x ∈ cs, noSF x = true) →
    ∀ (st : St s), Inv0 s st → Inv0 s (cs.foldl (step s) st)
  | _, _, [], _, _, h => h
  | .sink f, hn, c :: cs, hc, st, h => by
      rw [List.foldl_cons]
      refine inv0_steps (.sink f) hn cs (fun x hx => hc x (List.mem_cons_of_mem _ hx)) _ ?_
      have hcc := hc c List.mem_cons_self
      simp only [Inv0] at h ⊢
      cases c with
      | setFailfast b => simp [noSF] at hcc
      | _ => simp [step, sinkStep, Call.logged, h] <;> (repeat' split) <;> simp [h]
  | .fsink l0 b0 f, hn, c :: cs, hc, st, h => by
      rw [List.foldl_cons]
      refine inv0_steps (.fsink l0 b0 f) hn cs (fun x hx => hc x (List.mem_cons_of_mem _ hx)) _ ?_
      have hcc := hc c List.mem_cons_self
      simp only [Inv0] at h ⊢
      cases c with
      | setFailfast b => simp [noSF] at hcc
      | _ => simp [step, sinkStep, Call.logged, h] <;> (repeat' split) <;> simp [h]
  | .tt ff, hn, c :: cs, hc, st, h => by
      rw [List.foldl_cons]
      exact inv0_steps (.tt ff) hn cs (fun x hx => hc x (List.mem_cons_of_mem _ hx)) _
        (tt_inv0 st c (hc c List.mem_cons_self) h)
  | .text ff, hn, c :: cs, hc, st, h => by
      rw [List.foldl_cons]
      refine inv0_steps (.text ff) hn cs (fun x hx => hc x (List.mem_cons_of_mem _ hx)) _ ?_
      have := tt_inv0 st.tt c (hc c List.mem_cons_self) h
      cases c <;> simpa [Inv0, step, textStep] using this
  | .tbt, hn, c :: cs, hc, st, h => by
      rw [List.foldl_cons]
      refine inv0_steps .tbt hn cs (fun x hx => hc x (List.mem_cons_of_mem _ hx)) _ ?_
      have := tt_inv0 st.tt c (hc c List.mem_cons_self) h
      cases c <;> simpa [Inv0, step, tbtStep] using this
  | .etod ch, hn, c :: cs, hc, (own, inner), h => by
      rw [List.foldl_cons]
      refine inv0_steps (.etod ch) hn cs (fun x hx => hc x (List.mem_cons_of_mem _ hx)) _ ?_
      have hcc := hc c List.mem_cons_self
      obtain ⟨k, hk⟩ := etodStep_emits ⟨caps ch, step ch, failfastOf ch⟩ own inner c
      have h2 : (step (.etod ch) (own, inner) c).2
          = (etodMain (caps ch) c ++ List.replicate k Call.stop).foldl (step ch) inner := hk
      have h1 := etodStep_ownff ⟨caps ch, step ch, failfastOf ch⟩ own inner c
      refine ⟨?_, ?_⟩
      · show (etodStep ⟨caps ch, step ch, failfastOf ch⟩ own inner c).1.failfast = false
        rw [h1]
        cases c with
        | setFailfast b => simp [noSF] at hcc
        | _ => exact h.1
      · show Inv0 ch (step (.etod ch) (own, inner) c).2
        rw [h2]
        refine inv0_steps ch (by simpa [Shape.cutS] using hn) _ ?_ inner h.2
        intro x hx
        rcases List.mem_append.mp hx with hx | hx
        · exact main_noSF _ c hcc x hx
        · rw [List.eq_of_mem_replicate hx]; rfl
  | .deco ch, hn, c :: cs, hc, st, h => by
      rw [List.foldl_cons]
      refine inv0_steps (.deco ch) hn cs (fun x hx => hc x (List.mem_cons_of_mem _ hx)) _ ?_
      have h1 := inv0_steps ch (by simpa [Shape.cutS] using hn) [c] (by simpa using hc c List.mem_cons_self) st h
      simp only [Inv0] at h ⊢
      cases c <;> first | exact h1 | exact h
  | .tagger n g ch, hn, c :: cs, hc, st, h => by
      rw [List.foldl_cons]
      refine inv0_steps (.tagger n g ch) hn cs (fun x hx => hc x (List.mem_cons_of_mem _ hx)) _ ?_
      have hn' : ch.cutS = true := by simpa [Shape.cutS] using hn
      have h1 := inv0_steps ch hn' [c] (by simpa using hc c List.mem_cons_self) st h
      simp only [Inv0] at h ⊢
      cases c with
      | startTest t => exact inv0_steps ch hn' [.startTest t, .tags n g] (by simp [noSF]) st h
      | done => exact h
      | _ => exact h1
  | .tfr ch, hn, c :: cs, hc, (own, inner), h => by
      rw [List.foldl_cons]
      refine inv0_steps (.tfr ch) hn cs (fun x hx => hc x (List.mem_cons_of_mem _ hx)) _ ?_
      have hn' : ch.cutS = true := by simpa [Shape.cutS] using hn
      have hcc := hc c List.mem_cons_self
      have hown : ∀ c', noSF c' = true → (ttStep own.tt c').failfast = false := fun c' h' => tt_inv0 own.tt c' h' h.1
      cases c with
      | add k t a =>
        refine ⟨h.1, inv0_steps ch hn' _ ?_ inner h.2⟩
        intro x hx
        rcases List.mem_append.mp hx with hx | hx
        · exact tfrBlock_noSF own k t a x hx
        · rw [mem_tfrStops own k x hx]; rfl
      | startTestRun => exact ⟨hown _ rfl, inv0_steps ch hn' [.startTestRun] (by simp [noSF]) inner h.2⟩
      | stopTestRun => exact ⟨h.1, inv0_steps ch hn' [.stopTestRun] (by simp [noSF]) inner h.2⟩
      | stop => exact ⟨h.1, inv0_steps ch hn' [.stop] (by simp [noSF]) inner h.2⟩
      | done => exact ⟨h.1, inv0_steps ch hn' [.done] (by simp [noSF]) inner h.2⟩
      | startTest t => exact ⟨hown _ rfl, h.2⟩
      | stopTest t => exact ⟨hown _ rfl, h.2⟩
      | tags n g => simp only [step, tfrStep]; split <;> exact ⟨hown _ rfl, h.2⟩
      | time d => exact ⟨hown _ rfl, h.2⟩
      | setFailfast b => exact ⟨hown _ hcc, h.2⟩
      | progress => exact h
  | .multi ss, hn, c :: cs, hc, (own, inner), h => by
      rw [List.foldl_cons]
      refine inv0_steps (.multi ss) hn cs (fun x hx => hc x (List.mem_cons_of_mem _ hx)) _ ?_
      have hn' : Shape.cutSL ss = true := by simpa [Shape.cutS] using hn
      have hcc := hc c List.mem_cons_self
      simp only [Inv0] at h ⊢
      have h1 := inv0L_step ss hn' c hcc inner h
      cases c with
      | progress => exact h
      | _ => exact h1
  | .e2s ch, hn, c :: cs, hc, (own, inner), h => by
      rw [List.foldl_cons]
      refine inv0_steps (.e2s ch) hn cs (fun x hx => hc x (List.mem_cons_of_mem _ hx)) _ ?_
      have hcc := hc c List.mem_cons_self
      have h1 := (e2s_own ⟨caps ch, step ch, failfastOf ch⟩ own inner c).1
      have h0 : own.failfast = false := h
      show (e2sStep ⟨caps ch, step ch, failfastOf ch⟩ own inner c).1.failfast = false
      rw [h1]
      cases c with
      | setFailfast b => simp [noSF] at hcc
      | _ => exact h0
  | .sff, hn, c :: cs, hc, (own, n), h => by
      rw [List.foldl_cons]
      refine inv0_steps (.sff) hn cs (fun x hx => hc x (List.mem_cons_of_mem _ hx)) _ ?_
      have hcc := hc c List.mem_cons_self
      have h1 := (e2s_own nullTarget own () c).1
      have h0 : own.failfast = false := h
      show (e2sStep nullTarget own () c).1.failfast = false
      rw [h1]
      cases c with
      | setFailfast b => simp [noSF] at hcc
      | _ => exact h0
theorem inv0L_step : ∀ (ss : List Shape), Shape.cutSL ss = true → ∀ (c : Call), noSF c = true →
    ∀ (st : StL ss), Inv0L ss st → Inv0L ss (stepL ss st c)
  | [], _, _, _, _, _ => trivial
  | s :: ss, hn, c, hc, (x, xs), h => by
      simp only [Shape.cutSL, Bool.and_eq_true] at hn
      have := inv0_steps s hn.1 [c] (by simpa using hc) x h.1
      exact ⟨by simpa using this, inv0L_step ss hn.2 c hc xs h.2⟩
end

mutual
theorem inv0_read : ∀ (s : Shape), s.cutS = true → ∀ (st : St s), Inv0 s st → failfastOf s st = ffRead s
  | .sink _, _, _, h => h
  | .fsink _ _ _, _, _, h => h
  | .tbt, _, _, h => h
  | .tt ff, _, st, h => h
  | .text ff, _, st, h => h
  | .etod c, hn, (own, inner), h => by
      simp only [failfastOf, ffRead]
      split
      · rename_i hc
        simp only [hc, Bool.true_and]
        exact inv0_read c (by simpa [Shape.cutS] using hn) inner h.2
      · rename_i hc; simp [hc, h.1]
  | .deco c, hn, st, h => inv0_read c (by simpa [Shape.cutS] using hn) st h
  | .tagger _ _ c, hn, st, h => inv0_read c (by simpa [Shape.cutS] using hn) st h
  | .tfr _, _, (own, _), h => h.1
  | .e2s _, _, (own, _), h => h
  | .sff, _, (own, _), h => h
  | .multi cs, hn, (_, inner), h => by
      simp only [failfastOf, ffRead]
      cases cs with
      | nil => rfl
      | cons d ds =>
        obtain ⟨x, xs⟩ := inner
        simp only [Shape.cutS, Shape.cutSL, Bool.and_eq_true] at hn
        simp only [failfastL, List.headD_cons, ffReadHead]
        exact inv0_read d hn.1 x h.1
end

mutual
theorem inv0_init : ∀ (s : Shape), s.cutS = true → Inv0 s (init s)
  | .sink _, _ => rfl
  | .fsink _ _ _, _ => rfl
  | .tbt, _ => rfl
  | .tt _, _ => rfl
  | .text _, _ => rfl
  | .etod c, hn => ⟨rfl, inv0_init c (by simpa [Shape.cutS] using hn)⟩
  | .deco c, hn => inv0_init c (by simpa [Shape.cutS] using hn)
  | .tagger _ _ c, hn => inv0_init c (by simpa [Shape.cutS] using hn)
  | .tfr c, hn => ⟨rfl, inv0_init c (by simpa [Shape.cutS] using hn)⟩
  | .e2s _, _ => rfl
  | .sff, _ => rfl
  | .multi cs, hn => inv0L_init cs (by simpa [Shape.cutS] using hn)
theorem inv0L_init : ∀ (ss : List Shape), Shape.cutSL ss = true → Inv0L ss (initL ss)
  | [], _ => trivial
  | s :: ss, hn => by
      simp only [Shape.cutSL, Bool.and_eq_true] at hn
      exact ⟨inv0_init s hn.1, inv0L_init ss hn.2⟩
end

theorem readFF_inv0 (s : Shape) (hn : s.cutS = true) (st : St s) (h : Inv0 s st) : readFF s st = ffRead? s := by
  simp only [readFF, ffRead?, inv0_read s hn st h]

theorem failfast_read_states (s : Shape) (hn : s.cutS = true) :
    ∀ (h : List Call), (∀ x ∈ h, noSF x = true) → ∀ (st : St s), Inv0 s st →
    ∀ o ∈ (states s st h).map (observe s), o.ff = ffRead? s
  | [], _, _, _ => by intro o ho'; simp [states] at ho'
  | c :: h, hq, st, h0 => by
      have h0' : Inv0 s (step s st c) := by
        have := inv0_steps s hn [c] (by simpa using hq c List.mem_cons_self) st h0; simpa using this
      intro o ho'
      simp only [states, List.map_cons, List.mem_cons] at ho'
      rcases ho' with rfl | ho'
      · exact readFF_inv0 s hn _ h0'
      · exact failfast_read_states s hn h (fun x hx => hq x (List.mem_cons_of_mem _ hx)) _ h0' o ho'

/-- **C04 (fail-fast reads as set).**  For every graph — over own results, over results of the old flavours with or
without a `failfast` attribute assigned on them before or after wrapping, and with stream pipelines (an
`ExtendedToStreamDecorator` reads whether its `StreamFailFast` is installed) — and every history that does not assign
`failfast` through the wrappers: `failfast` read on the object reported to is, from construction on and after every
call, what was set on the result(s) it reads through to (`ffRead`): an `ExtendedToOriginalDecorator` /
`TestResultDecorator` / `Tagger` reads its target's, falling back to the adapter's own (false) only if the target has
none; a `MultiTestResult` its first target's. -/
theorem C04_failfast_read (s : Shape) (h : List Call) (hq : ∀ x ∈ h, noSF x = true) :
    readFF s (init s) = ffRead? s ∧ ∀ o ∈ (states s (init s) h).map (observe s), o.ff = ffRead? s :=
  ⟨readFF_inv0 s (cutS_all s) _ (inv0_init s (cutS_all s)),
   failfast_read_states s (cutS_all s) h hq (init s) (inv0_init s (cutS_all s))⟩

mutual
theorem inv1_steps : ∀ (s : Shape), ownLeaves s = true → s.noStream = true → ∀ (cs : List Call),
    (∀ x ∈ cs, noSF x = true) → ∀ (st : St s) (b : Bool), Inv1 b s st → Inv1 (cs.foldl upd b) s (cs.foldl (step s) st)
  | _, _, _, [], _, _, _, h => h
  | .sink _, ho, _, _ :: _, _, _, _, _ => by simp [ownLeaves] at ho
  | .fsink _ _ _, ho, _, _ :: _, _, _, _, _ => by simp [ownLeaves] at ho
  | .tbt, ho, _, _ :: _, _, _, _, _ => by simp [ownLeaves] at ho
  | .tt ff, ho, hn, c :: cs, hc, st, b, h => by
      simp only [List.foldl_cons]
      exact inv1_steps (.tt ff) ho hn cs (fun x hx => hc x (List.mem_cons_of_mem _ hx)) _ _
        (tt_inv1 ff st c (hc c List.mem_cons_self) b h)
  | .text ff, ho, hn, c :: cs, hc, st, b, h => by
      simp only [List.foldl_cons]
      refine inv1_steps (.text ff) ho hn cs (fun x hx => hc x (List.mem_cons_of_mem _ hx)) _ _ ?_
      have := tt_inv1 ff st.tt c (hc c List.mem_cons_self) b h
      cases c <;> simpa [Inv1, step, textStep] using this
  | .etod ch, ho, hn, c :: cs, hc, (own, inner), b, h => by
      simp only [List.foldl_cons]
      have ho' : ownLeaves ch = true := by simpa [ownLeaves] using ho
      have hn' : ch.noStream = true := by simpa [Shape.noStream] using hn
      have hr : (caps ch).startRun = true := by cases ch <;> simp_all [ownLeaves, caps]
      have hcc := hc c List.mem_cons_self
      refine inv1_steps (.etod ch) ho hn cs (fun x hx => hc x (List.mem_cons_of_mem _ hx)) _ _ ?_
      obtain ⟨k, hk⟩ := etodStep_emits ⟨caps ch, step ch, failfastOf ch⟩ own inner c
      have h2 : (step (.etod ch) (own, inner) c).2
          = (etodMain (caps ch) c ++ List.replicate k Call.stop).foldl (step ch) inner := hk
      have h1 := etodStep_ownff ⟨caps ch, step ch, failfastOf ch⟩ own inner c
      refine ⟨?_, ?_⟩
      · show (etodStep ⟨caps ch, step ch, failfastOf ch⟩ own inner c).1.failfast = false
        rw [h1]
        cases c with
        | setFailfast x => simp [noSF] at hcc
        | _ => exact h.1
      · show Inv1 (upd b c) ch (step (.etod ch) (own, inner) c).2
        rw [h2]
        have := inv1_steps ch ho' hn' (etodMain (caps ch) c ++ List.replicate k Call.stop) (by
          intro x hx
          rcases List.mem_append.mp hx with hx | hx
          · exact main_noSF _ c hcc x hx
          · rw [List.eq_of_mem_replicate hx]; rfl) inner b h.2
        rwa [List.foldl_append, upd_main _ hr, upd_stops] at this
  | .deco ch, ho, hn, c :: cs, hc, st, b, h => by
      simp only [List.foldl_cons]
      have ho' : ownLeaves ch = true := by simpa [ownLeaves] using ho
      have hn' : ch.noStream = true := by simpa [Shape.noStream] using hn
      have hcc := hc c List.mem_cons_self
      refine inv1_steps (.deco ch) ho hn cs (fun x hx => hc x (List.mem_cons_of_mem _ hx)) _ _ ?_
      have h1 := inv1_steps ch ho' hn' [c] (by simpa using hcc) st b h
      cases c with
      | done => exact h
      | setFailfast x => simp [noSF] at hcc
      | _ => exact h1
  | .tagger n g ch, ho, hn, c :: cs, hc, st, b, h => by
      simp only [List.foldl_cons]
      have ho' : ownLeaves ch = true := by simpa [ownLeaves] using ho
      have hn' : ch.noStream = true := by simpa [Shape.noStream] using hn
      have hcc := hc c List.mem_cons_self
      refine inv1_steps (.tagger n g ch) ho hn cs (fun x hx => hc x (List.mem_cons_of_mem _ hx)) _ _ ?_
      have h1 := inv1_steps ch ho' hn' [c] (by simpa using hcc) st b h
      cases c with
      | startTest t => exact inv1_steps ch ho' hn' [.startTest t, .tags n g] (by simp [noSF]) st b h
      | done => exact h
      | setFailfast x => simp [noSF] at hcc
      | _ => exact h1
  | .tfr ch, ho, hn, c :: cs, hc, (own, inner), b, h => by
      simp only [List.foldl_cons]
      have ho' : ownLeaves ch = true := by simpa [ownLeaves] using ho
      have hn' : ch.noStream = true := by simpa [Shape.noStream] using hn
      have hcc := hc c List.mem_cons_self
      refine inv1_steps (.tfr ch) ho hn cs (fun x hx => hc x (List.mem_cons_of_mem _ hx)) _ _ ?_
      have one : ∀ c', noSF c' = true → Inv1 (upd b c') ch (step ch inner c') := by
        intro c' h'
        have := inv1_steps ch ho' hn' [c'] (by simpa using h') inner b h.2
        simpa using this
      cases c with
      | add k t a =>
        refine ⟨h.1, ?_⟩
        have hoff : tfrStops own k = [] := tfrStops_off own k (.inl h.1)
        show Inv1 (upd b (.add k t a)) ch ((tfrBlock own k t a ++ tfrStops own k).foldl (step ch) inner)
        rw [hoff, List.append_nil]
        have := inv1_steps ch ho' hn' _ (tfrBlock_noSF own k t a) inner b h.2
        rwa [upd_tfrBlock] at this
      | startTestRun => exact ⟨by simp [step, tfrStep, ttStep, TT.reset, Call.logged, h.1], one _ rfl⟩
      | stopTestRun => exact ⟨h.1, one _ rfl⟩
      | stop => exact ⟨h.1, one _ rfl⟩
      | done => exact ⟨h.1, one _ rfl⟩
      | startTest t => exact ⟨by simp [step, tfrStep, ttStep, Call.logged, h.1], h.2⟩
      | stopTest t => exact ⟨by simp [step, tfrStep, ttStep, Call.logged, h.1], h.2⟩
      | tags n g => simp only [step, tfrStep]; split <;> exact ⟨by simp [ttStep, Call.logged, h.1], h.2⟩
      | time d => exact ⟨by simp [step, tfrStep, ttStep, Call.logged, h.1], h.2⟩
      | setFailfast x => simp [noSF] at hcc
      | progress => exact h
  | .multi ss, ho, hn, c :: cs, hc, (own, inner), b, h => by
      simp only [List.foldl_cons]
      have ho' : ownLeavesL ss = true := by simpa [ownLeaves] using ho
      have hn' : Shape.noStreamL ss = true := by simpa [Shape.noStream] using hn
      have hcc := hc c List.mem_cons_self
      refine inv1_steps (.multi ss) ho hn cs (fun x hx => hc x (List.mem_cons_of_mem _ hx)) _ _ ?_
      have h1 := inv1L_step ss ho' hn' c hcc inner b h
      cases c with
      | progress => exact h
      | _ => exact h1
  | .e2s _, _, hn, _ :: _, _, _, _, _ => by simp [Shape.noStream] at hn
  | .sff, _, hn, _ :: _, _, _, _, _ => by simp [Shape.noStream] at hn
theorem inv1L_step : ∀ (ss : List Shape), ownLeavesL ss = true → Shape.noStreamL ss = true → ∀ (c : Call),
    noSF c = true → ∀ (st : StL ss) (b : Bool), Inv1L b ss st → Inv1L (upd b c) ss (stepL ss st c)
  | [], _, _, _, _, _, _, _ => trivial
  | s :: ss, ho, hn, c, hc, (x, xs), b, h => by
      simp only [ownLeavesL, Bool.and_eq_true] at ho
      simp only [Shape.noStreamL, Bool.and_eq_true] at hn
      have := inv1_steps s ho.1 hn.1 [c] (by simpa using hc) x b h.1
      exact ⟨by simpa using this, inv1L_step ss ho.2 hn.2 c hc xs b h.2⟩
end

mutual
theorem inv1_read : ∀ (s : Shape), ownLeaves s = true → s.noStream = true → ∀ (st : St s) (b : Bool),
    Inv1 b s st → failfastOf s st = ffRead s
  | .sink _, ho, _, _, _, _ => by simp [ownLeaves] at ho
  | .fsink _ _ _, ho, _, _, _, _ => by simp [ownLeaves] at ho
  | .tbt, ho, _, _, _, _ => by simp [ownLeaves] at ho
  | .tt ff, _, _, st, b, h => h.1
  | .text ff, _, _, st, b, h => h.1
  | .etod c, ho, hn, (own, inner), b, h => by
      simp only [failfastOf, ffRead]
      split
      · rename_i hc
        simp only [hc, Bool.true_and]
        exact inv1_read c (by simpa [ownLeaves] using ho) (by simpa [Shape.noStream] using hn) inner b h.2
      · rename_i hc; simp [hc, h.1]
  | .deco c, ho, hn, st, b, h =>
      inv1_read c (by simpa [ownLeaves] using ho) (by simpa [Shape.noStream] using hn) st b h
  | .tagger _ _ c, ho, hn, st, b, h =>
      inv1_read c (by simpa [ownLeaves] using ho) (by simpa [Shape.noStream] using hn) st b h
  | .tfr _, _, _, (own, _), _, h => h.1
  | .e2s _, _, hn, _, _, _ => by simp [Shape.noStream] at hn
  | .sff, _, hn, _, _, _ => by simp [Shape.noStream] at hn
  | .multi cs, ho, hn, (_, inner), b, h => by
      simp only [failfastOf, ffRead]
      cases cs with
      | nil => rfl
      | cons d ds =>
        obtain ⟨x, xs⟩ := inner
        simp only [ownLeaves, ownLeavesL, Bool.and_eq_true] at ho
        simp only [Shape.noStream, Shape.noStreamL, Bool.and_eq_true] at hn
        simp only [failfastL, List.headD_cons, ffReadHead]
        exact inv1_read d ho.1 hn.1 x b h.1
end

/- a result built without fail-fast under no fail-fast `ExtendedToOriginalDecorator` (`g`) has not stopped -/
mutual
def Inv2 (g : Bool) : (s : Shape) → St s → Prop
  | .tt ff, st => ff = false → g = false → st.shouldStop = false
  | .text ff, st => ff = false → g = false → st.tt.shouldStop = false
  | .sink _, _ => True
  | .fsink _ _ _, _ => True
  | .tbt, _ => True
  | .etod c, (_, inner) => Inv2 (g || ffRead (.etod c)) c inner
  | .deco c, st => Inv2 g c st
  | .tagger _ _ c, st => Inv2 g c st
  | .tfr c, (_, inner) => Inv2 g c inner
  | .multi cs, (_, inner) => Inv2L g cs inner
  | .e2s _, _ => True
  | .sff, _ => True
def Inv2L (g : Bool) : (cs : List Shape) → StL cs → Prop
  | [], _ => True
  | c :: cs, (x, xs) => Inv2 g c x ∧ Inv2L g cs xs
end

mutual
theorem inv2_true : ∀ (s : Shape) (st : St s), Inv2 true s st
  | .sink _, _ => trivial
  | .fsink _ _ _, _ => trivial
  | .tbt, _ => trivial
  | .tt _, _ => fun _ h => by cases h
  | .text _, _ => fun _ h => by cases h
  | .etod c, (_, inner) => by simp only [Inv2, Bool.true_or]; exact inv2_true c inner
  | .deco c, st => inv2_true c st
  | .tagger _ _ c, st => inv2_true c st
  | .tfr c, (_, inner) => inv2_true c inner
  | .e2s _, _ => trivial
  | .sff, _ => trivial
  | .multi cs, (_, inner) => inv2L_true cs inner
theorem inv2L_true : ∀ (ss : List Shape) (st : StL ss), Inv2L true ss st
  | [], _ => trivial
  | s :: ss, (x, xs) => ⟨inv2_true s x, inv2L_true ss xs⟩
end

def quietSF (c : Call) : Bool := noSF c && c != .stop

theorem tt_inv2 (ff : Bool) (st : TT) (c : Call) (hc : quietSF c = true) (hf : st.failfast = ff)
    (h : ff = false → st.shouldStop = false) : ff = false → (ttStep st c).shouldStop = false := by
  intro h0
  have h1 := h h0
  rw [h0] at hf
  cases c with
  | add k t a => cases k <;> simp [ttStep, h1, hf, Call.logged]
  | stop => simp [quietSF] at hc
  | _ => simp [ttStep, h1, Call.logged, TT.reset]

mutual
theorem inv2_steps : ∀ (s : Shape), ownLeaves s = true → s.noStream = true → ∀ (cs : List Call),
    (∀ x ∈ cs, quietSF x = true) → ∀ (st : St s) (b g : Bool), Inv1 b s st → Inv2 g s st →
    Inv2 g s (cs.foldl (step s) st)
  | _, _, _, [], _, _, _, _, _, h => h
  | s, ho, hn, c :: cs, hc, st, b, g, h1, h2 => by
      rw [List.foldl_cons]
      have hcc := hc c List.mem_cons_self
      have hsf : noSF c = true := by simp only [quietSF, Bool.and_eq_true] at hcc; exact hcc.1
      have h1' := inv1_steps s ho hn [c] (by simpa using hsf) st b h1
      exact inv2_steps s ho hn cs (fun x hx => hc x (List.mem_cons_of_mem _ hx)) _ _ g h1'
        (inv2_step s ho hn c hcc st b g h1 h2)
theorem inv2_step : ∀ (s : Shape), ownLeaves s = true → s.noStream = true → ∀ (c : Call), quietSF c = true →
    ∀ (st : St s) (b g : Bool), Inv1 b s st → Inv2 g s st → Inv2 g s (step s st c)
  | .sink _, ho, _, _, _, _, _, _, _, _ => by simp [ownLeaves] at ho
  | .fsink _ _ _, ho, _, _, _, _, _, _, _, _ => by simp [ownLeaves] at ho
  | .tbt, ho, _, _, _, _, _, _, _, _ => by simp [ownLeaves] at ho
  | .tt ff, _, _, c, hc, st, b, g, h1, h2 => by
      intro h0 hg
      exact tt_inv2 ff st c hc h1.1 (fun h0 => h2 h0 hg) h0
  | .text ff, _, _, c, hc, st, b, g, h1, h2 => by
      intro h0 hg
      have := tt_inv2 ff st.tt c hc h1.1 (fun h0 => h2 h0 hg) h0
      cases c <;> simpa [step, textStep] using this
  | .etod ch, ho, hn, c, hc, (own, inner), b, g, h1, h2 => by
      have ho' : ownLeaves ch = true := by simpa [ownLeaves] using ho
      have hn' : ch.noStream = true := by simpa [Shape.noStream] using hn
      simp only [quietSF, Bool.and_eq_true, bne_iff_ne, ne_eq] at hc
      show Inv2 (g || ffRead (.etod ch)) ch (step (.etod ch) (own, inner) c).2
      cases hg : (g || ffRead (.etod ch))
      · simp only [Bool.or_eq_false_iff] at hg
        have hmainSF := main_noSF (caps ch) c hc.1
        have hex := etodStep_exact ⟨caps ch, step ch, failfastOf ch⟩ own inner c hc.2 (by
          intro _
          have hi := inv1_steps ch ho' hn' _ hmainSF inner b h1.2
          have hr := inv1_read ch ho' hn' _ _ hi
          simp only [etodFailfast]
          split
          · rename_i hcf
            rw [hr]
            simpa [ffRead, hcf] using hg.2
          · exact h1.1)
        have h2' : (step (.etod ch) (own, inner) c).2 = (etodMain (caps ch) c).foldl (step ch) inner := hex
        rw [h2']
        have h2g : Inv2 false ch inner := by
          have := h2; simp only [Inv2, hg.1, hg.2, Bool.or_self] at this; exact this
        refine inv2_steps ch ho' hn' _ ?_ inner b false h1.2 h2g
        intro x hx
        simp only [quietSF, Bool.and_eq_true, bne_iff_ne, ne_eq]
        exact ⟨hmainSF x hx, main_noStop _ c hc.2 x hx⟩
      · exact inv2_true ch _
  | .deco ch, ho, hn, c, hc, st, b, g, h1, h2 => by
      have := inv2_step ch (by simpa [ownLeaves] using ho) (by simpa [Shape.noStream] using hn) c hc st b g h1 h2
      show Inv2 g ch (step (.deco ch) st c)
      cases c <;> first | exact this | exact h2
  | .tagger n t ch, ho, hn, c, hc, st, b, g, h1, h2 => by
      have ho' : ownLeaves ch = true := by simpa [ownLeaves] using ho
      have hn' : ch.noStream = true := by simpa [Shape.noStream] using hn
      have := inv2_step ch ho' hn' c hc st b g h1 h2
      show Inv2 g ch (step (.tagger n t ch) st c)
      cases c with
      | startTest x => exact inv2_steps ch ho' hn' [.startTest x, .tags n t] (by simp [quietSF, noSF]) st b g h1 h2
      | done => exact h2
      | _ => exact this
  | .tfr ch, ho, hn, c, hc, (own, inner), b, g, h1, h2 => by
      have ho' : ownLeaves ch = true := by simpa [ownLeaves] using ho
      have hn' : ch.noStream = true := by simpa [Shape.noStream] using hn
      show Inv2 g ch (step (.tfr ch) (own, inner) c).2
      have one : ∀ c', quietSF c' = true → Inv2 g ch (step ch inner c') :=
        fun c' h' => inv2_step ch ho' hn' c' h' inner b g h1.2 h2
      cases c with
      | add k t a =>
        have hoff : tfrStops own k = [] := tfrStops_off own k (.inl h1.1)
        show Inv2 g ch ((tfrBlock own k t a ++ tfrStops own k).foldl (step ch) inner)
        rw [hoff, List.append_nil]
        refine inv2_steps ch ho' hn' _ ?_ inner b g h1.2 h2
        intro x hx
        simp only [quietSF, Bool.and_eq_true, bne_iff_ne, ne_eq]
        exact ⟨tfrBlock_noSF own k t a x hx, tfrBlock_noStop own k t a x hx⟩
      | startTestRun => exact one _ rfl
      | stopTestRun => exact one _ rfl
      | stop => simp [quietSF] at hc
      | done => exact one _ rfl
      | _ => exact h2
  | .multi ss, ho, hn, c, hc, (own, inner), b, g, h1, h2 => by
      show Inv2L g ss (step (.multi ss) (own, inner) c).2
      have := inv2L_step ss (by simpa [ownLeaves] using ho) (by simpa [Shape.noStream] using hn) c hc inner b g h1 h2
      cases c with
      | progress => exact h2
      | _ => exact this
  | .e2s _, _, hn, _, _, _, _, _, _, _ => by simp [Shape.noStream] at hn
  | .sff, _, hn, _, _, _, _, _, _, _ => by simp [Shape.noStream] at hn
theorem inv2L_step : ∀ (ss : List Shape), ownLeavesL ss = true → Shape.noStreamL ss = true → ∀ (c : Call),
    quietSF c = true → ∀ (st : StL ss) (b g : Bool), Inv1L b ss st → Inv2L g ss st → Inv2L g ss (stepL ss st c)
  | [], _, _, _, _, _, _, _, _, _ => trivial
  | s :: ss, ho, hn, c, hc, (x, xs), b, g, h1, h2 => by
      simp only [ownLeavesL, Bool.and_eq_true] at ho
      simp only [Shape.noStreamL, Bool.and_eq_true] at hn
      exact ⟨inv2_step s ho.1 hn.1 c hc x b g h1.1 h2.1, inv2L_step ss ho.2 hn.2 c hc xs b g h1.2 h2.2⟩
end

mutual
theorem inv1_init : ∀ (s : Shape), Inv1 false s (init s)
  | .sink _ => trivial
  | .fsink _ _ _ => trivial
  | .tbt => trivial
  | .tt _ => ⟨rfl, fun h => by cases h⟩
  | .text _ => ⟨rfl, fun h => by cases h⟩
  | .etod c => ⟨rfl, inv1_init c⟩
  | .deco c => inv1_init c
  | .tagger _ _ c => inv1_init c
  | .tfr c => ⟨rfl, inv1_init c⟩
  | .e2s _ => trivial
  | .sff => trivial
  | .multi cs => inv1L_init cs
theorem inv1L_init : ∀ (ss : List Shape), Inv1L false ss (initL ss)
  | [] => trivial
  | s :: ss => ⟨inv1_init s, inv1L_init ss⟩
end

mutual
theorem inv2_init : ∀ (s : Shape) (g : Bool), Inv2 g s (init s)
  | .sink _, _ => trivial
  | .fsink _ _ _, _ => trivial
  | .tbt, _ => trivial
  | .tt _, _ => fun _ _ => rfl
  | .text _, _ => fun _ _ => rfl
  | .etod c, g => inv2_init c _
  | .deco c, g => inv2_init c g
  | .tagger _ _ c, g => inv2_init c g
  | .tfr c, g => inv2_init c g
  | .e2s _, _ => trivial
  | .sff, _ => trivial
  | .multi cs, g => inv2L_init cs g
theorem inv2L_init : ∀ (ss : List Shape) (g : Bool), Inv2L g ss (initL ss)
  | [], _ => trivial
  | s :: ss, g => ⟨inv2_init s g, inv2L_init ss g⟩
end

mutual
theorem inv1_kept : ∀ (s : Shape), ownLeaves s = true → s.noStream = true → ∀ (st : St s) (b : Bool),
    Inv1 b s st → (leaves s st).map LeafSt.failfast = leafParams s
  | .sink _, ho, _, _, _, _ => by simp [ownLeaves] at ho
  | .fsink _ _ _, ho, _, _, _, _ => by simp [ownLeaves] at ho
  | .tbt, ho, _, _, _, _ => by simp [ownLeaves] at ho
  | .tt ff, _, _, st, b, h => by simp [leaves, LeafSt.failfast, leafParams, h.1]
  | .text ff, _, _, st, b, h => by simp [leaves, LeafSt.failfast, leafParams, h.1]
  | .etod c, ho, hn, (_, inner), b, h =>
      inv1_kept c (by simpa [ownLeaves] using ho) (by simpa [Shape.noStream] using hn) inner b h.2
  | .deco c, ho, hn, st, b, h => inv1_kept c (by simpa [ownLeaves] using ho) (by simpa [Shape.noStream] using hn) st b h
  | .tagger _ _ c, ho, hn, st, b, h =>
      inv1_kept c (by simpa [ownLeaves] using ho) (by simpa [Shape.noStream] using hn) st b h
  | .tfr c, ho, hn, (_, inner), b, h =>
      inv1_kept c (by simpa [ownLeaves] using ho) (by simpa [Shape.noStream] using hn) inner b h.2
  | .e2s _, _, hn, _, _, _ => by simp [Shape.noStream] at hn
  | .sff, _, hn, _, _, _ => by simp [Shape.noStream] at hn
  | .multi cs, ho, hn, (_, inner), b, h =>
      inv1L_kept cs (by simpa [ownLeaves] using ho) (by simpa [Shape.noStream] using hn) inner b h
theorem inv1L_kept : ∀ (ss : List Shape), ownLeavesL ss = true → Shape.noStreamL ss = true → ∀ (st : StL ss) (b : Bool),
    Inv1L b ss st → (leavesL ss st).map LeafSt.failfast = leafParamsL ss
  | [], _, _, _, _, _ => rfl
  | s :: ss, ho, hn, (x, xs), b, h => by
      simp only [ownLeavesL, Bool.and_eq_true] at ho
      simp only [Shape.noStreamL, Bool.and_eq_true] at hn
      simp only [leavesL, leafParamsL, List.map_append, inv1_kept s ho.1 hn.1 x b h.1, inv1L_kept ss ho.2 hn.2 xs b h.2]
end

/-! ### under a fail-fast `ExtendedToOriginalDecorator` every result stops at the first bad outcome -/
/-- every result below has `shouldStop` set -/
def Stopped (s : Shape) (st : St s) : Prop := ∀ l ∈ leaves s st, LeafSt.shouldStop l = true
def StoppedL (ss : List Shape) (st : StL ss) : Prop := ∀ l ∈ leavesL ss st, LeafSt.shouldStop l = true

mutual
theorem stopped_mono : ∀ (s : Shape), ownLeaves s = true → s.noStream = true → ∀ (cs : List Call),
    (∀ x ∈ cs, x ≠ Call.startTestRun) → ∀ (st : St s), Stopped s st → Stopped s (cs.foldl (step s) st)
  | _, _, _, [], _, _, h => h
  | .sink _, ho, _, _ :: _, _, _, _ => by simp [ownLeaves] at ho
  | .fsink _ _ _, ho, _, _ :: _, _, _, _ => by simp [ownLeaves] at ho
  | .tbt, ho, _, _ :: _, _, _, _ => by simp [ownLeaves] at ho
  | .tt ff, ho, hn, c :: cs, hc, st, h => by
      rw [List.foldl_cons]
      refine stopped_mono (.tt ff) ho hn cs (fun x hx => hc x (List.mem_cons_of_mem _ hx)) _ ?_
      have h0 : st.shouldStop = true := h (.tt st) (by simp [leaves])
      intro l hl
      simp only [leaves, List.mem_singleton] at hl
      subst hl
      exact tt_ss_mono st c (hc c List.mem_cons_self) h0
  | .text ff, ho, hn, c :: cs, hc, st, h => by
      rw [List.foldl_cons]
      refine stopped_mono (.text ff) ho hn cs (fun x hx => hc x (List.mem_cons_of_mem _ hx)) _ ?_
      have h0 : st.tt.shouldStop = true := h (.text st) (by simp [leaves])
      have := tt_ss_mono st.tt c (hc c List.mem_cons_self) h0
      intro l hl
      simp only [leaves, List.mem_singleton] at hl
      subst hl
      cases c <;> simpa [LeafSt.shouldStop, step, textStep] using this
  | .etod ch, ho, hn, c :: cs, hc, (own, inner), h => by
      rw [List.foldl_cons]
      have ho' : ownLeaves ch = true := by simpa [ownLeaves] using ho
      have hn' : ch.noStream = true := by simpa [Shape.noStream] using hn
      refine stopped_mono (.etod ch) ho hn cs (fun x hx => hc x (List.mem_cons_of_mem _ hx)) _ ?_
      obtain ⟨k, hk⟩ := etodStep_emits ⟨caps ch, step ch, failfastOf ch⟩ own inner c
      have h2 : (step (.etod ch) (own, inner) c).2
          = (etodMain (caps ch) c ++ List.replicate k Call.stop).foldl (step ch) inner := hk
      show Stopped ch (step (.etod ch) (own, inner) c).2
      rw [h2]
      refine stopped_mono ch ho' hn' _ ?_ inner h
      intro x hx
      rcases List.mem_append.mp hx with hx | hx
      · exact main_noRun _ c (hc c List.mem_cons_self) x hx
      · rw [List.eq_of_mem_replicate hx]; simp
  | .deco ch, ho, hn, c :: cs, hc, st, h => by
      rw [List.foldl_cons]
      have ho' : ownLeaves ch = true := by simpa [ownLeaves] using ho
      have hn' : ch.noStream = true := by simpa [Shape.noStream] using hn
      refine stopped_mono (.deco ch) ho hn cs (fun x hx => hc x (List.mem_cons_of_mem _ hx)) _ ?_
      have h1 := stopped_mono ch ho' hn' [c] (by simpa using hc c List.mem_cons_self) st h
      show Stopped ch (step (.deco ch) st c)
      cases c <;> first | exact h1 | exact h
  | .tagger n g ch, ho, hn, c :: cs, hc, st, h => by
      rw [List.foldl_cons]
      have ho' : ownLeaves ch = true := by simpa [ownLeaves] using ho
      have hn' : ch.noStream = true := by simpa [Shape.noStream] using hn
      refine stopped_mono (.tagger n g ch) ho hn cs (fun x hx => hc x (List.mem_cons_of_mem _ hx)) _ ?_
      have h1 := stopped_mono ch ho' hn' [c] (by simpa using hc c List.mem_cons_self) st h
      show Stopped ch (step (.tagger n g ch) st c)
      cases c with
      | startTest t => exact stopped_mono ch ho' hn' [.startTest t, .tags n g] (by simp) st h
      | done => exact h
      | _ => exact h1
  | .tfr ch, ho, hn, c :: cs, hc, (own, inner), h => by
      rw [List.foldl_cons]
      have ho' : ownLeaves ch = true := by simpa [ownLeaves] using ho
      have hn' : ch.noStream = true := by simpa [Shape.noStream] using hn
      refine stopped_mono (.tfr ch) ho hn cs (fun x hx => hc x (List.mem_cons_of_mem _ hx)) _ ?_
      show Stopped ch (step (.tfr ch) (own, inner) c).2
      have hcn := hc c List.mem_cons_self
      cases c with
      | add k t a =>
        refine stopped_mono ch ho' hn' (tfrBlock own k t a ++ tfrStops own k) ?_ inner h
        intro x hx
        rcases List.mem_append.mp hx with hx | hx
        · exact tfrBlock_noRun own k t a x hx
        · exact tfrStops_noRun own k x hx
      | startTestRun => exact absurd rfl hcn
      | stopTestRun => exact stopped_mono ch ho' hn' [.stopTestRun] (by simp) inner h
      | stop => exact stopped_mono ch ho' hn' [.stop] (by simp) inner h
      | done => exact stopped_mono ch ho' hn' [.done] (by simp) inner h
      | tags n g =>
        have e : (step (.tfr ch) (own, inner) (.tags n g)).2 = inner := by simp only [step, tfrStep]; try (split <;> rfl)
        rw [e]; exact h
      | _ => exact h
  | .multi ss, ho, hn, c :: cs, hc, (own, inner), h => by
      rw [List.foldl_cons]
      have ho' : ownLeavesL ss = true := by simpa [ownLeaves] using ho
      have hn' : Shape.noStreamL ss = true := by simpa [Shape.noStream] using hn
      refine stopped_mono (.multi ss) ho hn cs (fun x hx => hc x (List.mem_cons_of_mem _ hx)) _ ?_
      have hcn := hc c List.mem_cons_self
      show StoppedL ss (step (.multi ss) (own, inner) c).2
      have h1 := stoppedL_mono ss ho' hn' c hcn inner h
      cases c <;> first | exact h1 | exact h | exact absurd rfl hcn
  | .e2s _, _, hn, _ :: _, _, _, _ => by simp [Shape.noStream] at hn
  | .sff, _, hn, _ :: _, _, _, _ => by simp [Shape.noStream] at hn
theorem stoppedL_mono : ∀ (ss : List Shape), ownLeavesL ss = true → Shape.noStreamL ss = true → ∀ (c : Call),
    c ≠ Call.startTestRun → ∀ (st : StL ss), StoppedL ss st → StoppedL ss (stepL ss st c)
  | [], _, _, _, _, _, _ => by intro l hl; simp [leavesL] at hl
  | s :: ss, ho, hn, c, hc, (x, xs), h => by
      simp only [ownLeavesL, Bool.and_eq_true] at ho
      simp only [Shape.noStreamL, Bool.and_eq_true] at hn
      intro l hl
      simp only [leavesL, stepL, List.mem_append] at hl
      rcases hl with hl | hl
      · have := stopped_mono s ho.1 hn.1 [c] (by simpa using hc) x
          (fun l hl => h l (by simp only [leavesL, List.mem_append]; exact .inl hl))
        exact this l (by simpa using hl)
      · exact stoppedL_mono ss ho.2 hn.2 c hc xs
          (fun l hl => h l (by simp only [leavesL, List.mem_append]; exact .inr hl)) l hl
end

/-- a failing outcome through an `ExtendedToOriginalDecorator` whose `failfast` reads true stops every result below -/
theorem etod_stops_leaves (ch : Shape) (ho : ownLeaves ch = true)
    (hn : ch.noStream = true) (own : EtodOwn) (inner : St ch) (k : Kind) (t : Nat) (a : Arg) (hk : Kind.bad k = true)
    (hff : failfastOf (.etod ch) (own, inner) = true) :
    Stopped ch (step (.etod ch) (own, inner) (.add k t a)).2 := by
  obtain ⟨hstop, _⟩ := caps_own ch ho
  have huxs : (caps ch).uxs = true := by cases ch <;> simp_all [ownLeaves, caps]
  have key : ∀ (a' : Arg) (k' : Kind),
      Stopped ch (etodFinally ⟨caps ch, step ch, failfastOf ch⟩ (own, step ch inner (.add k' t a'))).2 := by
    intro a' k'
    have hfr := ff_frame ch (cutS_all ch) [.add k' t a'] (by simp [frameCall]) inner
    simp only [List.foldl_cons, List.foldl_nil] at hfr
    have hf : etodFailfast ⟨caps ch, step ch, failfastOf ch⟩ own (step ch inner (.add k' t a')) = true := by
      simp only [etodFailfast, failfastOf] at hff ⊢
      rw [hfr]; exact hff
    simp only [etodFinally, hf, ite_true, etodStop, hstop]
    exact stop_leaves ch ho hn _
  cases k <;> simp [Kind.bad] at hk <;> simp only [step, etodStep, huxs, Bool.not_true, Bool.false_eq_true, ite_false]
  · exact key _ _
  · exact key _ _
  · exact key _ _

/- below every `ExtendedToOriginalDecorator` whose `failfast` reads true, every result has stopped if a bad outcome was
reported since the last `startTestRun` (`b`) -/
mutual
def Inv3 (b : Bool) : (s : Shape) → St s → Prop
  | .tt _, _ => True
  | .text _, _ => True
  | .sink _, _ => True
  | .fsink _ _ _, _ => True
  | .tbt, _ => True
  | .etod c, (_, inner) => (b = true → ffRead (.etod c) = true → Stopped c inner) ∧ Inv3 b c inner
  | .deco c, st => Inv3 b c st
  | .tagger _ _ c, st => Inv3 b c st
  | .tfr c, (_, inner) => Inv3 b c inner
  | .multi cs, (_, inner) => Inv3L b cs inner
  | .e2s _, _ => True
  | .sff, _ => True
def Inv3L (b : Bool) : (cs : List Shape) → StL cs → Prop
  | [], _ => True
  | c :: cs, (x, xs) => Inv3 b c x ∧ Inv3L b cs xs
end

theorem upd_true_cases (b : Bool) (c : Call) (h : upd b c = true) :
    (b = true ∧ c ≠ .startTestRun) ∨ (b = false ∧ ∃ k t a, c = .add k t a ∧ Kind.bad k = true) := by
  cases c with
  | startTestRun => simp [upd] at h
  | add k t a =>
    cases b
    · right; exact ⟨rfl, k, t, a, rfl, by simpa [upd] using h⟩
    · left; exact ⟨rfl, by simp⟩
  | _ => left; exact ⟨by simpa [upd] using h, by simp⟩

mutual
theorem inv3_steps : ∀ (s : Shape), ownLeaves s = true → s.noStream = true → ∀ (cs : List Call),
    (∀ x ∈ cs, noSF x = true) → ∀ (st : St s) (b : Bool), Inv1 b s st → Inv3 b s st →
    Inv3 (cs.foldl upd b) s (cs.foldl (step s) st)
  | _, _, _, [], _, _, _, _, h => h
  | .sink _, ho, _, _ :: _, _, _, _, _, _ => by simp [ownLeaves] at ho
  | .fsink _ _ _, ho, _, _ :: _, _, _, _, _, _ => by simp [ownLeaves] at ho
  | .tbt, ho, _, _ :: _, _, _, _, _, _ => by simp [ownLeaves] at ho
  | .tt ff, ho, hn, c :: cs, hc, st, b, h1, h => by
      simp only [List.foldl_cons]
      have h1' := inv1_steps (.tt ff) ho hn [c] (by simpa using hc c List.mem_cons_self) st b h1
      exact inv3_steps (.tt ff) ho hn cs (fun x hx => hc x (List.mem_cons_of_mem _ hx)) _ _ h1' trivial
  | .text ff, ho, hn, c :: cs, hc, st, b, h1, h => by
      simp only [List.foldl_cons]
      have h1' := inv1_steps (.text ff) ho hn [c] (by simpa using hc c List.mem_cons_self) st b h1
      exact inv3_steps (.text ff) ho hn cs (fun x hx => hc x (List.mem_cons_of_mem _ hx)) _ _ h1' trivial
  | .etod ch, ho, hn, c :: cs, hc, (own, inner), b, h1, h => by
      simp only [List.foldl_cons]
      have ho' : ownLeaves ch = true := by simpa [ownLeaves] using ho
      have hn' : ch.noStream = true := by simpa [Shape.noStream] using hn
      have hr : (caps ch).startRun = true := by cases ch <;> simp_all [ownLeaves, caps]
      have hcc := hc c List.mem_cons_self
      have h1' := inv1_steps (.etod ch) ho hn [c] (by simpa using hcc) (own, inner) b h1
      refine inv3_steps (.etod ch) ho hn cs (fun x hx => hc x (List.mem_cons_of_mem _ hx)) _ _ h1' ?_
      obtain ⟨k, hk⟩ := etodStep_emits ⟨caps ch, step ch, failfastOf ch⟩ own inner c
      have h2 : (step (.etod ch) (own, inner) c).2
          = (etodMain (caps ch) c ++ List.replicate k Call.stop).foldl (step ch) inner := hk
      refine ⟨?_, ?_⟩
      · intro hb hff
        show Stopped ch (step (.etod ch) (own, inner) c).2
        rcases upd_true_cases b c hb with ⟨hb0, hrun⟩ | ⟨_, k', t, a, hca, hbad⟩
        · rw [h2]
          refine stopped_mono ch ho' hn' _ ?_ inner (h.1 hb0 hff)
          intro x hx
          rcases List.mem_append.mp hx with hx | hx
          · exact main_noRun _ c hrun x hx
          · rw [List.eq_of_mem_replicate hx]; simp
        · subst hca
          have hread := inv1_read (.etod ch) ho hn (own, inner) b h1
          exact etod_stops_leaves ch ho' hn' own inner k' t a hbad (by rw [hread]; exact hff)
      · show Inv3 (upd b c) ch (step (.etod ch) (own, inner) c).2
        rw [h2]
        have := inv3_steps ch ho' hn' (etodMain (caps ch) c ++ List.replicate k Call.stop) (by
          intro x hx
          rcases List.mem_append.mp hx with hx | hx
          · exact main_noSF _ c hcc x hx
          · rw [List.eq_of_mem_replicate hx]; rfl) inner b h1.2 h.2
        rwa [List.foldl_append, upd_main _ hr, upd_stops] at this
  | .deco ch, ho, hn, c :: cs, hc, st, b, h1, h => by
      simp only [List.foldl_cons]
      have ho' : ownLeaves ch = true := by simpa [ownLeaves] using ho
      have hn' : ch.noStream = true := by simpa [Shape.noStream] using hn
      have hcc := hc c List.mem_cons_self
      have h1' := inv1_steps (.deco ch) ho hn [c] (by simpa using hcc) st b h1
      refine inv3_steps (.deco ch) ho hn cs (fun x hx => hc x (List.mem_cons_of_mem _ hx)) _ _ h1' ?_
      have h3 := inv3_steps ch ho' hn' [c] (by simpa using hcc) st b h1 h
      cases c with
      | done => exact h
      | setFailfast x => simp [noSF] at hcc
      | _ => exact h3
  | .tagger n g ch, ho, hn, c :: cs, hc, st, b, h1, h => by
      simp only [List.foldl_cons]
      have ho' : ownLeaves ch = true := by simpa [ownLeaves] using ho
      have hn' : ch.noStream = true := by simpa [Shape.noStream] using hn
      have hcc := hc c List.mem_cons_self
      have h1' := inv1_steps (.tagger n g ch) ho hn [c] (by simpa using hcc) st b h1
      refine inv3_steps (.tagger n g ch) ho hn cs (fun x hx => hc x (List.mem_cons_of_mem _ hx)) _ _ h1' ?_
      have h3 := inv3_steps ch ho' hn' [c] (by simpa using hcc) st b h1 h
      cases c with
      | startTest t => exact inv3_steps ch ho' hn' [.startTest t, .tags n g] (by simp [noSF]) st b h1 h
      | done => exact h
      | setFailfast x => simp [noSF] at hcc
      | _ => exact h3
  | .tfr ch, ho, hn, c :: cs, hc, (own, inner), b, h1, h => by
      simp only [List.foldl_cons]
      have ho' : ownLeaves ch = true := by simpa [ownLeaves] using ho
      have hn' : ch.noStream = true := by simpa [Shape.noStream] using hn
      have hcc := hc c List.mem_cons_self
      have h1' := inv1_steps (.tfr ch) ho hn [c] (by simpa using hcc) (own, inner) b h1
      refine inv3_steps (.tfr ch) ho hn cs (fun x hx => hc x (List.mem_cons_of_mem _ hx)) _ _ h1' ?_
      have one : ∀ c', noSF c' = true → Inv3 (upd b c') ch (step ch inner c') := by
        intro c' h'
        have := inv3_steps ch ho' hn' [c'] (by simpa using h') inner b h1.2 h
        simpa using this
      show Inv3 (upd b c) ch (step (.tfr ch) (own, inner) c).2
      cases c with
      | add k t a =>
        have hoff : tfrStops own k = [] := tfrStops_off own k (.inl h1.1)
        show Inv3 (upd b (.add k t a)) ch ((tfrBlock own k t a ++ tfrStops own k).foldl (step ch) inner)
        rw [hoff, List.append_nil]
        have := inv3_steps ch ho' hn' _ (tfrBlock_noSF own k t a) inner b h1.2 h
        rwa [upd_tfrBlock] at this
      | startTestRun => exact one _ rfl
      | stopTestRun => exact one _ rfl
      | stop => exact one _ rfl
      | done => exact one _ rfl
      | tags n g =>
        have e : (step (.tfr ch) (own, inner) (.tags n g)).2 = inner := by simp only [step, tfrStep]; try (split <;> rfl)
        rw [e]; exact h
      | setFailfast x => simp [noSF] at hcc
      | _ => exact h
  | .multi ss, ho, hn, c :: cs, hc, (own, inner), b, h1, h => by
      simp only [List.foldl_cons]
      have ho' : ownLeavesL ss = true := by simpa [ownLeaves] using ho
      have hn' : Shape.noStreamL ss = true := by simpa [Shape.noStream] using hn
      have hcc := hc c List.mem_cons_self
      have h1' := inv1_steps (.multi ss) ho hn [c] (by simpa using hcc) (own, inner) b h1
      refine inv3_steps (.multi ss) ho hn cs (fun x hx => hc x (List.mem_cons_of_mem _ hx)) _ _ h1' ?_
      have h3 := inv3L_step ss ho' hn' c hcc inner b h1 h
      show Inv3L (upd b c) ss (step (.multi ss) (own, inner) c).2
      cases c with
      | progress => exact h
      | _ => exact h3
  | .e2s _, _, hn, _ :: _, _, _, _, _, _ => by simp [Shape.noStream] at hn
  | .sff, _, hn, _ :: _, _, _, _, _, _ => by simp [Shape.noStream] at hn
theorem inv3L_step : ∀ (ss : List Shape), ownLeavesL ss = true → Shape.noStreamL ss = true → ∀ (c : Call),
    noSF c = true → ∀ (st : StL ss) (b : Bool), Inv1L b ss st → Inv3L b ss st → Inv3L (upd b c) ss (stepL ss st c)
  | [], _, _, _, _, _, _, _, _ => trivial
  | s :: ss, ho, hn, c, hc, (x, xs), b, h1, h => by
      simp only [ownLeavesL, Bool.and_eq_true] at ho
      simp only [Shape.noStreamL, Bool.and_eq_true] at hn
      have := inv3_steps s ho.1 hn.1 [c] (by simpa using hc) x b h1.1 h.1
      exact ⟨by simpa using this, inv3L_step ss ho.2 hn.2 c hc xs b h1.2 h.2⟩
end

mutual
theorem inv3_init : ∀ (s : Shape), Inv3 false s (init s)
  | .sink _ => trivial
  | .fsink _ _ _ => trivial
  | .tbt => trivial
  | .tt _ => trivial
  | .text _ => trivial
  | .etod c => ⟨fun h _ => Bool.noConfusion h, inv3_init c⟩
  | .deco c => inv3_init c
  | .tagger _ _ c => inv3_init c
  | .tfr c => inv3_init c
  | .e2s _ => trivial
  | .sff => trivial
  | .multi cs => inv3L_init cs
theorem inv3L_init : ∀ (ss : List Shape), Inv3L false ss (initL ss)
  | [] => trivial
  | s :: ss => ⟨inv3_init s, inv3L_init ss⟩
end

theorem zipAll3_append (p : Bool → Bool → Bool → Bool) : ∀ (a1 b1 c1 a2 b2 c2 : List Bool),
    zipAll3 p a1 b1 c1 = true → zipAll3 p a2 b2 c2 = true → zipAll3 p (a1 ++ a2) (b1 ++ b2) (c1 ++ c2) = true
  | [], [], [], _, _, _, _, h => by simpa using h
  | x :: a, y :: b, z :: c, _, _, _, h1, h2 => by
      simp only [zipAll3, Bool.and_eq_true, List.cons_append] at h1 ⊢
      exact ⟨h1.1, zipAll3_append p a b c _ _ _ h1.2 h2⟩
  | [], [], _ :: _, _, _, _, h, _ => by simp [zipAll3] at h
  | [], _ :: _, _, _, _, _, h, _ => by simp [zipAll3] at h
  | _ :: _, [], _, _, _, _, h, _ => by simp [zipAll3] at h
  | _ :: _, _ :: _, [], _, _, _, h, _ => by simp [zipAll3] at h

theorem stopped_of_append {s : Shape} {ss : List Shape} {x : St s} {xs : StL ss}
    (h : StoppedL (s :: ss) (x, xs)) : Stopped s x ∧ StoppedL ss xs :=
  ⟨fun l hl => h l (by simp only [leavesL, List.mem_append]; exact .inl hl),
   fun l hl => h l (by simp only [leavesL, List.mem_append]; exact .inr hl)⟩

mutual
theorem inv_rule : ∀ (s : Shape), ownLeaves s = true → s.noStream = true → ∀ (st : St s) (b g : Bool),
    Inv1 b s st → Inv2 g s st → Inv3 b s st → (b = true → g = true → Stopped s st) →
    zipAll3 (leafRule b) ((leaves s st).map LeafSt.shouldStop) (leafParams s) (guards g s) = true
  | .sink _, ho, _, _, _, _, _, _, _, _ => by simp [ownLeaves] at ho
  | .fsink _ _ _, ho, _, _, _, _, _, _, _, _ => by simp [ownLeaves] at ho
  | .tbt, ho, _, _, _, _, _, _, _, _ => by simp [ownLeaves] at ho
  | .tt ff, _, _, st, b, g, h1, h2, _, hg => by
      have hg' : b = true → g = true → st.shouldStop = true := fun hb hgg => hg hb hgg (.tt st) (by simp [leaves])
      simp only [leaves, List.map, LeafSt.shouldStop, leafParams, guards, zipAll3, leafRule, Bool.and_true]
      simp only [Inv1] at h1
      simp only [Inv2] at h2
      cases hs : st.shouldStop <;> cases ff <;> cases b <;> cases g <;> simp_all
  | .text ff, _, _, st, b, g, h1, h2, _, hg => by
      have hg' : b = true → g = true → st.tt.shouldStop = true := fun hb hgg => hg hb hgg (.text st) (by simp [leaves])
      simp only [leaves, List.map, LeafSt.shouldStop, leafParams, guards, zipAll3, leafRule, Bool.and_true]
      simp only [Inv1] at h1
      simp only [Inv2] at h2
      cases hs : st.tt.shouldStop <;> cases ff <;> cases b <;> cases g <;> simp_all
  | .etod c, ho, hn, (_, inner), b, g, h1, h2, h3, hg =>
      inv_rule c (by simpa [ownLeaves] using ho) (by simpa [Shape.noStream] using hn) inner b _ h1.2 h2 h3.2
        (fun hb hgg => by
          rcases Bool.or_eq_true _ _ ▸ hgg with hgg | hgg
          · exact hg hb hgg
          · exact h3.1 hb hgg)
  | .deco c, ho, hn, st, b, g, h1, h2, h3, hg =>
      inv_rule c (by simpa [ownLeaves] using ho) (by simpa [Shape.noStream] using hn) st b g h1 h2 h3 hg
  | .tagger _ _ c, ho, hn, st, b, g, h1, h2, h3, hg =>
      inv_rule c (by simpa [ownLeaves] using ho) (by simpa [Shape.noStream] using hn) st b g h1 h2 h3 hg
  | .tfr c, ho, hn, (_, inner), b, g, h1, h2, h3, hg =>
      inv_rule c (by simpa [ownLeaves] using ho) (by simpa [Shape.noStream] using hn) inner b g h1.2 h2 h3 hg
  | .e2s _, _, hn, _, _, _, _, _, _, _ => by simp [Shape.noStream] at hn
  | .sff, _, hn, _, _, _, _, _, _, _ => by simp [Shape.noStream] at hn
  | .multi cs, ho, hn, (_, inner), b, g, h1, h2, h3, hg =>
      invL_rule cs (by simpa [ownLeaves] using ho) (by simpa [Shape.noStream] using hn) inner b g h1 h2 h3 hg
theorem invL_rule : ∀ (ss : List Shape), ownLeavesL ss = true → Shape.noStreamL ss = true → ∀ (st : StL ss) (b g : Bool),
    Inv1L b ss st → Inv2L g ss st → Inv3L b ss st → (b = true → g = true → StoppedL ss st) →
    zipAll3 (leafRule b) ((leavesL ss st).map LeafSt.shouldStop) (leafParamsL ss) (guardsL g ss) = true
  | [], _, _, _, _, _, _, _, _, _ => rfl
  | s :: ss, ho, hn, (x, xs), b, g, h1, h2, h3, hg => by
      simp only [ownLeavesL, Bool.and_eq_true] at ho
      simp only [Shape.noStreamL, Bool.and_eq_true] at hn
      simp only [leavesL, leafParamsL, guardsL, List.map_append]
      exact zipAll3_append _ _ _ _ _ _ _
        (inv_rule s ho.1 hn.1 x b g h1.1 h2.1 h3.1 (fun hb hgg => (stopped_of_append (hg hb hgg)).1))
        (invL_rule ss ho.2 hn.2 xs b g h1.2 h2.2 h3.2 (fun hb hgg => (stopped_of_append (hg hb hgg)).2))
end

theorem upd_eq (b : Bool) (c : Call) :
    (match c with | .startTestRun => false | .add k _ _ => b || Kind.bad k | _ => b) = upd b c := by
  cases c <;> rfl

/-- every result by itself, along a whole history without `stop()` and without assignments of `failfast` -/
theorem leafStops_states (s : Shape) (ho : ownLeaves s = true) (hn : s.noStream = true) :
    ∀ (h : List Call), (∀ x ∈ h, quietSF x = true) → ∀ (st : St s) (b : Bool), Inv1 b s st → Inv2 false s st →
    Inv3 b s st →
    leafStops (leafParams s) (guards false s) b h ((states s st h).map (observe s)) = true
  | [], _, _, _, _, _, _ => rfl
  | c :: h, hq, st, b, h1, h2, h3 => by
      have hcc := hq c List.mem_cons_self
      have hsf : noSF c = true := by simp only [quietSF, Bool.and_eq_true] at hcc; exact hcc.1
      have h1' : Inv1 (upd b c) s (step s st c) := by
        have := inv1_steps s ho hn [c] (by simpa using hsf) st b h1; simpa using this
      have h2' := inv2_step s ho hn c hcc st b false h1 h2
      have h3' : Inv3 (upd b c) s (step s st c) := by
        have := inv3_steps s ho hn [c] (by simpa using hsf) st b h1 h3; simpa using this
      simp only [states, List.map_cons, leafStops, upd_eq, Bool.and_eq_true]
      exact ⟨inv_rule s ho hn _ _ _ h1' h2' h3' (fun _ hg => by cases hg),
        leafStops_states s ho hn h (fun x hx => hq x (List.mem_cons_of_mem _ hx)) _ _ h1' h2' h3'⟩

/-- **C04 (every result by itself).**  For every graph over `TestResult` / `TextTestResult` leaves and every history
without `stop()` and without assignments of `failfast` through wrappers: after every call, a result built with
`failfast=True`, and every result under an `ExtendedToOriginalDecorator` that reads `failfast` as true (because it is
set on the result it wraps, or as an instance attribute on the `TestResultDecorator` / `Tagger` layer it wraps —
before or after wrapping), has `shouldStop` set whenever an error / failure / unexpected success was reported since
the last `startTestRun`; a result built without it, under no such `ExtendedToOriginalDecorator`, never has —
whatever wrappers sit above it, and whatever `startTestRun`s they pass on. -/
theorem C04_leaf_stops (s : Shape) (ho : ownLeaves s = true) (hn : s.noStream = true) (h : List Call)
    (hq : ∀ x ∈ h, quietSF x = true) :
    leafStops (leafParams s) (guards false s) false h ((states s (init s) h).map (observe s)) = true :=
  leafStops_states s ho hn h hq (init s) false (inv1_init s) (inv2_init s false) (inv3_init s)

/-- **C04 (fail-fast survives).**  Without assignments through wrappers every result keeps, after every call of
every history (any number of `startTestRun`s on any wrapper), the `failfast` it was built with. -/
theorem C04_leaf_failfast_kept (s : Shape) (ho : ownLeaves s = true) (hn : s.noStream = true) :
    ∀ (h : List Call), (∀ x ∈ h, noSF x = true) → ∀ (st : St s) (b : Bool), Inv1 b s st →
    ∀ o ∈ (states s st h).map (observe s), o.leafFF = leafParams s
  | [], _, _, _, _ => by intro o ho'; simp [states] at ho'
  | c :: h, hq, st, b, h1 => by
      have h1' : Inv1 (upd b c) s (step s st c) := by
        have := inv1_steps s ho hn [c] (by simpa using hq c List.mem_cons_self) st b h1; simpa using this
      intro o ho'
      simp only [states, List.map_cons, List.mem_cons] at ho'
      rcases ho' with rfl | ho'
      · exact inv1_kept s ho hn _ _ h1'
      · exact C04_leaf_failfast_kept s ho hn h (fun x hx => hq x (List.mem_cons_of_mem _ hx)) _ _ h1' o ho'

/-! ## the proved clauses of the executable specification hold of the model -/
theorem obs_map (s : Shape) (st : St s) (h : List Call) (f : Obs → α) :
    ((states s st h).map (observe s)).map f = (states s st h).map (fun x => f (observe s x)) := by
  simp [List.map_map, Function.comp_def]

mutual
theorem noText_leaves : ∀ (s : Shape), hasText s = false → ∀ (st : St s), (leaves s st).filterMap LeafSt.textOut = []
  | .sink _, _, _ => rfl
  | .fsink _ _ _, _, _ => rfl
  | .tt _, _, _ => rfl
  | .text _, h, _ => by simp [hasText] at h
  | .tbt, _, _ => rfl
  | .etod c, h, (_, inner) => by simp only [leaves]; exact noText_leaves c (by simpa [hasText] using h) inner
  | .deco c, h, st => by simp only [leaves]; exact noText_leaves c (by simpa [hasText] using h) st
  | .tagger _ _ c, h, st => by simp only [leaves]; exact noText_leaves c (by simpa [hasText] using h) st
  | .tfr c, h, (_, inner) => by simp only [leaves]; exact noText_leaves c (by simpa [hasText] using h) inner
  | .e2s c, h, (_, inner) => by simp only [leaves]; exact noText_leaves c (by simpa [hasText] using h) inner
  | .sff, _, _ => rfl
  | .multi cs, h, (_, inner) => by simp only [leaves]; exact noText_leavesL cs (by simpa [hasText] using h) inner
theorem noText_leavesL : ∀ (ss : List Shape), hasTextL ss = false → ∀ (st : StL ss),
    (leavesL ss st).filterMap LeafSt.textOut = []
  | [], _, _ => rfl
  | s :: ss, h, (x, xs) => by
      simp only [hasTextL, Bool.or_eq_false_iff] at h
      simp only [leavesL, List.filterMap_append, noText_leaves s h.1 x, noText_leavesL ss h.2 xs, List.append_nil]
end

/-- `stop()` reaches, along a whole history -/
theorem stopReaches_states (s : Shape) (hw : s.wf = true) (ho : ownLeaves s = true) (hn : s.noStream = true) :
    ∀ (h : List Call) (st : St s), stopReaches h ((states s st h).map (observe s)) = true
  | [], _ => rfl
  | c :: h, st => by
      simp only [states, List.map_cons, stopReaches, Bool.and_eq_true, stopReaches_states s hw ho hn h, and_true,
        Bool.or_eq_true, Bool.not_eq_true']
      by_cases hc : c = .stop
      · subst hc
        right
        obtain ⟨h1, h2⟩ := C04_stop_reaches s hw ho hn st
        simp only [observe, h2, true_and, List.all_map, List.all_eq_true]
        exact fun l hl => by simpa using h1 l hl
      · left; simpa using hc

/-- `stop()` sets `shouldStop` of the object, along a whole history -/
theorem stopSets_states (s : Shape) (hw : s.wf = true) :
    ∀ (h : List Call) (st : St s), stopSets h ((states s st h).map (observe s)) = true
  | [], _ => rfl
  | c :: h, st => by
      simp only [states, List.map_cons, stopSets, Bool.and_eq_true, stopSets_states s hw h, and_true,
        Bool.or_eq_true, Bool.not_eq_true']
      by_cases hc : c = .stop
      · subst hc; right; exact root_stop s hw (cutS_all s) st
      · left; simpa using hc

/-- **C04 (a `StreamFailFast` as stream target).**  `ExtendedToStreamDecorator(StreamFailFast(callback))`: the inner
`StreamFailFast` calls its callback exactly once per error / failure / unexpected success reported, whatever the
decorator's own `failfast` and `shouldStop` are (for those: `e2s_own`, as over any stream target). -/
theorem C04_callback : ∀ (h : List Call) (st : St .sff),
    cbCount st.2 h ((states .sff st h).map (observe .sff)) = true
  | [], _ => rfl
  | c :: h, (own, n) => by
      simp only [states, List.map_cons, cbCount, Bool.and_eq_true, beq_iff_eq]
      have hn : (step .sff (own, n) c).2 = if isBadAdd c then n + 1 else n := by
        cases c with
        | add k t a => cases k <;> rfl
        | _ => rfl
      refine ⟨by simp only [observe, cbsOf]; rw [hn], ?_⟩
      have := C04_callback h (step .sff (own, n) c)
      rw [hn] at this
      exact this

/-- fail-fast stops, along a whole history -/
theorem ffStops_states (s : Shape) (hw : s.wf = true) (ho : adaptLeaves s = true) :
    ∀ (h : List Call) (st : St s), ffStops (readFF s st) h ((states s st h).map (observe s)) = true
  | [], _ => rfl
  | c :: h, st => by
      simp only [states, List.map_cons, ffStops, Bool.and_eq_true, Bool.or_eq_true, Bool.not_eq_true']
      refine ⟨?_, ffStops_states s hw ho h _⟩
      by_cases hff : readFF s st = some true
      · cases c with
        | add k t a =>
          by_cases hk : Kind.bad k = true
          · right; exact C04_failfast_stops s hw ho st k t a hk hff
          · left; simp [isBadAdd, hk]
        | _ => left; simp [isBadAdd]
      · left
        cases hr : readFF s st with
        | none => simp
        | some b => cases b <;> simp_all

/-- **Headline (partial).**  Full statement: `∀ i, i.shape.wf → Spec.C04.holds i (model i) = true`.  Proved here for every
input whose graph has no `TextTestResult` behind a `ThreadsafeForwardingResult`: all fourteen clauses, on every graph the
clause speaks about — stream pipelines (`ExtendedToStreamDecorator` + `StreamFailFast`) included for `failfast-kept`,
`failfast-read`, `failfast-stops`, `stop-sets`, `stop-sticky`, `not-earlier`; outside the finding class `sysExitZero`
(a test calling `sys.exit(0)` / `sys.exit()` is reached by `testtools.run`: exit status 0 under a `FAILED` summary). -/
theorem holds_model_partial (i : Input) (hw : i.shape.wf = true)
    (ht : i.shape.hasTfr = false ∨ hasText i.shape = false) (hfind : sysExitZero i = false)
    : holds i (model i) = true := by
  simp only [holds, clauses, List.all_cons, List.all_nil, Bool.and_true, Bool.and_eq_true]
  have scope : inScope i = true → i.hist.all Call.ok = true ∧ ownLeaves i.shape = true ∧
      ((hasText i.shape || Spec.C17.Shape.hasE2s i.shape) = false ∨ i.hist.head? = some .startTestRun) := by
    intro h
    simp only [inScope, Bool.and_eq_true, Bool.or_eq_true, Bool.not_eq_true', beq_iff_eq] at h
    exact ⟨h.1.1, h.1.2, h.2⟩
  have scopeA : inScopeA i = true → adaptLeaves i.shape = true := by
    intro h
    simp only [inScopeA, Bool.and_eq_true] at h
    exact h.1.2
  have scopeR : inScopeA i = true →
      ((hasText i.shape || Spec.C17.Shape.hasE2s i.shape) = false ∨ i.hist.head? = some .startTestRun) := by
    intro h
    simp only [inScopeA, Bool.and_eq_true, Bool.or_eq_true, Bool.not_eq_true', beq_iff_eq] at h
    exact h.2
  refine ⟨?_, ?_, ?_, ?_, ?_, ?_, ?_, ?_, ?_, ?_, ?_, ?_, ?_, ?_⟩
  · -- verdict
    cases hn : i.shape.noStream
    · simp [cVerdict, hn]
    cases hs : inScope i
    · simp [cVerdict, hs]
    · obtain ⟨_, ho, _⟩ := scope hs
      simp only [cVerdict, hs, hn, Bool.and_self, Bool.not_true, Bool.false_or, beq_iff_eq, model]
      rw [obs_map]
      exact C04_verdict i.shape hw ho hn i.hist
  · -- text summary
    cases hn : i.shape.noStream
    · simp [cText, hn]
    cases hs : inScope i
    · simp [cText, hs]
    · obtain ⟨_, ho, hh⟩ := scope hs
      have notext : hasText i.shape = false →
          ((leaves i.shape (run i.shape (init i.shape) i.hist)).filterMap LeafSt.textOut).all
            (fun x => x == textSpec {} i.hist) = true := by
        intro h0; rw [noText_leaves i.shape h0]; rfl
      rcases ht with ht | ht
      · simp only [cText, hs, hn, ht, Bool.not_false, Bool.or_true, Bool.and_self, Bool.not_true, Bool.false_or, model]
        rcases hh with hh | hh
        · simp only [Bool.or_eq_false_iff] at hh; exact notext hh.1
        · cases hhist : i.hist with
          | nil => rw [hhist] at hh; cases hh
          | cons c h =>
            rw [hhist] at hh
            simp only [List.head?_cons, Option.some.injEq] at hh
            subst hh
            rw [List.all_eq_true]
            intro x hx
            rw [← hhist] at hx
            have := C04_text_summary_partial i.shape ho hn ht h x (by rw [← hhist]; exact hx)
            simp [this]
      · simp only [cText, model, Bool.or_eq_true]
        right; exact notext ht
  · -- fail-fast kept
    simp only [cFailfastKept, Bool.or_eq_true, beq_iff_eq, model]
    right; exact C04_failfast_kept i.shape
  · -- fail-fast stops
    cases hs : inScopeA i
    · simp [cFailfastStops, hs]
    · simp only [cFailfastStops, hs, Bool.not_true, Bool.false_or, model]
      exact ffStops_states i.shape hw (scopeA hs) i.hist (init i.shape)
  · -- stop is sticky
    cases hs : inScopeA i
    · simp [cSticky, hs]
    · simp only [cSticky, hs, Bool.not_true, Bool.false_or, model]
      cases hh : i.hist with
      | nil => simp [states, sticky]
      | cons c h =>
        simp only [states, List.map_cons, sticky, Bool.and_eq_true]
        refine ⟨by simp, sticky_states i.shape (scopeA hs) h _ ?_⟩
        rcases scopeR hs with hr | hr
        · simp only [Bool.or_eq_false_iff] at hr
          exact started_of_noE2s i.shape hr.2 _
        · rw [hh] at hr
          simp only [List.head?_cons, Option.some.injEq] at hr
          subst hr
          exact started_run i.shape _
  · -- not earlier
    cases hs : inScopeN i
    · simp [cNotEarlier, hs]
    · have ho : resetLeaves i.shape = true := by
        simp only [inScopeN, Bool.and_eq_true] at hs; exact hs.1.2
      simp only [cNotEarlier, hs, Bool.not_true, Bool.false_or, model]
      exact C04_not_earlier i.shape ho i.hist
  · -- stop reaches
    cases hn : i.shape.noStream
    · simp [cStopReaches, hn]
    cases hs : inScope i
    · simp [cStopReaches, hs]
    · obtain ⟨_, ho, _⟩ := scope hs
      simp only [cStopReaches, hs, hn, Bool.and_self, Bool.not_true, Bool.false_or, model]
      exact stopReaches_states i.shape hw ho hn i.hist (init i.shape)
  · -- stop sets shouldStop
    simp only [cStopSets, Bool.or_eq_true, model]
    right; exact stopSets_states i.shape hw i.hist (init i.shape)
  · -- fail-fast reads as set
    have hn := cutS_all i.shape
    cases ha : noAssign i.hist
    · simp [cFailfastRead, ha]
    · simp only [cFailfastRead, Bool.or_eq_true, Bool.and_eq_true, beq_iff_eq, List.all_eq_true, model]
      right
      have hq : ∀ x ∈ i.hist, noSF x = true := by
        intro x hx
        have := List.all_eq_true.mp ha x hx
        cases x <;> simp_all [noSF]
      exact C04_failfast_read i.shape i.hist hq
  · -- every result keeps its fail-fast
    cases hn : i.shape.noStream
    · simp [cLeafKept, hn]
    cases hs : inScope i
    · simp [cLeafKept, hs]
    · obtain ⟨_, ho, _⟩ := scope hs
      cases ha : noAssign i.hist
      · simp [cLeafKept, ha]
      · simp only [cLeafKept, hs, hn, ha, Bool.and_self, Bool.not_true, Bool.false_or, List.all_eq_true, beq_iff_eq, model]
        refine C04_leaf_failfast_kept i.shape ho hn i.hist ?_ (init i.shape) false (inv1_init _)
        intro x hx
        have := List.all_eq_true.mp ha x hx
        cases x <;> simp_all [noSF]
  · -- every result stops by itself
    cases hn : i.shape.noStream
    · simp [cLeafStops, hn]
    cases hs : inScope i
    · simp [cLeafStops, hs]
    · obtain ⟨_, ho, _⟩ := scope hs
      cases ha : noAssign i.hist
      · simp [cLeafStops, ha]
      · cases hst : i.hist.all (· != .stop)
        · simp [cLeafStops, hst]
        · simp only [cLeafStops, hs, hn, ha, hst, Bool.and_self, Bool.not_true, Bool.false_or, model]
          refine C04_leaf_stops i.shape ho hn i.hist ?_
          intro x hx
          have h1 := List.all_eq_true.mp ha x hx
          have h2 := List.all_eq_true.mp hst x hx
          cases x <;> simp_all [quietSF, noSF]
  · -- the callback of a StreamFailFast used as stream target
    obtain ⟨sh, hist, prog⟩ := i
    cases sh <;> try (simp [cCallback])
    exact C04_callback hist (init .sff)
  · -- exit status
    simp only [cExit, model]
    cases hp : i.prog with
    | none => rfl
    | some p =>
      obtain ⟨ff, ps⟩ := p
      simp only [Option.map_some, C04_exit, Bool.and_eq_true, beq_iff_eq, and_true]
      simp only [sysExitZero, hp] at hfind
      cases he : progExit ff ps with
      | none => simp
      | some c =>
        rw [he] at hfind
        cases c with
        | none => simp at hfind
        | some n => cases n <;> simp_all
  · -- a stop below is visible above
    cases hn : i.shape.noStream
    · simp [cStopVisible, hn]
    cases hs : inScope i
    · simp [cStopVisible, hs]
    · obtain ⟨_, ho, _⟩ := scope hs
      simp only [cStopVisible, hs, hn, Bool.and_self, Bool.not_true, Bool.false_or, model, List.all_map,
        List.all_eq_true, Function.comp_apply, beq_iff_eq]
      intro st _
      simp only [observe, List.any_map, Function.comp_def, id]
      exact ss_leaves i.shape ho hn st

/-! ## non-vacuity -/
/-- `stop-visible` is not vacuous: fail-fast set on the *second* result of a `MultiTestResult` before wrapping; the
multiplexer reads `failfast` from its first result (false), and still shows the second result's stop -/
example :
    let i : Input := { shape := .multi [.tt false, .tt true],
                       hist := [.startTestRun, .startTest 1, .add .failure 1 (.exc .real), .stopTest 1], prog := none }
    inScope i = true ∧ i.shape.noStream = true ∧ (model i).ff0 = some false ∧ cStopVisible i (model i) = true ∧
    (model i).obs.map (fun o => (o.ss, o.leafStop)) =
      [(false, [false, false]), (false, [false, false]), (true, [false, true]), (true, [false, true])] := by
  decide

/-- `failfast` assigned on a `ThreadsafeForwardingResult` that is reported to directly is honoured (regression of
the former finding `tfrOwnFailfastDirect`, D15) -/
example :
    let i : Input := { shape := .tfr (.etod (.tt false)),
                       hist := [.startTestRun, .setFailfast true, .startTest 1, .add .error 1 (.exc .real), .stopTest 1],
                       prog := none }
    holds i (model i) = true ∧ (model i).obs.map (·.ss) = [false, false, false, true, true] := by decide

/-- `failfast` assigned on a 2.6-style result after the `MultiTestResult` around it (and its
`ExtendedToOriginalDecorator`) was built: it reads true through the multiplexer, and the first failure stops the result -/
example :
    let i : Input := { shape := .multi [.etod (.fsink true true .py26)],
                       hist := [.startTest 1, .add .failure 1 (.exc .real), .stopTest 1], prog := none }
    inScopeA i = true ∧ (model i).ff0 = some true ∧ (model i).leafFF = [true] ∧ holds i (model i) = true ∧
    (model i).obs.map (fun o => (o.ss, o.leafStop)) = [(false, [false]), (true, [true]), (true, [true])] := by
  decide

/-- the same on a Twisted-style result, which has neither `stop` nor `shouldStop`: "`shouldStop` becomes true" is the
adapter's own flag -/
example :
    let i : Input := { shape := .etod (.fsink false true .twisted),
                       hist := [.startTest 1, .add .uxsuccess 1 .none, .stopTest 1], prog := none }
    inScopeA i = true ∧ (model i).ff0 = some true ∧ holds i (model i) = true ∧
    (model i).obs.map (fun o => (o.ss, o.leafStop)) = [(false, [false]), (true, [false]), (true, [false])] := by
  decide

/-- `failfast` assigned on a `TestResultDecorator` that is reported to directly (regression of the former finding:
the attribute nobody read): it lands on the decorated result, which stops at the first failure -/
example :
    let i : Input := { shape := .deco (.tt false),
                       hist := [.setFailfast true, .startTest 1, .add .failure 1 (.exc .real), .stopTest 1], prog := none }
    inScope i = true ∧ holds i (model i) = true ∧
    (model i).obs.map (fun o => (o.ff, o.ss)) = [(some true, false), (some true, false), (some true, true), (some true, true)] := by
  decide

/-- a `MultiTestResult` over a Twisted-style result (no `shouldStop`) reads `shouldStop` through the adapter's property,
i.e. the adapter's own flag: true after `stop()` (regression of the former finding `multiNoShouldStop`), also through
an outer `ExtendedToOriginalDecorator` -/
example :
    let i : Input := { shape := .multi [.etod (.sink .twisted)], hist := [.stop], prog := none }
    let j : Input := { shape := .etod (.multi [.etod (.fsink false true .twisted), .etod (.tt false)]),
                       hist := [.startTestRun, .startTest 1, .add .error 1 (.exc .real), .stopTest 1], prog := none }
    (model i).obs.map (·.ss) = [true] ∧ holds i (model i) = true ∧
    (model j).obs.map (·.ss) = [false, false, true, true] ∧ holds j (model j) = true := by decide

/-- a stream pipeline: `failfast` assigned on the `ExtendedToStreamDecorator` installs a `StreamFailFast` whose `on_error`
is the decorator's own `stop`: an expected failure does not trigger it, an unexpected success does; `stop()` is sticky;
the result behind the stream is not stopped -/
example :
    let i : Input := { shape := .multi [.etod (.e2s (.etod (.tt false))), .etod (.tt false)],
                       hist := [.startTestRun, .setFailfast true, .startTest 1, .add .xfail 1 (.exc .real), .stopTest 1,
                                .startTest 2, .add .uxsuccess 2 .none, .stopTest 2, .stopTestRun],
                       prog := none }
    inScope i = true ∧ i.shape.noStream = false ∧ holds i (model i) = true ∧
    (model i).obs.map (fun o => (o.ss, o.leafStop)) =
      [(false, [false, false]), (false, [false, false]), (false, [false, false]), (false, [false, false]),
       (false, [false, false]), (false, [false, false]), (true, [false, true]), (true, [false, true]), (true, [false, true])] := by
  decide

/-- `ExtendedToStreamDecorator(StreamFailFast(callback))`: with `failfast` off the decorator reads it as false and never
stops although the inner `StreamFailFast` calls its callback; switched on, the decorator's own one stops it -/
example :
    let i : Input := { shape := .sff,
                       hist := [.startTestRun, .startTest 1, .add .failure 1 (.exc .real), .stopTest 1, .setFailfast true,
                                .startTest 2, .add .uxsuccess 2 .none, .stopTest 2], prog := none }
    inScope i = true ∧ (model i).ff0 = some false ∧ holds i (model i) = true ∧
    (model i).obs.map (fun o => (o.ff, o.ss, o.cb)) =
      [(some false, false, [0]), (some false, false, [0]), (some false, false, [1]), (some false, false, [1]),
       (some true, false, [1]), (some true, false, [1]), (some true, true, [2]), (some true, true, [2])] := by
  decide

/-- the finding `sysExitZero` in the model: a module whose second test calls `sys.exit(0)`: the error is recorded, the
third test is never dispatched, the summary says `FAILED (failures=1)` — and the exit status is 0; the exit-status
clause fails, all others hold.  With `sys.exit(3)` the status agrees with the summary. -/
example :
    let i : Input := { shape := .tt false, hist := [], prog := some (false, [.out .success, .exit (some 0), .out .failure]) }
    let j : Input := { i with prog := some (false, [.out .success, .exit (some 3), .out .failure]) }
    sysExitZero i = true ∧ (model i).exit = some (0, [.running, .sect 0 1, .ran 2, .failed 1]) ∧
    cExit i (model i) = false ∧ (clauses.filter (fun c => !c.2 i (model i))).map (·.1) = ["exit-status"] ∧
    sysExitZero j = false ∧ (model j).exit = some (3, [.running, .sect 0 1, .ran 2, .failed 1]) ∧ holds j (model j) = true := by
  decide

/-- nested `MultiTestResult`s with different `failfast` settings keep them (regression of the former finding
`nestedMultiFailfast`), and the second target still stops the run -/
example :
    let i : Input := { shape := .multi [.etod (.multi [.etod (.tt false), .etod (.tt true)])],
                       hist := [.startTestRun, .startTest 1, .add .error 1 (.exc .real), .stopTest 1], prog := none }
    (model i).leafFF = [false, true] ∧ holds i (model i) = true ∧
    (model i).obs.map (·.ss) = [false, false, true, true] := by decide

/-- not vacuous: fail-fast set on one leaf before wrapping, a second run, `MultiTestResult` over a
`ThreadsafeForwardingResult` and a `TextTestResult` -/
example :
    let i : Input :=
      { shape := .multi [.etod (.tfr (.etod (.tt true))), .etod (.text false)],
        hist := [.startTestRun, .startTest 1, .add .success 1 .none, .stopTest 1, .startTest 2, .add .failure 2 (.exc .real),
                 .stopTest 2, .stopTestRun, .startTestRun, .stopTestRun],
        prog := some (true, [.out .success, .out .uxsuccess, .out .error]) }
    inScope i = true ∧ holds i (model i) = true ∧
    (model i).obs.map (fun o => (o.ws, o.ss)) =
      [(true, false), (true, false), (true, false), (true, false), (true, false), (false, true), (false, true),
       (false, true), (true, false), (true, false)] ∧
    (model i).texts = [[.running, .sect 1 2, .ran 2, .failed 1, .running, .ran 0, .ok]] ∧
    (model i).exit = some (1, [.running, .sect 2 1, .ran 2, .failed 1]) := by
  decide

/-! ## the code itself (translator tie, DESIGN D.2a item 2e)

`harness/pyres2lean.py` re-reads the verdict / stop-control code on every run into `TTV/Generated/TTV.Generated.ResCtlSrc.lean`.  Each
`C04_src_*` theorem has two halves: the term found in the source is the reference term (`rfl`: it fails to check when the
source moved by more than a harmless rewrite), and the reference term means what the model does. -/
section src

/-- the meaning of one entry of the `add*` table of `TestResult` -/
def ttEff (t : Nat) (s : TT) : String → TT
  | "append errors" => { s with errors := s.errors ++ [t] }
  | "append failures" => { s with failures := s.failures ++ [t] }
  | "append unexpectedSuccesses" => { s with uxs := s.uxs ++ [t] }
  | "append expectedFailures" => { s with xfails := s.xfails ++ [t] }
  | "skip-bucket" => { s with skipped := s.skipped ++ [t] }
  | "failfast-stop" => { s with shouldStop := s.shouldStop || s.failfast }
  | _ => s

def addMethod : Kind → String
  | .success => "addSuccess" | .error => "addError" | .failure => "addFailure" | .skip => "addSkip"
  | .xfail => "addExpectedFailure" | .uxsuccess => "addUnexpectedSuccess"

def tblGet (tbl : List (String × List String)) (k : String) : List String := (tbl.lookup k).getD []

/-- **C04 (source: `TestResult.add*`).**  The bookkeeping list every outcome method appends to and the `if self.failfast:
self.stop()` that follows it (after the append, for errors, failures and unexpected successes only) are those of the model:
`ttStep` on an outcome is the interpretation of the table read from the source (the log of the recording subclass aside). -/
theorem C04_src_tt_add :
    TTV.Generated.ResCtlSrc.ttAdd = TTV.SrcRef.ResCtlSrc.ttAdd ∧
    ∀ (s : TT) (k : Kind) (t : Nat) (a : Arg),
      { ttStep s (.add k t a) with log := s.log } = (tblGet TTV.SrcRef.ResCtlSrc.ttAdd (addMethod k)).foldl (ttEff t) s := by
  refine ⟨rfl, ?_⟩
  intro s k t a
  cases k <;> simp [ttStep, tblGet, addMethod, TTV.SrcRef.ResCtlSrc.ttAdd, List.lookup, ttEff, Call.logged]

/-- the counter a name of the `wasSuccessful` table stands for -/
def counterEmpty (s : TT) : String → Bool
  | "errors" => s.errors.isEmpty
  | "failures" => s.failures.isEmpty
  | "unexpectedSuccesses" => s.uxs.isEmpty
  | _ => false

/-- **C04 (source: `TestResult.wasSuccessful`).**  `return not (self.errors or self.failures or self.unexpectedSuccesses)`:
exactly these three counters, all empty. -/
theorem C04_src_was_successful :
    TTV.Generated.ResCtlSrc.ttWasSuccessful = TTV.SrcRef.ResCtlSrc.ttWasSuccessful ∧
    ∀ s : TT, s.wasSuccessful = TTV.SrcRef.ResCtlSrc.ttWasSuccessful.all (counterEmpty s) := by
  refine ⟨rfl, fun s => ?_⟩
  simp [TT.wasSuccessful, TTV.SrcRef.ResCtlSrc.ttWasSuccessful, counterEmpty, Bool.and_assoc]

/-- **C04 (source: `TestResult.startTestRun`).**  `failfast` (and `tb_locals`) are saved before `super().__init__()` — which
is what clears `shouldStop`, `errors`, `failures` and `testsRun` — and restored after it; the tag context, the clock and the
testtools-only lists are reset in between: the model's `TT.reset` keeps `failfast` and clears everything else. -/
theorem C04_src_start_test_run :
    TTV.Generated.ResCtlSrc.ttStartTestRun = TTV.SrcRef.ResCtlSrc.ttStartTestRun ∧
    (TTV.SrcRef.ResCtlSrc.ttStartTestRun.head? = some "save failfast" ∧ "super-init" ∈ TTV.SrcRef.ResCtlSrc.ttStartTestRun ∧
     "restore failfast" ∈ TTV.SrcRef.ResCtlSrc.ttStartTestRun.dropWhile (· != "super-init")) ∧
    ∀ s : TT, (TT.reset s).failfast = s.failfast ∧ (TT.reset s).shouldStop = false ∧ (TT.reset s).errors = [] ∧
      (TT.reset s).failures = [] ∧ (TT.reset s).uxs = [] ∧ (TT.reset s).xfails = [] ∧ (TT.reset s).skipped = [] ∧
      (TT.reset s).tags = {} ∧ (TT.reset s).now = .none ∧ (TT.reset s).testsRun = 0 := by
  refine ⟨rfl, by decide, fun s => ?_⟩
  simp [TT.reset]

/-- **C04 (source: `MultiTestResult`).**  Every method dispatches its own message to all the wrapped results in order
(`_dispatch`: one `getattr(result, message)(*args, **kwargs)` per element of `self._results`), `startTest` / `stopTest` /
`tags` / `startTestRun` after telling the base class (the latter with the `failfast` assignments frozen); `shouldStop` is
`any` of the adapters' `shouldStop`, `failfast` the first adapter's (default `False`), and assigning it reaches all of them —
the model's `step (.multi _)`, `shouldStopOf`, `failfastOf`. -/
theorem C04_src_multi :
    TTV.Generated.ResCtlSrc.multiMethods = TTV.SrcRef.ResCtlSrc.multiMethods ∧ TTV.Generated.ResCtlSrc.multiDispatch = TTV.SrcRef.ResCtlSrc.multiDispatch ∧
    TTV.Generated.ResCtlSrc.multiGetFailfast = TTV.SrcRef.ResCtlSrc.multiGetFailfast ∧ TTV.Generated.ResCtlSrc.multiSetFailfast = TTV.SrcRef.ResCtlSrc.multiSetFailfast ∧
    TTV.Generated.ResCtlSrc.multiGetShouldStop = TTV.SrcRef.ResCtlSrc.multiGetShouldStop ∧ TTV.Generated.ResCtlSrc.multiKeepingFailfast = TTV.SrcRef.ResCtlSrc.multiKeepingFailfast ∧
    TTV.Generated.ResCtlSrc.multiWasSuccessful = TTV.SrcRef.ResCtlSrc.multiWasSuccessful ∧ TTV.Generated.ResCtlSrc.multiProperties = TTV.SrcRef.ResCtlSrc.multiProperties ∧
    (∀ (cs : List Shape) (own : TT) (inner : StL cs),
      shouldStopOf (.multi cs) (own, inner) = (shouldStopL cs inner).any id ∧
      failfastOf (.multi cs) (own, inner) = (failfastL cs inner).headD false ∧
      (step (.multi cs) (own, inner) .stop).2 = stepL cs inner .stop ∧
      ∀ b, (step (.multi cs) (own, inner) (.setFailfast b)).2 = stepL cs inner (.setFailfast b)) :=
  ⟨rfl, rfl, rfl, rfl, rfl, rfl, rfl, rfl, fun _ _ _ => ⟨rfl, rfl, rfl, fun _ => rfl⟩⟩

/-- **C04 (source: `TestResultDecorator`).**  `stop()` goes to `self.decorated.stop()`, `shouldStop` and `failfast` read the
decorated result's, assigning `failfast` assigns it there; every other method forwards one call of the same name. -/
theorem C04_src_deco :
    TTV.Generated.ResCtlSrc.decoForward = TTV.SrcRef.ResCtlSrc.decoForward ∧
    tblGet TTV.SrcRef.ResCtlSrc.decoForward "stop" = ["return self.decorated.stop()"] ∧
    tblGet TTV.SrcRef.ResCtlSrc.decoForward "get shouldStop" = ["return self.decorated.shouldStop"] ∧
    tblGet TTV.SrcRef.ResCtlSrc.decoForward "get failfast" = ["return getattr(self.decorated, 'failfast', False)"] ∧
    tblGet TTV.SrcRef.ResCtlSrc.decoForward "set failfast" = ["self.decorated.failfast = a0"] ∧
    (∀ (c : Shape) (st : St c),
      step (.deco c) st .stop = step c st .stop ∧ shouldStopOf (.deco c) st = shouldStopOf c st ∧
      failfastOf (.deco c) st = failfastOf c st ∧ ∀ b, step (.deco c) st (.setFailfast b) = step c st (.setFailfast b)) :=
  ⟨rfl, by decide, by decide, by decide, by decide, fun _ _ => ⟨rfl, rfl, rfl, fun _ => rfl⟩⟩

/-- **C04 (source: stop control of `ThreadsafeForwardingResult` and `ExtendedToOriginalDecorator`).**  The forwarder calls
`_stop_if_failfast()` (`if self.failfast: self.stop()`) after the block of an error, a failure and an unexpected success and
of nothing else (`tfrStops`); the adapter's `stop()` / `shouldStop` / `failfast` fall back to its own flags exactly when the
target lacks the attribute, and `startTestRun` clears its own `_shouldStop`. -/
theorem C04_src_stop_control :
    TTV.Generated.ResCtlSrc.tfrAdd = TTV.SrcRef.ResCtlSrc.tfrAdd ∧ TTV.Generated.ResCtlSrc.tfrStopIfFailfast = TTV.SrcRef.ResCtlSrc.tfrStopIfFailfast ∧
    TTV.Generated.ResCtlSrc.tfrStop = TTV.SrcRef.ResCtlSrc.tfrStop ∧ TTV.Generated.ResCtlSrc.tfrGetShouldStop = TTV.SrcRef.ResCtlSrc.tfrGetShouldStop ∧
    TTV.Generated.ResCtlSrc.tfrWasSuccessful = TTV.SrcRef.ResCtlSrc.tfrWasSuccessful ∧ TTV.Generated.ResCtlSrc.controlStop = TTV.SrcRef.ResCtlSrc.controlStop ∧
    TTV.Generated.ResCtlSrc.etodStop = TTV.SrcRef.ResCtlSrc.etodStop ∧ TTV.Generated.ResCtlSrc.etodStartTestRun = TTV.SrcRef.ResCtlSrc.etodStartTestRun ∧
    TTV.Generated.ResCtlSrc.etodGetFailfast = TTV.SrcRef.ResCtlSrc.etodGetFailfast ∧ TTV.Generated.ResCtlSrc.etodSetFailfast = TTV.SrcRef.ResCtlSrc.etodSetFailfast ∧
    TTV.Generated.ResCtlSrc.etodGetShouldStop = TTV.SrcRef.ResCtlSrc.etodGetShouldStop ∧ TTV.Generated.ResCtlSrc.etodSetShouldStop = TTV.SrcRef.ResCtlSrc.etodSetShouldStop ∧
    (∀ k : Kind, ("stop-if-failfast" ∈ tblGet TTV.SrcRef.ResCtlSrc.tfrAdd (addMethod k)) = (!k.passing : Bool)) ∧
    (∀ (own : TfrOwn) (k : Kind), tfrStops own k = if own.tt.failfast && !k.passing then [.stop] else []) := by
  refine ⟨rfl, rfl, rfl, rfl, rfl, rfl, rfl, rfl, rfl, rfl, rfl, rfl, ?_, fun _ _ => rfl⟩
  intro k; cases k <;> decide

/-- **C04 (source: the exit status of `testtools.run`).**  `TestToolsTestRunner.run` starts the run, runs the tests and
stops the run in a `finally`; `TestProgram.runTests` ends with `sys.exit(not self.result.wasSuccessful())` under `if
self.exit`: status 1 exactly when the result is not successful (`runProgK`). -/
theorem C04_src_exit :
    TTV.Generated.ResCtlSrc.runnerRun = TTV.SrcRef.ResCtlSrc.runnerRun ∧ TTV.Generated.ResCtlSrc.exitDecision = TTV.SrcRef.ResCtlSrc.exitDecision ∧
    ∀ (ff : Bool) (ks : List Kind),
      (runProgK ff ks).1 =
        if (run (.text ff) (init (.text ff)) ([.startTestRun] ++ progCalls ff 0 ks ++ [.stopTestRun]) : TextSt).tt.wasSuccessful
        then 0 else 1 :=
  ⟨rfl, rfl, fun _ _ => rfl⟩
/-- **C04 (source: what a new run resets in the stream adapter; assignments to the forwarder's `shouldStop`).**
`ExtendedToStreamDecorator.startTestRun` tells the base classes, then resets the tag context, `shouldStop`, the clock and sets
`_started` (`e2sStart`: every own field but `failfast` — the installed `StreamFailFast` target stays — and the recorder-side `sent`
is back at its default); `failfast` is "a second target is installed"; `ThreadsafeForwardingResult._set_shouldStop` has an empty body
(the assignment the base class's `__init__` makes is dropped, so constructing a forwarder does not touch the target). -/
theorem C04_src_run_resets :
    TTV.Generated.ResCtlSrc.tfrInit = TTV.SrcRef.ResCtlSrc.tfrInit ∧
    TTV.Generated.ResCtlSrc.tfrSetShouldStop = TTV.SrcRef.ResCtlSrc.tfrSetShouldStop ∧
    TTV.Generated.ResCtlSrc.e2sInit = TTV.SrcRef.ResCtlSrc.e2sInit ∧
    TTV.Generated.ResCtlSrc.e2sStartTestRun = TTV.SrcRef.ResCtlSrc.e2sStartTestRun ∧
    TTV.Generated.ResCtlSrc.e2sGetFailfast = TTV.SrcRef.ResCtlSrc.e2sGetFailfast ∧
    TTV.Generated.ResCtlSrc.e2sSetFailfast = TTV.SrcRef.ResCtlSrc.e2sSetFailfast ∧
    TTV.SrcRef.ResCtlSrc.tfrSetShouldStop = ["def(self, a0):"] ∧
    ("  self.shouldStop = False" ∈ TTV.SrcRef.ResCtlSrc.e2sStartTestRun) ∧
    (∀ {σ : Type} (I : Iface σ) (own : E2S) (inner : σ),
      (e2sStart I own inner).1 = { started := true, failfast := own.failfast, sent := own.sent } ∧
      (e2sStart I own inner).1.shouldStop = false ∧ (e2sStart I own inner).1.now = .none ∧
      (e2sStart I own inner).1.tags = {} ∧ (e2sStart I own inner).2 = I.step inner .startTestRun) := by
  refine ⟨rfl, rfl, rfl, rfl, rfl, rfl, rfl, by decide, fun _ _ _ => ⟨rfl, rfl, rfl, rfl, rfl⟩⟩

end src

end TTV.Props.C04
