import TTV.Model.StreamRouter
import TTV.Spec.C18
import TTV.Lemmas.RouterSrc
import TTV.Generated.RouterSrc
/-! # C18 — routing picks exactly one destination; route prefixes push and pop inversely

All statements are for **every** history of operations (any number and order of rules, re-registrations,
start/stop calls, sinks that add rules re-entrantly or raise from inside their methods) and every event. -/
namespace TTV.Props.C18
open TTV.Stream TTV.Stream.Router TTV.Spec.C18

/-! ## dictionaries -/
theorem dictGet_set {κ α : Type} [DecidableEq κ] (d : List (κ × α)) (k k' : κ) (v : α) :
    dictGet (dictSet d k v) k' = if k = k' then some v else dictGet d k' := by
  induction d with
  | nil => simp [dictSet, dictGet]
  | cons p d ih =>
    obtain ⟨k2, v2⟩ := p
    simp only [dictSet]
    by_cases h : k2 = k
    · subst h
      simp only [if_true, dictGet]
      split <;> simp_all
    · simp only [h, if_false, dictGet, ih]
      by_cases h2 : k2 = k'
      · subst h2
        have : ¬ k = k2 := fun hh => h hh.symm
        simp [this]
      · simp [h2]

/-! ## strings -/
theorem segments_fst (rc : Str) : (segments rc).1 = firstSeg rc := by
  induction rc with
  | nil => rfl
  | cons c cs ih =>
    simp only [segments, firstSeg, List.takeWhile_cons]
    by_cases h : c = '/'
    · simp [h]
    · have : (c != '/') = true := by simpa using h
      simp only [h, if_false, this, if_true, List.cons.injEq, true_and]
      exact ih

theorem segments_snd (rc : Str) : (segments rc).2 = stripSeg rc := by
  induction rc with
  | nil => rfl
  | cons c cs ih =>
    simp only [segments, stripSeg, firstSeg, List.takeWhile_cons]
    by_cases h : c = '/'
    · subst h
      simp only [bne_self_eq_false, Bool.false_eq_true, if_false, List.length_nil, Nat.zero_add, List.drop_succ_cons,
        List.drop_zero, if_true]
      cases cs <;> rfl
    · have : (c != '/') = true := by simpa using h
      simp only [h, if_false, this, if_true, List.length_cons, List.drop_succ_cons]
      exact ih

theorem snoc_induction {α : Type} {P : List α → Prop} (hnil : P []) (hsnoc : ∀ l a, P l → P (l ++ [a])) : ∀ l, P l := by
  intro l
  obtain ⟨r, rfl⟩ : ∃ r, l = r.reverse := ⟨l.reverse, by simp⟩
  induction r with
  | nil => exact hnil
  | cons a r ih => rw [List.reverse_cons]; exact hsnoc _ a ih

theorem takeWhile_append_sep (code r : Str) (h : '/' ∉ code) :
    (code ++ '/' :: r).takeWhile (· != '/') = code := by
  induction code with
  | nil => simp
  | cons c cs ih =>
    simp only [List.mem_cons, not_or] at h
    have : (c != '/') = true := by simpa using fun hh => h.1 hh.symm
    simp [List.takeWhile_cons, this, ih h.2]

theorem takeWhile_all (code : Str) (h : '/' ∉ code) : code.takeWhile (· != '/') = code := by
  induction code with
  | nil => rfl
  | cons c cs ih =>
    simp only [List.mem_cons, not_or] at h
    have : (c != '/') = true := by simpa using fun hh => h.1 hh.symm
    simp [List.takeWhile_cons, this, ih h.2]

/-! ## the push/pop inverse -/
/-- a router whose only rule is a consuming route rule for `code` -/
def single (code : Str) : State :=
  { fallback := none, prefixes := [(code, (0, true))], ids := [], sinks := [], inRun := false, scripts := [] }

/-- **C18 (inverse)**: for every `/`-free code and every route code `rc` — `None` or any non-empty string, with any
number of segments — the event that `StreamToQueue(code)` emits (`route_code` prefixed) is handed by a router with a
consuming rule for `code` to that rule's sink with exactly its original route code, all other fields untouched. -/
theorem C18_inverse (code : Str) (h : '/' ∉ code) (e : Event) (hr : e.route ≠ some []) :
    route (single code) { e with route := Deco.prefixRoute code e.route } = some (0, e) := by
  cases hrt : e.route with
  | none =>
    have : e = { e with route := none } := by rw [← hrt]
    simp only [route, single, Deco.prefixRoute, firstSeg, takeWhile_all code h, dictGet, if_true, stripSeg,
      List.drop_length_add_append, List.drop_of_length_le (Nat.le_succ _)]
    rw [this]
  | some r =>
    have hne : r ≠ [] := fun hh => hr (by rw [hrt, hh])
    have hd : (code ++ '/' :: r).drop (code.length + 1) = r := by
      rw [← List.drop_drop]; simp
    simp only [route, single, Deco.prefixRoute, firstSeg, takeWhile_append_sep code r h, dictGet, if_true, stripSeg, hd]
    cases r with
    | nil => exact absurd rfl hne
    | cons c cs =>
      have : e = { e with route := some (c :: cs) } := by rw [← hrt]
      simp only
      rw [this]

theorem prefixRoute_ne_empty (c : Str) (hc : c ≠ []) (x : Option Str) : Deco.prefixRoute c x ≠ some [] := by
  cases x <;> simp [Deco.prefixRoute, hc]

theorem pushAll_snoc (codes : List Str) (c : Str) (rc : Option Str) :
    pushAll (codes ++ [c]) rc = Deco.prefixRoute c (pushAll codes rc) := by
  simp [pushAll, List.foldl_append]

theorem pushAll_ne_empty (codes : List Str) (hc : ∀ c ∈ codes, c ≠ []) (rc : Option Str) (hr : rc ≠ some []) :
    pushAll codes rc ≠ some [] := by
  revert hc
  refine snoc_induction (P := fun codes => (∀ c ∈ codes, c ≠ []) → pushAll codes rc ≠ some []) ?_ ?_ codes
  · intro _; simpa [pushAll] using hr
  · intro cs c _ hc; rw [pushAll_snoc]; exact prefixRoute_ne_empty c (hc c (by simp)) _

/-- **C18 (inverse, nested)**: pushing through any number of `StreamToQueue`s and popping with as many consuming
routers (outermost code first) is the identity on events — to any depth. -/
theorem C18_inverse_nested (codes : List Str) (h : ∀ c ∈ codes, '/' ∉ c ∧ c ≠ []) (e : Event) (hr : e.route ≠ some []) :
    popAll codes.reverse { e with route := pushAll codes e.route } = some e := by
  revert h
  refine snoc_induction (P := fun codes => (∀ c ∈ codes, '/' ∉ c ∧ c ≠ []) →
    popAll codes.reverse { e with route := pushAll codes e.route } = some e) ?_ ?_ codes
  · intro _; simp [popAll, pushAll]
  · intro cs c ih h
    have hcs : ∀ c' ∈ cs, '/' ∉ c' ∧ c' ≠ [] := fun c' hc' => h c' (by simp [hc'])
    have hne := pushAll_ne_empty cs (fun c' hc' => (hcs c' hc').2) e.route hr
    have := C18_inverse c (h c (by simp)).1 { e with route := pushAll cs e.route } hne
    simp only [single] at this
    simp only [List.reverse_append, List.reverse_cons, List.reverse_nil, List.nil_append, List.cons_append, popAll,
      pushAll_snoc, this]
    exact ih hcs


/-! ## the router's state is the history of registrations -/
theorem regs_snoc (hist : List Op) (o : Op) : regs (hist ++ [o]) = regs hist ++ (regOf o).toList := by
  simp only [regs, List.filterMap_append, List.filterMap_cons, List.filterMap_nil]
  cases regOf o <;> simp

theorem prefixRule_snoc (rs : List Reg) (r : Reg) (seg : Str) :
    prefixRule (rs ++ [r]) seg =
      match r with
      | .pfx sink p consume _ => if p = seg then some (sink, consume) else prefixRule rs seg
      | .tid _ _ _ => prefixRule rs seg := by
  simp only [prefixRule, List.reverse_append, List.reverse_cons, List.reverse_nil, List.nil_append, List.cons_append,
    List.findSome?_cons]
  cases r with
  | pfx sink p consume flag => by_cases h : p = seg <;> simp [h]
  | tid sink t flag => simp

theorem idRule_snoc (rs : List Reg) (r : Reg) (t : Option Nat) :
    idRule (rs ++ [r]) t =
      match r with
      | .tid sink t' _ => if t' = t then some sink else idRule rs t
      | .pfx _ _ _ _ => idRule rs t := by
  simp only [idRule, List.reverse_append, List.reverse_cons, List.reverse_nil, List.nil_append, List.cons_append,
    List.findSome?_cons]
  cases r with
  | pfx sink p consume flag => simp
  | tid sink t' flag => by_cases h : t' = t <;> simp [h]

theorem flagged_snoc (hb ff : Bool) (rs : List Reg) (r : Reg) :
    flagged hb ff (rs ++ [r]) = flagged hb ff rs ++
      match r with
      | .pfx sink _ _ flag => if flag then [sink] else []
      | .tid sink _ flag => if flag then [sink] else [] := by
  simp only [flagged, List.filterMap_append, List.append_assoc, List.filterMap_cons, List.filterMap_nil]
  cases r with
  | pfx sink p consume flag => cases flag <;> simp
  | tid sink t flag => cases flag <;> simp

theorem inRun_snoc (hist : List Op) (o : Op) :
    inRun (hist ++ [o]) = if o = .start then true else if o = .stop then false else inRun hist := by
  simp only [inRun, List.reverse_append, List.reverse_cons, List.reverse_nil, List.nil_append, List.cons_append,
    List.find?_cons]
  cases o <;> simp [inRun, isCtl]

/-- the state reached after the operations `hist` -/
structure Inv (hb ff : Bool) (hist : List Op) (s : State) : Prop where
  fallback : s.fallback = if hb then some 0 else none
  prefixes : ∀ seg, dictGet s.prefixes seg = prefixRule (regs hist) seg
  ids : ∀ t, dictGet s.ids t = idRule (regs hist) t
  sinks : s.sinks = flagged hb ff (regs hist)
  inRun : s.inRun = inRun hist

theorem inv_init (hb ff : Bool) : Inv hb ff [] (init hb ff) := by
  refine ⟨rfl, fun _ => rfl, fun _ => rfl, ?_, rfl⟩
  cases hb <;> cases ff <;> rfl

/-- **the routing decision**: what the router's dictionaries answer is what the history of registrations says -/
theorem route_eq (hb ff : Bool) (hist : List Op) (s : State) (hI : Inv hb ff hist s) (e : Event) :
    route s e = destination hb (regs hist) e := by
  simp only [route, destination, hI.fallback]
  cases hr : e.route with
  | none =>
    simp only [Option.bind_none, hI.ids]
    cases idRule (regs hist) e.testId <;> cases hb <;> simp
  | some rc =>
    simp only [Option.bind_some, hI.prefixes, segments_fst, segments_snd]
    cases hp : prefixRule (regs hist) (firstSeg rc) with
    | some r => obtain ⟨sink, consume⟩ := r; simp
    | none =>
      simp only [Option.map_none, hI.ids]
      cases idRule (regs hist) e.testId <;> cases hb <;> simp


theorem inv_init' (hb ff : Bool) (scs : List Script) : Inv hb ff [] { init hb ff with scripts := scs } := by
  refine ⟨rfl, fun _ => rfl, fun _ => rfl, ?_, rfl⟩
  cases hb <;> cases ff <;> rfl

/-! ## `add_rule` -/
theorem effAdd_regs (H : List Op) (o : Op) : regs (H ++ effAdd o) = regs H ++ (regOf o).toList := by
  unfold effAdd
  cases h : regOf o with
  | none => simp
  | some r => simp [regs_snoc, h]

theorem inRun_effAdd (H : List Op) (o : Op) : inRun (H ++ effAdd o) = inRun H := by
  unfold effAdd
  cases o <;> simp [regOf, inRun_snoc]
  split <;> simp [inRun_snoc]

/-! ### an operation as it enters the history -/
theorem flaggedSink_clearFlag (o : Op) : flaggedSink (clearFlag o) = none := by
  cases o with
  | addPrefix sink p c f => by_cases hp : '/' ∈ p <;> simp [clearFlag, flaggedSink, regOf, hp]
  | addId sink t f => simp [clearFlag, flaggedSink, regOf]
  | _ => simp [clearFlag, flaggedSink, regOf]

theorem entered_of_none (hb ff : Bool) (h : List Op) (o : Op) (hf : flaggedSink o = none) : entered hb ff h o = o := by
  simp [entered, hf]

theorem entered_of_mem (hb ff : Bool) (h : List Op) (o : Op) (y : Nat) (hf : flaggedSink o = some y)
    (hc : (flagged hb ff (regs h)).contains y = true) : entered hb ff h o = clearFlag o := by
  simp only [entered, hf, hc, if_true]

theorem entered_of_not_mem (hb ff : Bool) (h : List Op) (o : Op) (y : Nat) (hf : flaggedSink o = some y)
    (hc : (flagged hb ff (regs h)).contains y = false) : entered hb ff h o = o := by
  simp only [entered, hf, hc]; rfl

theorem regOf_entered_none (hb ff : Bool) (h : List Op) (o : Op) (hr : regOf o = none) : entered hb ff h o = o :=
  entered_of_none hb ff h o (by simp [flaggedSink, hr])

theorem regOf_clearFlag_isSome (o : Op) : (regOf (clearFlag o)).isSome = (regOf o).isSome := by
  cases o with
  | addPrefix sink p c f => by_cases hp : '/' ∈ p <;> simp [clearFlag, regOf, hp]
  | _ => simp [clearFlag, regOf]

theorem regOf_entered_isSome (hb ff : Bool) (h : List Op) (o : Op) : (regOf (entered hb ff h o)).isSome = (regOf o).isSome := by
  cases hf : flaggedSink o with
  | none => rw [entered_of_none hb ff h o hf]
  | some y =>
    cases hc : (flagged hb ff (regs h)).contains y with
    | true => rw [entered_of_mem hb ff h o y hf hc, regOf_clearFlag_isSome]
    | false => rw [entered_of_not_mem hb ff h o y hf hc]

/-- the sink that is newly registered for start/stop by `o` after the history `h`: the flagged sink of `o`, unless it is
registered already -/
theorem flaggedSink_entered (hb ff : Bool) (h : List Op) (o : Op) :
    flaggedSink (entered hb ff h o) = (flaggedSink o).filter fun y => !(flagged hb ff (regs h)).contains y := by
  cases hf : flaggedSink o with
  | none => rw [entered_of_none hb ff h o hf, hf]; rfl
  | some y =>
    cases hc : (flagged hb ff (regs h)).contains y with
    | true => rw [entered_of_mem hb ff h o y hf hc, flaggedSink_clearFlag]; simp only [Option.filter, hc]; rfl
    | false => rw [entered_of_not_mem hb ff h o y hf hc, hf]; simp only [Option.filter, hc]; rfl

/-- what `add_rule` does before it starts the new sink; `o'` = the operation as it enters the history -/
structure RegOut (hb ff : Bool) (H : List Op) (s : State) (o o' : Op) : Prop where
  inv : Inv hb ff (H ++ effAdd o') (regStep s o).1
  started : (regStep s o).2.1 = if s.inRun then flaggedSink o' else none
  inRun : (regStep s o).1.inRun = s.inRun
  scripts : (regStep s o).1.scripts = s.scripts
  grow : s.sinks.length ≤ (regStep s o).1.sinks.length ∧ (regStep s o).1.sinks.length ≤ s.sinks.length + 1
  res : (regStep s o).2.2 = .ok ∨ ∃ x, (regStep s o).2.2 = .raised x ∧ regOf o = none ∧ (regStep s o).1 = s
  resOk : (regOf o).isSome → (regStep s o).2.2 = .ok

theorem inv_same (hb ff : Bool) (H : List Op) (s : State) (hI : Inv hb ff H s) (o : Op) (h : regOf o = none) :
    Inv hb ff (H ++ effAdd o) s := by
  have : effAdd o = [] := by simp [effAdd, h]
  simpa [this] using hI

theorem regStep_spec (hb ff : Bool) (H : List Op) (s : State) (hI : Inv hb ff H s) (o : Op) :
    RegOut hb ff H s o (entered hb ff H o) := by
  cases o with
  | start => rw [regOf_entered_none _ _ _ _ rfl]; exact ⟨inv_same hb ff H s hI _ rfl, by simp [regStep, flaggedSink, regOf], rfl, rfl, ⟨Nat.le_refl _, Nat.le_succ _⟩, Or.inl rfl, by simp [regOf]⟩
  | stop => rw [regOf_entered_none _ _ _ _ rfl]; exact ⟨inv_same hb ff H s hI _ rfl, by simp [regStep, flaggedSink, regOf], rfl, rfl, ⟨Nat.le_refl _, Nat.le_succ _⟩, Or.inl rfl, by simp [regOf]⟩
  | status e => rw [regOf_entered_none _ _ _ _ rfl]; exact ⟨inv_same hb ff H s hI _ rfl, by simp [regStep, flaggedSink, regOf], rfl, rfl, ⟨Nat.le_refl _, Nat.le_succ _⟩, Or.inl rfl, by simp [regOf]⟩
  | roundTrip cs e => rw [regOf_entered_none _ _ _ _ rfl]; exact ⟨inv_same hb ff H s hI _ rfl, by simp [regStep, flaggedSink, regOf], rfl, rfl, ⟨Nat.le_refl _, Nat.le_succ _⟩, Or.inl rfl, by simp [regOf]⟩
  | addBad sink flag =>
    rw [regOf_entered_none _ _ _ _ rfl]
    exact ⟨inv_same hb ff H s hI _ rfl, by simp [regStep, flaggedSink, regOf], rfl, rfl, ⟨Nat.le_refl _, Nat.le_succ _⟩,
      Or.inr ⟨_, rfl, rfl, rfl⟩, by simp [regOf]⟩
  | addPrefix sink p consume flag =>
    by_cases hp : '/' ∈ p
    · have hreg : regOf (.addPrefix sink p consume flag) = none := by simp [regOf, hp]
      have hst : regStep s (.addPrefix sink p consume flag) = (s, none, .raised "TypeError") := by simp [regStep, hp]
      rw [regOf_entered_none _ _ _ _ hreg]
      refine ⟨by rw [hst]; exact inv_same hb ff H s hI _ hreg, by simp [hst, flaggedSink, hreg], by rw [hst], by rw [hst],
        by rw [hst]; exact ⟨Nat.le_refl _, Nat.le_succ _⟩, Or.inr ⟨_, by rw [hst], hreg, by rw [hst]⟩, by simp [hreg]⟩
    · have hs : s.sinks.contains sink = (flagged hb ff (regs H)).contains sink := by rw [hI.sinks]
      have hreg : ∀ fl, regOf (.addPrefix sink p consume fl) = some (.pfx sink p consume fl) := fun fl => by simp [regOf, hp]
      have hH : ∀ fl, regs (H ++ effAdd (.addPrefix sink p consume fl)) = regs H ++ [.pfx sink p consume fl] := fun fl => by
        simp [effAdd_regs, hreg fl]
      -- the rule is added, the registration list stays
      have A : (flag && !s.sinks.contains sink) = false →
          RegOut hb ff H s (.addPrefix sink p consume flag) (.addPrefix sink p consume false) := by
        intro hcond
        have hst : regStep s (.addPrefix sink p consume flag)
            = ({ s with prefixes := dictSet s.prefixes p (sink, consume) }, none, .ok) := by
          simp only [regStep]; rw [if_neg (by simpa using hp)]; simp only [hcond]; rfl
        have hrun := inRun_effAdd H (.addPrefix sink p consume false)
        refine ⟨⟨?_, fun seg => ?_, fun t => ?_, ?_, ?_⟩, ?_, ?_, ?_, ⟨?_, ?_⟩, Or.inl ?_, fun _ => ?_⟩ <;> rw [hst] <;>
          simp [hI.fallback, hH, hrun, prefixRule_snoc, idRule_snoc, flagged_snoc, dictGet_set, hI.prefixes, hI.ids, hI.sinks,
            hI.inRun, flaggedSink, hreg]
      -- the rule is added and the sink newly registered
      have B : flag = true → s.sinks.contains sink = false →
          RegOut hb ff H s (.addPrefix sink p consume flag) (.addPrefix sink p consume true) := by
        intro hfl hc
        subst hfl
        have hst : regStep s (.addPrefix sink p consume true)
            = ({ s with prefixes := dictSet s.prefixes p (sink, consume), sinks := s.sinks ++ [sink] },
               (if s.inRun then some sink else none), .ok) := by
          simp only [regStep]; rw [if_neg (by simpa using hp)]; simp only [hc]; rfl
        have hrun := inRun_effAdd H (.addPrefix sink p consume true)
        refine ⟨⟨?_, fun seg => ?_, fun t => ?_, ?_, ?_⟩, ?_, ?_, ?_, ⟨?_, ?_⟩, Or.inl ?_, fun _ => ?_⟩ <;> rw [hst] <;>
          simp [hI.fallback, hH, hrun, prefixRule_snoc, idRule_snoc, flagged_snoc, dictGet_set, hI.prefixes, hI.ids, hI.sinks,
            hI.inRun, flaggedSink, hreg]
      cases flag with
      | false =>
        rw [entered_of_none _ _ _ _ (by simp [flaggedSink, regOf, hp])]
        exact A (by simp)
      | true =>
        have hf : flaggedSink (.addPrefix sink p consume true) = some sink := by simp [flaggedSink, regOf, hp]
        cases hc : (flagged hb ff (regs H)).contains sink with
        | true =>
          rw [entered_of_mem _ _ _ _ _ hf hc]
          exact A (by rw [hs, hc]; rfl)
        | false =>
          rw [entered_of_not_mem _ _ _ _ _ hf hc]
          exact B rfl (by rw [hs, hc])
  | addId sink t flag =>
    have hs : s.sinks.contains sink = (flagged hb ff (regs H)).contains sink := by rw [hI.sinks]
    have hreg : ∀ fl, regOf (.addId sink t fl) = some (.tid sink t fl) := fun fl => by simp [regOf]
    have hH : ∀ fl, regs (H ++ effAdd (.addId sink t fl)) = regs H ++ [.tid sink t fl] := fun fl => by
      simp [effAdd_regs, hreg fl]
    have A : (flag && !s.sinks.contains sink) = false →
        RegOut hb ff H s (.addId sink t flag) (.addId sink t false) := by
      intro hcond
      have hst : regStep s (.addId sink t flag) = ({ s with ids := dictSet s.ids t sink }, none, .ok) := by
        simp only [regStep, hcond]; rfl
      have hrun := inRun_effAdd H (.addId sink t false)
      refine ⟨⟨?_, fun seg => ?_, fun t' => ?_, ?_, ?_⟩, ?_, ?_, ?_, ⟨?_, ?_⟩, Or.inl ?_, fun _ => ?_⟩ <;> rw [hst] <;>
        simp [hI.fallback, hH, hrun, prefixRule_snoc, idRule_snoc, flagged_snoc, dictGet_set, hI.prefixes, hI.ids, hI.sinks,
          hI.inRun, flaggedSink, hreg]
    have B : flag = true → s.sinks.contains sink = false →
        RegOut hb ff H s (.addId sink t flag) (.addId sink t true) := by
      intro hfl hc
      subst hfl
      have hst : regStep s (.addId sink t true)
          = ({ s with ids := dictSet s.ids t sink, sinks := s.sinks ++ [sink] }, (if s.inRun then some sink else none), .ok) := by
        simp only [regStep, hc]; rfl
      have hrun := inRun_effAdd H (.addId sink t true)
      refine ⟨⟨?_, fun seg => ?_, fun t' => ?_, ?_, ?_⟩, ?_, ?_, ?_, ⟨?_, ?_⟩, Or.inl ?_, fun _ => ?_⟩ <;> rw [hst] <;>
        simp [hI.fallback, hH, hrun, prefixRule_snoc, idRule_snoc, flagged_snoc, dictGet_set, hI.prefixes, hI.ids, hI.sinks,
          hI.inRun, flaggedSink, hreg]
    cases flag with
    | false =>
      rw [entered_of_none _ _ _ _ (by simp [flaggedSink, regOf])]
      exact A (by simp)
    | true =>
      have hf : flaggedSink (.addId sink t true) = some sink := by simp [flaggedSink, regOf]
      cases hc : (flagged hb ff (regs H)).contains sink with
      | true => rw [entered_of_mem _ _ _ _ _ hf hc]; exact A (by rw [hs, hc]; rfl)
      | false => rw [entered_of_not_mem _ _ _ _ _ hf hc]; exact B rfl (by rw [hs, hc])

/-! ## a sink's method: the script entry against the reading of the history -/
theorem inv_scripts (hb ff : Bool) (H : List Op) (s : State) (hI : Inv hb ff H s) (scs : List Script) :
    Inv hb ff H { s with scripts := scs } := ⟨hI.fallback, hI.prefixes, hI.ids, hI.sinks, hI.inRun⟩

theorem flaggedSink_none (o : Op) (h : regOf o = none) : flaggedSink o = none := by simp [flaggedSink, h]
theorem effAdd_none (o : Op) (h : regOf o = none) : effAdd o = [] := by simp [effAdd, h]

/-- the outcome of a piece of the execution, as the walker sees it: either it goes on with the history `H'`, or
the operation ends with exception `x` -/
def Walked (hb ff running : Bool) (m : Mode) (i : Nat) (H : List Op) (st : Bool) (items : List Item)
    (err : Option String) (i' : Nat) (H' : List Op) : Prop :=
  match err with
  | none => ∀ rest, walk hb ff running m i H none st (items ++ rest) = walk hb ff running m i' H' none true rest
  | some x => walk hb ff running m i H none st items = some (some x, H')

theorem runActs_walk (hb ff : Bool) (m : Mode) (i : Nat) : ∀ (acts : List Act) (H : List Op) (s : State),
    Inv hb ff H s →
    ∃ H', Inv hb ff H' (runActs s acts).1
      ∧ (runActs s acts).1.inRun = s.inRun ∧ (runActs s acts).1.scripts = s.scripts
      ∧ s.sinks.length ≤ (runActs s acts).1.sinks.length
      ∧ (runActs s acts).1.sinks.length ≤ s.sinks.length + acts.length
      ∧ Walked hb ff s.inRun m i H true (runActs s acts).2.1 (runActs s acts).2.2 i H'
  | [], H, s, hI => ⟨H, hI, rfl, rfl, Nat.le_refl _, Nat.le_refl _, by simp [Walked, runActs]⟩
  | .raise :: as, H, s, hI =>
    ⟨H, hI, rfl, rfl, Nat.le_refl _, by simp [runActs], by simp [Walked, runActs, walk]⟩
  | .add o :: as, H, s, hI => by
    have R := regStep_spec hb ff H s hI o
    rcases R.res with hok | ⟨x, hx, hreg, hst⟩
    · obtain ⟨H', h1, h2, h3, h4, h5, h6⟩ := runActs_walk hb ff m i as (H ++ effAdd (entered hb ff H o)) (regStep s o).1 R.inv
      refine ⟨H', ?_, ?_, ?_, ?_, ?_, ?_⟩
      · simpa [runActs, hok] using h1
      · simpa [runActs, hok, R.inRun] using h2
      · simpa [runActs, hok, R.scripts] using h3
      · simp only [runActs, hok]; exact Nat.le_trans R.grow.1 h4
      · simp only [runActs, hok, List.length_cons]; have := R.grow.2; omega
      · simp only [runActs, hok]
        rw [R.inRun] at h6
        unfold Walked at h6 ⊢
        cases herr : (runActs (regStep s o).1 as).2.2 with
        | none =>
          simp only [herr] at h6 ⊢
          intro rest
          simp only [List.cons_append, List.append_assoc, walk, if_true, R.started]
          cases hrun : s.inRun with
          | false => rw [hrun] at h6; simp only [Bool.false_eq_true, if_false, List.nil_append]; exact h6 rest
          | true =>
            rw [hrun] at h6
            simp only [if_true]
            cases hf : flaggedSink (entered hb ff H o) with
            | none => simp only [List.nil_append]; exact h6 rest
            | some y => simp only [List.cons_append, List.nil_append, walk, if_true]; exact h6 rest
        | some e =>
          simp only [herr] at h6 ⊢
          simp only [walk, if_true, R.started]
          cases hrun : s.inRun with
          | false => rw [hrun] at h6; simp only [Bool.false_eq_true, if_false, List.nil_append]; exact h6
          | true =>
            rw [hrun] at h6
            simp only [if_true]
            cases hf : flaggedSink (entered hb ff H o) with
            | none => simp only [List.nil_append]; exact h6
            | some y => simp only [List.cons_append, List.nil_append, walk, if_true]; exact h6
    · refine ⟨H, ?_, ?_, ?_, ?_, ?_, ?_⟩
      · simpa [runActs, hx, hst] using hI
      · simp [runActs, hx, hst]
      · simp [runActs, hx, hst]
      · simp [runActs, hx, hst]
      · simp [runActs, hx, hst]
      · simp [Walked, runActs, hx, walk, regOf_entered_none hb ff H o hreg, effAdd_none o hreg, flaggedSink_none o hreg]

theorem actsLeft_pop : ∀ (scs : List Script) (x : Nat) (k : Kind),
    actsLeft (popScript scs x k).1 + (popScript scs x k).2.length = actsLeft scs
  | [], _, _ => rfl
  | sc :: rest, x, k => by
      simp only [popScript]
      split
      · split
        · simp [actsLeft]
        · rename_i e es he
          simp only [actsLeft, List.map_cons, List.sum_cons, he]
          omega
      · have := actsLeft_pop rest x k
        simp only [actsLeft, List.map_cons, List.sum_cons] at this ⊢
        omega

/-- one call of a sink's method by the router -/
theorem callTop_walk (hb ff : Bool) (m : Mode) (i : Nat) (H : List Op) (s : State) (hI : Inv hb ff H s) (x : Nat)
    (ev : SinkEv) (st : Bool) (hn : nextTop hb ff m H i = some (x, ev)) :
    ∃ H', Inv hb ff H' (callTop s x ev).1
      ∧ (callTop s x ev).1.inRun = s.inRun
      ∧ s.sinks.length ≤ (callTop s x ev).1.sinks.length
      ∧ (callTop s x ev).1.sinks.length + actsLeft (callTop s x ev).1.scripts ≤ s.sinks.length + actsLeft s.scripts
      ∧ Walked hb ff s.inRun m i H st (callTop s x ev).2.1 (callTop s x ev).2.2 (i + 1) H' := by
  obtain ⟨H', h1, h2, h3, h4, h5, h6⟩ := runActs_walk hb ff m (i + 1) (popScript s.scripts x (kindOf ev)).2 H
    { s with scripts := (popScript s.scripts x (kindOf ev)).1 } (inv_scripts hb ff H s hI _)
  refine ⟨H', h1, h2, h4, ?_, ?_⟩
  · have := actsLeft_pop s.scripts x (kindOf ev)
    simp only [callTop, h3]
    simp only at h5
    omega
  · simp only [callTop]
    unfold Walked at h6 ⊢
    cases herr : (runActs { s with scripts := (popScript s.scripts x (kindOf ev)).1 } (popScript s.scripts x (kindOf ev)).2).2.2 with
    | none =>
      simp only [herr] at h6 ⊢
      intro rest
      simp only [List.cons_append, walk, hn, if_true]
      exact h6 rest
    | some e =>
      simp only [herr] at h6 ⊢
      -- the exception is not the first item
      cases hitems : (runActs { s with scripts := (popScript s.scripts x (kindOf ev)).1 } (popScript s.scripts x (kindOf ev)).2).2.1 with
      | nil => simp [hitems, walk] at h6
      | cons it its => simp only [walk, hn, if_true]; rw [← hitems]; exact h6

/-! ## the dispatch loop over the live list -/
theorem loop_walk (hb ff : Bool) (ev : SinkEv) : ∀ (fuel : Nat) (s : State) (i : Nat) (H : List Op) (st : Bool),
    Inv hb ff H s → i ≤ s.sinks.length → s.sinks.length - i + actsLeft s.scripts < fuel →
    ∃ H', Inv hb ff H' (loop ev fuel s i).1 ∧ (loop ev fuel s i).1.inRun = s.inRun
      ∧ walk hb ff s.inRun (.ctl ev) i H none st (loop ev fuel s i).2.1 = some ((loop ev fuel s i).2.2, H')
  | 0, s, i, H, st, hI, hi, hf => by omega
  | n + 1, s, i, H, st, hI, hi, hf => by
    cases hx : s.sinks[i]? with
    | none =>
      have hlen : i = (flagged hb ff (regs H)).length := by
        have := List.getElem?_eq_none_iff.mp hx
        rw [← hI.sinks]; omega
      refine ⟨H, by simpa [loop, hx] using hI, by simp [loop, hx], ?_⟩
      simp only [loop, hx, walk, allDone]
      simp [← hlen]
    | some x =>
      have hn : nextTop hb ff (.ctl ev) H i = some (x, ev) := by simp [nextTop, ← hI.sinks, hx]
      have hlt : i < s.sinks.length := by
        have := List.getElem?_eq_some_iff.mp hx
        exact this.1
      obtain ⟨H1, h1, h2, h3, h4, h5⟩ := callTop_walk hb ff (.ctl ev) i H s hI x ev st hn
      cases herr : (callTop s x ev).2.2 with
      | some e =>
        simp only [Walked, herr] at h5
        exact ⟨H1, by simpa [loop, hx, herr] using h1, by simpa [loop, hx, herr] using h2,
          by simpa [loop, hx, herr] using h5⟩
      | none =>
        simp only [Walked, herr] at h5
        obtain ⟨H2, g1, g2, g3⟩ := loop_walk hb ff ev n (callTop s x ev).1 (i + 1) H1 true h1 (by omega) (by omega)
        refine ⟨H2, by simpa [loop, hx, herr] using g1, by simpa [loop, hx, herr, h2] using g2, ?_⟩
        simp only [loop, hx, herr]
        rw [h5, ← h2]
        exact g3

/-! ## one operation of the driver -/
/-- an `add_rule` of the driver whose policy method succeeds -/
theorem add_ok (hb ff : Bool) (H : List Op) (s : State) (hI : Inv hb ff H s) (o : Op) (r : Reg) (hreg : regOf o = some r)
    (hstep : step s o = addStep s o) (hop : ∀ seg res, opOk hb ff H o seg res = addOk hb ff H o seg res) :
    ∃ H', opOk hb ff H o (step s o).2.1 (step s o).2.2 = some H' ∧ Inv hb ff H' (step s o).1 := by
  have R := regStep_spec hb ff H s hI o
  have hsome' : (regOf (entered hb ff H o)).isSome = true := by rw [regOf_entered_isSome]; simp [hreg]
  obtain ⟨r', hreg'⟩ := Option.isSome_iff_exists.mp hsome'
  have heff : effAdd (entered hb ff H o) = [entered hb ff H o] := by simp [effAdd, hreg']
  have hok := R.resOk (by simp [hreg])
  have hinv := R.inv
  rw [heff] at hinv
  rw [hstep, hop]
  simp only [addStep, addOk, hok, R.started, ← hI.inRun]
  cases hrun : s.inRun with
  | false =>
    exact ⟨H ++ [entered hb ff H o], by cases flaggedSink (entered hb ff H o) <;> simp [walk, allDone, closes], by simpa using hinv⟩
  | true =>
    cases hf : flaggedSink (entered hb ff H o) with
    | none => exact ⟨H ++ [entered hb ff H o], by simp [walk, allDone, closes], by simpa using hinv⟩
    | some y =>
      simp only [if_true]
      obtain ⟨H', h1, h2, h3, h4, h5⟩ := callTop_walk hb ff (.fixed [(y, .start)]) 0 (H ++ [entered hb ff H o]) (regStep s o).1 hinv y .start false
        (by simp [nextTop])
      rw [R.inRun, hrun] at h5
      refine ⟨H', ?_, h1⟩
      cases herr : (callTop (regStep s o).1 y .start).2.2 with
      | none =>
        simp only [Walked, herr] at h5
        have := h5 []
        simp only [List.append_nil] at this
        simp [this, walk, allDone, closes, resOf]
      | some x =>
        simp only [Walked, herr] at h5
        simp [h5, closes, resOf]

theorem step_ok (hb ff : Bool) (H : List Op) (s : State) (hI : Inv hb ff H s) (o : Op) :
    ∃ H', opOk hb ff H o (step s o).2.1 (step s o).2.2 = some H' ∧ Inv hb ff H' (step s o).1 := by
  have hrun := hI.inRun
  cases o with
  | start =>
    obtain ⟨H', h1, h2, h3⟩ := loop_walk hb ff .start (fuelOf s) s 0 H false hI (Nat.zero_le _) (by simp [fuelOf])
    cases herr : (loop .start (fuelOf s) s 0).2.2 with
    | none =>
      refine ⟨H' ++ [.start], by simp [opOk, step, herr, ← hrun, h3, closes], ?_⟩
      simp only [step, herr]
      exact ⟨h1.fallback, by simp [regs_snoc, regOf, h1.prefixes], by simp [regs_snoc, regOf, h1.ids],
        by simp [regs_snoc, regOf, h1.sinks], by simp [inRun_snoc]⟩
    | some x => exact ⟨H', by simp [opOk, step, herr, ← hrun, h3, closes], by simpa [step, herr] using h1⟩
  | stop =>
    obtain ⟨H', h1, h2, h3⟩ := loop_walk hb ff .stop (fuelOf s) s 0 H false hI (Nat.zero_le _) (by simp [fuelOf])
    cases herr : (loop .stop (fuelOf s) s 0).2.2 with
    | none =>
      refine ⟨H' ++ [.stop], by simp [opOk, step, herr, ← hrun, h3, closes], ?_⟩
      simp only [step, herr]
      exact ⟨h1.fallback, by simp [regs_snoc, regOf, h1.prefixes], by simp [regs_snoc, regOf, h1.ids],
        by simp [regs_snoc, regOf, h1.sinks], by simp [inRun_snoc]⟩
    | some x => exact ⟨H', by simp [opOk, step, herr, ← hrun, h3, closes], by simpa [step, herr] using h1⟩
  | status e =>
    simp only [opOk, step, route_eq hb ff H s hI e]
    cases hd : destination hb (regs H) e with
    | none => exact ⟨H, by simp, hI⟩
    | some d =>
      obtain ⟨sink, e'⟩ := d
      obtain ⟨H', h1, h2, h3, h4, h5⟩ := callTop_walk hb ff (.fixed [(sink, .status e')]) 0 H s hI sink (.status e') false
        (by simp [nextTop])
      refine ⟨H', ?_, h1⟩
      simp only [← hrun]
      cases herr : (callTop s sink (.status e')).2.2 with
      | none =>
        simp only [Walked, herr] at h5
        have := h5 []
        simp only [List.append_nil] at this
        simp [this, walk, allDone, closes, resOf]
      | some x =>
        simp only [Walked, herr] at h5
        simp [h5, closes, resOf]
  | roundTrip codes e =>
    have hst : (step s (.roundTrip codes e)).1 = s ∧ (step s (.roundTrip codes e)).2.1 = [] := by
      simp only [step]; split
      · exact ⟨rfl, rfl⟩
      · split <;> exact ⟨rfl, rfl⟩
    refine ⟨H, ?_, by rw [hst.1]; exact hI⟩
    have hc : ((step s (.roundTrip codes e)).2.1.isEmpty &&
        (codes.any (fun c => c.contains '/' || c.isEmpty) || e.route == some [] || (step s (.roundTrip codes e)).2.2 == .arrived e)) = true := by
      rw [hst.2]
      simp only [List.isEmpty_nil, Bool.true_and, Bool.or_eq_true]
      by_cases h1 : codes.any (fun c => c.contains '/' || c.isEmpty) = true
      · exact Or.inl (Or.inl h1)
      · by_cases h2 : e.route = some []
        · exact Or.inl (Or.inr (by simp [h2]))
        · right
          simp only [List.any_eq_true, Bool.or_eq_true, not_exists, not_and, not_or, Bool.not_eq_true] at h1
          have hc : ∀ c ∈ codes, '/' ∉ c ∧ c ≠ [] := by
            intro c hc
            obtain ⟨a, b⟩ := h1 c hc
            exact ⟨by simpa using a, by simpa using b⟩
          have hno : codes.any (fun c => c.contains '/') = false := by
            simp only [List.any_eq_false]
            intro c hc'; simpa using (h1 c hc').1
          simp only [step, hno, Bool.false_eq_true, if_false, C18_inverse_nested codes hc e h2]
          simp
    simp only [opOk, hc, if_true]
  | addBad sink flag => exact ⟨H, by simp [opOk, step, addStep, regStep, regOf], by simpa [step, addStep, regStep] using hI⟩
  | addPrefix sink p consume flag =>
    have R := regStep_spec hb ff H s hI (.addPrefix sink p consume flag)
    by_cases hp : '/' ∈ p
    · exact ⟨H, by simp [opOk, step, addStep, regStep, regOf, hp], by simpa [step, addStep, regStep, hp] using hI⟩
    · have hreg : regOf (.addPrefix sink p consume flag) = some (.pfx sink p consume flag) := by simp [regOf, hp]
      exact add_ok hb ff H s hI _ _ hreg (by simp [step]) (by simp [opOk, hreg])
  | addId sink t flag =>
    have hreg : regOf (.addId sink t flag) = some (.tid sink t flag) := by simp [regOf]
    exact add_ok hb ff H s hI _ _ hreg (by simp [step]) (by simp [opOk, hreg])

theorem run_ok (hb ff : Bool) : ∀ (os H : List Op) (s : State), Inv hb ff H s →
    historyOk hb ff H os (run s os).1 (run s os).2 = true
  | [], _, _, _ => rfl
  | o :: os, H, s, hI => by
      obtain ⟨H', h1, h2⟩ := step_ok hb ff H s hI o
      have := run_ok hb ff os H' _ h2
      simp only [historyOk] at this ⊢
      simp only [run, finalHist, h1]
      exact this

/-- **C18 (whole histories)**: for every script of driver operations and every scripted behaviour of the sinks
(re-entrant `add_rule` from inside `startTestRun` / `stopTestRun` / `status`, exceptions), what is observed passes the
reading of the property `historyOk`: each status reaches exactly the one sink `destination` names; each
`startTestRun` / `stopTestRun` calls every sink registered for them — before or *during* the dispatch — exactly once,
in registration order, and makes no other call; a rule added with the flag is started at once iff a run is in progress
(which is the case only between a `startTestRun` and a `stopTestRun` that both returned); an exception raised by a
sink ends the operation at that point and reaches the driver. -/
theorem C18_history (i : Input) : cHistory i (model i) = true :=
  run_ok i.hasFallback i.fbFlag i.ops [] _ (inv_init' i.hasFallback i.fbFlag i.scripts)

/-! ## per sink: starts and stops alternate
This part argues about *any* trace that passes `historyOk` (the reading of the property), not about the model. -/
/-- the start/stop automaton of one sink: `some running` after a legal sequence, `none` after an illegal one -/
def auto : Bool → List Bool → Option Bool
  | r, [] => some r
  | r, b :: l => if b != r then auto b l else none

theorem alternates_iff (e : Bool) (l : List Bool) : alternates e l = (auto (!e) l).isSome := by
  induction l generalizing e with
  | nil => rfl
  | cons b l ih =>
    simp only [alternates, auto]
    cases b <;> cases e <;> simp [ih]

theorem auto_append (r : Bool) (l1 l2 : List Bool) : auto r (l1 ++ l2) = (auto r l1).bind fun r' => auto r' l2 := by
  induction l1 generalizing r with
  | nil => rfl
  | cons b l1 ih =>
    simp only [List.cons_append, auto]
    split
    · exact ih b
    · rfl

theorem ctlOf_append (x : Nat) (a b : List Item) : ctlOf x (a ++ b) = ctlOf x a ++ ctlOf x b := by
  induction a with
  | nil => rfl
  | cons it a ih =>
    cases it with
    | del y ev n => cases ev <;> simp only [List.cons_append, ctlOf, ih] <;> split <;> simp
    | radd o => simpa [ctlOf] using ih
    | exc e => simpa [ctlOf] using ih

/-- the state of sink `x` after the log `L` -/
def stOf (x : Nat) (L : List Item) : Option Bool := auto false (ctlOf x L)

theorem stOf_snoc_other (x : Nat) (L : List Item) (it : Item) (h : ctlOf x [it] = []) : stOf x (L ++ [it]) = stOf x L := by
  simp [stOf, ctlOf_append, h]

theorem stOf_snoc_start (x : Nat) (L : List Item) (n : Bool) (h : stOf x L = some false) :
    stOf x (L ++ [.del x .start n]) = some true := by
  simp only [stOf, ctlOf_append, auto_append] at h ⊢
  simp [h, ctlOf, auto]

theorem stOf_snoc_stop (x : Nat) (L : List Item) (n : Bool) (h : stOf x L = some true) :
    stOf x (L ++ [.del x .stop n]) = some false := by
  simp only [stOf, ctlOf_append, auto_append] at h ⊢
  simp [h, ctlOf, auto]

theorem ctlOf_del_ne (x y : Nat) (ev : SinkEv) (n : Bool) (h : y ≠ x) : ctlOf x [.del y ev n] = [] := by
  cases ev <;> simp [ctlOf, h]

theorem ctlOf_status (x y : Nat) (e : Event) (n : Bool) : ctlOf x [.del y (.status e) n] = [] := by simp [ctlOf]

/-- who is registered for start/stop after the history `h` -/
abbrev F (hb ff : Bool) (h : List Op) : List Nat := flagged hb ff (regs h)

theorem filterMap_congr'' {α β : Type} {f g : α → Option β} : ∀ {l : List α}, (∀ a ∈ l, f a = g a) → l.filterMap f = l.filterMap g
  | [], _ => rfl
  | a :: l, h => by
      simp only [List.filterMap_cons, h a List.mem_cons_self]
      rw [filterMap_congr'' (fun b hb => h b (List.mem_cons_of_mem _ hb))]

theorem F_append (hb ff : Bool) (h X : List Op) : F hb ff (h ++ X) = F hb ff h ++ X.filterMap flaggedSink := by
  simp only [F, flagged, regs, List.filterMap_append, List.append_assoc, List.filterMap_filterMap]
  congr 2
  apply filterMap_congr''
  intro o _
  simp only [flaggedSink]
  cases regOf o with
  | none => rfl
  | some r => cases r with
    | pfx s p c fl => cases fl <;> rfl
    | tid s t fl => cases fl <;> rfl

theorem F_effAdd (hb ff : Bool) (h : List Op) (o : Op) : F hb ff (h ++ effAdd o) = F hb ff h ++ (flaggedSink o).toList := by
  rw [F_append]
  unfold effAdd
  cases hr : regOf o with
  | none => simp [flaggedSink, hr]
  | some r => cases hf : flaggedSink o <;> simp [hf]

theorem F_ctl (hb ff : Bool) (h : List Op) (o : Op) (ho : o = .start ∨ o = .stop) : F hb ff (h ++ [o]) = F hb ff h := by
  rw [F_append]; rcases ho with rfl | rfl <;> simp [flaggedSink, regOf]

/-- the walker only extends the history -/
theorem walk_prefix (hb ff ρ : Bool) (m : Mode) : ∀ (seg : List Item) (i : Nat) (h : List Op) (pend : Option Nat) (st : Bool)
    (e : Option String) (h' : List Op), walk hb ff ρ m i h pend st seg = some (e, h') → ∃ X, h' = h ++ X := by
  intro seg
  induction seg with
  | nil =>
    intro i h pend st e h' hw
    cases pend with
    | some y => simp [walk] at hw
    | none =>
      simp only [walk] at hw
      split at hw
      · simp only [Option.some.injEq, Prod.mk.injEq] at hw; exact ⟨[], by simp [hw.2]⟩
      · simp at hw
  | cons it seg ih =>
    intro i h pend st e h' hw
    cases pend with
    | some y =>
      cases it with
      | del x ev n =>
        cases ev <;> cases n <;> simp only [walk] at hw <;> try (simp at hw)
        exact ih _ _ _ _ _ _ hw.2
      | radd o => simp [walk] at hw
      | exc x => simp [walk] at hw
    | none =>
      cases it with
      | del x ev n =>
        cases n with
        | true => simp [walk] at hw
        | false =>
          simp only [walk] at hw
          split at hw
          · exact ih _ _ _ _ _ _ hw
          · simp at hw
      | radd o =>
        simp only [walk] at hw
        split at hw
        · obtain ⟨X, hX⟩ := ih _ _ _ _ _ _ hw
          exact ⟨effAdd (entered hb ff h o) ++ X, by rw [hX, List.append_assoc]⟩
        · simp at hw
      | exc x =>
        cases seg with
        | nil =>
          simp only [walk] at hw
          split at hw
          · simp only [Option.some.injEq, Prod.mk.injEq] at hw; exact ⟨[], by simp [hw.2]⟩
          · simp at hw
        | cons a b => simp [walk] at hw

theorem walk_exc (hb ff ρ : Bool) (m : Mode) : ∀ (seg : List Item) (i : Nat) (h : List Op) (pend : Option Nat) (st : Bool)
    (x : String) (h' : List Op), walk hb ff ρ m i h pend st seg = some (some x, h') → hasExc seg = true := by
  intro seg
  induction seg with
  | nil =>
    intro i h pend st x h' hw
    cases pend with
    | some y => simp [walk] at hw
    | none => simp only [walk] at hw; split at hw <;> simp at hw
  | cons it seg ih =>
    intro i h pend st x h' hw
    cases it with
    | exc e => simp [hasExc]
    | radd o =>
      cases pend with
      | some y => simp [walk] at hw
      | none =>
        simp only [walk] at hw
        split at hw
        · have := ih _ _ _ _ _ _ hw; simpa [hasExc] using this
        · simp at hw
    | del y ev n =>
      cases pend with
      | some p =>
        cases ev <;> cases n <;> simp only [walk] at hw <;> try (simp at hw)
        have := ih _ _ _ _ _ _ hw.2; simpa [hasExc] using this
      | none =>
        cases n with
        | true => simp [walk] at hw
        | false =>
          simp only [walk] at hw
          split at hw
          · have := ih _ _ _ _ _ _ hw; simpa [hasExc] using this
          · simp at hw

/-- how a walk without exception proceeds (nothing pending) -/
theorem walk_inv_none (hb ff ρ : Bool) (m : Mode) (seg : List Item) (i : Nat) (h : List Op) (st : Bool) (h' : List Op)
    (hw : walk hb ff ρ m i h none st seg = some (none, h')) :
    (seg = [] ∧ allDone hb ff m h i = true ∧ h' = h)
    ∨ (∃ o r, seg = .radd o :: r ∧ st = true
        ∧ walk hb ff ρ m i (h ++ effAdd (entered hb ff h o)) (if ρ then flaggedSink (entered hb ff h o) else none) st r = some (none, h'))
    ∨ (∃ x ev r, seg = .del x ev false :: r ∧ nextTop hb ff m h i = some (x, ev)
        ∧ walk hb ff ρ m (i + 1) h none true r = some (none, h')) := by
  cases seg with
  | nil =>
    simp only [walk] at hw
    split at hw
    · rename_i hd; simp only [Option.some.injEq, Prod.mk.injEq, true_and] at hw; exact Or.inl ⟨rfl, hd, hw.symm⟩
    · simp at hw
  | cons it r =>
    cases it with
    | del x ev n =>
      cases n with
      | true => simp [walk] at hw
      | false =>
        simp only [walk] at hw
        split at hw
        · rename_i hn; exact Or.inr (Or.inr ⟨x, ev, r, rfl, hn, hw⟩)
        · simp at hw
    | radd o =>
      simp only [walk] at hw
      split at hw
      · rename_i hst; exact Or.inr (Or.inl ⟨o, r, rfl, hst, hw⟩)
      · simp at hw
    | exc x =>
      cases r with
      | nil => simp only [walk] at hw; split at hw <;> simp at hw
      | cons a b => simp [walk] at hw

theorem walk_inv_some (hb ff ρ : Bool) (m : Mode) (seg : List Item) (i : Nat) (h : List Op) (y : Nat) (st : Bool)
    (e : Option String) (h' : List Op) (hw : walk hb ff ρ m i h (some y) st seg = some (e, h')) :
    ∃ r, seg = .del y .start true :: r ∧ walk hb ff ρ m i h none st r = some (e, h') := by
  cases seg with
  | nil => simp [walk] at hw
  | cons it r =>
    cases it with
    | del x ev n =>
      cases ev <;> cases n <;> simp only [walk] at hw <;> try (simp at hw)
      obtain ⟨rfl, hw⟩ := hw
      exact ⟨r, rfl, hw⟩
    | radd o => simp [walk] at hw
    | exc x => simp [walk] at hw

theorem nodup_getElem_not_mem_take {l : List Nat} (hn : l.Nodup) {i : Nat} {x : Nat} (hx : l[i]? = some x) :
    x ∉ l.take i ∧ x ∈ l.drop i ∧ x ∉ l.drop (i + 1) := by
  obtain ⟨hi, rfl⟩ := List.getElem?_eq_some_iff.mp hx
  have hsplit : l = l.take i ++ l[i] :: l.drop (i + 1) := by
    conv => lhs; rw [← List.take_append_drop i l, List.drop_eq_getElem_cons hi]
  rw [hsplit] at hn
  have hd : l.drop i = l[i] :: l.drop (i + 1) := List.drop_eq_getElem_cons hi
  rw [List.nodup_append] at hn
  obtain ⟨_, h2, h3⟩ := hn
  refine ⟨fun hm => h3 _ hm _ (List.mem_cons_self) rfl, by rw [hd]; exact List.mem_cons_self, ?_⟩
  exact (List.nodup_cons.mp h2).1

theorem mem_take_succ {l : List Nat} {i : Nat} {x z : Nat} (hx : l[i]? = some x) :
    z ∈ l.take (i + 1) ↔ z ∈ l.take i ∨ z = x := by
  obtain ⟨hi, rfl⟩ := List.getElem?_eq_some_iff.mp hx
  rw [List.take_succ_eq_append_getElem hi]
  simp only [List.mem_append, List.mem_singleton]

theorem mem_drop_split {l : List Nat} {i : Nat} {x z : Nat} (hx : l[i]? = some x) :
    z ∈ l.drop i ↔ z = x ∨ z ∈ l.drop (i + 1) := by
  obtain ⟨hi, rfl⟩ := List.getElem?_eq_some_iff.mp hx
  rw [List.drop_eq_getElem_cons hi]
  simp only [List.mem_cons]

/-- `startTestRun` with no run in progress: afterwards exactly the registered sinks are running -/
theorem walk_alt_start (hb ff : Bool) : ∀ (seg : List Item) (i : Nat) (h : List Op) (st : Bool) (L : List Item) (h' : List Op),
    walk hb ff false (.ctl .start) i h none st seg = some (none, h') → (F hb ff h').Nodup → i ≤ (F hb ff h).length →
    (∀ x, stOf x L = some (decide (x ∈ (F hb ff h).take i))) →
    ∀ x, stOf x (L ++ seg) = some (decide (x ∈ F hb ff h')) := by
  intro seg
  induction seg with
  | nil =>
    intro i h st L h' hw hn hi hinv x
    rcases walk_inv_none _ _ _ _ _ _ _ _ _ hw with ⟨_, hd, rfl⟩ | ⟨o, r, hs, _⟩ | ⟨y, ev, r, hs, _⟩
    · simp only [allDone, beq_iff_eq] at hd
      simpa [hd] using hinv x
    · simp at hs
    · simp at hs
  | cons it seg ih =>
    intro i h st L h' hw hn hi hinv x
    rcases walk_inv_none _ _ _ _ _ _ _ _ _ hw with ⟨hs, _⟩ | ⟨o, r, hs, hst, hw'⟩ | ⟨y, ev, r, hs, hnt, hw'⟩
    · simp at hs
    · obtain ⟨rfl, rfl⟩ := List.cons.inj hs
      simp only [Bool.false_eq_true, if_false] at hw'
      have := ih i (h ++ effAdd (entered hb ff h o)) st (L ++ [.radd o]) h' hw' hn
        (by rw [F_effAdd]; simp only [List.length_append]; omega)
        (fun z => by
          rw [stOf_snoc_other z L _ (by simp [ctlOf]), F_effAdd, List.take_append_of_le_length hi]
          exact hinv z) x
      simpa using this
    · obtain ⟨rfl, rfl⟩ := List.cons.inj hs
      simp only [nextTop, Option.map_eq_some_iff, Prod.mk.injEq] at hnt
      obtain ⟨y', hy, rfl, rfl⟩ := hnt
      obtain ⟨X, hX⟩ := walk_prefix _ _ _ _ _ _ _ _ _ _ _ hw'
      have hnh : (F hb ff h).Nodup := by
        rw [hX, F_append] at hn; exact (List.nodup_append.mp hn).1
      obtain ⟨hnot, _, _⟩ := nodup_getElem_not_mem_take hnh hy
      have hlt : i < (F hb ff h).length := (List.getElem?_eq_some_iff.mp hy).1
      have := ih (i + 1) h true (L ++ [.del y' .start false]) h' hw' hn (by omega)
        (fun z => by
          by_cases hz : z = y'
          · subst hz
            rw [stOf_snoc_start z L false (by simpa [hnot] using hinv z)]
            simp [mem_take_succ hy]
          · rw [stOf_snoc_other z L _ (ctlOf_del_ne z y' _ _ (fun hh => hz hh.symm)), hinv z]
            simp [mem_take_succ hy, hz]) x
      simpa using this

theorem pend_ne (y z : Nat) (h : z ≠ y) : ((some y : Option Nat) != some z) = true := by
  simp [bne_iff_ne]; exact fun hh => h hh.symm
theorem pend_self (z : Nat) : ((some z : Option Nat) != some z) = false := by simp
theorem pend_none (z : Nat) : ((none : Option Nat) != some z) = true := by simp

/-- `stopTestRun` with a run in progress: afterwards no sink is running — also the sinks registered (and started at
once) while the dispatch was under way have been stopped -/
theorem walk_alt_stop (hb ff : Bool) : ∀ (seg : List Item) (i : Nat) (h : List Op) (pend : Option Nat) (st : Bool)
    (L : List Item) (h' : List Op),
    walk hb ff true (.ctl .stop) i h pend st seg = some (none, h') → (F hb ff h').Nodup → i ≤ (F hb ff h).length →
    (∀ y, pend = some y → y ∈ (F hb ff h).drop i) →
    (∀ x, stOf x L = some (decide (x ∈ (F hb ff h).drop i) && (pend != some x))) →
    ∀ x, stOf x (L ++ seg) = some false := by
  intro seg
  induction seg with
  | nil =>
    intro i h pend st L h' hw hn hi hp hinv x
    cases pend with
    | some y => obtain ⟨r, hs, _⟩ := walk_inv_some _ _ _ _ _ _ _ _ _ _ _ hw; simp at hs
    | none =>
      rcases walk_inv_none _ _ _ _ _ _ _ _ _ hw with ⟨_, hd, rfl⟩ | ⟨o, r, hs, _⟩ | ⟨y, ev, r, hs, _⟩
      · simp only [allDone, beq_iff_eq] at hd
        simpa [hd, pend_none] using hinv x
      · simp at hs
      · simp at hs
  | cons it seg ih =>
    intro i h pend st L h' hw hn hi hp hinv x
    cases pend with
    | some y =>
      obtain ⟨r, hs, hw'⟩ := walk_inv_some _ _ _ _ _ _ _ _ _ _ _ hw
      obtain ⟨rfl, rfl⟩ := List.cons.inj hs
      have := ih i h none st (L ++ [.del y .start true]) h' hw' hn hi (by simp)
        (fun z => by
          by_cases hz : z = y
          · subst hz
            rw [stOf_snoc_start z L true (by simpa [pend_self] using hinv z)]
            simp [hp z rfl, pend_none]
          · rw [stOf_snoc_other z L _ (ctlOf_del_ne z y _ _ (fun hh => hz hh.symm)), hinv z]
            simp [pend_ne y z hz, pend_none]) x
      simpa using this
    | none =>
      rcases walk_inv_none _ _ _ _ _ _ _ _ _ hw with ⟨hs, _⟩ | ⟨o, r, hs, hst, hw'⟩ | ⟨y, ev, r, hs, hnt, hw'⟩
      · simp at hs
      · obtain ⟨rfl, rfl⟩ := List.cons.inj hs
        simp only [if_true] at hw'
        obtain ⟨X, hX⟩ := walk_prefix _ _ _ _ _ _ _ _ _ _ _ hw'
        have hnh : (F hb ff (h ++ effAdd (entered hb ff h o))).Nodup := by
          rw [hX, F_append] at hn; exact (List.nodup_append.mp hn).1
        rw [F_effAdd] at hnh
        have := ih i (h ++ effAdd (entered hb ff h o)) (flaggedSink (entered hb ff h o)) st (L ++ [.radd o]) h' hw' hn
          (by rw [F_effAdd]; simp only [List.length_append]; omega)
          (fun y hy => by
            rw [F_effAdd, hy, List.drop_append_of_le_length hi]
            simp)
          (fun z => by
            rw [stOf_snoc_other z L _ (by simp [ctlOf]), F_effAdd, List.drop_append_of_le_length hi, hinv z]
            cases hf : flaggedSink (entered hb ff h o) with
            | none => simp [pend_none]
            | some y =>
              rw [hf] at hnh
              by_cases hz : z = y
              · subst hz
                have : z ∉ F hb ff h := by
                  intro hm
                  have := (List.nodup_append.mp hnh).2.2 z hm z (by simp)
                  exact this rfl
                have : z ∉ (F hb ff h).drop i := fun hm => this (List.mem_of_mem_drop hm)
                simp [this, pend_self]
              · simp [hz, pend_ne y z hz, pend_none]) x
        simpa using this
      · obtain ⟨rfl, rfl⟩ := List.cons.inj hs
        simp only [nextTop, Option.map_eq_some_iff, Prod.mk.injEq] at hnt
        obtain ⟨y', hy, rfl, rfl⟩ := hnt
        obtain ⟨X, hX⟩ := walk_prefix _ _ _ _ _ _ _ _ _ _ _ hw'
        have hnh : (F hb ff h).Nodup := by
          rw [hX, F_append] at hn; exact (List.nodup_append.mp hn).1
        obtain ⟨_, hin, hnot⟩ := nodup_getElem_not_mem_take hnh hy
        have hlt : i < (F hb ff h).length := (List.getElem?_eq_some_iff.mp hy).1
        have := ih (i + 1) h none true (L ++ [.del y' .stop false]) h' hw' hn (by omega) (by simp)
          (fun z => by
            by_cases hz : z = y'
            · subst hz
              rw [stOf_snoc_stop z L false (by simpa [hin, pend_none] using hinv z)]
              simp [hnot, pend_none]
            · rw [stOf_snoc_other z L _ (ctlOf_del_ne z y' _ _ (fun hh => hz hh.symm)), hinv z]
              simp [mem_drop_split hy, hz, pend_none]) x
        simpa using this

def startsIn (ds : List (Nat × SinkEv)) : List Nat :=
  ds.filterMap fun p => match p.2 with | .start => some p.1 | _ => none

/-- an operation during which the router itself makes at most one call (a status, or the immediate start of a rule just
added): afterwards exactly the registered sinks are running if a run is in progress, none otherwise -/
theorem walk_alt_fixed (hb ff ρ : Bool) (ds : List (Nat × SinkEv)) (hlen : ds.length ≤ 1) (hnostop : ∀ p ∈ ds, p.2 ≠ .stop) :
    ∀ (seg : List Item) (i : Nat) (h : List Op) (pend : Option Nat) (st : Bool) (L : List Item) (h' : List Op),
    walk hb ff ρ (.fixed ds) i h pend st seg = some (none, h') → (F hb ff h').Nodup →
    (st = true → i = ds.length) → (pend.isSome → st = true) →
    (∀ y, pend = some y → ρ = true ∧ y ∈ F hb ff h) →
    (∀ y, y ∈ startsIn (ds.drop i) → ρ = true ∧ y ∈ F hb ff h) →
    (∀ x, stOf x L = some (ρ && decide (x ∈ F hb ff h) && !(startsIn (ds.drop i)).contains x && (pend != some x))) →
    ∀ x, stOf x (L ++ seg) = some (ρ && decide (x ∈ F hb ff h')) := by
  intro seg
  induction seg with
  | nil =>
    intro i h pend st L h' hw hn hst hps hp hds hinv x
    cases pend with
    | some y => obtain ⟨r, hs, _⟩ := walk_inv_some _ _ _ _ _ _ _ _ _ _ _ hw; simp at hs
    | none =>
      rcases walk_inv_none _ _ _ _ _ _ _ _ _ hw with ⟨_, hd, rfl⟩ | ⟨o, r, hs, _⟩ | ⟨y, ev, r, hs, _⟩
      · simp only [allDone, beq_iff_eq] at hd
        simpa [hd, pend_none, startsIn] using hinv x
      · simp at hs
      · simp at hs
  | cons it seg ih =>
    intro i h pend st L h' hw hn hst hps hp hds hinv x
    cases pend with
    | some y =>
      obtain ⟨r, hs, hw'⟩ := walk_inv_some _ _ _ _ _ _ _ _ _ _ _ hw
      obtain ⟨rfl, rfl⟩ := List.cons.inj hs
      have hi := hst (hps rfl)
      obtain ⟨hρ, hy⟩ := hp y rfl
      have := ih i h none st (L ++ [.del y .start true]) h' hw' hn hst (by simp) (by simp) hds
        (fun z => by
          by_cases hz : z = y
          · subst hz
            rw [stOf_snoc_start z L true (by simpa [pend_self] using hinv z)]
            simp [hρ, hy, hi, startsIn, pend_none]
          · rw [stOf_snoc_other z L _ (ctlOf_del_ne z y _ _ (fun hh => hz hh.symm)), hinv z]
            simp [pend_ne y z hz, pend_none]) x
      simpa using this
    | none =>
      rcases walk_inv_none _ _ _ _ _ _ _ _ _ hw with ⟨hs, _⟩ | ⟨o, r, hs, hstt, hw'⟩ | ⟨y, ev, r, hs, hnt, hw'⟩
      · simp at hs
      · obtain ⟨rfl, rfl⟩ := List.cons.inj hs
        have hi := hst hstt
        obtain ⟨X, hX⟩ := walk_prefix _ _ _ _ _ _ _ _ _ _ _ hw'
        have hnh : (F hb ff (h ++ effAdd (entered hb ff h o))).Nodup := by
          rw [hX, F_append] at hn; exact (List.nodup_append.mp hn).1
        rw [F_effAdd] at hnh
        have hdrop : ds.drop i = [] := by rw [hi]; simp
        have := ih i (h ++ effAdd (entered hb ff h o)) (if ρ then flaggedSink (entered hb ff h o) else none) st (L ++ [.radd o]) h' hw' hn hst (fun _ => hstt)
          (fun y hy => by
            cases hρ : ρ with
            | false => simp [hρ] at hy
            | true =>
              simp only [hρ, if_true] at hy
              rw [F_effAdd, hy]; simp)
          (fun y hy => by simp [hdrop, startsIn] at hy)
          (fun z => by
            rw [stOf_snoc_other z L _ (by simp [ctlOf]), F_effAdd, hinv z]
            simp only [hdrop, startsIn, List.filterMap_nil, List.contains_nil, Bool.not_false, Bool.and_true, pend_none]
            cases hρ : ρ with
            | false => simp
            | true =>
              cases hf : flaggedSink (entered hb ff h o) with
              | none => simp [pend_none]
              | some y =>
                rw [hf] at hnh
                by_cases hz : z = y
                · subst hz
                  have : z ∉ F hb ff h := by
                    intro hm
                    exact (List.nodup_append.mp hnh).2.2 z hm z (by simp) rfl
                  simp [this, pend_self]
                · simp [hz, pend_ne y z hz]) x
        simpa using this
      · obtain ⟨rfl, rfl⟩ := List.cons.inj hs
        simp only [nextTop] at hnt
        have hi0 : i = 0 := by
          have := (List.getElem?_eq_some_iff.mp hnt).1
          omega
        subst hi0
        have hds1 : ds = [(y, ev)] := by
          cases ds with
          | nil => simp at hnt
          | cons p rest =>
            cases rest with
            | nil => simp at hnt; rw [hnt]
            | cons q r => simp at hlen
        subst hds1
        have := ih 1 h none true (L ++ [.del y ev false]) h' hw' hn (by simp) (by simp) (by simp)
          (fun z hz => by simp [startsIn] at hz)
          (fun z => by
            cases ev with
            | stop => exact absurd rfl (hnostop (y, .stop) (by simp))
            | status e =>
              rw [stOf_snoc_other z L _ (ctlOf_status z y e false), hinv z]
              simp [startsIn, pend_none]
            | start =>
              obtain ⟨hρ, hy⟩ := hds y (by simp [startsIn])
              by_cases hz : z = y
              · subst hz
                rw [stOf_snoc_start z L false (by simpa [startsIn, pend_none] using hinv z)]
                simp [hρ, hy, startsIn, pend_none]
              · rw [stOf_snoc_other z L _ (ctlOf_del_ne z y _ _ (fun hh => hz hh.symm)), hinv z]
                simp [startsIn, hz, pend_none]) x
        simpa using this

theorem walk_inRun_any (hb ff ρ : Bool) (m : Mode) : ∀ (seg : List Item) (i : Nat) (h : List Op) (pend : Option Nat) (st : Bool)
    (e : Option String) (h' : List Op), walk hb ff ρ m i h pend st seg = some (e, h') → inRun h' = inRun h := by
  intro seg
  induction seg with
  | nil =>
    intro i h pend st e h' hw
    cases pend with
    | some y => simp [walk] at hw
    | none =>
      simp only [walk] at hw
      split at hw
      · simp only [Option.some.injEq, Prod.mk.injEq] at hw; rw [hw.2]
      · simp at hw
  | cons it seg ih =>
    intro i h pend st e h' hw
    cases pend with
    | some y =>
      obtain ⟨r, hs, hw'⟩ := walk_inv_some _ _ _ _ _ _ _ _ _ _ _ hw
      obtain ⟨rfl, rfl⟩ := List.cons.inj hs
      exact ih _ _ _ _ _ _ hw'
    | none =>
      cases it with
      | exc x =>
        cases seg with
        | nil =>
          simp only [walk] at hw
          split at hw
          · simp only [Option.some.injEq, Prod.mk.injEq] at hw; rw [hw.2]
          · simp at hw
        | cons a b => simp [walk] at hw
      | radd o =>
        simp only [walk] at hw
        split at hw
        · rw [ih _ _ _ _ _ _ hw, inRun_effAdd]
        · simp at hw
      | del x ev n =>
        cases n with
        | true => simp [walk] at hw
        | false =>
          simp only [walk] at hw
          split at hw
          · exact ih _ _ _ _ _ _ hw
          · simp at hw

theorem walk_inRun (hb ff ρ : Bool) (m : Mode) : ∀ (seg : List Item) (i : Nat) (h : List Op) (pend : Option Nat) (st : Bool)
    (h' : List Op), walk hb ff ρ m i h pend st seg = some (none, h') → inRun h' = inRun h := by
  intro seg
  induction seg with
  | nil =>
    intro i h pend st h' hw
    cases pend with
    | some y => obtain ⟨r, hs, _⟩ := walk_inv_some _ _ _ _ _ _ _ _ _ _ _ hw; simp at hs
    | none =>
      rcases walk_inv_none _ _ _ _ _ _ _ _ _ hw with ⟨_, _, rfl⟩ | ⟨o, r, hs, _⟩ | ⟨y, ev, r, hs, _⟩
      · rfl
      · simp at hs
      · simp at hs
  | cons it seg ih =>
    intro i h pend st h' hw
    cases pend with
    | some y =>
      obtain ⟨r, hs, hw'⟩ := walk_inv_some _ _ _ _ _ _ _ _ _ _ _ hw
      obtain ⟨rfl, rfl⟩ := List.cons.inj hs
      exact ih _ _ _ _ _ hw'
    | none =>
      rcases walk_inv_none _ _ _ _ _ _ _ _ _ hw with ⟨hs, _⟩ | ⟨o, r, hs, _, hw'⟩ | ⟨y, ev, r, hs, _, hw'⟩
      · simp at hs
      · obtain ⟨rfl, rfl⟩ := List.cons.inj hs
        rw [ih _ _ _ _ _ hw', inRun_effAdd]
      · obtain ⟨rfl, rfl⟩ := List.cons.inj hs
        exact ih _ _ _ _ _ hw'

/-- every sink is running iff a run is in progress and it is registered -/
def Q (hb ff : Bool) (H : List Op) (L : List Item) : Prop :=
  ∀ x, stOf x L = some (inRun H && decide (x ∈ F hb ff H))

theorem closes_noexc (hb ff ρ : Bool) (m : Mode) (i : Nat) (h : List Op) (seg : List Item) (res : Res) (comp H' : List Op)
    (hc : closes res (walk hb ff ρ m i h none false seg) comp = some H') (hexc : hasExc seg = false) :
    ∃ h', walk hb ff ρ m i h none false seg = some (none, h') ∧ H' = h' ++ comp := by
  cases hw : walk hb ff ρ m i h none false seg with
  | none => simp [closes, hw] at hc
  | some p =>
    obtain ⟨e, h'⟩ := p
    cases e with
    | some x => have := walk_exc _ _ _ _ _ _ _ _ _ _ _ hw; simp [hexc] at this
    | none =>
      simp only [closes, hw] at hc
      split at hc
      · simp only [Option.some.injEq] at hc; exact ⟨h', rfl, hc.symm⟩
      · simp at hc

theorem inRun_add (H : List Op) (o : Op) (r : Reg) (h : regOf o = some r) : inRun (H ++ [o]) = inRun H := by
  have := inRun_effAdd H o
  simpa [effAdd, h] using this

/-- whether a run is in progress after an operation that returned normally -/
def runAfter (o : Op) (r : Bool) : Bool :=
  match o with
  | .start => true
  | .stop => false
  | _ => r

theorem add_alt (hb ff : Bool) (H : List Op) (o : Op) (seg : List Item) (res : Res) (H' : List Op) (L : List Item)
    (r : Reg) (hreg : regOf o = some r) (hop : addOk hb ff H o seg res = some H') (hexc : hasExc seg = false)
    (hn : (F hb ff H').Nodup) (hQ : Q hb ff H L) :
    Q hb ff H' (L ++ seg) ∧ inRun H' = runAfter o (inRun H) := by
  have hsome' : (regOf (entered hb ff H o)).isSome = true := by rw [regOf_entered_isSome]; simp [hreg]
  obtain ⟨r', hreg'⟩ := Option.isSome_iff_exists.mp hsome'
  have hadd : inRun (H ++ [entered hb ff H o]) = inRun H := inRun_add H (entered hb ff H o) r' hreg'
  have hmatch : runAfter o (inRun H) = inRun H := by
    cases o <;> simp [regOf] at hreg <;> rfl
  rw [hmatch]
  simp only [addOk] at hop
  obtain ⟨h', hw, rfl⟩ := closes_noexc _ _ _ _ _ _ _ _ _ _ hop hexc
  simp only [List.append_nil] at hn ⊢
  have hir := (walk_inRun _ _ _ _ _ _ _ _ _ _ hw).trans hadd
  refine ⟨fun x => ?_, hir⟩
  obtain ⟨X, hX⟩ := walk_prefix _ _ _ _ _ _ _ _ _ _ _ hw
  have hFo : F hb ff (H ++ [entered hb ff H o]) = F hb ff H ++ (flaggedSink (entered hb ff H o)).toList := by
    have := F_effAdd hb ff H (entered hb ff H o)
    simpa [effAdd, hreg'] using this
  have hnh : (F hb ff H ++ (flaggedSink (entered hb ff H o)).toList).Nodup := by
    rw [hX, F_append, hFo] at hn; exact (List.nodup_append.mp hn).1
  have := walk_alt_fixed hb ff (inRun H)
    (match flaggedSink (entered hb ff H o) with | some y => if inRun H then [(y, .start)] else [] | none => [])
    (by cases flaggedSink (entered hb ff H o) <;> simp <;> split <;> simp)
    (by
      intro p hp
      cases hf : flaggedSink (entered hb ff H o) with
      | none => simp [hf] at hp
      | some y =>
        simp only [hf] at hp
        split at hp
        · simp only [List.mem_singleton] at hp; subst hp; simp
        · simp at hp)
    seg 0 (H ++ [entered hb ff H o]) none false L h' hw hn (by simp) (by simp) (by simp)
    (by
      intro y hy
      cases hf : flaggedSink (entered hb ff H o) with
      | none => simp [hf, startsIn] at hy
      | some z =>
        simp only [hf, List.drop_zero] at hy
        cases hr : inRun H with
        | false => simp [hr, startsIn] at hy
        | true =>
          simp only [hr, if_true, startsIn, List.filterMap_cons, List.filterMap_nil, List.mem_singleton] at hy
          subst hy
          exact ⟨rfl, by rw [hFo, hf]; simp⟩)
    (fun z => by
      rw [hQ z, hFo]
      cases hr : inRun H with
      | false => simp
      | true =>
        cases hf : flaggedSink (entered hb ff H o) with
        | none => simp [startsIn, pend_none]
        | some y =>
          rw [hf] at hnh
          simp only [if_true, List.drop_zero, startsIn, List.filterMap_cons, List.filterMap_nil, pend_none,
            Option.toList_some, Bool.true_and, Bool.and_true]
          by_cases hz : z = y
          · subst hz
            have : z ∉ F hb ff H := by
              intro hm
              exact (List.nodup_append.mp hnh).2.2 z hm z (by simp) rfl
            simp [this]
          · simp [hz]) x
  rw [this, hir]

/-- one operation (no exception, runs not nested, nobody registered twice) keeps every sink's start/stop sequence
legal and the running sinks = the registered sinks while a run is in progress -/
theorem op_alt (hb ff : Bool) (H : List Op) (o : Op) (seg : List Item) (res : Res) (H' : List Op) (L : List Item)
    (hop : opOk hb ff H o seg res = some H') (hexc : hasExc seg = false) (hn : (F hb ff H').Nodup)
    (hwf : (o = .start → inRun H = false) ∧ (o = .stop → inRun H = true)) (hQ : Q hb ff H L) :
    Q hb ff H' (L ++ seg)
      ∧ inRun H' = runAfter o (inRun H) := by
  cases o with
  | start =>
    simp only [opOk] at hop
    obtain ⟨h', hw, rfl⟩ := closes_noexc _ _ _ _ _ _ _ _ _ _ hop hexc
    have hr := hwf.1 rfl
    rw [hr] at hw
    rw [F_ctl hb ff h' .start (Or.inl rfl)] at hn
    refine ⟨fun x => ?_, by simp [inRun_snoc, runAfter]⟩
    have := walk_alt_start hb ff seg 0 H false L h' hw hn (Nat.zero_le _) (fun z => by simpa [hr] using hQ z) x
    simpa [inRun_snoc, F_ctl hb ff h' .start (Or.inl rfl)] using this
  | stop =>
    simp only [opOk] at hop
    obtain ⟨h', hw, rfl⟩ := closes_noexc _ _ _ _ _ _ _ _ _ _ hop hexc
    have hr := hwf.2 rfl
    rw [hr] at hw
    rw [F_ctl hb ff h' .stop (Or.inr rfl)] at hn
    refine ⟨fun x => ?_, by simp [inRun_snoc, runAfter]⟩
    have := walk_alt_stop hb ff seg 0 H none false L h' hw hn (Nat.zero_le _) (by simp)
      (fun z => by simpa [hr, pend_none] using hQ z) x
    simpa [inRun_snoc] using this
  | status e =>
    simp only [opOk] at hop
    cases hd : destination hb (regs H) e with
    | none =>
      simp only [hd] at hop
      split at hop
      · rename_i hc
        simp only [Bool.and_eq_true, List.isEmpty_iff] at hc
        simp only [Option.some.injEq] at hop
        subst hop
        exact ⟨by simpa [hc.1] using hQ, rfl⟩
      · simp at hop
    | some d =>
      obtain ⟨sink, e'⟩ := d
      simp only [hd] at hop
      obtain ⟨h', hw, rfl⟩ := closes_noexc _ _ _ _ _ _ _ _ _ _ hop hexc
      simp only [List.append_nil] at hn ⊢
      have hir := walk_inRun _ _ _ _ _ _ _ _ _ _ hw
      refine ⟨fun x => ?_, hir⟩
      have := walk_alt_fixed hb ff (inRun H) [(sink, .status e')] (by simp) (by simp) seg 0 H none false L h' hw hn
        (by simp) (by simp) (by simp) (by simp [startsIn])
        (fun z => by simpa [startsIn, pend_none] using hQ z) x
      rw [this, hir]
  | roundTrip codes e =>
    simp only [opOk] at hop
    split at hop
    · rename_i hc
      simp only [Bool.and_eq_true, List.isEmpty_iff] at hc
      simp only [Option.some.injEq] at hop
      subst hop
      exact ⟨by simpa [hc.1] using hQ, rfl⟩
    · simp at hop
  | addBad sink flag =>
    simp only [opOk, regOf] at hop
    split at hop
    · rename_i hc
      simp only [Bool.and_eq_true, List.isEmpty_iff] at hc
      simp only [Option.some.injEq] at hop
      subst hop
      exact ⟨by simpa [hc.1] using hQ, rfl⟩
    · simp at hop
  | addPrefix sink p consume flag =>
    cases hreg : regOf (.addPrefix sink p consume flag) with
    | none =>
      simp only [opOk, hreg] at hop
      split at hop
      · rename_i hc
        simp only [Bool.and_eq_true, List.isEmpty_iff] at hc
        simp only [Option.some.injEq] at hop
        subst hop
        exact ⟨by simpa [hc.1] using hQ, rfl⟩
      · simp at hop
    | some r => exact add_alt hb ff H _ seg res H' L r hreg (by simpa [opOk, hreg] using hop) hexc hn hQ
  | addId sink t flag =>
    have hreg : regOf (.addId sink t flag) = some (.tid sink t flag) := by simp [regOf]
    exact add_alt hb ff H _ seg res H' L _ hreg (by simpa [opOk, hreg] using hop) hexc hn hQ

theorem closes_prefix (hb ff ρ : Bool) (m : Mode) (i : Nat) (h : List Op) (seg : List Item) (res : Res) (comp H' : List Op)
    (hc : closes res (walk hb ff ρ m i h none false seg) comp = some H') : ∃ X, H' = h ++ X := by
  cases hw : walk hb ff ρ m i h none false seg with
  | none => simp [closes, hw] at hc
  | some p =>
    obtain ⟨e, h'⟩ := p
    obtain ⟨X, hX⟩ := walk_prefix _ _ _ _ _ _ _ _ _ _ _ hw
    cases e with
    | some x =>
      simp only [closes, hw] at hc
      split at hc
      · simp only [Option.some.injEq] at hc; exact ⟨X, by rw [← hc, hX]⟩
      · simp at hc
    | none =>
      simp only [closes, hw] at hc
      split at hc
      · simp only [Option.some.injEq] at hc; exact ⟨X ++ comp, by rw [← hc, hX, List.append_assoc]⟩
      · simp at hc

theorem opOk_prefix (hb ff : Bool) (H : List Op) (o : Op) (seg : List Item) (res : Res) (H' : List Op)
    (hop : opOk hb ff H o seg res = some H') : ∃ X, H' = H ++ X := by
  have hsame : ∀ {c : Bool}, (if c then some H else none) = some H' → ∃ X, H' = H ++ X := by
    intro c hh; split at hh
    · simp only [Option.some.injEq] at hh; exact ⟨[], by simp [hh]⟩
    · simp at hh
  cases o with
  | start => exact closes_prefix _ _ _ _ _ _ _ _ _ _ (by simpa [opOk] using hop)
  | stop => exact closes_prefix _ _ _ _ _ _ _ _ _ _ (by simpa [opOk] using hop)
  | status e =>
    simp only [opOk] at hop
    cases hd : destination hb (regs H) e with
    | none => simp only [hd] at hop; exact hsame hop
    | some d => obtain ⟨sink, e'⟩ := d; simp only [hd] at hop; exact closes_prefix _ _ _ _ _ _ _ _ _ _ hop
  | roundTrip codes e => simp only [opOk] at hop; exact hsame hop
  | addBad sink flag => simp only [opOk, regOf] at hop; exact hsame hop
  | addPrefix sink p consume flag =>
    simp only [opOk] at hop
    cases hreg : regOf (.addPrefix sink p consume flag) with
    | none => simp only [hreg] at hop; exact hsame hop
    | some r =>
      simp only [hreg, addOk] at hop
      obtain ⟨X, hX⟩ := closes_prefix _ _ _ _ _ _ _ _ _ _ hop
      exact ⟨entered hb ff H (.addPrefix sink p consume flag) :: X, by rw [hX]; simp⟩
  | addId sink t flag =>
    simp only [opOk, regOf, addOk] at hop
    obtain ⟨X, hX⟩ := closes_prefix _ _ _ _ _ _ _ _ _ _ hop
    exact ⟨entered hb ff H (.addId sink t flag) :: X, by rw [hX]; simp⟩

theorem finalHist_prefix (hb ff : Bool) : ∀ (os : List Op) (H : List Op) (segs : List (List Item)) (rs : List Res) (Hf : List Op),
    finalHist hb ff H os segs rs = some Hf → ∃ X, Hf = H ++ X
  | [], H, segs, rs, Hf, h => by
      cases segs <;> cases rs <;> simp [finalHist] at h
      exact ⟨[], by simp [h]⟩
  | o :: os, H, segs, rs, Hf, h => by
      cases segs with
      | nil => simp [finalHist] at h
      | cons seg segs =>
        cases rs with
        | nil => simp [finalHist] at h
        | cons r rs =>
          simp only [finalHist] at h
          cases hop : opOk hb ff H o seg r with
          | none => simp [hop] at h
          | some H' =>
            simp only [hop] at h
            obtain ⟨X, hX⟩ := opOk_prefix hb ff H o seg r H' hop
            obtain ⟨Y, hY⟩ := finalHist_prefix hb ff os H' segs rs Hf h
            exact ⟨X ++ Y, by rw [hY, hX, List.append_assoc]⟩

/-! ### a sink object is registered for start/stop at most once -/
theorem F_entered_nodup (hb ff : Bool) (h : List Op) (o : Op) (hn : (F hb ff h).Nodup) :
    (F hb ff (h ++ effAdd (entered hb ff h o))).Nodup := by
  cases hf : flaggedSink o with
  | none => rw [entered_of_none hb ff h o hf, F_effAdd, hf]; simpa using hn
  | some y =>
    cases hc : (flagged hb ff (regs h)).contains y with
    | true => rw [entered_of_mem hb ff h o y hf hc, F_effAdd, flaggedSink_clearFlag]; simpa using hn
    | false =>
      rw [entered_of_not_mem hb ff h o y hf hc, F_effAdd, hf]
      have hnm : y ∉ F hb ff h := by
        intro hm
        have : (flagged hb ff (regs h)).contains y = true := by simpa using hm
        rw [hc] at this; exact Bool.noConfusion this
      simp only [Option.toList_some]
      exact List.nodup_append.mpr ⟨hn, by simp, fun a ha b hb => by
        simp only [List.mem_singleton] at hb; subst hb; intro hab; subst hab; exact hnm ha⟩

theorem walk_nodup (hb ff ρ : Bool) (m : Mode) : ∀ (seg : List Item) (i : Nat) (h : List Op) (pend : Option Nat) (st : Bool)
    (e : Option String) (h' : List Op), walk hb ff ρ m i h pend st seg = some (e, h') → (F hb ff h).Nodup →
    (F hb ff h').Nodup := by
  intro seg
  induction seg with
  | nil =>
    intro i h pend st e h' hw hn
    cases pend with
    | some y => simp [walk] at hw
    | none =>
      simp only [walk] at hw
      split at hw
      · simp only [Option.some.injEq, Prod.mk.injEq] at hw; rw [← hw.2]; exact hn
      · simp at hw
  | cons it seg ih =>
    intro i h pend st e h' hw hn
    cases pend with
    | some y =>
      cases it with
      | del x ev n =>
        cases ev <;> cases n <;> simp only [walk] at hw <;> try (simp at hw)
        exact ih _ _ _ _ _ _ hw.2 hn
      | radd o => simp [walk] at hw
      | exc x => simp [walk] at hw
    | none =>
      cases it with
      | del x ev n =>
        cases n with
        | true => simp [walk] at hw
        | false =>
          simp only [walk] at hw
          split at hw
          · exact ih _ _ _ _ _ _ hw hn
          · simp at hw
      | radd o =>
        simp only [walk] at hw
        split at hw
        · exact ih _ _ _ _ _ _ hw (F_entered_nodup hb ff h o hn)
        · simp at hw
      | exc x =>
        cases seg with
        | nil =>
          simp only [walk] at hw
          split at hw
          · simp only [Option.some.injEq, Prod.mk.injEq] at hw; rw [← hw.2]; exact hn
          · simp at hw
        | cons a b => simp [walk] at hw

theorem closes_nodup (hb ff ρ : Bool) (m : Mode) (i : Nat) (h : List Op) (seg : List Item) (res : Res) (comp H' : List Op)
    (hcomp : comp = [] ∨ comp = [.start] ∨ comp = [.stop])
    (hc : closes res (walk hb ff ρ m i h none false seg) comp = some H') (hn : (F hb ff h).Nodup) : (F hb ff H').Nodup := by
  cases hw : walk hb ff ρ m i h none false seg with
  | none => simp [closes, hw] at hc
  | some p =>
    obtain ⟨e, h'⟩ := p
    have hn' := walk_nodup _ _ _ _ _ _ _ _ _ _ _ hw hn
    cases e with
    | some x =>
      simp only [closes, hw] at hc
      split at hc
      · simp only [Option.some.injEq] at hc; rw [← hc]; exact hn'
      · simp at hc
    | none =>
      simp only [closes, hw] at hc
      split at hc
      · simp only [Option.some.injEq] at hc
        rw [← hc]
        rcases hcomp with rfl | rfl | rfl
        · simpa using hn'
        · rw [F_ctl hb ff h' .start (Or.inl rfl)]; exact hn'
        · rw [F_ctl hb ff h' .stop (Or.inr rfl)]; exact hn'
      · simp at hc

theorem opOk_nodup (hb ff : Bool) (H : List Op) (o : Op) (seg : List Item) (res : Res) (H' : List Op)
    (hop : opOk hb ff H o seg res = some H') (hn : (F hb ff H).Nodup) : (F hb ff H').Nodup := by
  have hsame : ∀ {c : Bool}, (if c then some H else none) = some H' → (F hb ff H').Nodup := by
    intro c hc; split at hc
    · simp only [Option.some.injEq] at hc; rw [← hc]; exact hn
    · simp at hc
  have hadd : ∀ o', (regOf o').isSome = true → addOk hb ff H o' seg res = some H' → (F hb ff H').Nodup := by
    intro o' hs ha
    simp only [addOk] at ha
    have hs' : (regOf (entered hb ff H o')).isSome = true := by rw [regOf_entered_isSome]; exact hs
    obtain ⟨r', hr'⟩ := Option.isSome_iff_exists.mp hs'
    have heff : effAdd (entered hb ff H o') = [entered hb ff H o'] := by simp [effAdd, hr']
    have hn1 := F_entered_nodup hb ff H o' hn
    rw [heff] at hn1
    exact closes_nodup _ _ _ _ _ _ _ _ _ _ (Or.inl rfl) ha hn1
  cases o with
  | start => exact closes_nodup _ _ _ _ _ _ _ _ _ _ (Or.inr (Or.inl rfl)) (by simpa [opOk] using hop) hn
  | stop => exact closes_nodup _ _ _ _ _ _ _ _ _ _ (Or.inr (Or.inr rfl)) (by simpa [opOk] using hop) hn
  | status e =>
    simp only [opOk] at hop
    cases hd : destination hb (regs H) e with
    | none => simp only [hd] at hop; exact hsame hop
    | some d => obtain ⟨sink, e'⟩ := d; simp only [hd] at hop; exact closes_nodup _ _ _ _ _ _ _ _ _ _ (Or.inl rfl) hop hn
  | roundTrip codes e => simp only [opOk] at hop; exact hsame hop
  | addBad sink flag => simp only [opOk, regOf] at hop; exact hsame hop
  | addPrefix sink p consume flag =>
    simp only [opOk] at hop
    cases hreg : regOf (.addPrefix sink p consume flag) with
    | none => simp only [hreg] at hop; exact hsame hop
    | some r => simp only [hreg] at hop; exact hadd _ (by simp [hreg]) hop
  | addId sink t flag =>
    simp only [opOk, regOf] at hop
    exact hadd _ (by simp [regOf]) hop

theorem finalHist_nodup (hb ff : Bool) : ∀ (os : List Op) (H : List Op) (segs : List (List Item)) (rs : List Res) (Hf : List Op),
    finalHist hb ff H os segs rs = some Hf → (F hb ff H).Nodup → (F hb ff Hf).Nodup
  | [], H, segs, rs, Hf, h, hn => by
      cases segs <;> cases rs <;> simp [finalHist] at h
      rw [← h]; exact hn
  | o :: os, H, segs, rs, Hf, h, hn => by
      cases segs with
      | nil => simp [finalHist] at h
      | cons seg segs =>
        cases rs with
        | nil => simp [finalHist] at h
        | cons r rs =>
          simp only [finalHist] at h
          cases hop : opOk hb ff H o seg r with
          | none => simp [hop] at h
          | some H' =>
            simp only [hop] at h
            exact finalHist_nodup hb ff os H' segs rs Hf h (opOk_nodup hb ff H o seg r H' hop hn)

theorem hist_alt (hb ff : Bool) : ∀ (os : List Op) (H : List Op) (segs : List (List Item)) (rs : List Res) (L : List Item)
    (Hf : List Op), finalHist hb ff H os segs rs = some Hf → segs.any hasExc = false →
    runsWellFormed (inRun H) os = true → (F hb ff Hf).Nodup → Q hb ff H L → Q hb ff Hf (L ++ segs.flatten)
  | [], H, segs, rs, L, Hf, h, _, _, _, hQ => by
      cases segs <;> cases rs <;> simp [finalHist] at h
      subst h; simpa using hQ
  | o :: os, H, segs, rs, L, Hf, h, hexc, hwf, hn, hQ => by
      cases segs with
      | nil => simp [finalHist] at h
      | cons seg segs =>
        cases rs with
        | nil => simp [finalHist] at h
        | cons r rs =>
          simp only [finalHist] at h
          cases hop : opOk hb ff H o seg r with
          | none => simp [hop] at h
          | some H' =>
            simp only [hop] at h
            simp only [List.any_cons, Bool.or_eq_false_iff] at hexc
            obtain ⟨Y, hY⟩ := finalHist_prefix hb ff os H' segs rs Hf h
            have hn' : (F hb ff H').Nodup := by
              rw [hY, F_append] at hn; exact (List.nodup_append.mp hn).1
            have hwfo : (o = .start → inRun H = false) ∧ (o = .stop → inRun H = true) := by
              constructor
              · intro ho; subst ho
                simp only [runsWellFormed, Bool.and_eq_true, Bool.not_eq_true'] at hwf; exact hwf.1
              · intro ho; subst ho
                simp only [runsWellFormed, Bool.and_eq_true] at hwf; exact hwf.1
            obtain ⟨hQ', hrun⟩ := op_alt hb ff H o seg r H' L hop hexc.1 hn' hwfo hQ
            have hwf' : runsWellFormed (inRun H') os = true := by
              rw [hrun]
              cases o <;> simp_all [runsWellFormed, runAfter]
            have := hist_alt hb ff os H' segs rs (L ++ seg) Hf h hexc.2 hwf' hn hQ'
            simpa [List.append_assoc] using this

/-- **C18 (alternation)**: in *any* observed history that passes the reading of the property (`historyOk`) and in
which no sink raises and runs do not nest - whatever the rule set: one sink object may serve several rules and be the
fallback as well, it is registered for start/stop once (`finalHist_nodup`) -, every sink object sees
`startTestRun` and `stopTestRun` strictly alternating, beginning with a start — so at most one start per run, never a
second start without a stop in between (also for a sink registered re-entrantly while the start dispatch is under
way), never a stop without a start; and at the end of every operation the running sinks are exactly the registered
ones if a run is in progress, none otherwise. -/
theorem C18_alternate (i : Input) (t : Trace) : cAlternate i t = true := by
  simp only [cAlternate, Bool.or_eq_true, Bool.not_eq_true']
  by_cases hc : clean i t = true
  · right
    simp only [clean, Bool.and_eq_true, Bool.not_eq_true'] at hc
    obtain ⟨⟨hexc, hwf⟩, hfin⟩ := hc
    cases hf : finalHist i.hasFallback i.fbFlag [] i.ops t.segments t.results with
    | none => simp [hf] at hfin
    | some Hf =>
      have hn0 : (F i.hasFallback i.fbFlag []).Nodup := by
        simp only [F, flagged, regs, List.filterMap_nil, List.append_nil]
        split <;> simp
      have hfin' := finalHist_nodup i.hasFallback i.fbFlag i.ops [] t.segments t.results Hf hf hn0
      have hQ0 : Q i.hasFallback i.fbFlag [] [] := by
        intro x; simp [stOf, ctlOf, auto, inRun]
      have := hist_alt i.hasFallback i.fbFlag i.ops [] t.segments t.results [] Hf hf hexc (by simpa [inRun] using hwf) hfin' hQ0
      simp only [List.all_eq_true]
      intro x _
      rw [alternates_iff]
      have hx := this x
      simp only [List.nil_append, stOf] at hx
      simp [hx]
  · left; simpa using hc

/-! ## headline -/
theorem holds_model (i : Input) : holds i (model i) = true := by
  simp only [holds, clauses, List.all_cons, List.all_nil, Bool.and_true, Bool.and_eq_true]
  exact ⟨C18_history i, C18_alternate i (model i)⟩

/-! ## readable statements: the routing decision -/
/-- **C18 (precedence)**: the rule of the first segment of the route code if there is one … -/
theorem C18_route_rule_first (hb : Bool) (rs : List Reg) (e : Event) (rc : Str) (sink : Nat) (consume : Bool)
    (hr : e.route = some rc) (hp : prefixRule rs (segments rc).1 = some (sink, consume)) :
    destination hb rs e = some (sink, if consume then { e with route := (segments rc).2 } else e) := by
  simp [destination, hr, hp]
/-- … otherwise the rule of its test id … -/
theorem C18_id_rule_second (hb : Bool) (rs : List Reg) (e : Event) (sink : Nat)
    (hr : ∀ rc, e.route = some rc → prefixRule rs (segments rc).1 = none) (hi : idRule rs e.testId = some sink) :
    destination hb rs e = some (sink, e) := by
  cases hrt : e.route with
  | none => simp [destination, hrt, hi]
  | some rc => simp [destination, hrt, hr rc hrt, hi]
/-- … otherwise the fallback, and without one there is no destination. -/
theorem C18_fallback_last (hb : Bool) (rs : List Reg) (e : Event)
    (hr : ∀ rc, e.route = some rc → prefixRule rs (segments rc).1 = none) (hi : idRule rs e.testId = none) :
    destination hb rs e = if hb then some (0, e) else none := by
  cases hrt : e.route with
  | none => simp [destination, hrt, hi]
  | some rc => simp [destination, hrt, hr rc hrt, hi]

/-- every field but `route_code` is forwarded unchanged; the route code changes only under a consuming rule -/
theorem C18_fields_unchanged (hb : Bool) (rs : List Reg) (e e' : Event) (sink : Nat)
    (h : destination hb rs e = some (sink, e')) : e' = { e with route := e'.route } := by
  simp only [destination] at h
  split at h
  · rename_i sink' consume rest _
    simp only [Option.some.injEq, Prod.mk.injEq] at h
    obtain ⟨_, rfl⟩ := h
    cases consume <;> simp
  · split at h
    · simp only [Option.some.injEq, Prod.mk.injEq] at h; obtain ⟨_, rfl⟩ := h; rfl
    · split at h
      · simp only [Option.some.injEq, Prod.mk.injEq] at h; obtain ⟨_, rfl⟩ := h; rfl
      · simp at h

/-- `segments` really is "first segment, then the rest": a route code with a `/` is `first ++ "/" ++ rest` -/
theorem C18_segments (rc : Str) :
    '/' ∉ (segments rc).1 ∧
    (rc = (segments rc).1 ∨ rc = (segments rc).1 ++ ['/'] ∨ ∃ rest, (segments rc).2 = some rest ∧ rest ≠ [] ∧ rc = (segments rc).1 ++ '/' :: rest) := by
  induction rc with
  | nil => simp [segments]
  | cons c cs ih =>
    by_cases h : c = '/'
    · subst h
      cases cs with
      | nil => simp [segments]
      | cons d ds => simp [segments]
    · obtain ⟨ih1, ih2⟩ := ih
      have hc : ¬ '/' = c := fun hh => h hh.symm
      refine ⟨by simp [segments, h, hc, ih1], ?_⟩
      simp only [segments, h, if_false, List.cons_append, List.cons.injEq, true_and]
      exact ih2


/-! ## readable statements: the dispatch of startTestRun / stopTestRun -/
/-- the calls the router itself makes (not those made from inside a sink's method) -/
def topCalls : List Item → List (Nat × SinkEv)
  | [] => []
  | .del x ev false :: r => (x, ev) :: topCalls r
  | _ :: r => topCalls r

/-- the calls made from inside a sink's method (immediate starts of re-entrantly added rules) -/
def nestedCalls : List Item → List (Nat × SinkEv)
  | [] => []
  | .del x ev true :: r => (x, ev) :: nestedCalls r
  | _ :: r => nestedCalls r

theorem F_getElem_prefix (hb ff : Bool) (h X : List Op) (i : Nat) (x : Nat) (hx : (F hb ff h)[i]? = some x) :
    (F hb ff (h ++ X))[i]? = some x := by
  rw [F_append, List.getElem?_append_left (List.getElem?_eq_some_iff.mp hx).1]; exact hx

/-- a dispatch walked through: the router called exactly the sinks registered at the end, from position `i` on,
in order, each once — up to the one that raised, if one did -/
theorem walk_tops (hb ff ρ : Bool) (ev : SinkEv) : ∀ (seg : List Item) (i : Nat) (h : List Op) (pend : Option Nat) (st : Bool)
    (e : Option String) (h' : List Op), walk hb ff ρ (.ctl ev) i h pend st seg = some (e, h') → i ≤ (F hb ff h).length →
    ∃ k, topCalls seg = (((F hb ff h').drop i).take k).map (·, ev) ∧ (e = none → i + k = (F hb ff h').length)
      ∧ i + k ≤ (F hb ff h').length := by
  intro seg
  induction seg with
  | nil =>
    intro i h pend st e h' hw hi
    cases pend with
    | some y => simp [walk] at hw
    | none =>
      simp only [walk] at hw
      split at hw
      · rename_i hd
        simp only [Option.some.injEq, Prod.mk.injEq] at hw
        obtain ⟨rfl, rfl⟩ := hw
        simp only [allDone, beq_iff_eq] at hd
        exact ⟨0, by simp [topCalls], fun _ => by simpa using hd, by simpa using hi⟩
      · simp at hw
  | cons it seg ih =>
    intro i h pend st e h' hw hi
    cases pend with
    | some y =>
      obtain ⟨r, hs, hw'⟩ := walk_inv_some _ _ _ _ _ _ _ _ _ _ _ hw
      obtain ⟨rfl, rfl⟩ := List.cons.inj hs
      obtain ⟨k, h1, h2, h3⟩ := ih _ _ _ _ _ _ hw' hi
      exact ⟨k, by simpa [topCalls] using h1, h2, h3⟩
    | none =>
      cases it with
      | exc x =>
        cases seg with
        | nil =>
          simp only [walk] at hw
          split at hw
          · simp only [Option.some.injEq, Prod.mk.injEq] at hw
            obtain ⟨rfl, rfl⟩ := hw
            exact ⟨0, by simp [topCalls], by simp, by simpa using hi⟩
          · simp at hw
        | cons a b => simp [walk] at hw
      | radd o =>
        simp only [walk] at hw
        split at hw
        · obtain ⟨k, h1, h2, h3⟩ := ih _ _ _ _ _ _ hw (by rw [F_effAdd]; simp only [List.length_append]; omega)
          exact ⟨k, by simpa [topCalls] using h1, h2, h3⟩
        · simp at hw
      | del x ev' n =>
        cases n with
        | true => simp [walk] at hw
        | false =>
          simp only [walk] at hw
          split at hw
          · rename_i hn
            simp only [nextTop, Option.map_eq_some_iff, Prod.mk.injEq] at hn
            obtain ⟨x', hx, rfl, rfl⟩ := hn
            obtain ⟨X, hX⟩ := walk_prefix _ _ _ _ _ _ _ _ _ _ _ hw
            have hx' := F_getElem_prefix hb ff h X i x' hx
            rw [← hX] at hx'
            obtain ⟨k, h1, h2, h3⟩ := ih _ _ _ _ _ _ hw (List.getElem?_eq_some_iff.mp hx).1
            obtain ⟨hlt, hxe⟩ := List.getElem?_eq_some_iff.mp hx'
            refine ⟨k + 1, ?_, fun he => by have := h2 he; omega, by omega⟩
            simp only [topCalls, h1]
            rw [List.drop_eq_getElem_cons hlt, List.take_succ_cons, List.map_cons, hxe]
          · simp at hw

/-- with no run in progress nothing is started from inside a sink's method -/
theorem walk_no_nested (hb ff : Bool) (m : Mode) : ∀ (seg : List Item) (i : Nat) (h : List Op) (st : Bool)
    (e : Option String) (h' : List Op), walk hb ff false m i h none st seg = some (e, h') → nestedCalls seg = [] := by
  intro seg
  induction seg with
  | nil => intros; rfl
  | cons it seg ih =>
    intro i h st e h' hw
    cases it with
    | exc x => cases seg with
      | nil => rfl
      | cons a b => simp [walk] at hw
    | radd o =>
      simp only [walk] at hw
      split at hw
      · simpa [nestedCalls] using ih _ _ _ _ _ hw
      · simp at hw
    | del x ev n =>
      cases n with
      | true => simp [walk] at hw
      | false =>
        simp only [walk] at hw
        split at hw
        · simpa [nestedCalls] using ih _ _ _ _ _ hw
        · simp at hw

theorem dispatch_aux (hb ff : Bool) (H : List Op) (s : State) (hI : Inv hb ff H s) (o : Op) (ev : SinkEv)
    (hoc : o = .start ∨ o = .stop)
    (hdef : ∀ seg res, opOk hb ff H o seg res = closes res (walk hb ff (inRun H) (.ctl ev) 0 H none false seg) [o]) :
    ((step s o).2.2 = .ok →
        topCalls (step s o).2.1 = (step s o).1.sinks.map (·, ev) ∧ (step s o).1.inRun = (decide (o = .start)))
    ∧ (∀ x, (step s o).2.2 = .raised x →
        (∃ k, topCalls (step s o).2.1 = ((step s o).1.sinks.take k).map (·, ev)) ∧ (step s o).1.inRun = s.inRun)
    ∧ (s.inRun = false → nestedCalls (step s o).2.1 = []) := by
  obtain ⟨H', hop, hI'⟩ := step_ok hb ff H s hI o
  have hsinks := hI'.sinks
  rw [hdef] at hop
  cases hw : walk hb ff (inRun H) (.ctl ev) 0 H none false (step s o).2.1 with
  | none => simp [closes, hw] at hop
  | some p =>
    obtain ⟨e, h'⟩ := p
    obtain ⟨k, h1, h2, h3⟩ := walk_tops _ _ _ _ _ _ _ _ _ _ _ hw (Nat.zero_le _)
    simp only [List.drop_zero, Nat.zero_add] at h1 h2 h3
    have hnn : s.inRun = false → nestedCalls (step s o).2.1 = [] := by
      intro hr; rw [← hI.inRun, hr] at hw; exact walk_no_nested _ _ _ _ _ _ _ _ _ hw
    cases e with
    | none =>
      simp only [closes, hw] at hop
      split at hop
      · rename_i hres
        simp only [Option.some.injEq] at hop
        subst hop
        simp only [beq_iff_eq] at hres
        have hF : F hb ff (h' ++ [o]) = F hb ff h' := F_ctl hb ff h' o hoc
        refine ⟨fun _ => ⟨?_, ?_⟩, fun x hx => by simp [hres] at hx, hnn⟩
        · rw [h1, hsinks]
          show _ = (F hb ff (h' ++ [o])).map _
          rw [hF, List.take_of_length_le (by have := h2 rfl; omega)]
        · rw [hI'.inRun]
          rcases hoc with rfl | rfl <;> simp [inRun_snoc]
      · simp at hop
    | some x =>
      simp only [closes, hw] at hop
      split at hop
      · rename_i hres
        simp only [Option.some.injEq] at hop
        subst hop
        simp only [beq_iff_eq] at hres
        refine ⟨fun hok => by simp [hres] at hok, fun y _ => ⟨⟨k, by rw [h1, hsinks]⟩, ?_⟩, hnn⟩
        rw [hI'.inRun, hI.inRun]
        exact walk_inRun_any _ _ _ _ _ _ _ _ _ _ _ hw
      · simp at hop

/-- **C18 (start/stop dispatch, exactly once)**: in every reachable state, `startTestRun` (`stopTestRun`) of the router
calls — itself, i.e. not counting calls made from inside a sink's method — exactly the sinks that are registered for
start/stop when it returns, in registration order, each **once**: the sinks registered before the call and the sinks
registered re-entrantly while the dispatch is under way alike; only then is the run marked in progress (finished).
If a sink raises, the dispatch ends there: the sinks called are a prefix (up to and including the raiser) of the
registered ones, the later ones are **not** called, the exception reaches the driver, and the router's notion of
"run in progress" is unchanged. -/
theorem C18_dispatch_exactly_once (hb ff : Bool) (H : List Op) (s : State) (hI : Inv hb ff H s) :
    (((step s .start).2.2 = .ok →
        topCalls (step s .start).2.1 = (step s .start).1.sinks.map (·, .start) ∧ (step s .start).1.inRun = true)
      ∧ (∀ x, (step s .start).2.2 = .raised x →
          (∃ k, topCalls (step s .start).2.1 = ((step s .start).1.sinks.take k).map (·, .start))
            ∧ (step s .start).1.inRun = s.inRun)
      ∧ (s.inRun = false → nestedCalls (step s .start).2.1 = []))
    ∧ (((step s .stop).2.2 = .ok →
        topCalls (step s .stop).2.1 = (step s .stop).1.sinks.map (·, .stop) ∧ (step s .stop).1.inRun = false)
      ∧ (∀ x, (step s .stop).2.2 = .raised x →
          (∃ k, topCalls (step s .stop).2.1 = ((step s .stop).1.sinks.take k).map (·, .stop))
            ∧ (step s .stop).1.inRun = s.inRun)) := by
  have h1 := dispatch_aux hb ff H s hI .start .start (Or.inl rfl) (fun _ _ => rfl)
  have h2 := dispatch_aux hb ff H s hI .stop .stop (Or.inr rfl) (fun _ _ => rfl)
  refine ⟨⟨fun hk => by simpa using h1.1 hk, h1.2.1, h1.2.2⟩, fun hk => by simpa using h2.1 hk, h2.2.1⟩

/-- sinks already registered keep their place: the dispatch list only grows at the end -/
theorem C18_sinks_grow (hb ff : Bool) (H : List Op) (s : State) (hI : Inv hb ff H s) (o : Op) :
    ∃ X, (step s o).1.sinks = s.sinks ++ X := by
  obtain ⟨H', hop, hI'⟩ := step_ok hb ff H s hI o
  obtain ⟨X, hX⟩ := opOk_prefix hb ff H o _ _ H' hop
  exact ⟨X.filterMap flaggedSink, by rw [hI'.sinks, hI.sinks, hX]; exact F_append hb ff H X⟩

/-- **a sink object is registered for start/stop at most once**: from the constructor on (`init`: the fallback, if it is
registered) every operation - whatever rules it adds, by the driver or re-entrantly, for new sinks, for sinks that serve
another rule already, for the fallback - leaves `_sinks` free of duplicates; with `C18_dispatch_exactly_once` (one call
per entry of `_sinks`): one `startTestRun` and one `stopTestRun` per sink OBJECT and run -/
theorem C18_registered_once (hb ff : Bool) (H : List Op) (s : State) (hI : Inv hb ff H s) (hn : s.sinks.Nodup) (o : Op) :
    (step s o).1.sinks.Nodup := by
  obtain ⟨H', hop, hI'⟩ := step_ok hb ff H s hI o
  rw [hI'.sinks]
  exact opOk_nodup hb ff H o _ _ H' hop (by show (flagged hb ff (regs H)).Nodup; rw [← hI.sinks]; exact hn)

theorem C18_registered_once_init (hb ff : Bool) : (init hb ff).sinks.Nodup := by
  cases hb <;> cases ff <;> simp [init]

/-! ## non-vacuity -/
private def ev1 (tid : Option Nat) (rc : Option String) : Event :=
  { testId := tid, status := some .success, tags := none, runnable := true, fileName := none, fileBytes := none,
    eof := false, mime := none, route := rc.map String.toList, timestamp := none }

/-- the seeded shape: the fallback registers a worker (with the flag) from inside its own `startTestRun`; the worker is
reached by the same dispatch — once — and stopped once; a second lazy registration at `stopTestRun` (run in progress) is
started at once and then stopped by the same dispatch -/
example : (model { hasFallback := true, fbFlag := true
                   ops := [.start, .status (ev1 (some 0) (some "w/a")), .stop]
                   scripts := [{ sink := 0, kind := .start, entries := [[.add (.addPrefix 1 ['w'] true true)]] },
                               { sink := 1, kind := .stop, entries := [[.add (.addId 2 (some 0) true)]] }] }).segments =
    [ [.del 0 .start false, .radd (.addPrefix 1 ['w'] true true), .del 1 .start false],
      [.del 1 (.status (ev1 (some 0) (some "a"))) false],
      [.del 0 .stop false, .del 1 .stop false, .radd (.addId 2 (some 0) true), .del 2 .start true, .del 2 .stop false] ] := by
  decide
/-- a raising sink: the dispatch ends there, the later sink is not started, no run is in progress afterwards (the
rule added next is not started), and `stopTestRun` then reaches sinks that were never started -/
example : (model { hasFallback := true, fbFlag := true
                   ops := [.addId 1 none true, .start, .addId 2 (some 0) true, .stop]
                   scripts := [{ sink := 0, kind := .start, entries := [[.raise]] }] }) =
    { segments := [[], [.del 0 .start false, .exc "Fault"], [], [.del 0 .stop false, .del 1 .stop false, .del 2 .stop false]]
      results := [.ok, .raised "Fault", .ok, .ok] } := by decide
/-- the spec is sharp: a second start of the re-entrantly registered worker inside the same dispatch is rejected -/
example : cHistory { hasFallback := true, fbFlag := true, ops := [.start]
                     scripts := [{ sink := 0, kind := .start, entries := [[.add (.addId 1 none true)]] }] }
    { segments := [[.del 0 .start false, .radd (.addId 1 none true), .del 1 .start true, .del 1 .start false]]
      results := [.ok] } = false := by decide
example : popAll [['a', 'b'], ['0']] { ev1 none none with route := pushAll [['0'], ['a', 'b']] (some ['r', '/', 's']) }
    = some { ev1 none none with route := some ['r', '/', 's'] } := by decide
example : route (single ['0']) { ev1 none none with route := Deco.prefixRoute ['0'] (some []) }
    = some (0, ev1 none none) := by decide

/-! ## ties to the source (`harness/pystream.py` → `TTV/Generated/RouterSrc.lean`, regenerated on every run) -/
/-- **the routing decision is the code's**: the model's `route` is the interpretation of the two terms that symbolic
execution of `StreamResultRouter.status` yields — who gets the event (rule of the first route segment, else rule of the
test id, else the fallback, else nobody: the call raises) and which `route_code` it is forwarded with (the first segment
stripped under a consuming rule, `None` when nothing remains, untouched otherwise) -/
theorem C18_src_status (s : State) (e : Event) :
    RouterSrc.statusInterp s e Generated.RouterSrc.statusTarget Generated.RouterSrc.statusRoute = route s e := by
  have h1 : Generated.RouterSrc.statusTarget = RouterSrc.refStatusTarget := by decide
  have h2 : Generated.RouterSrc.statusRoute = RouterSrc.refStatusRoute := by decide
  rw [h1, h2]; exact RouterSrc.statusInterp_ref s e

/-- **`startTestRun` / `stopTestRun` are the code's**: `super()` call, the loop over the live `_sinks` list calling exactly
that method, and only then the assignment of `_in_run` — in this order -/
theorem C18_src_start_stop (s : State) :
    step s .start = ((RouterSrc.ctlInterp s Generated.RouterSrc.startTestRun).1, (RouterSrc.ctlInterp s Generated.RouterSrc.startTestRun).2.1,
        resOf (RouterSrc.ctlInterp s Generated.RouterSrc.startTestRun).2.2)
    ∧ step s .stop = ((RouterSrc.ctlInterp s Generated.RouterSrc.stopTestRun).1, (RouterSrc.ctlInterp s Generated.RouterSrc.stopTestRun).2.1,
        resOf (RouterSrc.ctlInterp s Generated.RouterSrc.stopTestRun).2.2) := by
  have h1 : Generated.RouterSrc.startTestRun = RouterSrc.refStart := by decide
  have h2 : Generated.RouterSrc.stopTestRun = RouterSrc.refStop := by decide
  rw [h1, h2]; exact ⟨RouterSrc.ctlInterp_refStart s, RouterSrc.ctlInterp_refStop s⟩

/-- **`add_rule` is the code's**: policy looked up in the registered table (`ValueError` for an unknown one), the policy
method applied (`TypeError` for a prefix with a `/`, before anything is stored), then — only under
`do_start_stop_run` — the sink appended to `_sinks` and — only if `_in_run` — started at once -/
theorem C18_src_add_rule (s : State) (o : Op) (h : RouterSrc.isAdd o = true) :
    regStep s o =
      ((RouterSrc.aInterp Generated.RouterSrc.policies o Generated.RouterSrc.addRule { s := s }).s,
       (RouterSrc.aInterp Generated.RouterSrc.policies o Generated.RouterSrc.addRule { s := s }).started,
       resOf (RouterSrc.aInterp Generated.RouterSrc.policies o Generated.RouterSrc.addRule { s := s }).err) := by
  have h1 : Generated.RouterSrc.addRule = RouterSrc.refAddRule := by decide
  have h2 : Generated.RouterSrc.policies = RouterSrc.refPolicies := by decide
  rw [h1, h2]; exact RouterSrc.aInterp_ref s o h

/-- **`__init__` is the code's**: the router starts without rules, not in a run, and with the fallback registered for
start/stop iff there is one (`is not None` - whatever the truth value of the sink object) and `do_start_stop_run`: the
model's `init` -/
theorem C18_src_init (hb ff : Bool) :
    RouterSrc.iInterp hb ff Generated.RouterSrc.init (none, none, none, none, none) = some (init hb ff) := by
  have h : Generated.RouterSrc.init = RouterSrc.refInit := by decide
  rw [h]
  cases hb <;> cases ff <;> rfl

end TTV.Props.C18
