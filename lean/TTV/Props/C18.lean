import TTV.Model.StreamRouter
import TTV.Spec.C18
namespace TTV.Props.C18
end TTV.Props.C18
