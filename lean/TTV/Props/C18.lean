import TTV.Model.StreamRouter
import TTV.Spec.C18
/-! # C18 — routing picks exactly one destination; route prefixes push and pop inversely

All statements are for **every** history of operations (any number and order of rules, re-registrations,
start/stop calls) and every event. -/
namespace TTV.Props.C18
open TTV.Stream TTV.Stream.Router TTV.Spec.C18

/-! ## dictionaries -/
theorem dictGet_set {κ α : Type} [DecidableEq κ] (d : List (κ × α)) (k k' : κ) (v : α) :
    dictGet (dictSet d k v) k' = if k = k' then some v else dictGet d k' := by
  induction d with
  | nil => simp [dictSet, dictGet]
  | cons p d ih =>
    obtain ⟨k2, v2⟩ := p
    simp only [dictSet]
    by_cases h : k2 = k
    · subst h
      simp only [if_true, dictGet]
      split <;> simp_all
    · simp only [h, if_false, dictGet, ih]
      by_cases h2 : k2 = k'
      · subst h2
        have : ¬ k = k2 := fun hh => h hh.symm
        simp [this]
      · simp [h2]

/-! ## strings -/
theorem segments_fst (rc : Str) : (segments rc).1 = firstSeg rc := by
  induction rc with
  | nil => rfl
  | cons c cs ih =>
    simp only [segments, firstSeg, List.takeWhile_cons]
    by_cases h : c = '/'
    · simp [h]
    · have : (c != '/') = true := by simpa using h
      simp only [h, if_false, this, if_true, List.cons.injEq, true_and]
      exact ih

theorem segments_snd (rc : Str) : (segments rc).2 = stripSeg rc := by
  induction rc with
  | nil => rfl
  | cons c cs ih =>
    simp only [segments, stripSeg, firstSeg, List.takeWhile_cons]
    by_cases h : c = '/'
    · subst h
      simp only [bne_self_eq_false, Bool.false_eq_true, if_false, List.length_nil, Nat.zero_add, List.drop_succ_cons,
        List.drop_zero, if_true]
      cases cs <;> rfl
    · have : (c != '/') = true := by simpa using h
      simp only [h, if_false, this, if_true, List.length_cons, List.drop_succ_cons]
      exact ih

theorem snoc_induction {α : Type} {P : List α → Prop} (hnil : P []) (hsnoc : ∀ l a, P l → P (l ++ [a])) : ∀ l, P l := by
  intro l
  obtain ⟨r, rfl⟩ : ∃ r, l = r.reverse := ⟨l.reverse, by simp⟩
  induction r with
  | nil => exact hnil
  | cons a r ih => rw [List.reverse_cons]; exact hsnoc _ a ih

theorem takeWhile_append_sep (code r : Str) (h : '/' ∉ code) :
    (code ++ '/' :: r).takeWhile (· != '/') = code := by
  induction code with
  | nil => simp
  | cons c cs ih =>
    simp only [List.mem_cons, not_or] at h
    have : (c != '/') = true := by simpa using fun hh => h.1 hh.symm
    simp [List.takeWhile_cons, this, ih h.2]

theorem takeWhile_all (code : Str) (h : '/' ∉ code) : code.takeWhile (· != '/') = code := by
  induction code with
  | nil => rfl
  | cons c cs ih =>
    simp only [List.mem_cons, not_or] at h
    have : (c != '/') = true := by simpa using fun hh => h.1 hh.symm
    simp [List.takeWhile_cons, this, ih h.2]

/-! ## the push/pop inverse -/
/-- a router whose only rule is a consuming route rule for `code` -/
def single (code : Str) : State := { fallback := none, prefixes := [(code, (0, true))], ids := [], sinks := [], inRun := false }

/-- **C18 (inverse)**: for every `/`-free code and every route code `rc` — `None` or any non-empty string, with any
number of segments — the event that `StreamToQueue(code)` emits (`route_code` prefixed) is handed by a router with a
consuming rule for `code` to that rule's sink with exactly its original route code, all other fields untouched. -/
theorem C18_inverse (code : Str) (h : '/' ∉ code) (e : Event) (hr : e.route ≠ some []) :
    route (single code) { e with route := Deco.prefixRoute code e.route } = some (0, e) := by
  cases hrt : e.route with
  | none =>
    have : e = { e with route := none } := by rw [← hrt]
    simp only [route, single, Deco.prefixRoute, firstSeg, takeWhile_all code h, dictGet, if_true, stripSeg,
      List.drop_length_add_append, List.drop_of_length_le (Nat.le_succ _)]
    rw [this]
  | some r =>
    have hne : r ≠ [] := fun hh => hr (by rw [hrt, hh])
    have hd : (code ++ '/' :: r).drop (code.length + 1) = r := by
      rw [← List.drop_drop]; simp
    simp only [route, single, Deco.prefixRoute, firstSeg, takeWhile_append_sep code r h, dictGet, if_true, stripSeg, hd]
    cases r with
    | nil => exact absurd rfl hne
    | cons c cs =>
      have : e = { e with route := some (c :: cs) } := by rw [← hrt]
      simp only
      rw [this]

theorem prefixRoute_ne_empty (c : Str) (hc : c ≠ []) (x : Option Str) : Deco.prefixRoute c x ≠ some [] := by
  cases x <;> simp [Deco.prefixRoute, hc]

theorem pushAll_snoc (codes : List Str) (c : Str) (rc : Option Str) :
    pushAll (codes ++ [c]) rc = Deco.prefixRoute c (pushAll codes rc) := by
  simp [pushAll, List.foldl_append]

theorem pushAll_ne_empty (codes : List Str) (hc : ∀ c ∈ codes, c ≠ []) (rc : Option Str) (hr : rc ≠ some []) :
    pushAll codes rc ≠ some [] := by
  revert hc
  refine snoc_induction (P := fun codes => (∀ c ∈ codes, c ≠ []) → pushAll codes rc ≠ some []) ?_ ?_ codes
  · intro _; simpa [pushAll] using hr
  · intro cs c _ hc; rw [pushAll_snoc]; exact prefixRoute_ne_empty c (hc c (by simp)) _

/-- **C18 (inverse, nested)**: pushing through any number of `StreamToQueue`s and popping with as many consuming
routers (outermost code first) is the identity on events — to any depth. -/
theorem C18_inverse_nested (codes : List Str) (h : ∀ c ∈ codes, '/' ∉ c ∧ c ≠ []) (e : Event) (hr : e.route ≠ some []) :
    popAll codes.reverse { e with route := pushAll codes e.route } = some e := by
  revert h
  refine snoc_induction (P := fun codes => (∀ c ∈ codes, '/' ∉ c ∧ c ≠ []) →
    popAll codes.reverse { e with route := pushAll codes e.route } = some e) ?_ ?_ codes
  · intro _; simp [popAll, pushAll]
  · intro cs c ih h
    have hcs : ∀ c' ∈ cs, '/' ∉ c' ∧ c' ≠ [] := fun c' hc' => h c' (by simp [hc'])
    have hne := pushAll_ne_empty cs (fun c' hc' => (hcs c' hc').2) e.route hr
    have := C18_inverse c (h c (by simp)).1 { e with route := pushAll cs e.route } hne
    simp only [single] at this
    simp only [List.reverse_append, List.reverse_cons, List.reverse_nil, List.nil_append, List.cons_append, popAll,
      pushAll_snoc, this]
    exact ih hcs


/-! ## the router's state is the history of registrations -/
theorem regs_snoc (hist : List Op) (o : Op) : regs (hist ++ [o]) = regs hist ++ (regOf o).toList := by
  simp only [regs, List.filterMap_append, List.filterMap_cons, List.filterMap_nil]
  cases regOf o <;> simp

theorem prefixRule_snoc (rs : List Reg) (r : Reg) (seg : Str) :
    prefixRule (rs ++ [r]) seg =
      match r with
      | .pfx sink p consume _ => if p = seg then some (sink, consume) else prefixRule rs seg
      | .tid _ _ _ => prefixRule rs seg := by
  simp only [prefixRule, List.reverse_append, List.reverse_cons, List.reverse_nil, List.nil_append, List.cons_append,
    List.findSome?_cons]
  cases r with
  | pfx sink p consume flag => by_cases h : p = seg <;> simp [h]
  | tid sink t flag => simp

theorem idRule_snoc (rs : List Reg) (r : Reg) (t : Option Nat) :
    idRule (rs ++ [r]) t =
      match r with
      | .tid sink t' _ => if t' = t then some sink else idRule rs t
      | .pfx _ _ _ _ => idRule rs t := by
  simp only [idRule, List.reverse_append, List.reverse_cons, List.reverse_nil, List.nil_append, List.cons_append,
    List.findSome?_cons]
  cases r with
  | pfx sink p consume flag => simp
  | tid sink t' flag => by_cases h : t' = t <;> simp [h]

theorem flagged_snoc (hb ff : Bool) (rs : List Reg) (r : Reg) :
    flagged hb ff (rs ++ [r]) = flagged hb ff rs ++
      match r with
      | .pfx sink _ _ flag => if flag then [sink] else []
      | .tid sink _ flag => if flag then [sink] else [] := by
  simp only [flagged, List.filterMap_append, List.append_assoc, List.filterMap_cons, List.filterMap_nil]
  cases r with
  | pfx sink p consume flag => cases flag <;> simp
  | tid sink t flag => cases flag <;> simp

theorem inRun_snoc (hist : List Op) (o : Op) :
    inRun (hist ++ [o]) = if o = .start then true else if o = .stop then false else inRun hist := by
  simp only [inRun, List.reverse_append, List.reverse_cons, List.reverse_nil, List.nil_append, List.cons_append,
    List.find?_cons]
  cases o <;> simp [inRun, isCtl]

/-- the state reached after the operations `hist` -/
structure Inv (hb ff : Bool) (hist : List Op) (s : State) : Prop where
  fallback : s.fallback = if hb then some 0 else none
  prefixes : ∀ seg, dictGet s.prefixes seg = prefixRule (regs hist) seg
  ids : ∀ t, dictGet s.ids t = idRule (regs hist) t
  sinks : s.sinks = flagged hb ff (regs hist)
  inRun : s.inRun = inRun hist

theorem inv_init (hb ff : Bool) : Inv hb ff [] (init hb ff) := by
  refine ⟨rfl, fun _ => rfl, fun _ => rfl, ?_, rfl⟩
  cases hb <;> cases ff <;> rfl

/-- **the routing decision**: what the router's dictionaries answer is what the history of registrations says -/
theorem route_eq (hb ff : Bool) (hist : List Op) (s : State) (hI : Inv hb ff hist s) (e : Event) :
    route s e = destination hb (regs hist) e := by
  simp only [route, destination, hI.fallback]
  cases hr : e.route with
  | none =>
    simp only [Option.bind_none, hI.ids]
    cases idRule (regs hist) e.testId <;> cases hb <;> simp
  | some rc =>
    simp only [Option.bind_some, hI.prefixes, segments_fst, segments_snd]
    cases hp : prefixRule (regs hist) (firstSeg rc) with
    | some r => obtain ⟨sink, consume⟩ := r; simp
    | none =>
      simp only [Option.map_none, hI.ids]
      cases idRule (regs hist) e.testId <;> cases hb <;> simp

theorem inv_step (hb ff : Bool) (hist : List Op) (s : State) (hI : Inv hb ff hist s) (o : Op) :
    Inv hb ff (hist ++ [o]) (step s o).1 := by
  cases o with
  | start =>
    refine ⟨hI.fallback, ?_, ?_, ?_, ?_⟩ <;> simp [step, regs_snoc, regOf, inRun_snoc, hI.prefixes, hI.ids, hI.sinks]
  | stop =>
    refine ⟨hI.fallback, ?_, ?_, ?_, ?_⟩ <;> simp [step, regs_snoc, regOf, inRun_snoc, hI.prefixes, hI.ids, hI.sinks]
  | addBad sink flag =>
    refine ⟨hI.fallback, ?_, ?_, ?_, ?_⟩ <;>
      simp [step, regs_snoc, regOf, inRun_snoc, hI.prefixes, hI.ids, hI.sinks, hI.inRun]
  | status e =>
    have : (step s (.status e)).1 = s := by simp only [step]; split <;> rfl
    rw [this]
    refine ⟨hI.fallback, ?_, ?_, ?_, ?_⟩ <;>
      simp [regs_snoc, regOf, inRun_snoc, hI.prefixes, hI.ids, hI.sinks, hI.inRun]
  | roundTrip codes e =>
    have : (step s (.roundTrip codes e)).1 = s := by
      simp only [step]; split
      · rfl
      · split <;> rfl
    rw [this]
    refine ⟨hI.fallback, ?_, ?_, ?_, ?_⟩ <;>
      simp [regs_snoc, regOf, inRun_snoc, hI.prefixes, hI.ids, hI.sinks, hI.inRun]
  | addPrefix sink p consume flag =>
    by_cases hp : '/' ∈ p
    · have : (step s (.addPrefix sink p consume flag)).1 = s := by simp [step, hp]
      rw [this]
      refine ⟨hI.fallback, ?_, ?_, ?_, ?_⟩ <;>
        simp [regs_snoc, regOf, hp, inRun_snoc, hI.prefixes, hI.ids, hI.sinks, hI.inRun]
    · have hreg : regs (hist ++ [.addPrefix sink p consume flag]) = regs hist ++ [.pfx sink p consume flag] := by
        simp [regs_snoc, regOf, hp]
      simp only [step, List.contains_eq_mem, hp, decide_false, Bool.false_eq_true, if_false, registered]
      cases flag
      · refine ⟨hI.fallback, fun seg => ?_, fun t => ?_, ?_, ?_⟩
        · simp [hreg, prefixRule_snoc, dictGet_set, hI.prefixes]
        · simp [hreg, idRule_snoc, hI.ids]
        · simp [hreg, flagged_snoc, hI.sinks]
        · simp [inRun_snoc, hI.inRun]
      · refine ⟨hI.fallback, fun seg => ?_, fun t => ?_, ?_, ?_⟩
        · simp [hreg, prefixRule_snoc, dictGet_set, hI.prefixes]
        · simp [hreg, idRule_snoc, hI.ids]
        · simp [hreg, flagged_snoc, hI.sinks]
        · simp [inRun_snoc, hI.inRun]
  | addId sink t flag =>
    have hreg : regs (hist ++ [.addId sink t flag]) = regs hist ++ [.tid sink t flag] := by
      simp [regs_snoc, regOf]
    simp only [step, registered]
    cases flag
    · refine ⟨hI.fallback, fun seg => ?_, fun t' => ?_, ?_, ?_⟩
      · simp [hreg, prefixRule_snoc, hI.prefixes]
      · simp [hreg, idRule_snoc, dictGet_set, hI.ids]
      · simp [hreg, flagged_snoc, hI.sinks]
      · simp [inRun_snoc, hI.inRun]
    · refine ⟨hI.fallback, fun seg => ?_, fun t' => ?_, ?_, ?_⟩
      · simp [hreg, prefixRule_snoc, hI.prefixes]
      · simp [hreg, idRule_snoc, dictGet_set, hI.ids]
      · simp [hreg, flagged_snoc, hI.sinks]
      · simp [inRun_snoc, hI.inRun]

/-- what one operation delivers: its status delivery (at most one) and its start/stop deliveries -/
theorem step_deliveries (hb ff : Bool) (hist : List Op) (s : State) (hI : Inv hb ff hist s) (o : Op) :
    (step s o).2.1 = expectStatus hb hist o ++ expectCtl hb ff hist o := by
  cases o with
  | start => simp [step, expectStatus, expectCtl, hI.sinks]
  | stop => simp [step, expectStatus, expectCtl, hI.sinks]
  | addBad sink flag => simp [step, expectStatus, expectCtl, regOf]
  | status e =>
    simp only [step, expectStatus, expectCtl, regOf, route_eq hb ff hist s hI e]
    cases destination hb (regs hist) e with
    | none => rfl
    | some d => rfl
  | roundTrip codes e =>
    simp only [step, expectStatus, expectCtl, regOf]
    split
    · rfl
    · split <;> rfl
  | addPrefix sink p consume flag =>
    by_cases hp : '/' ∈ p
    · simp [step, hp, expectStatus, expectCtl, regOf]
    · cases flag <;> simp [step, hp, expectStatus, expectCtl, regOf, registered, hI.inRun]
  | addId sink t flag =>
    cases flag <;> simp [step, expectStatus, expectCtl, regOf, registered, hI.inRun]

theorem expectStatus_isStatus (hb : Bool) (hist : List Op) (o : Op) :
    (expectStatus hb hist o).filter (fun d => isStatus d.2) = expectStatus hb hist o
    ∧ (expectStatus hb hist o).filter (fun d => !isStatus d.2) = [] := by
  cases o <;> simp [expectStatus]
  split <;> simp [isStatus]

theorem expectCtl_notStatus (hb ff : Bool) (hist : List Op) (o : Op) :
    (expectCtl hb ff hist o).filter (fun d => isStatus d.2) = []
    ∧ (expectCtl hb ff hist o).filter (fun d => !isStatus d.2) = expectCtl hb ff hist o := by
  have hall : ∀ d ∈ expectCtl hb ff hist o, isStatus d.2 = false := by
    intro d hd
    cases o with
    | start => simp [expectCtl] at hd; obtain ⟨_, _, rfl⟩ := hd; rfl
    | stop => simp [expectCtl] at hd; obtain ⟨_, _, rfl⟩ := hd; rfl
    | addBad sink flag => simp [expectCtl, regOf] at hd
    | status e => simp [expectCtl, regOf] at hd
    | roundTrip codes e => simp [expectCtl, regOf] at hd
    | addPrefix sink p consume flag =>
      simp only [expectCtl, regOf] at hd
      split at hd
      · split at hd <;> simp_all [isStatus]
      · split at hd <;> simp_all [isStatus]
      · simp at hd
    | addId sink t flag =>
      simp only [expectCtl, regOf] at hd
      split at hd
      · split at hd <;> simp_all [isStatus]
      · split at hd <;> simp_all [isStatus]
      · simp at hd
  constructor
  · rw [List.filter_eq_nil_iff]; intro d hd; simp [hall d hd]
  · rw [List.filter_eq_self]; intro d hd; simp [hall d hd]

theorem run_deliveries (hb ff : Bool) : ∀ (os hist : List Op) (s : State), Inv hb ff hist s →
    (run s os).1.filter (fun d => isStatus d.2) = overHistory (expectStatus hb) hist os
    ∧ (run s os).1.filter (fun d => !isStatus d.2) = overHistory (expectCtl hb ff) hist os
  | [], _, _, _ => by simp [run, overHistory]
  | o :: os, hist, s, hI => by
      obtain ⟨ih1, ih2⟩ := run_deliveries hb ff os (hist ++ [o]) _ (inv_step hb ff hist s hI o)
      simp only [run, overHistory, List.filter_append, step_deliveries hb ff hist s hI o, ih1, ih2,
        (expectStatus_isStatus hb hist o).1, (expectStatus_isStatus hb hist o).2,
        (expectCtl_notStatus hb ff hist o).1, (expectCtl_notStatus hb ff hist o).2]
      simp

theorem step_result (hb ff : Bool) (hist : List Op) (s : State) (hI : Inv hb ff hist s) (o : Op) :
    expectRes hb hist o (step s o).2.2 = true := by
  cases o with
  | start => simp [step, expectRes]
  | stop => simp [step, expectRes]
  | addBad sink flag => simp [expectRes]
  | addPrefix sink p consume flag => simp [expectRes]
  | addId sink t flag => simp [expectRes]
  | status e =>
    simp only [step, expectRes, route_eq hb ff hist s hI e]
    cases destination hb (regs hist) e <;> simp
  | roundTrip codes e =>
    simp only [expectRes, Bool.or_eq_true]
    by_cases h1 : codes.any (fun c => c.contains '/' || c.isEmpty) = true
    · exact Or.inl (Or.inl h1)
    · by_cases h2 : e.route = some []
      · exact Or.inl (Or.inr (by simp [h2]))
      · right
        simp only [List.any_eq_true, Bool.or_eq_true, not_exists, not_and, not_or, Bool.not_eq_true] at h1
        have hc : ∀ c ∈ codes, '/' ∉ c ∧ c ≠ [] := by
          intro c hc
          obtain ⟨a, b⟩ := h1 c hc
          exact ⟨by simpa using a, by simpa using b⟩
        have hno : codes.any (fun c => c.contains '/') = false := by
          simp only [List.any_eq_false]
          intro c hc'; simpa using (h1 c hc').1
        simp only [step, hno, Bool.false_eq_true, if_false, C18_inverse_nested codes hc e h2]
        simp

theorem run_results (hb ff : Bool) : ∀ (os hist : List Op) (s : State), Inv hb ff hist s →
    resultsOk hb hist os (run s os).2 = true
  | [], _, _, _ => rfl
  | o :: os, hist, s, hI => by
      simp only [run, resultsOk, step_result hb ff hist s hI o, Bool.true_and]
      exact run_results hb ff os (hist ++ [o]) _ (inv_step hb ff hist s hI o)

/-! ## headline -/
theorem holds_model (i : Input) : holds i (model i) = true := by
  have hd := run_deliveries i.hasFallback i.fbFlag i.ops [] _ (inv_init i.hasFallback i.fbFlag)
  simp only [holds, clauses, List.all_cons, List.all_nil, Bool.and_true, Bool.and_eq_true]
  refine ⟨?_, ?_, ?_⟩
  · simp [cOneSink, model, hd.1]
  · simp [cStartStop, model, hd.2]
  · simp only [cResults, model]
    exact run_results i.hasFallback i.fbFlag i.ops [] _ (inv_init i.hasFallback i.fbFlag)


/-! ## readable statements -/
/-- **C18 (one sink)**: over every script of operations, the status calls received by all sinks together are, in
order, exactly one per routable `status` — delivered to the sink `destination` names, looking only at the rules
registered before it — and none for an event without destination (that call raises, `C18_raises`). -/
theorem C18_one_sink (i : Input) :
    (model i).deliveries.filter (fun d => isStatus d.2) = overHistory (expectStatus i.hasFallback) [] i.ops :=
  (run_deliveries i.hasFallback i.fbFlag i.ops [] _ (inv_init i.hasFallback i.fbFlag)).1

/-- at most one delivery per status call; none exactly when there is no destination -/
theorem C18_at_most_one (hb : Bool) (hist : List Op) (e : Event) :
    (expectStatus hb hist (.status e)).length = if (destination hb (regs hist) e).isSome then 1 else 0 := by
  simp only [expectStatus]
  cases destination hb (regs hist) e <;> rfl

/-- **C18 (precedence)**: the rule of the first segment of the route code if there is one … -/
theorem C18_route_rule_first (hb : Bool) (rs : List Reg) (e : Event) (rc : Str) (sink : Nat) (consume : Bool)
    (hr : e.route = some rc) (hp : prefixRule rs (segments rc).1 = some (sink, consume)) :
    destination hb rs e = some (sink, if consume then { e with route := (segments rc).2 } else e) := by
  simp [destination, hr, hp]
/-- … otherwise the rule of its test id … -/
theorem C18_id_rule_second (hb : Bool) (rs : List Reg) (e : Event) (sink : Nat)
    (hr : ∀ rc, e.route = some rc → prefixRule rs (segments rc).1 = none) (hi : idRule rs e.testId = some sink) :
    destination hb rs e = some (sink, e) := by
  cases hrt : e.route with
  | none => simp [destination, hrt, hi]
  | some rc => simp [destination, hrt, hr rc hrt, hi]
/-- … otherwise the fallback, and without one there is no destination. -/
theorem C18_fallback_last (hb : Bool) (rs : List Reg) (e : Event)
    (hr : ∀ rc, e.route = some rc → prefixRule rs (segments rc).1 = none) (hi : idRule rs e.testId = none) :
    destination hb rs e = if hb then some (0, e) else none := by
  cases hrt : e.route with
  | none => simp [destination, hrt, hi]
  | some rc => simp [destination, hrt, hr rc hrt, hi]

/-- every field but `route_code` is forwarded unchanged; the route code changes only under a consuming rule -/
theorem C18_fields_unchanged (hb : Bool) (rs : List Reg) (e e' : Event) (sink : Nat)
    (h : destination hb rs e = some (sink, e')) : e' = { e with route := e'.route } := by
  simp only [destination] at h
  split at h
  · rename_i sink' consume rest _
    simp only [Option.some.injEq, Prod.mk.injEq] at h
    obtain ⟨_, rfl⟩ := h
    cases consume <;> simp
  · split at h
    · simp only [Option.some.injEq, Prod.mk.injEq] at h; obtain ⟨_, rfl⟩ := h; rfl
    · split at h
      · simp only [Option.some.injEq, Prod.mk.injEq] at h; obtain ⟨_, rfl⟩ := h; rfl
      · simp at h

/-- `segments` really is "first segment, then the rest": a route code with a `/` is `first ++ "/" ++ rest` -/
theorem C18_segments (rc : Str) :
    '/' ∉ (segments rc).1 ∧
    (rc = (segments rc).1 ∨ rc = (segments rc).1 ++ ['/'] ∨ ∃ rest, (segments rc).2 = some rest ∧ rest ≠ [] ∧ rc = (segments rc).1 ++ '/' :: rest) := by
  induction rc with
  | nil => simp [segments]
  | cons c cs ih =>
    by_cases h : c = '/'
    · subst h
      cases cs with
      | nil => simp [segments]
      | cons d ds => simp [segments]
    · obtain ⟨ih1, ih2⟩ := ih
      have hc : ¬ '/' = c := fun hh => h hh.symm
      refine ⟨by simp [segments, h, hc, ih1], ?_⟩
      simp only [segments, h, if_false, List.cons_append, List.cons.injEq, true_and]
      exact ih2

/-- **C18 (raises)**: a status call raises exactly when there is no destination, and then nothing is delivered. -/
theorem C18_raises (hb ff : Bool) (hist : List Op) (s : State) (hI : Inv hb ff hist s) (e : Event) :
    ((step s (.status e)).2.2 = .raised "AttributeError" ↔ destination hb (regs hist) e = none)
    ∧ (destination hb (regs hist) e = none → (step s (.status e)).2.1 = []) := by
  simp only [step, route_eq hb ff hist s hI e]
  cases destination hb (regs hist) e <;> simp

/-- **C18 (start/stop)**: the `startTestRun`/`stopTestRun` calls received by all sinks together are, in order: for
each `startTestRun` (`stopTestRun`) of the router one call on each sink registered so far with
`do_start_stop_run` (the fallback per its own flag), in registration order; for each rule added with the flag while
a run is in progress one immediate `startTestRun` on its sink; nothing else — in particular nothing for a rule added
without the flag, whenever it is added. -/
theorem C18_start_stop (i : Input) :
    (model i).deliveries.filter (fun d => !isStatus d.2) = overHistory (expectCtl i.hasFallback i.fbFlag) [] i.ops :=
  (run_deliveries i.hasFallback i.fbFlag i.ops [] _ (inv_init i.hasFallback i.fbFlag)).2

theorem C18_midrun_rule (hb ff : Bool) (hist : List Op) (sink : Nat) (t : Option Nat) :
    expectCtl hb ff hist (.addId sink t true) = (if inRun hist then [(sink, .start)] else [])
    ∧ expectCtl hb ff hist (.addId sink t false) = [] := by
  simp [expectCtl, regOf]

/-- a sink registered with the flag (and not the fallback) is stopped by the next `stopTestRun` once per registration -/
theorem C18_registered_stopped (hb ff : Bool) (hist : List Op) (sink : Nat) (t : Option Nat) :
    (sink, SinkEv.stop) ∈ expectCtl hb ff (hist ++ [.addId sink t true]) .stop := by
  simp [expectCtl, regs_snoc, regOf, flagged_snoc]

/-! ## non-vacuity -/
private def ev1 (tid : Option Nat) (rc : Option String) : Event :=
  { testId := tid, status := some .success, tags := none, runnable := true, fileName := none, fileBytes := none,
    eof := false, mime := none, route := rc.map String.toList, timestamp := none }

/-- route rule beats id rule beats fallback; re-registration; consuming strips exactly one segment -/
example : (model { hasFallback := true, fbFlag := true, ops :=
      [.addId 1 (some 0) false, .addPrefix 2 ['0'] false false, .addPrefix 3 ['0'] true true, .start,
       .status (ev1 (some 0) (some "0/ab/1")), .status (ev1 (some 0) (some "1")), .status (ev1 (some 5) none),
       .addId 4 none false, .stop] }).deliveries =
    [(0, .start), (3, .start), (3, .status (ev1 (some 0) (some "ab/1"))), (1, .status (ev1 (some 0) (some "1"))),
     (0, .status (ev1 (some 5) none)), (0, .stop), (3, .stop)] := by decide
example : (model { hasFallback := false, fbFlag := true, ops := [.status (ev1 (some 0) none)] }).results
    = [.raised "AttributeError"] := by decide
example : popAll [['a', 'b'], ['0']] { ev1 none none with route := pushAll [['0'], ['a', 'b']] (some ['r', '/', 's']) }
    = some { ev1 none none with route := some ['r', '/', 's'] } := by decide
/-- the one string that does not come back: the empty route code (no segment) returns as `None` -/
example : route (single ['0']) { ev1 none none with route := Deco.prefixRoute ['0'] (some []) }
    = some (0, ev1 none none) := by decide

end TTV.Props.C18
