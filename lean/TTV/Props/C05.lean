import TTV.Props.C03
import TTV.Spec.C05
import TTV.Lemmas.RunUnique
import TTV.Generated.DetailSrc
import TTV.Lemmas.SrcRefRes
/-! # C05 — all details and every traceback reach the result

Same quantifier as C01 (`Props/C01.lean`).  Hypothesis `wf p` (see `Spec/RunCommon.lean`), which for this
property also says that no user-supplied detail is named `reason` (the framework attaches its own `reason` by a
plain `addDetail`) and that the content objects / failed expectations supplied by user code are pairwise
distinct (the clause `mismatch-fixture-details` identifies a detail by its content).  Known finding D3 (`lateCollision`): a plain
`addDetail(n)` that replaces an entry stored under a generated / renamed name loses that entry; the clauses
`tracebacks` and `mismatch-fixture-details` are therefore proved outside that class (`holds_model_partial`), and
`C05_finding_witness` shows the model exhibiting the defect inside it. -/
namespace TTV.Props.C05
open TTV.Run TTV.Spec.Run TTV.Spec.C05

/-! ## reading the trace -/
theorem detailsOf_shape (f : Flavour) (log : List Ev) (h : ∀ e ∈ log, isResultEv e = false) (o : Outcome) (d : Details)
    (r : Option Exc) (ff : Bool) (n : Nat) (a : List (Nat × Nat)) :
    detailsOf ⟨wrapRun f ([.startTest] ++ log ++ [.outcome o d] ++ stopEv f), r, ff, n, a⟩ = d := by
  unfold detailsOf
  rw [C01.outcomeOf_shape f log h]; rfl

theorem dropWhile_pure (q : Ev → Bool) (hq : ∀ e, isResultEv e = false → q e = true) (log : List Ev)
    (h : ∀ e ∈ log, isResultEv e = false) (rest : List Ev) : (log ++ rest).dropWhile q = rest.dropWhile q := by
  induction log with
  | nil => rfl
  | cons x xs ih =>
    simp only [List.cons_append, List.dropWhile_cons, hq x (h x List.mem_cons_self), if_true]
    exact ih (fun e he => h e (List.mem_cons_of_mem _ he))

theorem onExcOf_eq (t : Trace) : onExcOf t = t.events.filterMap onExcEv := by
  unfold onExcOf; congr 1; funext e; cases e <;> rfl

theorem filterMap_onExc_wrap (f : Flavour) (log : List Ev) (o : Outcome) (d : Details) :
    (wrapRun f ([.startTest] ++ log ++ [.outcome o d] ++ stopEv f)).filterMap onExcEv = log.filterMap onExcEv := by
  unfold wrapRun stopEv
  split <;> split <;> simp [List.filterMap_cons, List.filterMap_append, onExcEv]

theorem names_frozen (s : RS) (d : Details) : (frozenDetails s d).map (·.1) = dnames d := by
  simp [frozenDetails, dnames, List.map_map, Function.comp_def]

theorem names_visible_sublist (f : Flavour) (o : Outcome) (d : Details) :
    ((visibleDetails f o d).map (·.1)).Sublist (d.map (·.1)) := by
  unfold visibleDetails
  split
  · exact List.Sublist.refl _
  · split
    · exact List.Sublist.map _ List.filter_sublist
    · simp

theorem idsNodupN_iff (l : List DName) : cNamesDistinct.idsNodupN l = true ↔ l.Nodup := by
  induction l with
  | nil => simp [cNamesDistinct.idsNodupN]
  | cons x xs ih => simp [cNamesDistinct.idsNodupN, ih, List.nodup_cons]

theorem degrade_id (f : Flavour) (o : Outcome) (h1 : f ≠ .py26) (h2 : f ≠ .stream) : degrade f o = o := by
  cases f <;> cases o <;> simp_all [degrade]

theorem find_reason_visible (f : Flavour) (d : Details) (h1 : f ≠ .py26) (h2 : f ≠ .stream) :
    (visibleDetails f .skip d).find? (fun x => x.1 == nmReason) = d.find? (fun x => x.1 == nmReason) := by
  unfold visibleDetails
  split
  · rfl
  · simp only [h1, h2, ne_eq, not_false_eq_true, and_self, if_true, List.find?_filter]
    congr 1
    funext x
    by_cases h : x.1 = nmReason <;> simp [h]

theorem find_frozen (s : RS) (d : Details) (n : DName) :
    (frozenDetails s d).find? (fun x => x.1 == n) =
      (d.find? (fun x => x.1 == n)).map fun x => (x.1, freeze s.clock x.2) := by
  simp only [frozenDetails, List.find?_map]
  rfl

/-! ### reading timed stages -/
theorem timed_flatMap_aux {β : Type} (p : Program) (F : Nat × Stage → List β) (g : Stage → List β)
    (hF : ∀ k st, F (k, st) = g st) : ∀ (ids : List Nat) (k0 : Nat),
    ((ids.zipIdx k0).filterMap fun (id, k) => (findStage p id).map fun st => (k, st)).flatMap F =
      (ids.filterMap (findStage p)).flatMap g
  | [], _ => rfl
  | id :: ids, k0 => by
    simp only [List.zipIdx_cons, List.filterMap_cons]
    cases findStage p id with
    | none => simpa using timed_flatMap_aux p F g hF ids (k0 + 1)
    | some st =>
      simp only [Option.map_some, List.flatMap_cons, hF]
      rw [timed_flatMap_aux p F g hF ids (k0 + 1)]

theorem timed_flatMap {β : Type} (p : Program) (t : Trace) (F : Nat × Stage → List β) (g : Stage → List β)
    (hF : ∀ k st, F (k, st) = g st) : (timed p t).flatMap F = (executed p t).flatMap g :=
  timed_flatMap_aux p F g hF (stageIds t) 1

theorem plainOf_eq (as : List Act) :
    (as.filterMap fun | .addDetail n c => some (n, c) | _ => none) = plainOf as := by
  induction as with
  | nil => rfl
  | cons a as ih => cases a <;> simp [plainOf, List.filterMap_cons, ih]

theorem plainAdds_eq (p : Program) (t : Trace) : plainAdds p t = (executed p t).flatMap fun st => plainOf st.acts := by
  unfold plainAdds
  apply timed_flatMap
  intro k st
  exact plainOf_eq st.acts

theorem lastAdd_of_idx (A : List (DName × UC)) (n : DName) (c : UC) (i : Nat) (h : A[i]? = some (n, c))
    (hno : (A.drop (i + 1)).any (fun x => x.1 == n) = false) : lastAdd A n = some c := by
  obtain ⟨hi, hget⟩ := List.getElem?_eq_some_iff.mp h
  have hA : A = A.take i ++ (n, c) :: A.drop (i + 1) := by
    rw [← hget, ← List.drop_eq_getElem_cons hi, List.take_append_drop]
  have hnone : (A.drop (i + 1)).reverse.find? (fun x => x.1 == n) = none := by
    rw [List.find?_eq_none]
    intro x hx
    have := List.any_eq_false.mp hno x (by simpa using hx)
    simpa using this
  unfold lastAdd
  rw [hA]
  simp only [List.reverse_append, List.reverse_cons, List.append_assoc, List.find?_append, hnone, Option.none_or]
  simp

theorem freeze_user (k : Nat) (c : UC) : freeze k (.user c) = evalAt k c := by
  obtain ⟨i, l⟩ := c
  cases l <;> simp [freeze, evalAt]

/-! ### tracebacks -/
theorem subMulti_of_perm : ∀ (xs ys zs : List Exc), ys.Perm (xs ++ zs) → subMulti xs ys = true
  | [], _, _, _ => rfl
  | x :: xs, ys, zs, h => by
    have hx : x ∈ ys := h.mem_iff.mpr (by simp)
    have h' : (ys.erase x).Perm (xs ++ zs) := by
      have := h.erase x
      simpa using this
    simp only [subMulti, Bool.and_eq_true]
    exact ⟨by simpa using hx, subMulti_of_perm xs _ zs h'⟩

theorem tbOf_freeze (k : Nat) (x : DName × Content) : tbOf (x.1, freeze k x.2) = tbOf x := by
  obtain ⟨n, c⟩ := x
  cases c with
  | user u => obtain ⟨i, l⟩ := u; cases l <;> rfl
  | frozen i v => rfl
  | tb e => rfl
  | expectation m => rfl
  | reason r => rfl

theorem tbsIn_frozen (s : RS) (d : Details) : tbsIn (frozenDetails s d) = tbsIn d := by
  rw [tbsIn_eq, tbsIn_eq, frozenDetails, List.filterMap_map]
  congr 1
  funext x
  exact tbOf_freeze s.clock x

theorem extraTbs_eq (p : Program) (st : Stage) :
    ((match st.term with
       | .expectFailure _ (some e) _ => [e]
       | _ => []) ++
      (if p.xfailDeco && st.id == p.body.id then
         (match termObj st.term with
          | some obj => if isSub obj.cls .exc then [obj] else []
          | none => [])
       else [])) = extraTbs p st := by
  unfold extraTbs decoTb decoOf
  congr 1
  generalize st.term = t
  cases t with
  | expectFailure r eo x => cases eo <;> rfl
  | ret => rfl
  | raise1 e => rfl
  | raiseMulti es me => rfl
  | assertFail e ds => rfl
  | fixtureFail ds e ces se => rfl

theorem requiredTbs_eq (p : Program) (ff0 : Bool) (t : Trace) :
    requiredTbs p ff0 t = (raisedAll p ff0 t).filter (fun e => needsTb e.cls) ++ (executed p t).flatMap (extraTbs p) := by
  unfold requiredTbs
  congr 2
  funext st
  exact extraTbs_eq p st

theorem relatedTbs_eq (p : Program) (ff0 : Bool) (t : Trace) :
    relatedTbs p ff0 t = raisedAll p ff0 t ++ (executed p t).flatMap (extraTbs p) := by
  unfold relatedTbs
  congr 2
  funext st
  exact extraTbs_eq p st

/-- from the generated table: a class exempted from traceback reporting is not a failure / error class -/
theorem needsTb_not_exempt (c : Cls) (h : needsTb c = true) : noTraceback c = false := by
  rw [Bool.eq_false_iff]
  intro hn
  simp only [noTraceback, TTV.Generated.C01.noTracebackRows, List.any_cons, List.any_nil, clsOfRow, Bool.or_false,
    Bool.or_eq_true, beq_iff_eq] at hn
  rcases hn with hn | hn | hn <;> subst hn <;> simp [needsTb, isSub, Cls.ancestors] at h

theorem tbs_required (excs X T : List Exc) (h : T.Perm (tbFilter excs ++ X)) :
    subMulti (excs.filter (fun e => needsTb e.cls) ++ X) T = true := by
  apply subMulti_of_perm _ _ ((tbFilter excs).filter fun e => !needsTb e.cls)
  have e1 : (tbFilter excs).filter (fun e => needsTb e.cls) = excs.filter (fun e => needsTb e.cls) := by
    simp only [tbFilter, List.filter_filter]
    apply List.filter_congr
    intro x _
    cases hx : needsTb x.cls
    · rfl
    · simp [needsTb_not_exempt x.cls hx]
  have h2 := (List.filter_append_perm (fun e => needsTb e.cls) (tbFilter excs)).symm
  rw [e1] at h2
  refine h.trans ((h2.append_right X).trans ?_)
  simp only [List.append_assoc]
  exact List.Perm.append_left _ List.perm_append_comm

theorem tbs_related (excs X T : List Exc) (h : T.Perm (tbFilter excs ++ X)) :
    subMulti T (excs ++ X) = true := by
  apply subMulti_of_perm _ _ (excs.filter fun e => !(!noTraceback e.cls))
  have h2 := (List.filter_append_perm (fun e => !noTraceback e.cls) excs).symm
  refine (h2.append_right X).trans ?_
  refine List.Perm.trans ?_ (h.symm.append_right _)
  simp only [tbFilter, List.append_assoc]
  exact List.Perm.append_left _ List.perm_append_comm

/-! ### details stored under unique names -/
theorem Match2_contents : ∀ (U E : List (DName × Content)), Match2 U E → E.map (·.2) = U.map (·.2)
  | [], [], _ => rfl
  | [], _ :: _, h => absurd h (by simp [Match2])
  | _ :: _, [], h => absurd h (by simp [Match2])
  | u :: us, x :: xs, h => by
    simp only [Match2] at h
    simp [h.1, Match2_contents us xs h.2.2]

theorem Match2_mem : ∀ (U E : List (DName × Content)), Match2 U E →
    ∀ u ∈ U, ∃ m, (m, u.2) ∈ E ∧ isRenaming u.1 m = true
  | [], _, _, u, hu => by simp at hu
  | _ :: _, [], h, _, _ => absurd h (by simp [Match2])
  | u0 :: us, x :: xs, h, u, hu => by
    simp only [Match2] at h
    simp only [List.mem_cons] at hu
    rcases hu with rfl | hu
    · exact ⟨x.1, by rw [← h.1]; exact List.mem_cons_self, h.2.1⟩
    · obtain ⟨m, hm, hr⟩ := Match2_mem us xs h.2.2 u hu
      exact ⟨m, List.mem_cons_of_mem _ hm, hr⟩

theorem isUq_freeze (k : Nat) (c : Content) : isUq (freeze k c) = isUq c := by
  cases c with
  | user u => obtain ⟨i, l⟩ := u; cases l <;> rfl
  | frozen i v => rfl
  | tb e => rfl
  | expectation m => rfl
  | reason r => rfl

theorem freeze_idem (a b : Nat) (c : Content) : freeze a (freeze b c) = freeze b c := by
  cases c with
  | user u => obtain ⟨i, l⟩ := u; cases l <;> rfl
  | frozen i v => rfl
  | tb e => rfl
  | expectation m => rfl
  | reason r => rfl

theorem length_filter_eq_count {α : Type} (l : List α) (h : α → Content) (c : Content) :
    (l.filter fun x => h x == c).length = (l.map h).count c := by
  induction l with
  | nil => rfl
  | cons x xs ih =>
    simp only [List.filter_cons, List.map_cons, List.count_cons]
    split <;> simp_all

theorem ckey_of_isUq (c : Content) (h : isUq c = true) : ∃ key, ckey c = some key := by
  cases c <;> simp_all [isUq, ckey]

theorem nodup_contents (k : Nat) : ∀ (U : List (DName × Content)), (∀ x ∈ U, isUq x.2 = true) → (keysU U).Nodup →
    (U.map fun x => freeze k x.2).Nodup
  | [], _, _ => by simp
  | x :: xs, hU, hk => by
    obtain ⟨key, hkey⟩ := ckey_of_isUq x.2 (hU x List.mem_cons_self)
    simp only [keysU, List.filterMap_cons, hkey, List.nodup_cons] at hk
    simp only [List.map_cons, List.nodup_cons]
    refine ⟨?_, nodup_contents k xs (fun y hy => hU y (List.mem_cons_of_mem _ hy)) hk.2⟩
    intro hm
    obtain ⟨y, hy, he⟩ := List.mem_map.mp hm
    apply hk.1
    rw [List.mem_filterMap]
    refine ⟨y, hy, ?_⟩
    have := congrArg ckey he
    rw [ckey_freeze, ckey_freeze] at this
    rw [this, hkey]

theorem timed_eq_aux (p : Program) : ∀ (l : List Stage) (k0 : Nat), (∀ st ∈ l, findStage p st.id = some st) →
    (((l.map Stage.id).zipIdx k0).filterMap fun (id, k) => (findStage p id).map fun st => (k, st)) =
      (l.zipIdx k0).map fun x => (x.2, x.1)
  | [], _, _ => rfl
  | x :: xs, k0, h => by
    simp only [List.map_cons, List.zipIdx_cons, List.filterMap_cons, h x List.mem_cons_self, Option.map_some]
    rw [timed_eq_aux p xs (k0 + 1) (fun st hst => h st (List.mem_cons_of_mem _ hst))]

theorem mem_uqActs_expect : ∀ (as : List Act) (mid : Nat) (ds : List (DName × UC)), Act.expect mid ds ∈ as →
    (nmExpectation, Content.expectation mid) ∈ uqActs as ∧ ∀ x ∈ ds, (x.1, Content.user x.2) ∈ uqActs as
  | [], _, _, h => by simp at h
  | a :: as, mid, ds, h => by
    have ih := mem_uqActs_expect as mid ds
    simp only [List.mem_cons] at h
    rcases h with rfl | h
    · refine ⟨by simp [uqActs], fun x hx => ?_⟩
      simp only [uqActs, List.mem_append, List.mem_map]
      exact Or.inl (Or.inl ⟨x, hx, rfl⟩)
    · obtain ⟨h1, h2⟩ := ih h
      cases a with
      | expect m' ds' =>
        exact ⟨by simp only [uqActs, List.mem_append]; exact Or.inr h1,
          fun x hx => by simp only [uqActs, List.mem_append]; exact Or.inr (h2 x hx)⟩
      | cleanup s => exact ⟨h1, h2⟩
      | addDetail n c => exact ⟨h1, h2⟩
      | patch k v => exact ⟨h1, h2⟩
      | useFixture f ds' cu => exact ⟨h1, h2⟩

theorem lastAdd_some_of_mem (A : List (DName × UC)) (n : DName) (h : n ∈ A.map (·.1)) : ∃ c, lastAdd A n = some c := by
  obtain ⟨x, hx, he⟩ := List.mem_map.mp h
  unfold lastAdd
  cases hf : A.reverse.find? (fun x => x.1 == n) with
  | some y => exact ⟨y.2, rfl⟩
  | none =>
    have := List.find?_eq_none.mp hf x (by simpa using hx)
    simp [he] at this

theorem find_of_mem_nodup : ∀ (d : Details), (dnames d).Nodup → ∀ x ∈ d, d.find? (fun y => y.1 == x.1) = some x
  | [], _, x, hx => by simp at hx
  | y :: d, hnd, x, hx => by
    simp only [dnames, List.map_cons, List.nodup_cons] at hnd
    simp only [List.mem_cons] at hx
    rcases hx with rfl | hx
    · simp
    · have hne : (y.1 == x.1) = false := by
        simp only [beq_eq_false_iff_ne, ne_eq]
        intro e; exact hnd.1 (e ▸ List.mem_map_of_mem hx)
      simp only [List.find?_cons, hne]
      exact find_of_mem_nodup d hnd.2 x hx

/-- a detail stored under a unique name is reported exactly once, under its name or a `-k` renaming -/
theorem stored_once {FD : Details} {pl : List DName} {T : List Exc} {A : List (DName × UC)}
    {U : List (DName × Content)} (k : Nat) (hJ : J FD pl false T A U) (hK : (keysU U ++ keysA A).Nodup)
    (u : DName × Content) (hu : u ∈ U) :
    ((FD.map fun x => (x.1, freeze k x.2)).filter fun x => x.2 == freeze k u.2).length = 1 ∧
    (FD.map fun x => (x.1, freeze k x.2)).any (fun x => x.2 == freeze k u.2 && isRenaming u.1 x.1) = true := by
  have hM := hJ.uqs rfl
  have hC := Match2_contents _ _ hM
  have hUq : ∀ x ∈ U, isUq x.2 = true := by
    intro x hx
    have : x.2 ∈ (uqEntries FD pl).map (·.2) := by rw [hC]; exact List.mem_map_of_mem hx
    obtain ⟨e, he, hee⟩ := List.mem_map.mp this
    have := (List.mem_filter.mp he).2
    simp only [Bool.and_eq_true] at this
    rw [← hee]; exact this.2
  refine ⟨?_, ?_⟩
  · have e1 : ((FD.map fun x => (x.1, freeze k x.2)).filter fun x => x.2 == freeze k u.2) =
        (FD.filter fun x => freeze k x.2 == freeze k u.2).map fun x => (x.1, freeze k x.2) := by
      rw [List.filter_map]; rfl
    rw [e1, List.length_map]
    have e2 : (FD.filter fun x => freeze k x.2 == freeze k u.2) =
        ((uqEntries FD pl).filter fun x => freeze k x.2 == freeze k u.2) := by
      unfold uqEntries
      rw [List.filter_filter]
      apply List.filter_congr
      intro x hx
      cases hq : (freeze k x.2 == freeze k u.2) with
      | false => rfl
      | true =>
        have hq' : freeze k x.2 = freeze k u.2 := by simpa using hq
        have hiu : isUq x.2 = true := by
          rw [← isUq_freeze k, hq', isUq_freeze]; exact hUq u hu
        have hnp : x.1 ∉ pl := by
          intro hp
          obtain ⟨c0, hc0⟩ := lastAdd_some_of_mem A x.1 (hJ.plainSub x.1 hp)
          have hf := hJ.ud x.1 c0 hc0
          rw [find_of_mem_nodup FD hJ.nodup x hx] at hf
          have hxa : (x.1, c0) ∈ A := lastAdd_mem A x.1 c0 hc0
          have hk1 : ckey (freeze k x.2) = some (0, c0.id) := by
            rw [ckey_freeze]
            have : x.2 = .user c0 := by
              have := congrArg Prod.snd (Option.some.inj hf)
              exact this
            rw [this]; rfl
          have hk2 : (0, c0.id) ∈ keysA A := List.mem_map.mpr ⟨_, hxa, rfl⟩
          have hk3 : (0, c0.id) ∈ keysU U := by
            rw [keysU, List.mem_filterMap]
            refine ⟨u, hu, ?_⟩
            rw [← ckey_freeze k, ← hq', hk1]
          exact (List.nodup_append.mp hK).2.2 _ hk3 _ hk2 rfl
        simp [hnp, hiu]
    rw [e2, length_filter_eq_count]
    have e3 : (uqEntries FD pl).map (fun x => freeze k x.2) = U.map (fun x => freeze k x.2) := by
      have := congrArg (List.map (freeze k)) hC
      simpa [List.map_map, Function.comp_def] using this
    rw [e3, (nodup_contents k U hUq (List.nodup_append.mp hK).1).count]
    simp only [List.mem_map]
    rw [if_pos ⟨u, hu, rfl⟩]
  · obtain ⟨m, hm, hr⟩ := Match2_mem _ _ hM u hu
    have hmf : (m, u.2) ∈ FD := (List.mem_filter.mp hm).1
    rw [List.any_eq_true]
    exact ⟨(m, freeze k u.2), List.mem_map.mpr ⟨_, hmf, rfl⟩, by simp [hr]⟩

/-! ## per-run clauses on the model's trace -/
section perRun
variable (p : Program) (ff0 : Bool) (hwf : wf p = true)
include hwf

theorem clause_onException : cOnException p ff0 (runOnce p ff0) = true := by
  cases hskip : p.skipDeco with
  | some r => simp [cOnException, hskip]
  | none =>
    obtain ⟨o, d, r, sel, _, hshape⟩ := runOnce_shape p ff0 hwf hskip
    have cf := runCore_facts p ff0 hwf hskip
    have hr := (reads_of p ff0 hwf hskip (degrade p.flavour o) d r (runCore p ff0).1.ff 0
      (sortAttrs (runCore p ff0).1.attrs)).raised
    rw [hshape]
    simp only [cOnException, hskip, Option.isSome_none, Bool.false_or, Bool.and_eq_true, beq_iff_eq]
    refine ⟨?_, ?_⟩
    · rw [onExcOf_eq, filterMap_onExc_wrap, cf.onExcs, hr]; rfl
    · cases hf : p.flavour <;>
        simp only [wrapRun, stopEv, List.cons_append, List.nil_append, List.append_assoc, reduceCtorEq, ↓reduceIte,
          List.dropWhile_cons] <;>
        rw [dropWhile_pure _ (by intro e he; cases e <;> simp_all [isResultEv]) _ cf.logPure] <;>
        simp [List.dropWhile_cons]

theorem clause_namesDistinct : cNamesDistinct p ff0 (runOnce p ff0) = true := by
  cases hskip : p.skipDeco with
  | some r =>
    simp only [cNamesDistinct, runOnce, hskip, detailsOf, outcomeOf, wrapRun, stopEv, visibleDetails]
    cases p.flavour <;>
      simp [showsDetails, evOutcome, cNamesDistinct.idsNodupN, nmReason, List.findSome?_cons, Function.comp_def]
  | none =>
    obtain ⟨o, r, sel, _, hshape⟩ := runOnce_shape_d p ff0 hwf hskip
    have cf := runCore_facts p ff0 hwf hskip
    obtain ⟨T, A, U, hD⟩ := runCore_invD p ff0 hwf
    rw [hshape]
    simp only [cNamesDistinct, detailsOf_shape _ _ cf.logPure, idsNodupN_iff]
    apply List.Nodup.sublist (names_visible_sublist _ _ _)
    rw [names_frozen]
    exact (hD.js.final (handlers p) sel).nodup

theorem clause_reason : cReason p ff0 (runOnce p ff0) = true := by
  simp only [cReason, Bool.or_eq_true]
  by_cases h1 : p.flavour = .py26
  · left; left; left; simp [h1]
  by_cases h2 : p.flavour = .stream
  · left; left; right; simp [h2]
  by_cases h3 : p.userHandlers.any (fun h => match h.2 with | .user _ .skip => true | _ => false) = true
  · left; right; exact h3
  right
  cases hskip : p.skipDeco with
  | some r =>
    have hd := degrade_id p.flavour .skip h1 h2
    have hv := find_reason_visible p.flavour [(nmReason, .reason r)] h1 h2
    have ho : outcomeOf (runOnce p ff0) =
        some (degrade p.flavour .skip, visibleDetails p.flavour .skip [(nmReason, .reason r)]) := by
      simp only [runOnce, hskip, outcomeOf, wrapRun, stopEv]
      cases p.flavour <;> simp [evOutcome, List.findSome?_cons]
    rw [ho, hd]
    simp only [hv]
    simp
  | none =>
    obtain ⟨o, r, sel, hdec, hshape⟩ := runOnce_shape_d p ff0 hwf hskip
    have cf := runCore_facts p ff0 hwf hskip
    rw [hshape, C01.outcomeOf_shape _ _ cf.logPure, degrade_id _ _ h1 h2]
    cases hdec with
    | success hnil => rfl
    | lastResort e hsel hh => rfl
    | handled e rep hsel hh =>
      cases rep with
      | user i o' =>
        cases o' <;> try rfl
        -- a user-supplied skip reporter: excluded above
        exfalso
        apply h3
        obtain ⟨c, hm⟩ := C03.handlerFor_mem _ _ _ hh
        simp only [handlers, List.mem_append] at hm
        rcases hm with hm | hm
        · exact List.any_eq_true.mpr ⟨_, hm, rfl⟩
        · have := List.all_eq_true.mp C03.default_reporters _ hm
          simp at this
      | std o' =>
        cases o' <;> try rfl
        simp only [Reporter.outcome]
        rw [(reads_of p ff0 hwf hskip _ _ _ _ _ _).raised]
        have hfind : ((visibleDetails p.flavour .skip (frozenDetails (runCore p ff0).1
            (finalDetails (handlers p) (runCore p ff0).1 (some e)))).find? (fun x => x.1 == nmReason)).map (·.2)
              = some (Content.reason e.tag) := by
          rw [find_reason_visible _ _ h1 h2, find_frozen]
          simp only [finalDetails, hh, if_true, find_dset_self]
          rfl
        rw [hfind]
        simp only [Bool.or_eq_true]
        right
        simp only [List.contains_eq_mem, List.mem_map, List.mem_filter, decide_eq_true_eq]
        exact ⟨e, ⟨select_mem _ _ _ hsel, by simp [hh]⟩, rfl⟩

theorem finalClock_eq (hskip : p.skipDeco = none) (o : Outcome) (d : Details) (r : Option Exc) (ffa : Bool) (n : Nat)
    (a : List (Nat × Nat)) :
    finalClock ⟨wrapRun p.flavour ([.startTest] ++ (runCore p ff0).1.log ++ [.outcome o d] ++ stopEv p.flavour), r, ffa, n, a⟩
      = (runCore p ff0).1.clock := by
  obtain ⟨T, A, U, hD⟩ := runCore_invD p ff0 hwf
  rw [finalClock, (reads_of p ff0 hwf hskip _ _ _ _ _ _).ids, hD.clock]; simp

theorem clause_userDetails : cUserDetails p ff0 (runOnce p ff0) = true := by
  simp only [cUserDetails, Bool.or_eq_true]
  by_cases hsd : showsDetails p.flavour = true
  case neg => left; left; simpa using hsd
  cases hskip : p.skipDeco with
  | some r => left; right; rfl
  | none =>
    right
    obtain ⟨o, r, sel, _, hshape⟩ := runOnce_shape_d p ff0 hwf hskip
    have cf := runCore_facts p ff0 hwf hskip
    obtain ⟨T, A, U, hD⟩ := runCore_invD p ff0 hwf
    have hJ := hD.js.final (handlers p) sel
    rw [hshape]
    simp only [detailsOf_shape _ _ cf.logPure, finalClock_eq p ff0 hwf hskip, plainAdds_eq,
      (reads_of p ff0 hwf hskip _ _ _ _ _ _).executed, ← hD.adds, visibleDetails, hsd, if_true]
    rw [List.all_eq_true]
    rintro ⟨⟨n, c⟩, i⟩ hx
    have hget : A[i]? = some (n, c) := List.mem_zipIdx_iff_getElem?.mp hx
    simp only [Bool.or_eq_true]
    by_cases hlater : (A.drop (i + 1)).any (fun x => x.1 == n) = true
    · exact Or.inl hlater
    · right
      have hl := lastAdd_of_idx A n c i hget (Bool.not_eq_true _ ▸ hlater)
      rw [find_frozen, hJ.ud n c hl]
      simp [freeze_user]

theorem clause_tracebacks (hcl : p.skipDeco = none → (runCore p ff0).1.clobbered = false) :
    cTracebacks p ff0 (runOnce p ff0) = true := by
  simp only [cTracebacks, Bool.or_eq_true]
  by_cases hsd : showsDetails p.flavour = true
  case neg => left; left; simpa using hsd
  cases hskip : p.skipDeco with
  | some r => left; right; rfl
  | none =>
    right
    obtain ⟨o, r, sel, _, hshape⟩ := runOnce_shape_d p ff0 hwf hskip
    have cf := runCore_facts p ff0 hwf hskip
    obtain ⟨T, A, U, hD⟩ := runCore_invD p ff0 hwf
    have hJ := hD.js.final (handlers p) sel
    have hT := hJ.tbs (hcl hskip)
    rw [hshape]
    simp only [detailsOf_shape _ _ cf.logPure, requiredTbs_eq, relatedTbs_eq,
      (reads_of p ff0 hwf hskip _ _ _ _ _ _).executed, (reads_of p ff0 hwf hskip _ _ _ _ _ _).raised,
      visibleDetails, hsd, if_true, tbsIn_frozen, hT, Bool.and_eq_true]
    exact ⟨tbs_required _ _ _ hD.tperm, tbs_related _ _ _ hD.tperm⟩

/-- every mismatch / fixture detail of an executed stage has been stored, with the bytes due -/
theorem unique_cov (hskip : p.skipDeco = none) (o : Outcome) (d : Details) (r : Option Exc) (ffa : Bool) (m : Nat)
    (a : List (Nat × Nat)) (U : List (DName × Content)) (hC : Cov (runCore p ff0).1 U)
    (hnd : ((runCore p ff0).1.execd.map Stage.id).Nodup) (n : DName) (c : Content)
    (h : (n, c) ∈ uniqueAdds p
      ⟨wrapRun p.flavour ([.startTest] ++ (runCore p ff0).1.log ++ [.outcome o d] ++ stopEv p.flavour), r, ffa, m, a⟩) :
    ∃ u ∈ U, u.1 = n ∧ freeze (runCore p ff0).1.clock u.2 = c := by
  have cf := runCore_facts p ff0 hwf hskip
  have hids := (reads_of p ff0 hwf hskip o d r ffa m a).ids
  have hfin := finalClock_eq p ff0 hwf hskip o d r ffa m a
  have htimed : timed p ⟨wrapRun p.flavour ([.startTest] ++ (runCore p ff0).1.log ++ [.outcome o d] ++ stopEv p.flavour), r, ffa, m, a⟩
      = ((runCore p ff0).1.execd.zipIdx 1).map fun x => (x.2, x.1) := by
    unfold timed
    rw [hids]
    exact timed_eq_aux p _ 1 (fun st hst => findStage_of_mem p hwf st (cf.execdIn st hst))
  simp only [uniqueAdds, htimed, hids, hfin, List.mem_flatMap, List.mem_map] at h
  obtain ⟨⟨k, st⟩, ⟨⟨st', k'⟩, hz, hk⟩, h⟩ := h
  simp only [Prod.mk.injEq] at hk
  obtain ⟨rfl, rfl⟩ := hk
  obtain ⟨hk1, hk2, hget⟩ := List.mem_zipIdx hz
  have hi : (runCore p ff0).1.execd[k' - 1]? = some st' := by
    rw [List.getElem?_eq_some_iff]; exact ⟨by omega, hget.symm⟩
  have hmem : st' ∈ (runCore p ff0).1.execd := List.mem_of_getElem? hi
  simp only [List.mem_append, List.mem_flatMap] at h
  rcases h with ⟨act, hact, h⟩ | h
  · cases act with
    | expect mid ds =>
      obtain ⟨h1, h2⟩ := mem_uqActs_expect st'.acts mid ds hact
      simp only [List.mem_append, List.mem_map, List.mem_singleton] at h
      rcases h with ⟨x, hx, he⟩ | he
      · cases he
        exact ⟨_, hC.acts st' hmem _ (h2 x hx), rfl, freeze_user _ _⟩
      · cases he
        exact ⟨_, hC.acts st' hmem _ h1, rfl, rfl⟩
    | useFixture f ds cu =>
      simp only [List.mem_map] at h
      obtain ⟨x, hx, he⟩ := h
      cases he
      rcases hC.fix st' hmem f ds cu hact with ⟨pre, post, hp⟩ | ⟨post, hp, _, _⟩ | ⟨t, ht, hg⟩
      · rw [cf.stack] at hp; simp at hp
      · rw [cf.stack] at hp; simp at hp
      · have hidx : ((runCore p ff0).1.execd.map Stage.id).idxOf cu.id = t := by
          obtain ⟨hlt, hget⟩ := List.getElem?_eq_some_iff.mp ht
          have hlt' : t < ((runCore p ff0).1.execd.map Stage.id).length := by simpa using hlt
          have := hnd.idxOf_getElem t hlt'
          simpa [hget] using this
        rw [hidx]
        refine ⟨_, hg _ (List.mem_map.mpr ⟨x, hx, rfl⟩), rfl, ?_⟩
        rw [freeze_idem, freeze_user]
    | cleanup s => simp at h
    | addDetail n' c' => simp at h
    | patch k v => simp at h
  · have hk' : k' - 1 + 1 = k' := by omega
    have hterm := hC.term (k' - 1) st' hi
    rw [hk'] at hterm
    cases ht : st'.term with
    | assertFail e ds =>
      rw [ht] at h hterm
      simp only [List.mem_map] at h
      obtain ⟨x, hx, he⟩ := h
      cases he
      exact ⟨_, hterm _ (by simp only [uqTerm, List.mem_map]; exact ⟨x, hx, rfl⟩), rfl, freeze_user _ _⟩
    | fixtureFail ds e ces se =>
      rw [ht] at h hterm
      simp only [List.mem_map] at h
      obtain ⟨x, hx, he⟩ := h
      cases he
      refine ⟨_, hterm _ (by simp only [uqTerm, List.mem_map]; exact ⟨x, hx, rfl⟩), rfl, ?_⟩
      rw [freeze_idem, freeze_user]
    | ret => rw [ht] at h; simp at h
    | raise1 e => rw [ht] at h; simp at h
    | raiseMulti es me => rw [ht] at h; simp at h
    | expectFailure r' eo x => rw [ht] at h; simp at h

theorem clause_uniqueDetails (hcl : p.skipDeco = none → (runCore p ff0).1.clobbered = false) :
    cUniqueDetails p ff0 (runOnce p ff0) = true := by
  simp only [cUniqueDetails, Bool.or_eq_true]
  by_cases hsd : showsDetails p.flavour = true
  case neg => left; left; simpa using hsd
  cases hskip : p.skipDeco with
  | some r => left; right; rfl
  | none =>
    right
    obtain ⟨o, r, sel, _, hshape⟩ := runOnce_shape_d p ff0 hwf hskip
    have cf := runCore_facts p ff0 hwf hskip
    obtain ⟨T, A, U, hA⟩ := runCore_invAll p ff0 hwf
    have hJ := hA.d.js.final (handlers p) sel
    rw [hcl hskip] at hJ
    have hK : (keysU U ++ keysA A).Nodup := by
      have := hA.keys.nodup
      rw [cf.stack] at this
      simpa [pendingKeys] using this
    have hnd := (List.nodup_append.mp hA.once.nodup).1
    rw [hshape, List.all_eq_true]
    rintro ⟨n, c⟩ hx
    obtain ⟨u, hu, rfl, rfl⟩ := unique_cov p ff0 hwf hskip _ _ _ _ _ _ U hA.cov hnd n c hx
    have := stored_once (runCore p ff0).1.clock hJ hK u hu
    simp only [detailsOf_shape _ _ cf.logPure, visibleDetails, hsd, if_true, frozenDetails, Bool.and_eq_true, beq_iff_eq]
    exact ⟨this.1, this.2⟩

end perRun

/-! ## headline -/
theorem perRun_runMany_partial (c : Program → Bool → Trace → Bool) (p : Program)
    (h : ∀ ff0, (p.skipDeco = none → (runCore p ff0).1.clobbered = false) → c p ff0 (runOnce p ff0) = true) :
    ∀ (n : Nat) (ff0 : Bool), clobberedRuns p n ff0 = false → perRun c p ff0 (runMany p n ff0) = true
  | 0, _, _ => rfl
  | n + 1, ff0, hc => by
    simp only [clobberedRuns, Bool.or_eq_false_iff, Bool.and_eq_false_iff] at hc
    have h1 : p.skipDeco = none → (runCore p ff0).1.clobbered = false := by
      intro hs
      rcases hc.1 with h1 | h1
      · simp [hs] at h1
      · exact h1
    simp only [runMany, perRun, h ff0 h1, Bool.true_and]
    exact perRun_runMany_partial c p h n _ hc.2

theorem lift_model_partial (c : Program → Bool → Trace → Bool) (i : Input) (hl : lateCollision i = false)
    (h : wf i.prog = true → ∀ ff0, (i.prog.skipDeco = none → (runCore i.prog ff0).1.clobbered = false) →
      c i.prog ff0 (runOnce i.prog ff0) = true) : lift c i (model i) = true := by
  unfold lift model
  cases hwf : wf i.prog with
  | false => simp
  | true => simp [C01.runMany_length, perRun_runMany_partial c i.prog (h hwf) i.runs false hl]

/-- The executable spec of C05 holds of the model's trace for every input outside the known-finding class
`lateCollision` (D3: a plain `addDetail(n)` replaced an entry stored under a generated / renamed name).
Full statement (false inside the class, see `C05_finding_witness`): `∀ i, holds i (model i) = true`. -/
theorem holds_model_partial (i : Input) (h : lateCollision i = false) : holds i (model i) = true := by
  simp only [holds, clauses, List.all_cons, List.all_nil, Bool.and_true, Bool.and_eq_true]
  exact ⟨C01.lift_model _ i (fun hwf ff0 => clause_userDetails _ ff0 hwf),
    lift_model_partial _ i h (fun hwf ff0 hcl => clause_uniqueDetails _ ff0 hwf hcl),
    lift_model_partial _ i h (fun hwf ff0 hcl => clause_tracebacks _ ff0 hwf hcl),
    C01.lift_model _ i (fun hwf ff0 => clause_namesDistinct _ ff0 hwf),
    C01.lift_model _ i (fun hwf ff0 => clause_reason _ ff0 hwf),
    C01.lift_model _ i (fun hwf ff0 => clause_onException _ ff0 hwf)⟩

/-! ## the finding: a plain `addDetail('traceback')` in tearDown replaces the traceback of the test's failure -/
def witness : Program :=
  { skipDeco := none, xfailDeco := false
    setUp := .mk 1 [] .ret
    body := .mk 2 [] (.raise1 ⟨.failure, 1⟩)
    tearDown := .mk 3 [.addDetail nmTraceback ⟨1, false⟩] .ret
    userHandlers := [], nOnExc := 0, attrs0 := [], flavour := .ext }

theorem witness_core : runCore witness false = runCoreNC witness false :=
  runCore_noCleanups witness false (by decide)

theorem C05_finding_witness_class : lateCollision ⟨witness, 1⟩ = true := by
  simp only [lateCollision, clobberedRuns, witness_core]
  decide

theorem C05_finding_witness : ∃ i, lateCollision i = true ∧ holds i (model i) = false := by
  refine ⟨⟨witness, 1⟩, C05_finding_witness_class, ?_⟩
  simp only [model, runMany, runOnce, witness_core]
  decide

/-! ## readable statements -/

/-- C05 (renaming never overwrites): `addDetailUniqueName(n, c)` appends a new entry — under `n` itself or a
`-k` renaming of it that is not yet a key of the dict; every entry present before is still there, unchanged.
(The rename loop of `addDetailUniqueName` / `gather_details` always finds a free name.) -/
theorem C05_unique_never_overwrites (d : Details) (n : DName) (c : Content) :
    addUnique d n c = d ++ [(uniq d n, c)] ∧ uniq d n ∉ dnames d ∧ isRenaming n (uniq d n) = true :=
  ⟨dset_of_not_mem d _ c (uniq_not_mem d n), uniq_not_mem d n, uniq_renaming d n⟩

/-- C05 (traceback labels never overwrite): `_report_traceback` stores the traceback under a label
(`traceback`, `traceback-1`, `traceback-1-2`, …) that is not yet a key of the dict — the label loop has enough
fuel by a pigeonhole argument on the strictly growing suffix lists. -/
theorem C05_traceback_never_overwrites (s : RS) (e : Exc) :
    (reportTb s e).details = s.details ++ [(tbName s, .tb e)] ∧ tbName s ∉ dnames s.details := by
  refine ⟨?_, tbName_fresh s⟩
  rw [reportTb_details, dset_of_not_mem _ _ _ (tbName_fresh s)]

/-- C05 (tracebacks, outside the finding class): on results that receive the details dict, the tracebacks among
the reported details are exactly — as a multiset, none lost, none invented, none twice — those of every
exception handed to the runner whose class is not exempt (skip / expected failure / unexpected success), in
whatever stage it was raised (constituents of MultipleExceptions counted separately, the forced failure
included), plus the assertion behind each `expectFailure` and the failure caught by the expectedFailure
decorator.  Hypothesis: no plain `addDetail` replaced a generated entry in this run (finding D3).
Full statement (false, see `C05_finding_witness`): the same without the hypothesis `hcl`. -/
theorem C05_tracebacks_partial (p : Program) (ff0 : Bool) (hwf : wf p = true) (hskip : p.skipDeco = none)
    (hsd : showsDetails p.flavour = true) (hcl : (runCore p ff0).1.clobbered = false) :
    (tbsIn (detailsOf (runOnce p ff0))).Perm
      (tbFilter (runCore p ff0).1.excs ++ (runCore p ff0).1.execd.flatMap (extraTbs p)) := by
  obtain ⟨o, r, sel, _, hshape⟩ := runOnce_shape_d p ff0 hwf hskip
  have cf := runCore_facts p ff0 hwf hskip
  obtain ⟨T, A, U, hD⟩ := runCore_invD p ff0 hwf
  have hT := (hD.js.final (handlers p) sel).tbs hcl
  rw [hshape]
  simp only [detailsOf_shape _ _ cf.logPure, visibleDetails, hsd, if_true, tbsIn_frozen, hT]
  exact hD.tperm

/-- C05 (user details): on results that receive the details dict, every name attached by plain `addDetail`
arrives with the value of the last `addDetail` for that name, its bytes read when the outcome is reported —
whatever else happened in the run (also inside the finding class). -/
theorem C05_user_details (p : Program) (ff0 : Bool) (hwf : wf p = true) (hskip : p.skipDeco = none)
    (hsd : showsDetails p.flavour = true) (n : DName) (c : UC)
    (h : lastAdd ((runCore p ff0).1.execd.flatMap fun st => plainOf st.acts) n = some c) :
    (detailsOf (runOnce p ff0)).find? (fun x => x.1 == n) = some (n, evalAt (runCore p ff0).1.clock c) := by
  obtain ⟨o, r, sel, _, hshape⟩ := runOnce_shape_d p ff0 hwf hskip
  have cf := runCore_facts p ff0 hwf hskip
  obtain ⟨T, A, U, hD⟩ := runCore_invD p ff0 hwf
  have hJ := hD.js.final (handlers p) sel
  rw [hshape]
  simp only [detailsOf_shape _ _ cf.logPure, visibleDetails, hsd, if_true]
  rw [find_frozen, hJ.ud n c (hD.adds ▸ h)]
  simp [freeze_user]

/-- C05 (mismatch and fixture details, outside the finding class): on results that receive the details dict,
every detail handed over by an `expectThat` / `assertThat` mismatch, the marker of every failed expectation, and
every detail of every used fixture (also of a fixture whose setUp failed) arrives exactly once — under its own
name or a `-k` renaming of it — with the bytes due (mismatch details: read when the outcome is reported; fixture
details: read when gathered, i.e. right before the fixture's cleanUp; a failed fixture: at that moment).
Hypothesis: no plain `addDetail` replaced a generated entry in this run (finding D3).
Full statement (false inside the class): the same without the hypothesis `hcl`. -/
theorem C05_mismatch_fixture_partial (p : Program) (ff0 : Bool) (hwf : wf p = true) (hskip : p.skipDeco = none)
    (hsd : showsDetails p.flavour = true) (hcl : (runCore p ff0).1.clobbered = false) :
    ∀ x ∈ uniqueAdds p (runOnce p ff0),
      ((detailsOf (runOnce p ff0)).filter fun y => y.2 == x.2).length = 1 ∧
      ∃ y ∈ detailsOf (runOnce p ff0), y.2 = x.2 ∧ isRenaming x.1 y.1 = true := by
  have := clause_uniqueDetails p ff0 hwf (fun _ => hcl)
  simp only [cUniqueDetails, hsd, hskip, Bool.not_true, Option.isSome_none, Bool.false_or, List.all_eq_true,
    Bool.and_eq_true, beq_iff_eq] at this
  intro x hx
  obtain ⟨h1, h2⟩ := this x hx
  refine ⟨h1, ?_⟩
  obtain ⟨y, hy, hyc⟩ := List.any_eq_true.mp h2
  simp only [Bool.and_eq_true, beq_iff_eq] at hyc
  exact ⟨y, hy, hyc.1, hyc.2⟩

/-- C05 (names): the reported details never contain a name twice. -/
theorem C05_names_distinct (p : Program) (ff0 : Bool) (hwf : wf p = true) :
    ((detailsOf (runOnce p ff0)).map (·.1)).Nodup := by
  have := clause_namesDistinct p ff0 hwf
  simpa [cNamesDistinct, idsNodupN_iff] using this

/-- C05 (onException handlers): every handler registered with `addOnException` is called exactly once per
exception handed to the runner, in registration order, exception by exception — and all of these calls precede
the outcome event. -/
theorem C05_onexception (p : Program) (ff0 : Bool) (hwf : wf p = true) (hskip : p.skipDeco = none) :
    onExcOf (runOnce p ff0) = handlerCalls p.nOnExc (runCore p ff0).1.excs ∧
    ((runOnce p ff0).events.dropWhile fun | .outcome _ _ => false | _ => true).all
      (fun | .onExc _ _ => false | _ => true) = true := by
  have := clause_onException p ff0 hwf
  simp only [cOnException, hskip, Option.isSome_none, Bool.false_or, Bool.and_eq_true, beq_iff_eq] at this
  refine ⟨?_, this.2⟩
  rw [this.1]
  obtain ⟨o, d, r, sel, _, hshape⟩ := runOnce_shape p ff0 hwf hskip
  rw [hshape, (reads_of p ff0 hwf hskip _ _ _ _ _ _).raised]
  rfl

/-- C05 (skip reason): a skip reported by the case's own skip reporter carries a `reason` detail, and it is the
reason of one of the skip exceptions raised in the run (the selected one). -/
theorem C05_reason (p : Program) (ff0 : Bool) (hwf : wf p = true) : cReason p ff0 (runOnce p ff0) = true :=
  clause_reason p ff0 hwf

/-! ## non-vacuity -/
/-- the hypotheses of `C05_tracebacks_partial` are satisfiable: a failing test with a failing cleanup, a
fixture with details, a mismatching `expectThat` and a plain detail, nothing clobbered -/
def demo : Program :=
  { skipDeco := none, xfailDeco := false
    setUp := .mk 1 [.addDetail ⟨3, []⟩ ⟨1, true⟩] .ret
    body := .mk 2 [.expect 0 [(⟨3, []⟩, ⟨2, false⟩)]] (.raise1 ⟨.failure, 1⟩)
    tearDown := .mk 3 [] (.raise1 ⟨.exc, 2⟩)
    userHandlers := [], nOnExc := 2, attrs0 := [], flavour := .ext }

example : wf demo = true ∧ demo.skipDeco = none ∧ showsDetails demo.flavour = true := by decide
example : lateCollision ⟨witness, 1⟩ = true := C05_finding_witness_class

/-! ## the code itself (translator tie, DESIGN D.2a item 2e)

`harness/pyres2lean.py` re-reads the detail-naming code on every run into `TTV/Generated/DetailSrc.lean`: the parameters of
the three unique-name loops (recognised up to local names, layout and `== None`), and the canonical skeletons of
`addDetail`, `getDetails`, `_add_reason`, `onException` and `RunTest._got_user_exception`. -/
section src
def loopOf (f : String) : List String := (TTV.SrcRef.DetailSrc.nameLoops.lookup f).getD []

/-- **C05 (source: the unique-name loops).**  `addDetailUniqueName` and `gather_details` try the plain name first and then
`name-1`, `name-2`, … built from the *original* name with a counter that starts at 1 for every call / detail — `uniqFrom`;
`_report_traceback` tries the plain label first and then appends `-k` to the label *as it stands* (`traceback`,
`traceback-1`, `traceback-1-2`, …) with a counter that starts at 0 and lives as long as the run — `tbLabel`. -/
theorem C05_src_name_loops :
    TTV.Generated.DetailSrc.nameLoops = TTV.SrcRef.DetailSrc.nameLoops ∧
    loopOf "addDetailUniqueName" = ["start 1", "base original", "counter per-call", "first plain", "format %s-%d", "store addDetail"] ∧
    loopOf "gather_details" = ["start 1", "base original", "counter per-detail", "first plain", "format %s-%d", "store copy-content"] ∧
    loopOf "_report_traceback" =
      ["start 0", "base cumulative", "counter per-run-and-label", "first plain", "format %s-%d", "store addDetail-traceback"] ∧
    -- the model's loops, step by step
    (∀ (n : DName) (k : Nat) (taken : List DName),
      uniqFrom n k taken =
        (let cand := if k = 0 then n else n.push k
         if cand ∈ taken then uniqFrom n (k + 1) (taken.erase cand) else cand)) ∧
    (∀ (names : List DName) (fuel c : Nat) (l : DName),
      tbLabel names (fuel + 1) c l =
        (let l' := if c = 0 then l else l.push c
         if l' ∈ names then tbLabel names fuel (c + 1) l' else (l', c + 1))) := by
  refine ⟨rfl, by decide, by decide, by decide, ?_, fun _ _ _ _ => rfl⟩
  intro n k taken
  rw [uniqFrom]
  simp only
  split <;> rfl

/-- **C05 (source: `addDetail`, `getDetails`, `_add_reason`, the loops' bodies, `onException`).**  `addDetail` stores under
the given name (plain set: the last value wins), `_add_reason` under the name `reason`, `onException` reports the traceback
unless the class is one of the three no-traceback classes and then calls the user handlers in order. -/
theorem C05_src_shapes :
    TTV.Generated.DetailSrc.addDetail = TTV.SrcRef.DetailSrc.addDetail ∧
    TTV.Generated.DetailSrc.getDetails = TTV.SrcRef.DetailSrc.getDetails ∧
    TTV.Generated.DetailSrc.addReason = TTV.SrcRef.DetailSrc.addReason ∧
    TTV.Generated.DetailSrc.addDetailUniqueName = TTV.SrcRef.DetailSrc.addDetailUniqueName ∧
    TTV.Generated.DetailSrc.reportTraceback = TTV.SrcRef.DetailSrc.reportTraceback ∧
    TTV.Generated.DetailSrc.gatherDetails = TTV.SrcRef.DetailSrc.gatherDetails ∧
    TTV.Generated.DetailSrc.onException = TTV.SrcRef.DetailSrc.onException :=
  ⟨rfl, rfl, rfl, rfl, rfl, rfl, rfl⟩

/-- **C05 (source: `RunTest._got_user_exception`).**  A non-empty `MultipleExceptions` is unpacked in the order of its
arguments, each through `_got_user_exception` again (`gotAll`); a plain exception goes to `onException` (traceback, user
handlers) and is then appended to `_exceptions` (`got`). -/
theorem C05_src_got_user_exception :
    TTV.Generated.DetailSrc.gotUserException = TTV.SrcRef.DetailSrc.gotUserException ∧
    (∀ (s : RS) (e : Exc) (es : List Exc), gotAll s (e :: es) = gotAll (got s e) es) ∧
    (∀ (s : RS) (e : Exc), (got s e).excs = s.excs ++ [e]) := by
  refine ⟨rfl, fun _ _ _ => rfl, fun s e => ?_⟩
  simp only [got]
  split <;> simp [reportTb]
/-- **C05 (source: the reporters, what a run resets, fixtures, cleanups).**  The five `_report_*` handlers end with one call of the
outcome method with `details=self.getDetails()` (the details are read when the outcome is reported); `_report_skip` adds the
reason first; `__init__` calls `_reset()` and then creates the `addOnException` handler list (so `_reset()` — a second run — keeps
the handlers); `_reset` empties the cleanups, the traceback counters and the details; `expectFailure` adds the reason, then
the traceback; `useFixture` gathers the fixture's details; `_run_cleanups` pops until the list is empty. -/
theorem C05_src_reports :
    TTV.Generated.DetailSrc.caseInit = TTV.SrcRef.DetailSrc.caseInit ∧
    TTV.Generated.DetailSrc.caseReset = TTV.SrcRef.DetailSrc.caseReset ∧
    TTV.Generated.DetailSrc.expectFailure = TTV.SrcRef.DetailSrc.expectFailure ∧
    TTV.Generated.DetailSrc.useFixture = TTV.SrcRef.DetailSrc.useFixture ∧
    TTV.Generated.DetailSrc.reportError = TTV.SrcRef.DetailSrc.reportError ∧
    TTV.Generated.DetailSrc.reportExpectedFailure = TTV.SrcRef.DetailSrc.reportExpectedFailure ∧
    TTV.Generated.DetailSrc.reportFailure = TTV.SrcRef.DetailSrc.reportFailure ∧
    TTV.Generated.DetailSrc.reportSkip = TTV.SrcRef.DetailSrc.reportSkip ∧
    TTV.Generated.DetailSrc.reportUnexpectedSuccess = TTV.SrcRef.DetailSrc.reportUnexpectedSuccess ∧
    TTV.Generated.DetailSrc.runCleanups = TTV.SrcRef.DetailSrc.runCleanups ∧
    TTV.SrcRef.DetailSrc.reportSkip.drop 8 =
      ["  self._add_reason(v0)", "  a0.addSkip(self, details=self.getDetails())"] ∧
    TTV.SrcRef.DetailSrc.reportError.drop 2 = ["  a0.addError(self, details=self.getDetails())"] ∧
    TTV.SrcRef.DetailSrc.reportFailure.drop 2 = ["  a0.addFailure(self, details=self.getDetails())"] ∧
    TTV.SrcRef.DetailSrc.reportExpectedFailure.drop 2 = ["  a0.addExpectedFailure(self, details=self.getDetails())"] ∧
    TTV.SrcRef.DetailSrc.reportUnexpectedSuccess.drop 2 = ["  a0.addUnexpectedSuccess(self, details=self.getDetails())"] ∧
    TTV.SrcRef.DetailSrc.caseReset.drop 1 =
      ["  self._cleanups = []", "  self._unique_id_gen = itertools.count(1)", "  self.__details = None",
       "  self.__setup_called = False", "  self.__teardown_called = False", "  self._traceback_id_gens = {}"] :=
  ⟨rfl, rfl, rfl, rfl, rfl, rfl, rfl, rfl, rfl, rfl, rfl, rfl, rfl, rfl, rfl, rfl⟩

end src

end TTV.Props.C05
