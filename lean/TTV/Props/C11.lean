import TTV.Model.StreamDeco
import TTV.Spec.C11
namespace TTV.Props.C11
end TTV.Props.C11
