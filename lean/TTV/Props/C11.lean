import TTV.Model.StreamDeco
import TTV.Generated.C11
import TTV.Spec.C11
import TTV.Lemmas.DecoSrc
import TTV.Generated.DecoSrc
/-! # C11 — stream decorators forward each event once, change only their field, never alias

All statements are for **every** decorator tree (any depth and fan-out), every heap of caller objects and
every call sequence. -/
namespace TTV.Props.C11
open TTV.Stream TTV.Stream.Deco TTV.Spec.C11

/-! ## pointwise relation between two lists -/
def All2 {α β : Type} (R : α → β → Prop) : List α → List β → Prop
  | [], [] => True
  | a :: as, b :: bs => R a b ∧ All2 R as bs
  | _, _ => False

theorem All2.append {α β : Type} {R : α → β → Prop} : ∀ {as : List α} {bs : List β} {as' : List α} {bs' : List β},
    All2 R as bs → All2 R as' bs' → All2 R (as ++ as') (bs ++ bs')
  | [], [], _, _, _, h => by simpa using h
  | a :: as, b :: bs, _, _, h1, h2 => by
      simp only [List.cons_append, All2] at h1 ⊢
      exact ⟨h1.1, All2.append h1.2 h2⟩
  | [], _ :: _, _, _, h, _ => by simp [All2] at h
  | _ :: _, [], _, _, h, _ => by simp [All2] at h

theorem All2.imp {α β : Type} {R S : α → β → Prop} (hRS : ∀ a b, R a b → S a b) :
    ∀ {as : List α} {bs : List β}, All2 R as bs → All2 S as bs
  | [], [], _ => trivial
  | a :: as, b :: bs, h => ⟨hRS a b h.1, All2.imp hRS h.2⟩
  | [], _ :: _, h => by simp [All2] at h
  | _ :: _, [], h => by simp [All2] at h

theorem All2.map_left {α β γ : Type} {R : α → β → Prop} (f : γ → α) :
    ∀ {cs : List γ} {bs : List β}, All2 (fun c b => R (f c) b) cs bs → All2 R (cs.map f) bs
  | [], [], _ => trivial
  | c :: cs, b :: bs, h => ⟨h.1, All2.map_left f h.2⟩
  | [], _ :: _, h => by simp [All2] at h
  | _ :: _, [], h => by simp [All2] at h

theorem All2.map_left' {α β : Type} (f : α → β) : ∀ (as : List α), All2 (fun a b => b = f a) as (as.map f)
  | [] => trivial
  | a :: as => ⟨rfl, All2.map_left' f as⟩

theorem All2.map_right {α β γ : Type} {R : α → γ → Prop} (f : β → γ) :
    ∀ {as : List α} {bs : List β}, All2 (fun a b => R a (f b)) as bs → All2 R as (bs.map f)
  | [], [], _ => trivial
  | a :: as, b :: bs, h => ⟨h.1, All2.map_right f h.2⟩
  | [], _ :: _, h => by simp [All2] at h
  | _ :: _, [], h => by simp [All2] at h

theorem All2.right_mem {α β : Type} {R : α → β → Prop} :
    ∀ {as : List α} {bs : List β}, All2 R as bs → ∀ b ∈ bs, ∃ a, R a b
  | [], [], _, b, hb => by simp at hb
  | a :: as, b' :: bs, h, b, hb => by
      rcases List.mem_cons.mp hb with rfl | hb
      · exact ⟨a, h.1⟩
      · exact All2.right_mem h.2 b hb
  | [], _ :: _, h, _, _ => by simp [All2] at h
  | _ :: _, [], h, _, _ => by simp [All2] at h

theorem All2.length {α β : Type} {R : α → β → Prop} : ∀ {as : List α} {bs : List β}, All2 R as bs → as.length = bs.length
  | [], [], _ => rfl
  | a :: as, b :: bs, h => by simp [All2.length h.2]
  | [], _ :: _, h => by simp [All2] at h
  | _ :: _, [], h => by simp [All2] at h

theorem All2.zipWith {α β : Type} {R S T : α → List β → Prop}
    (hT : ∀ a b c, R a b → S a c → T a (b ++ c)) :
    ∀ {as : List α} {bs cs : List (List β)}, All2 R as bs → All2 S as cs → All2 T as (List.zipWith (· ++ ·) bs cs)
  | [], [], [], _, _ => trivial
  | a :: as, b :: bs, c :: cs, h1, h2 => ⟨hT a b c h1.1 h2.1, All2.zipWith hT h1.2 h2.2⟩
  | [], _ :: _, _, h, _ => by simp [All2] at h
  | _ :: _, [], _, h, _ => by simp [All2] at h
  | [], [], _ :: _, _, h => by simp [All2] at h
  | _ :: _, _ :: _, [], _, h => by simp [All2] at h

theorem All2.to_bool {α β : Type} {R : α → β → Prop} {p : α → β → Bool} (h : ∀ a b, R a b → p a b = true) :
    ∀ {as : List α} {bs : List β}, All2 R as bs → Spec.C11.all2 p as bs = true
  | [], [], _ => rfl
  | a :: as, b :: bs, hh => by simp [Spec.C11.all2, h a b hh.1, All2.to_bool h hh.2]
  | [], _ :: _, hh => by simp [All2] at hh
  | _ :: _, [], hh => by simp [All2] at hh

/-! ## the heap only grows -/
def Le (h h' : Heap) : Prop := h'.caller = h.caller ∧ ∃ x, h'.fresh = h.fresh ++ x

theorem Le.refl (h : Heap) : Le h h := ⟨rfl, [], by simp⟩
theorem Le.trans {a b c : Heap} (h1 : Le a b) (h2 : Le b c) : Le a c := by
  obtain ⟨c1, x, hx⟩ := h1
  obtain ⟨c2, y, hy⟩ := h2
  exact ⟨c2.trans c1, x ++ y, by rw [hy, hx, List.append_assoc]⟩

/-- the reference denotes an existing object -/
def Valid (h : Heap) : Option Ref → Prop
  | some (.fresh k) => k < h.fresh.length
  | _ => True

theorem Valid.mono {h h' : Heap} (hle : Le h h') {r : Option Ref} (hv : Valid h r) : Valid h' r := by
  obtain ⟨_, x, hx⟩ := hle
  cases r with
  | none => trivial
  | some r =>
    cases r with
    | caller k => trivial
    | fresh k => simp only [Valid, hx, List.length_append] at hv ⊢; omega

/-- existing objects keep their value -/
theorem deref_le {h h' : Heap} (hle : Le h h') {r : Option Ref} (hv : Valid h r) : deref h' r = deref h r := by
  obtain ⟨hc, x, hx⟩ := hle
  cases r with
  | none => rfl
  | some r =>
    cases r with
    | caller k => simp [deref, hc]
    | fresh k =>
      simp only [Valid] at hv
      simp [deref, hx, List.getElem?_append_left hv]

/-! ## tables -/
theorem fires_eq (s : Option Status) : fires s = triggers s := by
  cases s with
  | none => rfl
  | some s => cases s <;> rfl

/-! ## one call through a tree -/
def valOf (h : Heap) (e : EventOf Ref) : Event := snapEvent e (deref h e.tags)

/-- heap-independent part of what a leaf got -/
def coreGot : Got → Core
  | .start => .start
  | .stop => .stop
  | .fired n => .fired n
  | .status e s => .status (snapEvent e s)

theorem core_observe (H : Heap) (g : Got) : core (observe H g) = coreGot g := by cases g <;> rfl

/-- the tags object a sink holds still exists and still has the value it had at receipt -/
def Stable (H : Heap) : Got → Prop
  | .status e s => Valid H e.tags ∧ deref H e.tags = s
  | _ => True

theorem Stable.mono {H H' : Heap} (hle : Le H H') {g : Got} (h : Stable H g) : Stable H' g := by
  cases g with
  | status e s => exact ⟨Valid.mono hle h.1, (deref_le hle h.1).trans h.2⟩
  | _ => trivial

/-- what the leaf at the end of path `p` got for a `status` call whose value at the root is `V` -/
def StatusRel (n : Nat) (V : Event) (H : Heap) (p : Leaf × List Step) (g : List Got) : Prop :=
  match p.1 with
  | .sink => ∃ e s, g = [.status e s] ∧ Stable H (.status e s) ∧ snapEvent e s = pathTransform p.2 V
  | .failfast => g = if triggers V.status then [.fired n] else []

theorem StatusRel.mono {n : Nat} {V : Event} {H H' : Heap} (hle : Le H H') {p : Leaf × List Step} {g : List Got}
    (h : StatusRel n V H p g) : StatusRel n V H' p g := by
  unfold StatusRel at h ⊢
  split
  · rename_i hp
    simp only [hp] at h
    obtain ⟨e, s, h1, h2, h3⟩ := h
    exact ⟨e, s, h1, Stable.mono hle h2, h3⟩
  · rename_i hp
    simpa only [hp] using h

theorem applyStep_status (V : Event) (s : Step) : (applyStep V s).status = V.status := by
  cases s <;> rfl

/-- a decorator step in front of the path -/
theorem StatusRel.step {n : Nat} {V : Event} {H : Heap} (s : Step) {p : Leaf × List Step} {g : List Got}
    (h : StatusRel n (applyStep V s) H p g) : StatusRel n V H (p.1, s :: p.2) g := by
  unfold StatusRel at h ⊢
  cases hp : p.1 with
  | sink => simpa only [hp, pathTransform, List.foldl_cons] using h
  | failfast => simpa only [hp, applyStep_status] using h

theorem valOf_le {h h' : Heap} (hle : Le h h') {e : EventOf Ref} (hv : Valid h e.tags) : valOf h' e = valOf h e := by
  simp only [valOf, deref_le hle hv]

mutual
theorem deliver_status : ∀ (d : Dec) (n : Nat) (h : Heap) (e : EventOf Ref), Valid h e.tags →
    Le h (deliver n d h (.status e)).1 ∧
    All2 (StatusRel n (valOf h e) (deliver n d h (.status e)).1) (paths d) (deliver n d h (.status e)).2
  | .sink, n, h, e, hv => by
      refine ⟨Le.refl h, ?_⟩
      simp only [deliver, paths, All2, and_true]
      exact ⟨e, _, rfl, ⟨hv, rfl⟩, rfl⟩
  | .failfast, n, h, e, hv => by
      refine ⟨Le.refl h, ?_⟩
      simp only [deliver, paths, All2, and_true, StatusRel, fires_eq]
      rfl
  | .copy ts, n, h, e, hv => by
      simp only [deliver, paths]
      exact deliverL_status ts n h e hv
  | .tagger a dd ts, n, h, e, hv => by
      simp only [deliver, paths]
      have hstep : ∀ o, taggerOut h e a dd = o → (applyStep (valOf h e) (.tag a dd)) = { valOf h e with tags := o } := by
        intro o ho
        subst ho
        simp only [applyStep, taggerOut, tagged, valOf, snapEvent]
        rfl
      cases hout : taggerOut h e a dd with
      | none =>
        simp only []
        have ih := deliverL_status ts n h { e with tags := none } trivial
        refine ⟨ih.1, All2.map_left _ (All2.imp (fun p g hh => ?_) ih.2)⟩
        apply StatusRel.step (.tag a dd)
        have : valOf h { e with tags := none } = applyStep (valOf h e) (.tag a dd) := by
          rw [hstep none hout]; rfl
        rw [← this]; exact hh
      | some s =>
        simp only []
        have hle : Le h { h with fresh := h.fresh ++ [s] } := ⟨rfl, [s], rfl⟩
        have ih := deliverL_status ts n { h with fresh := h.fresh ++ [s] }
          { e with tags := some (.fresh h.fresh.length) } (by simp [Valid])
        refine ⟨Le.trans hle ih.1, All2.map_left _ (All2.imp (fun p g hh => ?_) ih.2)⟩
        apply StatusRel.step (.tag a dd)
        have : valOf { h with fresh := h.fresh ++ [s] } { e with tags := some (.fresh h.fresh.length) }
            = applyStep (valOf h e) (.tag a dd) := by
          rw [hstep (some s) hout]
          simp [valOf, snapEvent, deref]
        rw [← this]; exact hh
  | .stamp t, n, h, e, hv => by
      simp only [deliver, paths]
      have ih := deliver_status t n h
        { e with timestamp := fillNow e.timestamp } hv
      refine ⟨ih.1, All2.map_left _ (All2.imp (fun p g hh => ?_) ih.2)⟩
      apply StatusRel.step .stamp
      have : valOf h { e with timestamp := fillNow e.timestamp }
          = applyStep (valOf h e) .stamp := by
        simp only [valOf, snapEvent, applyStep]
        cases e.timestamp <;> rfl
      rw [← this]; exact hh
  | .toQueue c t, n, h, e, hv => by
      simp only [deliver, paths]
      have ih := deliver_status t n h { e with route := prefixRoute c e.route } hv
      refine ⟨ih.1, All2.map_left _ (All2.imp (fun p g hh => ?_) ih.2)⟩
      apply StatusRel.step (.pre c)
      have : valOf h { e with route := prefixRoute c e.route } = applyStep (valOf h e) (.pre c) := by
        simp only [valOf, snapEvent, applyStep, prefixRoute]
        cases e.route <;> rfl
      rw [← this]; exact hh
theorem deliverL_status : ∀ (ts : List Dec) (n : Nat) (h : Heap) (e : EventOf Ref), Valid h e.tags →
    Le h (deliverL n ts h (.status e)).1 ∧
    All2 (StatusRel n (valOf h e) (deliverL n ts h (.status e)).1) (pathsL ts) (deliverL n ts h (.status e)).2
  | [], n, h, e, hv => by simp [deliverL, pathsL, All2, Le.refl]
  | t :: ts, n, h, e, hv => by
      simp only [deliverL, pathsL]
      have ih1 := deliver_status t n h e hv
      have ih2 := deliverL_status ts n (deliver n t h (.status e)).1 e (Valid.mono ih1.1 hv)
      refine ⟨Le.trans ih1.1 ih2.1, All2.append (All2.imp (fun p g hh => StatusRel.mono ih2.1 hh) ih1.2) ?_⟩
      rw [valOf_le ih1.1 hv] at ih2
      exact ih2.2
end


/-! ## startTestRun / stopTestRun through a tree -/
def ctlGot (g : Got) (p : Leaf × List Step) : List Got :=
  match p.1 with
  | .sink => [g]
  | .failfast => []

theorem ctlGot_step (g : Got) (p : Leaf × List Step) (s : Step) : ctlGot g (p.1, s :: p.2) = ctlGot g p := rfl

mutual
theorem deliver_ctl : ∀ (d : Dec) (n : Nat) (h : Heap) (m : Msg) (g : Got),
    (m = .start ∧ g = .start) ∨ (m = .stop ∧ g = .stop) → deliver n d h m = (h, (paths d).map (ctlGot g))
  | .sink, n, h, m, g, hm => by rcases hm with ⟨rfl, rfl⟩ | ⟨rfl, rfl⟩ <;> simp [deliver, paths, ctlGot]
  | .failfast, n, h, m, g, hm => by rcases hm with ⟨rfl, rfl⟩ | ⟨rfl, rfl⟩ <;> simp [deliver, paths, ctlGot]
  | .copy ts, n, h, m, g, hm => by
      have := deliverL_ctl ts n h m g hm
      rcases hm with ⟨rfl, rfl⟩ | ⟨rfl, rfl⟩ <;> simpa [deliver, paths] using this
  | .tagger a dd ts, n, h, m, g, hm => by
      have := deliverL_ctl ts n h m g hm
      rcases hm with ⟨rfl, rfl⟩ | ⟨rfl, rfl⟩ <;> simpa [deliver, paths, ctlGot_step, Function.comp_def] using this
  | .stamp t, n, h, m, g, hm => by
      have := deliver_ctl t n h m g hm
      rcases hm with ⟨rfl, rfl⟩ | ⟨rfl, rfl⟩ <;> simpa [deliver, paths, ctlGot_step, Function.comp_def] using this
  | .toQueue c t, n, h, m, g, hm => by
      have := deliver_ctl t n h m g hm
      rcases hm with ⟨rfl, rfl⟩ | ⟨rfl, rfl⟩ <;> simpa [deliver, paths, ctlGot_step, Function.comp_def] using this
theorem deliverL_ctl : ∀ (ts : List Dec) (n : Nat) (h : Heap) (m : Msg) (g : Got),
    (m = .start ∧ g = .start) ∨ (m = .stop ∧ g = .stop) → deliverL n ts h m = (h, (pathsL ts).map (ctlGot g))
  | [], n, h, m, g, hm => by simp [deliverL, pathsL]
  | t :: ts, n, h, m, g, hm => by
      simp only [deliverL, pathsL, deliver_ctl t n h m g hm, deliverL_ctl ts n h m g hm, List.map_append]
end

mutual
theorem paths_length : ∀ d : Dec, (paths d).length = nLeaves d
  | .sink => rfl
  | .failfast => rfl
  | .copy ts => by simpa [paths, nLeaves] using pathsL_length ts
  | .tagger _ _ ts => by simpa [paths, nLeaves] using pathsL_length ts
  | .stamp t => by simpa [paths, nLeaves] using paths_length t
  | .toQueue _ t => by simpa [paths, nLeaves] using paths_length t
theorem pathsL_length : ∀ ts : List Dec, (pathsL ts).length = nLeavesL ts
  | [] => rfl
  | t :: ts => by simp [pathsL, nLeavesL, paths_length t, pathsL_length ts]
end

/-! ## a whole call sequence -/
theorem lift_valid (h : Heap) (e : EventOf Nat) : Valid h (liftEvent e).tags := by
  simp only [liftEvent]
  cases e.tags <;> trivial

theorem deref_caller (h : Heap) (objs : List TagObj) (hc : h.caller = objs) (r : Option Nat) :
    deref h (r.map .caller) = objValue objs r := by
  cases r with
  | none => rfl
  | some k => simp [deref, objValue, hc]

theorem valOf_lift (h : Heap) (objs : List TagObj) (hc : h.caller = objs) (e : EventOf Nat) :
    valOf h (liftEvent e) = valueOf objs e := by
  have := deref_caller h objs hc e.tags
  simp only [valOf, valueOf, snapEvent, liftEvent, this]

theorem deliver_le (d : Dec) (n : Nat) (h : Heap) (c : Call) : Le h (deliver n d h c.msg).1 := by
  cases c with
  | start => rw [Call.msg, deliver_ctl d n h .start .start (Or.inl ⟨rfl, rfl⟩)]; exact Le.refl h
  | stop => rw [Call.msg, deliver_ctl d n h .stop .stop (Or.inr ⟨rfl, rfl⟩)]; exact Le.refl h
  | status e => exact (deliver_status d n h (liftEvent e) (lift_valid h e)).1

/-- the log of the leaf at the end of path `p` after the calls `cs` (the first of which has number `n`) -/
def LogRel (objs : List TagObj) (cs : List Call) (n : Nat) (H : Heap) (p : Leaf × List Step) (log : List Got) : Prop :=
  (∀ g ∈ log, Stable H g) ∧
  match p.1 with
  | .sink => log.map coreGot = cs.map (expectSink objs p.2)
  | .failfast => log.map coreGot = expectFailFast n cs

theorem LogRel.mono {objs : List TagObj} {cs : List Call} {n : Nat} {H H' : Heap} (hle : Le H H')
    {p : Leaf × List Step} {log : List Got} (h : LogRel objs cs n H p log) : LogRel objs cs n H' p log :=
  ⟨fun g hg => Stable.mono hle (h.1 g hg), h.2⟩

theorem All2_replicate {α β : Type} {R : α → β → Prop} (b : β) : ∀ (as : List α), (∀ a, R a b) →
    All2 R as (List.replicate as.length b)
  | [], _ => trivial
  | a :: as, h => ⟨h a, All2_replicate b as h⟩

theorem run_leaves (d : Dec) (objs : List TagObj) : ∀ (cs : List Call) (n : Nat) (h : Heap), h.caller = objs →
    Le h (runCalls d n h cs).1 ∧ All2 (LogRel objs cs n (runCalls d n h cs).1) (paths d) (runCalls d n h cs).2
  | [], n, h, hc => by
      refine ⟨Le.refl h, ?_⟩
      simp only [runCalls, ← paths_length]
      apply All2_replicate
      intro p
      refine ⟨by simp, ?_⟩
      cases p.1 <;> simp [expectFailFast]
  | c :: cs, n, h, hc => by
      simp only [runCalls]
      have hle1 := deliver_le d n h c
      have ih := run_leaves d objs cs (n + 1) (deliver n d h c.msg).1 (hle1.1.trans hc)
      refine ⟨Le.trans hle1 ih.1, ?_⟩
      cases c with
      | status e =>
        have hd := (deliver_status d n h (liftEvent e) (lift_valid h e)).2
        rw [valOf_lift h objs hc e] at hd
        refine All2.zipWith ?_ (All2.imp (fun p g hh => StatusRel.mono ih.1 hh) hd) ih.2
        intro p g1 log2 h1 h2
        unfold StatusRel at h1
        unfold LogRel at h2 ⊢
        cases hp : p.1 with
        | sink =>
          simp only [hp] at h1 h2 ⊢
          obtain ⟨e', s, rfl, hst, hval⟩ := h1
          refine ⟨?_, ?_⟩
          · intro g hg
            simp only [List.cons_append, List.nil_append, List.mem_cons] at hg
            rcases hg with rfl | hg
            · exact hst
            · exact h2.1 g hg
          · simp [coreGot, expectSink, hval, h2.2]
        | failfast =>
          simp only [hp] at h1 h2 ⊢
          subst h1
          refine ⟨?_, ?_⟩
          · intro g hg
            simp only [List.mem_append] at hg
            rcases hg with hg | hg
            · split at hg
              · simp only [List.mem_singleton] at hg; subst hg; trivial
              · simp at hg
            · exact h2.1 g hg
          · have : (valueOf objs e).status = e.status := rfl
            simp only [List.map_append, h2.2, expectFailFast, this]
            split <;> simp [coreGot]
      | start =>
        simp only [Call.msg] at ih ⊢
        rw [deliver_ctl d n h .start .start (Or.inl ⟨rfl, rfl⟩)] at ih ⊢
        refine All2.zipWith (R := fun p g => g = ctlGot .start p) ?_ (All2.map_left' _ _) ih.2
        intro p g1 log2 h1 h2
        subst h1
        unfold LogRel at h2 ⊢
        unfold ctlGot
        cases hp : p.1 with
        | sink =>
          simp only [hp] at h2 ⊢
          refine ⟨?_, by simp [coreGot, expectSink, h2.2]⟩
          intro g hg
          simp only [List.cons_append, List.nil_append, List.mem_cons] at hg
          rcases hg with rfl | hg
          · trivial
          · exact h2.1 g hg
        | failfast =>
          simp only [hp] at h2 ⊢
          exact ⟨by simpa using h2.1, by simpa [expectFailFast] using h2.2⟩
      | stop =>
        simp only [Call.msg] at ih ⊢
        rw [deliver_ctl d n h .stop .stop (Or.inr ⟨rfl, rfl⟩)] at ih ⊢
        refine All2.zipWith (R := fun p g => g = ctlGot .stop p) ?_ (All2.map_left' _ _) ih.2
        intro p g1 log2 h1 h2
        subst h1
        unfold LogRel at h2 ⊢
        unfold ctlGot
        cases hp : p.1 with
        | sink =>
          simp only [hp] at h2 ⊢
          refine ⟨?_, by simp [coreGot, expectSink, h2.2]⟩
          intro g hg
          simp only [List.cons_append, List.nil_append, List.mem_cons] at hg
          rcases hg with rfl | hg
          · trivial
          · exact h2.1 g hg
        | failfast =>
          simp only [hp] at h2 ⊢
          exact ⟨by simpa using h2.1, by simpa [expectFailFast] using h2.2⟩


theorem callerSnaps_eq (d : Dec) (objs : List TagObj) : ∀ (cs : List Call) (n : Nat) (h : Heap), h.caller = objs →
    callerSnaps d n h cs = (statusEvents cs).map fun e => (objValue objs e.tags, objValue objs e.tags)
  | [], _, _, _ => rfl
  | c :: cs, n, h, hc => by
      have hle := deliver_le d n h c
      have ih := callerSnaps_eq d objs cs (n + 1) (deliver n d h c.msg).1 (hle.1.trans hc)
      simp only [callerSnaps, ih]
      cases c with
      | start => simp [statusEvents]
      | stop => simp [statusEvents]
      | status e =>
        simp [statusEvents, deref_caller h objs hc, deref_caller _ objs (hle.1.trans hc)]

/-! ## headline: the executable spec holds of the model's trace, for every input -/
theorem holds_model (i : Input) : holds i (model i) = true := by
  have hrun := run_leaves i.tree i.objs i.calls 0 { caller := i.objs, fresh := [] } rfl
  simp only [holds, clauses, List.all_cons, List.all_nil, Bool.and_true, Bool.and_eq_true]
  refine ⟨?_, ?_, ?_, ?_⟩
  · simp only [cForward, model]
    have h1 : All2 (fun (p : Leaf × List Step) (log : List Got) =>
        (p.1 != .sink || (log.map (observe (runCalls i.tree 0 { caller := i.objs, fresh := [] } i.calls).1)).map core
            == i.calls.map (expectSink i.objs p.2)) = true) (paths i.tree)
        (runCalls i.tree 0 { caller := i.objs, fresh := [] } i.calls).2 := by
      refine All2.imp (fun p log h => ?_) hrun.2
      unfold LogRel at h
      cases hp : p.1 with
      | sink => simp only [hp] at h; simp [List.map_map, Function.comp_def, core_observe, h.2]
      | failfast => simp
    exact All2.to_bool (R := fun (p : Leaf × List Step) (l : List LeafEv) =>
        (p.1 != .sink || l.map core == i.calls.map (expectSink i.objs p.2)) = true) (fun _ _ h => h)
      (All2.map_right _ h1)
  · simp only [cFailFast, model]
    have h1 : All2 (fun (p : Leaf × List Step) (log : List Got) =>
        (p.1 != .failfast || (log.map (observe (runCalls i.tree 0 { caller := i.objs, fresh := [] } i.calls).1)).map core
            == expectFailFast 0 i.calls) = true) (paths i.tree)
        (runCalls i.tree 0 { caller := i.objs, fresh := [] } i.calls).2 := by
      refine All2.imp (fun p log h => ?_) hrun.2
      unfold LogRel at h
      cases hp : p.1 with
      | sink => simp
      | failfast => simp only [hp] at h; simp [List.map_map, Function.comp_def, core_observe, h.2]
    exact All2.to_bool (R := fun (p : Leaf × List Step) (l : List LeafEv) =>
        (p.1 != .failfast || l.map core == expectFailFast 0 i.calls) = true) (fun _ _ h => h)
      (All2.map_right _ h1)
  · simp only [cCaller, model, callerSnaps_eq i.tree i.objs i.calls 0 { caller := i.objs, fresh := [] } rfl, hrun.1.1]
    simp
  · simp only [cNoLateWrite, model, List.all_map, List.all_eq_true, Function.comp_def]
    intro log hlog g hg
    obtain ⟨p, hp⟩ := All2.right_mem hrun.2 log hlog
    have := hp.1 g hg
    cases g with
    | status e s => simp [observe, snapEvent, this.2]
    | _ => simp [observe]

/-! ## readable statements -/
/-- the logs of the leaves after a whole call sequence, as the model computes them -/
def leafLogs (i : Input) : List (List Got) := (runCalls i.tree 0 { caller := i.objs, fresh := [] } i.calls).2
def finalHeap (i : Input) : Heap := (runCalls i.tree 0 { caller := i.objs, fresh := [] } i.calls).1

/-- **C11 (forward)**: the leaves of the tree correspond one-to-one, left to right, to the logs; the log of every
sink is exactly the call sequence — each `startTestRun` / `stopTestRun` / `status` once, in order — and each status
it holds is `pathTransform` of the caller's event along *its own* path only: tags `(t ∪ add) \ discard` (`None` when
empty) per tagger, timestamp filled iff missing per timestamper, route code prefixed per `StreamToQueue`, every other
field unchanged.  Siblings and other branches do not occur in the statement: what one target receives is independent
of them. -/
theorem C11_forward (i : Input) :
    All2 (fun (p : Leaf × List Step) log => p.1 = .sink → log.map coreGot = i.calls.map (expectSink i.objs p.2))
      (paths i.tree) (leafLogs i) := by
  have hrun := run_leaves i.tree i.objs i.calls 0 { caller := i.objs, fresh := [] } rfl
  refine All2.imp (fun p log h hp => ?_) hrun.2
  unfold LogRel at h
  simpa only [hp] using h.2

/-- **C11 (fail fast)**: a `StreamFailFast` leaf calls `on_error` exactly once for each `status` whose `test_status`
is `fail` or `uxsuccess` (during that very call), and never otherwise. -/
theorem C11_failfast (i : Input) :
    All2 (fun (p : Leaf × List Step) log => p.1 = .failfast → log.map coreGot = expectFailFast 0 i.calls)
      (paths i.tree) (leafLogs i) := by
  have hrun := run_leaves i.tree i.objs i.calls 0 { caller := i.objs, fresh := [] } rfl
  refine All2.imp (fun p log h hp => ?_) hrun.2
  unfold LogRel at h
  simpa only [hp] using h.2

/-- **C11 (no mutation)**: whatever the tree and the calls, the caller's objects are the same at the end, and
every set built on the way is only ever appended to the heap — no existing object is written. -/
theorem C11_no_mutation (i : Input) :
    (finalHeap i).caller = i.objs ∧ ∀ r, Valid { caller := i.objs, fresh := [] } r → deref (finalHeap i) r = deref { caller := i.objs, fresh := [] } r := by
  have hrun := run_leaves i.tree i.objs i.calls 0 { caller := i.objs, fresh := [] } rfl
  exact ⟨hrun.1.1, fun r hv => deref_le hrun.1 hv⟩

/-- each single call leaves every existing object as it was -/
theorem C11_no_mutation_step (d : Dec) (n : Nat) (h : Heap) (c : Call) (r : Option Ref) (hv : Valid h r) :
    deref (deliver n d h c.msg).1 r = deref h r := deref_le (deliver_le d n h c) hv

/-- **C11 (independent)**: the tags object a sink holds for an event still exists when the run is over and has the
value it had when the sink received it (no later write through an alias shared with a sibling or the caller). -/
theorem C11_independent (i : Input) : ∀ log ∈ leafLogs i, ∀ e s, Got.status e s ∈ log → deref (finalHeap i) e.tags = s := by
  have hrun := run_leaves i.tree i.objs i.calls 0 { caller := i.objs, fresh := [] } rfl
  intro log hlog e s hg
  obtain ⟨p, hp⟩ := All2.right_mem hrun.2 log hlog
  exact (hp.1 _ hg).2

/-- `pathTransform` touches nothing but tags, timestamp and route code -/
theorem C11_other_fields (p : List Step) (e : Event) :
    (pathTransform p e).testId = e.testId ∧ (pathTransform p e).status = e.status ∧ (pathTransform p e).runnable = e.runnable
    ∧ (pathTransform p e).fileName = e.fileName ∧ (pathTransform p e).fileBytes = e.fileBytes ∧ (pathTransform p e).eof = e.eof
    ∧ (pathTransform p e).mime = e.mime := by
  induction p generalizing e with
  | nil => simp [pathTransform]
  | cons s p ih =>
    have := ih (applyStep e s)
    simp only [pathTransform, List.foldl_cons] at this ⊢
    cases s <;> simpa [applyStep] using this

/-- a supplied timestamp is never changed -/
theorem C11_timestamp_kept (p : List Step) (e : Event) (t : Ts) (h : e.timestamp = some t) :
    (pathTransform p e).timestamp = some t := by
  induction p generalizing e with
  | nil => simpa [pathTransform] using h
  | cons s p ih =>
    simp only [pathTransform, List.foldl_cons]
    apply ih
    cases s <;> simp [applyStep, h]

/-! ## non-vacuity and sharpness -/
private def ev0 (st : Status) (tags : Option Nat) : EventOf Nat :=
  { testId := some 0, status := some st, tags := tags, runnable := true, fileName := none, fileBytes := none,
    eof := false, mime := none, route := none, timestamp := none }

private def demo : Input :=
  { tree := .copy [.tagger [1] [0] [.sink, .stamp .sink], .toQueue ['0'] (.tagger [2] [] [.sink]), .failfast, .sink]
    objs := [{ frozen := true, elems := [0, 2] }]
    calls := [.start, .status (ev0 .fail (some 0)), .status (ev0 .success none), .stop] }

/-- two sibling taggers under one copy, sharing the caller's frozenset: four sinks and a fail-fast leaf -/
example : (paths demo.tree).length = 5 := by decide
example : holds demo (model demo) = true := holds_model demo
example : ((model demo).leaves.map List.length) = [4, 4, 4, 1, 4] := by decide

/-- the spec is sharp: the behaviour before the `StreamTagger` fix — the caller's set updated in place — is rejected -/
example :
    let i : Input := { tree := .tagger [1] [] [.sink], objs := [{ frozen := false, elems := [0] }],
                       calls := [.status (ev0 .success (some 0))] }
    let t := model i
    cCaller i { t with caller := [(some [0], some [0, 1])], callerEnd := [[0, 1]] } = false := by decide
/-- … and so is a sink whose held tags changed after receipt (aliasing with a sibling that wrote to them) -/
example :
    let i : Input := { tree := .copy [.sink], objs := [{ frozen := false, elems := [0] }],
                       calls := [.status (ev0 .success (some 0))] }
    cNoLateWrite i { leaves := [[.status (valueOf i.objs (ev0 .success (some 0))) (some (.caller 0)) (some [0, 1])]],
                     caller := [], callerEnd := [] } = false := by decide

/-! ## tie to the source: `StreamTagger.status`' set arithmetic translated from the code (harness/pyset2lean.py,
regenerated on every run into `TTV/Generated/C11.lean`) is the model's `tagged` -/
theorem C11_src_tagger (h : Heap) (e : EventOf Ref) (add discard : List Nat) :
    tagged h e add discard = norm (TTV.Generated.C11.taggerTags_src ((deref h e.tags).getD []) add discard) := rfl

theorem insertU_ne_nil (y : Nat) : ∀ ys : List Nat, insertU y ys ≠ []
  | [] => by simp [insertU]
  | z :: zs => by
      unfold insertU
      split
      · simp
      · split <;> simp

theorem norm_isEmpty (xs : List Nat) : (norm xs).isEmpty = xs.isEmpty := by
  cases xs with
  | nil => rfl
  | cons x xs =>
    have h := insertU_ne_nil x (norm xs)
    show (insertU x (norm xs)).isEmpty = false
    cases hh : insertU x (norm xs) with
    | nil => exact absurd hh h
    | cons _ _ => rfl

/-- **when a tagger hands on `None` is the code's**: the whole `test_tags` value `StreamTagger.status` forwards - the set
arithmetic AND the rule `test_tags or None` - translated from the source, is the model's `taggerOut` (up to the canonical
order of a set's elements): `None` exactly when the resulting set is empty (behaviour pinned by
`TestStreamTagger.test_discarding`) -/
theorem C11_src_tagger_none (h : Heap) (e : EventOf Ref) (add discard : List Nat) :
    taggerOut h e add discard = (TTV.Generated.C11.taggerOut_src (deref h e.tags) add discard).map norm := by
  simp only [taggerOut, TTV.Generated.C11.taggerOut_src, C11_src_tagger, TTV.Generated.C11.taggerTags_src, norm_isEmpty]
  split <;> simp

/-! ## more ties to the source (`harness/pystream.py` → `TTV/Generated/DecoSrc.lean`, regenerated on every run) -/
open TTV.DecoSrc in
/-- **`TimestampingStreamResult.status` is the code's**: the timestamp handed on is the term found in the source — the
supplied one if it `is not None`, else `datetime.now(utc)` — and everything else goes to `super().status` (the copy to
the one target) unchanged: the model's `.stamp` step -/
theorem C11_src_stamp (n : Nat) (t : Dec) (h : Heap) (e : EventOf Ref) :
    ∃ e', stampInterp Generated.DecoSrc.stampTimestamp e = some e' ∧ deliver n (.stamp t) h (.status e) = deliver n t h (.status e') := by
  have hg : Generated.DecoSrc.stampTimestamp = refStamp := by decide
  rw [hg]
  exact ⟨_, stampInterp_ref e, by simp [deliver]⟩

open TTV.DecoSrc in
/-- **`StreamToQueue.status` / `route_code` are the code's**: every key of the enqueued dict is fed by the parameter of the
same name, `route_code` by `self.route_code(route_code)` = the routing code alone if the event has none (`is None`), else
`routing_code + "/" + route_code`: the model's `.toQueue` step -/
theorem C11_src_queue (n : Nat) (code : Str) (t : Dec) (h : Heap) (e : EventOf Ref) :
    ∃ e', qInterp Generated.DecoSrc.queueDict Generated.DecoSrc.queueRoute code e = some e'
      ∧ deliver n (.toQueue code t) h (.status e) = deliver n t h (.status e') := by
  have h1 : Generated.DecoSrc.queueDict = refQueueDict := by decide
  have h2 : Generated.DecoSrc.queueRoute = refQueueRoute := by decide
  rw [h1, h2]
  exact ⟨_, qInterp_ref code e, by simp [deliver]⟩

open TTV.DecoSrc in
/-- every explicit `status` signature (`StreamResult`, `StreamFailFast`, `_StreamToTestRecord`, `StreamToQueue`) lists the ten
parameters in the same order — what a positional call through `CopyStreamResult`'s `*args` relies on -/
theorem C11_src_status_params :
    Generated.DecoSrc.statusParams.map (·.1) = ["StreamResult", "StreamFailFast", "_StreamToTestRecord", "StreamToQueue"]
    ∧ ∀ p ∈ Generated.DecoSrc.statusParams, p.2 = canonical := by decide

open TTV.DecoSrc in
/-- **`CopyStreamResult` is the code's**: each of `startTestRun`, `stopTestRun`, `status` calls `super()` and then the same
method with the same arguments on every target, in order, once -/
theorem C11_src_copy (n : Nat) (ts : List Dec) (h : Heap) (m : Msg) :
    cInterp n ts h m Generated.DecoSrc.copyStart none = some (deliver n (.copy ts) h m)
    ∧ cInterp n ts h m Generated.DecoSrc.copyStop none = some (deliver n (.copy ts) h m)
    ∧ cInterp n ts h m Generated.DecoSrc.copyStatus none = some (deliver n (.copy ts) h m) := by
  have h1 : Generated.DecoSrc.copyStart = refCopy := by decide
  have h2 : Generated.DecoSrc.copyStop = refCopy := by decide
  have h3 : Generated.DecoSrc.copyStatus = refCopy := by decide
  rw [h1, h2, h3]
  have : deliver n (.copy ts) h m = deliverL n ts h m := by cases m <;> simp [deliver]
  simp [cInterp_ref, this]

open TTV.DecoSrc in
/-- **`StreamFailFast.status` is the code's**: `on_error()` exactly when `test_status` is one of the statuses of the tuple
in the source — which agrees with the behaviourally extracted table `Generated.Stream.failFast` -/
theorem C11_src_failfast (n : Nat) (h : Heap) (e : EventOf Ref) :
    ∃ b, ffInterp e.status Generated.DecoSrc.failFastStatus = some b
      ∧ deliver n .failfast h (.status e) = (h, [if b then [.fired n] else []]) := by
  have hg : Generated.DecoSrc.failFastStatus = refFailFast := by decide
  rw [hg]
  exact ⟨_, ffInterp_ref e.status, by simp [deliver]⟩

open TTV.DecoSrc in
/-- **`StreamTagger.__init__` is the code's**: `add` and `discard` are snapshotted (`frozenset(...)` of whatever iterable was
passed - a set the caller goes on using, a list, a one-shot iterator) when the tagger is made; the tagger node of the model
carries these values and nothing the caller does to its objects afterwards reaches it -/
theorem C11_src_tagger_init (add discard : List Nat) (ts : List Dec) :
    tiInterp add discard ts Generated.DecoSrc.taggerInit none none false = some (.tagger add discard ts) := by
  have hg : Generated.DecoSrc.taggerInit = refTaggerInit := by decide
  rw [hg]; rfl

end TTV.Props.C11
