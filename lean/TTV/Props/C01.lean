import TTV.Lemmas.RunHandlers
import TTV.Spec.C01
import TTV.Lemmas.RunSkel
import TTV.Generated.RunSkel
/-! # C01 — every test run is bracketed and yields exactly one outcome

All theorems are about `TTV.Run.runOnce` (one `case.run(result)`) for **every** program (any nesting of
cleanups / fixtures, any exception kinds in any stages, any handler table, decorators, details, every
result flavour) and every left-over `force_failure`; `holds_model` lifts them to any number of repeated
runs.  Hypothesis `wf p`: distinct stage ids (so that the trace's stage ids determine the stages) and user
handlers only for classes deriving from `Exception`. -/
namespace TTV.Props.C01
open TTV.Run TTV.Spec.Run TTV.Spec.C01

/-! ## trace shape -/
theorem filter_log (log : List Ev) (h : ∀ e ∈ log, isResultEv e = false) : log.filter isResultEv = [] := by
  rw [List.filter_eq_nil_iff]; intro e he; simp [h e he]

theorem resultEvents_shape (f : Flavour) (log : List Ev) (h : ∀ e ∈ log, isResultEv e = false) (o : Outcome) (d : Details)
    (r : Option Exc) (ff : Bool) (n : Nat) (a : List (Nat × Nat)) :
    resultEvents ⟨wrapRun f ([.startTest] ++ log ++ [.outcome o d] ++ stopEv f), r, ff, n, a⟩ =
      wrapRun f ([.startTest, .outcome o d] ++ stopEv f) := by
  simp only [resultEvents, wrapRun, stopEv]
  split <;> split <;> simp [List.filter_append, List.filter_cons, filter_log log h, isResultEv]

theorem dropWhile_log (log : List Ev) (h : ∀ e ∈ log, isResultEv e = false) (rest : List Ev) :
    (log ++ rest).dropWhile (fun e => !isOutcomeEv e) = rest.dropWhile (fun e => !isOutcomeEv e) := by
  induction log with
  | nil => rfl
  | cons x xs ih =>
    have hx := h x List.mem_cons_self
    have : isOutcomeEv x = false := by cases x <;> simp_all [isResultEv, isOutcomeEv]
    simp only [List.cons_append, List.dropWhile_cons, this, Bool.not_false, if_true]
    exact ih (fun e he => h e (List.mem_cons_of_mem _ he))

theorem outcomeOf_shape (f : Flavour) (log : List Ev) (h : ∀ e ∈ log, isResultEv e = false) (o : Outcome) (d : Details)
    (r : Option Exc) (ff : Bool) (n : Nat) (a : List (Nat × Nat)) :
    outcomeOf ⟨wrapRun f ([.startTest] ++ log ++ [.outcome o d] ++ stopEv f), r, ff, n, a⟩ = some (o, d) := by
  have hlog : log.findSome? evOutcome = none := by
    rw [List.findSome?_eq_none_iff]
    intro e he
    have := h e he
    cases e <;> simp_all [isResultEv, evOutcome]
  simp only [outcomeOf]
  cases f <;> simp [wrapRun, stopEv, List.findSome?_append, List.findSome?_cons, hlog, evOutcome]

/-! ## per-run clauses on the model's trace -/
section perRun
variable (p : Program) (ff0 : Bool) (hwf : wf p = true)
include hwf

theorem clause_bracket : cBracket p ff0 (runOnce p ff0) = true := by
  cases hskip : p.skipDeco with
  | some r =>
    simp only [cBracket, runOnce, hskip, resultEvents, wrapRun, stopEv]
    cases p.flavour <;> simp [isResultEv, List.filter_cons]
  | none =>
    obtain ⟨o, d, r, sel, _, hshape⟩ := runOnce_shape p ff0 hwf hskip
    have cf := runCore_facts p ff0 hwf hskip
    rw [hshape]
    simp only [cBracket, resultEvents_shape _ _ cf.logPure]
    cases p.flavour <;> simp [wrapRun, stopEv]

theorem nonExceptions_eq (hskip : p.skipDeco = none) (o : Outcome) (d : Details) (r : Option Exc) (ffa : Bool)
    (n : Nat) (a : List (Nat × Nat)) :
    nonExceptions p ff0 ⟨wrapRun p.flavour ([.startTest] ++ (runCore p ff0).1.log ++ [.outcome o d] ++ stopEv p.flavour), r, ffa, n, a⟩
      = (runCore p ff0).1.excs.filter (fun e => !isSub e.cls .exc) := by
  simp only [nonExceptions, (reads_of p ff0 hwf hskip o d r ffa n a).raised]

theorem clause_nonException : cNonException p ff0 (runOnce p ff0) = true := by
  cases hskip : p.skipDeco with
  | some r => simp [cNonException, hskip]
  | none =>
    obtain ⟨o, d, r, sel, hdec, hshape⟩ := runOnce_shape p ff0 hwf hskip
    have cf := runCore_facts p ff0 hwf hskip
    rw [hshape]
    simp only [cNonException, hskip, Option.isSome_none, Bool.false_or, nonExceptions_eq p ff0 hwf hskip,
      outcomeOf_shape _ _ cf.logPure]
    cases hdec with
    | success hnil => simp [hnil]
    | handled e rep hsel hh =>
      have hall := select_handled_all _ _ e rep hsel hh
      have : (runCore p ff0).1.excs.filter (fun e => !isSub e.cls .exc) = [] := by
        rw [List.filter_eq_nil_iff]
        intro x hx
        have := hall x hx
        rw [claimed_iff_exc p hwf] at this
        simp [this]
      simp [this]
    | lastResort e hsel hh =>
      have hmem := select_mem _ _ _ hsel
      have hcl : claimed (handlers p) e = false := by simp [claimed, hh]
      rw [claimed_iff_exc p hwf] at hcl
      simp only [beq_self_eq_true, Bool.true_and, Bool.or_eq_true]
      right
      simp [hmem, hcl]

theorem clause_returns : cReturns p ff0 (runOnce p ff0) = true := by
  cases hskip : p.skipDeco with
  | some r => simp [cReturns, hskip, runOnce]
  | none =>
    obtain ⟨o, d, r, sel, hdec, hshape⟩ := runOnce_shape p ff0 hwf hskip
    rw [hshape]
    simp only [cReturns, hskip, Option.isSome_none, Bool.false_or, nonExceptions_eq p ff0 hwf hskip]
    cases hdec with
    | success hnil => simp
    | handled e rep hsel hh => simp
    | lastResort e hsel hh =>
      have hmem := select_mem _ _ _ hsel
      have hcl : claimed (handlers p) e = false := by simp [claimed, hh]
      rw [claimed_iff_exc p hwf] at hcl
      have : (runCore p ff0).1.excs.filter (fun e => !isSub e.cls .exc) ≠ [] := by
        intro hn
        have := List.filter_eq_nil_iff.mp hn e hmem
        simp [hcl] at this
      simp [this]

theorem clause_outcomeLast : cOutcomeLast p ff0 (runOnce p ff0) = true := by
  cases hskip : p.skipDeco with
  | some r =>
    simp only [cOutcomeLast, runOnce, hskip, wrapRun, stopEv]
    cases p.flavour <;> simp [isOutcomeEv, isResultEv, List.dropWhile_cons]
  | none =>
    obtain ⟨o, d, r, sel, _, hshape⟩ := runOnce_shape p ff0 hwf hskip
    have cf := runCore_facts p ff0 hwf hskip
    rw [hshape]
    simp only [cOutcomeLast]
    have k1 : ∀ rest : List Ev, (Ev.startTest :: ((runCore p ff0).1.log ++ rest)).dropWhile (fun e => !isOutcomeEv e)
        = rest.dropWhile (fun e => !isOutcomeEv e) := by
      intro rest
      simp only [List.dropWhile_cons, isOutcomeEv, Bool.not_false, if_true]
      exact dropWhile_log _ cf.logPure rest
    have k2 : ∀ rest : List Ev, (Ev.startTestRun :: Ev.startTest :: ((runCore p ff0).1.log ++ rest)).dropWhile (fun e => !isOutcomeEv e)
        = rest.dropWhile (fun e => !isOutcomeEv e) := by
      intro rest
      simp only [List.dropWhile_cons, isOutcomeEv, Bool.not_false, if_true]
      exact dropWhile_log _ cf.logPure rest
    cases hf : p.flavour <;>
      simp only [wrapRun, stopEv, List.cons_append, List.nil_append, List.append_assoc, reduceCtorEq, ↓reduceIte] <;>
      (first | rw [k1] | rw [k2]) <;>
      simp [isOutcomeEv, isResultEv, List.dropWhile_cons, List.reverse_append]

theorem clause_stages : cStages p ff0 (runOnce p ff0) = true := by
  cases hskip : p.skipDeco with
  | some r =>
    simp only [cStages, hskip, Option.isSome_some, if_true, runOnce, stageIds, wrapRun, stopEv]
    cases p.flavour <;> simp
  | none =>
    obtain ⟨o, d, r, sel, _, hshape⟩ := runOnce_shape p ff0 hwf hskip
    have cf := runCore_facts p ff0 hwf hskip
    have hst := cf.stages
    rw [hshape]
    have hids := (reads_of p ff0 hwf hskip (degrade p.flavour o) d r (runCore p ff0).1.ff 0 (sortAttrs (runCore p ff0).1.attrs)).ids
    simp only [cStages, hids] at hst ⊢
    simp only [stageIds_eq, cf.logIds] at hst
    exact hst

end perRun

/-! ## headline -/
theorem perRun_runMany (c : Program → Bool → Trace → Bool) (p : Program)
    (h : ∀ ff0, c p ff0 (runOnce p ff0) = true) : ∀ (n : Nat) (ff0 : Bool), perRun c p ff0 (runMany p n ff0) = true
  | 0, _ => rfl
  | n + 1, ff0 => by
    simp only [runMany, perRun, h ff0, Bool.true_and]
    exact perRun_runMany c p h n _

theorem runMany_length (p : Program) : ∀ (n : Nat) (ff0 : Bool), (runMany p n ff0).length = n
  | 0, _ => rfl
  | n + 1, ff0 => by simp [runMany, runMany_length p n]

theorem lift_model (c : Program → Bool → Trace → Bool) (i : Input)
    (h : wf i.prog = true → ∀ ff0, c i.prog ff0 (runOnce i.prog ff0) = true) : lift c i (model i) = true := by
  unfold lift model
  cases hwf : wf i.prog with
  | false => simp
  | true => simp [runMany_length, perRun_runMany c i.prog (h hwf)]

/-- the executable spec of C01 holds of the model's trace for every input -/
theorem holds_model (i : Input) : holds i (model i) = true := by
  simp only [holds, clauses, List.all_cons, List.all_nil, Bool.and_true, Bool.and_eq_true]
  exact ⟨lift_model _ i (fun hwf ff0 => clause_bracket _ ff0 hwf), lift_model _ i (fun hwf ff0 => clause_nonException _ ff0 hwf),
    lift_model _ i (fun hwf ff0 => clause_returns _ ff0 hwf), lift_model _ i (fun hwf ff0 => clause_outcomeLast _ ff0 hwf),
    lift_model _ i (fun hwf ff0 => clause_stages _ ff0 hwf)⟩

/-! ## readable statements -/

/-- C01 (bracket): the result receives exactly `startTest`, one outcome, `stopTest` (stream flavour: the
`inprogress` event and one final status; `result=None`: additionally inside a startTestRun/stopTestRun
pair) — whichever stages raise whatever. -/
theorem C01_bracket (p : Program) (ff0 : Bool) (hwf : wf p = true) :
    ∃ o d, resultEvents (runOnce p ff0) = wrapRun p.flavour ([.startTest, .outcome o d] ++ stopEv p.flavour) := by
  cases hskip : p.skipDeco with
  | some r =>
    refine ⟨degrade p.flavour .skip, visibleDetails p.flavour .skip [(nmReason, .reason r)], ?_⟩
    simp only [runOnce, hskip, resultEvents, wrapRun, stopEv]
    cases p.flavour <;> simp [isResultEv]
  | none =>
    obtain ⟨o, d, r, sel, _, hshape⟩ := runOnce_shape p ff0 hwf hskip
    have cf := runCore_facts p ff0 hwf hskip
    exact ⟨degrade p.flavour o, d, by rw [hshape]; exact resultEvents_shape _ _ cf.logPure _ _ _ _ _ _⟩

/-- C01 (non-`Exception`): if any stage — setUp, the test method, tearDown, any cleanup at any depth, any
constituent of a MultipleExceptions — raised an exception that does not derive from `Exception`, the
outcome is an error, `run()` raises such an exception, and it does so with the complete bracket delivered
(`C01_bracket`) and all stages run (`C01_all_stages_run`). -/
theorem C01_nonException (p : Program) (ff0 : Bool) (hwf : wf p = true) (hskip : p.skipDeco = none)
    (h : ∃ e ∈ (runCore p ff0).1.excs, isSub e.cls .exc = false) :
    ∃ e d, (runOnce p ff0).raised = some e ∧ isSub e.cls .exc = false ∧ e ∈ (runCore p ff0).1.excs ∧
      outcomeOf (runOnce p ff0) = some (degrade p.flavour .error, d) := by
  obtain ⟨o, d, r, sel, hdec, hshape⟩ := runOnce_shape p ff0 hwf hskip
  have cf := runCore_facts p ff0 hwf hskip
  obtain ⟨x, hx, hxs⟩ := h
  cases hdec with
  | success hnil => rw [hnil] at hx; simp at hx
  | handled e rep hsel hh =>
    have := select_handled_all _ _ e rep hsel hh x hx
    rw [claimed_iff_exc p hwf, hxs] at this
    simp at this
  | lastResort e hsel hh =>
    have hcl : claimed (handlers p) e = false := by simp [claimed, hh]
    rw [claimed_iff_exc p hwf] at hcl
    refine ⟨e, d, by rw [hshape], hcl, select_mem _ _ _ hsel, ?_⟩
    rw [hshape]; exact outcomeOf_shape _ _ cf.logPure _ _ _ _ _ _

/-- C01 (returns): if everything raised derives from `Exception`, `run()` returns normally. -/
theorem C01_returns (p : Program) (ff0 : Bool) (hwf : wf p = true)
    (h : ∀ e ∈ (runCore p ff0).1.excs, isSub e.cls .exc = true) : (runOnce p ff0).raised = none := by
  cases hskip : p.skipDeco with
  | some r => simp [runOnce, hskip]
  | none =>
    obtain ⟨o, d, r, sel, hdec, hshape⟩ := runOnce_shape p ff0 hwf hskip
    rw [hshape]
    cases hdec with
    | success _ => rfl
    | handled _ _ _ _ => rfl
    | lastResort e hsel hh =>
      have hcl : claimed (handlers p) e = false := by simp [claimed, hh]
      rw [claimed_iff_exc p hwf, h e (select_mem _ _ _ hsel)] at hcl
      simp at hcl

/-- C01 (nothing is skipped): whatever was raised, the stage sequence of the run is the complete one —
setUp; the test method and tearDown iff setUp completed; then every registered cleanup, most recent first,
until none is left (the spec's stack machine accepts it). -/
theorem C01_all_stages_run (p : Program) (ff0 : Bool) (hwf : wf p = true) :
    cStages p ff0 (runOnce p ff0) = true := clause_stages p ff0 hwf

/-! ## non-vacuity -/
/-- a KeyboardInterrupt in the test method, an ordinary error in a cleanup: hypotheses of
`C01_nonException` are met, and the model says: error reported, cleanup still run, KI propagates -/
def demo : Program :=
  { skipDeco := none, xfailDeco := false
    setUp := .mk 1 [] .ret
    body := .mk 2 [.cleanup (.mk 4 [] (.raise1 ⟨.exc, 7⟩))] (.raise1 ⟨.ki, 1⟩)
    tearDown := .mk 3 [] .ret
    userHandlers := [], nOnExc := 0, attrs0 := [], flavour := .ext }

example : wf demo = true := by decide
example : demo.skipDeco = none := rfl

/-! ### tie to the source: the control skeleton of `RunTest._run_core`
`TTV.Generated.RunSkel.runCore` is produced by `harness/pyskel.py` from `testtools/runtest.py` on every run. -/
/-- the model's `runCore` is the interpretation of the control skeleton found in the source (test not skipped
by decorator): same final state, `addSuccess` called exactly when the model says a success is due, no `addSkip`, no
statement the translator did not recognise -/
theorem C01_src_run_core (p : Program) (ff0 : Bool) (h : p.skipDeco = none) :
    let s := RunSkel.interp p Generated.RunSkel.runCore { rs := initRS p ff0 }
    (s.rs, s.succ) = runCore p ff0 ∧ s.skipped = false ∧ s.bad = false := by
  have e : Generated.RunSkel.runCore = RunSkel.refRunCore := by decide
  rw [e]; exact RunSkel.interp_refRunCore p ff0 h

/-- … and for a test skipped by decorator the source reports the skip and returns before any stage runs
(as `runOnce` models it) -/
theorem C01_src_run_core_skip (p : Program) (ff0 : Bool) (h : p.skipDeco.isSome) :
    let s := RunSkel.interp p Generated.RunSkel.runCore { rs := initRS p ff0 }
    s.skipped = true ∧ s.succ = false ∧ s.rs = initRS p ff0 ∧ s.bad = false := by
  have e : Generated.RunSkel.runCore = RunSkel.refRunCore := by decide
  rw [e]; exact RunSkel.interp_refRunCore_skip p ff0 h

end TTV.Props.C01
