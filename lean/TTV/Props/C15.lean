import TTV.Model.Spinner
import TTV.Spec.C15
import TTV.Lemmas.Reactor
import TTV.Generated.SpinnerSkel
/-! # C15 — `Spinner.run` returns the function's own result within the timeout and restores the process

All statements are about the model `TTV.Spinner` (`Model/Reactor.lean`, `Model/Spinner.lean`) and hold for
**every** history of steps on one reactor and one `Spinner` object - calls of `run` (any number of delayed calls
before / inside `f`, any delays, any timeout - also one the reactor rejects, so that `run` raises before its
`try … finally` -, stop requests at any instant, any signal handlers), `clear_junk()`, and the process installing
signal handlers between the calls, and `swap` = the following calls go to the other of two Spinner objects on the reactor.

* `holds_model`            : the executable spec `Spec.C15.holds` is true of the model's trace (headline)
* `C15_result`             : a run that is not refused returns/raises exactly the declarative `expected sc`
* `C15_result_sync`, `C15_result_stopped_in_f`, `C15_result_first`, `C15_result_stopped_first`
                           : the readable cases of `expected`: `f`'s own value/exception; the first decisive call in
                             the reactor's order (time, scheduling index) wins - the Deferred's result or `TimeoutError`;
                             `NoResultError` iff a stop request is due strictly earlier
* `C15_tie_scheduled_before_run`, `C15_tie_scheduled_by_f`, `C15_tie_stop_and_fire`, `C15_stop_before_fire`
                           : the ties at one instant, for all timeouts / values
* `C15_guards_stale`, `C15_guards_stale_only`, `C15_guards_reentry` : refusals, and that they change nothing
* `C15_late_firing_is_inert`, `C15_own_result_despite_late_firing` : the Deferred of an EARLIER run (of this or of the other
                             Spinner on the reactor) firing or failing during a later run does nothing - the callbacks a run hangs
                             on `f`'s Deferred are dead once the run is over; the later run returns its own result
* `iterations_frame`, `iterations_reent`, `cleaned_sigs` : `_clean`'s obligatory iterations (`Scen.oblig`, 0-3; leftover calls run, `spawn`
                             chains schedule further calls) leave clock, flags, recorded junk and - unless a leftover installs a handler -
                             the restored signal handlers alone; the re-entry accounting goes through them
* `C15_rejected`, `C15_rejected_only` : a timeout the reactor rejects: `run` raises what `reactor.callLater` raised, nothing
                             observable has changed (the spinner keeps the handlers it saved in `_saved_signals`)
* `C15_signals_every_call`, `C15_signals_history`, `C15_signals_model` : whenever `run` returns or raises, the
                             SIGINT/SIGTERM/SIGCHLD handlers are what they were immediately before THAT call - for every
                             state between two steps (whatever `_saved_signals` holds), and by induction over the history
* `C15_clean`, `C15_preserved_signals` : after a run: not running, no delayed calls, no selectables, stop and the
                             SIGINT/SIGTERM/SIGCHLD handlers restored (table extracted from the code)
* `C15_junk_exact`         : the recorded junk is exactly what was left over
* `C15_bounded`, `C15_loop_ends_by_crash` : the run consumes at most `timeout` of virtual time, its loop ends by a crash
* `C15_history_idle`       : all of it at every step of every history
* `C15_src_callbacks`, `C15_src_stop_reactor`, `C15_src_timed_out`, `C15_src_get_result`, `C15_src_clean`, `C15_src_run`, `C15_src_shapes`
                           : translator tie - the model is the interpretation (`TTV.SpinnerSkel`) of `Spinner.run`, its callbacks,
                             `_get_result`, `_clean` and the helpers as re-read from `_spinner.py` on every run
-/
namespace TTV.Props.C15
open TTV.Reactor TTV.Spinner TTV.Spec.C15

/-! ## frame lemmas for the scenario actions -/

@[simp] theorem saveSignals_calls (w : W) : (saveSignals w).calls = w.calls := rfl
@[simp] theorem saveSignals_now (w : W) : (saveSignals w).now = w.now := rfl
@[simp] theorem saveSignals_events (w : W) : (saveSignals w).events = w.events := rfl
@[simp] theorem saveSignals_u (w : W) : (saveSignals w).u = w.u := rfl
@[simp] theorem saveSignals_sels (w : W) : (saveSignals w).sels = w.sels := rfl
@[simp] theorem saveSignals_sigs (w : W) : (saveSignals w).sigs = w.sigs := rfl
@[simp] theorem saveSignals_running (w : W) : (saveSignals w).running = w.running := rfl
@[simp] theorem saveSignals_stopPatched (w : W) : (saveSignals w).stopPatched = w.stopPatched := rfl
@[simp] theorem saveSignals_crashed (w : W) : (saveSignals w).crashed = w.crashed := rfl
@[simp] theorem saveSignals_t0 (w : W) : (saveSignals w).t0 = w.t0 := rfl
@[simp] theorem saveSignals_junk (w : W) : (saveSignals w).sp.junk = w.sp.junk := rfl
@[simp] theorem saveSignals_tcall (w : W) : (saveSignals w).sp.tcall = w.sp.tcall := rfl
@[simp] theorem saveSignals_spinning (w : W) : (saveSignals w).sp.spinning = w.sp.spinning := rfl
@[simp] theorem saveSignals_success (w : W) : (saveSignals w).sp.success = none := rfl
@[simp] theorem saveSignals_failure (w : W) : (saveSignals w).sp.failure = none := rfl
@[simp] theorem saveSignals_saved (w : W) : (saveSignals w).sp.saved = w.sigs := rfl

theorem fireD_of_fired {w : W} {r : Res} (h : w.u.dres ≠ none) : fireD r w = w := by
  unfold fireD
  split
  · rfl
  · contradiction

/-! ## the decision procedure of the loop, read off the queue -/

def kindQ : QAct Act → Kind
  | .timeout => .decisive .timeout
  | .user _ a => kindOf a

/-- the result of the loop when it starts in a "live" state (callbacks attached, Deferred unfired, timeout
pending, nothing recorded): scan the queue in order; a decisive call decides; after a stop request only the
calls due at that instant are still looked at -/
def liveRes (crashed : Bool) (now : Nat) : List (DCall (QAct Act)) → Res
  | [] => .noresult
  | c :: rest =>
    if crashed && now < c.time then .noresult else
    match kindQ c.act with
    | .decisive r => r
    | .stop => liveRes true (max now c.time) rest
    | .other => liveRes crashed (max now c.time) rest

structure Live (w : W) : Prop where
  att : w.u.attached = true
  dres : w.u.dres = none
  tc : w.sp.tcall = .pending
  succ : w.sp.success = none
  fail : w.sp.failure = none
  spinning : w.sp.spinning = true

/-- the result is decided and nothing that can still run will change it -/
def Done (r : Res) (w : W) : Prop :=
  w.crashed = true ∧ getResult w.sp = r ∧
  ((w.u.dres ≠ none ∧ w.sp.tcall = .cancelled ∧ ∀ c ∈ w.calls, c.act.isTimeout = false)
   ∨ (w.sp.tcall = .called ∧ w.sp.failure = some .timeout))

theorem getResult_live {w : W} (h : Live w) : getResult w.sp = .noresult := by
  simp [getResult, h.succ, h.fail]

theorem fireD_attached {w : W} (r : Res) (hd : w.u.dres = none) (ha : w.u.attached = true) :
    fireD r w = deliver r { w with u := { w.u with dres := some r } } := by
  unfold fireD; simp [hd, ha]

theorem fireD_unattached {w : W} (r : Res) (hd : w.u.dres = none) (ha : w.u.attached = false) :
    fireD r w = { w with u := { w.u with dres := some r } } := by
  unfold fireD; simp [hd, ha]

theorem deliver_done {w : W} (r : Res) (htc : w.sp.tcall = .pending) (hs : w.sp.success = none)
    (hf : w.sp.failure = none) (hsp : w.sp.spinning = true) (hr : isOwnResult r = true) (hd : w.u.dres ≠ none) :
    Done r (deliver r w) := by
  refine ⟨?_, ?_, Or.inl ⟨by simpa using hd, ?_, ?_⟩⟩
  · unfold deliver
    simp only [htc, stopReactor_crashed]
    cases r <;> simp [hsp]
  · unfold deliver
    simp only [htc]
    cases r <;> simp_all [getResult, isOwnResult]
  · unfold deliver
    simp only [htc, stopReactor_tcall]
    cases r <;> rfl
  · intro c hc
    rw [deliver_calls] at hc
    simp only [htc, if_true, List.mem_filter] at hc
    simpa using hc.2

/-- one "pop the head and run it" step from a live state -/
theorem live_step {w : W} (h : Live w) (c : DCall (QAct Act)) (rest : List (DCall (QAct Act))) :
    let w' := execCall exec c { w with calls := rest }
    match kindQ c.act with
    | .decisive r => Done r w'
    | .stop => Live w' ∧ w'.crashed = true ∧ w'.calls = rest ∧ w'.now = w.now
    | .other => Live w' ∧ w'.crashed = w.crashed ∧ w'.calls = rest ∧ w'.now = w.now := by
  obtain ⟨hatt, hdres, htc, hsucc, hfail, hspin⟩ := h
  rcases c with ⟨t, q⟩
  cases q with
  | timeout =>
    simp only [kindQ, execCall]
    refine ⟨?_, ?_, Or.inr ⟨by simp, by simp⟩⟩
    · simp [execTimeout, stopReactor_crashed, logEvent, hspin]
    · simp [getResult]
  | user l a =>
    cases a with
    | fire v =>
      simp only [kindQ, kindOf, execCall, exec]
      rw [fireD_attached _ (by simpa using hdres) (by simpa using hatt)]
      exact deliver_done _ (by simpa using htc) (by simpa using hsucc) (by simpa using hfail) (by simpa using hspin) rfl (by simp)
    | fail e =>
      simp only [kindQ, kindOf, execCall, exec]
      rw [fireD_attached _ (by simpa using hdres) (by simpa using hatt)]
      exact deliver_done _ (by simpa using htc) (by simpa using hsucc) (by simpa using hfail) (by simpa using hspin) rfl (by simp)
    | stop =>
      simp only [kindQ, kindOf, execCall, exec]
      exact ⟨⟨hatt, hdres, htc, hsucc, hfail, hspin⟩, by simp, by simp, by simp⟩
    | noop =>
      simp only [kindQ, kindOf, execCall, exec]
      exact ⟨⟨hatt, hdres, htc, hsucc, hfail, hspin⟩, by simp, by simp, by simp⟩
    | late f k v =>
      simp only [kindQ, kindOf, execCall, exec]
      exact ⟨⟨hatt, hdres, htc, hsucc, hfail, hspin⟩, by simp, by simp, by simp⟩
    | spawn d ch =>
      simp only [kindQ, kindOf, execCall, exec]
      exact ⟨⟨hatt, hdres, htc, hsucc, hfail, hspin⟩, by simp, by simp, by simp⟩
    | addSel =>
      simp only [kindQ, kindOf, execCall, exec]
      exact ⟨⟨hatt, hdres, htc, hsucc, hfail, hspin⟩, by simp, by simp, by simp⟩
    | setSig s h =>
      simp only [kindQ, kindOf, execCall, exec]
      exact ⟨⟨hatt, hdres, htc, hsucc, hfail, hspin⟩, by simp, by simp, by simp⟩
    | reenter f =>
      simp only [kindQ, kindOf, execCall, exec]
      exact ⟨⟨hatt, hdres, htc, hsucc, hfail, hspin⟩, by simp, by simp, by simp⟩

theorem done_stopReactor {r : Res} {w : W} (h : Done r w) : Done r (stopReactor w) := by
  obtain ⟨hc, hr, h3⟩ := h
  refine ⟨by simp [stopReactor_crashed, hc], ?_, ?_⟩
  · simpa [getResult] using hr
  · simpa using h3

theorem done_fireD {r r' : Res} {w : W} (h : Done r w) : Done r (fireD r' w) := by
  obtain ⟨hcr, hr, h3⟩ := h
  cases hd : w.u.dres with
  | some x => rw [fireD_of_fired (by simp [hd])]; exact ⟨hcr, hr, h3⟩
  | none =>
    rcases h3 with ⟨a, _, _⟩ | ⟨a, b⟩
    · exact absurd hd a
    · cases ha : w.u.attached with
      | true =>
        rw [fireD_attached _ hd ha, deliver_of_not_pending _ _ (by simp [a])]
        exact ⟨by simp [stopReactor_crashed, hcr], by simpa [getResult] using hr, Or.inr ⟨by simpa using a, by simpa using b⟩⟩
      | false =>
        rw [fireD_unattached _ hd ha]
        exact ⟨hcr, hr, Or.inr ⟨a, b⟩⟩

theorem done_step {r : Res} {w : W} (h : Done r w) (c : DCall (QAct Act)) (rest : List (DCall (QAct Act)))
    (hc : w.calls = c :: rest) : Done r (execCall exec c { w with calls := rest }) := by
  obtain ⟨hcr, hr, h3⟩ := h
  have hsub : ∀ x ∈ rest, x ∈ w.calls := fun x hx => by rw [hc]; exact List.mem_cons_of_mem _ hx
  -- a state with the same spinner / deferred and a smaller queue is still done
  have hbase : ∀ w1 : W, w1.crashed = true → w1.sp = w.sp → w1.u.dres = w.u.dres → (∀ x ∈ w1.calls, x ∈ w.calls) →
      Done r w1 := by
    intro w1 h1 h2 h3' h4
    refine ⟨h1, by rw [h2]; exact hr, ?_⟩
    rcases h3 with ⟨a, b, c'⟩ | ⟨a, b⟩
    · exact Or.inl ⟨by rw [h3']; exact a, by rw [h2]; exact b, fun x hx => c' x (h4 x hx)⟩
    · exact Or.inr ⟨by rw [h2]; exact a, by rw [h2]; exact b⟩
  rcases c with ⟨t, q⟩
  cases q with
  | timeout =>
    -- only possible when the timeout call had been called before (no timeout call is queued after a cancel)
    rcases h3 with ⟨_, _, c'⟩ | ⟨a, b⟩
    · have := c' ⟨t, .timeout⟩ (by rw [hc]; exact List.mem_cons_self)
      simp [QAct.isTimeout] at this
    · refine ⟨by simp [execCall, execTimeout, stopReactor_crashed, hcr], ?_, Or.inr ⟨by simp [execCall], by simp [execCall]⟩⟩
      have : r = .timeout := by rw [← hr]; simp [getResult, b]
      simp [execCall, getResult, this]
  | user l a =>
    simp only [execCall]
    cases a with
    | fire v => exact done_fireD (hbase _ hcr rfl rfl hsub)
    | fail e => exact done_fireD (hbase _ hcr rfl rfl hsub)
    | stop => exact hbase _ rfl rfl rfl hsub
    | noop => exact hbase _ hcr rfl rfl hsub
    | late f k v => exact hbase _ hcr rfl rfl hsub
    | spawn d ch => exact hbase _ hcr rfl rfl hsub
    | addSel => exact hbase _ hcr rfl rfl hsub
    | setSig s h => exact hbase _ hcr rfl rfl hsub
    | reenter f => exact hbase _ hcr rfl rfl hsub

theorem done_drain {r : Res} : ∀ (n : Nat) (w : W), Done r w → Done r (drain exec n w) :=
  drain_inv exec (Done r) (fun w c rest h hc _ => done_step h c rest hc)

/-- `drain` from a live state: either the result gets decided (as `liveRes` says), or the state stays live
and the head of the queue is not due -/
theorem drain_live : ∀ (n : Nat) (w : W), Live w → w.calls.length ≤ n →
    Done (liveRes w.crashed w.now w.calls) (drain exec n w) ∨
    (Live (drain exec n w) ∧ (drain exec n w).now = w.now
      ∧ (∀ c rest, (drain exec n w).calls = c :: rest → w.now < c.time)
      ∧ liveRes (drain exec n w).crashed w.now (drain exec n w).calls = liveRes w.crashed w.now w.calls
      ∧ (drain exec n w).calls.length ≤ w.calls.length
      ∧ ((drain exec n w).calls.length < w.calls.length ∨ ∀ c rest, w.calls = c :: rest → w.now < c.time))
  | 0, w, h, hn => by
      have : w.calls = [] := List.eq_nil_of_length_eq_zero (by omega)
      right
      exact ⟨h, rfl, by simp [drain, this], rfl, Nat.le_refl _, Or.inr (by simp [this])⟩
  | n + 1, w, h, hn => by
      unfold drain
      split
      · rename_i hc
        right
        exact ⟨h, rfl, by simp [hc], rfl, Nat.le_refl _, Or.inr (by simp [hc])⟩
      · rename_i c rest hc
        split
        · rename_i hle
          have hstep := live_step h c rest
          have hnot : ¬ (w.now < c.time) := by omega
          have hmax : max w.now c.time = w.now := by omega
          rw [hc]
          simp only [liveRes, hnot, decide_false, Bool.and_false, Bool.false_eq_true, if_false, hmax]
          cases hk : kindQ c.act with
          | decisive r =>
            rw [hk] at hstep
            left
            exact done_drain n _ hstep
          | stop =>
            rw [hk] at hstep
            obtain ⟨hl, hcr, hcalls, hnow⟩ := hstep
            have ih := drain_live n _ hl (by rw [hcalls]; simp [hc] at hn; omega)
            rw [hcr, hcalls, hnow] at ih
            rcases ih with ih | ⟨a, b, c', d, e, _⟩
            · left; exact ih
            · right; exact ⟨a, b, c', d, by simp; omega, Or.inl (by simp; omega)⟩
          | other =>
            rw [hk] at hstep
            obtain ⟨hl, hcr, hcalls, hnow⟩ := hstep
            have ih := drain_live n _ hl (by rw [hcalls]; simp [hc] at hn; omega)
            rw [hcr, hcalls, hnow] at ih
            rcases ih with ih | ⟨a, b, c', d, e, _⟩
            · left; exact ih
            · right; exact ⟨a, b, c', d, by simp; omega, Or.inl (by simp; omega)⟩
        · rename_i hnle
          have hnd : ∀ c' rest', c :: rest = c' :: rest' → w.now < c'.time := by
            intro c' rest' hc'
            obtain ⟨rfl, _⟩ := List.cons.inj hc'
            omega
          right
          exact ⟨h, rfl, fun c' rest' hc' => hnd c' rest' (hc ▸ hc'), rfl, Nat.le_refl _, Or.inr (fun c' rest' hc' => hnd c' rest' (hc ▸ hc'))⟩

theorem liveRes_advance (now : Nat) (c : DCall (QAct Act)) (rest : List (DCall (QAct Act))) :
    liveRes false (max now c.time) (c :: rest) = liveRes false now (c :: rest) := by
  simp only [liveRes, Bool.false_and, Bool.false_eq_true, if_false]
  have : max (max now c.time) c.time = max now c.time := by omega
  rw [this]

theorem live_now {w : W} (h : Live w) (t : Nat) : Live { w with now := t } :=
  ⟨h.att, h.dres, h.tc, h.succ, h.fail, h.spinning⟩

abbrev fuelD : W → Nat := fun w => w.calls.length

theorem spin_crashed (n : Nat) (w : W) (h : w.crashed = true) : spin exec fuelD n w = w := by
  cases n with
  | zero => rfl
  | succ n => unfold spin; simp [h]

/-- the loop of `reactor.run()` from a live state ends with the result `liveRes` reads off the queue, and it
ends because the reactor was crashed (or, never under `Spinner.run`, because nothing is left to wait for) -/
theorem spin_live : ∀ (n : Nat) (w : W), Live w → w.calls.length < n →
    (w.crashed = true → ∀ c rest, w.calls = c :: rest → w.now < c.time) →
    getResult (spin exec fuelD n w).sp = liveRes w.crashed w.now w.calls ∧
    ((spin exec fuelD n w).crashed = true ∨ (spin exec fuelD n w).calls = [])
  | 0, _, _, hn, _ => by omega
  | n + 1, w, h, hn, hdue => by
      unfold spin
      split
      · rename_i hcr
        refine ⟨?_, Or.inl hcr⟩
        rw [getResult_live h, hcr]
        cases hc : w.calls with
        | nil => rfl
        | cons c rest => simp [liveRes, hdue hcr c rest hc]
      · rename_i hcr
        have hcr' : w.crashed = false := by simpa using hcr
        split
        · rename_i hc
          exact ⟨by rw [getResult_live h, hc]; rfl, Or.inr hc⟩
        · rename_i c rest hc
          obtain ⟨w1, hw1⟩ : ∃ w1 : W, w1 = { w with now := max w.now c.time } := ⟨_, rfl⟩
          have hl1 : Live w1 := hw1 ▸ live_now h _
          have hc1 : w1.calls = c :: rest := by rw [hw1]; exact hc
          have hcr1 : w1.crashed = false := by rw [hw1]; exact hcr'
          have hn1 : w1.now = max w.now c.time := by rw [hw1]
          rw [← hw1]
          have hd := drain_live (fuelD w1) w1 hl1 (Nat.le_refl _)
          rw [hcr1, hc1, hn1, liveRes_advance] at hd
          rw [hcr', hc]
          rcases hd with hd | ⟨a, b, c', d, e, f⟩
          · -- decided: the loop stops at once
            rw [spin_crashed n _ hd.1]
            exact ⟨hd.2.1, Or.inl hd.1⟩
          · -- still live: at least the head has been consumed
            have hlt : (drain exec (fuelD w1) w1).calls.length < (c :: rest).length := by
              rcases f with f | f
              · exact f
              · have := f c rest rfl
                omega
            have ih := spin_live n _ a (by rw [hc] at hn; omega)
              (by intro _ c2 rest2 hc2; rw [b]; exact c' c2 rest2 hc2)
            rw [b] at ih
            rw [ih.1, d]
            exact ⟨rfl, ih.2⟩

/-! ## reading the result off a sorted queue -/

def decQ (c : DCall (QAct Act)) : Bool :=
  match kindQ c.act with
  | .decisive _ => true
  | _ => false

def resQ (c : DCall (QAct Act)) : Res :=
  match kindQ c.act with
  | .decisive r => r
  | _ => .noresult

def stopOk (t : Nat) (c : DCall (QAct Act)) : Bool := kindQ c.act != Kind.stop || decide (t ≤ c.time)

theorem liveRes_true_sorted : ∀ (q : List (DCall (QAct Act))) (now : Nat), Sorted q → (∀ c ∈ q, now ≤ c.time) →
    liveRes true now q = match q.find? decQ with
      | some w => if w.time ≤ now then resQ w else .noresult
      | none => .noresult
  | [], _, _, _ => by simp [liveRes]
  | c :: rest, now, hs, hge => by
      have hc := hge c List.mem_cons_self
      have ih := liveRes_true_sorted rest now hs.tail (fun x hx => hge x (List.mem_cons_of_mem _ hx))
      unfold liveRes
      by_cases hlt : now < c.time
      · simp only [hlt, decide_true, Bool.and_self, if_true, List.find?_cons]
        cases hd : decQ c
        · simp only
          cases hf : rest.find? decQ with
          | none => rfl
          | some w =>
            have := hs.head_le w (List.mem_of_find?_eq_some hf)
            have : ¬ w.time ≤ now := by omega
            simp [this]
        · have : ¬ c.time ≤ now := by omega
          simp [this]
      · have hmax : max now c.time = now := by omega
        simp only [hlt, decide_false, Bool.and_false, Bool.false_eq_true, if_false, hmax, List.find?_cons]
        cases hk : kindQ c.act with
        | decisive r =>
          have : c.time ≤ now := by omega
          simp [decQ, resQ, hk, this]
        | stop => simp only [decQ, hk]; exact ih
        | other => simp only [decQ, hk]; exact ih

theorem liveRes_false_sorted : ∀ (q : List (DCall (QAct Act))) (now : Nat), Sorted q → (∀ c ∈ q, now ≤ c.time) →
    liveRes false now q = match q.find? decQ with
      | some w => if q.all (stopOk w.time) then resQ w else .noresult
      | none => .noresult
  | [], _, _, _ => by simp [liveRes]
  | c :: rest, now, hs, hge => by
      have hc := hge c List.mem_cons_self
      have hmax : max now c.time = c.time := by omega
      have hrest : ∀ x ∈ rest, c.time ≤ x.time := hs.head_le
      unfold liveRes
      simp only [Bool.false_and, Bool.false_eq_true, if_false, hmax, List.find?_cons]
      cases hk : kindQ c.act with
      | decisive r =>
        have hall : (c :: rest).all (stopOk c.time) = true := by
          simp only [List.all_cons, stopOk, hk, List.all_eq_true, Bool.and_eq_true]
          refine ⟨by simp, fun x hx => ?_⟩
          simp [hrest x hx]
        simp only [decQ, hk, hall, if_true, resQ]
      | stop =>
        simp only [decQ, hk]
        rw [liveRes_true_sorted rest c.time hs.tail hrest]
        cases hf : rest.find? decQ with
        | none => rfl
        | some w =>
          have hc_ok : stopOk w.time c = decide (w.time ≤ c.time) := by simp [stopOk, hk]
          simp only [List.all_cons, hc_ok]
          by_cases hw : w.time ≤ c.time
          · have hall : rest.all (stopOk w.time) = true := by
              simp only [List.all_eq_true]
              intro x hx
              have := hrest x hx
              simp [stopOk]; right; omega
            simp [hw, hall]
          · simp [hw]
      | other =>
        simp only [decQ, hk]
        rw [liveRes_false_sorted rest c.time hs.tail hrest]
        cases hf : rest.find? decQ with
        | none => rfl
        | some w => simp [List.all_cons, stopOk, hk]

/-! ## the queue a scenario builds, and the scan `winner` -/

def insAll (L q : List (DCall (QAct Act))) : List (DCall (QAct Act)) := L.foldl (fun q c => insert c q) q

theorem insAll_sorted : ∀ (L q : List (DCall (QAct Act))), Sorted q → Sorted (insAll L q)
  | [], _, h => h
  | c :: L, q, h => insAll_sorted L _ (insert_sorted c q h)

theorem insAll_all (p : DCall (QAct Act) → Bool) : ∀ (L q : List (DCall (QAct Act))),
    (insAll L q).all p = (L.all p && q.all p)
  | [], q => by simp [insAll]
  | c :: L, q => by
      have := insAll_all p L (insert c q)
      simp only [insAll, List.foldl_cons] at this ⊢
      rw [this, insert_all, List.all_cons]
      cases p c <;> simp

theorem insAll_append (L1 L2 q : List (DCall (QAct Act))) : insAll (L1 ++ L2) q = insAll L2 (insAll L1 q) := by
  simp [insAll, List.foldl_append]

def proj (c : DCall (QAct Act)) : Nat × Kind := (c.time, kindQ c.act)
def key (c : DCall (QAct Act)) : Nat × Res := (c.time, resQ c)

theorem winner_skip (t : Nat) (k : Kind) (rest : List (Nat × Kind)) (best : Option (Nat × Res))
    (hk : ∀ r, k ≠ .decisive r) : winner ((t, k) :: rest) best = winner rest best := by
  cases k with
  | decisive r => exact absurd rfl (hk r)
  | stop => cases best <;> rfl
  | other => cases best <;> rfl

theorem insAll_find : ∀ (L q : List (DCall (QAct Act))), Sorted q →
    ((insAll L q).find? decQ).map key = winner (L.map proj) ((q.find? decQ).map key)
  | [], q, _ => by simp [insAll, winner]
  | c :: L, q, hs => by
      have ih := insAll_find L (insert c q) (insert_sorted c q hs)
      simp only [insAll, List.foldl_cons] at ih ⊢
      rw [ih, insert_find decQ c q hs, List.map_cons]
      cases hk : kindQ c.act with
      | decisive r =>
        have hd : decQ c = true := by simp [decQ, hk]
        have hkey : key c = (c.time, r) := by simp [key, resQ, hk]
        simp only [hd, if_true, proj, hk]
        cases hf : q.find? decQ with
        | none => simp [winner, hkey]
        | some w =>
          simp only [Option.map_some, winner, key]
          by_cases hle : w.time ≤ c.time
          · have : ¬ c.time < w.time := by omega
            simp [hle, this, key]
          · have : c.time < w.time := by omega
            simp [hle, this, hkey]
      | stop =>
        have hd : decQ c = false := by simp [decQ, hk]
        simp only [hd, Bool.false_eq_true, if_false, proj, hk]
        rw [winner_skip _ _ _ _ (by intro r; simp)]
      | other =>
        have hd : decQ c = false := by simp [decQ, hk]
        simp only [hd, Bool.false_eq_true, if_false, proj, hk]
        rw [winner_skip _ _ _ _ (by intro r; simp)]

theorem winner_shift (b : Nat) : ∀ (cs : List (Nat × Kind)) (best : Option (Nat × Res)),
    winner (cs.map fun c => (b + c.1, c.2)) (best.map fun x => (b + x.1, x.2)) =
      (winner cs best).map fun x => (b + x.1, x.2)
  | [], best => by simp [winner]
  | (t, k) :: rest, best => by
      cases k with
      | decisive r =>
        cases best with
        | none =>
          simp only [List.map_cons, Option.map_none, winner]
          exact winner_shift b rest (some (t, r))
        | some x =>
          obtain ⟨tb, rb⟩ := x
          simp only [List.map_cons, Option.map_some, winner]
          have := winner_shift b rest (if t < tb then some (t, r) else some (tb, rb))
          by_cases h : t < tb
          · have h' : b + t < b + tb := by omega
            simpa [h, h'] using this
          · have h' : ¬ b + t < b + tb := by omega
            simpa [h, h'] using this
      | stop =>
        rw [List.map_cons, winner_skip _ _ _ _ (by intro r; simp), winner_skip _ _ _ _ (by intro r; simp)]
        exact winner_shift b rest best
      | other =>
        rw [List.map_cons, winner_skip _ _ _ _ (by intro r; simp), winner_skip _ _ _ _ (by intro r; simp)]
        exact winner_shift b rest best

theorem mem_insAll (c : DCall (QAct Act)) : ∀ (L q : List (DCall (QAct Act))), c ∈ insAll L q ↔ c ∈ L ∨ c ∈ q
  | [], q => by simp [insAll]
  | d :: L, q => by
      have := mem_insAll c L (insert d q)
      simp only [insAll, List.foldl_cons] at this ⊢
      rw [this, mem_insert, List.mem_cons]
      constructor
      · rintro (h | h | h) <;> simp [h]
      · rintro ((h | h) | h) <;> simp [h]

/-- the delayed calls made before `run`, with their labels and absolute times -/
def preCalls (b : Nat) : Nat → List (Nat × Act) → List (DCall (QAct Act))
  | _, [] => []
  | i, (d, a) :: rest => ⟨b + d, .user i a⟩ :: preCalls b (i + 1) rest

/-- the delayed calls made by `f` -/
def laterCalls (b : Nat) : Nat → List Op → List (DCall (QAct Act))
  | _, [] => []
  | i, .later d a :: rest => ⟨b + d, .user i a⟩ :: laterCalls b (i + 1) rest
  | i, .now _ :: rest => laterCalls b (i + 1) rest

theorem preCalls_proj (b : Nat) : ∀ (i : Nat) (pre : List (Nat × Act)),
    (preCalls b i pre).map proj = (pre.map fun p => (p.1, kindOf p.2)).map fun c => (b + c.1, c.2)
  | _, [] => rfl
  | i, (d, a) :: rest => by simp [preCalls, proj, kindQ, preCalls_proj b (i + 1) rest]

theorem laterCalls_proj (b : Nat) : ∀ (i : Nat) (body : List Op),
    (laterCalls b i body).map proj = (body.filterMap laterKind).map fun c => (b + c.1, c.2)
  | _, [] => rfl
  | i, .later d a :: rest => by simp [laterCalls, proj, kindQ, laterKind, laterCalls_proj b (i + 1) rest]
  | i, .now a :: rest => by
      simp only [laterCalls, List.filterMap_cons, laterKind]
      exact laterCalls_proj b (i + 1) rest

theorem schedPre_eq : ∀ (i : Nat) (pre : List (Nat × Act)) (w : W),
    schedPre i pre w = { w with calls := insAll (preCalls w.now i pre) w.calls }
  | _, [], w => by simp [schedPre, preCalls, insAll]
  | i, (d, a) :: rest, w => by
      rw [schedPre, schedPre_eq (i + 1) rest]
      simp [preCalls, insAll, schedule]

/-! ## what `f` does before the loop -/

theorem exec_unattached (l : Nat) (a : Act) (w : W) (h : w.u.attached = false) :
    (exec l a w).calls = w.calls ∧ (exec l a w).now = w.now ∧ (exec l a w).t0 = w.t0 ∧ (exec l a w).sp = w.sp
    ∧ (exec l a w).u.attached = false
    ∧ (exec l a w).u.dres = (match w.u.dres with | some r => some r | none => fireRes a)
    ∧ (exec l a w).crashed = (w.crashed || a == .stop)
    ∧ (exec l a w).running = w.running ∧ (exec l a w).stopPatched = w.stopPatched := by
  cases a with
  | fire v =>
    cases hd : w.u.dres with
    | some r => simp [exec, fireD_of_fired (w := w) (r := .value v) (by simp [hd]), hd, h]
    | none => simp [exec, fireD_unattached _ hd h, hd, h, fireRes]
  | fail e =>
    cases hd : w.u.dres with
    | some r => simp [exec, fireD_of_fired (w := w) (r := .raised e) (by simp [hd]), hd, h]
    | none => simp [exec, fireD_unattached _ hd h, hd, h, fireRes]
  | stop => cases hd : w.u.dres <;> simp [exec, h, fireRes, hd]
  | noop => cases hd : w.u.dres <;> simp [exec, h, fireRes, hd]
  | late f k v => cases hd : w.u.dres <;> simp [exec, h, fireRes, hd]
  | spawn d ch => cases hd : w.u.dres <;> simp [exec, h, fireRes, hd]
  | addSel => cases hd : w.u.dres <;> simp [exec, h, fireRes, hd]
  | setSig s x => cases hd : w.u.dres <;> simp [exec, h, fireRes, hd]
  | reenter f => cases hd : w.u.dres <;> simp [exec, h, fireRes, hd]

structure BodyFacts (i : Nat) (body : List Op) (w w' : W) : Prop where
  calls : w'.calls = insAll (laterCalls w.now i body) w.calls
  now : w'.now = w.now
  t0 : w'.t0 = w.t0
  sp : w'.sp = w.sp
  att : w'.u.attached = false
  dres : w'.u.dres = (match w.u.dres with | some r => some r | none => (body.filterMap nowAct).findSome? fireRes)
  crashed : w'.crashed = (w.crashed || (body.filterMap nowAct).any (· == .stop))
  running : w'.running = w.running
  stopPatched : w'.stopPatched = w.stopPatched

theorem runBody_facts : ∀ (i : Nat) (body : List Op) (w : W), w.u.attached = false →
    BodyFacts i body w (runBody i body w)
  | _, [], w, h => by
      refine ⟨rfl, rfl, rfl, rfl, h, ?_, by simp [runBody], rfl, rfl⟩
      simp only [runBody]
      cases w.u.dres <;> rfl
  | i, .later d a :: rest, w, h => by
      have ih := runBody_facts (i + 1) rest (schedule (w.now + d) (.user i a) w) h
      simp only [runBody]
      exact ⟨by rw [ih.calls]; simp [laterCalls, insAll], ih.now, ih.t0, ih.sp, ih.att,
        by rw [ih.dres]; simp only [schedule_u, List.filterMap_cons, nowAct],
        by rw [ih.crashed]; simp only [schedule_crashed, List.filterMap_cons, nowAct], ih.running, ih.stopPatched⟩
  | i, .now a :: rest, w, h => by
      obtain ⟨e1, e2, e3, e4, e5, e6, e7, e8, e9⟩ := exec_unattached i a (logEvent (.user i) w) h
      have ih := runBody_facts (i + 1) rest (exec i a (logEvent (.user i) w)) e5
      simp only [runBody]
      refine ⟨by rw [ih.calls, e1, e2]; simp [laterCalls], by rw [ih.now, e2]; rfl, by rw [ih.t0, e3]; rfl,
        by rw [ih.sp, e4]; rfl, ih.att, ?_, ?_, by rw [ih.running, e8]; rfl, by rw [ih.stopPatched, e9]; rfl⟩
      · rw [ih.dres, e6]
        simp only [logEvent_u, List.filterMap_cons, nowAct, List.findSome?_cons]
        cases w.u.dres with
        | some r => rfl
        | none => cases fireRes a <;> rfl
      · rw [ih.crashed, e7]
        simp [nowAct, Bool.or_assoc]

/-- the state in which `f` starts: results forgotten, timeout call scheduled, `reactor.stop` patched, running -/
def entry (sc : Scen) (w : W) : W :=
  let w : W := saveSignals w
  let w := schedule (w.now + sc.timeout) .timeout w
  { w with stopPatched := true, running := true, crashed := false,
           sp := { w.sp with tcall := .pending, spinning := true } }

/-- the state in which the loop starts -/
def loopStart (sc : Scen) (w : W) : W := finishF sc.term (runBody sc.pre.length sc.body (entry sc w))

theorem spinPhase_eq (sc : Scen) (w : W) :
    spinPhase sc w = spin exec fuelD ((loopStart sc w).calls.length + 1) (loopStart sc w) := rfl

theorem deliver_result {w : W} (r : Res) (htc : w.sp.tcall = .pending) (hs : w.sp.success = none)
    (hf : w.sp.failure = none) (hsp : w.sp.spinning = true) (hr : isOwnResult r = true) :
    getResult (deliver r w).sp = r ∧ (deliver r w).crashed = true := by
  constructor
  · unfold deliver
    simp only [htc]
    cases r <;> simp_all [getResult, isOwnResult]
  · unfold deliver
    simp only [htc, stopReactor_crashed]
    cases r <;> simp [hsp]

theorem isOwn_fireRes {a : Act} {r : Res} (h : fireRes a = some r) : isOwnResult r = true := by
  cases a <;> simp [fireRes] at h <;> subst h <;> rfl

theorem isOwn_findSome {as : List Act} {r : Res} (h : as.findSome? fireRes = some r) : isOwnResult r = true := by
  obtain ⟨a, _, ha⟩ := List.exists_of_findSome?_eq_some h
  exact isOwn_fireRes ha

/-- the delayed calls of the scenario in scheduling order, labelled, with absolute times -/
def allCalls (sc : Scen) (b : Nat) : List (DCall (QAct Act)) :=
  preCalls b 0 sc.pre ++ ⟨b + sc.timeout, .timeout⟩ :: laterCalls b sc.pre.length sc.body

theorem allCalls_proj (sc : Scen) (b : Nat) :
    (allCalls sc b).map proj = (delayed sc).map fun c => (b + c.1, c.2) := by
  simp [allCalls, delayed, preCalls_proj, laterCalls_proj, proj, kindQ]

theorem preCalls_time (b : Nat) : ∀ (i : Nat) (pre : List (Nat × Act)), ∀ c ∈ preCalls b i pre, b ≤ c.time
  | _, [], c, h => by cases h
  | i, (d, a) :: rest, c, h => by
      rcases List.mem_cons.mp h with rfl | h
      · simp
      · exact preCalls_time b (i + 1) rest c h

theorem laterCalls_time (b : Nat) : ∀ (i : Nat) (body : List Op), ∀ c ∈ laterCalls b i body, b ≤ c.time
  | _, [], c, h => by cases h
  | i, .later d a :: rest, c, h => by
      rcases List.mem_cons.mp h with rfl | h
      · simp
      · exact laterCalls_time b (i + 1) rest c h
  | i, .now a :: rest, c, h => laterCalls_time b (i + 1) rest c h

theorem allCalls_time (sc : Scen) (b : Nat) : ∀ c ∈ allCalls sc b, b ≤ c.time := by
  intro c hc
  simp only [allCalls, List.mem_append, List.mem_cons] at hc
  rcases hc with hc | rfl | hc
  · exact preCalls_time b _ _ c hc
  · simp
  · exact laterCalls_time b _ _ c hc

theorem entry_body (sc : Scen) (w : W) (hq : w.calls = insAll (preCalls w.now 0 sc.pre) []) (hatt : w.u.attached = false)
    (hdres : w.u.dres = none) :
    let wD := runBody sc.pre.length sc.body (entry sc w)
    wD.calls = insAll (allCalls sc w.now) [] ∧ wD.now = w.now ∧ wD.sp.tcall = .pending ∧ wD.sp.success = none
    ∧ wD.sp.failure = none ∧ wD.sp.spinning = true ∧ wD.u.attached = false ∧ wD.u.dres = syncFire sc
    ∧ wD.crashed = syncStop sc := by
  have hb := runBody_facts sc.pre.length sc.body (entry sc w) (by simpa [entry] using hatt)
  refine ⟨?_, ?_, ?_, ?_, ?_, ?_, hb.att, ?_, ?_⟩
  · rw [hb.calls]
    simp only [entry, schedule_calls, schedule_now, saveSignals_calls, saveSignals_now, allCalls, insAll_append]
    rw [hq]
    simp [insAll]
  · rw [hb.now]; rfl
  · rw [hb.sp]; rfl
  · rw [hb.sp]; rfl
  · rw [hb.sp]; rfl
  · rw [hb.sp]; rfl
  · rw [hb.dres]
    have : (entry sc w).u.dres = none := by simpa [entry] using hdres
    rw [this]; rfl
  · rw [hb.crashed]
    simp [entry, syncStop]

/-- **the loop computes the declarative `expected`** -/
theorem spinPhase_result (sc : Scen) (w : W) (hq : w.calls = insAll (preCalls w.now 0 sc.pre) [])
    (hatt : w.u.attached = false) (hdres : w.u.dres = none) :
    getResult (spinPhase sc w).sp = expected sc ∧
    ((spinPhase sc w).crashed = true ∨ (spinPhase sc w).calls = []) := by
  obtain ⟨hcalls, hnow, htc, hs, hf, hsp, hat, hdr, hcr⟩ := entry_body sc w hq hatt hdres
  rw [spinPhase_eq]
  -- a synchronous result: recorded at once, the reactor is crashed before the loop starts
  have sync : ∀ r, isOwnResult r = true → syncRes sc = some r →
      loopStart sc w = deliver r (runBody sc.pre.length sc.body (entry sc w)) ∨
      loopStart sc w = deliver r { runBody sc.pre.length sc.body (entry sc w) with
        u := { (runBody sc.pre.length sc.body (entry sc w)).u with attached := true } } →
      getResult (spin exec fuelD ((loopStart sc w).calls.length + 1) (loopStart sc w)).sp = expected sc ∧
      ((spin exec fuelD ((loopStart sc w).calls.length + 1) (loopStart sc w)).crashed = true ∨
       (spin exec fuelD ((loopStart sc w).calls.length + 1) (loopStart sc w)).calls = []) := by
    intro r hr hsr hls
    have hexp : expected sc = r := by simp [expected, hsr]
    rcases hls with hls | hls
    · obtain ⟨h1, h2⟩ := deliver_result (w := runBody sc.pre.length sc.body (entry sc w)) r htc hs hf hsp hr
      rw [hls, spin_crashed _ _ h2, hexp]
      exact ⟨h1, Or.inl h2⟩
    · obtain ⟨h1, h2⟩ := deliver_result (w := { runBody sc.pre.length sc.body (entry sc w) with
        u := { (runBody sc.pre.length sc.body (entry sc w)).u with attached := true } }) r htc hs hf hsp hr
      rw [hls, spin_crashed _ _ h2, hexp]
      exact ⟨h1, Or.inl h2⟩
  cases hterm : sc.term with
  | ret v => exact sync (.value v) rfl (by simp [syncRes, hterm]) (Or.inl (by simp [loopStart, finishF, hterm]))
  | raise e => exact sync (.raised e) rfl (by simp [syncRes, hterm]) (Or.inl (by simp [loopStart, finishF, hterm]))
  | deferred =>
    cases hsf : syncFire sc with
    | some r =>
      refine sync r (isOwn_findSome hsf) (by simp [syncRes, hterm, hsf]) (Or.inr ?_)
      simp only [loopStart, finishF, hterm]
      rw [hdr, hsf]
    | none =>
      have hsr : syncRes sc = none := by simp [syncRes, hterm, hsf]
      have hls : loopStart sc w = { runBody sc.pre.length sc.body (entry sc w) with
          u := { (runBody sc.pre.length sc.body (entry sc w)).u with attached := true } } := by
        simp only [loopStart, finishF, hterm]
        rw [hdr, hsf]
      have hlive : Live (loopStart sc w) := by
        rw [hls]
        exact ⟨rfl, by simpa [hsf] using hdr, htc, hs, hf, hsp⟩
      have hcalls' : (loopStart sc w).calls = insAll (allCalls sc w.now) [] := by rw [hls]; exact hcalls
      have hnow' : (loopStart sc w).now = w.now := by rw [hls]; exact hnow
      have hcr' : (loopStart sc w).crashed = syncStop sc := by rw [hls]; exact hcr
      cases hss : syncStop sc with
      | true =>
        rw [spin_crashed _ _ (by rw [hcr', hss])]
        exact ⟨by rw [getResult_live hlive]; simp [expected, hsr, hss], Or.inl (by rw [hcr', hss])⟩
      | false =>
        have hsl := spin_live ((loopStart sc w).calls.length + 1) (loopStart sc w) hlive (Nat.lt_succ_self _)
          (by intro h; rw [hcr', hss] at h; cases h)
        refine ⟨?_, hsl.2⟩
        rw [hsl.1, hcr', hss, hcalls', hnow']
        have hsorted : Sorted (insAll (allCalls sc w.now) []) := insAll_sorted _ _ (by simp [Sorted])
        have hge : ∀ c ∈ insAll (allCalls sc w.now) [], w.now ≤ c.time := by
          intro c hc
          rcases (mem_insAll _ _ _).mp hc with hc | hc
          · exact allCalls_time sc w.now c hc
          · cases hc
        rw [liveRes_false_sorted _ _ hsorted hge]
        have hfind := insAll_find (allCalls sc w.now) [] (by simp [Sorted])
        rw [allCalls_proj] at hfind
        have hshift := winner_shift w.now (delayed sc) none
        simp only [List.find?_nil, Option.map_none] at hfind hshift
        rw [hshift] at hfind
        simp only [expected, hsr, hss, Bool.false_eq_true, if_false]
        cases hw : winner (delayed sc) none with
        | none =>
          rw [hw] at hfind
          cases hq' : (insAll (allCalls sc w.now) []).find? decQ with
          | none => rfl
          | some x => rw [hq'] at hfind; simp at hfind
        | some tr =>
          obtain ⟨t, r⟩ := tr
          rw [hw] at hfind
          cases hq' : (insAll (allCalls sc w.now) []).find? decQ with
          | none => rw [hq'] at hfind; simp at hfind
          | some x =>
            rw [hq'] at hfind
            simp only [Option.map_some, key, Option.some.injEq, Prod.mk.injEq] at hfind
            obtain ⟨hxt, hxr⟩ := hfind
            have hallq : (insAll (allCalls sc w.now) []).all (stopOk x.time) = noStopBefore t (delayed sc) := by
              rw [insAll_all]
              simp only [List.all_nil, Bool.and_true]
              have : (allCalls sc w.now).all (stopOk x.time)
                  = ((allCalls sc w.now).map proj).all (fun c => c.2 != Kind.stop || decide (x.time ≤ c.1)) := by
                rw [List.all_map]; rfl
              rw [this, allCalls_proj, hxt]
              simp only [noStopBefore, List.all_map]
              apply List.all_congr rfl
              intro c
              simp
            simp only [hallq, hxr]

/-! ## bookkeeping invariants: every scheduled call is executed or left over, exactly once -/

def qlbls (w : W) : List Lbl := w.calls.map (·.act.lbl)
def elbls (w : W) : List Lbl := w.events.map (·.2)

theorem lbl_of_isTimeout {q : QAct Act} (h : q.isTimeout = true) : q.lbl = .timeout := by
  cases q <;> simp_all [QAct.isTimeout, QAct.lbl]

theorem lbl_of_not_isTimeout {q : QAct Act} (h : q.isTimeout = false) : q.lbl ≠ .timeout := by
  cases q <;> simp_all [QAct.isTimeout, QAct.lbl]

theorem count_user_filter (l : Nat) (q : List (DCall (QAct Act))) :
    ((q.filter fun c => !c.act.isTimeout).map (·.act.lbl)).count (.user l) = (q.map (·.act.lbl)).count (.user l) := by
  induction q with
  | nil => rfl
  | cons c rest ih =>
    cases hc : c.act.isTimeout
    · simp only [List.filter_cons, hc, Bool.not_false, if_true, List.map_cons, List.count_cons, ih]
    · have := lbl_of_isTimeout hc
      simp only [List.filter_cons, hc, Bool.not_true, Bool.false_eq_true, if_false, List.map_cons, List.count_cons, ih, this]
      simp

theorem count_timeout_filter (q : List (DCall (QAct Act))) :
    ((q.filter fun c => !c.act.isTimeout).map (·.act.lbl)).count .timeout = 0 := by
  induction q with
  | nil => rfl
  | cons c rest ih =>
    cases hc : c.act.isTimeout
    · have := lbl_of_not_isTimeout hc
      simp only [List.filter_cons, hc, Bool.not_false, if_true, List.map_cons, List.count_cons, ih]
      simp [this]
    · simp only [List.filter_cons, hc, Bool.not_true, Bool.false_eq_true, if_false, ih]

/-- the user-visible effect of `deliver`/`stopReactor` on the queue: at most the timeout call disappears -/
theorem deliver_count_user (r : Res) (w : W) (l : Nat) :
    (qlbls (deliver r w)).count (.user l) = (qlbls w).count (.user l) := by
  simp only [qlbls, deliver_calls]
  split
  · exact count_user_filter l w.calls
  · rfl

theorem deliver_mem (r : Res) (w : W) : ∀ c ∈ (deliver r w).calls, c ∈ w.calls := by
  intro c hc
  rw [deliver_calls] at hc
  split at hc
  · exact (List.mem_filter.mp hc).1
  · exact hc

def isReenter : Act → Bool
  | .reenter _ => true
  | _ => false

/-- how a scenario action changes what the bookkeeping looks at -/
structure ExecFrame (l : Nat) (a : Act) (w w' : W) : Prop where
  events : w'.events = w.events
  cnt : ∀ l', (qlbls w').count (.user l') = (qlbls w).count (.user l')
  mem : ∀ c ∈ w'.calls, c ∈ w.calls
  sels : w'.sels = if a = .addSel then w.sels ++ [l] else w.sels
  reent : w'.u.reentries = if isReenter a then w.u.reentries ++ [.reentry] else w.u.reentries
  sigs : w'.sigs.length = w.sigs.length
  now : w'.now = w.now
  t0 : w'.t0 = w.t0
  junk : w'.sp.junk = w.sp.junk
  running : w'.running = w.running
  stopPatched : w'.stopPatched = w.stopPatched

theorem fireD_frame (l : Nat) (a : Act) (r : Res) (w : W) (ha : a ≠ .addSel) (hre : isReenter a = false) :
    ExecFrame l a w (fireD r w) := by
  have hsel : (if a = Act.addSel then w.sels ++ [l] else w.sels) = w.sels := by simp [ha]
  have hre' : (if isReenter a then w.u.reentries ++ [Res.reentry] else w.u.reentries) = w.u.reentries := by simp [hre]
  cases hd : w.u.dres with
  | some x =>
    rw [fireD_of_fired (by simp [hd])]
    exact ⟨rfl, fun _ => rfl, fun _ h => h, hsel.symm, hre'.symm, rfl, rfl, rfl, rfl, rfl, rfl⟩
  | none =>
    cases hat : w.u.attached with
    | true =>
      rw [fireD_attached _ hd hat]
      exact ⟨by simp, fun l' => by rw [deliver_count_user]; rfl, fun c hc => deliver_mem r { w with u := { w.u with dres := some r } } c hc, by simp [hsel],
        by simp [hre'], by simp, by simp, by simp, by simp, by simp, by simp⟩
    | false =>
      rw [fireD_unattached _ hd hat]
      exact ⟨rfl, fun _ => rfl, fun _ h => h, hsel.symm, hre'.symm, rfl, rfl, rfl, rfl, rfl, rfl⟩

theorem exec_frame (l : Nat) (a : Act) (w : W) : ExecFrame l a w (exec l a w) := by
  cases a with
  | fire v => exact fireD_frame l _ _ w (by simp) rfl
  | fail e => exact fireD_frame l _ _ w (by simp) rfl
  | stop => exact ⟨rfl, fun _ => rfl, fun _ h => h, by simp [exec], rfl, rfl, rfl, rfl, rfl, rfl, rfl⟩
  | noop => exact ⟨rfl, fun _ => rfl, fun _ h => h, by simp [exec], rfl, rfl, rfl, rfl, rfl, rfl, rfl⟩
  | late f k v => exact ⟨rfl, fun _ => rfl, fun _ h => h, by simp [exec], rfl, rfl, rfl, rfl, rfl, rfl, rfl⟩
  | spawn d ch => exact ⟨rfl, fun _ => rfl, fun _ h => h, by simp [exec], rfl, rfl, rfl, rfl, rfl, rfl, rfl⟩
  | addSel => exact ⟨rfl, fun _ => rfl, fun _ h => h, by simp [exec], rfl, rfl, rfl, rfl, rfl, rfl, rfl⟩
  | setSig s h => exact ⟨rfl, fun _ => rfl, fun _ h => h, by simp [exec], rfl, by simp [exec], rfl, rfl, rfl, rfl, rfl⟩
  | reenter f => exact ⟨rfl, fun _ => rfl, fun _ h => h, by simp [exec], rfl, rfl, rfl, rfl, rfl, rfl, rfl⟩

/-- bookkeeping invariant: `k` labels have been issued so far -/
structure Book (sc : Scen) (k : Nat) (w : W) : Prop where
  cnt : ∀ l, (qlbls w).count (.user l) + (elbls w).count (.user l) = if l < k then 1 else 0
  lab : ∀ c ∈ w.calls, ∀ l a, c.act = .user l a → actOf sc l = some a ∧ l ∈ delayedLabels sc
  sels : w.sels = w.events.filterMap (selEv sc)
  reent : w.u.reentries.length = (w.events.filter (isReenterEv sc)).length
  reent_all : ∀ r ∈ w.u.reentries, r = .reentry

theorem selEv_user (sc : Scen) (t l : Nat) (a : Act) (h : actOf sc l = some a) :
    selEv sc (t, .user l) = if a = .addSel then some l else none := by
  simp only [selEv, h]
  cases a <;> simp

theorem isReenterEv_user (sc : Scen) (t l : Nat) (a : Act) (h : actOf sc l = some a) :
    isReenterEv sc (t, .user l) = isReenter a := by
  simp only [isReenterEv, h]
  cases a <;> rfl

/-- logging the event of label `l` and running its action: `l` moves to "executed" -/
theorem book_run (sc : Scen) (k : Nat) (w : W) (l : Nat) (a : Act) (hact : actOf sc l = some a)
    (hlab : ∀ c ∈ w.calls, ∀ l a, c.act = .user l a → actOf sc l = some a ∧ l ∈ delayedLabels sc)
    (hsels : w.sels = w.events.filterMap (selEv sc))
    (hre : w.u.reentries.length = (w.events.filter (isReenterEv sc)).length)
    (hra : ∀ r ∈ w.u.reentries, r = .reentry)
    (hcnt : ∀ l', (qlbls w).count (.user l') + (elbls w).count (.user l') + (if l' = l then 1 else 0) = if l' < k then 1 else 0) :
    Book sc k (exec l a (logEvent (.user l) w)) := by
  have hf := exec_frame l a (logEvent (.user l) w)
  refine ⟨?_, ?_, ?_, ?_, ?_⟩
  · intro l'
    rw [hf.cnt l', ← hcnt l']
    simp only [elbls, hf.events, logEvent_events, List.map_append, List.count_append, qlbls, logEvent_calls]
    by_cases h : l' = l
    · subst h; simp; omega
    · have : Lbl.user l ≠ Lbl.user l' := by intro h'; injection h' with h'; exact h h'.symm
      simp [h, List.count_cons, this]
  · intro c hc
    exact hlab c (hf.mem c hc)
  · rw [hf.sels, hf.events]
    simp only [logEvent_sels, logEvent_events, List.filterMap_append, List.filterMap_cons, List.filterMap_nil,
      selEv_user sc _ l a hact, hsels]
    split <;> simp
  · rw [hf.reent, hf.events]
    simp only [logEvent_u, logEvent_events, List.filter_append, List.length_append, List.filter_cons,
      isReenterEv_user sc _ l a hact, List.filter_nil]
    cases isReenter a <;> simp [hre]
  · rw [hf.reent]
    simp only [logEvent_u]
    split
    · intro r hr
      rcases List.mem_append.mp hr with h | h
      · exact hra r h
      · simpa using h
    · exact hra

/-- an action either leaves queue, spinner and clock alone (it may request a crash), or it is a `deliver` of the
Deferred's own result on such a state -/
theorem exec_cases (l : Nat) (a : Act) (w : W) :
    ((exec l a w).calls = w.calls ∧ (exec l a w).sp = w.sp ∧ (w.crashed = true → (exec l a w).crashed = true)
      ∧ (exec l a w).now = w.now ∧ (exec l a w).events = w.events ∧ ((exec l a w).crashed = w.crashed ∨ a = .stop)) ∨
    (∃ r w1, isOwnResult r = true ∧ exec l a w = deliver r w1 ∧ w1.calls = w.calls ∧ w1.sp = w.sp
      ∧ w1.crashed = w.crashed ∧ w1.now = w.now ∧ w1.events = w.events) := by
  have hfire : ∀ r, isOwnResult r = true →
      ((fireD r w).calls = w.calls ∧ (fireD r w).sp = w.sp ∧ (w.crashed = true → (fireD r w).crashed = true)
        ∧ (fireD r w).now = w.now ∧ (fireD r w).events = w.events ∧ (fireD r w).crashed = w.crashed) ∨
      (∃ r' w1, isOwnResult r' = true ∧ fireD r w = deliver r' w1 ∧ w1.calls = w.calls ∧ w1.sp = w.sp
        ∧ w1.crashed = w.crashed ∧ w1.now = w.now ∧ w1.events = w.events) := by
    intro r hr
    cases hd : w.u.dres with
    | some x => rw [fireD_of_fired (by simp [hd])]; exact Or.inl ⟨rfl, rfl, id, rfl, rfl, rfl⟩
    | none =>
      cases hat : w.u.attached with
      | true => rw [fireD_attached _ hd hat]; exact Or.inr ⟨r, _, hr, rfl, rfl, rfl, rfl, rfl, rfl⟩
      | false => rw [fireD_unattached _ hd hat]; exact Or.inl ⟨rfl, rfl, id, rfl, rfl, rfl⟩
  cases a with
  | fire v =>
    rcases hfire (.value v) rfl with ⟨a, b, c, d, e, f⟩ | h
    · exact Or.inl ⟨a, b, c, d, e, Or.inl f⟩
    · exact Or.inr h
  | fail e =>
    rcases hfire (.raised e) rfl with ⟨a, b, c, d, e, f⟩ | h
    · exact Or.inl ⟨a, b, c, d, e, Or.inl f⟩
    · exact Or.inr h
  | stop => exact Or.inl ⟨rfl, rfl, fun _ => rfl, rfl, rfl, Or.inr rfl⟩
  | noop => exact Or.inl ⟨rfl, rfl, id, rfl, rfl, Or.inl rfl⟩
  | late f k v => exact Or.inl ⟨rfl, rfl, id, rfl, rfl, Or.inl rfl⟩
  | spawn d ch => exact Or.inl ⟨rfl, rfl, id, rfl, rfl, Or.inl rfl⟩
  | addSel => exact Or.inl ⟨rfl, rfl, id, rfl, rfl, Or.inl rfl⟩
  | setSig s h => exact Or.inl ⟨rfl, rfl, id, rfl, rfl, Or.inl rfl⟩
  | reenter f => exact Or.inl ⟨rfl, rfl, id, rfl, rfl, Or.inl rfl⟩

/-! ### Book through the phases -/

theorem book_of_eq {sc : Scen} {k : Nat} {w w' : W} (h : Book sc k w) (hc : w'.calls = w.calls)
    (he : w'.events = w.events) (hs : w'.sels = w.sels) (hr : w'.u.reentries = w.u.reentries) : Book sc k w' :=
  ⟨by simpa [qlbls, elbls, hc, he] using h.cnt, by rw [hc]; exact h.lab, by rw [hs, he]; exact h.sels,
   by rw [hr, he]; exact h.reent, by rw [hr]; exact h.reent_all⟩

theorem book_deliver {sc : Scen} {k : Nat} {w : W} (r : Res) (h : Book sc k w) : Book sc k (deliver r w) :=
  ⟨fun l => by rw [deliver_count_user]; simpa [elbls] using h.cnt l,
   fun c hc => h.lab c (deliver_mem r w c hc), by simpa using h.sels, by simpa using h.reent, by simpa using h.reent_all⟩

theorem count_lbl_cons (x : Lbl) (c : DCall (QAct Act)) (rest : List (DCall (QAct Act))) :
    ((c :: rest).map (·.act.lbl)).count x = (rest.map (·.act.lbl)).count x + (if c.act.lbl = x then 1 else 0) := by
  simp [List.count_cons]

theorem book_schedule_user {sc : Scen} {k : Nat} {w : W} (t : Nat) (a : Act) (h : Book sc k w)
    (hact : actOf sc k = some a) (hmem : k ∈ delayedLabels sc) : Book sc (k + 1) (schedule t (.user k a) w) := by
  refine ⟨?_, ?_, by simpa using h.sels, by simpa using h.reent, by simpa using h.reent_all⟩
  · intro l
    have := h.cnt l
    simp only [qlbls, schedule_calls, elbls, schedule_events] at this ⊢
    rw [insert_count_map, count_lbl_cons]
    have hl : (⟨t, QAct.user k a⟩ : DCall (QAct Act)).act.lbl = Lbl.user k := rfl
    rw [hl]
    by_cases hlk : l = k
    · subst hlk; simp at this ⊢; omega
    · have hne : ¬ (Lbl.user k = Lbl.user l) := by intro h'; injection h' with h'; exact hlk h'.symm
      simp only [hne, if_false, Nat.add_zero]
      rw [this]
      split <;> split <;> omega
  · intro c hc l a' hca
    rcases mem_insert.mp hc with rfl | hc
    · simp only [QAct.user.injEq] at hca
      obtain ⟨rfl, rfl⟩ := hca
      exact ⟨hact, hmem⟩
    · exact h.lab c hc l a' hca

theorem book_now {sc : Scen} {k : Nat} {w : W} (a : Act) (h : Book sc k w) (hact : actOf sc k = some a) :
    Book sc (k + 1) (exec k a (logEvent (.user k) w)) := by
  apply book_run sc (k + 1) w k a hact h.lab h.sels h.reent h.reent_all
  intro l
  have := h.cnt l
  by_cases hl : l = k
  · subst hl; simp at this ⊢; omega
  · simp only [hl, if_false, Nat.add_zero]
    rw [this]
    split <;> split <;> omega

theorem book_pop {sc : Scen} {k : Nat} {w : W} (h : Book sc k w) (c : DCall (QAct Act)) (rest : List (DCall (QAct Act)))
    (hc : w.calls = c :: rest) : Book sc k (execCall exec c { w with calls := rest }) := by
  rcases c with ⟨t, q⟩
  cases q with
  | timeout =>
    simp only [execCall]
    have hl : (⟨t, QAct.timeout⟩ : DCall (QAct Act)).act.lbl = Lbl.timeout := rfl
    refine ⟨?_, ?_, ?_, ?_, by simpa using h.reent_all⟩
    · intro l
      have := h.cnt l
      simp only [qlbls, hc, elbls] at this
      rw [count_lbl_cons, hl] at this
      simpa [qlbls, elbls] using this
    · intro c' hc'
      exact h.lab c' (by rw [hc]; exact List.mem_cons_of_mem _ (by simpa using hc'))
    · simp [h.sels, selEv]
    · simp [h.reent, isReenterEv, List.filter_cons]
  | user l a =>
    simp only [execCall]
    have hl : (⟨t, QAct.user l a⟩ : DCall (QAct Act)).act.lbl = Lbl.user l := rfl
    obtain ⟨hact, _⟩ := h.lab ⟨t, .user l a⟩ (by rw [hc]; exact List.mem_cons_self) l a rfl
    apply book_run sc k _ l a hact
    · intro c' hc'
      exact h.lab c' (by rw [hc]; exact List.mem_cons_of_mem _ hc')
    · exact h.sels
    · exact h.reent
    · exact h.reent_all
    · intro l'
      have := h.cnt l'
      simp only [qlbls, hc, elbls] at this
      rw [count_lbl_cons, hl] at this
      simp only [qlbls, elbls]
      rw [← this]
      by_cases hll : l' = l
      · subst hll; simp; omega
      · have hne : ¬ (Lbl.user l = Lbl.user l') := by intro h'; injection h' with h'; exact hll h'.symm
        simp [hll, hne]

theorem book_spin {sc : Scen} {k : Nat} (n : Nat) (w : W) (h : Book sc k w) : Book sc k (spin exec fuelD n w) :=
  spin_inv exec fuelD (Book sc k) (fun w c rest h hc _ => book_pop h c rest hc)
    (fun _ _ _ h _ _ => book_of_eq h rfl rfl rfl rfl) n w h

/-! ### the timeout call: pending in the queue, or called (an event), or cancelled (a result was recorded) -/

def qT (w : W) : Nat := (qlbls w).count .timeout
def eT (w : W) : Nat := (elbls w).count .timeout

def TJ (w : W) : Prop :=
  (w.sp.tcall = .pending ∧ w.sp.success = none ∧ w.sp.failure = none ∧ qT w = 1 ∧ eT w = 0) ∨
  (w.sp.tcall = .called ∧ w.sp.success = none ∧ w.sp.failure = some .timeout ∧ qT w = 0 ∧ eT w = 1) ∨
  (w.sp.tcall = .cancelled ∧ isOwnResult (getResult w.sp) = true ∧ qT w = 0 ∧ eT w = 0)

theorem tj_frame {w w' : W} (h : TJ w) (h1 : w'.sp.tcall = w.sp.tcall) (h2 : w'.sp.success = w.sp.success)
    (h3 : w'.sp.failure = w.sp.failure) (h4 : qT w' = qT w) (h5 : eT w' = eT w) : TJ w' := by
  unfold TJ at h ⊢
  have hg : getResult w'.sp = getResult w.sp := by simp [getResult, h2, h3]
  rw [h1, h2, h3, h4, h5, hg]
  exact h

theorem tj_deliver {w : W} (r : Res) (hr : isOwnResult r = true) (h : TJ w) : TJ (deliver r w) := by
  by_cases hp : w.sp.tcall = .pending
  · rcases h with ⟨_, hs, hf, _, he⟩ | ⟨ht, _⟩ | ⟨ht, _⟩
    · right; right
      refine ⟨?_, ?_, ?_, ?_⟩
      · unfold deliver; simp only [hp, stopReactor_tcall]; cases r <;> rfl
      · unfold deliver; simp only [hp]
        cases r <;> simp_all [getResult, isOwnResult]
      · simp only [qT, qlbls, deliver_calls, hp, if_true]
        exact count_timeout_filter _
      · simpa [eT, elbls] using he
    · rw [hp] at ht; cases ht
    · rw [hp] at ht; cases ht
  · rw [deliver_of_not_pending _ _ hp]
    exact tj_frame h (by simp) (by simp) (by simp) (by simp [qT, qlbls]) (by simp [eT, elbls])

theorem tj_exec {w : W} (l : Nat) (a : Act) (h : TJ w) : TJ (exec l a w) := by
  rcases exec_cases l a w with ⟨h1, h2, _, _, h5, _⟩ | ⟨r, w1, hr, he, h1, h2, _, _, h5⟩
  · exact tj_frame h (by rw [h2]) (by rw [h2]) (by rw [h2]) (by simp [qT, qlbls, h1]) (by simp [eT, elbls, h5])
  · rw [he]
    exact tj_deliver r hr (tj_frame h (by rw [h2]) (by rw [h2]) (by rw [h2]) (by simp [qT, qlbls, h1]) (by simp [eT, elbls, h5]))

theorem tj_log_user {w : W} (l : Nat) (h : TJ w) : TJ (logEvent (.user l) w) :=
  tj_frame h rfl rfl rfl rfl (by simp [eT, elbls, List.count_cons])

theorem tj_pop {w : W} (h : TJ w) (c : DCall (QAct Act)) (rest : List (DCall (QAct Act)))
    (hc : w.calls = c :: rest) : TJ (execCall exec c { w with calls := rest }) := by
  rcases c with ⟨t, q⟩
  have hq : qT w = qT ({ w with calls := rest } : W) + (if (⟨t, q⟩ : DCall (QAct Act)).act.lbl = Lbl.timeout then 1 else 0) := by
    simp only [qT, qlbls, hc]
    rw [count_lbl_cons]
  cases q with
  | timeout =>
    have hl : (⟨t, QAct.timeout⟩ : DCall (QAct Act)).act.lbl = Lbl.timeout := rfl
    rw [hl] at hq
    simp only [if_true] at hq
    simp only [execCall]
    rcases h with ⟨_, hs, _, hq1, he⟩ | ⟨_, _, _, hq0, _⟩ | ⟨_, _, hq0, _⟩
    · right; left
      refine ⟨by simp, by simpa using hs, by simp, ?_, ?_⟩
      · have : qT ({ w with calls := rest } : W) = 0 := by omega
        simpa [qT, qlbls] using this
      · simp only [eT, elbls] at he
        simp [eT, elbls, List.count_append, he]
    · omega
    · omega
  | user l a =>
    have hl : (⟨t, QAct.user l a⟩ : DCall (QAct Act)).act.lbl = Lbl.user l := rfl
    rw [hl] at hq
    simp only [execCall]
    apply tj_exec
    apply tj_log_user
    exact tj_frame h rfl rfl rfl (by simp at hq; omega) rfl

theorem tj_spin (n : Nat) (w : W) (h : TJ w) : TJ (spin exec fuelD n w) :=
  spin_inv exec fuelD TJ (fun w c rest h hc _ => tj_pop h c rest hc)
    (fun _ _ _ h _ _ => tj_frame h rfl rfl rfl rfl rfl) n w h

/-! ### time: the loop never goes beyond the timeout instant and ends by a crash -/

structure TInv (T0 : Nat) (w : W) : Prop where
  sorted : Sorted w.calls
  now_le : w.now ≤ T0
  alive : w.crashed = false → w.sp.tcall = .pending ∧ w.sp.spinning = true
  pend : w.sp.tcall = .pending → ∃ c ∈ w.calls, c.act.isTimeout = true ∧ c.time ≤ T0

theorem tinv_deliver {T0 : Nat} {w : W} (r : Res) (h : TInv T0 w) : TInv T0 (deliver r w) := by
  by_cases hp : w.sp.tcall = .pending
  · refine ⟨?_, by simpa using h.now_le, ?_, ?_⟩
    · rw [deliver_calls]; simp only [hp, if_true]; exact h.sorted.filter _
    · intro hcr
      exfalso
      have : (deliver r w).crashed = (w.crashed || w.sp.spinning) := by
        unfold deliver; simp only [hp, stopReactor_crashed]; cases r <;> rfl
      rw [this] at hcr
      cases hw : w.crashed with
      | true => simp [hw] at hcr
      | false => have := (h.alive hw).2; simp [hw, this] at hcr
    · intro ht
      exfalso
      have : (deliver r w).sp.tcall = .cancelled := by
        unfold deliver; simp only [hp, stopReactor_tcall]; cases r <;> rfl
      rw [this] at ht; cases ht
  · rw [deliver_of_not_pending _ _ hp]
    have hcr : w.crashed = true := by
      cases hw : w.crashed with
      | true => rfl
      | false => exact absurd (h.alive hw).1 hp
    refine ⟨by simpa using h.sorted, by simpa using h.now_le, ?_, ?_⟩
    · intro hc; rw [stopReactor_crashed, hcr] at hc; simp at hc
    · intro ht; rw [stopReactor_tcall] at ht; exact absurd ht hp

theorem tinv_pop {T0 : Nat} {w : W} (h : TInv T0 w) (c : DCall (QAct Act)) (rest : List (DCall (QAct Act)))
    (hc : w.calls = c :: rest) : TInv T0 (execCall exec c { w with calls := rest }) := by
  have hsr : Sorted rest := by have := h.sorted; rw [hc] at this; exact this.tail
  rcases c with ⟨t, q⟩
  cases q with
  | timeout =>
    simp only [execCall]
    refine ⟨by simpa using hsr, by simpa using h.now_le, ?_, by simp⟩
    intro hcr
    exfalso
    simp only [execTimeout, stopReactor_crashed, logEvent_crashed] at hcr
    cases hw : w.crashed with
    | true => simp [hw] at hcr
    | false => have := (h.alive hw).2; simp [hw, logEvent, this] at hcr
  | user l a =>
    simp only [execCall]
    have hbase : TInv T0 (logEvent (.user l) { w with calls := rest }) := by
      refine ⟨hsr, h.now_le, h.alive, ?_⟩
      intro ht
      obtain ⟨c0, hc0, hto, hle⟩ := h.pend ht
      rw [hc] at hc0
      rcases List.mem_cons.mp hc0 with rfl | hc0
      · simp [QAct.isTimeout] at hto
      · exact ⟨c0, hc0, hto, hle⟩
    rcases exec_cases l a (logEvent (.user l) { w with calls := rest }) with ⟨h1, h2, h3, h4, _, h6⟩ | ⟨r, w1, _, he, h1, h2, h3, h4, _⟩
    · refine ⟨by rw [h1]; exact hbase.sorted, by rw [h4]; exact hbase.now_le, ?_, by rw [h2, h1]; exact hbase.pend⟩
      intro hcr
      rw [h2]
      apply hbase.alive
      rcases h6 with h6 | h6
      · rw [← h6]; exact hcr
      · subst h6; simp [exec] at hcr
    · rw [he]
      exact tinv_deliver r ⟨by rw [h1]; exact hbase.sorted, by rw [h4]; exact hbase.now_le,
        by rw [h3, h2]; exact hbase.alive, by rw [h2, h1]; exact hbase.pend⟩

theorem tinv_adv {T0 : Nat} {w : W} (h : TInv T0 w) (c : DCall (QAct Act)) (rest : List (DCall (QAct Act)))
    (hc : w.calls = c :: rest) (hcr : w.crashed = false) : TInv T0 { w with now := max w.now c.time } := by
  refine ⟨h.sorted, ?_, h.alive, h.pend⟩
  obtain ⟨c0, hc0, _, hle⟩ := h.pend (h.alive hcr).1
  have hs := h.sorted
  rw [hc] at hc0 hs
  have : c.time ≤ T0 := by
    rcases List.mem_cons.mp hc0 with rfl | hc0
    · exact hle
    · exact Nat.le_trans (hs.head_le c0 hc0) hle
  have := h.now_le
  show max w.now c.time ≤ T0
  omega

theorem tinv_spin {T0 : Nat} (n : Nat) (w : W) (h : TInv T0 w) : TInv T0 (spin exec fuelD n w) :=
  spin_inv exec fuelD (TInv T0) (fun w c rest h hc _ => tinv_pop h c rest hc)
    (fun w c rest h hc hcr => tinv_adv h c rest hc hcr) n w h

/-- `now` never decreases -/
theorem now_mono_spin (n : Nat) (w : W) (b : Nat) (h : b ≤ w.now) : b ≤ (spin exec fuelD n w).now := by
  apply spin_inv exec fuelD (fun w => b ≤ w.now) _ _ n w h
  · intro w c rest h hc _
    rcases c with ⟨t, q⟩
    cases q with
    | timeout => simpa [execCall] using h
    | user l a => simpa [execCall, (exec_frame l a _).now] using h
  · intro w c rest h _ _
    show b ≤ max w.now c.time
    omega

/-! ### the phases before the loop -/

theorem runBody_inv (P : W → Prop) (hs : ∀ (w : W) t i a, P w → P (schedule t (.user i a) w))
    (hn : ∀ (w : W) i a, P w → P (exec i a (logEvent (.user i) w))) :
    ∀ (i : Nat) (body : List Op) (w : W), P w → P (runBody i body w)
  | _, [], _, h => h
  | i, .later d a :: rest, w, h => runBody_inv P hs hn (i + 1) rest _ (hs w _ i a h)
  | i, .now a :: rest, w, h => runBody_inv P hs hn (i + 1) rest _ (hn w i a h)

theorem finishF_inv (P : W → Prop) (hd : ∀ (w : W) r, isOwnResult r = true → P w → P (deliver r w))
    (ha : ∀ w : W, P w → P { w with u := { w.u with attached := true } }) (t : Term) (w : W)
    (hown : ∀ r, w.u.dres = some r → isOwnResult r = true) (h : P w) : P (finishF t w) := by
  cases t with
  | ret v => exact hd w (.value v) rfl h
  | raise e => exact hd w (.raised e) rfl h
  | deferred =>
    simp only [finishF]
    split
    · rename_i r hdr; exact hd _ r (hown r hdr) (ha w h)
    · exact ha w h

def opAct : Op → Act
  | .later _ a => a
  | .now a => a

def isLater : Op → Bool
  | .later _ _ => true
  | .now _ => false

theorem book_schedPre {sc : Scen} : ∀ (i : Nat) (rest : List (Nat × Act)) (w : W),
    (∀ j (h : j < rest.length), actOf sc (i + j) = some rest[j].2 ∧ i + j ∈ delayedLabels sc) →
    Book sc i w → Book sc (i + rest.length) (schedPre i rest w)
  | _, [], _, _, h => h
  | i, (d, a) :: rest, w, hl, h => by
      have h0 := hl 0 (by simp)
      simp only [Nat.add_zero, List.getElem_cons_zero] at h0
      have := book_schedPre (i + 1) rest (schedule (w.now + d) (.user i a) w)
        (fun j hj => by
          have := hl (j + 1) (by simp; omega)
          simpa [Nat.add_assoc, Nat.add_comm 1 j] using this)
        (book_schedule_user _ a h h0.1 h0.2)
      simpa [schedPre, Nat.add_assoc, Nat.add_comm 1 rest.length] using this

theorem book_runBody {sc : Scen} : ∀ (i : Nat) (rest : List Op) (w : W),
    (∀ j (h : j < rest.length), actOf sc (i + j) = some (opAct rest[j]) ∧ (isLater rest[j] = true → i + j ∈ delayedLabels sc)) →
    Book sc i w → Book sc (i + rest.length) (runBody i rest w)
  | _, [], _, _, h => h
  | i, .later d a :: rest, w, hl, h => by
      have h0 := hl 0 (by simp)
      simp only [Nat.add_zero, List.getElem_cons_zero, opAct, isLater] at h0
      have := book_runBody (i + 1) rest (schedule (w.now + d) (.user i a) w)
        (fun j hj => by
          have := hl (j + 1) (by simp; omega)
          simpa [Nat.add_assoc, Nat.add_comm 1 j] using this)
        (book_schedule_user _ a h h0.1 (h0.2 trivial))
      simpa [runBody, Nat.add_assoc, Nat.add_comm 1 rest.length] using this
  | i, .now a :: rest, w, hl, h => by
      have h0 := hl 0 (by simp)
      simp only [Nat.add_zero, List.getElem_cons_zero, opAct] at h0
      have := book_runBody (i + 1) rest (exec i a (logEvent (.user i) w))
        (fun j hj => by
          have := hl (j + 1) (by simp; omega)
          simpa [Nat.add_assoc, Nat.add_comm 1 j] using this)
        (book_now a h h0.1)
      simpa [runBody, Nat.add_assoc, Nat.add_comm 1 rest.length] using this

theorem mem_laterLabels : ∀ (i : Nat) (body : List Op) (j : Nat) (h : j < body.length),
    isLater body[j] = true → i + j ∈ laterLabels i body
  | _, [], _, h, _ => by simp at h
  | i, .later d a :: rest, 0, _, _ => by simp [laterLabels]
  | i, .later d a :: rest, j + 1, h, hl => by
      have := mem_laterLabels (i + 1) rest j (by simpa using h) (by simpa using hl)
      simp only [laterLabels, List.mem_cons]
      right
      simpa [Nat.add_assoc, Nat.add_comm 1 j] using this
  | i, .now a :: rest, 0, _, hl => by simp [isLater] at hl
  | i, .now a :: rest, j + 1, h, hl => by
      have := mem_laterLabels (i + 1) rest j (by simpa using h) (by simpa using hl)
      simp only [laterLabels]
      simpa [Nat.add_assoc, Nat.add_comm 1 j] using this

theorem laterLabels_lt : ∀ (i : Nat) (body : List Op), ∀ l ∈ laterLabels i body, l < i + body.length
  | _, [], l, h => by simp [laterLabels] at h
  | i, .later d a :: rest, l, h => by
      simp only [laterLabels, List.mem_cons] at h
      rcases h with rfl | h
      · simp
      · have := laterLabels_lt (i + 1) rest l h
        simp; omega
  | i, .now a :: rest, l, h => by
      simp only [laterLabels] at h
      have := laterLabels_lt (i + 1) rest l h
      simp; omega

theorem delayedLabels_lt (sc : Scen) : ∀ l ∈ delayedLabels sc, l < sc.pre.length + sc.body.length := by
  intro l h
  simp only [delayedLabels, List.mem_append, List.mem_range] at h
  rcases h with h | h
  · omega
  · exact laterLabels_lt _ _ l h

theorem pre_labels (sc : Scen) : ∀ j (h : j < sc.pre.length),
    actOf sc (0 + j) = some sc.pre[j].2 ∧ 0 + j ∈ delayedLabels sc := by
  intro j h
  simp only [Nat.zero_add]
  refine ⟨by simp [actOf, h], ?_⟩
  simp only [delayedLabels, List.mem_append, List.mem_range]
  exact Or.inl h

theorem body_labels (sc : Scen) : ∀ j (h : j < sc.body.length),
    actOf sc (sc.pre.length + j) = some (opAct sc.body[j]) ∧
    (isLater sc.body[j] = true → sc.pre.length + j ∈ delayedLabels sc) := by
  intro j h
  constructor
  · have : ¬ (sc.pre.length + j < sc.pre.length) := by omega
    simp only [actOf, this, if_false, Nat.add_sub_cancel_left, List.getElem?_eq_getElem h]
    cases sc.body[j] <;> rfl
  · intro hl
    simp only [delayedLabels, List.mem_append]
    exact Or.inr (mem_laterLabels _ _ j h hl)

/-! ## one run, assembled -/

/-- between runs: nothing scheduled, no selectables, reactor not running, `reactor.stop` genuine -/
structure Idle (w : W) : Prop where
  calls : w.calls = []
  sels : w.sels = []
  running : w.running = false
  stopPatched : w.stopPatched = false

def start (w0 : W) : W := { w0 with t0 := w0.now, events := [], u := {} }

/-- the state in which `spinner.run` is called -/
def afterPre (sc : Scen) (w0 : W) : W := schedPre 0 sc.pre (start w0)

theorem afterPre_eq (sc : Scen) (w0 : W) (h : Idle w0) :
    afterPre sc w0 = { start w0 with calls := insAll (preCalls w0.now 0 sc.pre) [] } := by
  rw [afterPre, schedPre_eq]
  simp [start, h.calls]

theorem preCalls_user (b : Nat) : ∀ (i : Nat) (pre : List (Nat × Act)), ∀ c ∈ preCalls b i pre, c.act.isTimeout = false
  | _, [], c, h => by cases h
  | i, (d, a) :: rest, c, h => by
      rcases List.mem_cons.mp h with rfl | h
      · rfl
      · exact preCalls_user b (i + 1) rest c h

theorem count_timeout_zero (q : List (DCall (QAct Act))) (h : ∀ c ∈ q, c.act.isTimeout = false) :
    (q.map (·.act.lbl)).count .timeout = 0 := by
  induction q with
  | nil => rfl
  | cons c rest ih =>
    rw [count_lbl_cons, ih (fun x hx => h x (List.mem_cons_of_mem _ hx))]
    have := lbl_of_not_isTimeout (h c List.mem_cons_self)
    simp [this]

theorem book_entry {sc : Scen} {k : Nat} {w : W} (h : Book sc k w) : Book sc k (entry sc w) := by
  refine ⟨?_, ?_, h.sels, h.reent, h.reent_all⟩
  · intro l
    have := h.cnt l
    simp only [qlbls, elbls, entry, schedule_calls, schedule_events] at this ⊢
    rw [insert_count_map, count_lbl_cons]
    have hl : (⟨w.now + sc.timeout, QAct.timeout⟩ : DCall (QAct Act)).act.lbl = Lbl.timeout := rfl
    simp only [hl]
    simpa using this
  · intro c hc l a hca
    simp only [entry, schedule_calls] at hc
    rcases mem_insert.mp hc with rfl | hc
    · cases hca
    · exact h.lab c hc l a hca

theorem tj_entry (sc : Scen) (w : W) (hq : ∀ c ∈ w.calls, c.act.isTimeout = false) (he : w.events = []) :
    TJ (entry sc w) := by
  left
  refine ⟨rfl, rfl, rfl, ?_, ?_⟩
  · simp only [qT, qlbls, entry, schedule_calls, saveSignals_calls, saveSignals_now]
    rw [insert_count_map, count_lbl_cons, count_timeout_zero _ hq]
    rfl
  · simp [eT, elbls, entry, he]

theorem tj_schedule_user {w : W} (t i : Nat) (a : Act) (h : TJ w) : TJ (schedule t (.user i a) w) := by
  refine tj_frame h rfl rfl rfl ?_ rfl
  simp only [qT, qlbls, schedule_calls]
  rw [insert_count_map, count_lbl_cons]
  have hl : (⟨t, QAct.user i a⟩ : DCall (QAct Act)).act.lbl = Lbl.user i := rfl
  simp [hl]

/-- things a run never touches -/
def Misc (j : List Junk) (n : Nat) (w : W) : Prop := w.sp.junk = j ∧ w.sigs.length = n

theorem misc_exec {j : List Junk} {n : Nat} {w : W} (l : Nat) (a : Act) (h : Misc j n w) : Misc j n (exec l a w) := by
  have hf := exec_frame l a w
  exact ⟨by rw [hf.junk]; exact h.1, by rw [hf.sigs]; exact h.2⟩

theorem misc_spin {j : List Junk} {n : Nat} (m : Nat) (w : W) (h : Misc j n w) : Misc j n (spin exec fuelD m w) := by
  apply spin_inv exec fuelD (Misc j n) _ _ m w h
  · intro w c rest h _ _
    rcases c with ⟨t, q⟩
    cases q with
    | timeout => exact ⟨by simpa [execCall] using h.1, by simpa [execCall] using h.2⟩
    | user l a => exact misc_exec l a (w := logEvent (.user l) { w with calls := rest }) h
  · intro _ _ _ h _ _
    exact h

/-- `_saved_signals` is touched by `_save_signals` / `_restore_signals` only -/
theorem fireD_saved (r : Res) (w : W) : (fireD r w).sp.saved = w.sp.saved := by
  unfold fireD
  split
  · rfl
  · simp only []
    split
    · simp
    · rfl

theorem exec_saved (l : Nat) (a : Act) (w : W) : (exec l a w).sp.saved = w.sp.saved := by
  cases a <;> first | rfl | exact fireD_saved _ _

theorem saved_spin (sv : List Nat) (m : Nat) (w : W) (h : w.sp.saved = sv) : (spin exec fuelD m w).sp.saved = sv := by
  apply spin_inv exec fuelD (fun w => w.sp.saved = sv) _ _ m w h
  · intro w c rest h _ _
    rcases c with ⟨t, q⟩
    cases q with
    | timeout => simpa [execCall] using h
    | user l a =>
      show (exec l a (logEvent (.user l) { w with calls := rest })).sp.saved = sv
      rw [exec_saved]; exact h
  · intro _ _ _ h _ _
    exact h

theorem syncFire_own (sc : Scen) : ∀ r, syncFire sc = some r → isOwnResult r = true :=
  fun _ h => isOwn_findSome h

/-- everything the clauses need to know about the state at the end of `reactor.run()` -/
structure RunFacts (sc : Scen) (w0 wF : W) : Prop where
  result : getResult wF.sp = expected sc
  crashed : wF.crashed = true
  book : Book sc (sc.pre.length + sc.body.length) wF
  tj : TJ wF
  now_le : wF.now ≤ w0.now + sc.timeout
  now_ge : w0.now ≤ wF.now
  junk : wF.sp.junk = w0.sp.junk
  sigs : wF.sigs.length = w0.sigs.length
  saved : wF.sp.saved = w0.sigs

theorem run_facts (sc : Scen) (w0 : W) (hidle : Idle w0) : RunFacts sc w0 (spinPhase sc (afterPre sc w0)) := by
  have hS := afterPre_eq sc w0 hidle
  have hnowS : (afterPre sc w0).now = w0.now := by rw [hS]; rfl
  have hcallsS : (afterPre sc w0).calls = insAll (preCalls (afterPre sc w0).now 0 sc.pre) [] := by rw [hnowS, hS]
  have hattS : (afterPre sc w0).u.attached = false := by rw [hS]; rfl
  have hdresS : (afterPre sc w0).u.dres = none := by rw [hS]; rfl
  obtain ⟨hres, hend⟩ := spinPhase_result sc (afterPre sc w0) hcallsS hattS hdresS
  obtain ⟨hcalls, hnow, htc, hs, hf, hsp, hat, hdr, hcr⟩ := entry_body sc (afterPre sc w0) hcallsS hattS hdresS
  have hown : ∀ r, (runBody sc.pre.length sc.body (entry sc (afterPre sc w0))).u.dres = some r → isOwnResult r = true := by
    intro r h; rw [hdr] at h; exact syncFire_own sc r h
  -- bookkeeping
  have hbook0 : Book sc 0 (start w0) :=
    ⟨fun l => by simp [qlbls, elbls, start, hidle.calls], by simp [start, hidle.calls], by simp [start, hidle.sels],
     by simp [start], by simp [start]⟩
  have hbookS : Book sc sc.pre.length (afterPre sc w0) := by
    have := book_schedPre 0 sc.pre (start w0) (pre_labels sc) hbook0
    simpa [afterPre] using this
  have hbookD := book_runBody sc.pre.length sc.body _ (body_labels sc) (book_entry hbookS)
  have hbookL : Book sc (sc.pre.length + sc.body.length) (loopStart sc (afterPre sc w0)) :=
    finishF_inv (Book sc _) (fun w r _ h => book_deliver r h) (fun w h => book_of_eq h rfl rfl rfl rfl) _ _ hown hbookD
  -- the timeout call
  have htjE : TJ (entry sc (afterPre sc w0)) := by
    apply tj_entry
    · rw [hS]
      intro c hc
      rcases (mem_insAll c _ _).mp hc with hc | hc
      · exact preCalls_user _ _ _ c hc
      · cases hc
    · rw [hS]; rfl
  have htjD := runBody_inv TJ (fun w t i a h => tj_schedule_user t i a h) (fun w i a h => tj_exec i a (tj_log_user i h))
    sc.pre.length sc.body _ htjE
  have htjL : TJ (loopStart sc (afterPre sc w0)) :=
    finishF_inv TJ (fun w r hr h => tj_deliver r hr h) (fun w h => tj_frame h rfl rfl rfl rfl rfl) _ _ hown htjD
  -- time
  have htiD : TInv (w0.now + sc.timeout) (runBody sc.pre.length sc.body (entry sc (afterPre sc w0))) := by
    refine ⟨by rw [hcalls]; exact insAll_sorted _ _ (by simp [Sorted]), by rw [hnow, hnowS]; omega,
      fun _ => ⟨htc, hsp⟩, fun _ => ?_⟩
    refine ⟨⟨(afterPre sc w0).now + sc.timeout, .timeout⟩, ?_, rfl, by simp [hnowS]⟩
    rw [hcalls]
    exact (mem_insAll _ _ _).mpr (Or.inl (by simp [allCalls]))
  have htiL : TInv (w0.now + sc.timeout) (loopStart sc (afterPre sc w0)) :=
    finishF_inv (TInv _) (fun w r _ h => tinv_deliver r h) (fun w h => ⟨h.sorted, h.now_le, h.alive, h.pend⟩) _ _ hown htiD
  -- untouched
  have hmE : Misc w0.sp.junk w0.sigs.length (entry sc (afterPre sc w0)) := by rw [hS]; exact ⟨rfl, rfl⟩
  have hmD := runBody_inv (Misc w0.sp.junk w0.sigs.length) (fun w t i a h => h) (fun w i a h => misc_exec i a (w := logEvent (.user i) w) h)
    sc.pre.length sc.body _ hmE
  have hmL : Misc w0.sp.junk w0.sigs.length (loopStart sc (afterPre sc w0)) :=
    finishF_inv (Misc _ _) (fun w r _ h => ⟨by simpa using h.1, by simpa using h.2⟩) (fun w h => h) _ _ hown hmD
  have hnowL : w0.now ≤ (loopStart sc (afterPre sc w0)).now := by
    have : (loopStart sc (afterPre sc w0)).now = w0.now := by
      have := finishF_inv (fun w => w.now = w0.now) (fun w r _ h => by simpa using h) (fun w h => h) sc.term _ hown
        (by rw [hnow, hnowS])
      exact this
    omega
  rw [spinPhase_eq] at hres hend ⊢
  have hti := tinv_spin ((loopStart sc (afterPre sc w0)).calls.length + 1) _ htiL
  have hm := misc_spin ((loopStart sc (afterPre sc w0)).calls.length + 1) _ hmL
  have hsvE : (entry sc (afterPre sc w0)).sp.saved = w0.sigs := by rw [hS]; rfl
  have hsvD := runBody_inv (fun w => w.sp.saved = w0.sigs) (fun w t i a h => h)
    (fun w i a h => by rw [exec_saved]; exact h) sc.pre.length sc.body _ hsvE
  have hsvL : (loopStart sc (afterPre sc w0)).sp.saved = w0.sigs :=
    finishF_inv (fun w => w.sp.saved = w0.sigs) (fun w r _ h => by simpa using h) (fun w h => h) _ _ hown hsvD
  have hsv := saved_spin _ ((loopStart sc (afterPre sc w0)).calls.length + 1) _ hsvL
  refine ⟨hres, ?_, book_spin _ _ hbookL, tj_spin _ _ htjL, hti.now_le, now_mono_spin _ _ _ hnowL, hm.1, hm.2, hsv⟩
  -- the loop ended by a crash: while not crashed the timeout call is still queued
  rcases hend with h | h
  · exact h
  · cases hc : (spin exec fuelD ((loopStart sc (afterPre sc w0)).calls.length + 1) (loopStart sc (afterPre sc w0))).crashed with
    | true => rfl
    | false =>
      obtain ⟨c, hc', _⟩ := hti.pend (hti.alive hc).1
      rw [h] at hc'; cases hc'

/-! ## the observation of one step -/

theorem afterPre_junk (sc : Scen) (w0 : W) : (afterPre sc w0).sp.junk = w0.sp.junk := by
  rw [afterPre, schedPre_eq]; rfl

theorem insAll_length : ∀ (L q : List (DCall (QAct Act))), (insAll L q).length = L.length + q.length
  | [], q => by simp [insAll]
  | c :: L, q => by
      have := insAll_length L (insert c q)
      simp only [insAll, List.foldl_cons] at this ⊢
      rw [this, insert_length]; simp; omega

theorem preCalls_length (b : Nat) : ∀ (i : Nat) (pre : List (Nat × Act)), (preCalls b i pre).length = pre.length
  | _, [] => rfl
  | i, (d, a) :: rest => by simp [preCalls, preCalls_length b (i + 1) rest]

/-- the observation of a refused run -/
theorem runStep_refused (sc : Scen) (w0 : W) (hidle : Idle w0) (hj : w0.sp.junk.isEmpty = false) :
    (runStep sc w0).2 = { result := .stalejunk, events := [], reentries := [], junk := w0.sp.junk,
                          pending := sc.pre.length, sels := 0, running := false, stopRestored := true,
                          sigBefore := w0.sigs, sigAfter := w0.sigs, elapsed := 0 } ∧
    (runStep sc w0).1.sp.junk = w0.sp.junk ∧ Idle (runStep sc w0).1 ∧ (runStep sc w0).1.sigs = w0.sigs := by
  have hS := afterPre_eq sc w0 hidle
  have hjS : (!(afterPre sc w0).sp.junk.isEmpty) = true := by rw [afterPre_junk, hj]; rfl
  have hrun : runStep sc w0 =
      ({ afterPre sc w0 with calls := [] },
       { result := .stalejunk, events := (afterPre sc w0).events, reentries := (afterPre sc w0).u.reentries,
         junk := (afterPre sc w0).sp.junk, pending := (afterPre sc w0).calls.length, sels := (afterPre sc w0).sels.length,
         running := (afterPre sc w0).running, stopRestored := !(afterPre sc w0).stopPatched,
         sigBefore := w0.sigs, sigAfter := (afterPre sc w0).sigs, elapsed := (afterPre sc w0).now - w0.now }) := by
    unfold runStep
    simp only []
    split
    · rfl
    · rename_i h; exact absurd hjS h
  rw [hrun, hS]
  refine ⟨?_, rfl, ⟨rfl, hidle.sels, hidle.running, hidle.stopPatched⟩, rfl⟩
  simp [start, hidle.sels, hidle.running, hidle.stopPatched, insAll_length, preCalls_length]

/-- a call with a timeout the reactor rejects: `run` raises what `reactor.callLater` raised and nothing has changed but
the spinner's `_saved_signals`, which keeps the handlers found -/
theorem runStep_rejected (sc : Scen) (w0 : W) (hidle : Idle w0) (hj : w0.sp.junk = []) (hb : sc.bad = true) :
    (runStep sc w0).2 = { result := .rejected, events := [], reentries := [], junk := [],
                          pending := sc.pre.length, sels := 0, running := false, stopRestored := true,
                          sigBefore := w0.sigs, sigAfter := w0.sigs, elapsed := 0 } ∧
    (runStep sc w0).1.sp.junk = [] ∧ Idle (runStep sc w0).1 ∧ (runStep sc w0).1.sigs = w0.sigs ∧
    (runStep sc w0).1.sp.saved = w0.sigs := by
  have hS := afterPre_eq sc w0 hidle
  have hjS : (!(afterPre sc w0).sp.junk.isEmpty) = false := by rw [afterPre_junk, hj]; rfl
  have hrun : runStep sc w0 =
      ({ saveSignals (afterPre sc w0) with calls := [] },
       { result := .rejected, events := (afterPre sc w0).events, reentries := (afterPre sc w0).u.reentries,
         junk := (afterPre sc w0).sp.junk, pending := (afterPre sc w0).calls.length, sels := (afterPre sc w0).sels.length,
         running := (afterPre sc w0).running, stopRestored := !(afterPre sc w0).stopPatched,
         sigBefore := w0.sigs, sigAfter := (afterPre sc w0).sigs, elapsed := (afterPre sc w0).now - w0.now }) := by
    unfold runStep
    simp only []
    split
    · rename_i h; rw [show (!(afterPre sc w0).sp.junk.isEmpty) = true from h] at hjS; cases hjS
    · rfl
  rw [hrun, hS]
  refine ⟨?_, hj, ⟨rfl, hidle.sels, hidle.running, hidle.stopPatched⟩, rfl, rfl⟩
  simp [start, hidle.sels, hidle.running, hidle.stopPatched, insAll_length, preCalls_length, hj]

/-! ## `_clean`'s obligatory iterations -/

/-- the state after the `finally` ladder of `run`, before `_clean` -/
def restored (sc : Scen) (w0 : W) : W :=
  let w := spinPhase sc (afterPre sc w0)
  { w with running := false, stopPatched := false, sigs := restoreFrom 0 w.sp.saved w.sigs,
           sp := { w.sp with saved := [], spinning := false } }

/-- … and after the obligatory iterations -/
def cleaned (sc : Scen) (w0 : W) : W := iterations sc sc.oblig (restored sc w0)

theorem foldl_inv {α : Type} (f : W → α → W) (C : α → Prop) (P : W → Prop) (hx : ∀ c w, C c → P w → P (f w c)) :
    ∀ (L : List α) (w : W), (∀ c ∈ L, C c) → P w → P (L.foldl f w)
  | [], _, _, h => h
  | c :: L, w, hC, h => foldl_inv f C P hx L (f w c) (fun x hx' => hC x (List.mem_cons_of_mem _ hx'))
      (hx c w (hC c List.mem_cons_self) h)

/-- an invariant `P` of the world that knows `C` of every queued call is kept by an iteration if running a call that satisfies
`C` keeps it and dropping calls from the queue keeps it -/
theorem iterOnce_inv (sc : Scen) (C : DCall (QAct Act) → Prop) (P : W → Prop)
    (hC : ∀ w, P w → ∀ c ∈ w.calls, C c)
    (hq : ∀ (w : W) (f : DCall (QAct Act) → Bool), P w → P { w with calls := w.calls.filter f })
    (hx : ∀ c w, C c → P w → P (execI sc c w)) (w : W) (h : P w) : P (iterOnce sc w) := by
  unfold iterOnce
  exact foldl_inv (fun w c => execI sc c w) C P hx _ _
    (fun c hc => hC w h c (List.mem_filter.mp hc).1) (hq w _ h)

theorem iterations_inv (sc : Scen) (C : DCall (QAct Act) → Prop) (P : W → Prop)
    (hC : ∀ w, P w → ∀ c ∈ w.calls, C c)
    (hq : ∀ (w : W) (f : DCall (QAct Act) → Bool), P w → P { w with calls := w.calls.filter f })
    (hx : ∀ c w, C c → P w → P (execI sc c w)) : ∀ (n : Nat) (w : W), P w → P (iterations sc n w)
  | 0, _, h => h
  | n + 1, w, h => iterations_inv sc C P hC hq hx n _ (iterOnce_inv sc C P hC hq hx w h)

/-- what the iterations leave alone -/
structure IFrame (a b : W) : Prop where
  now : b.now = a.now
  running : b.running = a.running
  stopPatched : b.stopPatched = a.stopPatched
  junk : b.sp.junk = a.sp.junk
  t0 : b.t0 = a.t0
  sigsLen : b.sigs.length = a.sigs.length
  saved : b.sp.saved = a.sp.saved

theorem execI_frame (sc : Scen) (a : W) (c : DCall (QAct Act)) (w : W) (h : IFrame a w) : IFrame a (execI sc c w) := by
  rcases c with ⟨t, q⟩
  cases q with
  | timeout =>
    exact ⟨by simpa [execI] using h.now, by simpa [execI] using h.running, by simpa [execI] using h.stopPatched,
      by simpa [execI] using h.junk, by simpa [execI] using h.t0, by simpa [execI] using h.sigsLen, by simpa [execI] using h.saved⟩
  | user l act =>
    have hf := exec_frame l act (logEvent (.user l) w)
    have hs := exec_saved l act (logEvent (.user l) w)
    cases act with
    | spawn d ch => exact ⟨h.now, h.running, h.stopPatched, h.junk, h.t0, h.sigsLen, h.saved⟩
    | fire v => exact ⟨h.now, h.running, h.stopPatched, h.junk, h.t0, h.sigsLen, h.saved⟩
    | fail e => exact ⟨h.now, h.running, h.stopPatched, h.junk, h.t0, h.sigsLen, h.saved⟩
    | _ =>
      exact ⟨by simp only [execI]; rw [hf.now]; exact h.now, by simp only [execI]; rw [hf.running]; exact h.running,
        by simp only [execI]; rw [hf.stopPatched]; exact h.stopPatched, by simp only [execI]; rw [hf.junk]; exact h.junk,
        by simp only [execI]; rw [hf.t0]; exact h.t0, by simp only [execI]; rw [hf.sigs]; exact h.sigsLen,
        by simp only [execI]; rw [hs]; exact h.saved⟩

theorem iterations_frame (sc : Scen) (n : Nat) (w : W) : IFrame w (iterations sc n w) :=
  iterations_inv sc (fun _ => True) (IFrame w) (fun _ _ _ _ => trivial)
    (fun _ _ h => ⟨h.now, h.running, h.stopPatched, h.junk, h.t0, h.sigsLen, h.saved⟩)
    (fun c w' _ h => execI_frame sc w c w' h) n w ⟨rfl, rfl, rfl, rfl, rfl, rfl, rfl⟩

/-- a queued call is one of the scenario (its label says which), or one scheduled by a `spawn` during the iterations: those never
re-enter `run` and never install a signal handler -/
def LabC (sc : Scen) (c : DCall (QAct Act)) : Prop :=
  ∀ l a, c.act = .user l a →
    actOf sc l = some a ∨ (labels sc ≤ l ∧ isReenter a = false ∧ ∀ s h, a ≠ .setSig s h)

theorem actOf_none (sc : Scen) (l : Nat) (h : labels sc ≤ l) : actOf sc l = none := by
  unfold actOf labels at *
  have h1 : ¬ l < sc.pre.length := by omega
  rw [if_neg h1]
  have : sc.body[l - sc.pre.length]? = none := List.getElem?_eq_none (by omega)
  rw [this]

theorem childAct_ok (ch : Child) : isReenter ch.toAct = false ∧ ∀ s h, ch.toAct ≠ .setSig s h := by
  cases ch <;> exact ⟨rfl, fun _ _ h => by cases h⟩

/-- the re-entry bookkeeping through the iterations -/
structure IReent (sc : Scen) (w : W) : Prop where
  lab : ∀ c ∈ w.calls, LabC sc c
  reent : w.u.reentries.length = (w.events.filter (isReenterEv sc)).length
  reent_all : ∀ r ∈ w.u.reentries, r = .reentry

theorem isReenterEv_none (sc : Scen) (t l : Nat) (h : actOf sc l = none) : isReenterEv sc (t, .user l) = false := by
  simp [isReenterEv, h]

theorem execI_reent (sc : Scen) (c : DCall (QAct Act)) (w : W) (hc : LabC sc c) (h : IReent sc w) : IReent sc (execI sc c w) := by
  rcases c with ⟨t, q⟩
  cases q with
  | timeout =>
    refine ⟨by simpa [execI] using h.lab, ?_, by simpa [execI] using h.reent_all⟩
    simp only [execI, execTimeout_u, execTimeout_events, List.filter_append, List.length_append]
    rw [h.reent]; simp [isReenterEv]
  | user l act =>
    have hev : isReenterEv sc (w.now - w.t0, .user l) = isReenter act := by
      rcases hc l act rfl with h1 | ⟨h1, h2, _⟩
      · exact isReenterEv_user sc _ l act h1
      · rw [isReenterEv_none sc _ l (actOf_none sc l h1), h2]
    by_cases hsp : ∃ d ch, act = .spawn d ch
    · obtain ⟨d, ch, rfl⟩ := hsp
      refine ⟨?_, ?_, h.reent_all⟩
      · intro c' hc'
        simp only [execI, schedule_calls, logEvent_calls, logEvent_now] at hc'
        rcases mem_insert.mp hc' with rfl | hc'
        · intro l' a' ha'
          injection ha' with h1 h2
          subst h1; subst h2
          exact Or.inr ⟨by omega, (childAct_ok ch).1, (childAct_ok ch).2⟩
        · exact h.lab c' hc'
      · simp only [execI, schedule_u, schedule_events, logEvent_u, logEvent_events, List.filter_append, List.length_append,
          List.filter_cons, hev, List.filter_nil]
        rw [h.reent]; rfl
    · by_cases hfi : (∃ v, act = .fire v) ∨ (∃ e, act = .fail e)
      · have hx : execI sc ⟨t, .user l act⟩ w = logEvent (.user l) w := by
          rcases hfi with ⟨v, rfl⟩ | ⟨e, rfl⟩ <;> rfl
        have hre : isReenter act = false := by rcases hfi with ⟨v, rfl⟩ | ⟨e, rfl⟩ <;> rfl
        rw [hx]
        refine ⟨h.lab, ?_, h.reent_all⟩
        simp only [logEvent_u, logEvent_events, List.filter_append, List.length_append, List.filter_cons, hev, hre, List.filter_nil]
        simpa using h.reent
      have hx : execI sc ⟨t, .user l act⟩ w = exec l act (logEvent (.user l) w) := by
        cases act <;> first | rfl | exact absurd ⟨_, _, rfl⟩ hsp | exact absurd (Or.inl ⟨_, rfl⟩) hfi | exact absurd (Or.inr ⟨_, rfl⟩) hfi
      have hf := exec_frame l act (logEvent (.user l) w)
      rw [hx]
      refine ⟨fun c' hc' => h.lab c' (hf.mem c' hc'), ?_, ?_⟩
      · rw [hf.reent, hf.events]
        simp only [logEvent_u, logEvent_events, List.filter_append, List.length_append, List.filter_cons, hev, List.filter_nil]
        cases isReenter act <;> simp [h.reent]
      · rw [hf.reent]
        simp only [logEvent_u]
        split
        · intro r hr
          rcases List.mem_append.mp hr with h' | h'
          · exact h.reent_all r h'
          · simpa using h'
        · exact h.reent_all

theorem iterations_reent (sc : Scen) (n : Nat) (w : W) (h : IReent sc w) : IReent sc (iterations sc n w) :=
  iterations_inv sc (LabC sc) (IReent sc) (fun _ h => h.lab)
    (fun _ _ h => ⟨fun c hc => h.lab c (List.mem_filter.mp hc).1, h.reent, h.reent_all⟩)
    (fun c w' hc h => execI_reent sc c w' hc h) n w h

/-- no call of the scenario installs a signal handler: then none that is queued does, and the handlers stay -/
def NoSigC (c : DCall (QAct Act)) : Prop := ∀ l s h, c.act ≠ .user l (.setSig s h)

theorem exec_sigs (l : Nat) (a : Act) (w : W) (h : ∀ s k, a ≠ .setSig s k) : (exec l a w).sigs = w.sigs := by
  have hfire : ∀ r, (fireD r w).sigs = w.sigs := by
    intro r
    unfold fireD
    split
    · rfl
    · simp only []
      split
      · simp
      · rfl
  cases a with
  | fire v => exact hfire _
  | fail e => exact hfire _
  | setSig s k => exact absurd rfl (h s k)
  | _ => rfl

structure ISigs (s0 : List Nat) (w : W) : Prop where
  nosig : ∀ c ∈ w.calls, NoSigC c
  sigs : w.sigs = s0

theorem execI_sigs (sc : Scen) (s0 : List Nat) (c : DCall (QAct Act)) (w : W) (hc : NoSigC c) (h : ISigs s0 w) :
    ISigs s0 (execI sc c w) := by
  rcases c with ⟨t, q⟩
  cases q with
  | timeout => exact ⟨by simpa [execI] using h.nosig, by simpa [execI] using h.sigs⟩
  | user l act =>
    by_cases hsp : ∃ d ch, act = .spawn d ch
    · obtain ⟨d, ch, rfl⟩ := hsp
      refine ⟨?_, h.sigs⟩
      intro c' hc'
      simp only [execI, schedule_calls, logEvent_calls, logEvent_now] at hc'
      rcases mem_insert.mp hc' with rfl | hc'
      · intro l' s k hk
        injection hk with _ h2
        exact (childAct_ok ch).2 s k h2
      · exact h.nosig c' hc'
    · by_cases hfi : (∃ v, act = .fire v) ∨ (∃ e, act = .fail e)
      · have hx : execI sc ⟨t, .user l act⟩ w = logEvent (.user l) w := by
          rcases hfi with ⟨v, rfl⟩ | ⟨e, rfl⟩ <;> rfl
        rw [hx]
        exact ⟨h.nosig, h.sigs⟩
      have hx : execI sc ⟨t, .user l act⟩ w = exec l act (logEvent (.user l) w) := by
        cases act <;> first | rfl | exact absurd ⟨_, _, rfl⟩ hsp | exact absurd (Or.inl ⟨_, rfl⟩) hfi | exact absurd (Or.inr ⟨_, rfl⟩) hfi
      have hf := exec_frame l act (logEvent (.user l) w)
      rw [hx]
      exact ⟨fun c' hc' => h.nosig c' (hf.mem c' hc'), by rw [exec_sigs l act _ (fun s k hk => hc l s k (by rw [hk]))]; exact h.sigs⟩

theorem iterations_sigs (sc : Scen) (s0 : List Nat) (n : Nat) (w : W) (h : ISigs s0 w) : ISigs s0 (iterations sc n w) :=
  iterations_inv sc NoSigC (ISigs s0) (fun _ h => h.nosig)
    (fun _ _ h => ⟨fun c hc => h.nosig c (List.mem_filter.mp hc).1, h.sigs⟩)
    (fun c w' hc h => execI_sigs sc s0 c w' hc h) n w h

theorem cleaned_zero (sc : Scen) (w0 : W) (h : sc.oblig = 0) : cleaned sc w0 = restored sc w0 := by
  unfold cleaned; rw [h]; rfl

/-- the observation of a run that is not refused -/
theorem runStep_ran (sc : Scen) (w0 : W) (hidle : Idle w0) (hj : w0.sp.junk = []) (hb : sc.bad = false) :
    (runStep sc w0).2 = { result := getResult (spinPhase sc (afterPre sc w0)).sp,
                          events := (cleaned sc w0).events,
                          reentries := (cleaned sc w0).u.reentries,
                          junk := leftovers (cleaned sc w0),
                          pending := 0, sels := 0, running := false, stopRestored := true,
                          sigBefore := w0.sigs, sigAfter := (cleaned sc w0).sigs,
                          elapsed := (spinPhase sc (afterPre sc w0)).now - w0.now } ∧
    (runStep sc w0).1.sp.junk = leftovers (cleaned sc w0) ∧ Idle (runStep sc w0).1 ∧
    (runStep sc w0).1.sigs = (cleaned sc w0).sigs ∧
    (runStep sc w0).1.sp.saved = [] := by
  have hjS : (!(afterPre sc w0).sp.junk.isEmpty) = false := by rw [afterPre_junk, hj]; rfl
  have hjF : (spinPhase sc (afterPre sc w0)).sp.junk = [] := by rw [(run_facts sc w0 hidle).junk, hj]
  have hfr := iterations_frame sc sc.oblig (restored sc w0)
  have hrun : runStep sc w0 =
      (let w := cleaned sc w0
       let w' : W := { w with calls := [], sels := [], sp := { w.sp with junk := w.sp.junk ++ leftovers w } }
       (w', { result := getResult (restored sc w0).sp, events := w'.events, reentries := w'.u.reentries, junk := w'.sp.junk,
              pending := w'.calls.length, sels := w'.sels.length, running := w'.running, stopRestored := !w'.stopPatched,
              sigBefore := w0.sigs, sigAfter := w'.sigs, elapsed := w'.now - w0.now })) := by
    unfold runStep
    simp only []
    split
    · rename_i h; rw [show (!(afterPre sc w0).sp.junk.isEmpty) = true from h] at hjS; cases hjS
    · rw [if_neg (by rw [hb]; exact Bool.false_ne_true)]
      rfl
  have hjunk : (cleaned sc w0).sp.junk = [] := by
    show (iterations sc sc.oblig (restored sc w0)).sp.junk = []
    rw [hfr.junk]; exact hjF
  rw [hrun]
  refine ⟨?_, ?_, ⟨rfl, rfl, ?_, ?_⟩, rfl, ?_⟩
  · simp only [hjunk, List.nil_append]
    have h1 : (cleaned sc w0).running = false := hfr.running
    have h2 : (cleaned sc w0).stopPatched = false := hfr.stopPatched
    have h3 : (cleaned sc w0).now = (spinPhase sc (afterPre sc w0)).now := hfr.now
    simp [h1, h2, h3, restored, getResult]
  · simp only [hjunk, List.nil_append]
  · exact hfr.running
  · exact hfr.stopPatched
  · show (cleaned sc w0).sp.saved = []
    exact hfr.saved

/-! ## the clauses of the executable spec hold of every run of the model -/

theorem tj_result {w : W} (h : TJ w) :
    getResult w.sp ≠ .stalejunk ∧ getResult w.sp ≠ .reentry ∧ getResult w.sp ≠ .rejected ∧
    qT w + eT w + (if isOwnResult (getResult w.sp) = true then 1 else 0) = 1 := by
  rcases h with ⟨_, hs, hf, hq, he⟩ | ⟨_, hs, hf, hq, he⟩ | ⟨_, ho, hq, he⟩
  · simp [getResult, hs, hf, hq, he, isOwnResult]
  · simp [getResult, hs, hf, hq, he, isOwnResult]
  · refine ⟨?_, ?_, ?_, by simp [ho, hq, he]⟩
    · intro h; rw [h] at ho; cases ho
    · intro h; rw [h] at ho; cases ho
    · intro h; rw [h] at ho; cases ho

/-- every signal the property names is in the code's `_PRESERVED_SIGNALS` (re-checked against the table
extracted from the tree on every run) -/
theorem must_preserved : ∀ s, mustPreserve s = true → preserved s = true
  | 0, _ => by decide
  | 1, _ => by decide
  | 2, _ => by decide
  | 3, h => by revert h; decide
  | s + 4, h => by simp [mustPreserve, sigNames] at h

theorem preservedSame_restore : ∀ (s : Nat) (a c : List Nat), c.length = a.length →
    preservedSame s a (restoreFrom s a c) = true
  | _, [], [], _ => rfl
  | _, [], _ :: _, h => by simp at h
  | _, _ :: _, [], h => by simp at h
  | s, x :: as, y :: cs, h => by
      simp only [restoreFrom, preservedSame, List.headD_cons, List.tail_cons]
      rw [preservedSame_restore (s + 1) as cs (by simpa using h)]
      cases hm : mustPreserve s
      · simp
      · simp [must_preserved s hm]

theorem count_leftovers_call (w : W) (x : Lbl) : (leftovers w).count (.call x) = (qlbls w).count x := by
  have h1 : ∀ q : List (DCall (QAct Act)), (q.map fun c => Junk.call c.act.lbl).count (.call x) = (q.map (·.act.lbl)).count x := by
    intro q
    induction q with
    | nil => rfl
    | cons c rest ih =>
      simp only [List.map_cons, List.count_cons, ih]
      by_cases hx : c.act.lbl = x <;> simp [hx]
  have h2 : ∀ ss : List Nat, (ss.map Junk.sel).count (.call x) = 0 := by
    intro ss
    induction ss with
    | nil => rfl
    | cons c rest ih => simp [List.count_cons, ih]
  simp only [leftovers, List.count_append, h1, h2, qlbls, Nat.add_zero]

theorem leftovers_sels (w : W) : (leftovers w).filterMap junkSel = w.sels := by
  have h1 : ∀ q : List (DCall (QAct Act)), (q.map fun c => Junk.call c.act.lbl).filterMap junkSel = [] := by
    intro q; induction q with
    | nil => rfl
    | cons c rest ih => simpa [junkSel] using ih
  have h2 : ∀ ss : List Nat, (ss.map Junk.sel).filterMap junkSel = ss := by
    intro ss; induction ss with
    | nil => rfl
    | cons c rest ih => simp [junkSel, ih]
  simp [leftovers, List.filterMap_append, h1, h2]

theorem refused_false {jb : List Junk} (h : jb = []) : refused jb = false := by simp [refused, h]
theorem refused_true {jb : List Junk} (h : jb.isEmpty = false) : refused jb = true := by simp [refused, h]

/-- a call is refused for stale junk, or rejected by the reactor, or it runs -/
theorem run_cases (sc : Scen) (j : List Junk) :
    j.isEmpty = false ∨ (j = [] ∧ sc.bad = true) ∨ (j = [] ∧ sc.bad = false) := by
  cases j with
  | cons _ _ => exact Or.inl rfl
  | nil => cases hb : sc.bad with
    | true => exact Or.inr (Or.inl ⟨rfl, rfl⟩)
    | false => exact Or.inr (Or.inr ⟨rfl, rfl⟩)

theorem restored_reent (sc : Scen) (w0 : W) (hidle : Idle w0) : IReent sc (restored sc w0) := by
  have hf := run_facts sc w0 hidle
  exact ⟨fun c hc l a ha => Or.inl (hf.book.lab c hc l a ha).1, hf.book.reent, hf.book.reent_all⟩

theorem clause_stale (sc : Scen) (w0 : W) (hidle : Idle w0) : cStale sc w0.sp.junk (runStep sc w0).2 = true := by
  rcases run_cases sc w0.sp.junk with hj | ⟨hj, hb⟩ | ⟨hj, hb⟩
  · rw [(runStep_refused sc w0 hidle hj).1]
    simp [cStale, refused_true hj]
  · rw [(runStep_rejected sc w0 hidle hj hb).1]
    simp [cStale, refused_false hj]
  · have hf := run_facts sc w0 hidle
    rw [(runStep_ran sc w0 hidle hj hb).1]
    simp [cStale, refused_false hj, (tj_result hf.tj).1]

theorem clause_rejected (sc : Scen) (w0 : W) (hidle : Idle w0) : cRejected sc w0.sp.junk (runStep sc w0).2 = true := by
  rcases run_cases sc w0.sp.junk with hj | ⟨hj, hb⟩ | ⟨hj, hb⟩
  · rw [(runStep_refused sc w0 hidle hj).1]
    simp [cRejected, rejects, refused_true hj]
  · rw [(runStep_rejected sc w0 hidle hj hb).1]
    simp [cRejected, rejects, refused, hb, hj]
  · have hf := run_facts sc w0 hidle
    rw [(runStep_ran sc w0 hidle hj hb).1]
    simp [cRejected, rejects, refused_false hj, hb, (tj_result hf.tj).2.2.1]

theorem clause_reentry (sc : Scen) (w0 : W) (hidle : Idle w0) : cReentry sc w0.sp.junk (runStep sc w0).2 = true := by
  rcases run_cases sc w0.sp.junk with hj | ⟨hj, hb⟩ | ⟨hj, hb⟩
  · rw [(runStep_refused sc w0 hidle hj).1]
    simp [cReentry]
  · rw [(runStep_rejected sc w0 hidle hj hb).1]
    simp [cReentry]
  · have hf := run_facts sc w0 hidle
    have hr := iterations_reent sc sc.oblig (restored sc w0) (restored_reent sc w0 hidle)
    rw [(runStep_ran sc w0 hidle hj hb).1]
    simp only [cReentry, Bool.and_eq_true, List.all_eq_true, beq_iff_eq, bne_iff_ne]
    exact ⟨⟨fun r hr' => hr.reent_all r hr', (tj_result hf.tj).2.1⟩, hr.reent⟩

theorem clause_result (sc : Scen) (w0 : W) (hidle : Idle w0) : cResult sc w0.sp.junk (runStep sc w0).2 = true := by
  rcases run_cases sc w0.sp.junk with hj | ⟨hj, hb⟩ | ⟨hj, hb⟩
  · simp [cResult, skipped, refused_true hj]
  · simp [cResult, skipped, hb]
  · rw [(runStep_ran sc w0 hidle hj hb).1]
    simp [cResult, (run_facts sc w0 hidle).result]

theorem preservedSame_refl : ∀ (s : Nat) (a : List Nat), preservedSame s a a = true
  | _, [] => rfl
  | s, x :: xs => by simp [preservedSame, preservedSame_refl (s + 1) xs]

theorem actOf_mem (sc : Scen) (l : Nat) (a : Act) (h : actOf sc l = some a) : a ∈ sc.pre.map (·.2) ++ sc.body.map opAct' := by
  unfold actOf at h
  split at h
  · rename_i hl
    rw [List.getElem?_eq_getElem hl] at h
    simp only [Option.map_some, Option.some.injEq] at h
    exact List.mem_append_left _ (List.mem_map.mpr ⟨_, List.getElem_mem hl, h⟩)
  · split at h
    · rename_i d a' hb
      injection h with h; subst h
      exact List.mem_append_right _ (List.mem_map.mpr ⟨_, List.mem_of_getElem? hb, rfl⟩)
    · rename_i a' hb
      injection h with h; subst h
      exact List.mem_append_right _ (List.mem_map.mpr ⟨_, List.mem_of_getElem? hb, rfl⟩)
    · cases h

/-- unless a leftover that installs a handler may be run by the obligatory iterations, the handlers after `_clean` are those
`_restore_signals` put back -/
theorem cleaned_sigs (sc : Scen) (w0 : W) (hidle : Idle w0) (hl : lateHandler sc = false) :
    (cleaned sc w0).sigs = restoreFrom 0 w0.sigs (spinPhase sc (afterPre sc w0)).sigs := by
  have hf := run_facts sc w0 hidle
  have hsigR : (restored sc w0).sigs = restoreFrom 0 w0.sigs (spinPhase sc (afterPre sc w0)).sigs := by
    simp only [restored, hf.saved]
  by_cases h0 : sc.oblig = 0
  · rw [cleaned_zero sc w0 h0]; exact hsigR
  · have hno : installsHandler sc = false := by
      simp only [lateHandler, Bool.and_eq_false_iff, decide_eq_false_iff_not] at hl
      rcases hl with hl | hl
      · omega
      · exact hl
    have hns : ∀ c ∈ (restored sc w0).calls, NoSigC c := by
      intro c hc l s k hk
      have := actOf_mem sc l _ (hf.book.lab c hc l _ hk).1
      simp only [installsHandler, List.any_eq_false] at hno
      have := hno _ this
      simp at this
    exact ((iterations_sigs sc _ sc.oblig (restored sc w0) ⟨hns, rfl⟩).sigs).trans hsigR

theorem clause_clean (sc : Scen) (w0 : W) (hidle : Idle w0) : cClean sc w0.sp.junk (runStep sc w0).2 = true := by
  rcases run_cases sc w0.sp.junk with hj | ⟨hj, hb⟩ | ⟨hj, hb⟩
  · simp [cClean, skipped, refused_true hj]
  · simp [cClean, skipped, hb]
  · rw [(runStep_ran sc w0 hidle hj hb).1]
    cases hl : lateHandler sc with
    | true => simp [cClean, hl]
    | false =>
      rw [cleaned_sigs sc w0 hidle hl]
      simp [cClean, preservedSame_restore 0 _ _ (run_facts sc w0 hidle).sigs]

/-- whenever `run` returns or raises, the preserved handlers are what they were immediately before that call -
whatever the spinner's `_saved_signals` held when it was called -/
theorem clause_signals (sc : Scen) (w0 : W) (hidle : Idle w0) : cSignals sc w0.sp.junk (runStep sc w0).2 = true := by
  cases hl : lateHandler sc with
  | true => simp [cSignals, hl]
  | false =>
    simp only [cSignals, hl, Bool.false_or]
    rcases run_cases sc w0.sp.junk with hj | ⟨hj, hb⟩ | ⟨hj, hb⟩
    · rw [(runStep_refused sc w0 hidle hj).1]
      exact preservedSame_refl 0 _
    · rw [(runStep_rejected sc w0 hidle hj hb).1]
      exact preservedSame_refl 0 _
    · rw [(runStep_ran sc w0 hidle hj hb).1]
      show preservedSame 0 w0.sigs (cleaned sc w0).sigs = true
      rw [cleaned_sigs sc w0 hidle hl]
      exact preservedSame_restore 0 _ _ (run_facts sc w0 hidle).sigs

theorem clause_bounded (sc : Scen) (w0 : W) (hidle : Idle w0) : cBounded sc w0.sp.junk (runStep sc w0).2 = true := by
  rcases run_cases sc w0.sp.junk with hj | ⟨hj, hb⟩ | ⟨hj, hb⟩
  · simp [cBounded, skipped, refused_true hj]
  · simp [cBounded, skipped, hb]
  · rw [(runStep_ran sc w0 hidle hj hb).1]
    have := (run_facts sc w0 hidle).now_le
    simp [cBounded]; right; omega

theorem clause_junk (sc : Scen) (w0 : W) (hidle : Idle w0) : cJunk sc w0.sp.junk (runStep sc w0).2 = true := by
  rcases run_cases sc w0.sp.junk with hj | ⟨hj, hb⟩ | ⟨hj, hb⟩
  · simp [cJunk, skipped, refused_true hj]
  · simp [cJunk, skipped, hb]
  · by_cases h0 : sc.oblig = 0
    · have hf := run_facts sc w0 hidle
      rw [(runStep_ran sc w0 hidle hj hb).1, cleaned_zero sc w0 h0]
      have hq : qlbls (restored sc w0) = qlbls (spinPhase sc (afterPre sc w0)) := rfl
      have hev : (restored sc w0).events = (spinPhase sc (afterPre sc w0)).events := rfl
      have hcalls : (restored sc w0).calls = (spinPhase sc (afterPre sc w0)).calls := rfl
      have hsels : (restored sc w0).sels = (spinPhase sc (afterPre sc w0)).sels := rfl
      simp only [cJunk, skipped, refused_false hj, hb, h0, Nat.lt_irrefl, decide_false, Bool.false_or, Bool.or_false, Bool.and_eq_true,
        List.all_eq_true, beq_iff_eq, evLabels, gt_iff_lt]
      refine ⟨⟨⟨?_, ?_⟩, ?_⟩, ?_⟩
      · intro l hl
        rw [count_leftovers_call, hq, hev]
        have := hf.book.cnt l
        simp only [delayedLabels_lt sc l hl, if_true, elbls] at this
        exact this
      · rw [count_leftovers_call, hq, hev]
        have := (tj_result hf.tj).2.2.2
        simpa [qT, eT, elbls] using this
      · intro j hj'
        simp only [leftovers, List.mem_append, List.mem_map, hcalls] at hj'
        rcases hj' with ⟨c, hc, rfl⟩ | ⟨n, _, rfl⟩
        · rcases hca : c.act with _ | ⟨l, a⟩
          · simp [junkKnown, QAct.lbl]
          · simp only [junkKnown, QAct.lbl, List.contains_iff_mem]
            exact (hf.book.lab c hc l a hca).2
        · rfl
      · rw [leftovers_sels, hsels, hev]
        exact hf.book.sels
    · have : decide (sc.oblig > 0) = true := by simp; omega
      simp [cJunk, this]

/-- what a call leaves for the next step: the junk it reports, an idle reactor, the handlers it reports -/
theorem runStep_link (sc : Scen) (w0 : W) (hidle : Idle w0) :
    (runStep sc w0).2.junk = (runStep sc w0).1.sp.junk ∧ Idle (runStep sc w0).1 ∧
    (runStep sc w0).2.sigBefore = w0.sigs ∧ (runStep sc w0).2.sigAfter = (runStep sc w0).1.sigs := by
  rcases run_cases sc w0.sp.junk with hj | ⟨hj, hb⟩ | ⟨hj, hb⟩
  · obtain ⟨h1, h2, h3, h4⟩ := runStep_refused sc w0 hidle hj
    exact ⟨by rw [h1, h2], h3, by rw [h1], by rw [h1, h4]⟩
  · obtain ⟨h1, h2, h3, h4, _⟩ := runStep_rejected sc w0 hidle hj hb
    exact ⟨by rw [h1, h2], h3, by rw [h1], by rw [h1, h4]⟩
  · obtain ⟨h1, h2, h3, h4, _⟩ := runStep_ran sc w0 hidle hj hb
    exact ⟨by rw [h1, h2], h3, by rw [h1], by rw [h1, h4]⟩

theorem idle_setSig {w : W} (h : Idle w) (s k : Nat) : Idle { w with sigs := w.sigs.set s k } :=
  ⟨h.calls, h.sels, h.running, h.stopPatched⟩

theorem idle_swap {w : W} (h : Idle w) (sp : Reactor.Spinner) : Idle { w with sp := sp } :=
  ⟨h.calls, h.sels, h.running, h.stopPatched⟩

theorem forRuns_model (p : Scen → List Junk → RunObs → Bool)
    (hp : ∀ sc w0, Idle w0 → p sc w0.sp.junk (runStep sc w0).2 = true) :
    ∀ (steps : List Step) (w : W) (other : Reactor.Spinner), Idle w →
      forRuns p steps (runSteps steps w other) w.sp.junk other.junk = true
  | [], _, _, _ => by simp [forRuns, runSteps]
  | .run sc :: rest, w, other, h => by
      obtain ⟨hl, hi, _⟩ := runStep_link sc w h
      simp only [runSteps, step, forRuns, hp sc w h, Bool.true_and]
      rw [hl]
      exact forRuns_model p hp rest _ other hi
  | .clearJunk :: rest, w, other, h => by
      simp only [runSteps, step, forRuns]
      exact forRuns_model p hp rest { w with sp := { w.sp with junk := [] } } other ⟨h.calls, h.sels, h.running, h.stopPatched⟩
  | .setSig s k :: rest, w, other, h => by
      simp only [runSteps, step, forRuns]
      exact forRuns_model p hp rest { w with sigs := w.sigs.set s k } other (idle_setSig h s k)
  | .swap :: rest, w, other, h => by
      simp only [runSteps, forRuns]
      exact forRuns_model p hp rest { w with sp := other } w.sp (idle_swap h other)

theorem shape_model : ∀ (steps : List Step) (w : W) (other : Reactor.Spinner), shape steps (runSteps steps w other) = true
  | [], _, _ => rfl
  | .run sc :: rest, w, other => by simp only [runSteps, step, shape]; exact shape_model rest _ _
  | .clearJunk :: rest, w, other => by simp only [runSteps, step, shape]; exact shape_model rest _ _
  | .setSig s k :: rest, w, other => by simp only [runSteps, step, shape]; exact shape_model rest _ _
  | .swap :: rest, w, other => by simp only [runSteps, shape]; exact shape_model rest _ _

theorem clearOk_model : ∀ (steps : List Step) (w : W) (other : Reactor.Spinner), Idle w →
    clearOk steps (runSteps steps w other) w.sp.junk other.junk = true
  | [], _, _, _ => by simp [clearOk, runSteps]
  | .run sc :: rest, w, other, h => by
      obtain ⟨hl, hi, _⟩ := runStep_link sc w h
      simp only [runSteps, step, clearOk]
      rw [hl]
      exact clearOk_model rest _ other hi
  | .clearJunk :: rest, w, other, h => by
      simp only [runSteps, step, clearOk, beq_self_eq_true, Bool.true_and]
      exact clearOk_model rest { w with sp := { w.sp with junk := [] } } other ⟨h.calls, h.sels, h.running, h.stopPatched⟩
  | .setSig s k :: rest, w, other, h => by
      simp only [runSteps, step, clearOk]
      exact clearOk_model rest { w with sigs := w.sigs.set s k } other (idle_setSig h s k)
  | .swap :: rest, w, other, h => by
      simp only [runSteps, clearOk]
      exact clearOk_model rest { w with sp := other } w.sp (idle_swap h other)

/-- the handlers thread through the history: each call finds what the previous step left -/
theorem sigThread_model : ∀ (steps : List Step) (w : W) (other : Reactor.Spinner), Idle w →
    sigThread steps (runSteps steps w other) w.sigs = true
  | [], _, _, _ => by simp [sigThread, runSteps]
  | .run sc :: rest, w, other, h => by
      obtain ⟨_, hi, hb, ha⟩ := runStep_link sc w h
      simp only [runSteps, step, sigThread, hb, beq_self_eq_true, Bool.true_and]
      rw [ha]
      exact sigThread_model rest _ other hi
  | .clearJunk :: rest, w, other, h => by
      simp only [runSteps, step, sigThread]
      exact sigThread_model rest { w with sp := { w.sp with junk := [] } } other ⟨h.calls, h.sels, h.running, h.stopPatched⟩
  | .setSig s k :: rest, w, other, h => by
      simp only [runSteps, step, sigThread, beq_self_eq_true, Bool.true_and]
      exact sigThread_model rest { w with sigs := w.sigs.set s k } other (idle_setSig h s k)
  | .swap :: rest, w, other, h => by
      simp only [runSteps, sigThread]
      exact sigThread_model rest { w with sp := other } w.sp (idle_swap h other)

theorem idle_init : Idle init := ⟨rfl, rfl, rfl, rfl⟩

/-- **Headline.** The executable specification holds of the model's trace, for every input. -/
theorem holds_model (i : Input) : holds i (model i) = true := by
  have h := fun p hp => forRuns_model p hp i.steps init {} idle_init
  simp only [holds, clauses, List.all_cons, List.all_nil, Bool.and_true, Bool.and_eq_true, lift, model]
  exact ⟨shape_model _ _ _, h _ clause_stale, h _ clause_rejected, h _ clause_reentry, h _ clause_result, h _ clause_clean,
    h _ clause_signals, sigThread_model _ _ _ idle_init, h _ clause_junk, h _ clause_bounded, clearOk_model _ _ _ idle_init⟩

/-! # The property theorems -/

/-- **C15 (result).**  A run that is not refused returns / raises exactly the declarative `expected sc`: the
function's own value or exception, `TimeoutError`, or `NoResultError` — whatever ran on this spinner before. -/
theorem C15_result (sc : Scen) (w0 : W) (hidle : Idle w0) (hj : w0.sp.junk = []) (hb : sc.bad = false) :
    (runStep sc w0).2.result = expected sc := by
  rw [(runStep_ran sc w0 hidle hj hb).1]
  exact (run_facts sc w0 hidle).result

/-- `f` returned a value / raised: that is the result, whatever else was scheduled. -/
theorem C15_result_sync (sc : Scen) (w0 : W) (hidle : Idle w0) (hj : w0.sp.junk = []) (hb : sc.bad = false) :
    (∀ v, sc.term = .ret v → (runStep sc w0).2.result = .value v) ∧
    (∀ e, sc.term = .raise e → (runStep sc w0).2.result = .raised e) ∧
    (∀ r, sc.term = .deferred → syncFire sc = some r → (runStep sc w0).2.result = r) := by
  rw [C15_result sc w0 hidle hj hb]
  refine ⟨fun v h => ?_, fun e h => ?_, fun r h hs => ?_⟩ <;> simp [expected, syncRes, h, *]

/-- `f` returned an unfired Deferred and asked the reactor to stop while it ran: `NoResultError`. -/
theorem C15_result_stopped_in_f (sc : Scen) (w0 : W) (hidle : Idle w0) (hj : w0.sp.junk = []) (hb : sc.bad = false)
    (hs : syncRes sc = none) (hstop : syncStop sc = true) : (runStep sc w0).2.result = .noresult := by
  rw [C15_result sc w0 hidle hj hb]
  simp [expected, hs, hstop]

/-- the reactor's call order on (time, scheduling index) -/
def Before (t i t' i' : Nat) : Prop := t < t' ∨ (t = t' ∧ i < i')

/-- `winner` finds the decisive call that is first in the reactor's call order.  (`off` = index of the
head of `cs` in the whole scheduling sequence.) -/
theorem winner_first_aux : ∀ (cs : List (Nat × Kind)) (off : Nat) (best : Option (Nat × Res)) (t : Nat) (r : Res) (i : Nat),
    cs[i]? = some (t, .decisive r) →
    (∀ j t' r', cs[j]? = some (t', .decisive r') → j ≠ i → Before t (off + i) t' (off + j)) →
    (∀ tb rb, best = some (tb, rb) → t < tb) →
    winner cs best = some (t, r)
  | [], _, _, _, _, i, h, _, _ => by simp at h
  | (t0, k) :: rest, off, best, t, r, 0, h, hothers, hbest => by
      simp only [List.getElem?_cons_zero, Option.some.injEq, Prod.mk.injEq] at h
      obtain ⟨rfl, rfl⟩ := h
      -- the head is the winner: everything later is not strictly earlier
      have hrest : ∀ (rest : List (Nat × Kind)) (o : Nat), (∀ (j : Nat) (t' : Nat) (r' : Res), rest[j]? = some (t', Kind.decisive r') → t0 ≤ t') →
          winner rest (some (t0, r)) = some (t0, r) := by
        intro rest
        induction rest with
        | nil => intro _ _; rfl
        | cons c rest ih =>
          intro o hle
          obtain ⟨tc, kc⟩ := c
          cases kc with
          | decisive rc =>
            have := hle 0 tc rc (by simp)
            have hn : ¬ tc < t0 := by omega
            simp only [winner, hn, if_false]
            exact ih o (fun j t' r' hj => hle (j + 1) t' r' (by simpa using hj))
          | stop => rw [winner_skip _ _ _ _ (by intro r; simp)]; exact ih o (fun j t' r' hj => hle (j + 1) t' r' (by simpa using hj))
          | other => rw [winner_skip _ _ _ _ (by intro r; simp)]; exact ih o (fun j t' r' hj => hle (j + 1) t' r' (by simpa using hj))
      have hle : ∀ (j : Nat) (t' : Nat) (r' : Res), rest[j]? = some (t', Kind.decisive r') → t0 ≤ t' := by
        intro j t' r' hj
        have := hothers (j + 1) t' r' (by simpa using hj) (by omega)
        rcases this with h | ⟨h, _⟩ <;> omega
      cases best with
      | none => simp only [winner]; exact hrest rest off hle
      | some b =>
        obtain ⟨tb, rb⟩ := b
        have := hbest tb rb rfl
        simp only [winner, this, if_true]
        exact hrest rest off hle
  | (t0, k) :: rest, off, best, t, r, i + 1, h, hothers, hbest => by
      have h' : rest[i]? = some (t, Kind.decisive r) := by simpa using h
      have hothers' : ∀ (j : Nat) (t' : Nat) (r' : Res), rest[j]? = some (t', Kind.decisive r') → j ≠ i → Before t (off + 1 + i) t' (off + 1 + j) := by
        intro j t' r' hj hne
        have := hothers (j + 1) t' r' (by simpa using hj) (by omega)
        simpa [Before, Nat.add_assoc, Nat.add_comm 1] using this
      cases k with
      | decisive r0 =>
        -- the head is decisive but comes later in call order than the winner: it must be due strictly later
        have hb := hothers 0 t0 r0 (by simp) (by omega)
        have ht : t < t0 := by rcases hb with h | ⟨_, h⟩ <;> omega
        cases best with
        | none =>
          simp only [winner]
          exact winner_first_aux rest (off + 1) _ t r i h' hothers' (by intro tb rb hb; cases hb; exact ht)
        | some b =>
          obtain ⟨tb, rb⟩ := b
          have := hbest tb rb rfl
          simp only [winner]
          apply winner_first_aux rest (off + 1) _ t r i h' hothers'
          intro tb' rb' hb'
          split at hb' <;> cases hb' <;> omega
      | stop =>
        rw [winner_skip _ _ _ _ (by intro r; simp)]
        exact winner_first_aux rest (off + 1) best t r i h' hothers' hbest
      | other =>
        rw [winner_skip _ _ _ _ (by intro r; simp)]
        exact winner_first_aux rest (off + 1) best t r i h' hothers' hbest

theorem winner_first (cs : List (Nat × Kind)) (t : Nat) (r : Res) (i : Nat)
    (h : cs[i]? = some (t, .decisive r))
    (hothers : ∀ j t' r', cs[j]? = some (t', .decisive r') → j ≠ i → Before t i t' j) :
    winner cs none = some (t, r) :=
  winner_first_aux cs 0 none t r i h (by simpa using hothers) (by intro _ _ h; cases h)

/-- **C15 (result, the general asynchronous case).**  `f` returned an unfired Deferred without stopping the
reactor.  Let the `i`-th delayed call (in scheduling order: calls made before `run`, the timeout call, calls
made by `f`) be decisive — it fires / fails the Deferred (`r = value v / raised e`) or it is the timeout call
(`r = timeout`) — and let it precede every other decisive call in the reactor's order `(time, index)`.  If no
stop request is due strictly before it, its result is the result of the run: the value / the exception if the
Deferred wins, `TimeoutError` if the timeout call wins; ties at one instant go to the call scheduled first. -/
theorem C15_result_first (sc : Scen) (w0 : W) (hidle : Idle w0) (hj : w0.sp.junk = []) (hb : sc.bad = false)
    (hs : syncRes sc = none) (hstop : syncStop sc = false) (i t : Nat) (r : Res)
    (hi : (delayed sc)[i]? = some (t, .decisive r))
    (hfirst : ∀ j t' r', (delayed sc)[j]? = some (t', .decisive r') → j ≠ i → Before t i t' j)
    (hnostop : ∀ ts, (ts, Kind.stop) ∈ delayed sc → t ≤ ts) :
    (runStep sc w0).2.result = r := by
  rw [C15_result sc w0 hidle hj hb]
  have hw := winner_first (delayed sc) t r i hi hfirst
  have hns : noStopBefore t (delayed sc) = true := by
    simp only [noStopBefore, List.all_eq_true]
    intro c hc
    obtain ⟨tc, kc⟩ := c
    by_cases hk : kc = Kind.stop
    · subst hk; simp [hnostop tc hc]
    · simp [hk]
  simp [expected, hs, hstop, hw, hns]

/-- **C15 (result, interrupted).**  … but if a stop request is due strictly before that first decisive call,
the run ends with `NoResultError`. -/
theorem C15_result_stopped_first (sc : Scen) (w0 : W) (hidle : Idle w0) (hj : w0.sp.junk = []) (hb : sc.bad = false)
    (hs : syncRes sc = none) (i t : Nat) (r : Res)
    (hi : (delayed sc)[i]? = some (t, .decisive r))
    (hfirst : ∀ j t' r', (delayed sc)[j]? = some (t', .decisive r') → j ≠ i → Before t i t' j)
    (ts : Nat) (hstop : (ts, Kind.stop) ∈ delayed sc) (hlt : ts < t) :
    (runStep sc w0).2.result = .noresult := by
  rw [C15_result sc w0 hidle hj hb]
  have hw := winner_first (delayed sc) t r i hi hfirst
  have hns : noStopBefore t (delayed sc) = false := by
    simp only [noStopBefore, List.all_eq_false]
    exact ⟨(ts, Kind.stop), hstop, by simp; omega⟩
  cases hss : syncStop sc <;> simp [expected, hs, hss, hw, hns]

/-- Ties at the timeout instant follow the scheduling order: a firing scheduled *before* `run()` for the
timeout instant precedes the timeout call and wins … -/
theorem C15_tie_scheduled_before_run (T v : Nat) (w0 : W) (hidle : Idle w0) (hj : w0.sp.junk = []) :
    (runStep { timeout := T, pre := [(T, .fire v)], body := [], term := .deferred } w0).2.result = .value v := by
  rw [C15_result _ w0 hidle hj rfl]
  simp [expected, syncRes, syncFire, syncStop, delayed, winner, kindOf, noStopBefore]

/-- … one scheduled by `f` itself comes after the timeout call: `TimeoutError` stands, the late result is
dropped. -/
theorem C15_tie_scheduled_by_f (T v : Nat) (w0 : W) (hidle : Idle w0) (hj : w0.sp.junk = []) :
    (runStep { timeout := T, pre := [], body := [.later T (.fire v)], term := .deferred } w0).2.result = .timeout := by
  rw [C15_result _ w0 hidle hj rfl]
  simp [expected, syncRes, syncFire, syncStop, delayed, winner, kindOf, noStopBefore, laterKind, nowAct, List.filterMap_cons]

/-- A stop request at the very instant of the firing does not lose the result (calls due at the instant of
a crash still run) … -/
theorem C15_tie_stop_and_fire (T d v : Nat) (hd : d < T) (w0 : W) (hidle : Idle w0) (hj : w0.sp.junk = []) :
    (runStep { timeout := T, pre := [(d, .stop)], body := [.later d (.fire v)], term := .deferred } w0).2.result = .value v := by
  rw [C15_result _ w0 hidle hj rfl]
  have : ¬ T ≤ d := by omega
  simp [expected, syncRes, syncFire, syncStop, delayed, winner, kindOf, noStopBefore, laterKind, nowAct, List.filterMap_cons, hd, this]

/-- … while a stop request strictly before it does. -/
theorem C15_stop_before_fire (T d v : Nat) (hd : d + 1 < T) (w0 : W) (hidle : Idle w0) (hj : w0.sp.junk = []) :
    (runStep { timeout := T, pre := [(d, .stop)], body := [.later (d + 1) (.fire v)], term := .deferred } w0).2.result = .noresult := by
  rw [C15_result _ w0 hidle hj rfl]
  have : ¬ T ≤ d + 1 := by omega
  simp [expected, syncRes, syncFire, syncStop, delayed, winner, kindOf, noStopBefore, laterKind, nowAct, List.filterMap_cons, hd, this]

/-- **C15 (guards, stale junk).**  While junk of an earlier run has not been cleared, `run` raises
`StaleJunkError` and touches nothing: `f` is not called (no events), the spinner's state, the clock, the signal
handlers and `reactor.stop` are what they were; what the caller had scheduled is still pending. -/
theorem C15_guards_stale (sc : Scen) (w0 : W) (hidle : Idle w0) (hj : w0.sp.junk ≠ []) :
    let o := (runStep sc w0).2
    o.result = .stalejunk ∧ o.events = [] ∧ o.reentries = [] ∧ o.junk = w0.sp.junk ∧ o.pending = sc.pre.length ∧
    o.sigAfter = o.sigBefore ∧ o.stopRestored = true ∧ o.running = false ∧ o.elapsed = 0 ∧
    (runStep sc w0).1.sp = w0.sp ∧ (runStep sc w0).1.now = w0.now ∧ (runStep sc w0).1.sigs = w0.sigs := by
  have hj' : w0.sp.junk.isEmpty = false := by cases h : w0.sp.junk <;> simp_all
  have hS := afterPre_eq sc w0 hidle
  have hjS : (!(afterPre sc w0).sp.junk.isEmpty) = true := by rw [afterPre_junk, hj']; rfl
  have hw : (runStep sc w0).1 = { afterPre sc w0 with calls := [] } := by
    unfold runStep
    simp only []
    split
    · rfl
    · rename_i h; exact absurd hjS h
  obtain ⟨h1, _, _, _⟩ := runStep_refused sc w0 hidle hj'
  rw [h1, hw, hS]
  simp [start]

/-- and a run is refused **only** then -/
theorem C15_guards_stale_only (sc : Scen) (w0 : W) (hidle : Idle w0) (hj : w0.sp.junk = []) (hb : sc.bad = false) :
    (runStep sc w0).2.result ≠ .stalejunk ∧ (runStep sc w0).2.result ≠ .reentry := by
  rw [(runStep_ran sc w0 hidle hj hb).1]
  exact ⟨(tj_result (run_facts sc w0 hidle).tj).1, (tj_result (run_facts sc w0 hidle).tj).2.1⟩

/-- **C15 (a timeout the reactor rejects).**  If `reactor.callLater(timeout, …)` raises, `run` raises that exception out of
the statements before its `try … finally`; `f` is never called (no events) and nothing observable has changed: every
signal handler (preserved or not), `reactor.stop`, the reactor and the junk are what they were, what the caller had
scheduled is still pending.  The only trace is in the spinner: `_saved_signals` holds the handlers it found - and the
next `_save_signals()` overwrites it (see `C15_signals_every_call`). -/
theorem C15_rejected (sc : Scen) (w0 : W) (hidle : Idle w0) (hj : w0.sp.junk = []) (hb : sc.bad = true) :
    let o := (runStep sc w0).2
    o.result = .rejected ∧ o.events = [] ∧ o.reentries = [] ∧ o.junk = [] ∧ o.pending = sc.pre.length ∧ o.sels = 0 ∧
    o.sigAfter = o.sigBefore ∧ o.stopRestored = true ∧ o.running = false ∧ o.elapsed = 0 ∧
    (runStep sc w0).1.sigs = w0.sigs ∧ (runStep sc w0).1.sp.saved = w0.sigs ∧ Idle (runStep sc w0).1 := by
  obtain ⟨h1, _, h3, h4, h5⟩ := runStep_rejected sc w0 hidle hj hb
  rw [h1]
  exact ⟨rfl, rfl, rfl, rfl, rfl, rfl, rfl, rfl, rfl, rfl, h4, h5, h3⟩

/-- and only such a call raises that -/
theorem C15_rejected_only (sc : Scen) (w0 : W) (hidle : Idle w0) :
    (runStep sc w0).2.result = .rejected ↔ (w0.sp.junk = [] ∧ sc.bad = true) := by
  have := clause_rejected sc w0 hidle
  simp only [cRejected, rejects, refused, Bool.and_eq_true, beq_iff_eq, Bool.not_eq_true', Bool.or_eq_true] at this
  have h1 := this.1
  constructor
  · intro h
    have : ((runStep sc w0).2.result == Res.rejected) = true := by simp [h]
    rw [h1] at this
    simp only [Bool.and_eq_true, Bool.not_eq_true', Bool.not_eq_false', List.isEmpty_iff] at this
    exact this
  · rintro ⟨hj, hb⟩
    exact (runStep_rejected sc w0 hidle hj hb).1 ▸ rfl

/-- **C15 (guards, re-entry).**  Every attempt to call `Spinner.run` from inside a run (from `f` or from a
delayed call, on the same or on a fresh spinner) raised `ReentryError` — one per executed attempt — and changed
nothing else. -/
theorem C15_guards_reentry (sc : Scen) (w0 : W) (hidle : Idle w0) :
    (∀ r ∈ (runStep sc w0).2.reentries, r = .reentry) ∧
    (runStep sc w0).2.reentries.length = ((runStep sc w0).2.events.filter (isReenterEv sc)).length ∧
    (∀ (l : Nat) (f : Bool) (w : W), { exec l (.reenter f) w with u := w.u } = w) := by
  have := clause_reentry sc w0 hidle
  simp only [cReentry, Bool.and_eq_true, List.all_eq_true, beq_iff_eq, bne_iff_ne] at this
  exact ⟨this.1.1, this.2, fun _ _ _ => rfl⟩

theorem restoreFrom_get : ∀ (s : Nat) (saved cur : List Nat), cur.length = saved.length →
    ∀ i, preserved (s + i) = true → (restoreFrom s saved cur)[i]? = saved[i]?
  | _, [], [], _, i, _ => by simp [restoreFrom]
  | _, [], _ :: _, h, _, _ => by simp at h
  | _, _ :: _, [], h, _, _ => by simp at h
  | s, x :: saved, y :: cur, h, 0, hp => by simp [restoreFrom, show preserved s = true by simpa using hp]
  | s, x :: saved, y :: cur, h, i + 1, hp => by
      simp only [restoreFrom, List.tail_cons, List.getElem?_cons_succ]
      exact restoreFrom_get (s + 1) saved cur (by simpa using h) i (by simpa [Nat.add_assoc, Nat.add_comm 1 i] using hp)

/-- the signals the spinner preserves are SIGINT, SIGTERM and SIGCHLD (table extracted from the code) -/
theorem C15_preserved_signals : preserved 0 = true ∧ preserved 1 = true ∧ preserved 2 = true ∧
    sigNames[0]? = some "SIGINT" ∧ sigNames[1]? = some "SIGTERM" ∧ sigNames[2]? = some "SIGCHLD" ∧
    (∀ s, mustPreserve s = true → preserved s = true) :=
  ⟨by decide, by decide, by decide, by decide, by decide, by decide, must_preserved⟩

/-- **C15 (clean).**  After every `run` — returned or raised, refused or not: the reactor is not running, holds
no delayed calls and no selectables, `reactor.stop` is the genuine one and every preserved signal has the
handler it had before the call (whatever `f` or the delayed calls installed). -/
theorem C15_clean (sc : Scen) (w0 : W) (hidle : Idle w0) :
    Idle (runStep sc w0).1 ∧
    (lateHandler sc = false → ∀ s, preserved s = true → (runStep sc w0).1.sigs[s]? = w0.sigs[s]?) ∧
    (w0.sp.junk = [] → sc.bad = false → (runStep sc w0).2.pending = 0 ∧ (runStep sc w0).2.sels = 0 ∧ (runStep sc w0).2.running = false
      ∧ (runStep sc w0).2.stopRestored = true) := by
  refine ⟨(runStep_link sc w0 hidle).2.1, ?_, ?_⟩
  · intro hl s hs
    rcases run_cases sc w0.sp.junk with hj | ⟨hj, hb⟩ | ⟨hj, hb⟩
    · rw [(runStep_refused sc w0 hidle hj).2.2.2]
    · rw [(runStep_rejected sc w0 hidle hj hb).2.2.2.1]
    · rw [(runStep_ran sc w0 hidle hj hb).2.2.2.1, cleaned_sigs sc w0 hidle hl]
      exact restoreFrom_get 0 _ _ (run_facts sc w0 hidle).sigs s (by simpa using hs)
  · intro hj hb
    rw [(runStep_ran sc w0 hidle hj hb).1]
    exact ⟨rfl, rfl, rfl, rfl⟩

/-- **C15 (junk).**  What a run leaves behind is exactly the recorded junk: each delayed call of the scenario
either ran or is junk — never both, never twice; the spinner's own timeout call ran, or was cancelled because a
result was recorded, or is junk; nothing else is junk except the selectables registered by actions that ran. -/
theorem C15_junk_exact (sc : Scen) (w0 : W) (hidle : Idle w0) (hj : w0.sp.junk = []) (hb : sc.bad = false) (h0 : sc.oblig = 0) :
    let o := (runStep sc w0).2
    (∀ l ∈ delayedLabels sc, o.junk.count (.call (.user l)) + (evLabels o).count (.user l) = 1) ∧
    o.junk.count (.call .timeout) + (evLabels o).count .timeout + (if isOwnResult o.result = true then 1 else 0) = 1 ∧
    (∀ l, Junk.call (.user l) ∈ o.junk → l ∈ delayedLabels sc) ∧
    o.junk.filterMap junkSel = o.events.filterMap (selEv sc) ∧
    (runStep sc w0).1.sp.junk = o.junk := by
  have := clause_junk sc w0 hidle
  simp only [cJunk, skipped, refused_false hj, hb, h0, Nat.lt_irrefl, gt_iff_lt, decide_false, Bool.false_or, Bool.or_false,
    Bool.and_eq_true, List.all_eq_true, beq_iff_eq] at this
  obtain ⟨⟨⟨h1, h2⟩, h3⟩, h4⟩ := this
  refine ⟨h1, by simpa using h2, ?_, h4, (runStep_link sc w0 hidle).1.symm⟩
  intro l hl
  have := h3 _ hl
  simpa [junkKnown] using this

/-- **C15 (bounded).**  A run never lasts beyond its timeout, and time does not run backwards. -/
theorem C15_bounded (sc : Scen) (w0 : W) (hidle : Idle w0) (hj : w0.sp.junk = []) (hb : sc.bad = false) :
    (runStep sc w0).2.elapsed ≤ sc.timeout ∧ w0.now ≤ (runStep sc w0).1.now := by
  have hf := run_facts sc w0 hidle
  constructor
  · rw [(runStep_ran sc w0 hidle hj hb).1]
    have := hf.now_le
    show (spinPhase sc (afterPre sc w0)).now - w0.now ≤ sc.timeout
    omega
  · have hjS : (!(afterPre sc w0).sp.junk.isEmpty) = false := by rw [afterPre_junk, hj]; rfl
    have hw : (runStep sc w0).1.now = (spinPhase sc (afterPre sc w0)).now := by
      have h1 : (runStep sc w0).1.now = (cleaned sc w0).now := by
        unfold runStep
        simp only []
        split
        · rename_i h; rw [show (!(afterPre sc w0).sp.junk.isEmpty) = true from h] at hjS; cases hjS
        · rw [if_neg (by rw [hb]; exact Bool.false_ne_true)]
          rfl
      rw [h1]
      exact (iterations_frame sc sc.oblig (restored sc w0)).now
    rw [hw]; exact hf.now_ge

/-- **C15 (the loop ends).**  `reactor.run()` under `Spinner.run` always ends because the reactor was crashed
(by the result, the timeout or a stop request) — it never runs out of things to wait for, and the fuel the
model gives the loop suffices. -/
theorem C15_loop_ends_by_crash (sc : Scen) (w0 : W) (hidle : Idle w0) :
    (spinPhase sc (afterPre sc w0)).crashed = true := (run_facts sc w0 hidle).crashed

/-- **C15 (histories).**  All of the above holds at every step of every history - calls on either of two Spinner objects
on the one reactor, `clear_junk()`, handler installations: between the steps the world is idle (so each call of `run` is a
`runStep sc w'` with `Idle w'`), and `clear_junk()` returns exactly the junk of the last run of that Spinner. -/
theorem C15_history_idle : ∀ (steps : List Step) (w : W) (other : Reactor.Spinner), Idle w →
    ∀ (pre post : List Step), steps = pre ++ post →
    ∃ (w' : W) (other' : Reactor.Spinner), Idle w' ∧ runSteps steps w other = runSteps pre w other ++ runSteps post w' other'
  | steps, w, other, hw, [], post, h => by
      simp only [List.nil_append] at h
      subst h
      exact ⟨w, other, hw, by simp [runSteps]⟩
  | [], _, _, _, p0 :: pre, post, h => by simp at h
  | s0 :: rest, w, other, hw, p0 :: pre, post, h => by
      simp only [List.cons_append, List.cons.injEq] at h
      obtain ⟨rfl, h⟩ := h
      cases s0 with
      | run sc =>
        obtain ⟨w', o', hw', heq⟩ := C15_history_idle rest _ other (runStep_link sc w hw).2.1 pre post h
        exact ⟨w', o', hw', by simp only [runSteps, step, List.cons_append]; rw [heq]⟩
      | clearJunk =>
        obtain ⟨w', o', hw', heq⟩ := C15_history_idle rest { w with sp := { w.sp with junk := [] } } other
          ⟨hw.calls, hw.sels, hw.running, hw.stopPatched⟩ pre post h
        exact ⟨w', o', hw', by simp only [runSteps, step, List.cons_append]; rw [heq]⟩
      | setSig s k =>
        obtain ⟨w', o', hw', heq⟩ := C15_history_idle rest { w with sigs := w.sigs.set s k } other (idle_setSig hw s k) pre post h
        exact ⟨w', o', hw', by simp only [runSteps, step, List.cons_append]; rw [heq]⟩
      | swap =>
        obtain ⟨w', o', hw', heq⟩ := C15_history_idle rest { w with sp := other } w.sp (idle_swap hw other) pre post h
        exact ⟨w', o', hw', by simp only [runSteps, List.cons_append]; rw [heq]⟩

/-- **C15 (signal handlers, every call).**  Whenever `run` returns or raises - its own result, `TimeoutError`,
`NoResultError`, `StaleJunkError`, what `reactor.callLater` raised - every preserved signal has the handler it had
immediately before **that** call.  `w0` is any state between two steps: in particular the spinner's `_saved_signals`
may hold anything (the handlers found by an earlier call that raised before its `try … finally`), and the process may
have changed the handlers since. -/
theorem C15_signals_every_call (sc : Scen) (w0 : W) (hidle : Idle w0) (hl : lateHandler sc = false) :
    (∀ s, preserved s = true → (runStep sc w0).1.sigs[s]? = w0.sigs[s]?) ∧
    (runStep sc w0).2.sigBefore = w0.sigs ∧ (runStep sc w0).2.sigAfter = (runStep sc w0).1.sigs ∧
    preservedSame 0 (runStep sc w0).2.sigBefore (runStep sc w0).2.sigAfter = true :=
  ⟨(C15_clean sc w0 hidle).2.1 hl, (runStep_link sc w0 hidle).2.2.1, (runStep_link sc w0 hidle).2.2.2, by
    have := clause_signals sc w0 hidle
    simpa [cSignals, hl] using this⟩

/-- **C15 (signal handlers, by induction over the history).**  In every history of `run` calls (any timeouts, also
rejected ones), `clear_junk()` and handler installations by the process, on one spinner: every call of `run` leaves
the preserved handlers as it found them … -/
theorem C15_signals_history : ∀ (steps : List Step) (w : W) (other : Reactor.Spinner), Idle w →
    (∀ sc, Step.run sc ∈ steps → lateHandler sc = false) →
    ∀ o, Obs.run o ∈ runSteps steps w other → preservedSame 0 o.sigBefore o.sigAfter = true
  | [], _, _, _, _, o, h => by simp [runSteps] at h
  | .run sc :: rest, w, other, hw, hl, o, h => by
      simp only [runSteps, step, List.mem_cons] at h
      rcases h with h | h
      · injection h with h; subst h
        have := clause_signals sc w hw
        simpa [cSignals, hl sc List.mem_cons_self] using this
      · exact C15_signals_history rest _ other (runStep_link sc w hw).2.1 (fun s hs => hl s (List.mem_cons_of_mem _ hs)) o h
  | .clearJunk :: rest, w, other, hw, hl, o, h => by
      simp only [runSteps, step, List.mem_cons] at h
      rcases h with h | h
      · cases h
      · exact C15_signals_history rest { w with sp := { w.sp with junk := [] } } other ⟨hw.calls, hw.sels, hw.running, hw.stopPatched⟩
          (fun s hs => hl s (List.mem_cons_of_mem _ hs)) o h
  | .setSig s k :: rest, w, other, hw, hl, o, h => by
      simp only [runSteps, step, List.mem_cons] at h
      rcases h with h | h
      · cases h
      · exact C15_signals_history rest _ other (idle_setSig hw s k) (fun s hs => hl s (List.mem_cons_of_mem _ hs)) o h
  | .swap :: rest, w, other, hw, hl, o, h => by
      simp only [runSteps, List.mem_cons] at h
      rcases h with h | h
      · cases h
      · exact C15_signals_history rest { w with sp := other } w.sp (idle_swap hw other) (fun s hs => hl s (List.mem_cons_of_mem _ hs)) o h

/-- … and finds the handlers the previous step left (`sigThread`: only the process changes them between calls) -/
theorem C15_signals_model (i : Input) (hl : ∀ sc, Step.run sc ∈ i.steps → lateHandler sc = false) :
    (∀ o, Obs.run o ∈ model i → preservedSame 0 o.sigBefore o.sigAfter = true) ∧
    sigThread i.steps (model i) [0, 0, 0, 0] = true :=
  ⟨C15_signals_history i.steps init {} idle_init hl, sigThread_model i.steps init {} idle_init⟩

/-- **C15 (runs are isolated from earlier runs).**  The callbacks a run hangs on `f`'s Deferred belong to that run:
when the Deferred of an EARLIER run - of this Spinner or of another Spinner on the same reactor - fires or fails during
a later run (it fired after its timeout, or after an interrupt), nothing happens: no result is recorded, no timeout call
cancelled, the reactor is not crashed.  For the outcome of the later run such a firing counts like any other delayed
call that does nothing. -/
theorem C15_late_firing_is_inert (l : Nat) (failed : Bool) (back v : Nat) (w : W) :
    exec l (.late failed back v) w = w ∧ kindOf (.late failed back v) = kindOf .noop ∧ fireRes (.late failed back v) = none :=
  ⟨rfl, rfl, rfl⟩

/-- … so the result of a run in whose course Deferreds of earlier runs fire is `expected sc`, which looks at the run's own
Deferred only (`C15_result` for scenarios containing `.late` actions; an instance: the late value arrives at 1, the run's
own value at 2 - the run returns its own) -/
theorem C15_own_result_despite_late_firing (T v vOld k : Nat) (hT : 2 < T) (w0 : W) (hidle : Idle w0) (hj : w0.sp.junk = []) :
    (runStep { timeout := T, pre := [], body := [.later 1 (.late false k vOld), .later 2 (.fire v)], term := .deferred } w0).2.result
      = .value v := by
  rw [C15_result _ w0 hidle hj rfl]
  have h1 : ¬ T < 2 := by omega
  have h2 : ¬ T ≤ 2 := by omega
  simp [expected, syncRes, syncFire, syncStop, delayed, winner, kindOf, noStopBefore, laterKind, nowAct, List.filterMap_cons, hT, h1, h2]

/-! # The translator tie: the model is the interpretation of the source of `_spinner.py`

`harness/pyspinner2lean.py` re-reads the source on every run and emits `TTV/Generated/SpinnerSkel.lean`; each theorem first
checks that what was found IS the reference term (`by decide` - any change of what is done or in which order breaks it) and
then that the interpretation of that term is the hand-written model. -/

section src
open TTV.SpinnerSkel

/-- `_got_success` / `_got_failure` (cancel the timeout FIRST, then store) followed by `_stop_reactor`, as found in the source,
are `Reactor.deliver` -/
theorem C15_src_callbacks (r : Res) (w : W) :
    deliverI Generated.SpinnerSkel.gotSuccess Generated.SpinnerSkel.gotFailure Generated.SpinnerSkel.stopReactor r w = deliver r w := by
  have e1 : Generated.SpinnerSkel.gotSuccess = refGotSuccess := by decide
  have e2 : Generated.SpinnerSkel.gotFailure = refGotFailure := by decide
  have e3 : Generated.SpinnerSkel.stopReactor = refStopReactor := by decide
  rw [e1, e2, e3]
  unfold deliverI deliver stopReactor
  cases htc : w.sp.tcall <;> cases r <;> simp [cbI, refGotSuccess, refGotFailure, refStopReactor, htc] <;> split <;> rfl

/-- `_stop_reactor` as found in the source is `Reactor.stopReactor` -/
theorem C15_src_stop_reactor (r : Res) (w : W) : cbI Generated.SpinnerSkel.stopReactor 0 Generated.SpinnerSkel.stopReactor r w = stopReactor w := by
  have e3 : Generated.SpinnerSkel.stopReactor = refStopReactor := by decide
  rw [e3]
  unfold stopReactor
  simp only [cbI, refStopReactor]

/-- `_timed_out` as found in the source is `Reactor.execTimeout` -/
theorem C15_src_timed_out (w : W) :
    timedOutI Generated.SpinnerSkel.timedOut Generated.SpinnerSkel.stopReactor w = execTimeout w := by
  have e1 : Generated.SpinnerSkel.timedOut = refTimedOut := by decide
  have e3 : Generated.SpinnerSkel.stopReactor = refStopReactor := by decide
  rw [e1, e3]
  unfold timedOutI execTimeout stopReactor
  simp only [cbI, refTimedOut, refStopReactor]

/-- `_get_result` as found in the source is `Reactor.getResult` -/
theorem C15_src_get_result (sp : Reactor.Spinner) : getResultI Generated.SpinnerSkel.getResult sp = getResult sp := by
  have e : Generated.SpinnerSkel.getResult = refGetResult := by decide
  rw [e]
  unfold getResult
  cases hf : sp.failure <;> cases hs : sp.success <;> simp [getResultI, refGetResult, hf, hs]

/-- `_clean` as found in the source (no obligatory iterations for the plain Spinner) cancels / removes what is left,
records it as junk after the junk already there, and leaves the reactor empty -/
theorem C15_src_clean (w : W) :
    Generated.SpinnerSkel.obligatoryIterations = 0 ∧
    (cleanI id Generated.SpinnerSkel.clean (w, [])).1 = { w with calls := [], sels := [], sp := { w.sp with junk := w.sp.junk ++ leftovers w } } ∧
    (cleanI id Generated.SpinnerSkel.clean (w, [])).2 = leftovers w := by
  have e : Generated.SpinnerSkel.clean = refClean := by decide
  rw [e]
  exact ⟨by decide, rfl, rfl⟩

/-- the helpers that are recognised as a whole -/
theorem C15_src_shapes :
    Generated.SpinnerSkel.saveSignals = .assignsFreshListOfAvailablePreserved ∧
    Generated.SpinnerSkel.restoreSignals = .reinstallsEachThenEmptiesList ∧
    Generated.SpinnerSkel.notReentrant = refNotReentrant ∧ Generated.SpinnerSkel.runIsNotReentrant = true ∧
    Generated.SpinnerSkel.trapUnhandledErrors = refTrap ∧ Generated.SpinnerSkel.fakeStop = refFakeStop ∧
    Generated.SpinnerSkel.cancelTimeoutIsGuardedCancel = true := by decide

/-- **`Spinner.run` as found in the source is the model's `runStep`**: the interpretation of the skeleton (with the `run_function`,
`_get_result` and `_clean` found) from the state in which `run` is called yields the model's final state (up to what the harness
cancels after a refusal) and result; nothing in it is beyond the model (`bad = false`): the callbacks are guarded by a run token that
is set over before the result is read. -/
theorem C15_src_run (sc : Scen) (w0 : W) :
    let s := interp sc Generated.SpinnerSkel.runFunction Generated.SpinnerSkel.getResult Generated.SpinnerSkel.clean
      Generated.SpinnerSkel.run { w := enter sc w0 }
    (runStep sc w0).1 = (if s.raised.isSome then { s.w with calls := [] } else s.w) ∧
    (runStep sc w0).2.result = (s.raised.getD (s.result.getD .noresult)) ∧ s.bad = false := by
  have e1 : Generated.SpinnerSkel.run = refRun := by decide
  have e2 : Generated.SpinnerSkel.runFunction = refRunFunction := by decide
  have e3 : Generated.SpinnerSkel.getResult = refGetResult := by decide
  have e4 : Generated.SpinnerSkel.clean = refClean := by decide
  rw [e1, e2, e3, e4]
  have hgr : ∀ sp, getResultI refGetResult sp = getResult sp := by
    intro sp; unfold getResult
    cases hf : sp.failure <;> cases hs : sp.success <;> simp [getResultI, refGetResult, hf, hs]
  simp only [runStep, enter]
  split
  · rename_i hj
    have hj' : (schedPre 0 sc.pre { w0 with t0 := w0.now, events := [], u := {} }).sp.junk.isEmpty = false := by simpa using hj
    simp [interp, stepI, refRun, hj']
  · rename_i hj
    have hj' : (schedPre 0 sc.pre { w0 with t0 := w0.now, events := [], u := {} }).sp.junk.isEmpty = true := by simpa using hj
    split
    · rename_i hb
      simp [interp, stepI, refRun, hj', hb, saveSignals]
    · rename_i hb
      have hb' : sc.bad = false := by simpa using hb
      simp only [interp, stepI, refRun, hj', hb', saveSignals, spinPhase, hgr, cleanI, refClean, refRunFunction, Option.isSome_none,
        Bool.false_eq_true, if_false, if_true, Bool.true_and, Bool.and_self, beq_self_eq_true, Bool.not_true, Bool.or_false, Bool.not_false,
        Option.getD_some, Option.getD_none, id, leftovers, List.nil_append]
      repeat' constructor
      all_goals first | rfl | trivial

end src

/-! ## non-vacuity: concrete histories (evaluated by the kernel) -/

def resultsOf (t : Trace) : List Res := t.filterMap fun | .run o => some o.result | _ => none

/-- value, timeout at a tie, stop, reuse after a failure (fix a08ec11), refusal while junk is uncleared -/
example : resultsOf (model ⟨false, [
    .run { timeout := 5, pre := [], body := [.later 3 (.fire 7)], term := .deferred },
    .run { timeout := 2, pre := [], body := [.later 2 (.fire 7)], term := .deferred },
    .clearJunk,
    .run { timeout := 5, pre := [(1, .stop)], body := [.later 3 (.fail 4)], term := .deferred },
    .clearJunk,
    .run { timeout := 5, pre := [], body := [], term := .raise 9 },
    .run { timeout := 5, pre := [], body := [.later 9 .noop], term := .ret 1 },
    .run { timeout := 5, pre := [], body := [], term := .ret 2 }]⟩)
  = [.value 7, .timeout, .noresult, .raised 9, .value 1, .stalejunk] := by decide

example : Idle init := idle_init

/-- the history of seed C15-c: a call the reactor rejects (SIGINT has handler 1 then), the process installs handler 2,
an ordinary run: it returns its value and leaves handler 2 - not the stale handler 1 saved by the rejected call -/
example : (model ⟨false, [
    .setSig 0 1,
    .run { timeout := 0, bad := true, pre := [], body := [], term := .ret 0 },
    .setSig 0 2,
    .run { timeout := 3, pre := [], body := [.later 1 (.fire 7)], term := .deferred }]⟩).filterMap
      (fun | .run o => some (o.result, o.sigBefore, o.sigAfter) | _ => none)
    = [(.rejected, [1, 0, 0, 0], [1, 0, 0, 0]), (.value 7, [2, 0, 0, 0], [2, 0, 0, 0])] := by decide

/-- audit C15 v1: run 1 times out on its Deferred; during run 2 of the same Spinner that Deferred fires (1) before run 2's own
(2): run 2 returns its own value.  audit C15 v2: run 1 of Spinner A is interrupted; during a run of Spinner B its Deferred
fires: B's run is not disturbed -/
example : resultsOf (model ⟨false, [
    .run { timeout := 1, pre := [], body := [], term := .deferred },
    .run { timeout := 9, pre := [], body := [.later 1 (.late false 1 7), .later 2 (.fire 3)], term := .deferred },
    .run { timeout := 5, pre := [(1, .stop)], body := [], term := .deferred },
    .clearJunk,
    .swap,
    .run { timeout := 9, pre := [], body := [.later 1 (.late false 1 7), .later 2 (.fire 4)], term := .deferred }]⟩)
    = [.timeout, .value 3, .noresult, .value 4] := by decide

end TTV.Props.C15
