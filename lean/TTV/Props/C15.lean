import TTV.Model.Spinner
import TTV.Spec.C15
import TTV.Lemmas.Reactor
/-! # C15 — `Spinner.run` returns the function's own result within the timeout and restores the process

All statements are about the model `TTV.Spinner` (`Model/Reactor.lean`, `Model/Spinner.lean`) and hold for
**every** history of runs on one reactor and one `Spinner` object, every scenario (any number of delayed calls
before / inside `f`, any delays, any timeout, stop requests at any instant, any signal handlers).

* `holds_model`            : the executable spec `Spec.C15.holds` is true of the model's trace (headline)
* `C15_result`             : a run that is not refused returns/raises exactly `expected sc`
* `C15_result_sync`, `C15_result_stopped_in_f`, `C15_result_fire`, `C15_result_timeout`, `C15_result_noresult`
                           : the readable cases of `expected` (who wins, incl. ties at the timeout instant)
* `C15_guards_stale`, `C15_guards_reentry` : refusals, and that they change nothing
* `C15_clean`              : after a run: not running, no delayed calls, no selectables, stop and signals restored
* `C15_junk_exact`         : the recorded junk is exactly what was left over
* `C15_bounded`, `C15_loop_terminates` : the run consumes at most `timeout` of virtual time and its loop ends by a crash
-/
namespace TTV.Props.C15
open TTV.Reactor TTV.Spinner TTV.Spec.C15

/-! ## frame lemmas for the scenario actions -/

theorem fireD_of_fired {w : W} {r : Res} (h : w.u.dres ≠ none) : fireD r w = w := by
  unfold fireD
  split
  · rfl
  · contradiction

/-! ## the decision procedure of the loop, read off the queue -/

def kindQ : QAct Act → Kind
  | .timeout => .decisive .timeout
  | .user _ a => kindOf a

/-- the result of the loop when it starts in a "live" state (callbacks attached, Deferred unfired, timeout
pending, nothing recorded): scan the queue in order; a decisive call decides; after a stop request only the
calls due at that instant are still looked at -/
def liveRes (crashed : Bool) (now : Nat) : List (DCall (QAct Act)) → Res
  | [] => .noresult
  | c :: rest =>
    if crashed && now < c.time then .noresult else
    match kindQ c.act with
    | .decisive r => r
    | .stop => liveRes true (max now c.time) rest
    | .other => liveRes crashed (max now c.time) rest

structure Live (w : W) : Prop where
  att : w.u.attached = true
  dres : w.u.dres = none
  tc : w.sp.tcall = .pending
  succ : w.sp.success = none
  fail : w.sp.failure = none
  spinning : w.sp.spinning = true

/-- the result is decided and nothing that can still run will change it -/
def Done (r : Res) (w : W) : Prop :=
  w.crashed = true ∧ getResult w.sp = r ∧
  ((w.u.dres ≠ none ∧ w.sp.tcall = .cancelled ∧ ∀ c ∈ w.calls, c.act.isTimeout = false)
   ∨ (w.sp.tcall = .called ∧ w.sp.failure = some .timeout))

theorem getResult_live {w : W} (h : Live w) : getResult w.sp = .noresult := by
  simp [getResult, h.succ, h.fail]

theorem fireD_attached {w : W} (r : Res) (hd : w.u.dres = none) (ha : w.u.attached = true) :
    fireD r w = deliver r { w with u := { w.u with dres := some r } } := by
  unfold fireD; simp [hd, ha]

theorem fireD_unattached {w : W} (r : Res) (hd : w.u.dres = none) (ha : w.u.attached = false) :
    fireD r w = { w with u := { w.u with dres := some r } } := by
  unfold fireD; simp [hd, ha]

theorem deliver_done {w : W} (r : Res) (htc : w.sp.tcall = .pending) (hs : w.sp.success = none)
    (hf : w.sp.failure = none) (hsp : w.sp.spinning = true) (hr : isOwnResult r = true) (hd : w.u.dres ≠ none) :
    Done r (deliver r w) := by
  refine ⟨?_, ?_, Or.inl ⟨by simpa using hd, ?_, ?_⟩⟩
  · unfold deliver
    simp only [htc, stopReactor_crashed]
    cases r <;> simp [hsp]
  · unfold deliver
    simp only [htc]
    cases r <;> simp_all [getResult, isOwnResult]
  · unfold deliver
    simp only [htc, stopReactor_tcall]
    cases r <;> rfl
  · intro c hc
    rw [deliver_calls] at hc
    simp only [htc, if_true, List.mem_filter] at hc
    simpa using hc.2

/-- one "pop the head and run it" step from a live state -/
theorem live_step {w : W} (h : Live w) (c : DCall (QAct Act)) (rest : List (DCall (QAct Act))) :
    let w' := execCall exec c { w with calls := rest }
    match kindQ c.act with
    | .decisive r => Done r w'
    | .stop => Live w' ∧ w'.crashed = true ∧ w'.calls = rest ∧ w'.now = w.now
    | .other => Live w' ∧ w'.crashed = w.crashed ∧ w'.calls = rest ∧ w'.now = w.now := by
  obtain ⟨hatt, hdres, htc, hsucc, hfail, hspin⟩ := h
  rcases c with ⟨t, q⟩
  cases q with
  | timeout =>
    simp only [kindQ, execCall]
    refine ⟨?_, ?_, Or.inr ⟨by simp, by simp⟩⟩
    · simp [execTimeout, stopReactor_crashed, logEvent, hspin]
    · simp [getResult]
  | user l a =>
    cases a with
    | fire v =>
      simp only [kindQ, kindOf, execCall, exec]
      rw [fireD_attached _ (by simpa using hdres) (by simpa using hatt)]
      exact deliver_done _ (by simpa using htc) (by simpa using hsucc) (by simpa using hfail) (by simpa using hspin) rfl (by simp)
    | fail e =>
      simp only [kindQ, kindOf, execCall, exec]
      rw [fireD_attached _ (by simpa using hdres) (by simpa using hatt)]
      exact deliver_done _ (by simpa using htc) (by simpa using hsucc) (by simpa using hfail) (by simpa using hspin) rfl (by simp)
    | stop =>
      simp only [kindQ, kindOf, execCall, exec]
      exact ⟨⟨hatt, hdres, htc, hsucc, hfail, hspin⟩, by simp, by simp, by simp⟩
    | noop =>
      simp only [kindQ, kindOf, execCall, exec]
      exact ⟨⟨hatt, hdres, htc, hsucc, hfail, hspin⟩, by simp, by simp, by simp⟩
    | addSel =>
      simp only [kindQ, kindOf, execCall, exec]
      exact ⟨⟨hatt, hdres, htc, hsucc, hfail, hspin⟩, by simp, by simp, by simp⟩
    | setSig s h =>
      simp only [kindQ, kindOf, execCall, exec]
      exact ⟨⟨hatt, hdres, htc, hsucc, hfail, hspin⟩, by simp, by simp, by simp⟩
    | reenter f =>
      simp only [kindQ, kindOf, execCall, exec]
      exact ⟨⟨hatt, hdres, htc, hsucc, hfail, hspin⟩, by simp, by simp, by simp⟩

theorem done_stopReactor {r : Res} {w : W} (h : Done r w) : Done r (stopReactor w) := by
  obtain ⟨hc, hr, h3⟩ := h
  refine ⟨by simp [stopReactor_crashed, hc], ?_, ?_⟩
  · simpa [getResult] using hr
  · simpa using h3

theorem done_fireD {r r' : Res} {w : W} (h : Done r w) : Done r (fireD r' w) := by
  obtain ⟨hcr, hr, h3⟩ := h
  cases hd : w.u.dres with
  | some x => rw [fireD_of_fired (by simp [hd])]; exact ⟨hcr, hr, h3⟩
  | none =>
    rcases h3 with ⟨a, _, _⟩ | ⟨a, b⟩
    · exact absurd hd a
    · cases ha : w.u.attached with
      | true =>
        rw [fireD_attached _ hd ha, deliver_of_not_pending _ _ (by simp [a])]
        exact ⟨by simp [stopReactor_crashed, hcr], by simpa [getResult] using hr, Or.inr ⟨by simpa using a, by simpa using b⟩⟩
      | false =>
        rw [fireD_unattached _ hd ha]
        exact ⟨hcr, hr, Or.inr ⟨a, b⟩⟩

theorem done_step {r : Res} {w : W} (h : Done r w) (c : DCall (QAct Act)) (rest : List (DCall (QAct Act)))
    (hc : w.calls = c :: rest) : Done r (execCall exec c { w with calls := rest }) := by
  obtain ⟨hcr, hr, h3⟩ := h
  have hsub : ∀ x ∈ rest, x ∈ w.calls := fun x hx => by rw [hc]; exact List.mem_cons_of_mem _ hx
  -- a state with the same spinner / deferred and a smaller queue is still done
  have hbase : ∀ w1 : W, w1.crashed = true → w1.sp = w.sp → w1.u.dres = w.u.dres → (∀ x ∈ w1.calls, x ∈ w.calls) →
      Done r w1 := by
    intro w1 h1 h2 h3' h4
    refine ⟨h1, by rw [h2]; exact hr, ?_⟩
    rcases h3 with ⟨a, b, c'⟩ | ⟨a, b⟩
    · exact Or.inl ⟨by rw [h3']; exact a, by rw [h2]; exact b, fun x hx => c' x (h4 x hx)⟩
    · exact Or.inr ⟨by rw [h2]; exact a, by rw [h2]; exact b⟩
  rcases c with ⟨t, q⟩
  cases q with
  | timeout =>
    -- only possible when the timeout call had been called before (no timeout call is queued after a cancel)
    rcases h3 with ⟨_, _, c'⟩ | ⟨a, b⟩
    · have := c' ⟨t, .timeout⟩ (by rw [hc]; exact List.mem_cons_self)
      simp [QAct.isTimeout] at this
    · refine ⟨by simp [execCall, execTimeout, stopReactor_crashed, hcr], ?_, Or.inr ⟨by simp [execCall], by simp [execCall]⟩⟩
      have : r = .timeout := by rw [← hr]; simp [getResult, b]
      simp [execCall, getResult, this]
  | user l a =>
    simp only [execCall]
    cases a with
    | fire v => exact done_fireD (hbase _ hcr rfl rfl hsub)
    | fail e => exact done_fireD (hbase _ hcr rfl rfl hsub)
    | stop => exact hbase _ rfl rfl rfl hsub
    | noop => exact hbase _ hcr rfl rfl hsub
    | addSel => exact hbase _ hcr rfl rfl hsub
    | setSig s h => exact hbase _ hcr rfl rfl hsub
    | reenter f => exact hbase _ hcr rfl rfl hsub

theorem done_drain {r : Res} : ∀ (n : Nat) (w : W), Done r w → Done r (drain exec n w) :=
  drain_inv exec (Done r) (fun w c rest h hc _ => done_step h c rest hc)

/-- `drain` from a live state: either the result gets decided (as `liveRes` says), or the state stays live
and the head of the queue is not due -/
theorem drain_live : ∀ (n : Nat) (w : W), Live w → w.calls.length ≤ n →
    Done (liveRes w.crashed w.now w.calls) (drain exec n w) ∨
    (Live (drain exec n w) ∧ (drain exec n w).now = w.now
      ∧ (∀ c rest, (drain exec n w).calls = c :: rest → w.now < c.time)
      ∧ liveRes (drain exec n w).crashed w.now (drain exec n w).calls = liveRes w.crashed w.now w.calls
      ∧ (drain exec n w).calls.length ≤ w.calls.length
      ∧ ((drain exec n w).calls.length < w.calls.length ∨ ∀ c rest, w.calls = c :: rest → w.now < c.time))
  | 0, w, h, hn => by
      have : w.calls = [] := List.eq_nil_of_length_eq_zero (by omega)
      right
      exact ⟨h, rfl, by simp [drain, this], rfl, Nat.le_refl _, Or.inr (by simp [this])⟩
  | n + 1, w, h, hn => by
      unfold drain
      split
      · rename_i hc
        right
        exact ⟨h, rfl, by simp [hc], rfl, Nat.le_refl _, Or.inr (by simp [hc])⟩
      · rename_i c rest hc
        split
        · rename_i hle
          have hstep := live_step h c rest
          have hnot : ¬ (w.now < c.time) := by omega
          have hmax : max w.now c.time = w.now := by omega
          rw [hc]
          simp only [liveRes, hnot, decide_false, Bool.and_false, Bool.false_eq_true, if_false, hmax]
          cases hk : kindQ c.act with
          | decisive r =>
            rw [hk] at hstep
            left
            exact done_drain n _ hstep
          | stop =>
            rw [hk] at hstep
            obtain ⟨hl, hcr, hcalls, hnow⟩ := hstep
            have ih := drain_live n _ hl (by rw [hcalls]; simp [hc] at hn; omega)
            rw [hcr, hcalls, hnow] at ih
            rcases ih with ih | ⟨a, b, c', d, e, _⟩
            · left; exact ih
            · right; exact ⟨a, b, c', d, by simp; omega, Or.inl (by simp; omega)⟩
          | other =>
            rw [hk] at hstep
            obtain ⟨hl, hcr, hcalls, hnow⟩ := hstep
            have ih := drain_live n _ hl (by rw [hcalls]; simp [hc] at hn; omega)
            rw [hcr, hcalls, hnow] at ih
            rcases ih with ih | ⟨a, b, c', d, e, _⟩
            · left; exact ih
            · right; exact ⟨a, b, c', d, by simp; omega, Or.inl (by simp; omega)⟩
        · rename_i hnle
          have hnd : ∀ c' rest', c :: rest = c' :: rest' → w.now < c'.time := by
            intro c' rest' hc'
            obtain ⟨rfl, _⟩ := List.cons.inj hc'
            omega
          right
          exact ⟨h, rfl, fun c' rest' hc' => hnd c' rest' (hc ▸ hc'), rfl, Nat.le_refl _, Or.inr (fun c' rest' hc' => hnd c' rest' (hc ▸ hc'))⟩

theorem liveRes_advance (now : Nat) (c : DCall (QAct Act)) (rest : List (DCall (QAct Act))) :
    liveRes false (max now c.time) (c :: rest) = liveRes false now (c :: rest) := by
  simp only [liveRes, Bool.false_and, Bool.false_eq_true, if_false]
  have : max (max now c.time) c.time = max now c.time := by omega
  rw [this]

theorem live_now {w : W} (h : Live w) (t : Nat) : Live { w with now := t } :=
  ⟨h.att, h.dres, h.tc, h.succ, h.fail, h.spinning⟩

abbrev fuelD : W → Nat := fun w => w.calls.length

theorem spin_crashed (n : Nat) (w : W) (h : w.crashed = true) : spin exec fuelD n w = w := by
  cases n with
  | zero => rfl
  | succ n => unfold spin; simp [h]

/-- the loop of `reactor.run()` from a live state ends with the result `liveRes` reads off the queue, and it
ends because the reactor was crashed (or, never under `Spinner.run`, because nothing is left to wait for) -/
theorem spin_live : ∀ (n : Nat) (w : W), Live w → w.calls.length < n →
    (w.crashed = true → ∀ c rest, w.calls = c :: rest → w.now < c.time) →
    getResult (spin exec fuelD n w).sp = liveRes w.crashed w.now w.calls ∧
    ((spin exec fuelD n w).crashed = true ∨ (spin exec fuelD n w).calls = [])
  | 0, _, _, hn, _ => by omega
  | n + 1, w, h, hn, hdue => by
      unfold spin
      split
      · rename_i hcr
        refine ⟨?_, Or.inl hcr⟩
        rw [getResult_live h, hcr]
        cases hc : w.calls with
        | nil => rfl
        | cons c rest => simp [liveRes, hdue hcr c rest hc]
      · rename_i hcr
        have hcr' : w.crashed = false := by simpa using hcr
        split
        · rename_i hc
          exact ⟨by rw [getResult_live h, hc]; rfl, Or.inr hc⟩
        · rename_i c rest hc
          obtain ⟨w1, hw1⟩ : ∃ w1 : W, w1 = { w with now := max w.now c.time } := ⟨_, rfl⟩
          have hl1 : Live w1 := hw1 ▸ live_now h _
          have hc1 : w1.calls = c :: rest := by rw [hw1]; exact hc
          have hcr1 : w1.crashed = false := by rw [hw1]; exact hcr'
          have hn1 : w1.now = max w.now c.time := by rw [hw1]
          rw [← hw1]
          have hd := drain_live (fuelD w1) w1 hl1 (Nat.le_refl _)
          rw [hcr1, hc1, hn1, liveRes_advance] at hd
          rw [hcr', hc]
          rcases hd with hd | ⟨a, b, c', d, e, f⟩
          · -- decided: the loop stops at once
            rw [spin_crashed n _ hd.1]
            exact ⟨hd.2.1, Or.inl hd.1⟩
          · -- still live: at least the head has been consumed
            have hlt : (drain exec (fuelD w1) w1).calls.length < (c :: rest).length := by
              rcases f with f | f
              · exact f
              · have := f c rest rfl
                omega
            have ih := spin_live n _ a (by rw [hc] at hn; omega)
              (by intro _ c2 rest2 hc2; rw [b]; exact c' c2 rest2 hc2)
            rw [b] at ih
            rw [ih.1, d]
            exact ⟨rfl, ih.2⟩

end TTV.Props.C15
