import TTV.Props.C01
import TTV.Spec.C02
import TTV.Lemmas.RunRestore
import TTV.Lemmas.RunRerun
import TTV.Lemmas.RunOnce
/-! # C02 — stages in order; every cleanup exactly once, LIFO; nothing left registered; patches undone;
re-running the instance repeats the same sequence and outcome

Same quantifier as C01 (`Props/C01.lean`): every program (any nesting of cleanups / fixtures / patches, any
exception kinds in any stages, decorators, handler tables, flavours), every left-over `force_failure`, any
number of repeated runs.  Hypothesis `wf p` (`Spec/RunCommon.lean`): distinct stage ids, user handlers only for
`Exception` subclasses, the initial attribute store is a dict (distinct attribute names) — its further
conjuncts (about detail names and content identities) concern C05 only. -/
namespace TTV.Props.C02
open TTV.Run TTV.Spec.Run TTV.Spec.C02

/-! ## per-run clauses on the model's trace -/
section perRun
variable (p : Program) (ff0 : Bool) (hwf : wf p = true)
include hwf

theorem clause_empty : cEmpty p ff0 (runOnce p ff0) = true := by
  cases hskip : p.skipDeco with
  | some r => simp [cEmpty, runOnce, hskip]
  | none =>
    obtain ⟨o, d, r, sel, _, hshape⟩ := runOnce_shape p ff0 hwf hskip
    rw [hshape]; simp [cEmpty]

/-- after the run the attribute store is, as a finite map, the one before the run -/
theorem attrs_restored (hskip : p.skipDeco = none) (k : Nat) : aget (runCore p ff0).1.attrs k = aget p.attrs0 k := by
  have h2 := runCore_inv2 p ff0 hwf
  have cf := runCore_facts p ff0 hwf hskip
  have := h2.undo k
  rw [cf.stack] at this
  exact this

theorem clause_attrs : cAttrs p ff0 (runOnce p ff0) = true := by
  cases hskip : p.skipDeco with
  | some r => simp [cAttrs, runOnce, hskip]
  | none =>
    obtain ⟨o, d, r, sel, _, hshape⟩ := runOnce_shape p ff0 hwf hskip
    rw [hshape]
    simp only [cAttrs, beq_iff_eq]
    have hk0 : keysNodup p.attrs0 := wf_attrs p hwf
    exact sortAttrs_eq_of_aget_eq _ _ (runCore_inv2 p ff0 hwf).keys hk0 (attrs_restored p ff0 hwf hskip)

end perRun

/-! ## repeated runs -/

/-- some executed stage has a mismatching `expectThat` (does not depend on the left-over flag) -/
def expects (p : Program) : Bool := (runCore p false).1.execd.any hasExpect

theorem runCore_ff (p : Program) (ff0 : Bool) (hwf : wf p = true) (hskip : p.skipDeco = none) :
    (runCore p ff0).1.ff = (ff0 || expects p) := by
  rw [(runCore_facts p ff0 hwf hskip).ff, (runCore_agree p ff0 false).1]; rfl

/-- `force_failure` is read only through `ff0 || expects p` -/
theorem runOnce_congr (p : Program) (a b : Bool) (hwf : wf p = true) (hskip : p.skipDeco = none)
    (h : (a || expects p) = (b || expects p)) : runOnce p a = runOnce p b := by
  have : runCore p a = runCore p b :=
    (runCore_agree p a b).2 (by rw [runCore_ff p a hwf hskip, runCore_ff p b hwf hskip, h])
  unfold runOnce
  simp only [hskip, this]

theorem runOnce_ffAfter (p : Program) (ff0 : Bool) (hwf : wf p = true) (hskip : p.skipDeco = none) :
    (runOnce p ff0).ffAfter = (ff0 || expects p) := by
  obtain ⟨o, d, r, sel, _, hshape⟩ := runOnce_shape p ff0 hwf hskip
  rw [hshape]; exact runCore_ff p ff0 hwf hskip

theorem sameRun_refl (t : Trace) : sameRun t t = true := by simp [sameRun]

theorem rerun_noskip (p : Program) (hwf : wf p = true) (hskip : p.skipDeco = none) :
    ∀ (n : Nat) (ff0 : Bool), (ff0 = true → expects p = true) →
      (runMany p n ff0).all (sameRun (runOnce p false)) = true
  | 0, _, _ => rfl
  | n + 1, ff0, h => by
    have heq : runOnce p ff0 = runOnce p false := by
      apply runOnce_congr p ff0 false hwf hskip
      cases ff0 <;> simp_all
    simp only [runMany, List.all_cons, heq, sameRun_refl, Bool.true_and]
    apply rerun_noskip p hwf hskip n
    rw [runOnce_ffAfter p false hwf hskip]
    simp

theorem rerun_skip (p : Program) (r : Nat) (hskip : p.skipDeco = some r) :
    ∀ (n : Nat) (ff0 : Bool), (runMany p n ff0).all (sameRun (runOnce p false)) = true
  | 0, _ => rfl
  | n + 1, ff0 => by
    simp only [runMany, List.all_cons, rerun_skip p r hskip n, Bool.and_true]
    simp [sameRun, runOnce, hskip]

theorem rerun_all (p : Program) (hwf : wf p = true) (n : Nat) :
    (runMany p n (runOnce p false).ffAfter).all (sameRun (runOnce p false)) = true := by
  cases hskip : p.skipDeco with
  | some r => exact rerun_skip p r hskip n _
  | none =>
    apply rerun_noskip p hwf hskip n
    rw [runOnce_ffAfter p false hwf hskip]; simp

theorem clause_rerun (i : Input) : cRerun i (model i) = true := by
  unfold cRerun model
  cases hwf : wf i.prog with
  | false => rfl
  | true =>
    cases i.runs with
    | zero => rfl
    | succ n => simpa [runMany] using rerun_all i.prog hwf n

/-! ## headline -/
/-- the executable spec of C02 holds of the model's trace for every input -/
theorem holds_model (i : Input) : holds i (model i) = true := by
  simp only [holds, clauses, List.all_cons, List.all_nil, Bool.and_true, Bool.and_eq_true]
  exact ⟨C01.lift_model _ i (fun hwf ff0 => C01.clause_stages _ ff0 hwf),
    C01.lift_model _ i (fun hwf ff0 => clause_empty _ ff0 hwf),
    C01.lift_model _ i (fun hwf ff0 => clause_attrs _ ff0 hwf), clause_rerun i⟩

/-! ## readable statements -/

/-- C02 (order): the stages of a run are setUp; then the test method and tearDown iff setUp completed
(returned without raising); then only cleanups (stages registered by `addCleanup` / `useFixture` at any
depth) — whatever any stage raises. -/
theorem C02_order (p : Program) (ff0 : Bool) (hwf : wf p = true) (hskip : p.skipDeco = none) :
    ∃ cleanups : List Stage, (∀ c ∈ cleanups, c ∈ nested p) ∧
      stageIds (runOnce p ff0) =
        (if setUpOk p then [p.setUp.id, p.body.id, p.tearDown.id] else [p.setUp.id]) ++ cleanups.map Stage.id := by
  obtain ⟨o, d, r, sel, _, hshape⟩ := runOnce_shape p ff0 hwf hskip
  obtain ⟨l, hl, hn⟩ := runCore_execd p ff0 hwf
  refine ⟨l, hn, ?_⟩
  rw [hshape, (reads_of p ff0 hwf hskip _ _ _ _ _ _).ids, hl, mainStages]
  split <;> simp

/-- C02 (order, corollary): the test method runs iff setUp completed, and then exactly once; likewise
tearDown. -/
theorem C02_order_iff (p : Program) (ff0 : Bool) (hwf : wf p = true) (hskip : p.skipDeco = none) :
    (stageIds (runOnce p ff0)).count p.body.id = (if setUpOk p then 1 else 0) ∧
    (stageIds (runOnce p ff0)).count p.tearDown.id = (if setUpOk p then 1 else 0) := by
  obtain ⟨l, hn, hids⟩ := C02_order p ff0 hwf hskip
  have hnd := wf_nodup p hwf
  have hb : (l.map Stage.id).count p.body.id = 0 := by
    rw [List.count_eq_zero]
    intro hm
    obtain ⟨c, hc, he⟩ := List.mem_map.mp hm
    exact nested_id_ne_body p hwf c (hn c hc) he
  -- tearDown's id differs from every nested id and from setUp's and the test method's
  have hall : (allStages p).Perm (p.tearDown :: (p.setUp :: stagesOfActs p.setUp.acts ++ (p.body :: stagesOfActs p.body.acts)
      ++ stagesOfActs p.tearDown.acts)) := by
    rw [allStages_eq]
    simp only [List.append_assoc, List.cons_append]
    have := List.perm_middle (a := p.tearDown)
      (l₁ := p.setUp :: (stagesOfActs p.setUp.acts ++ p.body :: stagesOfActs p.body.acts))
      (l₂ := stagesOfActs p.tearDown.acts)
    simpa [List.append_assoc] using this
  have hnd' := (hall.map Stage.id).nodup hnd
  simp only [List.map_cons, List.nodup_cons] at hnd'
  have htd : ∀ x : Stage, x ∈ nested p ∨ x = p.setUp ∨ x = p.body → x.id ≠ p.tearDown.id := by
    intro x hx he
    apply hnd'.1
    rw [← he]
    apply List.mem_map_of_mem
    simp only [nested, List.mem_append] at hx
    simp only [List.mem_append, List.mem_cons]
    rcases hx with ((hx | hx) | hx) | rfl | rfl
    · exact Or.inl (Or.inl (Or.inr hx))
    · exact Or.inl (Or.inr (Or.inr hx))
    · exact Or.inr hx
    · exact Or.inl (Or.inl (Or.inl rfl))
    · exact Or.inl (Or.inr (Or.inl rfl))
  have ht : (l.map Stage.id).count p.tearDown.id = 0 := by
    rw [List.count_eq_zero]
    intro hm
    obtain ⟨c, hc, he⟩ := List.mem_map.mp hm
    exact htd c (Or.inl (hn c hc)) he
  have h1 := setUp_id_ne_body p hwf
  have h2 := tearDown_id_ne_body p hwf
  have h3 := htd p.setUp (Or.inr (Or.inl rfl))
  rw [hids]
  cases setUpOk p
  · simp [hb, ht, h1, h3]
  · simp [hb, ht, h1, h2, h3, Ne.symm h2]

/-- C02 (every cleanup exactly once): the cleanups executed in a run (ghost record `ran`: stages, fixture
detail gathering, attribute restores) are, as a multiset, exactly the cleanups registered at any time during
the run (ghost record `regd`: in setUp, the test method, tearDown, inside cleanups, by `patch`, by
`useFixture`) — whatever was raised. -/
theorem C02_cleanups_once (p : Program) (ff0 : Bool) (hwf : wf p = true) (hskip : p.skipDeco = none) :
    (runCore p ff0).1.ran.Perm (runCore p ff0).1.regd := by
  have h2 := (runCore_inv2 p ff0 hwf).once
  rw [(runCore_facts p ff0 hwf hskip).stack] at h2
  simpa [pendingRan] using h2

/-- C02 (at most once, on the trace): no stage — setUp, test method, tearDown, any cleanup at any depth — occurs
twice in the stage sequence of a run (with `C02_lifo`: every registered cleanup stage runs exactly once). -/
theorem C02_each_stage_once (p : Program) (ff0 : Bool) (hwf : wf p = true) : (stageIds (runOnce p ff0)).Nodup := by
  cases hskip : p.skipDeco with
  | some r =>
    have := C01.clause_stages p ff0 hwf
    simp only [Spec.C01.cStages, hskip, Option.isSome_some, if_true, List.isEmpty_iff] at this
    rw [this]; exact List.nodup_nil
  | none =>
    obtain ⟨o, d, r, sel, _, hshape⟩ := runOnce_shape p ff0 hwf hskip
    rw [hshape, (reads_of p ff0 hwf hskip _ _ _ _ _ _).ids]
    exact runCore_execd_nodup p ff0 hwf

/-- C02 (LIFO): the sequence of executed stages is accepted by the spec's stack machine — each executed
cleanup is, at that moment, the most recently registered pending one, and none is pending at the end. -/
theorem C02_lifo (p : Program) (ff0 : Bool) (hwf : wf p = true) :
    Spec.C01.cStages p ff0 (runOnce p ff0) = true := C01.clause_stages p ff0 hwf

/-- C02 (nothing left): no cleanup is left registered after the run. -/
theorem C02_empty (p : Program) (ff0 : Bool) (hwf : wf p = true) : (runOnce p ff0).stackAfter = 0 := by
  simpa [cEmpty] using clause_empty p ff0 hwf

/-- C02 (patches restored): after the run the attributes are those before the run (existing attributes
have their old values, attributes that did not exist are gone), however many times an attribute was patched
and wherever (setUp, test method, tearDown, cleanups). -/
theorem C02_patch_restored (p : Program) (ff0 : Bool) (hwf : wf p = true) :
    (runOnce p ff0).attrsAfter = sortAttrs p.attrs0 := by
  simpa [cAttrs] using clause_attrs p ff0 hwf

/-- C02 (re-run): every further run of the same instance produces the same events (stages, handler calls,
result calls with their details) and propagates the same exception as the first — including the effect of
`force_failure`, which `_reset` does not clear. -/
theorem C02_rerun (p : Program) (hwf : wf p = true) (n : Nat) :
    ∀ t ∈ runMany p n false, t.events = (runOnce p false).events ∧ t.raised = (runOnce p false).raised := by
  intro t ht
  cases n with
  | zero => simp [runMany] at ht
  | succ n =>
    simp only [runMany, List.mem_cons] at ht
    rcases ht with rfl | ht
    · exact ⟨rfl, rfl⟩
    · have := List.all_eq_true.mp (rerun_all p hwf n) t ht
      simp only [sameRun, Bool.and_eq_true, beq_iff_eq] at this
      exact ⟨this.1.symm, this.2.symm⟩

/-! ## non-vacuity: patches of an existing and of an absent attribute, a cleanup registering a cleanup, a
fixture, a mismatching `expectThat` (sets `force_failure`), a failing tearDown -/
def demo : Program :=
  { skipDeco := none, xfailDeco := false
    setUp := .mk 1 [.patch 0 5, .cleanup (.mk 4 [.patch 1 6, .cleanup (.mk 5 [] (.raise1 ⟨.exc, 7⟩))] .ret)] .ret
    body := .mk 2 [.useFixture 0 [] (.mk 6 [] .ret), .expect 0 [], .patch 0 8] (.raise1 ⟨.failure, 1⟩)
    tearDown := .mk 3 [] (.raise1 ⟨.ki, 2⟩)
    userHandlers := [], nOnExc := 1, attrs0 := [(0, 10)], flavour := .ext }

example : wf demo = true ∧ demo.skipDeco = none ∧ setUpOk demo = true := by decide

/-! ### tie to the source: the loop of `RunTest._run_cleanups`
`TTV.Generated.RunSkel.cleanupsShape` is produced by `harness/pyskel.py` from `testtools/runtest.py` on every run. -/
/-- the loop found in the source is the one `runCleanups` models: pop the live stack until it is empty, each cleanup
through `_run_user`, failure sticky (shape recognition: any other loop is reported as `other`) -/
theorem C02_src_run_cleanups : Generated.RunSkel.cleanupsShape = RunSkel.CleanupsShape.liveStackLifo := by decide

end TTV.Props.C02
