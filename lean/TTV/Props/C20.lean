import TTV.Model.Deferred
import TTV.Spec.C20
import TTV.Lemmas.DeferredSkel
import TTV.Generated.DeferredSrc
/-! # C20 — Deferred matchers classify fired/failed/unfired without firing anything

Property theorems (kept apart from the model `TTV/Model/Deferred.lean`).  All statements are for **every** state of
the Deferred (any pending callbacks, any probes) and every history of fire / add-callback / resume / match /
classify / extract operations, and every inner matcher of the model's alphabet.

* `holds_model`          : the executable spec `Spec.C20.holds` is true of the model's trace (headline) — i.e. the
                           matchers *as implemented* (capturing callbacks, `addErrback`) refine their declaration
* `C20_trichotomy`, `C20_noResult_iff`, `C20_succeeded_iff`, `C20_failed_iff` : verdicts
* `C20_extract`          : `extract_result`
* `C20_rematch_*`      : what a second (third, …) matcher on the same Deferred sees
* `C20_passive_*`, `C20_invisible` : matching never fires, changes nothing but a handled failure, and is invisible
                           to every later operation
* `C20_sync_runner*`     : `SynchronousDeferredRunTest._run_user`
-/
namespace TTV.Props.C20
open TTV.Deferred TTV.Spec.C20

/-! ## one matching step -/

theorem add_fired (d : D) (r : Res) (cb : Cb) (h : d.st = .fired r) : add d cb = (runCbs [cb] r d.seen, some r) := by
  simp [add, h]

theorem add_pending (d : D) (cb : Cb) (h : ∀ r, d.st ≠ .fired r) : add d cb = ({ d with cbs := d.cbs ++ [cb] }, none) := by
  unfold add
  split
  · rename_i r hr; exact absurd hr (h r)
  · rfl

theorem run_capture (r : Res) (seen : List (Nat × Res)) : runCbs [captureCb] r seen = ⟨.fired r, [], seen⟩ := by
  cases r <;> simp [runCbs, captureCb, Cb.act, applyAct, note]

theorem run_handle_fail (e : Nat) (seen : List (Nat × Res)) :
    runCbs [handleCb] (.fail e) seen = ⟨.fired (.ok .none), [], seen⟩ := by
  simp [runCbs, handleCb, Cb.act, applyAct, note]

theorem run_extract (r : Res) (seen : List (Nat × Res)) :
    runCbs [extractCb] r seen = ⟨.fired (.ok .none), [], seen⟩ := by
  cases r <;> simp [runCbs, extractCb, Cb.act, applyAct, note]

/-- what `matcher.match(deferred)` does, by state -/
theorem matchOp_pending (m : Matcher) (d : D) (h : ∀ r, d.st ≠ .fired r) :
    matchOp m d = ({ d with cbs := d.cbs ++ [captureCb] }, declVerdict m d.st) := by
  simp only [matchOp, add_pending d captureCb h]
  cases hs : d.st with
  | fired r => exact absurd hs (h r)
  | unfired => cases m <;> simp [declVerdict]
  | paused => cases m <;> simp [declVerdict]

theorem matchOp_ok (m : Matcher) (d : D) (v : Val) (h : d.st = .fired (.ok v)) :
    matchOp m d = (⟨.fired (.ok v), [], d.seen⟩, declVerdict m d.st) := by
  simp only [matchOp, add_fired d _ captureCb h, run_capture, h]
  cases m <;> simp [declVerdict]

theorem matchOp_fail_noResult (d : D) (e : Nat) (h : d.st = .fired (.fail e)) :
    matchOp .noResult d = (⟨.fired (.fail e), [], d.seen⟩, false) := by
  simp only [matchOp, add_fired d _ captureCb h, run_capture]

theorem matchOp_fail_succeeded (vm : VM) (d : D) (e : Nat) (h : d.st = .fired (.fail e)) :
    matchOp (.succeeded vm) d = (⟨.fired (.ok .none), [], d.seen⟩, false) := by
  simp only [matchOp, add_fired d _ captureCb h, run_capture]
  simp [add, run_handle_fail]

theorem matchOp_fail_failed (fm : FM) (d : D) (e : Nat) (h : d.st = .fired (.fail e)) :
    matchOp (.failed fm) d = (⟨.fired (.ok .none), [], d.seen⟩, fm.eval e) := by
  simp only [matchOp, add_fired d _ captureCb h, run_capture]
  simp [add, run_handle_fail]

/-- the verdict of every matcher is the declared function of the state -/
theorem matchOp_verdict (m : Matcher) (d : D) : (matchOp m d).2 = declVerdict m d.st := by
  cases hs : d.st with
  | unfired => rw [matchOp_pending m d (by simp [hs])]; simp [hs]
  | paused => rw [matchOp_pending m d (by simp [hs])]; simp [hs]
  | fired r =>
    cases r with
    | ok v => rw [matchOp_ok m d v hs]; simp [hs]
    | fail e =>
      cases m with
      | noResult => rw [matchOp_fail_noResult d e hs]; simp [declVerdict]
      | succeeded vm => rw [matchOp_fail_succeeded vm d e hs]; simp [declVerdict]
      | failed fm => rw [matchOp_fail_failed fm d e hs]; simp [declVerdict]

/-! ## verdicts -/

/-- C20 (no result): `has_no_result()` matches iff the Deferred has no current result (not fired, or waiting
for a chained Deferred). -/
theorem C20_noResult_iff (d : D) : (matchOp .noResult d).2 = true ↔ (d.st = .unfired ∨ d.st = .paused) := by
  rw [matchOp_verdict]; cases d.st <;> simp [declVerdict]

/-- C20 (succeeded): `succeeded(m)` matches iff the Deferred has fired with a value `v` and `m` matches `v`. -/
theorem C20_succeeded_iff (vm : VM) (d : D) :
    (matchOp (.succeeded vm) d).2 = true ↔ ∃ v, d.st = .fired (.ok v) ∧ vm.eval v = true := by
  rw [matchOp_verdict]
  cases hs : d.st with
  | fired r => cases r <;> simp [declVerdict]
  | _ => simp [declVerdict]

/-- C20 (failed): `failed(m)` matches iff the Deferred has fired with a failure and `m` matches it. -/
theorem C20_failed_iff (fm : FM) (d : D) :
    (matchOp (.failed fm) d).2 = true ↔ ∃ e, d.st = .fired (.fail e) ∧ fm.eval e = true := by
  rw [matchOp_verdict]
  cases hs : d.st with
  | fired r => cases r <;> simp [declVerdict]
  | _ => simp [declVerdict]

/-- C20 (trichotomy): for every Deferred exactly one of `has_no_result()`, `succeeded(Always())`,
`failed(Always())` matches. -/
theorem C20_trichotomy (d : D) :
    exactlyOne (matchOp .noResult d).2 (matchOp (.succeeded .always) d).2 (matchOp (.failed .always) d).2 = true := by
  simp only [matchOp_verdict]
  cases hs : d.st with
  | fired r => cases r <;> simp [declVerdict, exactlyOne, VM.eval, FM.eval]
  | _ => simp [declVerdict, exactlyOne]

/-- C20 (extract): `extract_result` returns the value, raises the failure's exception, or raises `DeferredNotFired`. -/
theorem C20_extract (d : D) :
    (extractOp d).2 = (match d.st with
      | .fired (.ok v) => Extracted.value v
      | .fired (.fail e) => .raised e
      | _ => .notFired) := by
  cases hs : d.st with
  | unfired => simp [extractOp, add_pending d extractCb (by simp [hs])]
  | paused => simp [extractOp, add_pending d extractCb (by simp [hs])]
  | fired r => cases r <;> simp [extractOp, add_fired d _ extractCb hs]

/-! ## matching is passive -/

/-- C20 (never fires): matching leaves `called` as it was. -/
theorem C20_passive_never_fires (m : Matcher) (d : D) : (matchOp m d).1.called = d.called := by
  cases hs : d.st with
  | unfired => rw [matchOp_pending m d (by simp [hs])]; simp [D.called, hs]
  | paused => rw [matchOp_pending m d (by simp [hs])]; simp [D.called, hs]
  | fired r =>
    cases r with
    | ok v => rw [matchOp_ok m d v hs]; simp [D.called, hs]
    | fail e =>
      cases m with
      | noResult => rw [matchOp_fail_noResult d e hs]; simp [D.called, hs]
      | succeeded vm => rw [matchOp_fail_succeeded vm d e hs]; simp [D.called, hs]
      | failed fm => rw [matchOp_fail_failed fm d e hs]; simp [D.called, hs]

/-- C20 (unfired unchanged): on a Deferred without a result the only effect is one more pass-through callback. -/
theorem C20_passive_unfired (m : Matcher) (d : D) (h : d.st = .unfired ∨ d.st = .paused) :
    (matchOp m d).1 = { d with cbs := d.cbs ++ [captureCb] } := by
  rw [matchOp_pending m d (by rcases h with h | h <;> simp [h])]

/-- C20 (value intact): a successful result is still that result afterwards, whatever the matcher. -/
theorem C20_passive_value_intact (m : Matcher) (d : D) (v : Val) (h : d.st = .fired (.ok v)) :
    (matchOp m d).1.st = .fired (.ok v) ∧ (matchOp m d).1.seen = d.seen := by
  rw [matchOp_ok m d v h]; exact ⟨rfl, rfl⟩

/-- C20 (failure handled): after `succeeded(m)` or `failed(m)` inspected a failure the result is not a failure any more
(nothing to log at collection); after `has_no_result()` it still is. -/
theorem C20_passive_failure (m : Matcher) (d : D) (e : Nat) (h : d.st = .fired (.fail e)) :
    isFailed (matchOp m d).1 = (match m with | .noResult => true | _ => false) := by
  cases m with
  | noResult => rw [matchOp_fail_noResult d e h]; rfl
  | succeeded vm => rw [matchOp_fail_succeeded vm d e h]; rfl
  | failed fm => rw [matchOp_fail_failed fm d e h]; rfl

/-! ## repetition: what a second matcher sees

The statement's "leaves an unfired Deferred and a successful result intact" and "a failure inspected … is marked
handled" are claims about *one* `match`; read under repetition they say what the next matcher on the same Deferred
sees.  These theorems make that explicit for every pair of matchers and every state. -/

/-- the result state after `matcher.match(deferred)`, for every matcher and state: unchanged, except that a failure
inspected by `succeeded` / `failed` has become a successful `None` (the swallowing errback) -/
theorem matchOp_st (m : Matcher) (d : D) :
    (matchOp m d).1.st = (match d.st, m with
      | .fired (.fail e), .noResult => .fired (.fail e)
      | .fired (.fail _), _ => .fired (.ok .none)
      | s, _ => s) := by
  cases hs : d.st with
  | unfired => rw [matchOp_pending m d (by simp [hs])]; simp [hs]
  | paused => rw [matchOp_pending m d (by simp [hs])]; simp [hs]
  | fired r =>
    cases r with
    | ok v => rw [matchOp_ok m d v hs]
    | fail e =>
      cases m with
      | noResult => rw [matchOp_fail_noResult d e hs]
      | succeeded vm => rw [matchOp_fail_succeeded vm d e hs]
      | failed fm => rw [matchOp_fail_failed fm d e hs]

/-- C20 (repetition, intact): unless the first matcher inspected a failure, a second matcher — any matcher — gives
exactly the verdict it would have given on the untouched Deferred. -/
theorem C20_rematch_stable (m m' : Matcher) (d : D)
    (h : (∀ e, d.st ≠ .fired (.fail e)) ∨ m = .noResult) :
    (matchOp m' (matchOp m d).1).2 = (matchOp m' d).2 := by
  rw [matchOp_verdict, matchOp_verdict, matchOp_st]
  cases hs : d.st with
  | unfired => rfl
  | paused => rfl
  | fired r =>
    cases r with
    | ok v => rfl
    | fail e =>
      rcases h with h | h
      · exact absurd hs (h e)
      · subst h; rfl

/-- C20 (repetition, handled): after `succeeded(m)` or `failed(m)` inspected a failure, every later matcher sees a
Deferred that fired with the value `None` — so `failed(Always())` matches a failed Deferred once, not twice. -/
theorem C20_rematch_after_handled (m m' : Matcher) (d : D) (e : Nat)
    (hs : d.st = .fired (.fail e)) (hm : m ≠ .noResult) :
    (matchOp m' (matchOp m d).1).2 = declVerdict m' (.fired (.ok .none)) := by
  rw [matchOp_verdict, matchOp_st, hs]
  cases m with
  | noResult => exact absurd rfl hm
  | succeeded vm => rfl
  | failed fm => rfl

/-- C20 (repetition, trichotomy again): whatever was matched before, in whatever number, exactly one of the three
classes matches afterwards, and none of it fired the Deferred. -/
theorem C20_rematch_trichotomy (ms : List Matcher) (d : D) :
    let d' := ms.foldl (fun d m => (matchOp m d).1) d
    exactlyOne (matchOp .noResult d').2 (matchOp (.succeeded .always) d').2 (matchOp (.failed .always) d').2 = true
      ∧ d'.called = d.called := by
  induction ms generalizing d with
  | nil => exact ⟨C20_trichotomy d, rfl⟩
  | cons m ms ih =>
    have := ih (matchOp m d).1
    simp only [List.foldl_cons]
    exact ⟨this.1, this.2.trans (C20_passive_never_fires m d)⟩

-- non-vacuity: a failed Deferred, `failed(Always())` twice: matches, then does not
example : (matchOp (.failed .always) ⟨.fired (.fail 1), [], []⟩).2 = true
    ∧ (matchOp (.failed .always) (matchOp (.failed .always) ⟨.fired (.fail 1), [], []⟩).1).2 = false
    ∧ (matchOp (.succeeded .always) (matchOp (.failed .always) ⟨.fired (.fail 1), [], []⟩).1).2 = true := by decide
-- and `has_no_result()` in between changes nothing
example : (matchOp (.failed .always) (matchOp .noResult ⟨.fired (.fail 1), [], []⟩).1).2 = true := by decide

/-! ## simulation: the implementation's extra callbacks are invisible -/

/-- `Ins l l'`: `l'` is `l` with capturing pass-through callbacks inserted -/
inductive Ins : List Cb → List Cb → Prop
  | nil : Ins [] []
  | cons (c : Cb) {l l' : List Cb} : Ins l l' → Ins (c :: l) (c :: l')
  | ins {l l' : List Cb} : Ins l l' → Ins l (captureCb :: l')

theorem Ins.refl : ∀ l : List Cb, Ins l l
  | [] => .nil
  | c :: l => .cons c (Ins.refl l)

theorem Ins.append_one {l l' : List Cb} (h : Ins l l') (c : Cb) : Ins (l ++ [c]) (l' ++ [c]) := by
  induction h with
  | nil => exact .cons c .nil
  | cons x _ ih => exact .cons x ih
  | ins _ ih => exact .ins ih

theorem Ins.append_capture {l l' : List Cb} (h : Ins l l') : Ins l (l' ++ [captureCb]) := by
  induction h with
  | nil => exact .ins .nil
  | cons x _ ih => exact .cons x ih
  | ins _ ih => exact .ins ih

/-- the declared state `d` and the implementation's state `d'` agree up to capturing callbacks
(pending callbacks do not matter once there is a result: they have been consumed) -/
def Rel (d d' : D) : Prop :=
  d.st = d'.st ∧ d.seen = d'.seen ∧ ((∀ r, d.st ≠ .fired r) → Ins d.cbs d'.cbs)

theorem Rel.refl (d : D) : Rel d d := ⟨rfl, rfl, fun _ => Ins.refl _⟩

theorem runCbs_ins {l l' : List Cb} (h : Ins l l') : ∀ (r : Res) (seen : List (Nat × Res)),
    Rel (runCbs l r seen) (runCbs l' r seen) := by
  induction h with
  | nil => intro r seen; exact Rel.refl _
  | cons c hl ih =>
    intro r seen
    simp only [runCbs]
    cases applyAct (c.act r) r with
    | some r' => exact ih r' _
    | none => exact ⟨rfl, rfl, fun _ => hl⟩
  | @ins l l' _ ih =>
    intro r seen
    have : runCbs (captureCb :: l') r seen = runCbs l' r seen := by
      cases r <;> simp [runCbs, captureCb, Cb.act, applyAct, note]
    rw [this]
    exact ih r seen

theorem rel_fired {d d' : D} (h : Rel d d') (r : Res) (hs : d.st = .fired r) : d'.st = .fired r := by rw [← h.1, hs]

theorem rel_add {d d' : D} (h : Rel d d') (cb : Cb) : Rel (add d cb).1 (add d' cb).1 ∧ (add d cb).2 = (add d' cb).2 := by
  cases hs : d.st with
  | fired r =>
    rw [add_fired d r cb hs, add_fired d' r cb (rel_fired h r hs), h.2.1]
    exact ⟨Rel.refl _, rfl⟩
  | unfired =>
    have hp : ∀ r, d.st ≠ .fired r := by simp [hs]
    have hp' : ∀ r, d'.st ≠ .fired r := by rw [← h.1]; exact hp
    rw [add_pending d cb hp, add_pending d' cb hp']
    exact ⟨⟨h.1, h.2.1, fun _ => (h.2.2 hp).append_one cb⟩, rfl⟩
  | paused =>
    have hp : ∀ r, d.st ≠ .fired r := by simp [hs]
    have hp' : ∀ r, d'.st ≠ .fired r := by rw [← h.1]; exact hp
    rw [add_pending d cb hp, add_pending d' cb hp']
    exact ⟨⟨h.1, h.2.1, fun _ => (h.2.2 hp).append_one cb⟩, rfl⟩

theorem rel_fire {d d' : D} (h : Rel d d') (r : Res) : Rel (fire d r).1 (fire d' r).1 ∧ (fire d r).2 = (fire d' r).2 := by
  cases hs : d.st with
  | unfired =>
    have hs' : d'.st = .unfired := by rw [← h.1, hs]
    simp only [fire, hs, hs', h.2.1.symm]
    exact ⟨runCbs_ins (h.2.2 (by simp [hs])) r d.seen, trivial⟩
  | paused =>
    have hs' : d'.st = .paused := by rw [← h.1, hs]
    simp only [fire, hs, hs']; exact ⟨h, trivial⟩
  | fired x =>
    have hs' : d'.st = .fired x := by rw [← h.1, hs]
    simp only [fire, hs, hs']; exact ⟨h, trivial⟩

theorem rel_resume {d d' : D} (h : Rel d d') (r : Res) :
    Rel (resume d r).1 (resume d' r).1 ∧ (resume d r).2 = (resume d' r).2 := by
  cases hs : d.st with
  | paused =>
    have hs' : d'.st = .paused := by rw [← h.1, hs]
    simp only [resume, hs, hs', h.2.1.symm]
    exact ⟨runCbs_ins (h.2.2 (by simp [hs])) r d.seen, trivial⟩
  | unfired =>
    have hs' : d'.st = .unfired := by rw [← h.1, hs]
    simp only [resume, hs, hs']; exact ⟨h, trivial⟩
  | fired x =>
    have hs' : d'.st = .fired x := by rw [← h.1, hs]
    simp only [resume, hs, hs']; exact ⟨h, trivial⟩

/-- matching, as implemented, against its declaration -/
theorem rel_match {d d' : D} (h : Rel d d') (m : Matcher) : Rel (declAfter m d) (matchOp m d').1 := by
  cases hs : d.st with
  | unfired =>
    have hp' : ∀ r, d'.st ≠ .fired r := by rw [← h.1]; simp [hs]
    rw [matchOp_pending m d' hp']
    have : declAfter m d = d := by cases m <;> simp [declAfter, hs]
    rw [this]
    exact ⟨h.1, h.2.1, fun hp => (h.2.2 hp).append_capture⟩
  | paused =>
    have hp' : ∀ r, d'.st ≠ .fired r := by rw [← h.1]; simp [hs]
    rw [matchOp_pending m d' hp']
    have : declAfter m d = d := by cases m <;> simp [declAfter, hs]
    rw [this]
    exact ⟨h.1, h.2.1, fun hp => (h.2.2 hp).append_capture⟩
  | fired r =>
    have hs' := rel_fired h r hs
    cases r with
    | ok v =>
      rw [matchOp_ok m d' v hs']
      have : declAfter m d = d := by cases m <;> simp [declAfter, hs]
      rw [this]
      exact ⟨hs, h.2.1, fun hp => absurd hs (hp _)⟩
    | fail e =>
      cases m with
      | noResult =>
        rw [matchOp_fail_noResult d' e hs']
        exact ⟨by simp [declAfter, hs], h.2.1, fun hp => absurd hs (hp _)⟩
      | succeeded vm =>
        rw [matchOp_fail_succeeded vm d' e hs']
        exact ⟨by simp [declAfter, hs], by simpa [declAfter, hs] using h.2.1, fun hp => by simp [declAfter, hs] at hp⟩
      | failed fm =>
        rw [matchOp_fail_failed fm d' e hs']
        exact ⟨by simp [declAfter, hs], by simpa [declAfter, hs] using h.2.1, fun hp => by simp [declAfter, hs] at hp⟩

theorem rel_called {d d' : D} (h : Rel d d') : d.called = d'.called := by simp [D.called, h.1]

theorem rel_step {d d' : D} (h : Rel d d') (op : Op) :
    Rel (declStep d op).1 (step d' op).1 ∧ (declStep d op).2 = (step d' op).2 := by
  cases op with
  | fire r => have := rel_fire h r; simp only [declStep, step]; exact ⟨this.1, by rw [this.2]⟩
  | add cb => have := rel_add h cb; simp only [declStep, step]; exact ⟨this.1, trivial⟩
  | resume r => have := rel_resume h r; simp only [declStep, step]; exact ⟨this.1, by rw [this.2]⟩
  | matchD m =>
    simp only [declStep, step]
    refine ⟨rel_match h m, ?_⟩
    rw [matchOp_verdict, C20_passive_never_fires, ← h.1, rel_called h]
  | classify =>
    simp only [declStep, step, matchOp_verdict, h.1]
    exact ⟨h, trivial⟩
  | extract =>
    have := rel_add h extractCb
    simp only [declStep, step]
    refine ⟨this.1, ?_⟩
    rw [C20_extract, ← h.1]
    cases d.st with
    | fired r => cases r <;> rfl
    | _ => rfl

/-- C20 (invisible): for every history, started in related states, the implementation's observations — verdicts,
`AlreadyCalledError`s, extracted results, what every later callback is called with — are exactly those of the
declared semantics, in which `has_no_result` does nothing and `succeeded`/`failed` only handle an inspected failure. -/
theorem C20_invisible : ∀ (ops : List Op) (d d' : D), Rel d d' →
    Rel (declRun d ops).1 (run d' ops).1 ∧ (declRun d ops).2 = (run d' ops).2
  | [], _, _, h => ⟨h, rfl⟩
  | op :: ops, d, d', h => by
    have hs := rel_step h op
    have ih := C20_invisible ops _ _ hs.1
    simp only [declRun, run]
    exact ⟨ih.1, by rw [hs.2, ih.2]⟩

theorem declRun_classes : ∀ (ops : List Op) (d : D), ∀ o ∈ (declRun d ops).2, ∀ a b c, o = .classes a b c → exactlyOne a b c = true
  | [], _, o, ho, _, _, _, _ => by simp [declRun] at ho
  | op :: ops, d, o, ho, a, b, c, h => by
    simp only [declRun, List.mem_cons] at ho
    rcases ho with rfl | ho
    · cases op <;> simp only [declStep] at h <;> try cases h
      have := C20_trichotomy d
      simpa only [matchOp_verdict] using this
    · exact declRun_classes ops _ o ho a b c h

/-! ## `SynchronousDeferredRunTest` -/

/-- C20 (sync runner): whatever the test method does, `_run_user` leads to the outcome of doing it directly;
in particular returning an already-fired Deferred is reported like returning the value, and returning an
already-failed Deferred like raising the exception. -/
theorem C20_sync_runner (b : Beh) : runUser b = directOutcome b := by
  cases b with
  | returns v => simp [runUser, maybeDeferred, extractOp, add, runCbs, Cb.act, applyAct, note, extractCb, directOutcome]
  | raises k => cases k <;> simp [runUser, maybeDeferred, extractOp, add, runCbs, Cb.act, applyAct, note, extractCb, directOutcome, excNum, numExc]
  | returnsFired k v =>
    cases k with
    | none => simp [runUser, maybeDeferred, extractOp, add, runCbs, Cb.act, applyAct, note, extractCb, directOutcome]
    | some k => cases k <;> simp [runUser, maybeDeferred, extractOp, add, runCbs, Cb.act, applyAct, note, extractCb, directOutcome, excNum, numExc]
  | returnsUnfired => simp [runUser, maybeDeferred, D.new, extractOp, add, directOutcome]

theorem C20_sync_runner_fired_value (v : Val) : runUser (.returnsFired none v) = runUser (.returns v) := by
  rw [C20_sync_runner, C20_sync_runner]; rfl

theorem C20_sync_runner_fired_failure (k : ExcKind) (v : Val) : runUser (.returnsFired (some k) v) = runUser (.raises k) := by
  rw [C20_sync_runner, C20_sync_runner]; rfl

/-! ## the executable specification holds of the model -/

theorem holds_model (i : Input) : holds i (model i) = true := by
  cases i with
  | runUser b => simp [holds, clauses, model, cShape, cVerdicts, cTrichotomy, cExtract, cPassive, cLogged, cSyncRunner, C20_sync_runner]
  | history ops =>
    obtain ⟨hrel, hobs⟩ := C20_invisible ops D.new D.new (Rel.refl _)
    have hlen : ∀ (ops : List Op) (d : D), (run d ops).2.length = ops.length := by
      intro ops; induction ops with
      | nil => intro d; rfl
      | cons op ops ih => intro d; simp [run, ih]
    have hcls : ((run D.new ops).2.all fun o => match o with | .classes a b c => exactlyOne a b c | _ => true) = true := by
      rw [List.all_eq_true]
      intro o ho
      rw [← hobs] at ho
      cases o with
      | classes a b c => exact declRun_classes ops D.new _ ho a b c rfl
      | _ => rfl
    have hfail : isFailed (declRun D.new ops).1 = isFailed (run D.new ops).1 := by simp [isFailed, hrel.1]
    simp [holds, clauses, model, cShape, cVerdicts, cTrichotomy, cExtract, cPassive, cLogged, cSyncRunner,
      hlen, hobs, hrel.2.1, rel_called hrel, hfail]
    exact fun x hx => List.all_eq_true.mp hcls x hx

/-! ## non-vacuity -/

/-- a failure inspected by `failed(Always())`, then looked at again: handled, the later probe sees `None` -/
example : model (.history [.fire (.fail 1), .matchD (.failed .always), .add ⟨.keep, .keep, .probe 0⟩, .classify]) =
    .history [.fired false, .verdict true true true, .added, .classes false true false] [(0, .ok .none)] true false := by
  decide

/-- `has_no_result()` on a failure: mismatch, and the failure is still unhandled -/
example : model (.history [.fire (.fail 1), .matchD .noResult]) =
    .history [.fired false, .verdict false true true] [] true true := by decide

/-- matching an unfired Deferred, then firing it: the later callback sees the value -/
example : model (.history [.matchD (.succeeded .always), .add ⟨.keep, .keep, .probe 0⟩, .fire (.ok (.num 5)),
      .matchD (.succeeded (.equals (.num 5)))]) =
    .history [.verdict false false false, .added, .fired false, .verdict true true true] [(0, .ok (.num 5))] true false := by
  decide

/-! ## tie to the source
`TTV.Generated.DeferredSrc` is produced by `harness/pydeferred2lean.py` from `testtools/twistedsupport/_deferred.py`,
`_matchers.py` and `_runtest.py` on every run: the arms of `on_deferred_result`, the handlers each matcher passes to it (and
which of them swallow the failure with `addErrback`), the arms of `extract_result`, the steps of `_run_user`.
`TTV.DeferredSkel.matchI / extractI / runUserI` interpret that data over the model. -/

/- The proofs below do not compare the generated terms with fixed reference terms: they EVALUATE the interpreter on the
generated arms and handlers in each of the three situations a Deferred can be in (the installed pair was called with a value /
with a failure / not called).  So any source whose arms and handlers mean what the model does is accepted — e.g. mutually
exclusive arms in another order — and any other source leaves an unsolved goal that shows the state in which it differs.
(The terms the model was written from are `DeferredSkel.refOdr`, `refSucceeded`, …, with `matchI_ref_*` in
`TTV/Lemmas/DeferredSkel.lean`.) -/

/-- the model's `has_no_result()` is the interpretation of `_NoResult.match` + `on_deferred_result` as found in the source -/
theorem C20_src_no_result (d : D) :
    DeferredSkel.matchI Generated.DeferredSrc.onDeferredResult Generated.DeferredSrc.noResult (fun _ => false) d
      = some (matchOp .noResult d) := by
  rcases DeferredSkel.add_cases d captureCb with ⟨r, _, h⟩ | ⟨_, h⟩
  · cases r <;> simp [DeferredSkel.matchI, matchOp, Generated.DeferredSrc.onDeferredResult, Generated.DeferredSrc.noResult, h,
      DeferredSkel.firstArm, DeferredSkel.Guard.holds, DeferredSkel.runHandler]
  · simp [DeferredSkel.matchI, matchOp, Generated.DeferredSrc.onDeferredResult, Generated.DeferredSrc.noResult, h,
      DeferredSkel.firstArm, DeferredSkel.Guard.holds, DeferredSkel.runHandler]

/-- the model's `succeeded(m)` is the interpretation of `_Succeeded.match`, its handlers and `on_deferred_result` as found
in the source — for every Deferred state and inner matcher -/
theorem C20_src_succeeded (vm : VM) (d : D) :
    DeferredSkel.matchI Generated.DeferredSrc.onDeferredResult Generated.DeferredSrc.succeeded (DeferredSkel.innerV vm) d
      = some (matchOp (.succeeded vm) d) := by
  rcases DeferredSkel.add_cases d captureCb with ⟨r, _, h⟩ | ⟨_, h⟩
  · cases r <;> simp [DeferredSkel.matchI, matchOp, Generated.DeferredSrc.onDeferredResult, Generated.DeferredSrc.succeeded, h,
      DeferredSkel.firstArm, DeferredSkel.Guard.holds, DeferredSkel.runHandler, DeferredSkel.innerV]
  · simp [DeferredSkel.matchI, matchOp, Generated.DeferredSrc.onDeferredResult, Generated.DeferredSrc.succeeded, h,
      DeferredSkel.firstArm, DeferredSkel.Guard.holds, DeferredSkel.runHandler]

/-- the model's `failed(m)` is the interpretation of `_Failed.match`, its handlers and `on_deferred_result` as found in
the source -/
theorem C20_src_failed (fm : FM) (d : D) :
    DeferredSkel.matchI Generated.DeferredSrc.onDeferredResult Generated.DeferredSrc.failed (DeferredSkel.innerF fm) d
      = some (matchOp (.failed fm) d) := by
  rcases DeferredSkel.add_cases d captureCb with ⟨r, _, h⟩ | ⟨_, h⟩
  · cases r <;> simp [DeferredSkel.matchI, matchOp, Generated.DeferredSrc.onDeferredResult, Generated.DeferredSrc.failed, h,
      DeferredSkel.firstArm, DeferredSkel.Guard.holds, DeferredSkel.runHandler, DeferredSkel.innerF]
  · simp [DeferredSkel.matchI, matchOp, Generated.DeferredSrc.onDeferredResult, Generated.DeferredSrc.failed, h,
      DeferredSkel.firstArm, DeferredSkel.Guard.holds, DeferredSkel.runHandler]

/-- the model's `extract_result` is the interpretation of the arms found in the source -/
theorem C20_src_extract (d : D) :
    DeferredSkel.extractI Generated.DeferredSrc.extractResult d = some (extractOp d) := by
  rcases DeferredSkel.add_cases d extractCb with ⟨r, _, h⟩ | ⟨_, h⟩
  · cases r <;> simp [DeferredSkel.extractI, extractOp, Generated.DeferredSrc.extractResult, h, DeferredSkel.firstArm,
      DeferredSkel.Guard.holds]
  · simp [DeferredSkel.extractI, extractOp, Generated.DeferredSrc.extractResult, h, DeferredSkel.firstArm, DeferredSkel.Guard.holds]

/-- `SynchronousDeferredRunTest._run_user` has the signature `(self, function, /, *args, **kwargs)` - no keyword name of a cleanup can
collide with its own parameters (seed C20-g) -, is `maybeDeferred` of a THUNK calling the user's function with the user's arguments
(none of them reaches `maybeDeferred`'s own parameter `f`), `addErrback(self._got_user_failure)`, `extract_result`, and the errback
`_got_user_failure` reports EVERY failure it is given as the user's exception - no exception class is let through (seed C20-f) -/
theorem C20_src_run_user (b : Beh) :
    DeferredSkel.runUserI Generated.DeferredSrc.runUserSig Generated.DeferredSrc.runUser Generated.DeferredSrc.gotUserFailure b
      = some (runUser b) := by
  have e0 : Generated.DeferredSrc.runUserSig = DeferredSkel.refRunUserSig := by decide
  have e : Generated.DeferredSrc.runUser = DeferredSkel.refRunUser := by decide
  have e2 : Generated.DeferredSrc.gotUserFailure = DeferredSkel.refGotUserFailure := by decide
  rw [e0, e, e2]; exact DeferredSkel.runUserI_ref b

end TTV.Props.C20
