import TTV.Model.Conc
import TTV.Spec.C12
import TTV.Lemmas.Conc
import TTV.Lemmas.TfrSkel
import TTV.Generated.TfrSkel
/-! # C12 — ThreadsafeForwardingResult: per-test atomicity under every interleaving

Property theorems (kept apart from the model).  All statements are for **every** number of threads,
every forwarder program, every fault plan and every schedule (arbitrary `List Nat`, no bound).

* `holds_model`          : the executable spec `Spec.C12.holds` is true of the model's trace (headline)
* `C12_blocks`           : in every reachable state the target/semaphore log is a sequence of whole
                           sections `acquire_i · calls of one operation of i · release_i`, plus at most one open
                           section owned by the holder — never interleaved
* `C12_block_shape`      : every section a forwarder program produces is a single control call or
                           `time · startTest t · time · [tags] · [tags] · outcome t · stopTest t`, cut only directly after a raising call
                           (raising outcome still followed by `stopTest`)
* `C12_once_in_order`    : the sections of thread `i` in the log are a prefix of `i`'s own section list, all of
                           it once `i` has finished
* `C12_wellformed_block` : a well-formed test `startTest t · … · outcome k t` without faults yields exactly the block
                           with the start time read at `startTest`, the time current at the outcome, the run-level and the test's tags
* `C12_release`          : a thread that is at an operation boundary does not hold the semaphore
* `C12_no_deadlock`      : every reachable unfinished state has an enabled thread
* `C12_progress`         : every enabled step consumes one micro-step, so schedules that keep picking enabled threads terminate
* `C12_terminates`       : after any schedule, running enabled threads finishes every thread
* `C12_src_block`, `C12_src_ctl`, `C12_src_local`, `C12_src_forward` : **tie to the source** - the block semantics `stepOp` all of
                           the above is about is the interpretation of the control skeletons that `harness/tfrskel.py` reads out
                           of `testtools/testresult/real.py` on every run (`TTV/Generated/TfrSkel.lean`)
-/
namespace TTV.Props.C12
open TTV.Conc TTV.Spec.C12

/-! ## the initial state satisfies the invariant -/

def secsFn (ts : List Thread) (i : Nat) : List Section := (ts[i]?.map Thread.secs).getD []

theorem inv_init (ts : List Thread) :
    Inv ts.length (secsFn ts) (init ts) [] [] [] (fun i => (secsFn ts i).map Seg.sec) := by
  refine ⟨by simp [init], ?_, ?_, ?_, ?_, ?_, ⟨by simp [init], by simp [init, readings]⟩⟩
  · intro i hi _
    simp [init, secsFn, hi, progSteps_eq_segSteps]
  · intro h hh; simp [init] at hh
  · simp [init, flatLog, openLog]
  · intro i _; simp [init, ownedBy, segSecs_map_sec]
  · intro p hp; cases hp

/-- every state reachable by a schedule satisfies the invariant -/
theorem inv_run (ts : List Thread) (sched : List Nat) :
    ∃ closed cur todo rem, Inv ts.length (secsFn ts) (run (init ts) sched) closed cur todo rem :=
  run_preserves sched (inv_init ts)

/-! ## parsing a log of whole sections -/

theorem walk_section (h : Nat) : ∀ (sec cur : Section) (rest : List Ev),
    walk (some (h, cur)) (sec.map (fun c => (h, EvK.call c.1 c.2)) ++ (h, EvK.rel) :: rest)
      = (walk none rest).map ((h, cur ++ sec) :: ·)
  | [], cur, rest => by simp [walk]
  | c :: sec, cur, rest => by
      simp only [List.map_cons, List.cons_append, walk, if_true]
      rw [walk_section h sec]
      simp

theorem walk_flat : ∀ (closed : List (Nat × Section)) (rest : List Ev),
    walk none (flatLog closed ++ rest) = (walk none rest).map (closed ++ ·)
  | [], rest => by simp [flatLog]
  | p :: closed, rest => by
      obtain ⟨h, sec⟩ := p
      have := walk_flat closed rest
      simp only [flatLog, List.map_cons, List.flatten_cons, secEvents, List.cons_append, List.append_assoc, walk] at this ⊢
      rw [walk_section h sec []]
      simp only [List.nil_append]
      rw [this]
      cases walk none rest <;> simp

theorem parse_flat (closed : List (Nat × Section)) : parse (flatLog closed) = some closed := by
  have := walk_flat closed []
  simpa [parse, walk] using this

theorem secsOf_eq_ownedBy (i : Nat) (ps : List (Nat × Section)) : secsOf i ps = ownedBy i ps := rfl

theorem mem_ownedBy {p : Nat × Section} {closed : List (Nat × Section)} (h : p ∈ closed) : p.2 ∈ ownedBy p.1 closed := by
  simp only [ownedBy, List.mem_map, List.mem_filter]
  exact ⟨p, ⟨h, by simp⟩, rfl⟩

/-! ## the sections of a forwarder program -/

/-- `emit` either makes all the calls, or cuts the list directly after the first raising call -/
theorem emit_cases (f : List Nat) : ∀ (cs : List Call) (n : Nat),
    ((emit f n cs).2.2 = false ∧ (emit f n cs).1 = cs.map (·, false))
    ∨ ((emit f n cs).2.2 = true ∧ ∃ j, ∃ hj : j < cs.length, (emit f n cs).1 = (cs.take j).map (·, false) ++ [(cs[j], true)])
  | [], n => by left; simp [emit]
  | c :: cs, n => by
      by_cases hc : f.contains n = true
      · right; simp only [emit, hc, if_true, true_and]; exact ⟨0, by simp, by simp⟩
      · simp only [emit, hc, if_false, Bool.false_eq_true]
        rcases emit_cases f cs (n + 1) with ⟨h2, h1⟩ | ⟨h2, j, hj, h1⟩
        · left; exact ⟨h2, by simp [h1]⟩
        · right; exact ⟨h2, j + 1, by simpa using hj, by simp [h1]⟩

/-- the section of an outcome operation: well shaped, a test block, and the block of that outcome -/
theorem stepOp_outcome (f : List Nat) (l : Loc) (k : Kind) (id : TId) :
    ∃ s, (stepOp f l (.outcome k id)).sec = some s ∧ shapeOk s = true ∧ isTestSec s = true ∧ blockFor (k, id) s = true := by
  rcases emit_cases f (preCalls l id) l.n with ⟨h2, h1⟩ | ⟨h2, j, hj, h1⟩
  · refine ⟨_, by simp only [stepOp, h2]; rfl, ?_⟩
    rw [h1]
    unfold preCalls
    by_cases hg : anyTags l.gtags = true <;> by_cases ht : anyTags l.ttags = true <;>
      simp [hg, ht, shapeOk, shapeTail, isTestSec, blockFor, secOutcomes]
  · refine ⟨_, by simp only [stepOp, h2]; rfl, ?_⟩
    rw [h1]
    clear h1 h2
    unfold preCalls at hj ⊢
    by_cases hg : anyTags l.gtags = true <;> by_cases ht : anyTags l.ttags = true <;>
      simp only [hg, ht, if_true, if_false, List.append_nil, List.cons_append, List.nil_append, Bool.false_eq_true,
        List.length_cons, List.length_nil] at hj ⊢ <;>
      (rcases j with _ | _ | _ | _ | _ | j) <;>
      first
        | (exfalso; omega)
        | simp [shapeOk, shapeTail, isTestSec, blockFor, secOutcomes, lastRaised]

theorem stepOp_sec_cases (f : List Nat) (l : Loc) (o : Op) :
    ((stepOp f l o).sec = none ∧ outcomeOps [o] = [])
    ∨ (∃ c r, (stepOp f l o).sec = some [(.ctl c, r)] ∧ outcomeOps [o] = [])
    ∨ (∃ k id s, o = .outcome k id ∧ (stepOp f l o).sec = some s ∧ shapeOk s = true ∧ isTestSec s = true ∧ blockFor (k, id) s = true) := by
  cases o with
  | time t => left; simp [stepOp, outcomeOps]
  | tags a b => left; simp [stepOp, outcomeOps]
  | startTest i => left; simp [stepOp, outcomeOps]
  | stopTest i => left; simp [stepOp, outcomeOps]
  | ctl c => right; left; exact ⟨c, f.contains l.n, by simp [stepOp, outcomeOps]⟩
  | outcome k id =>
    right; right
    obtain ⟨s, h1, h2, h3, h4⟩ := stepOp_outcome f l k id
    exact ⟨k, id, s, rfl, h1, h2, h3, h4⟩

theorem outcomeOps_cons (o : Op) (os : List Op) : outcomeOps (o :: os) = outcomeOps [o] ++ outcomeOps os := by
  simp only [outcomeOps, List.filterMap_cons]
  split <;> simp

/-- what `runOp` adds to `stepOp`: at most the `stop()` section of a failfast forwarder -/
theorem runOp_cases (f : List Nat) (ff : Bool) (l : Loc) (o : Op) :
    runOp f ff l o = (secList (stepOp f l o).sec, (stepOp f l o).raised, (stepOp f l o).loc)
    ∨ (ff = true ∧ o.unsuccessful = true ∧ (stepOp f l o).raised = false ∧
        runOp f ff l o = (secList (stepOp f l o).sec ++ [[(.ctl .stop, f.contains (stepOp f l o).loc.n)]],
                          f.contains (stepOp f l o).loc.n, (stepOp f (stepOp f l o).loc (.ctl .stop)).loc)) := by
  unfold runOp
  dsimp only
  split
  · rename_i h
    simp only [Bool.and_eq_true, Bool.not_eq_true'] at h
    right; exact ⟨h.1.1, h.1.2, h.2, by simp [stepOp, secList]⟩
  · left; rfl

theorem isTestSec_stop (r : Bool) : isTestSec [(Call.ctl .stop, r)] = false := rfl

theorem runOp_testSecs (f : List Nat) (ff : Bool) (l : Loc) (o : Op) :
    (runOp f ff l o).1.filter isTestSec = (secList (stepOp f l o).sec).filter isTestSec := by
  rcases runOp_cases f ff l o with h | ⟨_, _, _, h⟩ <;> rw [h]
  simp [List.filter_append, isTestSec_stop]

theorem runOp_shape (f : List Nat) (ff : Bool) (l : Loc) (o : Op) : ∀ s ∈ (runOp f ff l o).1, shapeOk s = true := by
  have hsec : ∀ s ∈ secList (stepOp f l o).sec, shapeOk s = true := by
    intro s hs
    rcases stepOp_sec_cases f l o with ⟨h1, _⟩ | ⟨c, r, h1, _⟩ | ⟨k, id, s', _, h1, h2, _, _⟩
    · rw [h1] at hs; cases hs
    · rw [h1] at hs; simp [secList] at hs; subst hs; simp [shapeOk]
    · rw [h1] at hs; simp [secList] at hs; subst hs; exact h2
  intro s hs
  rcases runOp_cases f ff l o with h | ⟨_, _, _, h⟩ <;> rw [h] at hs
  · exact hsec s hs
  · rcases List.mem_append.mp hs with hs | hs
    · exact hsec s hs
    · simp at hs; subst hs; simp [shapeOk]

/-- C12 (fault shapes): every critical section of a forwarder program is a well-shaped block -/
theorem sections_shape (f : List Nat) (ff : Bool) : ∀ (ops : List Op) (l : Loc), ∀ s ∈ (sections f ff l ops).1, shapeOk s = true
  | [], _, s, h => by simp [sections] at h
  | o :: os, l, s, h => by
      simp only [sections] at h
      rcases List.mem_append.mp h with h | h
      · exact runOp_shape f ff l o s h
      · exact sections_shape f ff os _ s h

/-- every outcome operation has exactly one block, in program order -/
theorem sections_testsOnce (f : List Nat) (ff : Bool) : ∀ (ops : List Op) (l : Loc),
    zipAll blockFor (outcomeOps ops) ((sections f ff l ops).1.filter isTestSec) = true
  | [], _ => by simp [sections, outcomeOps, zipAll]
  | o :: os, l => by
      have ih := sections_testsOnce f ff os (runOp f ff l o).2.2
      rw [outcomeOps_cons]
      simp only [sections, List.filter_append, runOp_testSecs]
      rcases stepOp_sec_cases f l o with ⟨h1, h0⟩ | ⟨c, r, h1, h0⟩ | ⟨k, id, s', ho, h1, _, h3, h4⟩
      · rw [h1, h0]; simpa [secList] using ih
      · rw [h1, h0]; simpa [secList, isTestSec] using ih
      · subst ho
        rw [h1]
        simp [outcomeOps, secList, h3, zipAll, h4]
        exact ih

/-! ## the final state of the model -/

theorem final_facts (i : Input) :
    ∃ closed, (final i).log = flatLog closed ∧ finished (final i) = true ∧ (final i).sem = none
      ∧ (∀ j, j < i.threads.length → secsFn i.threads j = ownedBy j closed)
      ∧ (∀ p ∈ closed, p.1 < i.threads.length)
      ∧ (final i).semv = 1 ∧ (final i).semLog = readings (final i).log := by
  obtain ⟨c, cu, t, r, h⟩ := inv_run i.threads i.sched
  obtain ⟨hfin, c', cu', t', r', h'⟩ :=
    drain_finishes (remaining (init i.threads)) h (remaining_run_le i.sched (init i.threads))
  obtain ⟨hsem, hlog, hacc⟩ := inv_finished h' hfin
  have hv := h'.cnt.1
  rw [hsem] at hv
  exact ⟨c', hlog, hfin, hsem, hacc, h'.owners, hv, h'.cnt.2⟩

/-- **Headline**: the executable specification holds of the model's trace, for every input. -/
theorem exclusive_calls (i : Nat) : ∀ (cs : Section) (rest : List Ev),
    exclusiveFrom [i] (cs.map (fun c => (i, EvK.call c.1 c.2)) ++ (i, EvK.rel) :: rest) = exclusiveFrom [] rest
  | [], rest => by simp [exclusiveFrom]
  | c :: cs, rest => by simp [exclusiveFrom, exclusive_calls i cs rest]

/-- a log of whole critical sections: every call is made by the one thread that is inside a section -/
theorem exclusive_flat : ∀ closed : List (Nat × Section), exclusiveFrom [] (flatLog closed) = true
  | [] => rfl
  | p :: closed => by
      have : flatLog (p :: closed) = (p.1, EvK.acq) :: (p.2.map (fun c => (p.1, EvK.call c.1 c.2)) ++ (p.1, EvK.rel) :: flatLog closed) := by
        simp [flatLog, secEvents]
      rw [this]
      simp only [exclusiveFrom]
      rw [exclusive_calls]
      exact exclusive_flat closed

theorem holds_model (i : Input) : holds i (model i) = true := by
  obtain ⟨closed, hlog, hfin, _, hacc, hown, hv, hrd⟩ := final_facts i
  have hp : parse (model i).log = some closed := by simp [model, hlog, parse_flat]
  have hsecs : ∀ j, j < i.threads.length → secsOf j closed = (i.threads[j]?.map Thread.secs).getD [] := by
    intro j hj; rw [secsOf_eq_ownedBy, ← hacc j hj]; rfl
  simp only [holds, clauses, List.all_cons, List.all_nil, Bool.and_true, Bool.and_eq_true]
  refine ⟨?_, ?_, ?_, ?_, ?_, ?_, ?_⟩
  · simp [cMutex, hp]
  · simp only [cShape, hp, List.all_eq_true]
    intro p hpm
    have h1 := mem_ownedBy hpm
    rw [← hacc p.1 (hown p hpm)] at h1
    have hlt := hown p hpm
    simp only [secsFn, hlt, List.getElem?_eq_getElem, Option.map_some, Option.getD_some, Thread.secs] at h1
    exact sections_shape _ _ _ _ _ h1
  · simp only [cPerThread, hp, Bool.and_eq_true, List.all_eq_true, decide_eq_true_eq, List.mem_range, beq_iff_eq]
    exact ⟨fun p hpm => hown p hpm, fun j hj => hsecs j hj⟩
  · simp only [cTestsOnce, hp, List.all_eq_true, List.mem_range]
    intro j hj
    rw [hsecs j hj]
    simp only [hj, List.getElem?_eq_getElem, Option.map_some, Option.getD_some, Thread.secs]
    exact sections_testsOnce _ _ _ _
  · simp only [cExclusive, model, hlog]; exact exclusive_flat closed
  · simp [cSemCounter, model, hv, hrd]
  · simpa [cNoDeadlock, model] using hfin

/-! ## readable statements -/

/-- **C12 (blocks, never interleaved)** — after *any* schedule the log of the shared semaphore and target
is a sequence of complete sections `acquire_i · calls · release_i`, each being one critical section of
thread `i`'s own program, followed by at most one open section: that of the current holder, which is
a prefix of one of the holder's sections. -/
theorem C12_blocks (ts : List Thread) (sched : List Nat) :
    ∃ closed cur, (run (init ts) sched).log = flatLog closed ++ openLog (run (init ts) sched).sem cur
      ∧ (∀ p ∈ closed, p.1 < ts.length ∧ p.2 ∈ secsFn ts p.1)
      ∧ (∀ h, (run (init ts) sched).sem = some h → ∃ todo, cur ++ todo ∈ secsFn ts h) := by
  obtain ⟨closed, cur, todo, rem, h⟩ := inv_run ts sched
  refine ⟨closed, cur, h.log_eq, ?_, ?_⟩
  · intro p hp
    have hlt := h.owners p hp
    refine ⟨hlt, ?_⟩
    rw [h.acct p.1 hlt]
    exact List.mem_append_left _ (List.mem_append_left _ (mem_ownedBy hp))
  · intro k hk
    obtain ⟨hlt, _⟩ := h.ins k hk
    refine ⟨todo, ?_⟩
    rw [h.acct k hlt]
    simp [hk]

/-- **C12 (fault shapes)** — every critical section of every forwarder program, under every fault plan, is a
well-shaped block (`Spec.C12.shapeOk`): one control call, or `time · startTest t · time · [tags] · [tags] ·
outcome t · stopTest t` cut only as `shape_cut` says. -/
theorem C12_block_shape (t : Thread) : ∀ s ∈ t.secs, shapeOk s = true :=
  sections_shape t.faults t.failfast t.ops {}

theorem shapeTail_cut (id : TId) : ∀ (n : Nat) (s pre post : Section) (c : Call), shapeTail id n s = true →
    s = pre ++ (c, true) :: post →
    post = [] ∨ ∃ k r, c = .outcome k id ∧ post = [(.stopTest id, r)] := by
  intro n
  induction n with
  | zero =>
    intro s pre post c h hs
    unfold shapeTail at h
    split at h
    · rename_i k id' ro id'' rs
      simp at h
      obtain ⟨rfl, rfl⟩ := h
      rcases pre with _ | ⟨a, _ | ⟨b, pre⟩⟩
      · simp at hs; right; exact ⟨k, rs, hs.1.1.symm, hs.2.symm⟩
      · simp at hs; left; exact hs.2.2
      · simp at hs
    · omega
    · simp at h
  | succ n ih =>
    intro s pre post c h hs
    unfold shapeTail at h
    split at h
    · rename_i k id' ro id'' rs
      simp at h
      obtain ⟨rfl, rfl⟩ := h
      rcases pre with _ | ⟨a, _ | ⟨b, pre⟩⟩
      · simp at hs; right; exact ⟨k, rs, hs.1.1.symm, hs.2.symm⟩
      · simp at hs; left; exact hs.2.2
      · simp at hs
    · rename_i m a b r rest _
      cases pre with
      | nil =>
        simp at hs
        obtain ⟨⟨_, rfl⟩, rfl⟩ := hs
        simp at h; left; simpa using h
      | cons x pre =>
        simp at hs
        obtain ⟨rfl, rfl⟩ := hs
        cases r with
        | true => simp at h
        | false =>
          simp at h
          have hm : m = n := by omega
          subst hm
          exact ih _ pre post c h rfl
    · simp at h

/-- **C12 (what a raise leaves behind)** — in a well-shaped block a call that raised is the last call of the
block, except for a raising outcome, which is followed by exactly its `stopTest` (the inner `finally`). -/
theorem C12_shape_cut (s pre post : Section) (c : Call) (h : shapeOk s = true) (hs : s = pre ++ (c, true) :: post) :
    post = [] ∨ ∃ k id r, c = .outcome k id ∧ post = [(.stopTest id, r)] := by
  unfold shapeOk at h
  split at h
  · -- control call
    rcases pre with _ | ⟨a, pre⟩
    · simp at hs; left; exact hs.2
    · simp at hs
  · rename_i t1 r1 rest1
    cases r1 with
    | true =>
      simp at h; subst h
      rcases pre with _ | ⟨a, pre⟩
      · simp at hs; left; exact hs.2
      · simp at hs
    | false =>
      simp only [Bool.false_eq_true, if_false] at h
      split at h
      · rename_i id r2 rest2
        cases r2 with
        | true =>
          simp at h; subst h
          rcases pre with _ | ⟨a, _ | ⟨b, pre⟩⟩
          · simp at hs
          · simp at hs; left; exact hs.2.2
          · simp at hs
        | false =>
          simp only [Bool.false_eq_true, if_false] at h
          split at h
          · rename_i t3 r3 rest3
            cases r3 with
            | true =>
              simp at h; subst h
              rcases pre with _ | ⟨a, _ | ⟨b, _ | ⟨c', pre⟩⟩⟩
              · simp at hs
              · simp at hs
              · simp at hs; left; exact hs.2.2.2
              · simp at hs
            | false =>
              simp only [Bool.false_eq_true, if_false] at h
              rcases pre with _ | ⟨a, _ | ⟨b, _ | ⟨c', pre⟩⟩⟩
              · simp at hs
              · simp at hs
              · simp at hs
              · simp at hs
                obtain ⟨_, _, _, hrest⟩ := hs
                rcases shapeTail_cut id 2 rest3 pre post c h hrest with h1 | ⟨k, r, h1, h2⟩
                · left; exact h1
                · right; exact ⟨k, id, r, h1, h2⟩
          · simp at h
      · simp at h
  · simp at h

/-- **C12 (every operation once, in the thread's order)** — after *any* schedule the complete sections of
thread `i` in the log are a prefix of `i`'s own section list (what `i` sends when it runs alone), and
all of it once `i` has no steps left. -/
theorem C12_once_in_order (ts : List Thread) (sched : List Nat) :
    ∃ closed cur, (run (init ts) sched).log = flatLog closed ++ openLog (run (init ts) sched).sem cur
      ∧ ∀ i, i < ts.length →
          (∃ rest, secsFn ts i = ownedBy i closed ++ rest)
          ∧ ((run (init ts) sched).pcs[i]? = some [] → secsFn ts i = ownedBy i closed) := by
  obtain ⟨closed, cur, todo, rem, h⟩ := inv_run ts sched
  refine ⟨closed, cur, h.log_eq, ?_⟩
  intro i hi
  refine ⟨⟨_, by rw [h.acct i hi, List.append_assoc]⟩, ?_⟩
  intro hpc
  by_cases hs : (run (init ts) sched).sem = some i
  · obtain ⟨_, hpc'⟩ := h.ins i hs
    rw [hpc] at hpc'; simp at hpc'
  · have hpc' := h.out i hi hs
    rw [hpc] at hpc'
    have := segSteps_eq_nil (Option.some.inj hpc').symm
    have ha := h.acct i hi
    simpa [hs, this, segSecs] using ha

theorem fst_of_mem_secEvents {e : Ev} {p : Nat × Section} (h : e ∈ secEvents p) : e.1 = p.1 := by
  unfold secEvents at h
  rcases List.mem_cons.mp h with rfl | h
  · rfl
  · rcases List.mem_append.mp h with h | h
    · obtain ⟨c, _, rfl⟩ := List.mem_map.mp h; rfl
    · simp at h; subst h; rfl

theorem filter_secEvents (j : Nat) (p : Nat × Section) :
    (secEvents p).filter (fun e => e.1 == j) = if p.1 = j then secEvents p else [] := by
  split
  · rename_i h
    rw [List.filter_eq_self]; intro e he; simp [fst_of_mem_secEvents he, h]
  · rename_i h
    rw [List.filter_eq_nil_iff]; intro e he; simp [fst_of_mem_secEvents he, h]

theorem filter_flatLog (j : Nat) : ∀ closed : List (Nat × Section),
    (flatLog closed).filter (fun e => e.1 == j) = flatLog ((ownedBy j closed).map fun s => (j, s))
  | [] => by simp [flatLog, ownedBy]
  | p :: closed => by
      have ih := filter_flatLog j closed
      obtain ⟨i, sec⟩ := p
      simp only [flatLog, ownedBy, List.map_cons, List.flatten_cons, List.filter_append, filter_secEvents, List.filter_cons] at ih ⊢
      by_cases hij : i = j
      · subst hij; simp [ih]
      · have hne : (i == j) = false := by simp [hij]
        simp [hij, hne, ih]

/-- **C12 (projection)** — in the final log of any run, what thread `j` did on the shared objects is exactly
what it does when it runs alone: every operation exactly once, in program order, each test with its own
start time, end time and tags. -/
theorem C12_projection (i : Input) (j : Nat) (hj : j < i.threads.length) :
    (model i).log.filter (fun e => e.1 == j) = flatLog ((secsFn i.threads j).map fun s => (j, s)) := by
  obtain ⟨closed, hlog, _, _, hacc, _⟩ := final_facts i
  simp only [model, hlog, filter_flatLog, hacc j hj]

/-- what one forwarder does alone is the log of its sections (so `C12_projection` compares with a real run) -/
theorem C12_alone (t : Thread) (sched : List Nat) :
    (model { threads := [t], sched := sched }).log = flatLog (t.secs.map fun s => (0, s)) := by
  have h := C12_projection { threads := [t], sched := sched } 0 (by simp)
  obtain ⟨closed, hlog, _, _, _, hown, _⟩ := final_facts { threads := [t], sched := sched }
  have hall : (model { threads := [t], sched := sched }).log.filter (fun e => e.1 == 0)
      = (model { threads := [t], sched := sched }).log := by
    rw [List.filter_eq_self]
    intro e he
    simp only [model, hlog, flatLog, List.mem_flatten, List.mem_map] at he
    obtain ⟨_, ⟨p, hp, rfl⟩, he⟩ := he
    have := hown p hp
    simp at this
    simp [fst_of_mem_secEvents he, this]
  rw [hall] at h
  simpa [secsFn] using h

theorem emit_head (f : List Nat) (n : Nat) (c : Call) (cs : List Call) : ∃ r rest, (emit f n (c :: cs)).1 = (c, r) :: rest := by
  by_cases hc : f.contains n = true
  · exact ⟨true, [], by simp only [emit, hc, if_true]⟩
  · exact ⟨false, (emit f (n + 1) cs).1, by simp only [emit, hc, if_false, Bool.false_eq_true]⟩

theorem stepOp_outcome_head (f : List Nat) (l : Loc) (k : Kind) (id : TId) :
    ∃ r rest, (stepOp f l (.outcome k id)).sec = some ((Call.time l.start, r) :: rest) := by
  have hp : preCalls l id = Call.time l.start :: (preCalls l id).tail := by simp [preCalls]
  obtain ⟨r, rest, he⟩ := emit_head f l.n (Call.time l.start) (preCalls l id).tail
  rw [← hp] at he
  cases h2 : (emit f l.n (preCalls l id)).2.2 with
  | true => exact ⟨r, rest, by simp only [stepOp, h2]; simp [he]⟩
  | false =>
    exact ⟨r, rest ++ [(.outcome k id, f.contains (emit f l.n (preCalls l id)).2.1),
                        (.stopTest id, f.contains ((emit f l.n (preCalls l id)).2.1 + 1))],
           by simp only [stepOp, h2]; simp [he]⟩

/-- **C12 (own start time)** — the first call of a test's block is `time(start)` where `start` is the time that
was current when `startTest` was called, whatever `time()`/`tags()` calls happen between `startTest` and the
outcome. -/
theorem C12_own_start_time (f : List Nat) (ff : Bool) (id : TId) (k : Kind) : ∀ (mid : List Op) (l : Loc) (start : Time),
    (∀ o ∈ mid, (∃ t, o = .time t) ∨ ∃ a b, o = .tags a b) → l.start = start →
    ∃ r rest tl, (sections f ff l (mid ++ [.outcome k id])).1 = ((Call.time start, r) :: rest) :: tl
  | [], l, start, _, hs => by
      obtain ⟨r, rest, h1⟩ := stepOp_outcome_head f l k id
      rcases runOp_cases f ff l (.outcome k id) with h | ⟨_, _, _, h⟩
      · exact ⟨r, rest, [], by simp only [List.nil_append, sections, h, h1, hs, secList, List.append_nil]⟩
      · exact ⟨r, rest, _, by simp only [List.nil_append, sections, h, h1, hs, secList, List.append_nil]; rfl⟩
  | o :: mid, l, start, hm, hs => by
      have ho := hm o List.mem_cons_self
      have ih := fun l' hl' => C12_own_start_time f ff id k mid l' start (fun o' ho' => hm o' (List.mem_cons_of_mem _ ho')) hl'
      rcases ho with ⟨t, rfl⟩ | ⟨a, b, rfl⟩
      · obtain ⟨r, rest, tl, h⟩ := ih { l with now := t } hs
        exact ⟨r, rest, tl, by simpa [sections, runOp, Op.unsuccessful, secList, stepOp] using h⟩
      · by_cases hin : l.inTest = true
        · obtain ⟨r, rest, tl, h⟩ := ih { l with ttags := mergeTags l.ttags (normTags a, normTags b) } hs
          exact ⟨r, rest, tl, by simpa [sections, runOp, Op.unsuccessful, secList, stepOp, hin] using h⟩
        · obtain ⟨r, rest, tl, h⟩ := ih { l with gtags := mergeTags l.gtags (normTags a, normTags b) } hs
          exact ⟨r, rest, tl, by simpa [sections, runOp, Op.unsuccessful, secList, stepOp, hin] using h⟩

/-- **C12 (a well-formed test, no faults)** — `startTest t · time b · outcome k t` in any forwarder state
produces exactly the block `time(start) · startTest t · time(b) · [run-level tags] · [test tags] · outcome k t ·
stopTest t`, where `start` is the time current at `startTest`; nothing raises. -/
theorem C12_wellformed_block (l : Loc) (id : TId) (k : Kind) (b : Nat) :
    sections [] false l [.startTest id, .time (some b), .outcome k id]
      = ([ [(.time l.nowT, false), (.startTest id, false), (.time (.at b), false)]
            ++ (if anyTags l.gtags then [(Call.tags l.gtags.1 l.gtags.2, false)] else [])
            ++ (if anyTags l.ttags then [(Call.tags l.ttags.1 l.ttags.2, false)] else [])
            ++ [(.outcome k id, false), (.stopTest id, false)] ], [false, false, false]) := by
  by_cases hg : anyTags l.gtags = true <;> by_cases ht : anyTags l.ttags = true <;>
    simp [sections, runOp, secList, stepOp, preCalls, emit, Loc.nowT, hg, ht]

/-- **C12 (failfast on the forwarder)** — with `failfast` set on a forwarder an unsuccessful outcome that did not raise is
followed by one more critical section, `stop()` on the target (and only then); nothing else changes. -/
theorem C12_failfast_stop (f : List Nat) (l : Loc) (k : Kind) (id : TId)
    (hk : (Op.outcome k id).unsuccessful = true) (hr : (stepOp f l (.outcome k id)).raised = false) :
    (runOp f true l (.outcome k id)).1
      = secList (stepOp f l (.outcome k id)).sec ++ [[(.ctl .stop, f.contains (stepOp f l (.outcome k id)).loc.n)]]
    ∧ ∀ o, (o.unsuccessful = false ∨ (stepOp f l o).raised = true) → (runOp f true l o).1 = secList (stepOp f l o).sec := by
  constructor
  · rcases runOp_cases f true l (.outcome k id) with h | ⟨_, _, _, h⟩
    · simp [runOp, hk, hr] at h ⊢
      simp [stepOp, secList]
    · rw [h]
  · intro o ho
    rcases ho with ho | ho <;> simp [runOp, ho]

/-- **C12 (a test's tags are not used up by its first outcome)** — forwarding an outcome leaves the buffered tags (test-local
and run-level) and the "inside a test" flag as they were, whether or not a call of the block raised: every further outcome of
the same test replays the same tags (`C12_second_outcome_same_tags`); only `stopTest()` forgets the test-local ones. -/
theorem C12_tags_survive_outcome (f : List Nat) (l : Loc) (k : Kind) (id : TId) :
    (stepOp f l (.outcome k id)).loc.ttags = l.ttags ∧ (stepOp f l (.outcome k id)).loc.gtags = l.gtags
      ∧ (stepOp f l (.outcome k id)).loc.inTest = l.inTest ∧ (stepOp f l (.stopTest id)).loc.ttags = ([], []) := by
  refine ⟨?_, ?_, ?_, rfl⟩ <;> (simp only [stepOp]; split <;> rfl)

/-- **C12 (two outcomes inside one startTest / stopTest bracket)** — what stdlib unittest emits for a failing body plus a
failing tearDown: `startTest t · addFailure t · addError t · stopTest t`.  Each outcome gets its own whole block, and BOTH
blocks carry the run-level tags and the test's own tags (the second block has no start time of its own: `time(None)`). -/
theorem C12_second_outcome_same_tags (l : Loc) (id : TId) (k k' : Kind) :
    (sections [] false l [.outcome k id, .outcome k' id]).1
      = [ [(.time l.start, false), (.startTest id, false), (.time l.nowT, false)]
            ++ (if anyTags l.gtags then [(Call.tags l.gtags.1 l.gtags.2, false)] else [])
            ++ (if anyTags l.ttags then [(Call.tags l.ttags.1 l.ttags.2, false)] else [])
            ++ [(.outcome k id, false), (.stopTest id, false)],
          [(.time .unset, false), (.startTest id, false), (.time l.nowT, false)]
            ++ (if anyTags l.gtags then [(Call.tags l.gtags.1 l.gtags.2, false)] else [])
            ++ (if anyTags l.ttags then [(Call.tags l.ttags.1 l.ttags.2, false)] else [])
            ++ [(.outcome k' id, false), (.stopTest id, false)] ] := by
  by_cases hg : anyTags l.gtags = true <;> by_cases ht : anyTags l.ttags = true <;>
    simp [sections, runOp, secList, stepOp, preCalls, emit, Loc.nowT, hg, ht]

/-- **C12 (release)** — after *any* schedule a thread that stands at an operation boundary (its remaining steps
are whole sections) does not hold the semaphore — whether or not the operation before raised. -/
theorem C12_release (ts : List Thread) (sched : List Nat) (i : Nat) (p : List Section)
    (hpc : (run (init ts) sched).pcs[i]? = some (progSteps p)) : (run (init ts) sched).sem ≠ some i := by
  obtain ⟨closed, cur, todo, rem, h⟩ := inv_run ts sched
  intro hs
  obtain ⟨_, hpc'⟩ := h.ins i hs
  rw [hpc] at hpc'
  cases p with
  | nil => simp [progSteps] at hpc'
  | cons a p =>
    cases todo with
    | nil => simp [progSteps, secSteps, callSteps] at hpc'
    | cons c t => simp [progSteps, secSteps, callSteps] at hpc'

/-- the steps of every critical section end with the release, whatever its calls do -/
theorem C12_release_always (s : Section) : ∃ pre, secSteps s = pre ++ [Step.rel] :=
  ⟨Step.acq :: s.map (fun p => Step.call p.1 p.2), by simp [secSteps]⟩

/-- **C12 (no deadlock)** — after *any* schedule, if some thread is unfinished then some thread is enabled. -/
theorem C12_no_deadlock (ts : List Thread) (sched : List Nat) (h : finished (run (init ts) sched) = false) :
    ∃ i, i < ts.length ∧ enabled (run (init ts) sched) i = true := by
  obtain ⟨closed, cur, todo, rem, hinv⟩ := inv_run ts sched
  exact exists_enabled hinv h

/-- **C12 (progress)** — every step of an enabled thread consumes one of the finitely many micro-steps. -/
theorem C12_progress (s : St) (i : Nat) (h : enabled s i = true) : remaining (stepThread s i) + 1 = remaining s :=
  remaining_step h

/-- a schedule that only ever picks enabled threads -/
def AllEnabled : St → List Nat → Prop
  | _, [] => True
  | s, i :: rest => enabled s i = true ∧ AllEnabled (stepThread s i) rest

/-- **C12 (termination)** — a schedule that keeps picking enabled threads uses up one micro-step per pick, so it
cannot be longer than the total number of micro-steps, and when it is that long every thread has finished. -/
theorem C12_fair_terminates : ∀ (sched : List Nat) (s : St), AllEnabled s sched →
    remaining (run s sched) + sched.length = remaining s
  | [], s, _ => by simp [run]
  | i :: rest, s, h => by
      have h1 := remaining_step h.1
      have h2 := C12_fair_terminates rest (stepThread s i) h.2
      simp only [run, List.foldl_cons, List.length_cons] at h2 ⊢
      omega

theorem C12_fair_finished (sched : List Nat) (s : St) (h : AllEnabled s sched) (hl : sched.length = remaining s) :
    finished (run s sched) = true :=
  finished_of_remaining_zero (by have := C12_fair_terminates sched s h; omega)

/-- **C12 (the run always completes)** — for every input the model's run (the given schedule, then the lowest
enabled thread) ends with every thread finished and the semaphore free. -/
theorem C12_terminates (i : Input) : (model i).finished = true ∧ (final i).sem = none := by
  obtain ⟨_, _, hfin, hsem, _, _⟩ := final_facts i
  exact ⟨by simpa [model] using hfin, hsem⟩

/-- **C12 (the semaphore's counter)** — under EVERY schedule, fault plan and program mix the counter of the shared semaphore is 1
when no thread is inside a critical section and 0 while one is: never 2.  Every reading taken after an operation on the semaphore
is 0 after an acquire and 1 after a release, and when the run is over the counter is 1 - released exactly as often as acquired. -/
theorem C12_counter (ts : List Thread) (sched : List Nat) :
    let s := run (init ts) sched
    s.semv = (if s.sem.isNone then 1 else 0) ∧ s.semv ≤ 1 ∧ s.semLog = readings s.log ∧ ∀ v ∈ s.semLog, v ≤ 1 := by
  obtain ⟨c, cu, t, r, h⟩ := inv_run ts sched
  refine ⟨h.cnt.1, ?_, h.cnt.2, ?_⟩
  · rw [h.cnt.1]; split <;> omega
  · intro v hv
    rw [h.cnt.2] at hv
    simp only [readings, List.mem_filterMap] at hv
    obtain ⟨e, _, he⟩ := hv
    cases hk : e.2 <;> simp [hk, EvK.reading?] at he <;> omega

theorem C12_counter_final (i : Input) : (model i).sem = 1 ∧ (model i).sems = readings (model i).log := by
  obtain ⟨_, _, _, _, _, _, hv, hrd⟩ := final_facts i
  exact ⟨hv, hrd⟩

theorem exclusive_flat_append : ∀ (closed : List (Nat × Section)) (rest : List Ev),
    exclusiveFrom [] (flatLog closed ++ rest) = exclusiveFrom [] rest
  | [], rest => by simp [flatLog]
  | p :: closed, rest => by
      have : flatLog (p :: closed) ++ rest
          = (p.1, EvK.acq) :: (p.2.map (fun c => (p.1, EvK.call c.1 c.2)) ++ (p.1, EvK.rel) :: (flatLog closed ++ rest)) := by
        simp [flatLog, secEvents]
      rw [this]
      simp only [exclusiveFrom]
      rw [exclusive_calls]
      exact exclusive_flat_append closed rest

/-- **C12 (control calls land between blocks)** — after *any* schedule: every call the target has received - `stop()` and the
other control calls like the calls of a test's block - was made while the calling thread, and no other, was inside a critical
section.  A control call is never delivered in the middle of another thread's block. -/
theorem C12_control_between_blocks (ts : List Thread) (sched : List Nat) :
    exclusiveFrom [] (run (init ts) sched).log = true := by
  obtain ⟨c, cu, t, r, h⟩ := inv_run ts sched
  rw [h.log_eq, exclusive_flat_append]
  cases hs : (run (init ts) sched).sem with
  | none => simp [openLog, exclusiveFrom]
  | some k =>
    simp only [openLog, exclusiveFrom]
    have : ∀ cs : Section, exclusiveFrom [k] (cs.map fun c => (k, EvK.call c.1 c.2)) = true := by
      intro cs
      induction cs with
      | nil => rfl
      | cons c cs ih => simp [exclusiveFrom, ih]
    exact this cu

/-! ### what a non-blocking acquire in `stop()` would do (the model can say it; no method of the class does it)

`stop()` written as `acquire(blocking=False) · try: target.stop() · finally: release()` is the micro-step program `seededStop`.
Thread 0 is pre-empted inside its block, thread 1 runs that `stop()` and then a whole test, thread 0 resumes: `stop` is
delivered in the middle of thread 0's block, thread 1's block too, and the counter ends at 2. -/

def seededStop : List Step := [.tryAcq, .call (.ctl .stop) false, .rel]

def blockOf (id : TId) : Section :=
  [(.time .unset, false), (.startTest id, false), (.time .wall, false), (.outcome .success id, false), (.stopTest id, false)]

def seededState : St := { pcs := [secSteps (blockOf (.t 0)), seededStop ++ secSteps (blockOf (.t 1))] }

def seededRun : St := run seededState ([0, 0, 0] ++ List.replicate 10 1 ++ List.replicate 5 0)

theorem C12_nonblocking_stop_breaks :
    seededRun.semv = 2 ∧ finished seededRun = true
      ∧ Spec.C12.exclusiveFrom [] seededRun.log = false
      ∧ (seededRun.semLog == readings seededRun.log) = false
      ∧ (Spec.C12.parse seededRun.log).isSome = false := by
  decide

/-- the forwarder-local state in which each operation of a program starts -/
def locsOf (f : List Nat) (ff : Bool) : Loc → List Op → List Loc
  | _, [] => []
  | l, o :: os => l :: locsOf f ff (runOp f ff l o).2.2 os

/-! ## tie to the source: the control skeletons of `ThreadsafeForwardingResult`
`TTV.Generated.TfrSkel.*` are produced by `harness/tfrskel.py` from `testtools/testresult/real.py` on every run; see
`TTV/Model/TfrSkel.lean` for the skeleton type, its interpreter and what is trusted. -/

/-- **C12 (source, the block)** — interpreting the skeleton of `_add_result_with_semaphore` *as found in the source*, for any
fault plan, forwarder state, outcome kind and test: the micro-steps it performs are `acquire`, exactly the calls of
the model's critical section (with the same calls raising), `release`; an exception leaves the method iff the model
says the operation raised; the forwarder-local state afterwards is the model's; no unrecognised statement. -/
theorem C12_src_block (f : List Nat) (l : Loc) (k : Kind) (id : TId) :
    TfrSkel.interp f { kind := k, id := id } Generated.TfrSkel.addResult { loc := l } =
      { loc := (stepOp f l (.outcome k id)).loc, steps := secSteps ((stepOp f l (.outcome k id)).sec.getD []),
        raised := (stepOp f l (.outcome k id)).raised, bad := false } := by
  have e : Generated.TfrSkel.addResult = TfrSkel.refAddResult := by decide
  rw [e]; exact TfrSkel.interp_refAddResult f l k id

/-- the skeleton that the source has for a control operation -/
def srcCtl : Ctl → TfrSkel.Skel
  | .startTestRun => Generated.TfrSkel.startTestRun
  | .stopTestRun => Generated.TfrSkel.stopTestRun
  | .stop => Generated.TfrSkel.stop
  | .done => Generated.TfrSkel.done
  | .shouldStop => Generated.TfrSkel.getShouldStop

/-- **C12 (source, control calls)** — `startTestRun` / `stopTestRun` / `stop` / `done` / reading `shouldStop` as found in the
source: `acquire · the call · release` whatever the call does (and for `startTestRun` the buffers and the clock are
reset first), as the model's `stepOp` has it. -/
theorem C12_src_ctl (f : List Nat) (l : Loc) (a : TfrSkel.Args) (c : Ctl) :
    TfrSkel.interp f a (srcCtl c) { loc := l } =
      { loc := (stepOp f l (.ctl c)).loc, steps := secSteps ((stepOp f l (.ctl c)).sec.getD []),
        raised := (stepOp f l (.ctl c)).raised, bad := false } := by
  cases c with
  | startTestRun =>
    have e : Generated.TfrSkel.startTestRun = TfrSkel.refStartTestRun := by decide
    simp only [srcCtl, e]; exact TfrSkel.interp_refStartTestRun f l a
  | stopTestRun =>
    have e : Generated.TfrSkel.stopTestRun = TfrSkel.refCtl .stopTestRun := by decide
    simp only [srcCtl, e]; exact TfrSkel.interp_refCtl f l a _ (by decide)
  | stop =>
    have e : Generated.TfrSkel.stop = TfrSkel.refCtl .stop := by decide
    simp only [srcCtl, e]; exact TfrSkel.interp_refCtl f l a _ (by decide)
  | done =>
    have e : Generated.TfrSkel.done = TfrSkel.refCtl .done := by decide
    simp only [srcCtl, e]; exact TfrSkel.interp_refCtl f l a _ (by decide)
  | shouldStop =>
    have e : Generated.TfrSkel.getShouldStop = TfrSkel.refCtl .shouldStop := by decide
    simp only [srcCtl, e]; exact TfrSkel.interp_refCtl f l a _ (by decide)

/-- **C12 (source, forwarder-local operations)** — `startTest`, `stopTest`, `tags`, `time` as found in the source touch no
shared object, cannot raise, and leave the local state the model's `stepOp` computes (start time taken at
`startTest`, tags merged into the test's or the run's buffer according to `_in_test`, test tags dropped at `stopTest`). -/
theorem C12_src_local (f : List Nat) (l : Loc) :
    (∀ id, TfrSkel.interp f { id := id } Generated.TfrSkel.startTest { loc := l } = { loc := (stepOp f l (.startTest id)).loc })
    ∧ (∀ id, TfrSkel.interp f { id := id } Generated.TfrSkel.stopTest { loc := l } = { loc := (stepOp f l (.stopTest id)).loc })
    ∧ (∀ new gone, TfrSkel.interp f { new := new, gone := gone } Generated.TfrSkel.tags { loc := l }
          = { loc := (stepOp f l (.tags new gone)).loc })
    ∧ (∀ t, TfrSkel.interp f { time := t } Generated.TfrSkel.time { loc := l } = { loc := (stepOp f l (.time t)).loc }) := by
  have e1 : Generated.TfrSkel.startTest = TfrSkel.refStartTest := by decide
  have e2 : Generated.TfrSkel.stopTest = TfrSkel.refStopTest := by decide
  have e3 : Generated.TfrSkel.tags = TfrSkel.refTags := by decide
  have e4 : Generated.TfrSkel.time = TfrSkel.refTime := by decide
  rw [e1, e2, e3, e4]
  exact ⟨TfrSkel.interp_refStartTest f l, TfrSkel.interp_refStopTest f l, TfrSkel.interp_refTags f l, TfrSkel.interp_refTime f l⟩

/-- **C12 (source, which outcome goes where)** — each `add*` method hands its own method of the target to
`_add_result_with_semaphore` (so the outcome call of the block is the outcome that was reported), the unsuccessful ones then
consult `failfast` on the forwarder (`Conc.runOp`); `_any_tags`, `TestResult._now`, the clock reset of `TestResult.startTestRun`, the
`shouldStop` property and `_stop_if_failfast` are the code the model's `anyTags` / `Loc.nowT` / `stepOp` transcribe. -/
theorem C12_src_forward :
    Generated.TfrSkel.forward = TfrSkel.refForward
    ∧ Generated.TfrSkel.anyTagsIsEitherNonEmpty = true ∧ Generated.TfrSkel.nowIsLastTimeOrWallClock = true
    ∧ Generated.TfrSkel.startTestRunClearsClock = true ∧ Generated.TfrSkel.shouldStopIsTheGuardedGetter = true
    ∧ Generated.TfrSkel.stopIfFailfastIsGuardedStop = true := by decide

theorem progSteps_append (a b : List Section) : progSteps (a ++ b) = progSteps a ++ progSteps b := by
  simp [progSteps]

/-- the micro-steps the source performs for one operation of a forwarder (`ff`: failfast set on it): the interpreted
skeleton of the method, and after an unsuccessful outcome that did not raise - `_stop_if_failfast()` - that of `stop` -/
def srcOpSteps (f : List Nat) (ff : Bool) (l : Loc) (o : Op) : List Step :=
  match o with
  | .outcome k id =>
    let b := TfrSkel.interp f { kind := k, id := id } Generated.TfrSkel.addResult { loc := l }
    b.steps ++ (if ff && o.unsuccessful && !b.raised then (TfrSkel.interp f {} (srcCtl .stop) { loc := b.loc }).steps else [])
  | .ctl c => (TfrSkel.interp f {} (srcCtl c) { loc := l }).steps
  | _ => []

/-- the `add*` methods after which the source calls `_stop_if_failfast()` are the outcomes the model calls unsuccessful -/
theorem C12_src_failfast_kinds :
    ∀ k : Kind, (TfrSkel.refForward.find? (·.1 == k)).map (·.2.2) = some (Op.outcome k (.t 0)).unsuccessful := by
  intro k; cases k <;> rfl

/-- every micro-step list the model runs is made of interpreted source blocks: the steps of a thread are the
concatenation, over its operations, of the steps the source skeleton of that operation performs -/
theorem C12_src_thread_steps (f : List Nat) (ff : Bool) : ∀ (ops : List Op) (l : Loc),
    progSteps (sections f ff l ops).1 = (ops.zip (locsOf f ff l ops)).flatMap fun p => srcOpSteps f ff p.2 p.1
  | [], _ => by simp [sections, progSteps, locsOf]
  | o :: os, l => by
      have ih := C12_src_thread_steps f ff os (runOp f ff l o).2.2
      simp only [sections, locsOf, List.zip_cons_cons, List.flatMap_cons, progSteps_append]
      rw [← ih]
      congr 1
      cases o with
      | outcome k id =>
        obtain ⟨s, hs, _⟩ := stepOp_outcome f l k id
        simp only [srcOpSteps, C12_src_block, C12_src_ctl, hs, Option.getD_some]
        rcases runOp_cases f ff l (.outcome k id) with h | ⟨h1, h2, h3, h⟩
        · have hc : (ff && (Op.outcome k id).unsuccessful && !(stepOp f l (.outcome k id)).raised) = false := by
            simp only [runOp] at h
            split at h
            · rename_i hc
              have := congrArg (fun x => x.1.length) h
              simp [hs, secList, stepOp] at this
            · rename_i hc; simpa using hc
          rw [h]; simp [hc, hs, secList, progSteps]
        · have hstop : ∀ l' : Loc, (stepOp f l' (.ctl .stop)).sec = some [(.ctl .stop, f.contains l'.n)] := by
            intro l'; simp [stepOp]
          rw [h]; simp [h1, h2, h3, hs, secList, progSteps, hstop]
      | ctl c =>
        simp only [srcOpSteps, C12_src_ctl]
        simp [runOp, Op.unsuccessful, stepOp, secList, progSteps]
      | time t => simp [srcOpSteps, runOp, Op.unsuccessful, stepOp, secList, progSteps]
      | tags a b => simp [srcOpSteps, runOp, Op.unsuccessful, stepOp, secList, progSteps]
      | startTest i => simp [srcOpSteps, runOp, Op.unsuccessful, stepOp, secList, progSteps]
      | stopTest i => simp [srcOpSteps, runOp, Op.unsuccessful, stepOp, secList, progSteps]

/-! ## non-vacuity -/

def exT0 : Thread := { ops := [.time (some 3), .startTest (.t 0), .time (some 4), .outcome .success (.t 0), .stopTest (.t 0)], faults := [] }
def exT1 : Thread := { ops := [.tags [7] [], .startTest (.t 0), .outcome .error (.t 0), .stopTest (.t 0), .ctl .stop], faults := [4] }

/-- two threads, an interleaving schedule with blocked picks and a raising outcome: thread 1 gets the
semaphore first, thread 0 has to wait although it is picked, the raising `addError` is followed by
`stopTest` and the release -/
example : (model { threads := [exT0, exT1], sched := [1, 0, 1, 0, 0, 1, 1, 1, 0, 1, 1, 0] }).log =
    [(1, .acq), (1, .call (.time .wall) false), (1, .call (.startTest (.t 0)) false), (1, .call (.time .wall) false),
     (1, .call (.tags [7] []) false), (1, .call (.outcome .error (.t 0)) true), (1, .call (.stopTest (.t 0)) false), (1, .rel),
     (0, .acq), (0, .call (.time (.at 3)) false), (0, .call (.startTest (.t 0)) false), (0, .call (.time (.at 4)) false),
     (0, .call (.outcome .success (.t 0)) false), (0, .call (.stopTest (.t 0)) false), (0, .rel),
     (1, .acq), (1, .call (.ctl .stop) false), (1, .rel)] := by decide

example : (model { threads := [exT0, exT1], sched := [1, 0, 1, 0, 0, 1, 1, 1, 0, 1, 1, 0] }).exc =
    [[false, false, false, false, false], [false, false, true, false, false]] := by decide

/-- the hypotheses of `C12_no_deadlock` / `C12_release` are satisfiable: a reachable unfinished state in which
thread 0 is blocked and thread 1 holds the semaphore -/
example : finished (run (init [exT0, exT1]) [1, 0]) = false ∧ (run (init [exT0, exT1]) [1, 0]).sem = some 1
    ∧ enabled (run (init [exT0, exT1]) [1, 0]) 0 = false ∧ enabled (run (init [exT0, exT1]) [1, 0]) 1 = true := by decide

/-- a log with an interleaved call is rejected by the spec (the clauses are not trivially true) -/
example : cMutex { threads := [], sched := [] }
    { log := [(0, .acq), (1, .call (.ctl .stop) false), (0, .rel)], exc := [], finished := true } = false := by decide

/-- a block without `stopTest` after a raising outcome is rejected -/
example : shapeOk [(.time .wall, false), (.startTest (.t 0), false), (.time .wall, false), (.outcome .error (.t 0), true)] = false := by decide

end TTV.Props.C12
