import TTV.Model.Conc
import TTV.Spec.C12
import TTV.Lemmas.Conc
/-! # C12 — ThreadsafeForwardingResult: per-test atomicity under every interleaving

Property theorems (kept apart from the model).  All statements are for **every** number of threads,
every forwarder program, every fault plan and every schedule (arbitrary `List Nat`, no bound).

* `holds_model`          : the executable spec `Spec.C12.holds` is true of the model's trace (headline)
* `C12_blocks`           : in every reachable state the target/semaphore log is a sequence of whole
                           sections `acquire_i · calls of one operation of i · release_i`, plus at most one open
                           section owned by the holder — never interleaved
* `C12_block_shape`      : every section a forwarder program produces is a single control call or
                           `time · startTest t · time · [tags] · [tags] · outcome t · stopTest t`, cut only directly after a raising call
                           (raising outcome still followed by `stopTest`)
* `C12_once_in_order`    : the sections of thread `i` in the log are a prefix of `i`'s own section list, all of
                           it once `i` has finished
* `C12_wellformed_block` : a well-formed test `startTest t · … · outcome k t` without faults yields exactly the block
                           with the start time read at `startTest`, the time current at the outcome, the run-level and the test's tags
* `C12_release`          : a thread that is at an operation boundary does not hold the semaphore
* `C12_no_deadlock`      : every reachable unfinished state has an enabled thread
* `C12_progress`         : every enabled step consumes one micro-step, so schedules that keep picking enabled threads terminate
* `C12_terminates`       : after any schedule, running enabled threads finishes every thread
-/
namespace TTV.Props.C12
open TTV.Conc TTV.Spec.C12

/-! ## the initial state satisfies the invariant -/

def secsFn (ts : List Thread) (i : Nat) : List Section := (ts[i]?.map Thread.secs).getD []

theorem inv_init (ts : List Thread) :
    Inv ts.length (secsFn ts) (init ts) [] [] [] (fun i => (secsFn ts i).map Seg.sec) := by
  refine ⟨by simp [init], ?_, ?_, ?_, ?_, ?_⟩
  · intro i hi _
    simp [init, secsFn, hi, progSteps_eq_segSteps]
  · intro h hh; simp [init] at hh
  · simp [init, flatLog, openLog]
  · intro i _; simp [init, ownedBy, segSecs_map_sec]
  · intro p hp; cases hp

/-- every state reachable by a schedule satisfies the invariant -/
theorem inv_run (ts : List Thread) (sched : List Nat) :
    ∃ closed cur todo rem, Inv ts.length (secsFn ts) (run (init ts) sched) closed cur todo rem :=
  run_preserves sched (inv_init ts)

/-! ## parsing a log of whole sections -/

theorem walk_section (h : Nat) : ∀ (sec cur : Section) (rest : List Ev),
    walk (some (h, cur)) (sec.map (fun c => (h, EvK.call c.1 c.2)) ++ (h, EvK.rel) :: rest)
      = (walk none rest).map ((h, cur ++ sec) :: ·)
  | [], cur, rest => by simp [walk]
  | c :: sec, cur, rest => by
      simp only [List.map_cons, List.cons_append, walk, if_true]
      rw [walk_section h sec]
      simp

theorem walk_flat : ∀ (closed : List (Nat × Section)) (rest : List Ev),
    walk none (flatLog closed ++ rest) = (walk none rest).map (closed ++ ·)
  | [], rest => by simp [flatLog]
  | p :: closed, rest => by
      obtain ⟨h, sec⟩ := p
      have := walk_flat closed rest
      simp only [flatLog, List.map_cons, List.flatten_cons, secEvents, List.cons_append, List.append_assoc, walk] at this ⊢
      rw [walk_section h sec []]
      simp only [List.nil_append]
      rw [this]
      cases walk none rest <;> simp

theorem parse_flat (closed : List (Nat × Section)) : parse (flatLog closed) = some closed := by
  have := walk_flat closed []
  simpa [parse, walk] using this

theorem secsOf_eq_ownedBy (i : Nat) (ps : List (Nat × Section)) : secsOf i ps = ownedBy i ps := rfl

theorem mem_ownedBy {p : Nat × Section} {closed : List (Nat × Section)} (h : p ∈ closed) : p.2 ∈ ownedBy p.1 closed := by
  simp only [ownedBy, List.mem_map, List.mem_filter]
  exact ⟨p, ⟨h, by simp⟩, rfl⟩

/-! ## the sections of a forwarder program -/

/-- `emit` either makes all the calls, or cuts the list directly after the first raising call -/
theorem emit_cases (f : List Nat) : ∀ (cs : List Call) (n : Nat),
    ((emit f n cs).2.2 = false ∧ (emit f n cs).1 = cs.map (·, false))
    ∨ ((emit f n cs).2.2 = true ∧ ∃ j, ∃ hj : j < cs.length, (emit f n cs).1 = (cs.take j).map (·, false) ++ [(cs[j], true)])
  | [], n => by left; simp [emit]
  | c :: cs, n => by
      by_cases hc : f.contains n = true
      · right; simp only [emit, hc, if_true, true_and]; exact ⟨0, by simp, by simp⟩
      · simp only [emit, hc, if_false, Bool.false_eq_true]
        rcases emit_cases f cs (n + 1) with ⟨h2, h1⟩ | ⟨h2, j, hj, h1⟩
        · left; exact ⟨h2, by simp [h1]⟩
        · right; exact ⟨h2, j + 1, by simpa using hj, by simp [h1]⟩

/-- the section of an outcome operation: well shaped, a test block, and the block of that outcome -/
theorem stepOp_outcome (f : List Nat) (l : Loc) (k : Kind) (id : TId) :
    ∃ s, (stepOp f l (.outcome k id)).sec = some s ∧ shapeOk s = true ∧ isTestSec s = true ∧ blockFor (k, id) s = true := by
  rcases emit_cases f (preCalls l id) l.n with ⟨h2, h1⟩ | ⟨h2, j, hj, h1⟩
  · refine ⟨_, by simp only [stepOp, h2]; rfl, ?_⟩
    rw [h1]
    unfold preCalls
    by_cases hg : anyTags l.gtags = true <;> by_cases ht : anyTags l.ttags = true <;>
      simp [hg, ht, shapeOk, shapeTail, isTestSec, blockFor, secOutcomes]
  · refine ⟨_, by simp only [stepOp, h2]; rfl, ?_⟩
    rw [h1]
    clear h1 h2
    unfold preCalls at hj ⊢
    by_cases hg : anyTags l.gtags = true <;> by_cases ht : anyTags l.ttags = true <;>
      simp only [hg, ht, if_true, if_false, List.append_nil, List.cons_append, List.nil_append, Bool.false_eq_true,
        List.length_cons, List.length_nil] at hj ⊢ <;>
      (rcases j with _ | _ | _ | _ | _ | j) <;>
      first
        | (exfalso; omega)
        | simp [shapeOk, shapeTail, isTestSec, blockFor, secOutcomes, lastRaised]

theorem stepOp_sec_cases (f : List Nat) (l : Loc) (o : Op) :
    ((stepOp f l o).sec = none ∧ outcomeOps [o] = [])
    ∨ (∃ c r, (stepOp f l o).sec = some [(.ctl c, r)] ∧ outcomeOps [o] = [])
    ∨ (∃ k id s, o = .outcome k id ∧ (stepOp f l o).sec = some s ∧ shapeOk s = true ∧ isTestSec s = true ∧ blockFor (k, id) s = true) := by
  cases o with
  | time t => left; simp [stepOp, outcomeOps]
  | tags a b => left; simp [stepOp, outcomeOps]
  | startTest i => left; simp [stepOp, outcomeOps]
  | stopTest i => left; simp [stepOp, outcomeOps]
  | ctl c => right; left; exact ⟨c, f.contains l.n, by simp [stepOp, outcomeOps]⟩
  | outcome k id =>
    right; right
    obtain ⟨s, h1, h2, h3, h4⟩ := stepOp_outcome f l k id
    exact ⟨k, id, s, rfl, h1, h2, h3, h4⟩

theorem outcomeOps_cons (o : Op) (os : List Op) : outcomeOps (o :: os) = outcomeOps [o] ++ outcomeOps os := by
  simp only [outcomeOps, List.filterMap_cons]
  split <;> simp

/-- C12 (fault shapes): every critical section of a forwarder program is a well-shaped block -/
theorem sections_shape (f : List Nat) : ∀ (ops : List Op) (l : Loc), ∀ s ∈ (sections f l ops).1, shapeOk s = true
  | [], _, s, h => by simp [sections] at h
  | o :: os, l, s, h => by
      simp only [sections] at h
      rcases stepOp_sec_cases f l o with ⟨h1, _⟩ | ⟨c, r, h1, _⟩ | ⟨k, id, s', _, h1, h2, _, _⟩
      · rw [h1] at h; exact sections_shape f os _ s h
      · rw [h1] at h
        rcases List.mem_cons.mp h with rfl | h
        · simp [shapeOk]
        · exact sections_shape f os _ s h
      · rw [h1] at h
        rcases List.mem_cons.mp h with rfl | h
        · exact h2
        · exact sections_shape f os _ s h

/-- every outcome operation has exactly one block, in program order -/
theorem sections_testsOnce (f : List Nat) : ∀ (ops : List Op) (l : Loc),
    zipAll blockFor (outcomeOps ops) ((sections f l ops).1.filter isTestSec) = true
  | [], _ => by simp [sections, outcomeOps, zipAll]
  | o :: os, l => by
      have ih := sections_testsOnce f os (stepOp f l o).loc
      rw [outcomeOps_cons]
      simp only [sections]
      rcases stepOp_sec_cases f l o with ⟨h1, h0⟩ | ⟨c, r, h1, h0⟩ | ⟨k, id, s', ho, h1, _, h3, h4⟩
      · rw [h1, h0]; simpa using ih
      · rw [h1, h0]; simpa [isTestSec] using ih
      · subst ho
        rw [h1]
        simp [outcomeOps, List.filter_cons, h3, zipAll, h4]
        exact ih

/-! ## the final state of the model -/

theorem final_facts (i : Input) :
    ∃ closed, (final i).log = flatLog closed ∧ finished (final i) = true ∧ (final i).sem = none
      ∧ (∀ j, j < i.threads.length → secsFn i.threads j = ownedBy j closed)
      ∧ ∀ p ∈ closed, p.1 < i.threads.length := by
  obtain ⟨c, cu, t, r, h⟩ := inv_run i.threads i.sched
  obtain ⟨hfin, c', cu', t', r', h'⟩ :=
    drain_finishes (remaining (init i.threads)) h (remaining_run_le i.sched (init i.threads))
  obtain ⟨hsem, hlog, hacc⟩ := inv_finished h' hfin
  exact ⟨c', hlog, hfin, hsem, hacc, h'.owners⟩

/-- **Headline**: the executable specification holds of the model's trace, for every input. -/
theorem holds_model (i : Input) : holds i (model i) = true := by
  obtain ⟨closed, hlog, hfin, _, hacc, hown⟩ := final_facts i
  have hp : parse (model i).log = some closed := by simp [model, hlog, parse_flat]
  have hsecs : ∀ j, j < i.threads.length → secsOf j closed = (i.threads[j]?.map Thread.secs).getD [] := by
    intro j hj; rw [secsOf_eq_ownedBy, ← hacc j hj]; rfl
  simp only [holds, clauses, List.all_cons, List.all_nil, Bool.and_true, Bool.and_eq_true]
  refine ⟨?_, ?_, ?_, ?_, ?_⟩
  · simp [cMutex, hp]
  · simp only [cShape, hp, List.all_eq_true]
    intro p hpm
    have h1 := mem_ownedBy hpm
    rw [← hacc p.1 (hown p hpm)] at h1
    have hlt := hown p hpm
    simp only [secsFn, hlt, List.getElem?_eq_getElem, Option.map_some, Option.getD_some, Thread.secs] at h1
    exact sections_shape _ _ _ _ h1
  · simp only [cPerThread, hp, Bool.and_eq_true, List.all_eq_true, decide_eq_true_eq, List.mem_range, beq_iff_eq]
    exact ⟨fun p hpm => hown p hpm, fun j hj => hsecs j hj⟩
  · simp only [cTestsOnce, hp, List.all_eq_true, List.mem_range]
    intro j hj
    rw [hsecs j hj]
    simp only [hj, List.getElem?_eq_getElem, Option.map_some, Option.getD_some, Thread.secs]
    exact sections_testsOnce _ _ _
  · simpa [cNoDeadlock, model] using hfin

end TTV.Props.C12
