import TTV.Model.Conc
import TTV.Spec.C12
/-! # C12 — ThreadsafeForwardingResult: per-test atomicity under every interleaving (theorems: in progress) -/
namespace TTV.Props.C12
open TTV.Conc TTV.Spec.C12

end TTV.Props.C12
