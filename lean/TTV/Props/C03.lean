import TTV.Props.C01
import TTV.Spec.C03
/-! # C03 — the reported outcome is sound; failures are never masked

For every program, handler table, flavour and left-over `force_failure` (see `Props/C01.lean` for the
quantifier).  The documented type→outcome mapping `Spec.C03.docDefault` is stated independently of the
`exception_handlers` table extracted from the source; `lookup_default` proves that the extracted table
implements it (a reordered or edited table breaks this proof). -/
namespace TTV.Props.C03
open TTV.Run TTV.Spec.Run TTV.Spec.C03

/-! ## the extracted handler table implements the documented mapping -/
theorem lookup_default (e : Exc) : lookup defaultHandlers e = docDefault e.cls := by
  simp only [lookup, handlerFor, defaultHandlers, TTV.Generated.C01.exceptionHandlers, List.map_cons, List.map_nil,
    clsOfRow, outcomeOfRow, List.find?_cons, List.find?_nil, docDefault]
  cases isSub e.cls .skip <;> cases isSub e.cls .failure <;> cases isSub e.cls .xfail <;>
    cases isSub e.cls .uxs <;> cases isSub e.cls .exc <;> simp [Reporter.outcome]

theorem default_reporters : defaultHandlers.all (fun h => match h.2 with | .std o => o != .success | .user _ _ => false) = true := by
  decide

theorem handlerFor_append (u d : Handlers) (e : Exc) :
    handlerFor (u ++ d) e = (handlerFor u e).or (handlerFor d e) := by
  simp only [handlerFor, List.find?_append]
  cases List.find? (fun h => isSub e.cls h.1) u <;> simp

theorem handlerFor_mem (hs : Handlers) (e : Exc) (r : Reporter) (h : handlerFor hs e = some r) :
    ∃ c, (c, r) ∈ hs := by
  simp only [handlerFor, Option.map_eq_some_iff] at h
  obtain ⟨x, hx, rfl⟩ := h
  exact ⟨x.1, List.mem_of_find?_eq_some hx⟩

/-- what the handler table says about an exception agrees with the documented mapping -/
theorem outcome_eq_mapsTo (p : Program) (e : Exc) :
    ((handlerFor (handlers p) e).map Reporter.outcome).getD .error = mapsTo p e := by
  simp only [handlers, handlerFor_append, mapsTo]
  cases hu : handlerFor p.userHandlers e with
  | some r => simp
  | none =>
    simp only [Option.none_or]
    have := lookup_default e
    simp only [lookup] at this
    rw [this]

theorem degrade_unsuccessful (f : Flavour) (o : Outcome) (h : o.unsuccessful = true) :
    (degrade f o).unsuccessful = true := by
  cases f <;> cases o <;> simp_all [degrade, Outcome.unsuccessful]

theorem degrade_success (f : Flavour) (o : Outcome) (hf : f ≠ .py26) : degrade f o = .success ↔ o = .success := by
  cases f <;> cases o <;> simp_all [degrade]

/-- the reporter of a selected exception reports a non-success unless the user supplied one that does -/
theorem reporter_not_success (p : Program) (e : Exc) (r : Reporter)
    (hu : p.userHandlers.any (fun h => h.2.outcome == .success) = false)
    (h : handlerFor (handlers p) e = some r) : r.outcome ≠ .success := by
  obtain ⟨c, hm⟩ := handlerFor_mem _ _ _ h
  simp only [handlers, List.mem_append] at hm
  rcases hm with hm | hm
  · intro hs
    have : p.userHandlers.any (fun h => h.2.outcome == .success) = true :=
      List.any_eq_true.mpr ⟨(c, r), hm, by simp [hs]⟩
    simp [hu] at this
  · have := List.all_eq_true.mp default_reporters (c, r) hm
    cases r with
    | std o => simpa [Reporter.outcome] using this
    | user i o => simp at this

theorem select_single (hs : Handlers) (e : Exc) : select hs [e] = some e := by
  unfold select
  simp only [List.find?_cons, List.find?_nil, List.reverse_cons, List.reverse_nil, List.nil_append, List.getLast?_singleton]
  cases claimed hs e <;> cases benign hs e <;> simp

/-- no downgrade, at the level of selection: if some exception is not benign (its handler is not the
case's own skip / expected-failure reporter) and all are claimed, a non-benign one is selected -/
theorem select_not_benign (hs : Handlers) (es : List Exc) (h : ∃ e ∈ es, benign hs e = false)
    (hall : ∀ e ∈ es, claimed hs e = true) :
    ∃ e, select hs es = some e ∧ benign hs e = false := by
  unfold select
  have h1 : es.find? (fun e => !claimed hs e) = none := by
    rw [List.find?_eq_none]; intro e he; simp [hall e he]
  rw [h1]
  dsimp only
  split
  · rename_i e he
    exact ⟨e, rfl, by simpa using List.find?_some he⟩
  · rename_i hnone
    obtain ⟨e, hmem, hb⟩ := h
    have := List.find?_eq_none.mp hnone e (by simpa using hmem)
    simp [hb] at this

theorem handlerFor_default_forced : handlerFor defaultHandlers forcedFailure = some (.std .failure) := by decide

/-- with the forced failure last, every exception claimed and the forced failure handled by something else than the
case's own skip / expected-failure reporter, the forced failure is the one selected -/
theorem select_forced_last (hs : Handlers) (L : List Exc) (hall : ∀ e ∈ L ++ [forcedFailure], claimed hs e = true)
    (hb : benign hs forcedFailure = false) : select hs (L ++ [forcedFailure]) = some forcedFailure := by
  unfold select
  have h1 : (L ++ [forcedFailure]).find? (fun e => !claimed hs e) = none := by
    rw [List.find?_eq_none]; intro e he; simp [hall e he]
  rw [h1]
  simp [List.reverse_append, List.find?_cons, hb]

section perRun
variable (p : Program) (ff0 : Bool) (hwf : wf p = true)
include hwf

theorem observed_shape (hskip : p.skipDeco = none) (o : Outcome) (d : Details) (r : Option Exc) (ffa : Bool) (n : Nat)
    (a : List (Nat × Nat)) :
    observed ⟨wrapRun p.flavour ([.startTest] ++ (runCore p ff0).1.log ++ [.outcome o d] ++ stopEv p.flavour), r, ffa, n, a⟩ = some o := by
  have cf := runCore_facts p ff0 hwf hskip
  unfold observed
  rw [C01.outcomeOf_shape _ _ cf.logPure]
  rfl

theorem clause_successIff : cSuccessIff p ff0 (runOnce p ff0) = true := by
  cases hskip : p.skipDeco with
  | some r => simp [cSuccessIff, hskip]
  | none =>
    simp only [cSuccessIff, hskip, Option.isSome_none, Bool.false_or, Bool.or_eq_true]
    by_cases hpy : p.flavour = .py26
    · left; left; simp [hpy]
    by_cases hus : p.userHandlers.any (fun h => h.2.outcome == .success) = true
    · left; right; exact hus
    right
    simp only [Bool.not_eq_true] at hus
    obtain ⟨o, d, r, sel, hdec, hshape⟩ := runOnce_shape p ff0 hwf hskip
    rw [hshape, observed_shape p ff0 hwf hskip, (reads_of p ff0 hwf hskip _ _ _ _ _ _).raised]
    cases hdec with
    | success hnil => simp [hnil, degrade_success _ _ hpy]
    | handled e rep hsel hh =>
      have hne : (runCore p ff0).1.excs ≠ [] := by
        intro h0; have := select_mem _ _ _ hsel; rw [h0] at this; simp at this
      have := reporter_not_success p e rep hus hh
      have h1 : degrade p.flavour rep.outcome ≠ .success := fun h => this ((degrade_success _ _ hpy).mp h)
      have h2 : (degrade p.flavour rep.outcome == Outcome.success) = false := by simpa using h1
      have h3 : (runCore p ff0).1.excs.isEmpty = false := by cases h : (runCore p ff0).1.excs <;> simp_all
      simp [h2, h3]
    | lastResort e hsel hh =>
      have hne : (runCore p ff0).1.excs ≠ [] := by
        intro h0; have := select_mem _ _ _ hsel; rw [h0] at this; simp at this
      have h1 : degrade p.flavour .error ≠ .success := fun h => by have := (degrade_success _ _ hpy).mp h; simp at this
      have h2 : (degrade p.flavour .error == Outcome.success) = false := by simpa using h1
      have h3 : (runCore p ff0).1.excs.isEmpty = false := by cases h : (runCore p ff0).1.excs <;> simp_all
      simp [h2, h3]

theorem clause_single : cSingle p ff0 (runOnce p ff0) = true := by
  cases hskip : p.skipDeco with
  | some r => simp [cSingle, hskip]
  | none =>
    simp only [cSingle, hskip, Option.isSome_none, Bool.false_or]
    obtain ⟨o, d, r, sel, hdec, hshape⟩ := runOnce_shape p ff0 hwf hskip
    rw [hshape, observed_shape p ff0 hwf hskip, (reads_of p ff0 hwf hskip _ _ _ _ _ _).raised]
    split
    · rename_i e hex
      rw [hex] at hdec
      have hm := outcome_eq_mapsTo p e
      cases hdec with
      | success hnil => simp at hnil
      | handled e' rep hsel hh =>
        rw [select_single] at hsel
        cases hsel
        simp only [hh, Option.map_some, Option.getD_some] at hm
        simp [hm]
      | lastResort e' hsel hh =>
        rw [select_single] at hsel
        cases hsel
        simp only [hh, Option.map_none, Option.getD_none] at hm
        simp [hm]
    · rfl

theorem clause_noDowngrade : cNoDowngrade p ff0 (runOnce p ff0) = true := by
  cases hskip : p.skipDeco with
  | some r => simp [cNoDowngrade, hskip]
  | none =>
    simp only [cNoDowngrade, hskip, Option.isSome_none, Bool.false_or, Bool.or_eq_true]
    by_cases hu : userHandlersUnsuccessful p = true
    case neg => left; left; simpa using hu
    obtain ⟨o, d, r, sel, hdec, hshape⟩ := runOnce_shape p ff0 hwf hskip
    rw [hshape, observed_shape p ff0 hwf hskip, (reads_of p ff0 hwf hskip _ _ _ _ _ _).raised]
    by_cases hany : (runCore p ff0).1.excs.any (fun e => mapsTo p e == .failure || mapsTo p e == .error) = true
    case neg => left; right; simpa using hany
    right
    obtain ⟨x, hx, hxm⟩ := List.any_eq_true.mp hany
    -- x is not benign
    have hxb : benign (handlers p) x = false := by
      have hm := outcome_eq_mapsTo p x
      unfold benign
      cases hh : handlerFor (handlers p) x with
      | none => rfl
      | some rep =>
        rw [hh] at hm
        simp only [Option.map_some, Option.getD_some] at hm
        cases rep with
        | user i o => rfl
        | std o =>
          have hxm' : mapsTo p x = .failure ∨ mapsTo p x = .error := by
            simpa [Bool.or_eq_true] using hxm
          cases o <;> simp_all [Reporter.outcome] <;> (rcases hxm' with h | h <;> rw [h] at hm <;> cases hm)
    have hrep_unsucc : ∀ (e : Exc) (rep : Reporter), handlerFor (handlers p) e = some rep →
        benign (handlers p) e = false → rep.outcome.unsuccessful = true := by
      intro e rep hh hb
      obtain ⟨c, hm⟩ := handlerFor_mem _ _ _ hh
      simp only [handlers, List.mem_append] at hm
      rcases hm with hm | hm
      · exact List.all_eq_true.mp hu (c, rep) hm
      · have := List.all_eq_true.mp default_reporters (c, rep) hm
        simp only [benign, hh] at hb
        cases rep with
        | user i o => simp at this
        | std o => cases o <;> simp_all [Reporter.outcome, Outcome.unsuccessful]
    cases hdec with
    | success hnil => rw [hnil] at hx; simp at hx
    | lastResort e hsel hh => exact degrade_unsuccessful _ _ rfl
    | handled e rep hsel hh =>
      have hall := select_handled_all _ _ e rep hsel hh
      obtain ⟨e', hsel', hb'⟩ := select_not_benign _ _ ⟨x, hx, hxb⟩ hall
      rw [hsel] at hsel'
      cases hsel'
      exact degrade_unsuccessful _ _ (hrep_unsucc e rep hh hb')

theorem clause_expectationFails : cExpectationFails p ff0 (runOnce p ff0) = true := by
  cases hskip : p.skipDeco with
  | some r => simp [cExpectationFails, hskip]
  | none =>
    simp only [cExpectationFails, hskip, Option.isSome_none, Bool.false_or, Bool.or_eq_true]
    obtain ⟨o, d, r, sel, hdec, hshape⟩ := runOnce_shape p ff0 hwf hskip
    rw [hshape, observed_shape p ff0 hwf hskip, (reads_of p ff0 hwf hskip _ _ _ _ _ _).ffNow]
    by_cases hff : (runCore p ff0).1.ff = true
    case neg => left; left; simpa using hff
    by_cases hu : (handlerFor p.userHandlers forcedFailure).isSome = true
    case pos => left; right; exact hu
    right
    have cf := runCore_facts p ff0 hwf hskip
    have hex : (runCore p ff0).1.excs = (runCore p ff0).1.execd.flatMap (stageExcs p) ++ [forcedFailure] := by
      rw [cf.excs]; simp [hff]
    have hh0 : handlerFor (handlers p) forcedFailure = some (.std .failure) := by
      have hn : handlerFor p.userHandlers forcedFailure = none := by simpa using hu
      simp only [handlers, handlerFor_append, hn, Option.none_or, handlerFor_default_forced]
    cases hdec with
    | success hnil => rw [hex] at hnil; simp at hnil
    | lastResort e hsel hh => right; simp
    | handled e rep hsel hh =>
      left
      have hall := select_handled_all _ _ e rep hsel hh
      rw [hex] at hall hsel
      rw [select_forced_last _ _ hall (by simp [benign, hh0])] at hsel
      cases hsel
      rw [hh0] at hh; cases hh
      simp [Reporter.outcome]

end perRun

/-- the executable spec of C03 holds of the model's trace for every input -/
theorem holds_model (i : Input) : holds i (model i) = true := by
  simp only [holds, clauses, List.all_cons, List.all_nil, Bool.and_true, Bool.and_eq_true]
  exact ⟨C01.lift_model _ i (fun hwf ff0 => clause_successIff _ ff0 hwf),
    C01.lift_model _ i (fun hwf ff0 => clause_single _ ff0 hwf),
    C01.lift_model _ i (fun hwf ff0 => clause_noDowngrade _ ff0 hwf),
    C01.lift_model _ i (fun hwf ff0 => clause_expectationFails _ ff0 hwf)⟩

/-! ## readable statements -/

/-- C03 (success): on results that show every outcome kind, and unless a user-supplied handler itself
reports success, a success is reported iff no stage raised anything, no `expectThat` mismatched and
`force_failure` was not set (a mismatch / the flag adds the forced failure to `excs`). -/
theorem C03_success_iff (p : Program) (ff0 : Bool) (hwf : wf p = true) (hskip : p.skipDeco = none)
    (hpy : p.flavour ≠ .py26) (hus : p.userHandlers.any (fun h => h.2.outcome == .success) = false) :
    observed (runOnce p ff0) = some .success ↔ (runCore p ff0).1.excs = [] := by
  have := clause_successIff p ff0 hwf
  simp only [cSuccessIff, hskip, Option.isSome_none, Bool.false_or, hus, Bool.or_false] at this
  have hpy' : (p.flavour == Flavour.py26) = false := by simpa using hpy
  simp only [hpy', Bool.false_or, beq_iff_eq] at this
  obtain ⟨o, d, r, sel, hdec, hshape⟩ := runOnce_shape p ff0 hwf hskip
  rw [hshape, (reads_of p ff0 hwf hskip _ _ _ _ _ _).raised] at this
  rw [hshape]
  constructor
  · intro h
    rw [h] at this
    simpa using this.symm
  · intro h
    rw [h] at this
    simpa using this

/-- C03 (forced failure): a mismatching `expectThat` anywhere in an executed stage — `setUp` included, whether or
not `setUp` then completes —, or `force_failure` left set, makes the run raise the forced failure — so by
`C03_success_iff` it is not a success. -/
theorem C03_forced (p : Program) (ff0 : Bool) (hwf : wf p = true) (hskip : p.skipDeco = none)
    (hff : (runCore p ff0).1.ff = true) : forcedFailure ∈ (runCore p ff0).1.excs := by
  have cf := runCore_facts p ff0 hwf hskip
  rw [cf.excs]; simp [hff]

/-- C03 (a failed expectation is never reported as anything milder): if an `expectThat` mismatched in an executed
stage (or `force_failure` was left set) and the user inserted no handler claiming the forced `AssertionError`, the
one reported outcome is a failure, or the error of an exception that has to propagate — whatever else was raised,
in particular when `setUp` recorded the mismatch and then raised a skip or an expected failure. -/
theorem C03_expectation_fails (p : Program) (ff0 : Bool) (hwf : wf p = true) (hskip : p.skipDeco = none)
    (hu : handlerFor p.userHandlers forcedFailure = none) (hff : (runCore p ff0).1.ff = true) :
    observed (runOnce p ff0) = some (degrade p.flavour .failure) ∨
    observed (runOnce p ff0) = some (degrade p.flavour .error) := by
  have := clause_expectationFails p ff0 hwf
  simp only [cExpectationFails, hskip, Option.isSome_none, Bool.false_or, hu, Option.isSome_none, Bool.or_false] at this
  obtain ⟨o, d, r, sel, hdec, hshape⟩ := runOnce_shape p ff0 hwf hskip
  rw [hshape, (reads_of p ff0 hwf hskip _ _ _ _ _ _).ffNow, observed_shape p ff0 hwf hskip] at this
  rw [hshape, observed_shape p ff0 hwf hskip]
  simpa [hff] using this

/-- C03 (single exception): exactly one exception ⇒ the outcome its type maps to, user handlers first. -/
theorem C03_single (p : Program) (ff0 : Bool) (hwf : wf p = true) (hskip : p.skipDeco = none) (e : Exc)
    (h : (runCore p ff0).1.excs = [e]) : observed (runOnce p ff0) = some (degrade p.flavour (mapsTo p e)) := by
  have := clause_single p ff0 hwf
  simp only [cSingle, hskip, Option.isSome_none, Bool.false_or] at this
  obtain ⟨o, d, r, sel, hdec, hshape⟩ := runOnce_shape p ff0 hwf hskip
  rw [hshape, (reads_of p ff0 hwf hskip _ _ _ _ _ _).raised, h] at this
  rw [hshape]
  simpa using this

/-- C03 (never masked): if any stage raised an exception that maps to failure or error — wherever, and
whatever other stages raised before or after it (skips, expected failures, anything) — the one reported
outcome is failure, error or unexpected success.  Hypothesis: handlers inserted by the user report
unsuccessful outcomes (a user handler is arbitrary code). -/
theorem C03_no_downgrade (p : Program) (ff0 : Bool) (hwf : wf p = true) (hskip : p.skipDeco = none)
    (hu : userHandlersUnsuccessful p = true)
    (h : ∃ e ∈ (runCore p ff0).1.excs, mapsTo p e = .failure ∨ mapsTo p e = .error) :
    ∃ o, observed (runOnce p ff0) = some o ∧ o.unsuccessful = true := by
  have := clause_noDowngrade p ff0 hwf
  simp only [cNoDowngrade, hskip, Option.isSome_none, Bool.false_or, hu, Bool.not_true] at this
  obtain ⟨o, d, r, sel, hdec, hshape⟩ := runOnce_shape p ff0 hwf hskip
  rw [hshape, (reads_of p ff0 hwf hskip _ _ _ _ _ _).raised, observed_shape p ff0 hwf hskip] at this
  have hany : (runCore p ff0).1.excs.any (fun e => mapsTo p e == .failure || mapsTo p e == .error) = true := by
    obtain ⟨e, he, hm⟩ := h
    exact List.any_eq_true.mpr ⟨e, he, by rcases hm with hm | hm <;> simp [hm]⟩
  simp only [hany, Bool.not_true, Bool.false_or] at this
  exact ⟨degrade p.flavour o, by rw [hshape, observed_shape p ff0 hwf hskip], this⟩

/-! ## non-vacuity: a failure in the test method followed by a skip raised in a cleanup -/
def demo : Program :=
  { skipDeco := none, xfailDeco := false
    setUp := .mk 1 [] .ret
    body := .mk 2 [.cleanup (.mk 4 [] (.raise1 ⟨.skip, 7⟩))] (.raise1 ⟨.failure, 1⟩)
    tearDown := .mk 3 [] .ret
    userHandlers := [(.user 2 .exc, .user 0 .failure)], nOnExc := 0, attrs0 := [], flavour := .ext }

example : wf demo = true ∧ userHandlersUnsuccessful demo = true ∧ mapsTo demo ⟨.failure, 1⟩ = .failure := by decide

/-! ### tie to the source: `RunTest._select_exception` / `_handler_for`
`TTV.Generated.RunSkel.selectRules` is produced by `harness/pyskel.py` from `testtools/runtest.py` on every run. -/
/-- the model's `select` is the interpretation of the selection rules found in the source, and `_handler_for`
is the first-isinstance-match loop that `handlerFor` transcribes -/
theorem C03_src_select (hs : Handlers) (es : List Exc) :
    RunSkel.selInterp hs es Generated.RunSkel.selectRules = select hs es
      ∧ Generated.RunSkel.handlerForIsFirstMatch = true := by
  have e : Generated.RunSkel.selectRules = RunSkel.refSelect := by decide
  rw [e]; exact ⟨RunSkel.selInterp_refSelect hs es, by decide⟩

end TTV.Props.C03
