import TTV.Model.StreamConvert
import TTV.Spec.C09
import TTV.Props.C10
import TTV.Lemmas.ConvertSrc
import TTV.Generated.ConvertSrc
/-! # C09 — TestResult → StreamResult → TestResult conversion preserves every test

All statements are for **every** well-formed history (any number of tests, any outcome kinds and payloads, any
number of details and chunks, any `tags()` / `time()` calls). -/
namespace TTV.Props.C09
open TTV.Stream TTV.Stream.Convert TTV.Spec.C09

/-! ## the chunk loop -/
/-- the one-chunk look-ahead loop, entered with a pending chunk, emits exactly "all chunks, `eof` on the last" -/
theorem chunkLoop_some (mk : Bytes → Bool → Event) : ∀ (cs : List Bytes) (b : Bytes),
    chunkLoop mk (some b) cs = (chunksWithEof (b :: cs)).map fun c => mk c.1 c.2
  | [], b => by simp [chunkLoop, chunksWithEof]
  | c :: cs, b => by
      have ih := chunkLoop_some mk cs c
      simp [chunkLoop, ih, chunksWithEof]

/-- **C09 (chunks)**: for every chunk list the loop emits the chunks in order with `eof` exactly on the last one; a
detail without chunks yields one empty `eof` chunk. -/
theorem C09_chunks (mk : Bytes → Bool → Event) (cs : List Bytes) :
    chunkLoop mk none cs = (chunksWithEof cs).map fun c => mk c.1 c.2 := by
  cases cs with
  | nil => simp [chunkLoop, chunksWithEof]
  | cons c cs => simp only [chunkLoop, List.nil_append]; exact chunkLoop_some mk cs c

theorem chunksWithEof_bytes (cs : List Bytes) : ((chunksWithEof cs).map (·.1)).flatten = cs.flatten := by
  cases h : cs.getLast? with
  | none =>
    have : cs = [] := by simpa using h
    simp [chunksWithEof, this]
  | some l =>
    have hne : cs ≠ [] := by intro hh; simp [hh] at h
    have h2 := List.dropLast_concat_getLast hne
    have h3 : cs.getLast hne = l := by
      rw [List.getLast?_eq_some_getLast hne] at h; simpa using h
    simp only [chunksWithEof, List.map_append, List.map_map, Function.comp_def, List.map_id', h, Option.getD_some,
      List.map_cons, List.map_nil]
    conv => rhs; rw [← h2, h3]

/-! ## the stream between the converters -/
theorem shape_fileEvent (id : Nat) (ts : Ts) (name mime : Nat) (c : Bytes × Bool) :
    shape (fileEvent id ts name mime c.1 c.2) = fileShape id name mime c := rfl

theorem detailEvents_shape (id : Nat) (ts : Ts) (ds : List DetailIn) :
    (detailEvents id ts ds).map shape
      = ((asDict ds).map fun d => (chunksWithEof d.chunks).map (fileShape id d.name d.mime)).flatten := by
  simp only [detailEvents, List.map_flatten, List.map_map]
  congr 1
  apply List.map_congr_left
  intro d _
  simp only [Function.comp_def, C09_chunks, List.map_map, shape_fileEvent]

theorem asDict_single (d : DetailIn) : asDict [d] = [d] := by simp [asDict]

theorem convert_shape (id : Nat) (ts : Ts) (tags : List Nat) (r : Result) :
    (convert id ts tags r).map shape =
      ((attachments r).map fun d => (chunksWithEof d.chunks).map (fileShape id d.name d.mime)).flatten
      ++ reasonShapes id r
      ++ [{ testId := some id, status := some (streamStatus r), fileName := none, fileBytes := none, eof := false, mime := none }] := by
  cases r with
  | success ds => cases ds <;> simp [convert, convertArgs, attachments, reasonShapes, reasonOf, streamStatus, detailEvents_shape, detailPart, reasonPart, shape, blank, asDict]
  | uxsuccess ds => cases ds <;> simp [convert, convertArgs, attachments, reasonShapes, reasonOf, streamStatus, detailEvents_shape, detailPart, reasonPart, shape, blank, asDict]
  | error p => cases p <;> simp [convert, convertArgs, errDetails, attachments, reasonShapes, reasonOf, streamStatus, detailEvents_shape, detailPart, reasonPart, shape, blank, asDict_single]
  | failure p => cases p <;> simp [convert, convertArgs, errDetails, attachments, reasonShapes, reasonOf, streamStatus, detailEvents_shape, detailPart, reasonPart, shape, blank, asDict_single]
  | xfail p => cases p <;> simp [convert, convertArgs, errDetails, attachments, reasonShapes, reasonOf, streamStatus, detailEvents_shape, detailPart, reasonPart, shape, blank, asDict_single]
  | skip p => cases p <;> simp [convert, convertArgs, attachments, reasonShapes, reasonOf, streamStatus, detailEvents_shape, detailPart, reasonPart, shape, blank, fileEvent, fileShape]

theorem convTest_shape (s : St) (t : TestIn) : (convTest s t).2.map shape = expectShapes t := by
  simp only [convTest, List.map_cons, convert_shape, expectShapes]
  simp [shape, blank]

theorem convAll_shape : ∀ (ts : List TestIn) (s : St), (convAll s ts).map shape = (ts.map expectShapes).flatten
  | [], _ => rfl
  | t :: ts, s => by simp [convAll, convTest_shape, convAll_shape ts]

theorem splitMid_run (es : List Event) : ∀ (acc : List Event) (rest : List StreamEv),
    splitMid (some acc) (es.map .status ++ .stop :: rest) = (splitMid none rest).map ((acc ++ es) :: ·) := by
  induction es with
  | nil => intro acc rest; simp [splitMid]
  | cons e es ih => intro acc rest; simp [splitMid, ih]

theorem splitMid_runs : ∀ runs : List (List TestIn), splitMid none ((runs.map midRun).flatten) = some (runs.map toStream)
  | [] => rfl
  | r :: runs => by
      simp only [List.map_cons, List.flatten_cons, midRun, List.singleton_append, List.cons_append, List.append_assoc,
        List.nil_append, splitMid]
      rw [splitMid_run, splitMid_runs runs]
      simp

theorem all2_map_self {α β : Type} (p : α → β → Bool) (f : α → β) (h : ∀ a, p a (f a) = true) :
    ∀ l : List α, Spec.C10.all2 p l (l.map f) = true
  | [] => rfl
  | a :: l => by simp [Spec.C10.all2, h a, all2_map_self p f h l]

/-- **C09 (stream well-formed)**: between the converters the stream is, for each run, `startTestRun`, then per test —
in order — an `inprogress` event, for each detail in dict order its chunks with `eof` exactly on the last (a detail
without chunks: one empty `eof` chunk), the reason file for a skip with a reason, and exactly one final status event
(error and failure as `fail`), then `stopTestRun`. -/
theorem C09_stream_wf (i : Convert.Input) :
    (Convert.model i).mid = (i.runs.map fun tests => [.start] ++ (toStream tests).map .status ++ [.stop]).flatten
    ∧ ∀ tests, (toStream tests).map shape = (tests.map expectShapes).flatten :=
  ⟨rfl, fun tests => convAll_shape tests _⟩


/-! ## the way back: one report per test -/
theorem report_ext (a b : Report) (h1 : a.id = b.id) (h2 : a.tags = b.tags) (h3 : a.details = b.details)
    (h4 : a.status = b.status) (h5 : a.ts0 = b.ts0) (h6 : a.ts1 = b.ts1) : a = b := by
  cases a; cases b; simp_all

/-- the effect of a file event on the attachments of a record -/
def addChunk (ds : List Detail) (f : Event) : List Detail :=
  match f.fileName, f.fileBytes with
  | some n, some (b :: bs) => addFile ds n f.mime (b :: bs)
  | _, _ => ds

/-- events that carry neither status nor tags (file events) -/
def Plain (f : Event) : Prop := f.status = none ∧ f.tags = none

theorem upd_plain (r : Report) (f : Event) (h : Plain f) :
    (upd r f).id = r.id ∧ (upd r f).tags = r.tags ∧ (upd r f).status = r.status ∧ (upd r f).ts0 = r.ts0
    ∧ (upd r f).details = addChunk r.details f := by
  obtain ⟨h1, h2⟩ := h
  simp only [upd, h1, h2, addChunk]
  cases hn : f.fileName with
  | none => simp
  | some n =>
    cases hb : f.fileBytes with
    | none => simp
    | some bs => cases bs <;> simp

theorem feed_plain (files : List Event) (h : ∀ f ∈ files, Plain f) (r : Report) :
    (files.foldl upd r).id = r.id ∧ (files.foldl upd r).tags = r.tags ∧ (files.foldl upd r).status = r.status
    ∧ (files.foldl upd r).ts0 = r.ts0 ∧ (files.foldl upd r).details = files.foldl addChunk r.details := by
  induction files generalizing r with
  | nil => simp
  | cons f files ih =>
    obtain ⟨a1, a2, a3, a4, a5⟩ := upd_plain r f (h f (by simp))
    obtain ⟨b1, b2, b3, b4, b5⟩ := ih (fun g hg => h g (by simp [hg])) (upd r f)
    simp only [List.foldl_cons]
    exact ⟨b1.trans a1, b2.trans a2, b3.trans a3, b4.trans a4, by rw [b5, a5]⟩

/-- a whole lifetime `e0 · files · fin` on an empty table: one report, table empty again -/
theorem run_lifetime (k : Key) (e0 fin : Event) (files rest : List Event)
    (h0 : key e0 = some k) (hf0 : isFinal e0 = false)
    (hfiles : ∀ f ∈ files, key f = some k ∧ isFinal f = false)
    (hk : key fin = some k) (hfin : isFinal fin = true) :
    run [] (e0 :: (files ++ fin :: rest))
      = ((run [] rest).1, (k, upd (files.foldl upd (upd (create k.1 e0) e0)) fin) :: (run [] rest).2) := by
  have hgen : ∀ (files : List Event) (r : Report), (∀ f ∈ files, key f = some k ∧ isFinal f = false) →
      run [(k, r)] (files ++ fin :: rest) = ((run [] rest).1, (k, upd (files.foldl upd r) fin) :: (run [] rest).2) := by
    intro files
    induction files with
    | nil =>
      intro r _
      simp [run, step, hk, hfin, Tbl.get, Tbl.del]
    | cons f files ih =>
      intro r hh
      obtain ⟨hkf, hff⟩ := hh f (by simp)
      have := ih (upd r f) (fun g hg => hh g (by simp [hg]))
      simp only [List.cons_append, run, step, hkf, hff, Tbl.get, if_true, Option.getD_some, Bool.false_eq_true,
        if_false, Tbl.set, this, List.nil_append, List.foldl_cons]
  have := hgen files (upd (create k.1 e0) e0) hfiles
  simp only [List.cons_append, run, step, h0, hf0, Tbl.get, Option.getD_none, Bool.false_eq_true, if_false, Tbl.set,
    this, List.nil_append]

/-! ### attachments: what the chunk events of the details add up to -/
def names (ds : List Detail) : List Nat := ds.map (·.name)

theorem addFile_fresh (ds : List Detail) (n : Nat) (m : Option Nat) (bs : Bytes) (h : n ∉ names ds) :
    addFile ds n m bs = ds ++ [{ name := n, mime := m.getD 0, bytes := bs }] := by
  induction ds with
  | nil => rfl
  | cons d ds ih =>
    simp only [names, List.map_cons, List.mem_cons, not_or] at h
    have : ¬ d.name = n := fun hh => h.1 hh.symm
    simp [addFile, this, ih h.2]

theorem addFile_last (ds : List Detail) (n mime : Nat) (m : Option Nat) (acc bs : Bytes) (h : n ∉ names ds) :
    addFile (ds ++ [{ name := n, mime := mime, bytes := acc }]) n m bs
      = ds ++ [{ name := n, mime := mime, bytes := acc ++ bs }] := by
  induction ds with
  | nil => simp [addFile]
  | cons d ds ih =>
    simp only [names, List.map_cons, List.mem_cons, not_or] at h
    have : ¬ d.name = n := fun hh => h.1 hh.symm
    simp [addFile, this, ih h.2]

/-- adding one chunk -/
def addBytes (ds : List Detail) (n mime : Nat) : Bytes → List Detail
  | [] => ds
  | b :: bs => addFile ds n (some mime) (b :: bs)

theorem fold_chunks_started (ds : List Detail) (n mime : Nat) (h : n ∉ names ds) :
    ∀ (cs : List Bytes) (acc : Bytes),
      cs.foldl (fun ds c => addBytes ds n mime c) (ds ++ [{ name := n, mime := mime, bytes := acc }])
        = ds ++ [{ name := n, mime := mime, bytes := acc ++ cs.flatten }]
  | [], acc => by simp
  | c :: cs, acc => by
      cases c with
      | nil => simpa [addBytes] using fold_chunks_started ds n mime h cs acc
      | cons b bs =>
        simp only [List.foldl_cons]
        rw [show addBytes (ds ++ [{ name := n, mime := mime, bytes := acc }]) n mime (b :: bs)
              = addFile (ds ++ [{ name := n, mime := mime, bytes := acc }]) n (some mime) (b :: bs) from rfl,
          addFile_last ds n mime _ acc (b :: bs) h, fold_chunks_started ds n mime h cs (acc ++ b :: bs)]
        simp

theorem fold_chunks (ds : List Detail) (n mime : Nat) (h : n ∉ names ds) :
    ∀ cs : List Bytes,
      cs.foldl (fun ds c => addBytes ds n mime c) ds
        = ds ++ (carried { name := n, mime := mime, chunks := cs }).toList
  | [] => by simp [carried]
  | c :: cs => by
      cases c with
      | nil =>
        have := fold_chunks ds n mime h cs
        simpa [addBytes, carried] using this
      | cons b bs =>
        simp only [List.foldl_cons]
        rw [show addBytes ds n mime (b :: bs) = addFile ds n (some mime) (b :: bs) from rfl,
          addFile_fresh ds n (some mime) (b :: bs) h, Option.getD_some, fold_chunks_started ds n mime h cs (b :: bs)]
        simp [carried]

theorem carried_flatten (n mime : Nat) (cs cs' : List Bytes) (h : cs.flatten = cs'.flatten) :
    carried { name := n, mime := mime, chunks := cs } = carried { name := n, mime := mime, chunks := cs' } := by
  simp [carried, h]

theorem addChunk_fileEvent (ds : List Detail) (id : Nat) (ts : Ts) (n mime : Nat) (c : Bytes) (eof : Bool) :
    addChunk ds (fileEvent id ts n mime c eof) = addBytes ds n mime c := by
  cases c <;> simp [addChunk, fileEvent, addBytes, blank]

/-- the events of one detail add that detail (if it has any bytes) at the end of the dict -/
theorem fold_detail (ds : List Detail) (id : Nat) (ts : Ts) (d : DetailIn) (h : d.name ∉ names ds) :
    (chunkLoop (fileEvent id ts d.name d.mime) none d.chunks).foldl addChunk ds = ds ++ (carried d).toList := by
  rw [C09_chunks, List.foldl_map]
  have h1 : ∀ (l : List (Bytes × Bool)) (acc : List Detail),
      l.foldl (fun acc c => addChunk acc (fileEvent id ts d.name d.mime c.1 c.2)) acc
        = (l.map (·.1)).foldl (fun ds c => addBytes ds d.name d.mime c) acc := by
    intro l
    induction l with
    | nil => intro acc; rfl
    | cons c l ih =>
      intro acc
      simp only [List.foldl_cons, List.map_cons]
      rw [addChunk_fileEvent]
      exact ih _
  rw [h1, fold_chunks ds d.name d.mime h]
  congr 2
  exact carried_flatten d.name d.mime _ _ (chunksWithEof_bytes d.chunks)

theorem names_append_carried (ds : List Detail) (d : DetailIn) :
    ∀ x ∈ names (ds ++ (carried d).toList), x ∈ names ds ∨ x = d.name := by
  intro x hx
  simp only [names, List.map_append, List.mem_append] at hx
  rcases hx with hx | hx
  · exact Or.inl hx
  · right
    simp only [carried] at hx
    split at hx <;> simp_all

theorem fold_details (id : Nat) (ts : Ts) : ∀ (dl : List DetailIn) (acc : List Detail),
    (dl.map (·.name)).Nodup → (∀ d ∈ dl, d.name ∉ names acc) →
    ((dl.map fun d => chunkLoop (fileEvent id ts d.name d.mime) none d.chunks).flatten).foldl addChunk acc
      = acc ++ dl.filterMap carried
  | [], acc, _, _ => by simp
  | d :: dl, acc, hnd, hdis => by
      simp only [List.map_cons, List.nodup_cons] at hnd
      simp only [List.map_cons, List.flatten_cons, List.foldl_append, fold_detail acc id ts d (hdis d (by simp))]
      rw [fold_details id ts dl _ hnd.2]
      · simp only [List.filterMap_cons, List.append_assoc]
        cases carried d <;> simp
      · intro d' hd' hmem
        rcases names_append_carried acc d _ hmem with h | h
        · exact hdis d' (by simp [hd']) h
        · exact hnd.1 (h ▸ List.mem_map.mpr ⟨d', hd', rfl⟩)

theorem asDict_names_sub : ∀ (ds : List DetailIn), ∀ x ∈ (asDict ds).map (·.name), x ∈ ds.map (·.name)
  | [], x, hx => by simp [asDict] at hx
  | d :: ds, x, hx => by
      simp only [asDict] at hx
      split at hx
      · rename_i d' hfind
        simp only [List.map_cons, List.mem_cons, List.mem_map, List.mem_filter] at hx
        rcases hx with rfl | ⟨y, ⟨hy, _⟩, rfl⟩
        · have := List.find?_some hfind
          simp only [beq_iff_eq] at this
          simp [this]
        · have := asDict_names_sub ds y.name (List.mem_map.mpr ⟨y, hy, rfl⟩)
          simp only [List.map_cons, List.mem_cons]; exact Or.inr this
      · simp only [List.map_cons, List.mem_cons] at hx ⊢
        rcases hx with rfl | hx
        · exact Or.inl rfl
        · exact Or.inr (asDict_names_sub ds x hx)

theorem asDict_nodup : ∀ (ds : List DetailIn), ((asDict ds).map (·.name)).Nodup
  | [] => by simp [asDict]
  | d :: ds => by
      have ih := asDict_nodup ds
      simp only [asDict]
      split
      · rename_i d' hfind
        have hname : d'.name = d.name := by simpa using List.find?_some hfind
        simp only [List.map_cons, List.nodup_cons]
        refine ⟨?_, (ih.sublist ((List.filter_sublist).map _))⟩
        intro hmem
        obtain ⟨y, hy, hyn⟩ := List.mem_map.mp hmem
        have := (List.mem_filter.mp hy).2
        simp only [bne_iff_ne, ne_eq] at this
        exact this (hyn.trans hname)
      · rename_i hfind
        simp only [List.map_cons, List.nodup_cons]
        refine ⟨?_, ih⟩
        intro hmem
        obtain ⟨y, hy, hyn⟩ := List.mem_map.mp hmem
        have := List.find?_eq_none.mp hfind y hy
        simp only [beq_iff_eq] at this
        exact this hyn


/-! ### one test -/
/-- the file events `_convert` emits before the final status -/
def filesOf (id : Nat) (ts : Ts) (r : Result) : List Event :=
  detailPart id ts (convertArgs r).2.1 ++ reasonPart id ts (convertArgs r).2.2

def finOf (id : Nat) (ts : Ts) (tags : List Nat) (r : Result) : Event :=
  { blank id ts with status := some (convertArgs r).1, tags := some tags }

theorem convert_split (id : Nat) (ts : Ts) (tags : List Nat) (r : Result) :
    convert id ts tags r = filesOf id ts r ++ [finOf id ts tags r] := by
  simp [convert, filesOf, finOf]

theorem mem_detailEvents (id : Nat) (ts : Ts) (ds : List DetailIn) :
    ∀ f ∈ detailEvents id ts ds, ∃ n m c e, f = fileEvent id ts n m c e := by
  intro f hf
  simp only [detailEvents, List.mem_flatten, List.mem_map] at hf
  obtain ⟨l, ⟨d, _, rfl⟩, hf⟩ := hf
  rw [C09_chunks] at hf
  obtain ⟨c, _, rfl⟩ := List.mem_map.mp hf
  exact ⟨_, _, _, _, rfl⟩

theorem mem_filesOf (id : Nat) (ts : Ts) (r : Result) : ∀ f ∈ filesOf id ts r, ∃ n m c e, f = fileEvent id ts n m c e := by
  intro f hf
  simp only [filesOf, List.mem_append] at hf
  rcases hf with hf | hf
  · cases h : (convertArgs r).2.1 with
    | some ds => rw [h] at hf; exact mem_detailEvents id ts _ f hf
    | none => rw [h] at hf; simp [detailPart] at hf
  · cases h : (convertArgs r).2.2 with
    | some rs => rw [h] at hf; simp only [reasonPart, List.mem_singleton] at hf; exact ⟨_, _, _, _, hf⟩
    | none => rw [h] at hf; simp [reasonPart] at hf

theorem fileEvent_facts (id : Nat) (ts : Ts) (n m : Nat) (c : Bytes) (e : Bool) :
    key (fileEvent id ts n m c e) = some (id, none) ∧ isFinal (fileEvent id ts n m c e) = false
    ∧ Plain (fileEvent id ts n m c e) := by
  refine ⟨rfl, ?_, rfl, rfl⟩
  rw [Props.C10.isFinal_eq]; rfl

theorem finOf_final (id : Nat) (ts : Ts) (tags : List Nat) (r : Result) : isFinal (finOf id ts tags r) = true := by
  rw [Props.C10.isFinal_eq]
  cases r with
  | skip p => cases p <;> rfl
  | error p => cases p <;> rfl
  | failure p => cases p <;> rfl
  | xfail p => cases p <;> rfl
  | success ds => cases ds <;> rfl
  | uxsuccess ds => cases ds <;> rfl

theorem status_of_args (r : Result) : (convertArgs r).1 = streamStatus r := by
  cases r with
  | skip p => cases p <;> rfl
  | error p => cases p <;> rfl
  | failure p => cases p <;> rfl
  | xfail p => cases p <;> rfl
  | success ds => cases ds <;> rfl
  | uxsuccess ds => cases ds <;> rfl

theorem reason_fold (id : Nat) (ts : Ts) (rs : List Nat) :
    [fileEvent id ts 0 1 (encode rs) true].foldl addChunk [] = (carried { name := 0, mime := 1, chunks := [encode rs] }).toList := by
  simp only [List.foldl_cons, List.foldl_nil, addChunk_fileEvent]
  cases h : encode rs with
  | nil => simp [addBytes, carried]
  | cons b bs => simp [addBytes, carried, addFile]

theorem details_fold (id : Nat) (ts : Ts) (ds : List DetailIn) :
    (detailEvents id ts ds).foldl addChunk [] = (asDict ds).filterMap carried := by
  have := fold_details id ts (asDict ds) [] (asDict_nodup ds) (by simp [names])
  simpa [detailEvents] using this

/-- what the file events of one outcome add up to at the consumer: the non-empty details, then the reason -/
theorem files_fold (id : Nat) (ts : Ts) (r : Result) : (filesOf id ts r).foldl addChunk [] = expectDetails r := by
  cases r with
  | success ds =>
    cases ds <;> simp [filesOf, detailPart, reasonPart, convertArgs, expectDetails, attachments, reasonOf, details_fold, asDict]
  | uxsuccess ds =>
    cases ds <;> simp [filesOf, detailPart, reasonPart, convertArgs, expectDetails, attachments, reasonOf, details_fold, asDict]
  | error p =>
    cases p <;> simp [filesOf, detailPart, reasonPart, convertArgs, errDetails, expectDetails, attachments, reasonOf, details_fold, asDict_single]
  | failure p =>
    cases p <;> simp [filesOf, detailPart, reasonPart, convertArgs, errDetails, expectDetails, attachments, reasonOf, details_fold, asDict_single]
  | xfail p =>
    cases p <;> simp [filesOf, detailPart, reasonPart, convertArgs, errDetails, expectDetails, attachments, reasonOf, details_fold, asDict_single]
  | skip p =>
    cases p with
    | none => simp [filesOf, detailPart, reasonPart, convertArgs, expectDetails, attachments, reasonOf]
    | details ds => simp [filesOf, detailPart, reasonPart, convertArgs, expectDetails, attachments, reasonOf, details_fold]
    | reason rs =>
      simp only [filesOf, detailPart, reasonPart, convertArgs, expectDetails, attachments, reasonOf, List.nil_append, List.filterMap_nil]
      exact reason_fold id ts rs

def nowAt (now : Option Nat) : Option Nat → Option Nat
  | some n => some n
  | none => now

/-- the record the consumer hands on for one test -/
def reportOf (s : St) (t : TestIn) : Report :=
  { id := t.id
    tags := changeTags (changeTags s.gtags t.gtags) t.ltags
    details := expectDetails t.result
    status := streamStatus t.result
    ts0 := some (stamp (nowAt s.now t.t0))
    ts1 := some (stamp (nowAt (nowAt s.now t.t0) t.t1)) }

def startEvent (id : Nat) (ts : Ts) : Event := { blank id ts with status := some .inprogress }

theorem convTest_eq (s : St) (t : TestIn) :
    (convTest s t).2 = startEvent t.id (stamp (nowAt s.now t.t0))
        :: (filesOf t.id (stamp (nowAt (nowAt s.now t.t0) t.t1)) t.result
            ++ [finOf t.id (stamp (nowAt (nowAt s.now t.t0) t.t1)) (changeTags (changeTags s.gtags t.gtags) t.ltags) t.result])
    ∧ (convTest s t).1 = { gtags := changeTags s.gtags t.gtags, now := nowAt (nowAt s.now t.t0) t.t1 } := by
  simp only [convTest, convert_split, nowAt, startEvent]
  cases t.t0 <;> cases t.t1 <;> exact ⟨rfl, rfl⟩

theorem start_record (id : Nat) (ts : Ts) :
    upd (create id (startEvent id ts)) (startEvent id ts)
      = { id := id, tags := [], details := [], status := .inprogress, ts0 := some ts, ts1 := some ts } := by
  simp [upd, create, startEvent, blank]

theorem upd_fin (r : Report) (id : Nat) (ts : Ts) (tags : List Nat) (res : Result) :
    upd r (finOf id ts tags res) = { r with status := (convertArgs res).1, ts1 := some ts, tags := tags } := by
  simp [upd, finOf, blank]

theorem run_test (s : St) (t : TestIn) (rest : List Event) :
    run [] ((convTest s t).2 ++ rest) = ((run [] rest).1, ((t.id, none), reportOf s t) :: (run [] rest).2) := by
  rw [(convTest_eq s t).1]
  simp only [List.cons_append, List.append_assoc, List.singleton_append, List.nil_append]
  rw [run_lifetime (t.id, none) _ _ _ rest rfl (by rw [Props.C10.isFinal_eq]; rfl)
    (fun f hf => by
      obtain ⟨n, m, c, e, rfl⟩ := mem_filesOf _ _ _ f hf
      exact ⟨(fileEvent_facts _ _ n m c e).1, (fileEvent_facts _ _ n m c e).2.1⟩)
    rfl (finOf_final _ _ _ _)]
  refine congrArg (fun x => ((run [] rest).1, (((t.id, none) : Key), x) :: (run [] rest).2)) ?_
  rw [start_record, upd_fin]
  obtain ⟨h1, _, _, h4, h5⟩ := feed_plain (filesOf t.id (stamp (nowAt (nowAt s.now t.t0) t.t1)) t.result)
    (fun f hf => by
      obtain ⟨n, m, c, e, rfl⟩ := mem_filesOf _ _ _ f hf
      exact (fileEvent_facts _ _ n m c e).2.2)
    { id := t.id, tags := [], details := [], status := .inprogress, ts0 := some (stamp (nowAt s.now t.t0)),
      ts1 := some (stamp (nowAt s.now t.t0)) }
  apply report_ext
  · exact h1
  · rfl
  · exact h5.trans (files_fold t.id _ t.result)
  · exact status_of_args t.result
  · exact h4
  · rfl

def reportsOf : St → List TestIn → List Report
  | _, [] => []
  | s, t :: ts => reportOf s t :: reportsOf (convTest s t).1 ts

theorem run_convAll : ∀ (ts : List TestIn) (s : St),
    (run [] (convAll s ts)).1 = [] ∧ (run [] (convAll s ts)).2.map (·.2) = reportsOf s ts
  | [], _ => by simp [convAll, run, reportsOf]
  | t :: ts, s => by
      obtain ⟨h1, h2⟩ := run_convAll ts (convTest s t).1
      simp only [convAll, run_test, h1, List.map_cons, h2, reportsOf, and_self]

/-- **C09 (one report per test)**: the consumer behind the stream sees, for every history, exactly one completed
record per test, in order, and nothing is left over when the run stops. -/
theorem C09_one_report_per_test (s : St) (ts : List TestIn) : consume (convAll s ts) = reportsOf s ts := by
  obtain ⟨h1, h2⟩ := run_convAll ts s
  simp [consume, consumeKeyed, h1, h2, flush]


/-! ## the final result -/
theorem convAll_no_exist : ∀ (ts : List TestIn) (s : St), ∀ e ∈ convAll s ts, e.status ≠ some .exist
  | [], _, e, he => by simp [convAll] at he
  | t :: ts, s, e, he => by
      simp only [convAll, List.mem_append] at he
      rcases he with he | he
      · rw [(convTest_eq s t).1] at he
        simp only [List.mem_cons, List.mem_append, List.mem_singleton, List.not_mem_nil, or_false] at he
        rcases he with rfl | he | rfl
        · simp [startEvent]
        · obtain ⟨n, m, c, e', rfl⟩ := mem_filesOf _ _ _ e he
          simp [fileEvent, blank]
        · simp only [finOf, status_of_args]
          cases t.result <;> simp [streamStatus]
      · exact convAll_no_exist ts _ e he

theorem toExtended_convAll (s : St) (ts : List TestIn) :
    toExtended (convAll s ts) = [.startTestRun] ++ ((reportsOf s ts).map bracket).flatten ++ [.stopTestRun] := by
  have : (convAll s ts).filter (fun e => e.status != some .exist) = convAll s ts := by
    rw [List.filter_eq_self]
    intro e he
    simpa using convAll_no_exist ts s e he
  simp only [toExtended, this, C09_one_report_per_test]

theorem reportsOf_status : ∀ (ts : List TestIn) (s : St), ∀ r ∈ reportsOf s ts, r.status ≠ .exist
  | [], _, r, hr => by simp [reportsOf] at hr
  | t :: ts, s, r, hr => by
      simp only [reportsOf, List.mem_cons] at hr
      rcases hr with rfl | hr
      · simp only [reportOf]; cases t.result <;> simp [streamStatus]
      · exact reportsOf_status ts _ r hr

/-! ### tags as sets -/
def SetEq (a b : List Nat) : Prop := ∀ x, x ∈ a ↔ x ∈ b

theorem mem_insertU (x y : Nat) : ∀ l : List Nat, x ∈ Deco.insertU y l ↔ x = y ∨ x ∈ l
  | [] => by simp [Deco.insertU]
  | z :: l => by
      simp only [Deco.insertU]
      split
      · simp
      · split
        · rename_i h; subst h; simp
        · simp only [List.mem_cons, mem_insertU x y l]
          constructor
          · rintro (h | h | h)
            · exact Or.inr (Or.inl h)
            · exact Or.inl h
            · exact Or.inr (Or.inr h)
          · rintro (h | h | h)
            · exact Or.inr (Or.inl h)
            · exact Or.inl h
            · exact Or.inr (Or.inr h)

theorem mem_norm (x : Nat) : ∀ l : List Nat, x ∈ Deco.norm l ↔ x ∈ l
  | [] => by simp [Deco.norm]
  | y :: l => by
      have ih := mem_norm x l
      simp only [Deco.norm, List.foldr_cons] at ih ⊢
      rw [mem_insertU, ih]
      simp

theorem changeTags_setEq (a b : List Nat) (h : SetEq a b) (c : Option (List Nat × List Nat)) :
    SetEq (changeTags a c) (tagChange b c) := by
  cases c with
  | none => exact h
  | some p =>
    obtain ⟨new, gone⟩ := p
    intro x
    simp only [changeTags, tagChange, Spec.C10.applyTags, mem_norm, List.mem_filter, List.mem_append, h x]

theorem sameSet_of (a b c : List Nat) (h1 : Spec.C10.sameSet a b = true) (h2 : SetEq b c) : Spec.C10.sameSet a c = true := by
  simp only [Spec.C10.sameSet, Bool.and_eq_true, List.all_eq_true, List.contains_iff_mem] at h1 ⊢
  exact ⟨fun x hx => (h2 x).mp (h1.1 x hx), fun x hx => h1.2 x ((h2 x).mpr hx)⟩

theorem outcome_of (r : Result) : Spec.C10.specOutcome (streamStatus r) = some (replayOutcome r) := by
  cases r <;> rfl

theorem nowAt_eq (now t : Option Nat) : nowAt now t = lastTime now t := by cases t <;> rfl

theorem stamp_eq (now : Option Nat) : stamp now = clockOf now := by cases now <;> rfl

/-- reading the brackets of the reports back gives what the history demands -/
theorem match_all : ∀ (ts : List TestIn) (s : St) (g : List Nat) (seen : List Spec.C10.Seen), SetEq s.gtags g →
    Spec.C10.all2 Spec.C10.replays (reportsOf s ts) seen = true →
    Spec.C10.all2 matchesSeen (expectTests g s.now ts) seen = true
  | [], _, _, seen, _, h => by
      cases seen <;> simp_all [reportsOf, expectTests, Spec.C10.all2]
  | t :: ts, s, g, seen, hg, h => by
      cases seen with
      | nil => simp [reportsOf, Spec.C10.all2] at h
      | cons x seen =>
        simp only [reportsOf, Spec.C10.all2, Bool.and_eq_true] at h
        obtain ⟨hx, hrest⟩ := h
        have hg' := changeTags_setEq s.gtags g hg t.gtags
        have ih := match_all ts (convTest s t).1 (tagChange g t.gtags) seen
          (by rw [(convTest_eq s t).2]; exact hg') hrest
        rw [(convTest_eq s t).2] at ih
        simp only [nowAt_eq] at ih
        simp only [expectTests, Spec.C10.all2, Bool.and_eq_true]
        refine ⟨?_, ih⟩
        simp only [Spec.C10.replays, reportOf, Bool.and_eq_true, beq_iff_eq, outcome_of, Option.some.injEq] at hx
        obtain ⟨⟨⟨⟨⟨h1, h2⟩, h3⟩, h4⟩, h5⟩, h6⟩ := hx
        simp only [matchesSeen, Bool.and_eq_true, beq_iff_eq]
        refine ⟨⟨⟨⟨⟨h1, h2⟩, ?_⟩, h4⟩, ?_⟩, ?_⟩
        · exact sameSet_of _ _ _ h3 (changeTags_setEq _ _ hg' t.ltags)
        · rw [← nowAt_eq, ← stamp_eq]; simpa [Spec.C10.timeOk] using h5
        · rw [← nowAt_eq, ← nowAt_eq, ← stamp_eq]; simpa [Spec.C10.timeOk] using h6

/-! ## several runs on the same converters -/
def IsBody (x : ExtEv) : Prop := x ≠ .startTestRun ∧ x ≠ .stopTestRun

theorem splitExt_body (body : List ExtEv) (hb : ∀ x ∈ body, IsBody x) : ∀ (acc : List ExtEv) (rest : List ExtEv),
    splitExt (some acc) (body ++ .stopTestRun :: rest) = (splitExt none rest).map ((acc ++ body) :: ·) := by
  induction body with
  | nil => intro acc rest; simp [splitExt]
  | cons x body ih =>
    intro acc rest
    have hx := hb x (by simp)
    have := ih (fun y hy => hb y (by simp [hy])) (acc ++ [x]) rest
    cases x with
    | startTestRun => exact absurd rfl hx.1
    | stopTestRun => exact absurd rfl hx.2
    | _ => simpa [splitExt] using this

theorem optTime_body (t : Option Ts) : ∀ x ∈ optTime t, IsBody x := by
  cases t <;> simp [optTime, IsBody]

theorem bracket_body (r : Report) : ∀ x ∈ bracket r, IsBody x := by
  intro x hx
  simp only [bracket] at hx
  split at hx
  · simp at hx
  · simp only [List.mem_append, List.mem_cons, List.not_mem_nil, or_false] at hx
    rcases hx with ((h | h | h) | h) | h | h | h
    · exact optTime_body _ x h
    · subst h; simp [IsBody]
    · subst h; simp [IsBody]
    · exact optTime_body _ x h
    · subst h; simp [IsBody]
    · subst h; simp [IsBody]
    · subst h; simp [IsBody]

theorem brackets_body (rs : List Report) : ∀ x ∈ (rs.map bracket).flatten, IsBody x := by
  intro x hx
  simp only [List.mem_flatten, List.mem_map] at hx
  obtain ⟨l, ⟨r, _, rfl⟩, hx⟩ := hx
  exact bracket_body r x hx

def bodyOf (tests : List TestIn) : List ExtEv := ((reportsOf { gtags := [], now := none } tests).map bracket).flatten

theorem splitExt_runs : ∀ runs : List (List TestIn),
    splitExt none ((runs.map fun tests => toExtended (toStream tests)).flatten) = some (runs.map bodyOf)
  | [] => rfl
  | r :: runs => by
      simp only [List.map_cons, List.flatten_cons, toStream, toExtended_convAll, List.singleton_append, List.cons_append,
        List.append_assoc, List.nil_append, splitExt]
      rw [splitExt_body _ (brackets_body _) [] _]
      have := splitExt_runs runs
      simp only [toStream, toExtended_convAll, List.singleton_append, List.cons_append, List.append_assoc,
        List.nil_append] at this
      simp [this, bodyOf]

theorem run_roundtrip (tests : List TestIn) :
    ∃ seen, Spec.C10.interp {} (bodyOf tests) = some seen
      ∧ Spec.C10.all2 matchesSeen (expectTests [] none tests) seen = true := by
  obtain ⟨seen, h1, h2⟩ := Props.C10.interp_brackets _ (reportsOf_status tests { gtags := [], now := none }) none
  exact ⟨seen, h1, match_all tests { gtags := [], now := none } [] seen (fun _ => Iff.rfl) h2⟩

/-! ## headline -/
theorem holds_model (i : Convert.Input) : holds i (Convert.model i) = true := by
  simp only [holds, clauses, List.all_cons, List.all_nil, Bool.and_true, Bool.and_eq_true]
  refine ⟨?_, ?_⟩
  · simp only [cStreamWf, Convert.model, splitMid_runs]
    apply all2_map_self
    intro tests
    simp [toStream, convAll_shape]
  · simp only [cRoundTrip, Convert.model, splitExt_runs]
    apply all2_map_self
    intro tests
    obtain ⟨seen, h1, h2⟩ := run_roundtrip tests
    simp only [h1, h2]

/-- **C09 (round trip)**: for every well-formed history of runs on the same converter pair the final extended result
receives, per run, `startTestRun`, then per test — in order — one well-formed `startTest · outcome · stopTest` bracket
with the same test id, the same outcome (error and failure both replayed as failure), exactly the reporter's current
tags at the outcome in force, the time in force at `startTest` and at the outcome — the last one supplied **in that
run**, else the wall clock (`now`): never a time left over from an earlier run —, the skip reason (as the `reason`
attachment) and every detail that has any bytes under the same name and content type with its chunks concatenated,
then `stopTestRun`. -/
theorem C09_roundtrip (i : Convert.Input) :
    (Convert.model i).ext = (i.runs.map fun tests => [.startTestRun] ++ bodyOf tests ++ [.stopTestRun]).flatten
    ∧ ∀ tests, ∃ seen, Spec.C10.interp {} (bodyOf tests) = some seen
        ∧ Spec.C10.all2 matchesSeen (expectTests [] none tests) seen = true := by
  refine ⟨?_, run_roundtrip⟩
  simp only [Convert.model, toStream, toExtended_convAll, bodyOf]

/-- a run that supplies no `time()` is stamped with the wall clock whatever the earlier runs supplied: the
expectations of a run do not depend on the runs before it (`startTestRun` resets tags and clock) -/
theorem C09_runs_independent (tests : List TestIn) (h : ∀ t ∈ tests, t.t0 = none ∧ t.t1 = none) :
    ∀ x ∈ expectTests [] none tests, x.tStart = .now ∧ x.tEnd = .now := by
  suffices ∀ g, ∀ x ∈ expectTests g none tests, x.tStart = .now ∧ x.tEnd = .now from this []
  induction tests with
  | nil => intro g x hx; simp [expectTests] at hx
  | cons t ts ih =>
    intro g x hx
    obtain ⟨h0, h1⟩ := h t (by simp)
    simp only [expectTests, h0, h1, lastTime, List.mem_cons] at hx
    rcases hx with rfl | hx
    · exact ⟨rfl, rfl⟩
    · exact ih (fun t' ht' => h t' (by simp [ht'])) _ x hx

/-- detail payloads: bytes are preserved exactly — the carried bytes are the concatenation of the chunks -/
theorem C09_detail_bytes (d : DetailIn) (x : Detail) (h : carried d = some x) :
    x.name = d.name ∧ x.mime = d.mime ∧ x.bytes = d.chunks.flatten ∧ x.bytes ≠ [] := by
  simp only [carried] at h
  split at h
  · simp at h
  · rename_i b bs hb
    simp only [Option.some.injEq] at h
    subst h
    simp [hb]
/-- … and a detail is dropped only if it has no bytes at all -/
theorem C09_detail_dropped (d : DetailIn) : carried d = none ↔ d.chunks.flatten = [] := by
  simp only [carried]
  split
  · rename_i h; simp [h]
  · rename_i b bs h; simp [h]

/-! ## non-vacuity -/
private def demo : Convert.Input :=
  { explicitStart := true
    runs := [[ { id := 0, gtags := some ([1], []), t0 := some 3, ltags := some ([2], [1]), t1 := none,
                 result := .failure (.details [{ name := 2, mime := 1, chunks := [[], [65], [66, 67], []] },
                                               { name := 3, mime := 0, chunks := [] }]) },
               { id := 1, gtags := none, t0 := none, ltags := none, t1 := some 5, result := .skip (.reason [119, 233]) },
               { id := 0, gtags := none, t0 := none, ltags := none, t1 := none, result := .error .err } ],
             [ { id := 2, gtags := none, t0 := none, ltags := none, t1 := none, result := .success none } ]] }

example : ((Convert.model demo).mid.length, (Convert.model demo).ext.length) = (19, 32) := by decide
/-- the second run supplies no time: its events carry the wall clock, not the 5 of the first run -/
example : (toStream (demo.runs.getD 1 [])).map (·.timestamp) = [some .now, some .now] := by decide
example : (reportsOf { gtags := [], now := none } (demo.runs.getD 0 [])).map (fun r => (r.id, r.status, r.tags, r.details.length))
    = [(0, .fail, [2], 1), (1, .skip, [1], 1), (0, .fail, [1], 1)] := by decide
example : encode [119, 233, 8364, 0x1F600] = [119, 0xC3, 0xA9, 0xE2, 0x82, 0xAC, 0xF0, 0x9F, 0x98, 0x80] := by decide

/-! ## tie to the source (`harness/pystream.py` → `TTV/Generated/ConvertSrc.lean`, regenerated on every run) -/
open TTV.ConvertSrc in
/-- **`_convert` is the code's**: for every outcome (called as the `add…` methods call it: `err` or `details`, reason for a
skip) the model's `convert` — `traceback` detail for an exc_info, per detail the chunk loop with its one-chunk look-ahead
(`eof` only on the event after the loop, an empty chunk if there was none), the reason file, one final status event with the
current tags — is the interpretation of the statement skeleton found in the source -/
theorem C09_src_convert (id : Nat) (ts : Ts) (tags : List Nat) (r : Result) :
    vInterp id ts tags (callArgs r) Generated.ConvertSrc.convert (callArgs r).details = some (Convert.convert id ts tags r) := by
  have h : Generated.ConvertSrc.convert = refConvert := by decide
  rw [h]; exact vInterp_ref id ts tags r

open TTV.ConvertSrc in
/-- **`startTestRun` is the code's**: whatever the converter's state was (tags and clock of an earlier run), after
`startTestRun` it is the state every run of the model starts from: no run-level tags, no supplied time -/
theorem C09_src_start_test_run (s0 : St) :
    xInterp Generated.ConvertSrc.startTestRun s0 = some { gtags := [], now := none } := by
  have h : Generated.ConvertSrc.startTestRun = refStart := by decide
  rw [h]; rfl

open TTV.ConvertSrc in
/-- **`__init__` is the code's**: before any run is started the converter already has a (blank) tag context and clock, so
`tags()` and `time()` may precede the first `startTest` -/
theorem C09_src_init (s0 : St) : xInterp Generated.ConvertSrc.init s0 = some { gtags := [], now := none } := by
  have h : Generated.ConvertSrc.init = refInit := by decide
  rw [h]; rfl

open TTV.ConvertSrc in
/-- **`_implied_start` is the code's**: a run that is started by its first `startTest` (no `startTestRun()` call) keeps the
run-level tags and the time supplied before - the reset done by `startTestRun` is undone for exactly these two -/
theorem C09_src_implied_start (s0 : St) :
    iInterp Generated.ConvertSrc.startTestRun Generated.ConvertSrc.impliedStart s0 none = some s0 := by
  have h1 : Generated.ConvertSrc.startTestRun = refStart := by decide
  have h2 : Generated.ConvertSrc.impliedStart = refImpliedStart := by decide
  rw [h1, h2]; rfl

open TTV.ConvertSrc in
/-- **`startTest` is the code's**: started explicitly or not, the `inprogress` event carries the last supplied time (the
wall clock if there is none) and the converter's run-level state is what it was: the first event of the model's `convTest` -/
theorem C09_src_start_test (started : Bool) (id : Nat) (s : St) :
    tInterp Generated.ConvertSrc.startTestRun Generated.ConvertSrc.impliedStart started id Generated.ConvertSrc.startTest s
      = some (s, [{ blank id (stamp s.now) with status := some .inprogress }]) := by
  have h1 : Generated.ConvertSrc.startTestRun = refStart := by decide
  have h2 : Generated.ConvertSrc.impliedStart = refImpliedStart := by decide
  have h3 : Generated.ConvertSrc.startTest = refStartTest := by decide
  rw [h1, h2, h3]
  cases started <;> rfl

end TTV.Props.C09
