import TTV.Model.StreamConvert
import TTV.Spec.C09
namespace TTV.Props.C09
end TTV.Props.C09
