import TTV.Model.Result
import TTV.Model.ResC17
import TTV.Spec.C17
/-! # C17 — tags are scoped (theorems: work in progress) -/
namespace TTV.Props.C17
end TTV.Props.C17
