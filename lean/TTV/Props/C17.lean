import TTV.Model.Result
import TTV.Model.ResC17
import TTV.Spec.C17
import TTV.Lemmas.ResEmit
/-! # C17 — tags are scoped (work in progress) -/
namespace TTV.Props.C17
open TTV.Result TTV.ResC17 TTV.Spec.C17 TTV.Lemmas.ResEmit
set_option linter.unusedSimpArgs false

/-! ## Part A: `current_tags` follows the stack-of-sets semantics -/
/-- the tag context `current_tags` of an object reads -/
def ctxOf : (s : Shape) → St s → TagCtx
  | .sink _, st => st.tags
  | .tt _, st => st.tags
  | .text _, st => st.tt.tags
  | .tbt, st => st.tt.tags
  | .etod c, (own, inner) => if (caps c).currentTags then ctxOf c inner else own.tags
  | .deco c, st => ctxOf c st
  | .tagger _ _ c, st => ctxOf c st
  | .tfr _, (own, _) => own.tt.tags
  | .multi _, (own, _) => own.tags
  | .e2s _, (own, _) => own.tags

theorem currentTags_eq : ∀ (s : Shape) (st : St s), currentTagsOf s st = (ctxOf s st).cur
  | .sink _, _ => rfl
  | .tt _, _ => rfl
  | .text _, _ => rfl
  | .tbt, _ => rfl
  | .etod c, (own, inner) => by
      simp only [currentTagsOf, ctxOf]; split
      · exact currentTags_eq c inner
      · rfl
  | .deco c, st => currentTags_eq c st
  | .tagger _ _ c, st => currentTags_eq c st
  | .tfr _, _ => rfl
  | .multi _, _ => rfl
  | .e2s _, _ => rfl

/-- the `ExtendedToStreamDecorator` whose tags are read (if any) has been started -/
def chainStarted : (s : Shape) → St s → Bool
  | .etod c, (_, inner) => if (caps c).currentTags then chainStarted c inner else true
  | .deco c, st => chainStarted c st
  | .tagger _ _ c, st => chainStarted c st
  | .e2s _, (own, _) => own.started
  | _, _ => true

theorem caps_currentTags (c : Shape) : (caps c).currentTags = true → (caps c).tags = true ∧ (caps c).startRun = true := by
  cases c <;> simp [caps]
  rename_i f; cases f <;> simp [Flavour.caps]

theorem caps_noCurrentTags (c : Shape) : (caps c).currentTags = false → (caps c).tags = false := by
  cases c <;> simp [caps]
  rename_i f; cases f <;> simp [Flavour.caps]

theorem inject_append (ctx : TagCtx) (a b : List (TagSet × TagSet)) :
    inject ctx (a ++ b) = inject (inject ctx a) b := by simp [inject]

theorem sinkStep_tags (s : Sink) (c : Call) : (sinkStep .ext s c).tags = refStep s.tags c := by
  cases c <;> simp [sinkStep, refStep, Call.logged] <;> (repeat' split) <;> rfl

theorem ttStep_tags (s : TT) (c : Call) : (ttStep s c).tags = refStep s.tags c := by
  cases c with
  | add k t a => cases k <;> simp [ttStep, refStep, Call.logged]
  | _ => simp [ttStep, refStep, Call.logged, TT.reset]

theorem textStep_tags (s : TextSt) (c : Call) : (textStep s c).tt.tags = refStep s.tt.tags c := by
  cases c <;> simp only [textStep] <;> exact ttStep_tags _ _

theorem tbtStep_tags (s : TbtSt) (c : Call) : (tbtStep s c).tt.tags = refStep s.tt.tags c := by
  cases c <;> simp only [tbtStep] <;> exact ttStep_tags _ _

theorem refStepInj_nil (ctx : TagCtx) (c : Call) : refStepInj [] ctx c = refStep ctx c := by
  cases c <;> simp [refStepInj, refStep, inject]

theorem refStepInj_neutral (inj : List (TagSet × TagSet)) (ctx : TagCtx) (c : Call)
    (h : match c with | .startTestRun | .startTest _ | .stopTest _ | .tags _ _ => False | _ => True) :
    refStepInj inj ctx c = ctx := by
  cases c <;> simp_all [refStepInj, refStep]

theorem foldl_stops (inj : List (TagSet × TagSet)) (ctx : TagCtx) (k : Nat) :
    (List.replicate k Call.stop).foldl (refStepInj inj) ctx = ctx := by
  induction k with
  | zero => rfl
  | succ k ih => simp [List.replicate_succ, refStepInj, refStep, ih]

theorem ref_main (caps : Caps) (ht : caps.tags = true) (hr : caps.startRun = true) (inj : List (TagSet × TagSet))
    (ctx : TagCtx) (c : Call) : (etodMain caps c).foldl (refStepInj inj) ctx = refStepInj inj ctx c := by
  cases c <;> simp [etodMain, ht, hr, Spec.C08.degradeCall] <;> (try split) <;> simp [refStepInj, refStep]

section own
variable {σ : Type} (I : Iface σ)
theorem etodStep_own_tags (hc : I.caps.tags = false) (own : EtodOwn) (inner : σ) (c : Call) :
    (etodStep I own inner c).1.tags = refStep own.tags c := by
  cases c with
  | add k t a =>
    cases k <;> simp only [etodStep, refStep] <;> (repeat' split) <;> simp [etodFinally_tags]
  | stop => simp [etodStep, etodStop_tags, refStep]
  | tags n g => simp [etodStep, hc, refStep]
  | setFailfast b => simp only [etodStep, refStep]; split <;> rfl
  | _ => simp [etodStep, refStep] <;> (try split) <;> rfl
end own

theorem e2s_own {σ : Type} (I : Iface σ) (own : E2S) (inner : σ) (c : Call) (h : own.started = true) :
    (e2sStep I own inner c).1.tags = refStep own.tags c ∧ (e2sStep I own inner c).1.started = true := by
  cases c with
  | add k t a =>
    simp only [e2sStep, e2sAuto, h, ite_true, refStep]
    constructor <;> (repeat' split) <;> simp_all
  | stopTestRun => simp [e2sStep, h, refStep]
  | _ => simp [e2sStep, e2sAuto, e2sStart, h, refStep]

/-- from one call to a list of calls -/
theorem ctx_lift (s : Shape)
    (h1 : ∀ (st : St s) (c : Call), (chainStarted s st = true ∨ c = .startTestRun) →
      ctxOf s (step s st c) = refStepInj (chain s) (ctxOf s st) c ∧ chainStarted s (step s st c) = true) :
    ∀ (cs : List Call) (st : St s), chainStarted s st = true →
      ctxOf s (cs.foldl (step s) st) = cs.foldl (refStepInj (chain s)) (ctxOf s st) ∧
      chainStarted s (cs.foldl (step s) st) = true := by
  intro cs
  induction cs with
  | nil => intro st h; exact ⟨rfl, h⟩
  | cons c cs ih =>
    intro st h
    obtain ⟨a, b⟩ := h1 st c (.inl h)
    obtain ⟨a', b'⟩ := ih (step s st c) b
    exact ⟨by simp only [List.foldl_cons]; rw [a', a], b'⟩

/-- one call: the context read by `current_tags` moves as the reference semantics says -/
theorem ctx_step : ∀ (s : Shape), s.wf = true → ∀ (st : St s) (c : Call),
    (chainStarted s st = true ∨ c = .startTestRun) →
    ctxOf s (step s st c) = refStepInj (chain s) (ctxOf s st) c ∧ chainStarted s (step s st c) = true
  | .sink f, hw, st, c, _ => by
      have hf : f = .ext := by simpa [Shape.wf] using hw
      subst hf
      exact ⟨by simp only [ctxOf, step, chain, refStepInj_nil]; exact sinkStep_tags st c, rfl⟩
  | .tt ff, _, st, c, _ => ⟨by simp only [ctxOf, step, chain, refStepInj_nil]; exact ttStep_tags st c, rfl⟩
  | .text ff, _, st, c, _ => ⟨by simp only [ctxOf, step, chain, refStepInj_nil]; exact textStep_tags st c, rfl⟩
  | .tbt, _, st, c, _ => ⟨by simp only [ctxOf, step, chain, refStepInj_nil]; exact tbtStep_tags st c, rfl⟩
  | .multi ss, _, (own, inner), c, _ => by
      refine ⟨?_, rfl⟩
      simp only [ctxOf, chain, refStepInj_nil]
      cases c <;> simp [step, multiOwn, ttStep_tags] <;> simp [refStep]
  | .tfr ch, _, (own, inner), c, _ => by
      refine ⟨?_, rfl⟩
      simp only [ctxOf, chain, refStepInj_nil]
      cases c <;> simp [step, tfrStep] <;> (try split) <;> simp [ttStep_tags, refStep]
  | .e2s ch, _, (own, inner), c, h => by
      simp only [ctxOf, chain, refStepInj_nil, chainStarted] at h ⊢
      rcases h with h | h
      · exact e2s_own ⟨caps ch, step ch, failfastOf ch⟩ own inner c h
      · subst h; simp [step, e2sStep, e2sStart, refStep]
  | .deco ch, hw, st, c, h => by
      have ih := ctx_step ch (by simpa [Shape.wf] using hw) st c (by simpa [chainStarted] using h)
      simp only [ctxOf, chain, chainStarted] at h ih ⊢
      cases c <;> first
        | simpa [step] using ih
        | (rcases h with h | h
           · exact ⟨by simp [step, refStepInj, refStep], by simpa [step] using h⟩
           · cases h)
  | .tagger n g ch, hw, st, c, h => by
      have hw' : ch.wf = true := by simpa [Shape.wf] using hw
      have ih := ctx_step ch hw' st c (by simpa [chainStarted] using h)
      simp only [ctxOf, chain, chainStarted] at h ih ⊢
      cases c with
      | startTest t =>
        obtain ⟨a, b⟩ := ih
        obtain ⟨a', b'⟩ := ctx_step ch hw' (step ch st (.startTest t)) (.tags n g) (.inl b)
        refine ⟨?_, by simpa [step] using b'⟩
        simp only [step]
        rw [a', a]
        simp [refStepInj, refStep, inject_append, inject]
      | done | setFailfast _ =>
        rcases h with h | h
        · exact ⟨by simp [step, refStepInj, refStep], by simpa [step] using h⟩
        · cases h
      | _ => simpa [step, refStepInj] using ih
  | .etod ch, hw, (own, inner), c, h => by
      cases hct : (caps ch).currentTags
      · -- the decorator's own context
        have hc := caps_noCurrentTags ch hct
        simp only [ctxOf, chain, chainStarted, hct, Bool.false_eq_true, ite_false, refStepInj_nil, and_true]
        exact etodStep_own_tags ⟨caps ch, step ch, failfastOf ch⟩ hc own inner c
      · -- the decorated object's context
        obtain ⟨ht, hr⟩ := caps_currentTags ch hct
        have hw' : ch.wf = true := by
          cases ch <;> simp_all [Shape.wf, caps]
          rename_i f; cases f <;> simp_all [Flavour.caps]
        simp only [ctxOf, chain, chainStarted, hct, ite_true] at h ⊢
        obtain ⟨k, hk⟩ := etodStep_emits ⟨caps ch, step ch, failfastOf ch⟩ own inner c
        have hstep : (step (.etod ch) (own, inner) c).2
            = (etodMain (caps ch) c ++ List.replicate k Call.stop).foldl (step ch) inner := hk
        rw [hstep]
        have lift := ctx_lift ch (ctx_step ch hw')
        rcases h with h | h
        · obtain ⟨a, b⟩ := lift _ inner h
          refine ⟨?_, b⟩
          rw [a, List.foldl_append, foldl_stops, ref_main _ ht hr]
        · subst h
          simp only [etodMain, hr, ite_true, List.cons_append, List.nil_append, List.foldl_cons]
          obtain ⟨a, b⟩ := ctx_step ch hw' inner .startTestRun (.inr rfl)
          obtain ⟨a', b'⟩ := lift (List.replicate k Call.stop) _ b
          refine ⟨?_, b'⟩
          rw [a', foldl_stops, a]

theorem ctx_init : ∀ (s : Shape), ctxOf s (init s) = {}
  | .sink _ => rfl
  | .tt _ => rfl
  | .text _ => rfl
  | .tbt => rfl
  | .etod c => by simp only [ctxOf, init]; split; exact ctx_init c; rfl
  | .deco c => ctx_init c
  | .tagger _ _ c => ctx_init c
  | .tfr _ => rfl
  | .multi _ => rfl
  | .e2s _ => rfl

theorem states_cur (s : Shape) (hw : s.wf = true) : ∀ (h : List Call) (st : St s),
    (chainStarted s st = true ∨ h.head? = some .startTestRun) →
    (states s st h).map (currentTagsOf s) = refCur (chain s) (ctxOf s st) h
  | [], _, _ => rfl
  | c :: h, st, hs => by
      obtain ⟨a, b⟩ := ctx_step s hw st c (hs.imp id (by simp))
      simp only [states, List.map_cons, refCur, currentTags_eq, a]
      rw [← a, ← currentTags_eq, states_cur s hw h _ (.inl b), a]

theorem chainStarted_noStream : ∀ (s : Shape) (st : St s), s.noStream = true → chainStarted s st = true
  | .etod c, (_, inner), h => by
      simp only [chainStarted]; split
      · exact chainStarted_noStream c inner (by simpa [Shape.noStream] using h)
      · rfl
  | .deco c, st, h => chainStarted_noStream c st (by simpa [Shape.noStream] using h)
  | .tagger _ _ c, st, h => chainStarted_noStream c st (by simpa [Shape.noStream] using h)
  | .e2s _, _, h => by simp [Shape.noStream] at h
  | .sink _, _, _ => rfl
  | .tt _, _, _ => rfl
  | .text _, _, _ => rfl
  | .tbt, _, _ => rfl
  | .tfr _, _, _ => rfl
  | .multi _, _, _ => rfl

/-- **C17 (current tags).**  On every result object and adapter graph `s`, after every call of every
history `h`, `current_tags` is what the stack-of-sets semantics gives: `startTestRun` empties, `startTest`
pushes a copy (a `Tagger` then applies its changes), `tags(new, gone)` changes the top, `stopTest` pops —
but never the run-level set (D11), so it is always defined.  (A graph whose `current_tags` is read from an
`ExtendedToStreamDecorator` has to be started with `startTestRun`.) -/
theorem C17_current (s : Shape) (hw : s.wf = true) (h : List Call)
    (hs : s.noStream = true ∨ h.head? = some .startTestRun) :
    (states s (init s) h).map (currentTagsOf s) = refCur (chain s) {} h := by
  have := states_cur s hw h (init s) (hs.imp (chainStarted_noStream s _) id)
  rwa [ctx_init] at this

/-- **C17 (test-local).**  Whatever `tags` calls (and other calls that are not test or run boundaries)
happen between a `startTest` and its `stopTest`, after the `stopTest` the tag context is what it was before
the `startTest`: changes made inside a test are discarded, those made outside persist. -/
theorem C17_test_local (ctx : TagCtx) (t t' : Nat) (body : List Call)
    (hb : ∀ c ∈ body, match c with | .startTestRun | .startTest _ | .stopTest _ => False | _ => True) :
    ([Call.startTest t] ++ body ++ [Call.stopTest t']).foldl refStep ctx = ctx := by
  have key : ∀ (body : List Call) (c0 : TagCtx),
      (∀ c ∈ body, match c with | .startTestRun | .startTest _ | .stopTest _ => False | _ => True) →
      (body.foldl refStep c0).parents = c0.parents := by
    intro body
    induction body with
    | nil => intro c0 _; rfl
    | cons c body ih =>
      intro c0 h
      rw [List.foldl_cons, ih _ (fun x hx => h x (List.mem_cons_of_mem _ hx))]
      have := h c List.mem_cons_self
      cases c <;> simp_all [refStep, TagCtx.change]
  simp only [List.foldl_append, List.foldl_cons, List.foldl_nil]
  have := key body (refStep ctx (.startTest t)) hb
  simp only [refStep, TagCtx.push] at this
  simp only [refStep, TagCtx.push, TagCtx.pop, this]

end TTV.Props.C17
