import TTV.Model.Result
import TTV.Generated.C17
import TTV.Model.ResC17
import TTV.Spec.C17
import TTV.Lemmas.ResEmit
import TTV.Lemmas.TagViews
/-! # C17 — tags are scoped: test-local changes never leak, run-level changes persist

Theorems over the tree model M-Res (`TTV/Model/Result.lean`), for **every** adapter graph (any depth / fan-out) and
**every** call history (no bound on length).

* `holds_model_partial`  : the executable spec `Spec.C17.holds` is true of the model's trace (every well-formed graph,
                           outside finding `taggerBelowBuffer`)
* `C17_current`          : `current_tags` of every result / adapter (incl. `ExtendedToStreamDecorator`) after every call = the
                           stack-of-sets semantics `refCur`; never undefined (D11)
* `C17_test_local`       : under that semantics a `startTest … stopTest` bracket leaves the context unchanged
* `C17_observed_partial` : every wrapped result / final stream event carries at each outcome the reporter's current tags (through
                           `ThreadsafeForwardingResult` buffers + `_merge_tags`, `MultiTestResult`, decorators, `Tagger`,
                           `ExtendedToStreamDecorator` → `StreamToExtendedDecorator` → `PlaceHolder.run`)
* `C17_merge`            : merging tag changes then applying = applying in sequence (`_merge_tags`)
* `C17_finding_witness`  : the model reproduces finding `taggerBelowBuffer`
-/
namespace TTV.Props.C17
open TTV.Result TTV.ResC17 TTV.Spec.C17 TTV.Lemmas.ResEmit TTV.Lemmas.TagViews TTV.Lemmas.TagSetL
set_option linter.unusedSimpArgs false

/-! ## Part A: `current_tags` follows the stack-of-sets semantics -/
/-- the tag context `current_tags` of an object reads -/
def ctxOf : (s : Shape) → St s → TagCtx
  | .sink _, st => st.tags
  | .tt _, st => st.tags
  | .text _, st => st.tt.tags
  | .tbt, st => st.tt.tags
  | .etod c, (own, inner) => if (caps c).currentTags then ctxOf c inner else own.tags
  | .deco c, st => ctxOf c st
  | .fsink _ _ _, st => st.tags
  | .tagger _ _ c, st => ctxOf c st
  | .tfr _, (own, _) => own.tt.tags
  | .multi _, (own, _) => own.tags
  | .e2s _, (own, _) => own.tags
  | .sff, (own, _) => own.tags

theorem currentTags_eq : ∀ (s : Shape) (st : St s), currentTagsOf s st = (ctxOf s st).cur
  | .sink _, _ => rfl
  | .tt _, _ => rfl
  | .text _, _ => rfl
  | .tbt, _ => rfl
  | .etod c, (own, inner) => by
      simp only [currentTagsOf, ctxOf]; split
      · exact currentTags_eq c inner
      · rfl
  | .deco c, st => currentTags_eq c st
  | .fsink _ _ _, _ => rfl
  | .tagger _ _ c, st => currentTags_eq c st
  | .tfr _, _ => rfl
  | .multi _, _ => rfl
  | .e2s _, _ => rfl
  | .sff, _ => rfl

/-- the `ExtendedToStreamDecorator` whose tags are read (if any) has been started -/
def chainStarted : (s : Shape) → St s → Bool
  | .etod c, (_, inner) => if (caps c).currentTags then chainStarted c inner else true
  | .deco c, st => chainStarted c st
  | .tagger _ _ c, st => chainStarted c st
  | .e2s _, (own, _) => own.started
  | .sff, (own, _) => own.started
  | _, _ => true

theorem caps_currentTags (c : Shape) : (caps c).currentTags = true → (caps c).tags = true ∧ (caps c).startRun = true := by
  cases c <;> simp [caps]
  all_goals (rename_i f; cases f <;> simp [Flavour.caps])

theorem caps_noCurrentTags (c : Shape) : (caps c).currentTags = false → (caps c).tags = false := by
  cases c <;> simp [caps]
  all_goals (rename_i f; cases f <;> simp [Flavour.caps])

theorem inject_append (ctx : TagCtx) (a b : List (TagSet × TagSet)) :
    inject ctx (a ++ b) = inject (inject ctx a) b := by simp [inject]

theorem sinkStep_tags (s : Sink) (c : Call) : (sinkStep .ext s c).tags = refStep s.tags c := by
  cases c <;> simp [sinkStep, refStep, Call.logged] <;> (repeat' split) <;> rfl

theorem ttStep_tags (s : TT) (c : Call) : (ttStep s c).tags = refStep s.tags c := by
  cases c with
  | add k t a => cases k <;> simp [ttStep, refStep, Call.logged]
  | _ => simp [ttStep, refStep, Call.logged, TT.reset]

theorem textStep_tags (s : TextSt) (c : Call) : (textStep s c).tt.tags = refStep s.tt.tags c := by
  cases c <;> simp only [textStep] <;> exact ttStep_tags _ _

theorem tbtStep_tags (s : TbtSt) (c : Call) : (tbtStep s c).tt.tags = refStep s.tt.tags c := by
  cases c <;> simp only [tbtStep] <;> exact ttStep_tags _ _

theorem refStepInj_nil (ctx : TagCtx) (c : Call) : refStepInj [] ctx c = refStep ctx c := by
  cases c <;> simp [refStepInj, refStep, inject]

theorem refStepInj_neutral (inj : List (TagSet × TagSet)) (ctx : TagCtx) (c : Call)
    (h : match c with | .startTestRun | .startTest _ | .stopTest _ | .tags _ _ => False | _ => True) :
    refStepInj inj ctx c = ctx := by
  cases c <;> simp_all [refStepInj, refStep]

theorem foldl_stops (inj : List (TagSet × TagSet)) (ctx : TagCtx) (k : Nat) :
    (List.replicate k Call.stop).foldl (refStepInj inj) ctx = ctx := by
  induction k with
  | zero => rfl
  | succ k ih => simp [List.replicate_succ, refStepInj, refStep, ih]

theorem ref_main (caps : Caps) (ht : caps.tags = true) (hr : caps.startRun = true) (inj : List (TagSet × TagSet))
    (ctx : TagCtx) (c : Call) : (etodMain caps c).foldl (refStepInj inj) ctx = refStepInj inj ctx c := by
  cases c <;> simp [etodMain, ht, hr, Spec.C08.degradeCall] <;> (try split) <;> simp [refStepInj, refStep]

section own
variable {σ : Type} (I : Iface σ)
theorem etodStep_own_tags (hc : I.caps.tags = false) (own : EtodOwn) (inner : σ) (c : Call) :
    (etodStep I own inner c).1.tags = refStep own.tags c := by
  cases c with
  | add k t a =>
    cases k <;> simp only [etodStep, refStep] <;> (repeat' split) <;> simp [etodFinally_tags]
  | stop => simp [etodStep, etodStop_tags, refStep]
  | tags n g => simp [etodStep, hc, refStep]
  | setFailfast b => simp only [etodStep, refStep]; split <;> rfl
  | _ => simp [etodStep, refStep] <;> (try split) <;> rfl
end own

theorem e2s_own {σ : Type} (I : Iface σ) (own : E2S) (inner : σ) (c : Call) (h : own.started = true) :
    (e2sStep I own inner c).1.tags = refStep own.tags c ∧ (e2sStep I own inner c).1.started = true := by
  cases c with
  | add k t a =>
    simp only [e2sStep, e2sAuto, h, ite_true, refStep]
    constructor <;> (repeat' split) <;> simp_all
  | stopTestRun => simp [e2sStep, h, refStep]
  | _ => simp [e2sStep, e2sAuto, e2sStart, h, refStep]

/-- from one call to a list of calls -/
theorem ctx_lift (s : Shape)
    (h1 : ∀ (st : St s) (c : Call), (chainStarted s st = true ∨ c = .startTestRun) →
      ctxOf s (step s st c) = refStepInj (chain s) (ctxOf s st) c ∧ chainStarted s (step s st c) = true) :
    ∀ (cs : List Call) (st : St s), chainStarted s st = true →
      ctxOf s (cs.foldl (step s) st) = cs.foldl (refStepInj (chain s)) (ctxOf s st) ∧
      chainStarted s (cs.foldl (step s) st) = true := by
  intro cs
  induction cs with
  | nil => intro st h; exact ⟨rfl, h⟩
  | cons c cs ih =>
    intro st h
    obtain ⟨a, b⟩ := h1 st c (.inl h)
    obtain ⟨a', b'⟩ := ih (step s st c) b
    exact ⟨by simp only [List.foldl_cons]; rw [a', a], b'⟩

/-- one call: the context read by `current_tags` moves as the reference semantics says -/
theorem ctx_step : ∀ (s : Shape), s.wf = true → ∀ (st : St s) (c : Call),
    (chainStarted s st = true ∨ c = .startTestRun) →
    ctxOf s (step s st c) = refStepInj (chain s) (ctxOf s st) c ∧ chainStarted s (step s st c) = true
  | .fsink _ _ _, hw, _, _, _ => by simp [Shape.wf] at hw
  | .sink f, hw, st, c, _ => by
      have hf : f = .ext := by simpa [Shape.wf] using hw
      subst hf
      exact ⟨by simp only [ctxOf, step, chain, refStepInj_nil]; exact sinkStep_tags st c, rfl⟩
  | .tt ff, _, st, c, _ => ⟨by simp only [ctxOf, step, chain, refStepInj_nil]; exact ttStep_tags st c, rfl⟩
  | .text ff, _, st, c, _ => ⟨by simp only [ctxOf, step, chain, refStepInj_nil]; exact textStep_tags st c, rfl⟩
  | .tbt, _, st, c, _ => ⟨by simp only [ctxOf, step, chain, refStepInj_nil]; exact tbtStep_tags st c, rfl⟩
  | .multi ss, _, (own, inner), c, _ => by
      refine ⟨?_, rfl⟩
      simp only [ctxOf, chain, refStepInj_nil]
      cases c <;> simp [step, multiOwn, ttStep_tags] <;> simp [refStep]
  | .tfr ch, _, (own, inner), c, _ => by
      refine ⟨?_, rfl⟩
      simp only [ctxOf, chain, refStepInj_nil]
      cases c <;> simp [step, tfrStep] <;> (try split) <;> simp [ttStep_tags, refStep]
  | .sff, _, (own, n), c, h => by
      simp only [ctxOf, chain, refStepInj_nil, chainStarted] at h ⊢
      rcases h with h | h
      · exact e2s_own nullTarget own () c h
      · subst h; simp [step, e2sStep, e2sStart, refStep]
  | .e2s ch, _, (own, inner), c, h => by
      simp only [ctxOf, chain, refStepInj_nil, chainStarted] at h ⊢
      rcases h with h | h
      · exact e2s_own ⟨caps ch, step ch, failfastOf ch⟩ own inner c h
      · subst h; simp [step, e2sStep, e2sStart, refStep]
  | .deco ch, hw, st, c, h => by
      have ih := ctx_step ch (by simpa [Shape.wf] using hw) st c (by simpa [chainStarted] using h)
      simp only [ctxOf, chain, chainStarted] at h ih ⊢
      cases c <;> first
        | simpa [step] using ih
        | (rcases h with h | h
           · exact ⟨by simp [step, refStepInj, refStep], by simpa [step] using h⟩
           · cases h)
  | .tagger n g ch, hw, st, c, h => by
      have hw' : ch.wf = true := by simpa [Shape.wf] using hw
      have ih := ctx_step ch hw' st c (by simpa [chainStarted] using h)
      simp only [ctxOf, chain, chainStarted] at h ih ⊢
      cases c with
      | startTest t =>
        obtain ⟨a, b⟩ := ih
        obtain ⟨a', b'⟩ := ctx_step ch hw' (step ch st (.startTest t)) (.tags n g) (.inl b)
        refine ⟨?_, by simpa [step] using b'⟩
        simp only [step]
        rw [a', a]
        simp [refStepInj, refStep, inject_append, inject]
      | done =>
        rcases h with h | h
        · exact ⟨by simp [step, refStepInj, refStep], by simpa [step] using h⟩
        · cases h
      | _ => simpa [step, refStepInj] using ih
  | .etod ch, hw, (own, inner), c, h => by
      cases hct : (caps ch).currentTags
      · -- the decorator's own context
        have hc := caps_noCurrentTags ch hct
        simp only [ctxOf, chain, chainStarted, hct, Bool.false_eq_true, ite_false, refStepInj_nil, and_true]
        exact etodStep_own_tags ⟨caps ch, step ch, failfastOf ch⟩ hc own inner c
      · -- the decorated object's context
        obtain ⟨ht, hr⟩ := caps_currentTags ch hct
        have hw' : ch.wf = true := by
          cases ch <;> simp_all [Shape.wf, caps]
          all_goals (rename_i f; cases f <;> simp_all [Flavour.caps])
        simp only [ctxOf, chain, chainStarted, hct, ite_true] at h ⊢
        obtain ⟨k, hk⟩ := etodStep_emits ⟨caps ch, step ch, failfastOf ch⟩ own inner c
        have hstep : (step (.etod ch) (own, inner) c).2
            = (etodMain (caps ch) c ++ List.replicate k Call.stop).foldl (step ch) inner := hk
        rw [hstep]
        have lift := ctx_lift ch (ctx_step ch hw')
        rcases h with h | h
        · obtain ⟨a, b⟩ := lift _ inner h
          refine ⟨?_, b⟩
          rw [a, List.foldl_append, foldl_stops, ref_main _ ht hr]
        · subst h
          simp only [etodMain, hr, ite_true, List.cons_append, List.nil_append, List.foldl_cons]
          obtain ⟨a, b⟩ := ctx_step ch hw' inner .startTestRun (.inr rfl)
          obtain ⟨a', b'⟩ := lift (List.replicate k Call.stop) _ b
          refine ⟨?_, b'⟩
          rw [a', foldl_stops, a]

theorem ctx_init : ∀ (s : Shape), ctxOf s (init s) = {}
  | .sink _ => rfl
  | .tt _ => rfl
  | .text _ => rfl
  | .tbt => rfl
  | .etod c => by simp only [ctxOf, init]; split; exact ctx_init c; rfl
  | .deco c => ctx_init c
  | .fsink _ _ _ => rfl
  | .tagger _ _ c => ctx_init c
  | .tfr _ => rfl
  | .multi _ => rfl
  | .e2s _ => rfl
  | .sff => rfl

theorem states_cur (s : Shape) (hw : s.wf = true) : ∀ (h : List Call) (st : St s),
    (chainStarted s st = true ∨ h.head? = some .startTestRun) →
    (states s st h).map (currentTagsOf s) = refCur (chain s) (ctxOf s st) h
  | [], _, _ => rfl
  | c :: h, st, hs => by
      obtain ⟨a, b⟩ := ctx_step s hw st c (hs.imp id (by simp))
      simp only [states, List.map_cons, refCur, currentTags_eq, a]
      rw [← a, ← currentTags_eq, states_cur s hw h _ (.inl b), a]

theorem chainStarted_noStream : ∀ (s : Shape) (st : St s), s.noStream = true → chainStarted s st = true
  | .etod c, (_, inner), h => by
      simp only [chainStarted]; split
      · exact chainStarted_noStream c inner (by simpa [Shape.noStream] using h)
      · rfl
  | .deco c, st, h => chainStarted_noStream c st (by simpa [Shape.noStream] using h)
  | .fsink _ _ _, _, _ => rfl
  | .tagger _ _ c, st, h => chainStarted_noStream c st (by simpa [Shape.noStream] using h)
  | .e2s _, _, h => by simp [Shape.noStream] at h
  | .sff, _, h => by simp [Shape.noStream] at h
  | .sink _, _, _ => rfl
  | .tt _, _, _ => rfl
  | .text _, _, _ => rfl
  | .tbt, _, _ => rfl
  | .tfr _, _, _ => rfl
  | .multi _, _, _ => rfl

/-- **C17 (current tags).**  On every result object and adapter graph `s`, after every call of every
history `h`, `current_tags` is what the stack-of-sets semantics gives: `startTestRun` empties, `startTest`
pushes a copy (a `Tagger` then applies its changes), `tags(new, gone)` changes the top, `stopTest` pops —
but never the run-level set (D11), so it is always defined.  (A graph whose `current_tags` is read from an
`ExtendedToStreamDecorator` has to be started with `startTestRun`.) -/
theorem C17_current (s : Shape) (hw : s.wf = true) (h : List Call)
    (hs : s.noStream = true ∨ h.head? = some .startTestRun) :
    (states s (init s) h).map (currentTagsOf s) = refCur (chain s) {} h := by
  have := states_cur s hw h (init s) (hs.imp (chainStarted_noStream s _) id)
  rwa [ctx_init] at this

/-- **C17 (test-local).**  Whatever `tags` calls (and other calls that are not test or run boundaries)
happen between a `startTest` and its `stopTest`, after the `stopTest` the tag context is what it was before
the `startTest`: changes made inside a test are discarded, those made outside persist. -/
theorem C17_test_local (ctx : TagCtx) (t t' : Nat) (body : List Call)
    (hb : ∀ c ∈ body, match c with | .startTestRun | .startTest _ | .stopTest _ => False | _ => True) :
    ([Call.startTest t] ++ body ++ [Call.stopTest t']).foldl refStep ctx = ctx := by
  have key : ∀ (body : List Call) (c0 : TagCtx),
      (∀ c ∈ body, match c with | .startTestRun | .startTest _ | .stopTest _ => False | _ => True) →
      (body.foldl refStep c0).parents = c0.parents := by
    intro body
    induction body with
    | nil => intro c0 _; rfl
    | cons c body ih =>
      intro c0 h
      rw [List.foldl_cons, ih _ (fun x hx => h x (List.mem_cons_of_mem _ hx))]
      have := h c List.mem_cons_self
      cases c <;> simp_all [refStep, TagCtx.change]
  simp only [List.foldl_append, List.foldl_cons, List.foldl_nil]
  have := key body (refStep ctx (.startTest t)) hb
  simp only [refStep, TagCtx.push] at this
  simp only [refStep, TagCtx.push, TagCtx.pop, this]

/-! ## Part B: what wrapped results observe -/
/- the target of every stream pipeline takes `tags` and `startTestRun` (it is an `ExtendedToOriginalDecorator`) -/
mutual
def e2sFull : Shape → Bool
  | .e2s c => (caps c).tags && (caps c).startRun && e2sFull c
  | .etod c | .deco c | .tagger _ _ c | .tfr c => e2sFull c
  | .multi cs => e2sFullL cs
  | _ => true
def e2sFullL : List Shape → Bool
  | [] => true
  | c :: cs => e2sFull c && e2sFullL cs
end

theorem tevs_stops (k : Nat) : tevs (List.replicate k Call.stop) = [] := by
  induction k with
  | zero => rfl
  | succ k ih => simp [List.replicate_succ, tevs, tev] at ih ⊢

theorem tevs_etodMain (caps : Caps) (c : Call) : tevs (etodMain caps c) = etodVT caps (tevs [c]) := by
  cases c with
  | startTestRun => cases h : caps.startRun <;> simp [etodMain, tevs, etodVT, h]
  | tags n g => cases h : caps.tags <;> simp [etodMain, tevs, etodVT, h]
  | stopTestRun => cases h : caps.startRun <;> simp [etodMain, tevs, etodVT, h]
  | time d => simp only [etodMain]; split <;> rfl
  | progress => simp only [etodMain]; split <;> rfl
  | done => simp only [etodMain]; split <;> rfl
  | setFailfast b => simp only [etodMain]; split <;> rfl
  | stop => rfl
  | startTest t => rfl
  | stopTest t => rfl
  | add k t a => rfl

def absOf (own : TfrOwn) : TfrAbs := { inTest := own.inTest, g := own.globalTags, t := own.testTags }

def optEmit (a : TfrAbs) : Option TEv → List TEv
  | some x => tfrEmitT a x
  | none => []
def optNext (a : TfrAbs) : Option TEv → TfrAbs
  | some x => tfrNext a x
  | none => a

theorem tevs_tagsIf (p : TagSet × TagSet) :
    tevs (if anyTags p = true then [Call.tags p.1 p.2] else []) = tagsIf p := by
  unfold tagsIf; split <;> rfl

theorem tfrStep_emits_t {σ : Type} (I : Iface σ) (own : TfrOwn) (inner : σ) (c : Call) :
    (∃ cs, (tfrStep I own inner c).2 = cs.foldl I.step inner ∧ tevs cs = optEmit (absOf own) (tev c)) ∧
    absOf (tfrStep I own inner c).1 = optNext (absOf own) (tev c) := by
  cases c with
  | add k t a =>
    refine ⟨⟨tfrBlock own k t a ++ tfrStops own k, rfl, ?_⟩, rfl⟩
    have hst : tevs (tfrStops own k) = [] := by unfold tfrStops; split <;> rfl
    rw [tevs_append, hst, List.append_nil]
    simp only [tfrBlock, tevs_append, tevs_tagsIf, optEmit, tev, tfrEmitT, absOf]
    simp [tevs, tev, List.filterMap_cons]
  | startTestRun => exact ⟨⟨[.startTestRun], rfl, rfl⟩, rfl⟩
  | stopTestRun => exact ⟨⟨[.stopTestRun], rfl, rfl⟩, rfl⟩
  | stop => exact ⟨⟨[.stop], rfl, rfl⟩, rfl⟩
  | done => exact ⟨⟨[.done], rfl, rfl⟩, rfl⟩
  | startTest t => exact ⟨⟨[], rfl, rfl⟩, rfl⟩
  | stopTest t => exact ⟨⟨[], rfl, rfl⟩, rfl⟩
  | tags n g =>
    refine ⟨⟨[], rfl, rfl⟩, ?_⟩
    simp only [tfrStep, absOf, optNext, tev, tfrNext]
    split <;> simp_all
  | time d => exact ⟨⟨[], rfl, rfl⟩, rfl⟩
  | setFailfast b => exact ⟨⟨[], rfl, rfl⟩, rfl⟩
  | progress => exact ⟨⟨[], rfl, rfl⟩, rfl⟩

/-! ### what the stream pipeline sends on -/
def absE (own : E2S) : E2sAbs := { started := own.started, ctx := own.tags, inprog := own.inprog.map (·.1) }

def optEmitE (a : E2sAbs) : Option TEv → List TEv
  | some x => e2sEmitT a x
  | none => []
def optNextE (a : E2sAbs) : Option TEv → E2sAbs
  | some x => e2sNextT a x
  | none => a
def optSent (a : E2sAbs) : Option TEv → List (Nat × TagSet)
  | some (.out t) => [(t, (e2sAutoT a).1.ctx.cur)]
  | _ => []

/-- the tag-relevant events each node of the graph has received so far determine the states of the leaves
(and the tag buffers of every `ThreadsafeForwardingResult`) -/
def LeafT (s : Shape) (st : St s) (e : List TEv) : Prop := ∃ cs, st = run s (init s) cs ∧ tevs cs = e

mutual
def TReach : (s : Shape) → St s → List TEv → Prop
  | .sff, _, _ => True
  | .sink f, st, e => LeafT (.sink f) st e
  | .tt ff, st, e => LeafT (.tt ff) st e
  | .text ff, st, e => LeafT (.text ff) st e
  | .tbt, st, e => LeafT .tbt st e
  | .etod c, (_, inner), e => TReach c inner (etodVT (caps c) e)
  | .deco c, st, e => TReach c st e
  | .fsink l b f, st, e => LeafT (.fsink l b f) st e
  | .tagger n g c, st, e => TReach c st (taggerVT n g e)
  | .tfr c, (own, inner), e => absOf own = e.foldl tfrNext {} ∧ TReach c inner (tfrVT {} e)
  | .multi cs, (_, inner), e => TReachL cs inner e
  | .e2s c, (own, inner), e => absE own = e.foldl e2sNextT {} ∧ own.sent = sentT {} e ∧ TReach c inner (e2sVT {} e)
def TReachL : (cs : List Shape) → StL cs → List TEv → Prop
  | [], _, _ => True
  | c :: cs, (x, xs), e => TReach c x e ∧ TReachL cs xs e
end

theorem run_append (s : Shape) (st : St s) (a b : List Call) : run s st (a ++ b) = run s (run s st a) b := by
  simp [run]

theorem leafT_steps (s : Shape) (st : St s) (e : List TEv) (cs : List Call) (h : LeafT s st e) :
    LeafT s (cs.foldl (step s) st) (e ++ tevs cs) := by
  obtain ⟨cs0, h1, h2⟩ := h
  exact ⟨cs0 ++ cs, by rw [run_append, ← h1]; rfl, by rw [tevs_append, h2]⟩

theorem tevs_cons_split (c : Call) (cs : List Call) : tevs (c :: cs) = tevs [c] ++ tevs cs := by
  rw [← tevs_append]; rfl

theorem tlift (s : Shape)
    (h1 : ∀ (st : St s) (e : List TEv) (c : Call), TReach s st e → TReach s (step s st c) (e ++ tevs [c])) :
    ∀ (cs : List Call) (st : St s) (e : List TEv), TReach s st e → TReach s (cs.foldl (step s) st) (e ++ tevs cs) := by
  intro cs
  induction cs with
  | nil => intro st e h; simpa [tevs] using h
  | cons c cs ih =>
    intro st e h
    have := ih (step s st c) (e ++ tevs [c]) (h1 st e c h)
    rw [List.append_assoc, ← tevs_cons_split] at this
    exact this

theorem etodVT_append (caps : Caps) (a b : List TEv) : etodVT caps (a ++ b) = etodVT caps a ++ etodVT caps b := by
  simp [etodVT]

theorem taggerVT_append (n g : TagSet) (a b : List TEv) : taggerVT n g (a ++ b) = taggerVT n g a ++ taggerVT n g b := by
  simp [taggerVT]

theorem tfrVT_single (a : TfrAbs) (o : Option TEv) : tfrVT a o.toList = optEmit a o := by
  cases o <;> simp [tfrVT, optEmit]

theorem foldl_opt (a : TfrAbs) (o : Option TEv) : o.toList.foldl tfrNext a = optNext a o := by
  cases o <;> rfl

theorem e2sVT_single (a : E2sAbs) (o : Option TEv) : e2sVT a o.toList = optEmitE a o := by
  cases o <;> simp [e2sVT, optEmitE]

theorem foldlE_opt (a : E2sAbs) (o : Option TEv) : o.toList.foldl e2sNextT a = optNextE a o := by
  cases o <;> rfl

theorem sentT_single (a : E2sAbs) (o : Option TEv) : sentT a o.toList = optSent a o := by
  cases o with
  | none => rfl
  | some x => cases x <;> rfl

theorem tevs_single (c : Call) : tevs [c] = (tev c).toList := by
  simp only [tevs, List.filterMap_cons, List.filterMap_nil]; cases tev c <;> rfl

section stream
variable {σ : Type} (I : Iface σ)

/-- `PlaceHolder.run` through its transient `ExtendedToOriginalDecorator` -/
theorem ph_fold : ∀ (calls : List Call) (own : EtodOwn) (inner : σ),
    ∃ cs, (calls.foldl (fun (p : EtodOwn × σ) c => etodStep I p.1 p.2 c) (own, inner)).2 = cs.foldl I.step inner ∧
      tevs cs = etodVT I.caps (tevs calls)
  | [], _, inner => ⟨[], rfl, rfl⟩
  | c :: calls, own, inner => by
      obtain ⟨k, hk⟩ := etodStep_emits I own inner c
      obtain ⟨cs, h1, h2⟩ := ph_fold calls (etodStep I own inner c).1 (etodStep I own inner c).2
      refine ⟨etodMain I.caps c ++ List.replicate k Call.stop ++ cs, ?_, ?_⟩
      · simp only [List.foldl_cons, List.foldl_append]
        rw [h1, hk, List.foldl_append]
      · rw [tevs_append, tevs_append, tevs_stops, tevs_etodMain, h2, List.append_nil, tevs_cons_split c calls, etodVT_append]

theorem tevs_placeholder (t : Nat) (k : Kind) (d : Details) (T : TagSet) (t0 t1 : TimeV) :
    tevs (placeholderCalls t k d T t0 t1) = phBlock t T := by
  unfold placeholderCalls
  split <;> split <;> rfl

theorem ph_emits (hc : I.caps.tags = true ∧ I.caps.startRun = true) (inner : σ) (t : Nat) (k : Kind) (d : Details)
    (T : TagSet) (t0 t1 : TimeV) :
    ∃ cs, placeholderRun I inner (placeholderCalls t k d T t0 t1) = cs.foldl I.step inner ∧ tevs cs = phBlock t T := by
  obtain ⟨cs, h1, h2⟩ := ph_fold I (placeholderCalls t k d T t0 t1) {} inner
  exact ⟨cs, h1, by rw [h2, etodVT_full _ hc.1 hc.2, tevs_placeholder]⟩

/-- flushing the tests still in progress at `stopTestRun` -/
theorem flush_emits (hc : I.caps.tags = true ∧ I.caps.startRun = true) : ∀ (pend : List (Nat × TimeV)) (inner : σ),
    ∃ cs, pend.foldl (fun st p => placeholderRun I st (placeholderCalls p.1 .failure [] 0 p.2 .none)) inner
        = cs.foldl I.step inner ∧ tevs cs = (pend.map (·.1)).flatMap fun t => phBlock t 0
  | [], inner => ⟨[], rfl, rfl⟩
  | p :: pend, inner => by
      obtain ⟨cs1, h1, h2⟩ := ph_emits I hc inner p.1 .failure [] 0 p.2 .none
      obtain ⟨cs2, h3, h4⟩ := flush_emits hc pend (cs1.foldl I.step inner)
      refine ⟨cs1 ++ cs2, ?_, ?_⟩
      · simp only [List.foldl_cons, List.foldl_append]; rw [h1, h3]
      · rw [tevs_append, h2, h4]; simp

theorem any_contains (l : List (Nat × TimeV)) (t : Nat) : l.any (·.1 == t) = (l.map (·.1)).contains t := by
  induction l with
  | nil => rfl
  | cons x l ih =>
    simp only [List.any_cons, List.map_cons, List.contains_cons, ih]
    congr 1
    cases h1 : (x.1 == t) <;> cases h2 : (t == x.1) <;> simp_all

theorem filter_map_fst (l : List (Nat × TimeV)) (t : Nat) :
    (l.filter (·.1 != t)).map (·.1) = (l.map (·.1)).filter (· != t) := by
  induction l with
  | nil => rfl
  | cons x l ih => simp only [List.filter_cons, List.map_cons]; split <;> simp [ih]


theorem e2sStep_emits_t (hc : I.caps.tags = true ∧ I.caps.startRun = true) (own : E2S) (inner : σ) (c : Call) :
    (∃ cs, (e2sStep I own inner c).2 = cs.foldl I.step inner ∧ tevs cs = optEmitE (absE own) (tev c)) ∧
    absE (e2sStep I own inner c).1 = optNextE (absE own) (tev c) ∧
    (e2sStep I own inner c).1.sent = own.sent ++ optSent (absE own) (tev c) := by
  cases c with
  | startTestRun => exact ⟨⟨[.startTestRun], rfl, rfl⟩, rfl, by simp [e2sStep, e2sStart, optSent]⟩
  | startTest t =>
    cases hs : own.started
    · refine ⟨⟨[.startTestRun], by simp [e2sStep, e2sAuto, e2sStart, hs], by simp [optEmitE, e2sEmitT, e2sAutoT, absE, hs]⟩, ?_, ?_⟩
      · simp [e2sStep, e2sAuto, e2sStart, hs, absE, optNextE, e2sNextT, e2sAutoT]
      · simp [e2sStep, e2sAuto, e2sStart, hs, optSent]
    · refine ⟨⟨[], by simp [e2sStep, e2sAuto, hs], by simp [optEmitE, e2sEmitT, e2sAutoT, absE, hs]⟩, ?_, ?_⟩
      · simp only [e2sStep, e2sAuto, hs, ite_true, absE, optNextE, tev_start, e2sNextT, e2sAutoT, any_contains]
        split <;> simp
      · simp [e2sStep, e2sAuto, hs, optSent]
  | stopTest t => exact ⟨⟨[], rfl, rfl⟩, rfl, by simp [e2sStep, optSent]⟩
  | tags n g =>
    refine ⟨⟨[], rfl, rfl⟩, ?_, ?_⟩
    · cases hs : own.started <;> simp [e2sStep, hs, absE, optNextE, e2sNextT]
    · cases hs : own.started <;> simp [e2sStep, hs, optSent]
  | time d => exact ⟨⟨[], rfl, rfl⟩, rfl, by simp [e2sStep, optSent]⟩
  | stop => exact ⟨⟨[], rfl, rfl⟩, rfl, by simp [e2sStep, optSent]⟩
  | done => exact ⟨⟨[], rfl, rfl⟩, rfl, by simp [e2sStep, optSent]⟩
  | progress => exact ⟨⟨[], rfl, rfl⟩, rfl, by simp [e2sStep, optSent]⟩
  | setFailfast b => exact ⟨⟨[], rfl, rfl⟩, rfl, by simp [e2sStep, optSent]⟩
  | stopTestRun =>
    cases hs : own.started
    · exact ⟨⟨[], by simp [e2sStep, hs], by simp [optEmitE, e2sEmitT, absE, hs]⟩,
        by simp [e2sStep, hs, absE, optNextE, e2sNextT], by simp [e2sStep, hs, optSent]⟩
    · obtain ⟨cs, h1, h2⟩ := flush_emits I hc own.inprog.reverse inner
      refine ⟨⟨cs ++ [.stopTestRun], ?_, ?_⟩, ?_, ?_⟩
      · simp only [e2sStep, hs, Bool.not_true, Bool.false_eq_true, ite_false, List.foldl_append, List.foldl_cons,
          List.foldl_nil]
        rw [h1]
      · rw [tevs_append, h2]
        simp [optEmitE, e2sEmitT, absE, hs, List.map_reverse]
      · simp [e2sStep, hs, absE, optNextE, e2sNextT]
      · simp [e2sStep, hs, optSent]
  | add k t a =>
    cases hs : own.started
    · -- not started: `startTestRun` first
      have hstep : ∃ (own' : E2S) (d : Details) (f ts : TimeV),
          e2sStep I own inner (.add k t a)
            = (own', placeholderRun I (I.step inner .startTestRun) (placeholderCalls t (streamKind k) d 0 f ts)) ∧
          own'.started = true ∧ own'.tags = {} ∧ own'.inprog = [] ∧ own'.sent = own.sent ++ [(t, 0)] := by
        cases hk : streamKind k <;>
          simp only [e2sStep, e2sAuto, e2sStart, hs, hk, Bool.false_eq_true, ite_false] <;>
          (refine ⟨_, _, _, _, rfl, ?_⟩) <;> (split <;> simp)
      obtain ⟨own', d, f, ts, h0, h1, h2, h3, h4⟩ := hstep
      obtain ⟨cs, hcs1, hcs2⟩ := ph_emits I hc (I.step inner .startTestRun) t (streamKind k) d 0 f ts
      rw [h0]
      refine ⟨⟨.startTestRun :: cs, by simp [hcs1], ?_⟩, ?_, ?_⟩
      · simp [tevs_cons_split .startTestRun cs, hcs2, optEmitE, e2sEmitT, e2sAutoT, absE, hs]
      · simp [absE, h1, h2, h3, optNextE, e2sNextT, e2sAutoT, hs]
      · simp [h4, optSent, e2sAutoT, absE, hs]
    · have hstep : ∃ (own' : E2S) (d : Details) (f ts : TimeV),
          e2sStep I own inner (.add k t a)
            = (own', placeholderRun I inner (placeholderCalls t (streamKind k) d own.tags.cur f ts)) ∧
          own'.started = true ∧ own'.tags = own.tags ∧ own'.inprog = own.inprog.filter (·.1 != t) ∧
          own'.sent = own.sent ++ [(t, own.tags.cur)] := by
        cases hk : streamKind k <;>
          simp only [e2sStep, e2sAuto, hs, hk, ite_true] <;>
          (refine ⟨_, _, _, _, rfl, ?_⟩) <;> (split <;> simp [hs])
      obtain ⟨own', d, f, ts, h0, h1, h2, h3, h4⟩ := hstep
      obtain ⟨cs, hcs1, hcs2⟩ := ph_emits I hc inner t (streamKind k) d own.tags.cur f ts
      rw [h0]
      refine ⟨⟨cs, hcs1, ?_⟩, ?_, ?_⟩
      · simp [hcs2, optEmitE, e2sEmitT, e2sAutoT, absE, hs]
      · simp [absE, h1, h2, h3, optNextE, e2sNextT, e2sAutoT, hs, filter_map_fst]
      · simp [h4, optSent, e2sAutoT, absE, hs]
end stream

mutual
theorem treach_steps : ∀ (s : Shape), e2sFull s = true → ∀ (cs : List Call) (st : St s) (e : List TEv),
    TReach s st e → TReach s (cs.foldl (step s) st) (e ++ tevs cs)
  | .sff, _ => fun _ _ _ _ => trivial
  | .sink f, _ => fun cs st e h => by simp only [TReach] at h ⊢; exact leafT_steps _ st e cs h
  | .fsink l b f, _ => fun cs st e h => by simp only [TReach] at h ⊢; exact leafT_steps _ st e cs h
  | .tt ff, _ => fun cs st e h => by simp only [TReach] at h ⊢; exact leafT_steps _ st e cs h
  | .text ff, _ => fun cs st e h => by simp only [TReach] at h ⊢; exact leafT_steps _ st e cs h
  | .tbt, _ => fun cs st e h => by simp only [TReach] at h ⊢; exact leafT_steps _ st e cs h
  | .etod ch, hn => tlift _ (fun st e c h => by
      obtain ⟨own, inner⟩ := st
      obtain ⟨k, hk⟩ := etodStep_emits ⟨caps ch, step ch, failfastOf ch⟩ own inner c
      have hstep : step (.etod ch) (own, inner) c
          = ((etodStep ⟨caps ch, step ch, failfastOf ch⟩ own inner c).1,
             (etodMain (caps ch) c ++ List.replicate k Call.stop).foldl (step ch) inner) := by
        rw [← hk]; rfl
      rw [hstep]
      simp only [TReach] at h ⊢
      have := treach_steps ch (by simpa [e2sFull] using hn)
        (etodMain (caps ch) c ++ List.replicate k Call.stop) inner _ h
      rw [tevs_append, tevs_stops, List.append_nil, tevs_etodMain] at this
      simpa [etodVT_append] using this)
  | .tfr ch, hn => tlift _ (fun st e c h => by
      obtain ⟨own, inner⟩ := st
      obtain ⟨⟨em, h1, h2⟩, h3⟩ := tfrStep_emits_t ⟨caps ch, step ch, failfastOf ch⟩ own inner c
      have hstep : step (.tfr ch) (own, inner) c
          = ((tfrStep ⟨caps ch, step ch, failfastOf ch⟩ own inner c).1, em.foldl (step ch) inner) := by
        rw [← h1]; rfl
      rw [hstep]
      simp only [TReach] at h ⊢
      obtain ⟨ha, hr⟩ := h
      refine ⟨?_, ?_⟩
      · rw [h3, ha, List.foldl_append, tevs_single, foldl_opt]
      · have := treach_steps ch (by simpa [e2sFull] using hn) em inner _ hr
        rw [h2, ha] at this
        rw [tfrVT_append, tevs_single, tfrVT_single]
        exact this)
  | .deco ch, hn => tlift _ (fun st e c h => by
      have hc := treach_steps ch (by simpa [e2sFull] using hn) [c] st e (by simpa [TReach] using h)
      simp only [TReach] at h ⊢
      cases c with
      | done => rw [show tevs [Call.done] = [] from rfl, List.append_nil]; exact h
      | _ => exact hc)
  | .tagger n g ch, hn => tlift _ (fun st e c h => by
      have hn' : e2sFull ch = true := by simpa [e2sFull] using hn
      simp only [TReach] at h ⊢
      have hc := treach_steps ch hn' [c] st _ h
      rw [taggerVT_append]
      cases c with
      | startTest t =>
        have := treach_steps ch hn' [.startTest t, .tags n g] st _ h
        exact this
      | done => rw [show tevs [Call.done] = [] from rfl, show taggerVT n g [] = [] from rfl, List.append_nil]; exact h
      | _ => exact hc)
  | .multi ss, hn => tlift _ (fun st e c h => by
      obtain ⟨own, inner⟩ := st
      have hn' : e2sFullL ss = true := by simpa [e2sFull] using hn
      simp only [TReach] at h ⊢
      have hc := treachL_step ss hn' inner e c h
      cases c with
      | progress => rw [show tevs [Call.progress] = [] from rfl, List.append_nil]; exact h
      | _ => exact hc)
  | .e2s ch, hn => tlift _ (fun st e c h => by
      obtain ⟨own, inner⟩ := st
      have hn' : ((caps ch).tags = true ∧ (caps ch).startRun = true) ∧ e2sFull ch = true := by
        simpa [e2sFull, Bool.and_assoc, and_assoc] using hn
      obtain ⟨⟨em, h1, h2⟩, h3, h4⟩ := e2sStep_emits_t ⟨caps ch, step ch, failfastOf ch⟩ hn'.1 own inner c
      have hstep : step (.e2s ch) (own, inner) c
          = ((e2sStep ⟨caps ch, step ch, failfastOf ch⟩ own inner c).1, em.foldl (step ch) inner) := by
        rw [← h1]; rfl
      rw [hstep]
      simp only [TReach] at h ⊢
      obtain ⟨ha, hs, hr⟩ := h
      refine ⟨?_, ?_, ?_⟩
      · rw [h3, ha, List.foldl_append, tevs_single, foldlE_opt]
      · rw [h4, hs, sentT_append, tevs_single, sentT_single, ha]
      · have := treach_steps ch hn'.2 em inner _ hr
        rw [h2, ha] at this
        rw [e2sVT_append, tevs_single, e2sVT_single]
        exact this)
theorem treachL_step : ∀ (ss : List Shape), e2sFullL ss = true → ∀ (st : StL ss) (e : List TEv) (c : Call),
    TReachL ss st e → TReachL ss (stepL ss st c) (e ++ tevs [c])
  | [], _, _, _, _, _ => by simp [TReachL]
  | s :: ss, hn, (x, xs), e, c, h => by
      simp only [e2sFullL, Bool.and_eq_true] at hn
      simp only [TReachL, stepL] at h ⊢
      exact ⟨by simpa using treach_steps s hn.1 [c] x e h.1, treachL_step ss hn.2 xs e c h.2⟩
end

mutual
theorem treach_init : ∀ (s : Shape), e2sFull s = true → TReach s (init s) []
  | .sff, _ => trivial
  | .sink f, _ => ⟨[], rfl, rfl⟩
  | .fsink _ _ _, _ => ⟨[], rfl, rfl⟩
  | .tt ff, _ => ⟨[], rfl, rfl⟩
  | .text ff, _ => ⟨[], rfl, rfl⟩
  | .tbt, _ => ⟨[], rfl, rfl⟩
  | .etod ch, hn => by
      simp only [TReach, init]; exact treach_init ch (by simpa [e2sFull] using hn)
  | .tfr ch, hn => by
      simp only [TReach, init]; exact ⟨rfl, treach_init ch (by simpa [e2sFull] using hn)⟩
  | .deco ch, hn => by
      simp only [TReach, init]; exact treach_init ch (by simpa [e2sFull] using hn)
  | .tagger _ _ ch, hn => by
      simp only [TReach, init]; exact treach_init ch (by simpa [e2sFull] using hn)
  | .multi ss, hn => by
      simp only [TReach, init]
      exact treachL_init ss (by simpa [e2sFull] using hn)
  | .e2s ch, hn => by
      simp only [TReach, init]
      exact ⟨rfl, rfl, treach_init ch (by simp only [e2sFull, Bool.and_eq_true] at hn; exact hn.2)⟩
theorem treachL_init : ∀ (ss : List Shape), e2sFullL ss = true → TReachL ss (initL ss) []
  | [], _ => by simp [TReachL]
  | s :: ss, hn => by
      simp only [e2sFullL, Bool.and_eq_true] at hn
      simp only [TReachL, initL]
      exact ⟨treach_init s hn.1, treachL_init ss hn.2⟩
end

/-- every node of the graph has received the tag-relevant events of the history, seen through the adapters above it -/
theorem treach_run (s : Shape) (hs : e2sFull s = true) (h : List Call) :
    TReach s (run s (init s) h) (tevs h) := by
  have := treach_steps s hs h (init s) [] (treach_init s hs)
  simpa [run] using this

/-! ### what a leaf records -/
theorem stepT_tev (ctx : TagCtx) (c : Call) :
    refStep ctx c = match tev c with | some x => stepT ctx x | none => ctx := by
  cases c <;> rfl

theorem seen_fold {σ : Type} (stepf : σ → Call → σ) (log : σ → List Ev) (tags : σ → TagCtx)
    (hl : ∀ s c, addsOf (log (stepf s c)) = addsOf (log s) ++ (match c with | .add _ t _ => [(t, (tags s).cur)] | _ => []))
    (ht : ∀ s c, tags (stepf s c) = refStep (tags s) c) :
    ∀ (cs : List Call) (s : σ), addsOf (log (cs.foldl stepf s)) = addsOf (log s) ++ seenT (tags s) (tevs cs)
  | [], s => by simp [seenT]
  | c :: cs, s => by
      rw [List.foldl_cons, seen_fold stepf log tags hl ht cs, hl, ht, List.append_assoc]
      congr 1
      cases c <;> simp [seenT, refStep, stepT]

theorem addsOf_append (a b : List Ev) : addsOf (a ++ b) = addsOf a ++ addsOf b := by simp [addsOf]

theorem sink_adds (s : Sink) (c : Call) :
    addsOf (sinkStep .ext s c).log = addsOf s.log ++ (match c with | .add _ t _ => [(t, s.tags.cur)] | _ => []) := by
  cases c <;> simp [sinkStep, Call.logged, addsOf_append, addsOf] <;> (repeat' split) <;> simp [addsOf]

theorem tt_adds (s : TT) (c : Call) :
    addsOf (ttStep s c).log = addsOf s.log ++ (match c with | .add _ t _ => [(t, s.tags.cur)] | _ => []) := by
  cases c with
  | add k t a => cases k <;> simp [ttStep, Call.logged, addsOf_append, addsOf]
  | _ => simp [ttStep, Call.logged, addsOf_append, addsOf, TT.reset]

theorem old_adds (f : Flavour) (hf : f ≠ .ext) (s : Sink) (c : Call) :
    addsOf (sinkStep f s c).log = addsOf s.log ++ (match c with | .add _ t _ => [(t, 0)] | _ => []) := by
  cases c <;> simp [sinkStep, Call.logged, addsOf_append, addsOf, hf] <;> (repeat' split) <;> simp [addsOf]

theorem old_fold (f : Flavour) (hf : f ≠ .ext) : ∀ (cs : List Call) (s : Sink),
    addsOf (cs.foldl (sinkStep f) s).log = addsOf s.log ++ outsT (tevs cs)
  | [], s => by simp [outsT]
  | c :: cs, s => by
      rw [List.foldl_cons, old_fold f hf cs, old_adds f hf, List.append_assoc]
      congr 1
      cases c <;> simp [outsT]

/- what each observation point sees, as a function of the tag-relevant events at the root (real views) -/
mutual
def specV : Shape → List TEv → List (List (Nat × TagSet))
  | .sff, _ => []
  | .sink f, e => [if f = .ext then seenT {} e else outsT e]
  | .tt _, e => [seenT {} e]
  | .text _, e => [seenT {} e]
  | .tbt, e => [seenT {} e]
  | .etod c, e => specV c (etodVT (caps c) e)
  | .deco c, e => specV c e
  | .fsink _ _ f, e => [if f = .ext then seenT {} e else outsT e]
  | .tagger n g c, e => specV c (taggerVT n g e)
  | .tfr c, e => specV c (tfrVT {} e)
  | .multi cs, e => specVL cs e
  | .e2s c, e => sentT {} e :: specV c (e2sVT {} e)
def specVL : List Shape → List TEv → List (List (Nat × TagSet))
  | [], _ => []
  | c :: cs, e => specV c e ++ specVL cs e
end

mutual
theorem treach_points : ∀ (s : Shape), e2sFull s = true → ∀ (st : St s) (e : List TEv),
    TReach s st e → points s st = specV s e
  | .sff, _, _, _, _ => rfl
  | .sink f, _, st, e, ⟨cs, h1, h2⟩ => by
      subst h1
      simp only [points, specV, run, step, init]
      by_cases hf : f = .ext
      · subst hf
        rw [seen_fold (sinkStep .ext) (·.log) (·.tags) sink_adds sinkStep_tags, h2]; simp [addsOf]
      · rw [old_fold f hf, h2]; simp [addsOf, hf]
  | .fsink l b f, _, st, e, ⟨cs, h1, h2⟩ => by
      subst h1
      simp only [points, specV, run, step, init]
      by_cases hf : f = .ext
      · subst hf
        rw [seen_fold (sinkStep .ext) (·.log) (·.tags) sink_adds sinkStep_tags, h2]; simp [addsOf]
      · rw [old_fold f hf, h2]; simp [addsOf, hf]
  | .tt ff, _, st, e, ⟨cs, h1, h2⟩ => by
      subst h1
      simp only [points, specV, run, step, init]
      rw [seen_fold ttStep (·.log) (·.tags) tt_adds ttStep_tags, h2]; simp [addsOf]
  | .text ff, _, st, e, ⟨cs, h1, h2⟩ => by
      subst h1
      simp only [points, specV, run, step, init]
      rw [seen_fold textStep (·.tt.log) (·.tt.tags)
        (fun s c => by cases c <;> simp only [textStep] <;> exact tt_adds _ _) textStep_tags, h2]; simp [addsOf]
  | .tbt, _, st, e, ⟨cs, h1, h2⟩ => by
      subst h1
      simp only [points, specV, run, step, init]
      rw [seen_fold tbtStep (·.tt.log) (·.tt.tags)
        (fun s c => by cases c <;> simp only [tbtStep] <;> exact tt_adds _ _) tbtStep_tags, h2]; simp [addsOf]
  | .etod ch, hn, (own, inner), e, h => by
      simp only [points, specV]; exact treach_points ch (by simpa [e2sFull] using hn) inner _ h
  | .tfr ch, hn, (own, inner), e, h => by
      simp only [points, specV]; exact treach_points ch (by simpa [e2sFull] using hn) inner _ h.2
  | .deco ch, hn, st, e, h => by
      simp only [points, specV]; exact treach_points ch (by simpa [e2sFull] using hn) st _ h
  | .tagger _ _ ch, hn, st, e, h => by
      simp only [points, specV]; exact treach_points ch (by simpa [e2sFull] using hn) st _ h
  | .multi ss, hn, (own, inner), e, h => by
      simp only [points, specV]; exact treachL_points ss (by simpa [e2sFull] using hn) inner _ h
  | .e2s ch, hn, (own, inner), e, h => by
      simp only [points, specV]
      rw [h.2.1, treach_points ch (by simp only [e2sFull, Bool.and_eq_true] at hn; exact hn.2) inner _ h.2.2]
theorem treachL_points : ∀ (ss : List Shape), e2sFullL ss = true → ∀ (st : StL ss) (e : List TEv),
    TReachL ss st e → pointsL ss st = specVL ss e
  | [], _, _, _, _ => by simp [pointsL, specVL]
  | s :: ss, hn, (x, xs), e, h => by
      simp only [e2sFullL, Bool.and_eq_true] at hn
      simp only [pointsL, specVL]
      rw [treach_points s hn.1 x e h.1, treachL_points ss hn.2 xs e h.2]
end

/- the specification on the small alphabet: only `Tagger`s change what is seen -/
mutual
def specT : Shape → List TEv → List (List (Nat × TagSet))
  | .sff, _ => []
  | .sink f, e => [if f = .ext then seenT {} e else outsT e]
  | .tt _, e => [seenT {} e]
  | .text _, e => [seenT {} e]
  | .tbt, e => [seenT {} e]
  | .etod c, e => specT c e
  | .deco c, e => specT c e
  | .fsink _ _ f, e => [if f = .ext then seenT {} e else outsT e]
  | .tagger n g c, e => specT c (taggerVT n g e)
  | .tfr c, e => specT c e
  | .multi cs, e => specTL cs e
  | .e2s c, e => seenT {} e :: specT c e
def specTL : List Shape → List TEv → List (List (Nat × TagSet))
  | [], _ => []
  | c :: cs, e => specT c e ++ specTL cs e
end

/- a graph without `Tagger`s shows every observer the same two lists -/
mutual
def fill : Shape → List (Nat × TagSet) → List (Nat × TagSet) → List (List (Nat × TagSet))
  | .sff, _, _ => []
  | .sink f, a, b => [if f = .ext then a else b]
  | .tt _, a, _ => [a]
  | .text _, a, _ => [a]
  | .tbt, a, _ => [a]
  | .etod c, a, b => fill c a b
  | .deco c, a, b => fill c a b
  | .fsink _ _ f, a, b => [if f = .ext then a else b]
  | .tagger _ _ c, a, b => fill c a b
  | .tfr c, a, b => fill c a b
  | .multi cs, a, b => fillL cs a b
  | .e2s c, a, b => a :: fill c a b
def fillL : List Shape → List (Nat × TagSet) → List (Nat × TagSet) → List (List (Nat × TagSet))
  | [], _, _ => []
  | c :: cs, a, b => fill c a b ++ fillL cs a b
end

def Good (e : List TEv) : Prop := wfT 0 0 e = true ∧ e.all disjT = true

theorem good_tfr {e : List TEv} (h : Good e) : Good (tfrVT {} e) :=
  ⟨tfrVT_wf e {}, tfrVT_disj e {} rfl rfl h.2⟩

theorem good_tagger {e : List TEv} (n g : TagSet) (hd : n &&& g = 0) (h : Good e) : Good (taggerVT n g e) :=
  ⟨by rw [wfT_taggerVT]; exact h.1, disj_taggerVT n g hd e h.2⟩

theorem seen_tfr {e : List TEv} (h : Good e) : seenT {} (tfrVT {} e) = seenT {} e :=
  tfr_seen e 0 0 {} {} (mk0 rfl rfl rfl rfl) h.1 h.2

theorem caps_full (c : Shape) (h : ∀ f, c ≠ .sink f) (h' : ∀ l b f, c ≠ .fsink l b f) :
    (caps c).tags = true ∧ (caps c).startRun = true := by
  cases c <;> simp [caps] <;> first | exact absurd rfl (h _) | exact absurd rfl (h' _ _ _)

mutual
theorem specT_fill : ∀ (s : Shape), taggerBelow true s = false → ∀ (e : List TEv),
    specT s e = fill s (seenT {} e) (outsT e)
  | .sff, _, _ => rfl
  | .sink _, _, _ => rfl
  | .tt _, _, _ => rfl
  | .text _, _, _ => rfl
  | .tbt, _, _ => rfl
  | .etod c, h, e => by simp only [specT, fill]; exact specT_fill c (by simpa [taggerBelow] using h) e
  | .deco c, h, e => by simp only [specT, fill]; exact specT_fill c (by simpa [taggerBelow] using h) e
  | .fsink _ _ _, _, _ => rfl
  | .tfr c, h, e => by simp only [specT, fill]; exact specT_fill c (by simpa [taggerBelow] using h) e
  | .e2s c, h, e => by simp only [specT, fill]; rw [specT_fill c (by simpa [taggerBelow] using h) e]
  | .tagger _ _ c, h, _ => by simp [taggerBelow] at h
  | .multi cs, h, e => by simp only [specT, fill]; exact specTL_fill cs (by simpa [taggerBelow] using h) e
theorem specTL_fill : ∀ (ss : List Shape), taggerBelowL true ss = false → ∀ (e : List TEv),
    specTL ss e = fillL ss (seenT {} e) (outsT e)
  | [], _, _ => rfl
  | s :: ss, h, e => by
      simp only [taggerBelowL, Bool.or_eq_false_iff] at h
      simp only [specTL, fillL]; rw [specT_fill s h.1 e, specTL_fill ss h.2 e]
end

theorem head_tfr (a : TfrAbs) (e : List TEv) (h : e.head? = some .run) : (tfrVT a e).head? = some .run := by
  cases e with
  | nil => cases h
  | cons x e => simp only [List.head?_cons, Option.some.injEq] at h; subst h; rfl

theorem head_tagger (n g : TagSet) (e : List TEv) (h : e.head? = some .run) : (taggerVT n g e).head? = some .run := by
  cases e with
  | nil => cases h
  | cons x e => simp only [List.head?_cons, Option.some.injEq] at h; subst h; rfl

/-- behind a started stream pipeline: same tags at the outcomes, same outcomes, and the view is again a good history -/
theorem e2s_good {e : List TEv} (hg : Good e) (hr : e.head? = some .run) :
    seenT {} (e2sVT {} e) = seenT {} e ∧ sentT {} e = seenT {} e ∧ outsT (e2sVT {} e) = outsT e ∧
    Good (e2sVT {} e) ∧ (e2sVT {} e).head? = some .run := by
  cases e with
  | nil => cases hr
  | cons x e =>
    simp only [List.head?_cons, Option.some.injEq] at hr
    subst hr
    have hw : wfT 0 0 e = true := by
      have := hg.1; simpa [wfT] using this
    obtain ⟨h1, h2, h3⟩ := e2s_seen e 0 0 {} { started := true } ⟨rfl, rfl, by simp⟩ hw
    refine ⟨?_, ?_, ?_, ⟨e2sVT_wf _ _, e2sVT_disj _ _⟩, rfl⟩
    · simp only [e2sVT, e2sEmitT, e2sNextT, List.singleton_append, seenT, stepT]; exact h1
    · simpa [sentT, e2sNextT, seenT, stepT] using h2
    · simpa [e2sVT, e2sEmitT, e2sNextT, outsT] using h3

mutual
theorem specV_fill : ∀ (s : Shape), e2sFull s = true → taggerBelow true s = false → ∀ (e : List TEv), Good e →
    (Spec.C17.Shape.hasE2s s = true → e.head? = some .run) →
    specV s e = fill s (seenT {} e) (outsT e)
  | .sff, _, _, _, _, _ => rfl
  | .sink _, _, _, _, _, _ => rfl
  | .fsink _ _ _, _, _, _, _, _ => rfl
  | .tt _, _, _, _, _, _ => rfl
  | .text _, _, _, _, _, _ => rfl
  | .tbt, _, _, _, _, _ => rfl
  | .etod c, hn, h, e, hg, hr => by
      simp only [specV, fill]
      by_cases hsink : ∃ f, c = .sink f
      · obtain ⟨f, rfl⟩ := hsink
        cases f <;> simp [specV, fill, outsT_etodVT]
        rw [etodVT_full _ rfl rfl]
      by_cases hfsink : ∃ l b f, c = .fsink l b f
      · obtain ⟨l, b, f, rfl⟩ := hfsink
        cases f <;> simp [specV, fill, outsT_etodVT]
        rw [etodVT_full _ rfl rfl]
      · obtain ⟨ht, hr'⟩ := caps_full c (fun f hf => hsink ⟨f, hf⟩) (fun l b f hf => hfsink ⟨l, b, f, hf⟩)
        rw [etodVT_full _ ht hr']
        exact specV_fill c (by simpa [e2sFull] using hn) (by simpa [taggerBelow] using h) e hg
          (fun h' => hr (by simpa [Spec.C17.Shape.hasE2s] using h'))
  | .deco c, hn, h, e, hg, hr => by
      simp only [specV, fill]
      exact specV_fill c (by simpa [e2sFull] using hn) (by simpa [taggerBelow] using h) e hg
        (fun h' => hr (by simpa [Spec.C17.Shape.hasE2s] using h'))
  | .tfr c, hn, h, e, hg, hr => by
      simp only [specV, fill]
      rw [specV_fill c (by simpa [e2sFull] using hn) (by simpa [taggerBelow] using h) _ (good_tfr hg)
        (fun h' => head_tfr _ _ (hr (by simpa [Spec.C17.Shape.hasE2s] using h'))),
        seen_tfr hg, outsT_tfrVT]
  | .e2s c, hn, h, e, hg, hr => by
      simp only [specV, fill]
      obtain ⟨h1, h2, h3, h4, h5⟩ := e2s_good hg (hr (by simp [Spec.C17.Shape.hasE2s]))
      rw [specV_fill c (by simp only [e2sFull, Bool.and_eq_true] at hn; exact hn.2) (by simpa [taggerBelow] using h) _ h4
        (fun _ => h5), h1, h2, h3]
  | .tagger _ _ c, _, h, _, _, _ => by simp [taggerBelow] at h
  | .multi cs, hn, h, e, hg, hr => by
      simp only [specV, fill]
      exact specVL_fill cs (by simpa [e2sFull] using hn) (by simpa [taggerBelow] using h) e hg
        (fun h' => hr (by simpa [Spec.C17.Shape.hasE2s] using h'))
theorem specVL_fill : ∀ (ss : List Shape), e2sFullL ss = true → taggerBelowL true ss = false →
    ∀ (e : List TEv), Good e → (Spec.C17.Shape.hasE2sL ss = true → e.head? = some .run) →
    specVL ss e = fillL ss (seenT {} e) (outsT e)
  | [], _, _, _, _, _ => rfl
  | s :: ss, hn, h, e, hg, hr => by
      simp only [taggerBelowL, Bool.or_eq_false_iff] at h
      simp only [e2sFullL, Bool.and_eq_true] at hn
      simp only [specVL, fillL]
      rw [specV_fill s hn.1 h.1 e hg (fun h' => hr (by simp [Spec.C17.Shape.hasE2sL, h'])),
        specVL_fill ss hn.2 h.2 e hg (fun h' => hr (by simp [Spec.C17.Shape.hasE2sL, h']))]
end

/- with `Tagger`s only above the buffering adapters, the real views give what the specification says -/
mutual
theorem specV_eq : ∀ (s : Shape), e2sFull s = true → taggerBelow false s = false → Shape.tagsDisjoint s = true →
    ∀ (e : List TEv), Good e → (Spec.C17.Shape.hasE2s s = true → e.head? = some .run) → specV s e = specT s e
  | .sff, _, _, _, _, _, _ => rfl
  | .sink _, _, _, _, _, _, _ => rfl
  | .fsink _ _ _, _, _, _, _, _, _ => rfl
  | .tt _, _, _, _, _, _, _ => rfl
  | .text _, _, _, _, _, _, _ => rfl
  | .tbt, _, _, _, _, _, _ => rfl
  | .etod c, hn, h, hd, e, hg, hr => by
      simp only [specV, specT]
      by_cases hsink : ∃ f, c = .sink f
      · obtain ⟨f, rfl⟩ := hsink
        cases f <;> simp [specV, specT, outsT_etodVT]
        rw [etodVT_full _ rfl rfl]
      by_cases hfsink : ∃ l b f, c = .fsink l b f
      · obtain ⟨l, b, f, rfl⟩ := hfsink
        cases f <;> simp [specV, specT, outsT_etodVT]
        rw [etodVT_full _ rfl rfl]
      · obtain ⟨ht, hr'⟩ := caps_full c (fun f hf => hsink ⟨f, hf⟩) (fun l b f hf => hfsink ⟨l, b, f, hf⟩)
        rw [etodVT_full _ ht hr']
        exact specV_eq c (by simpa [e2sFull] using hn) (by simpa [taggerBelow] using h)
          (by simpa [Shape.tagsDisjoint] using hd) e hg (fun h' => hr (by simpa [Spec.C17.Shape.hasE2s] using h'))
  | .deco c, hn, h, hd, e, hg, hr => by
      simp only [specV, specT]
      exact specV_eq c (by simpa [e2sFull] using hn) (by simpa [taggerBelow] using h)
        (by simpa [Shape.tagsDisjoint] using hd) e hg (fun h' => hr (by simpa [Spec.C17.Shape.hasE2s] using h'))
  | .tagger n g c, hn, h, hd, e, hg, hr => by
      simp only [specV, specT]
      simp only [Shape.tagsDisjoint, Bool.and_eq_true, beq_iff_eq] at hd
      exact specV_eq c (by simpa [e2sFull] using hn) (by simpa [taggerBelow] using h) hd.2 _
        (good_tagger n g hd.1 hg) (fun h' => head_tagger n g e (hr (by simpa [Spec.C17.Shape.hasE2s] using h')))
  | .tfr c, hn, h, hd, e, hg, hr => by
      simp only [specV, specT]
      have h' : taggerBelow true c = false := by simpa [taggerBelow] using h
      have hn' : e2sFull c = true := by simpa [e2sFull] using hn
      rw [specV_fill c hn' h' _ (good_tfr hg)
        (fun h'' => head_tfr _ _ (hr (by simpa [Spec.C17.Shape.hasE2s] using h''))),
        specT_fill c h', seen_tfr hg, outsT_tfrVT]
  | .e2s c, hn, h, hd, e, hg, hr => by
      simp only [specV, specT]
      have h' : taggerBelow true c = false := by simpa [taggerBelow] using h
      obtain ⟨h1, h2, h3, h4, h5⟩ := e2s_good hg (hr (by simp [Spec.C17.Shape.hasE2s]))
      rw [specV_fill c (by simp only [e2sFull, Bool.and_eq_true] at hn; exact hn.2) h' _ h4 (fun _ => h5),
        specT_fill c h', h1, h2, h3]
  | .multi cs, hn, h, hd, e, hg, hr => by
      simp only [specV, specT]
      exact specVL_eq cs (by simpa [e2sFull] using hn) (by simpa [taggerBelow] using h)
        (by simpa [Shape.tagsDisjoint] using hd) e hg (fun h' => hr (by simpa [Spec.C17.Shape.hasE2s] using h'))
theorem specVL_eq : ∀ (ss : List Shape), e2sFullL ss = true → taggerBelowL false ss = false →
    Shape.tagsDisjointL ss = true → ∀ (e : List TEv), Good e →
    (Spec.C17.Shape.hasE2sL ss = true → e.head? = some .run) → specVL ss e = specTL ss e
  | [], _, _, _, _, _, _ => rfl
  | s :: ss, hn, h, hd, e, hg, hr => by
      simp only [taggerBelowL, Bool.or_eq_false_iff] at h
      simp only [e2sFullL, Bool.and_eq_true] at hn
      simp only [Shape.tagsDisjointL, Bool.and_eq_true] at hd
      simp only [specVL, specTL]
      rw [specV_eq s hn.1 h.1 hd.1 e hg (fun h' => hr (by simp [Spec.C17.Shape.hasE2sL, h'])),
        specVL_eq ss hn.2 h.2 hd.2 e hg (fun h' => hr (by simp [Spec.C17.Shape.hasE2sL, h']))]
end

/-! ### the specification of `Spec.C17` on the small alphabet -/
theorem refSeen_tevs : ∀ (h : List Call) (ctx : TagCtx), refSeen ctx h = seenT ctx (tevs h)
  | [], _ => rfl
  | c :: h, ctx => by
      have ih := refSeen_tevs h
      cases c <;> simp [refSeen, seenT, refStep, stepT, ih]

theorem untagged_tevs : ∀ (h : List Call), untagged h = outsT (tevs h)
  | [] => rfl
  | c :: h => by
      have ih := untagged_tevs h
      simp only [untagged] at ih ⊢
      cases c <;> simp [outsT, ih]

theorem taggerV_tevs (n g : TagSet) : ∀ (h : List Call), tevs (taggerV n g h) = taggerVT n g (tevs h)
  | [] => rfl
  | c :: h => by
      have ih := taggerV_tevs n g h
      cases c <;> simp [taggerV, taggerVT, ih] <;> simp [taggerVT] at ih <;> exact ih

mutual
theorem specSeen_tevs : ∀ (s : Shape) (h : List Call), specSeen s h = specT s (tevs h)
  | .sff, _ => rfl
  | .sink f, h => by simp [specSeen, specT, refSeen_tevs, untagged_tevs]
  | .fsink _ _ f, h => by simp [specSeen, specT, refSeen_tevs, untagged_tevs]
  | .tt _, h => by simp [specSeen, specT, refSeen_tevs]
  | .text _, h => by simp [specSeen, specT, refSeen_tevs]
  | .tbt, h => by simp [specSeen, specT, refSeen_tevs]
  | .etod c, h => by simp only [specSeen, specT]; exact specSeen_tevs c h
  | .deco c, h => by simp only [specSeen, specT]; exact specSeen_tevs c h
  | .tfr c, h => by simp only [specSeen, specT]; exact specSeen_tevs c h
  | .tagger n g c, h => by simp only [specSeen, specT]; rw [specSeen_tevs c, taggerV_tevs]
  | .e2s c, h => by simp only [specSeen, specT]; rw [specSeen_tevs c, refSeen_tevs]
  | .multi cs, h => by simp only [specSeen, specT]; exact specSeenL_tevs cs h
theorem specSeenL_tevs : ∀ (ss : List Shape) (h : List Call), specSeenL ss h = specTL ss (tevs h)
  | [], _ => rfl
  | s :: ss, h => by simp only [specSeenL, specTL]; rw [specSeen_tevs s h, specSeenL_tevs ss h]
end

theorem wfTag_tevs : ∀ (h : List Call) (p cur : Nat), wfTag p cur h = true → wfT p cur (tevs h) = true
  | [], _, _, hw => hw
  | c :: h, p, cur, hw => by
      have ih := wfTag_tevs h
      cases c with
      | startTestRun =>
        simp only [wfTag, Bool.and_eq_true] at hw
        simp only [tevs_c_run, wfT, Bool.and_eq_true]; exact ⟨hw.1, ih _ _ hw.2⟩
      | stopTestRun =>
        simp only [wfTag, Bool.and_eq_true] at hw
        simp only [tevs_c_stopRun, wfT, Bool.and_eq_true]; exact ⟨hw.1, ih _ _ hw.2⟩
      | startTest t =>
        simp only [wfTag, Bool.and_eq_true] at hw
        simp only [tevs_c_start, wfT, Bool.and_eq_true]; exact ⟨hw.1, ih _ _ hw.2⟩
      | stopTest t =>
        simp only [wfTag, Bool.and_eq_true] at hw
        simp only [tevs_c_stop, wfT, Bool.and_eq_true]; exact ⟨hw.1, ih _ _ hw.2⟩
      | add k t a =>
        simp only [wfTag, Bool.and_eq_true, Bool.or_eq_true] at hw
        simp only [tevs_c_add, wfT, Bool.and_eq_true, Bool.or_eq_true]
        exact hw.imp (fun hw => ⟨hw.1, ih _ _ hw.2⟩) (fun hw => ⟨hw.1, ih _ _ hw.2⟩)
      | tags n g =>
        simp only [wfTag, Bool.and_eq_true] at hw
        simp only [tevs_c_tags, wfT, Bool.and_eq_true]; exact ⟨hw.1, ih _ _ hw.2⟩
      | time d => exact ih _ _ hw
      | stop => exact ih _ _ hw
      | done => exact ih _ _ hw
      | progress => exact ih _ _ hw
      | setFailfast b => exact ih _ _ hw

theorem disj_tevs (h : List Call) (hd : h.all Call.tagsDisjoint = true) : (tevs h).all disjT = true := by
  induction h with
  | nil => rfl
  | cons c h ih =>
    simp only [List.all_cons, Bool.and_eq_true] at hd
    have := ih hd.2
    cases c <;> simp_all [Call.tagsDisjoint, disjT]

theorem tevs_head (h : List Call) (hr : h.head? = some .startTestRun) : (tevs h).head? = some .run := by
  cases h with
  | nil => cases hr
  | cons c h => simp only [List.head?_cons, Option.some.injEq] at hr; subst hr; rfl

mutual
theorem e2sFull_of_wf : ∀ (s : Shape), s.wf = true → e2sFull s = true
  | .sff, _ => rfl
  | .sink _, _ => rfl
  | .fsink _ _ _, _ => rfl
  | .tt _, _ => rfl
  | .text _, _ => rfl
  | .tbt, _ => rfl
  | .etod c, h => by
      simp only [e2sFull]
      cases c with
      | sink f => rfl
      | fsink l b f => rfl
      | _ => exact e2sFull_of_wf _ (by simpa [Shape.wf] using h)
  | .deco c, h => by simp only [e2sFull]; exact e2sFull_of_wf c (by simpa [Shape.wf] using h)
  | .tagger _ _ c, h => by simp only [e2sFull]; exact e2sFull_of_wf c (by simpa [Shape.wf] using h)
  | .tfr c, h => by
      simp only [e2sFull]
      cases c with
      | etod d => exact e2sFull_of_wf (.etod d) (by simpa [Shape.wf] using h)
      | _ => simp [Shape.wf] at h
  | .e2s c, h => by
      cases c with
      | etod d =>
        simp only [e2sFull, caps, Bool.true_and]
        exact e2sFull_of_wf (.etod d) (by simpa [Shape.wf] using h)
      | _ => simp [Shape.wf] at h
  | .multi cs, h => by
      simp only [e2sFull]
      cases cs with
      | nil => rfl
      | cons d ds => exact e2sFullL_of_wf (d :: ds) (by simpa [Shape.wf] using h)
theorem e2sFullL_of_wf : ∀ (ss : List Shape), Shape.wfL ss = true → e2sFullL ss = true
  | [], _ => rfl
  | s :: ss, h => by
      cases s with
      | etod d =>
        simp only [Shape.wfL, Bool.and_eq_true] at h
        simp only [e2sFullL, Bool.and_eq_true]
        exact ⟨e2sFull_of_wf (.etod d) h.1, e2sFullL_of_wf ss h.2⟩
      | _ => simp [Shape.wfL] at h
end

mutual
theorem noStream_of_noE2s : ∀ (s : Shape), Spec.C17.Shape.hasE2s s = false → s.noStream = true
  | .sink _, _ => rfl
  | .fsink _ _ _, _ => rfl
  | .tt _, _ => rfl
  | .text _, _ => rfl
  | .tbt, _ => rfl
  | .etod c, h => by simp only [Shape.noStream]; exact noStream_of_noE2s c (by simpa [Spec.C17.Shape.hasE2s] using h)
  | .deco c, h => by simp only [Shape.noStream]; exact noStream_of_noE2s c (by simpa [Spec.C17.Shape.hasE2s] using h)
  | .tagger _ _ c, h => by simp only [Shape.noStream]; exact noStream_of_noE2s c (by simpa [Spec.C17.Shape.hasE2s] using h)
  | .tfr c, h => by simp only [Shape.noStream]; exact noStream_of_noE2s c (by simpa [Spec.C17.Shape.hasE2s] using h)
  | .e2s _, h => by simp [Spec.C17.Shape.hasE2s] at h
  | .sff, h => by simp [Spec.C17.Shape.hasE2s] at h
  | .multi cs, h => by simp only [Shape.noStream]; exact noStreamL_of_noE2s cs (by simpa [Spec.C17.Shape.hasE2s] using h)
theorem noStreamL_of_noE2s : ∀ (ss : List Shape), Spec.C17.Shape.hasE2sL ss = false → Shape.noStreamL ss = true
  | [], _ => rfl
  | s :: ss, h => by
      simp only [Spec.C17.Shape.hasE2sL, Bool.or_eq_false_iff] at h
      simp only [Shape.noStreamL, Bool.and_eq_true]
      exact ⟨noStream_of_noE2s s h.1, noStreamL_of_noE2s ss h.2⟩
end

/-- **C17 (observed tags).**  For every adapter graph of `ExtendedToOriginalDecorator`, `TestResultDecorator`,
`Tagger`, `ThreadsafeForwardingResult` (buffers + `_merge_tags`), `MultiTestResult` and the stream pipeline
`ExtendedToStreamDecorator` → `StreamToExtendedDecorator` → `PlaceHolder.run` over any leaves — with no `Tagger`
below a `ThreadsafeForwardingResult` or a stream pipeline (finding `taggerBelowBuffer`) — and every history that
is well-formed for tags (tests `startTest, tags*, outcome, tags*, stopTest` or the start-less `outcome, stopTest`
pair; `tags` anywhere else; any number of runs; started with `startTestRun` if a stream pipeline is in the graph)
with disjoint `new`/`gone` sets: every wrapped result, and every final status event of a stream, carries at each
outcome exactly the tags current in the reporter at that outcome (stack-of-sets semantics), plus what the `Tagger`s
above it add at `startTest`; a result without tags sees the same outcomes. -/
theorem C17_observed_partial (s : Shape) (he : e2sFull s = true) (hb : taggerBelow false s = false)
    (hd : Shape.tagsDisjoint s = true) (h : List Call) (hw : wfTag 0 0 h = true)
    (hh : h.all Call.tagsDisjoint = true)
    (hr : Spec.C17.Shape.hasE2s s = true → h.head? = some .startTestRun) :
    points s (run s (init s) h) = specSeen s h := by
  rw [treach_points s he _ _ (treach_run s he h), specSeen_tevs]
  exact specV_eq s he hb hd _ ⟨wfTag_tevs h 0 0 hw, disj_tevs h hh⟩ (fun h' => tevs_head h (hr h'))

/-- **Headline.**  The executable specification `Spec.C17.holds` is true of the model's trace for every input
(well-formed graph) outside the known-finding class `taggerBelowBuffer`. -/
theorem holds_model_partial (i : Input) (hw : i.shape.wf = true) (hc : taggerBelowBuffer i = false) :
    holds i (model i) = true := by
  simp only [holds, clauses, List.all_cons, List.all_nil, Bool.and_true, Bool.and_eq_true]
  have scope : inScope i = true →
      (Spec.C17.Shape.hasE2s i.shape = false ∨ i.hist.head? = some .startTestRun) := by
    intro h
    simp only [inScope, Bool.and_eq_true, Bool.or_eq_true, Bool.not_eq_true', beq_iff_eq] at h
    exact h.2
  constructor
  · simp only [cCurrent, Bool.or_eq_true, Bool.not_eq_true', beq_iff_eq]
    cases hs : inScope i
    · left; rfl
    · right
      exact C17_current i.shape hw i.hist ((scope hs).imp (noStream_of_noE2s _) id)
  · simp only [cObserved, Bool.or_eq_true, Bool.not_eq_true', beq_iff_eq]
    cases hs : obsScope i
    · left; rfl
    · right
      simp only [obsScope, Bool.and_eq_true] at hs
      refine C17_observed_partial i.shape (e2sFull_of_wf _ hw) hc hs.2 i.hist hs.1.1.2 hs.1.2 ?_
      intro he
      rcases scope hs.1.1.1 with h0 | h0
      · rw [h0] at he; cases he
      · exact h0

/-- **C17 (`_merge_tags`).**  Applying the merge of two tag changes is applying them one after the other
(the second with disjoint `new` / `gone`). -/
theorem C17_merge (s : TagSet) (a : TagSet × TagSet) (n g : TagSet) (h : n &&& g = 0) :
    TagSet.change s (mergeTags a (n, g)).1 (mergeTags a (n, g)).2 = TagSet.change (TagSet.change s a.1 a.2) n g :=
  change_merge s a n g h

/-! ## known finding and non-vacuity -/
/-- witness of finding `taggerBelowBuffer`: `ThreadsafeForwardingResult(Tagger(gone={0}, extended))`, run-level tag 0 -/
def witness : Input :=
  { shape := .tfr (.etod (.tagger 0 1 (.sink .ext))),
    hist := [.startTestRun, .tags 1 0, .startTest 1, .add .success 1 .none, .stopTest 1] }

/-- inside the class the model reproduces the defect: the extended result sees tag 0, the specification says none -/
theorem C17_finding_witness :
    taggerBelowBuffer witness = true ∧ obsScope witness = true ∧ cObserved witness (model witness) = false ∧
    (model witness).seen = [[(1, 1)]] ∧ specSeen witness.shape witness.hist = [[(1, 0)]] := by
  decide

/-- not vacuous: a run-level tag, a test-local change and a late change through
`MultiTestResult(ThreadsafeForwardingResult(extended), Tagger(TestResult))` -/
example :
    let i : Input := { shape := .multi [.etod (.tfr (.etod (.sink .ext))), .etod (.tagger 4 0 (.tt false))],
                       hist := [.startTestRun, .tags 1 0, .startTest 7, .tags 2 1, .add .success 7 .none, .tags 8 0,
                                .stopTest 7, .add .skip 8 (.reason []), .stopTest 8] }
    obsScope i = true ∧ taggerBelowBuffer i = false ∧
    model i = { cur := [0, 1, 1, 2, 2, 10, 1, 1, 1], seen := [[(7, 2), (8, 1)], [(7, 6), (8, 1)]] } := by
  decide

/-! ## tie to the source: the tag arithmetic translated from the code (harness/pyset2lean.py, regenerated on
every run into `TTV/Generated/C17.lean`) is the model's -/

/-- `TagContext.change_tags` as found in testtools/tags.py computes what the model's `TagSet.change` computes -/
theorem C17_src_change_tags (cur new gone : TagSet) :
    TTV.Generated.C17.changeTags_src cur new gone = TagSet.change cur new gone := rfl

/-- `_merge_tags` as found in testtools/testresult/real.py is the model's `mergeTags` -/
theorem C17_src_merge_tags (existing changed : TagSet × TagSet) :
    TTV.Generated.C17.mergeTags_src existing changed = mergeTags existing changed := rfl

end TTV.Props.C17
