import TTV.Model.AsyncRun
import TTV.Spec.C14
import TTV.Lemmas.Reactor
import TTV.Generated.AsyncSkel
import TTV.Generated.SpinnerSkel
/-! # C14 — Deferred-returning tests under `AsynchronousDeferredRunTest`

Theorems about the model `TTV.AsyncRun` (`Model/Reactor.lean`, `Model/AsyncRun.lean`): the runner's staging and
bookkeeping logic on the virtual-time reactor, for **every** program (any stages, side effects, delays; cleanups
nested to any depth - a cleanup may register cleanups; `KeyboardInterrupt`/`SystemExit` raised by or failing the
Deferred of any stage), every timeout, every set of interrupt instants, both runner variants, both logging options.
The reactor runs in *iterations* (`ReactorBase.runUntilCurrent`): a call scheduled during an iteration - even with
delay 0 - waits for the next one; the result of `Spinner.run` is determined when `reactor.run()` returns, before the
shake-out iterations of `Spinner._clean`; the callbacks `Spinner.run` hung on the chain's final Deferred are dead from then on
(`Chain.over`): a chain that ends during those iterations records nothing.
This property is *partial* with respect to the Twisted runtime: Deferred chaining, the log publisher and
`DebugInfo`/GC are modelled (see `Model/AsyncRun.lean`), and covered only by the correspondence check.

* `holds_model`              : the executable spec `Spec.C14.holds` is true of the model's trace (headline)
* `C14_bracket`              : exactly one outcome between `startTest` and `stopTest`
* `C14_sequential`           : the stages that ran are a prefix of the path (setUp, [test, tearDown], cleanups LIFO,
                               those registered by a cleanup right after it); the next stage starts only after its
                               predecessor's Deferred fired
* `C14_success_iff`          : success ⇔ in time ∧ every stage clean ∧ no expectation failed ∧ no unflushed logged error
                               ∧ no dropped failed Deferred ∧ nothing left scheduled
* `C14_timeout_interrupt`    : not in time ⇒ error; `result.stop()` only for an interrupt before the timeout, and
                               always when one came while the chain was not over
* `C14_unclaimed`            : `run()` re-raises only `KeyboardInterrupt`/`SystemExit`, after reporting an error; always
                               when setUp / the test / tearDown raised one; only if a stage that ran raised one
* `C14_clean_after`, `C14_observers_restored` : nothing pending, the log observers are the original ones (in order)
* `C14_in_time_iff_recorded` : the declarative `inTime` ⇔ `Spinner.run` returned the chain's verdict (determined
                               before `_clean`'s iterations)
* `C14_loop_ends_by_crash`   : the reactor loop ends by a crash within the model's fuel
* `C14_src_chain_tree`, `C14_src_chain_start`, `C14_src_chain_resume`, `C14_src_chain_tail`, `C14_src_account`, `C14_src_iterations`,
  `C14_src_shapes`             : translator tie - the model's chain and accounting are the interpretation (`TTV.AsyncSkel`) of
                               `_run_deferred`, `_run_cleanups`, `_blocking_run_deferred`, `_run_core` … as re-read from `_runtest.py`

Proof structure: `Reach` (what a chain step can do) · `Inv1` (queue/clock/spinner invariant of the loop, incl. the
iteration in which each queued call was scheduled) · `pot` (termination) · `Run`/`Susp`/`Fin` (chain invariant through
suspensions) · `SpinEnd`/`IterEnd` (the states when `reactor.run()` returns and after `_clean`'s iterations) ·
`final_sem` (meaning of the final state). -/
namespace TTV.Props.C14
open TTV.Reactor TTV.AsyncRun TTV.Spec.C14

/-! ## what a step of the callback chain can do to the world -/

/-! the chain never touches the list of log observers nor the iteration counter -/
def Keeps (f : Chain → Chain) : Prop :=
  ∀ c, (f c).observers = c.observers ∧ (f c).iter = c.iter ∧ (f c).stages = c.stages ∧ (f c).live = c.live ∧ (f c).over = c.over

theorem side_keeps (s : Side) : Keeps (Chain.side s) := fun c => by cases s <;> exact ⟨rfl, rfl, rfl, rfl, rfl⟩
theorem finish_keeps : Keeps Chain.finish := fun c => by
  unfold Chain.finish
  cases c.lastExc <;> simp only [] <;> split <;> exact ⟨rfl, rfl, rfl, rfl, rfl⟩
theorem noteMain_keeps (r : Option Exc) : Keeps (Chain.noteMain r) := fun c => by cases r <;> exact ⟨rfl, rfl, rfl, rfl, rfl⟩
theorem noteCleanup_keeps (r : Option Exc) : Keeps (Chain.noteCleanup r) := fun c => by cases r <;> exact ⟨rfl, rfl, rfl, rfl, rfl⟩
theorem register_keeps (cs : List Stage) : Keeps (Chain.register cs) := fun c => by
  induction cs generalizing c with
  | nil => exact ⟨rfl, rfl, rfl, rfl, rfl⟩
  | cons s rest ih =>
    simp only [Chain.register, List.foldl_cons] at ih ⊢
    exact ih _
theorem register_observers (cs : List Stage) (c : Chain) : (Chain.register cs c).observers = c.observers :=
  (register_keeps cs c).1

macro "obs_tac" : tactic =>
  `(tactic| first
    | exact fun _ => ⟨rfl, rfl, rfl, rfl, rfl⟩
    | exact side_keeps _
    | exact finish_keeps
    | exact noteMain_keeps _
    | exact noteCleanup_keeps _
    | exact register_keeps _)

/-- `Reach k w w'`: `w'` arises from `w` by updates of the runner's own state (never of the log observers), by
scheduling `k` delayed calls (never a `stop`) at times `≥ now`, by logging the start of a stage, and by firing the
final Deferred (`deliver`) -/
inductive Reach : Nat → W → W → Prop
  | refl (w : W) : Reach 0 w w
  | log {k : Nat} {w w' : W} (n : SName) : Reach k (updU (Chain.log n w.now w.running) w) w' → Reach k w w'
  | upd {k : Nat} {w w' : W} (f : Chain → Chain) (h : Reach k (updU f w) w')
      (hf : Keeps f := by obs_tac) : Reach k w w'
  | sched {k : Nat} {w w' : W} (d : Nat) (a : CAct) (ha : a ≠ .stop) :
      Reach k (schedule (w.now + d) (.user w.u.iter a) w) w' → Reach (k + 1) w w'
  | deliv {k : Nat} {w w' : W} (b : Nat) : Reach k (deliver (.value b) w) w' → Reach k w w'

theorem Reach.trans {k j : Nat} {w w1 w2 : W} (h1 : Reach k w w1) (h2 : Reach j w1 w2) : Reach (k + j) w w2 := by
  induction h1 with
  | refl w => simpa using h2
  | log n _ ih => exact Reach.log n (ih h2)
  | upd f _ hf ih => exact Reach.upd f (ih h2) hf
  | sched d a ha _ ih =>
    have := Reach.sched d a ha (ih h2)
    simpa [Nat.add_assoc, Nat.add_comm, Nat.add_left_comm] using this
  | deliv b _ ih => exact Reach.deliv b (ih h2)

theorem Reach.upd1 (f : Chain → Chain) (w : W) (hf : Keeps f := by obs_tac) :
    Reach 0 w (updU f w) := Reach.upd f (Reach.refl _) hf

theorem Reach.cast {k j : Nat} {w w' : W} (h : Reach k w w') (e : k = j) : Reach j w w' := e ▸ h

/-- an invariant kept by the three kinds of steps is kept along `Reach` -/
theorem Reach.inv (P : W → Prop) (hlog : ∀ (w : W) (n : SName), P w → P (updU (Chain.log n w.now w.running) w))
    (hupd : ∀ (w : W) (f : Chain → Chain), Keeps f → P w → P (updU f w))
    (hs : ∀ (w : W) (d : Nat) (a : CAct), a ≠ CAct.stop → P w → P (schedule (w.now + d) (.user w.u.iter a) w))
    (hd : ∀ (w : W) (b : Nat), P w → P (deliver (.value b) w)) {k : Nat} {w w' : W} (h : Reach k w w') : P w → P w' := by
  induction h with
  | refl w => exact id
  | log n _ ih => exact fun hw => ih (hlog _ n hw)
  | upd f _ hf ih => exact fun hw => ih (hupd _ f hf hw)
  | sched d a ha _ ih => exact fun hw => ih (hs _ d a ha hw)
  | deliv b _ ih => exact fun hw => ih (hd _ b hw)

/-! ### the chain functions as `Reach` steps, with the number of calls they schedule -/

def sideCalls : Side → Nat
  | .junk _ => 1
  | _ => 0

theorem doSide_reach (s : Side) (w : W) : Reach (sideCalls s) w (doSide s w) := by
  cases s with
  | junk d => exact Reach.sched d .noop (by simp) (Reach.refl _)
  | logerr => exact Reach.upd1 _ w
  | dropfailed => exact Reach.upd1 _ w
  | flush => exact Reach.upd1 _ w
  | expect => exact Reach.upd1 _ w

theorem sides_reach : ∀ (sides : List Side) (w : W),
    Reach (sides.map sideCalls).sum w (sides.foldl (fun w s => doSide s w) w)
  | [], w => Reach.refl w
  | s :: rest, w => by
      have := (doSide_reach s w).trans (sides_reach rest (doSide s w))
      simpa using this

theorem sides_sum_le (sides : List Side) : (sides.map sideCalls).sum ≤ sides.length := by
  induction sides with
  | nil => simp
  | cons s rest ih => cases s <;> simp [sideCalls] <;> omega

def behCalls : Beh → Nat
  | .fire _ | .failD _ _ => 1
  | _ => 0

def launchCalls (st : Stage) : Nat := (st.sides.map sideCalls).sum + behCalls st.beh

theorem calls_eq (st : Stage) : st.calls = st.sides.length + 1 + callsL st.cleanups := by
  cases st; simp [Stage.calls, Stage.sides, Stage.cleanups]

theorem size_eq (st : Stage) : st.size = 1 + sizeL st.cleanups := by
  cases st; simp [Stage.size, Stage.cleanups]

theorem launchCalls_le (st : Stage) : launchCalls st ≤ st.sides.length + 1 := by
  have := sides_sum_le st.sides
  simp only [launchCalls]
  cases st.beh <;> simp [behCalls] <;> omega

theorem launch_reach (n : SName) (st : Stage) (w : W) : Reach (launchCalls st) w (launch n st w) := by
  have h12 := (Reach.log n (Reach.refl _)).trans (sides_reach st.sides (updU (Chain.log n w.now w.running) w))
  simp only [launch, launchCalls]
  cases st.beh with
  | ret => exact h12.cast (by simp [behCalls])
  | raise k => exact h12.cast (by simp [behCalls])
  | never => exact h12.cast (by simp [behCalls])
  | fire d => exact (h12.trans (Reach.sched d (.stageDone none) (by simp) (Reach.refl _))).cast (by simp [behCalls])
  | failD d k => exact (h12.trans (Reach.sched d (.stageDone (some k)) (by simp) (Reach.refl _))).cast (by simp [behCalls])

theorem finish_over (c : Chain) : c.finish.over = c.over := (finish_keeps c).2.2.2.2

theorem finishChain_over {w : W} (h : w.u.over = true) : finishChain w = updU Chain.finish w := by
  have : (updU Chain.finish w).u.over = true := by show w.u.finish.over = true; rw [finish_over]; exact h
  simp only [finishChain, this, if_true]

theorem finishChain_live {w : W} (h : w.u.over = false) :
    finishChain w = deliver (.value (if w.u.finish.fails then 0 else 1)) (updU Chain.finish w) := by
  have : (updU Chain.finish w).u.over = false := by show w.u.finish.over = false; rw [finish_over]; exact h
  simp only [finishChain, this, Bool.false_eq_true, if_false]
  rfl

theorem finishChain_reach (w : W) : Reach 0 w (finishChain w) := by
  cases h : w.u.over with
  | true => rw [finishChain_over h]; exact Reach.upd Chain.finish (Reach.refl _)
  | false => rw [finishChain_live h]; exact Reach.upd Chain.finish (Reach.deliv _ (Reach.refl _))

def stackCalls (stack : List (Nat × Stage)) : Nat := (stack.map fun ic => ic.2.calls).sum

/-- what the chain may still schedule, by where it waits -/
def rem (p : Prog) (c : Chain) : Nat :=
  match c.pos with
  | .setUp => p.body.calls + p.tearDown.calls + stackCalls c.stack
  | .body => p.tearDown.calls + stackCalls c.stack
  | .tearDown | .cleanup => stackCalls c.stack
  | _ => 0

@[simp] theorem updU_u (f : Chain → Chain) (w : W) : (updU f w).u = f w.u := rfl
@[simp] theorem updU_calls (f : Chain → Chain) (w : W) : (updU f w).calls = w.calls := rfl
@[simp] theorem updU_now (f : Chain → Chain) (w : W) : (updU f w).now = w.now := rfl
@[simp] theorem updU_sp (f : Chain → Chain) (w : W) : (updU f w).sp = w.sp := rfl
@[simp] theorem updU_crashed (f : Chain → Chain) (w : W) : (updU f w).crashed = w.crashed := rfl
@[simp] theorem updU_stopPatched (f : Chain → Chain) (w : W) : (updU f w).stopPatched = w.stopPatched := rfl
@[simp] theorem updU_sels (f : Chain → Chain) (w : W) : (updU f w).sels = w.sels := rfl

theorem finishChain_u (w : W) : (finishChain w).u = Chain.finish w.u := by
  cases h : w.u.over with
  | true => rw [finishChain_over h]; rfl
  | false => rw [finishChain_live h]; simp

theorem Chain.finish_pos (c : Chain) : c.finish.pos = .done := rfl

/-- the side effects and the launch only touch the logging/accounting fields of the chain -/
theorem sides_u (sides : List Side) (w : W) :
    (sides.foldl (fun w s => doSide s w) w).u = sides.foldl (fun c s => Chain.side s c) w.u := by
  induction sides generalizing w with
  | nil => rfl
  | cons s rest ih =>
    simp only [List.foldl_cons, ih]
    cases s <;> rfl

theorem sidesC_frame (sides : List Side) (c : Chain) :
    (sides.foldl (fun c s => Chain.side s c) c).pos = c.pos ∧
    (sides.foldl (fun c s => Chain.side s c) c).stack = c.stack ∧
    (sides.foldl (fun c s => Chain.side s c) c).nextCleanup = c.nextCleanup ∧
    (sides.foldl (fun c s => Chain.side s c) c).excs = c.excs ∧
    (sides.foldl (fun c s => Chain.side s c) c).fails = c.fails ∧
    (sides.foldl (fun c s => Chain.side s c) c).lastExc = c.lastExc ∧
    (sides.foldl (fun c s => Chain.side s c) c).stages = c.stages ∧
    (sides.foldl (fun c s => Chain.side s c) c).observers = c.observers := by
  induction sides generalizing c with
  | nil => exact ⟨rfl, rfl, rfl, rfl, rfl, rfl, rfl, rfl⟩
  | cons s rest ih =>
    obtain ⟨h1, h2, h3, h4, h5, h6, h7, h8⟩ := ih (Chain.side s c)
    simp only [List.foldl_cons]
    rw [h1, h2, h3, h4, h5, h6, h7, h8]
    cases s <;> exact ⟨rfl, rfl, rfl, rfl, rfl, rfl, rfl, rfl⟩

/-- the chain state after `launch` -/
theorem launch_u (n : SName) (st : Stage) (w : W) :
    (launch n st w).u = st.sides.foldl (fun c s => Chain.side s c) (Chain.log n w.now w.running w.u) := by
  simp only [launch]
  cases st.beh <;> simp [sides_u]

theorem launch_frame (n : SName) (st : Stage) (w : W) :
    (launch n st w).u.pos = w.u.pos ∧ (launch n st w).u.stack = w.u.stack ∧
    (launch n st w).u.nextCleanup = w.u.nextCleanup := by
  rw [launch_u]
  obtain ⟨h1, h2, h3, _⟩ := sidesC_frame st.sides (Chain.log n w.now w.running w.u)
  exact ⟨h1, h2, h3⟩

theorem register_stack (cs : List Stage) (c : Chain) :
    (Chain.register cs c).stack = (number c.nextCleanup cs).reverse ++ c.stack ∧
    (Chain.register cs c).nextCleanup = c.nextCleanup + cs.length := by
  induction cs generalizing c with
  | nil => simp [Chain.register, number]
  | cons s rest ih =>
    simp only [Chain.register, List.foldl_cons] at ih ⊢
    obtain ⟨h1, h2⟩ := ih { c with stack := (c.nextCleanup, s) :: c.stack, nextCleanup := c.nextCleanup + 1 }
    rw [h1, h2]
    simp [number]
    omega

theorem stackCalls_number (i : Nat) (cs : List Stage) : stackCalls (number i cs) = callsL cs := by
  induction cs generalizing i with
  | nil => simp [number, stackCalls, callsL]
  | cons c rest ih =>
    have := ih (i + 1)
    simp only [stackCalls] at this
    simp [number, stackCalls, callsL, this]

theorem stackSize_number (i : Nat) (cs : List Stage) : stackSize (number i cs) = sizeL cs := by
  induction cs generalizing i with
  | nil => simp [number, stackSize, sizeL]
  | cons c rest ih =>
    have := ih (i + 1)
    simp only [stackSize] at this
    simp [number, stackSize, sizeL, this]

theorem stackCalls_append (a b : List (Nat × Stage)) : stackCalls (a ++ b) = stackCalls a + stackCalls b := by
  simp [stackCalls]

theorem stackSize_append (a b : List (Nat × Stage)) : stackSize (a ++ b) = stackSize a + stackSize b := by
  simp [stackSize]

theorem stackCalls_reverse (a : List (Nat × Stage)) : stackCalls a.reverse = stackCalls a := by
  simp [stackCalls, List.sum_reverse]

theorem stackSize_reverse (a : List (Nat × Stage)) : stackSize a.reverse = stackSize a := by
  simp [stackSize, List.sum_reverse]

theorem register_stackCalls (cs : List Stage) (c : Chain) :
    stackCalls (Chain.register cs c).stack = stackCalls c.stack + callsL cs := by
  rw [(register_stack cs c).1, stackCalls_append, stackCalls_reverse, stackCalls_number]; omega

theorem register_stackSize (cs : List Stage) (c : Chain) :
    stackSize (Chain.register cs c).stack = stackSize c.stack + sizeL cs := by
  rw [(register_stack cs c).1, stackSize_append, stackSize_reverse, stackSize_number]; omega

theorem register_pos (cs : List Stage) (c : Chain) : (Chain.register cs c).pos = c.pos := by
  induction cs generalizing c with
  | nil => rfl
  | cons s rest ih => simp only [Chain.register, List.foldl_cons] at ih ⊢; rw [ih]

theorem noteMain_stack (r : Option Exc) (c : Chain) : (Chain.noteMain r c).stack = c.stack ∧
    (Chain.noteMain r c).nextCleanup = c.nextCleanup := by
  cases r <;> exact ⟨rfl, rfl⟩

theorem noteCleanup_stack (r : Option Exc) (c : Chain) : (Chain.noteCleanup r c).stack = c.stack ∧
    (Chain.noteCleanup r c).nextCleanup = c.nextCleanup := by
  cases r <;> exact ⟨rfl, rfl⟩

/-- `runCleanups` schedules at most what the stack allows, and ends at `done` or waits in `cleanup` -/
theorem runCleanups_reach (p : Prog) : ∀ (n : Nat) (w : W), stackSize w.u.stack < n →
    ∃ k, Reach k w (runCleanups n w) ∧ k + rem p (runCleanups n w).u ≤ stackCalls w.u.stack
  | 0, _, h => by omega
  | n + 1, w, hn => by
      unfold runCleanups
      split
      · exact ⟨0, finishChain_reach _, by simp [rem, finishChain_u, Chain.finish_pos]⟩
      · rename_i i c rest hst
        obtain ⟨w1, hw1⟩ : ∃ w1 : W, w1 = updU (fun u => Chain.register c.cleanups { u with stack := rest }) w := ⟨_, rfl⟩
        have hs1 : stackCalls w1.u.stack = stackCalls rest + callsL c.cleanups := by
          rw [hw1]; exact register_stackCalls c.cleanups _
        have hz1 : stackSize w1.u.stack = stackSize rest + sizeL c.cleanups := by
          rw [hw1]; exact register_stackSize c.cleanups _
        have hl : Reach (launchCalls c) w (launch (.cleanup i) c w1) := by
          rw [hw1]
          exact Reach.upd _ (launch_reach _ _ _) (fun u => register_keeps _ _)
        have hp := launch_frame (.cleanup i) c w1
        have hle := launchCalls_le c
        have hc := calls_eq c
        have hsz := size_eq c
        have hstack : stackCalls w.u.stack = c.calls + stackCalls rest := by rw [hst]; simp [stackCalls]
        have hsize : stackSize w.u.stack = c.size + stackSize rest := by rw [hst]; simp [stackSize]
        simp only [← hw1]
        cases hs : statusOf c.beh with
        | completed r =>
          simp only []
          obtain ⟨k, hk, hk2⟩ := runCleanups_reach p n (updU (Chain.noteCleanup r) (launch (.cleanup i) c w1))
            (by simp only [updU_u, (noteCleanup_stack _ _).1, hp.2.1]; omega)
          refine ⟨launchCalls c + k, hl.trans (Reach.upd _ hk), ?_⟩
          simp only [updU_u, (noteCleanup_stack _ _).1, hp.2.1] at hk2
          omega
        | pending =>
          simp only []
          refine ⟨launchCalls c, (hl.trans (Reach.upd1 _ _)).cast (by simp), ?_⟩
          simp only [rem, updU_u, hp.2.1]
          omega

theorem cleanUp_reach (p : Prog) (w : W) :
    ∃ k, Reach k w (cleanUp w) ∧ k + rem p (cleanUp w).u ≤ stackCalls w.u.stack :=
  runCleanups_reach p _ w (Nat.lt_succ_self _)

theorem afterCleanup_reach (p : Prog) (r : Option Exc) (w : W) :
    ∃ k, Reach k w (afterCleanup r w) ∧ k + rem p (afterCleanup r w).u ≤ stackCalls w.u.stack := by
  obtain ⟨k, hk, hk2⟩ := cleanUp_reach p (updU (Chain.noteCleanup r) w)
  refine ⟨k, Reach.upd _ hk, ?_⟩
  simpa [afterCleanup, (noteCleanup_stack _ _).1] using hk2

theorem afterTearDown_reach (p : Prog) (r : Option Exc) (w : W) :
    ∃ k, Reach k w (afterTearDown r w) ∧ k + rem p (afterTearDown r w).u ≤ stackCalls w.u.stack := by
  obtain ⟨k, hk, hk2⟩ := cleanUp_reach p (updU (Chain.noteMain r) w)
  refine ⟨k, Reach.upd _ hk, ?_⟩
  simpa [afterTearDown, (noteMain_stack _ _).1] using hk2

theorem startTearDown_reach (p : Prog) (w : W) :
    ∃ k, Reach k w (startTearDown p w) ∧ k + rem p (startTearDown p w).u ≤ p.tearDown.calls + stackCalls w.u.stack := by
  have hl : Reach (launchCalls p.tearDown) w
      (launch .tearDown p.tearDown (updU (Chain.register p.tearDown.cleanups) w)) :=
    Reach.upd _ (launch_reach _ _ _)
  have hp := launch_frame .tearDown p.tearDown (updU (Chain.register p.tearDown.cleanups) w)
  have hle := launchCalls_le p.tearDown
  have hreg := register_stackCalls p.tearDown.cleanups w.u
  have hm := calls_eq p.tearDown
  simp only [startTearDown]
  cases hs : statusOf p.tearDown.beh with
  | completed r =>
    simp only []
    obtain ⟨k, hk, hk2⟩ := afterTearDown_reach p r
      (launch .tearDown p.tearDown (updU (Chain.register p.tearDown.cleanups) w))
    refine ⟨launchCalls p.tearDown + k, hl.trans hk, ?_⟩
    rw [hp.2.1] at hk2
    simp only [updU_u, hreg] at hk2
    omega
  | pending =>
    simp only []
    refine ⟨launchCalls p.tearDown, (hl.trans (Reach.upd1 _ _)).cast (by simp), ?_⟩
    simp only [rem, updU_u, hp.2.1, hreg]
    omega

theorem afterBody_reach (p : Prog) (r : Option Exc) (w : W) :
    ∃ k, Reach k w (afterBody p r w) ∧ k + rem p (afterBody p r w).u ≤ p.tearDown.calls + stackCalls w.u.stack := by
  obtain ⟨k, hk, hk2⟩ := startTearDown_reach p (updU (Chain.noteMain r) w)
  refine ⟨k, Reach.upd _ hk, ?_⟩
  simpa [afterBody, (noteMain_stack _ _).1] using hk2

theorem startBody_reach (p : Prog) (w : W) :
    ∃ k, Reach k w (startBody p w) ∧
      k + rem p (startBody p w).u ≤ p.body.calls + p.tearDown.calls + stackCalls w.u.stack := by
  have hl : Reach (launchCalls p.body) w
      (launch .body p.body (updU (Chain.register p.body.cleanups) w)) :=
    Reach.upd _ (launch_reach _ _ _)
  have hp := launch_frame .body p.body (updU (Chain.register p.body.cleanups) w)
  have hle := launchCalls_le p.body
  have hreg := register_stackCalls p.body.cleanups w.u
  have hm := calls_eq p.body
  simp only [startBody]
  cases hs : statusOf p.body.beh with
  | completed r =>
    simp only []
    obtain ⟨k, hk, hk2⟩ := afterBody_reach p r (launch .body p.body (updU (Chain.register p.body.cleanups) w))
    refine ⟨launchCalls p.body + k, hl.trans hk, ?_⟩
    rw [hp.2.1] at hk2
    simp only [updU_u, hreg] at hk2
    omega
  | pending =>
    simp only []
    refine ⟨launchCalls p.body, (hl.trans (Reach.upd1 _ _)).cast (by simp), ?_⟩
    simp only [rem, updU_u, hp.2.1, hreg]
    omega

theorem afterSetUp_reach (p : Prog) (r : Option Exc) (w : W) :
    ∃ k, Reach k w (afterSetUp p r w) ∧
      k + rem p (afterSetUp p r w).u ≤ p.body.calls + p.tearDown.calls + stackCalls w.u.stack := by
  cases r with
  | none => exact startBody_reach p w
  | some e =>
    obtain ⟨k, hk, hk2⟩ := cleanUp_reach p (updU (Chain.caught e) w)
    refine ⟨k, Reach.upd _ hk (fun _ => ⟨rfl, rfl, rfl, rfl, rfl⟩), ?_⟩
    have hst : stackCalls (updU (Chain.caught e) w).u.stack = stackCalls w.u.stack := rfl
    simp only [afterSetUp]
    omega

theorem startSetUp_reach (p : Prog) (w : W) :
    ∃ k, Reach k w (startSetUp p w) ∧
      k + rem p (startSetUp p w).u ≤ p.setUp.calls + p.body.calls + p.tearDown.calls + stackCalls w.u.stack := by
  have hl : Reach (launchCalls p.setUp) w
      (launch .setUp p.setUp (updU (Chain.register p.setUp.cleanups) w)) :=
    Reach.upd _ (launch_reach _ _ _)
  have hp := launch_frame .setUp p.setUp (updU (Chain.register p.setUp.cleanups) w)
  have hle := launchCalls_le p.setUp
  have hreg := register_stackCalls p.setUp.cleanups w.u
  have hm := calls_eq p.setUp
  simp only [startSetUp]
  cases hs : statusOf p.setUp.beh with
  | completed r =>
    simp only []
    obtain ⟨k, hk, hk2⟩ := afterSetUp_reach p r (launch .setUp p.setUp (updU (Chain.register p.setUp.cleanups) w))
    refine ⟨launchCalls p.setUp + k, hl.trans hk, ?_⟩
    rw [hp.2.1] at hk2
    simp only [updU_u, hreg] at hk2
    omega
  | pending =>
    simp only []
    refine ⟨launchCalls p.setUp, (hl.trans (Reach.upd1 _ _)).cast (by simp), ?_⟩
    simp only [rem, updU_u, hp.2.1, hreg]
    omega

/-- resuming the chain schedules no more than what `rem` allowed, and lowers `rem` accordingly -/
theorem resume_reach (p : Prog) (r : Option Exc) (w : W) :
    ∃ k, Reach k w (resume p r w) ∧ k + rem p (resume p r w).u ≤ rem p w.u := by
  simp only [resume]
  cases hpos : w.u.pos with
  | idle => exact ⟨0, Reach.refl w, by simp⟩
  | done => exact ⟨0, Reach.refl w, by simp⟩
  | setUp => simpa [rem, hpos] using afterSetUp_reach p r w
  | body => simpa [rem, hpos] using afterBody_reach p r w
  | tearDown => simpa [rem, hpos] using afterTearDown_reach p r w
  | cleanup => simpa [rem, hpos] using afterCleanup_reach p r w

/-! ## queue, clock and spinner: the invariant of the reactor loop -/

def isSD (c : DCall (QAct CAct)) : Bool :=
  match c.act with
  | .user _ (.stageDone _) => true
  | _ => false

/-- the iteration in which a queued call was scheduled (0 = before the loop) -/
def bornOf : QAct CAct → Nat
  | .timeout => 0
  | .user l _ => l

/-- sorted by time; the timeout call precedes every stage-firing call of the same instant (it was scheduled first);
calls of the same instant are in the order in which they were scheduled -/
def SortedQ (q : List (DCall (QAct CAct))) : Prop :=
  q.Pairwise fun a b => a.time ≤ b.time ∧ (isSD a = true → b.act.isTimeout = true → a.time < b.time) ∧
    (a.time = b.time → bornOf a.act ≤ bornOf b.act)

theorem SortedQ.tail {c : DCall (QAct CAct)} {q : List (DCall (QAct CAct))} (h : SortedQ (c :: q)) : SortedQ q :=
  (List.pairwise_cons.mp h).2

theorem SortedQ.head {c : DCall (QAct CAct)} {q : List (DCall (QAct CAct))} (h : SortedQ (c :: q)) :
    ∀ x ∈ q, c.time ≤ x.time ∧ (isSD c = true → x.act.isTimeout = true → c.time < x.time) ∧
      (c.time = x.time → bornOf c.act ≤ bornOf x.act) :=
  (List.pairwise_cons.mp h).1

theorem insert_sortedQ (c : DCall (QAct CAct)) : ∀ q : List (DCall (QAct CAct)), SortedQ q →
    (c.act.isTimeout = true → ∀ x ∈ q, isSD x = false) → (∀ x ∈ q, bornOf x.act ≤ bornOf c.act) → SortedQ (insert c q)
  | [], _, _, _ => by simp [Reactor.insert, SortedQ]
  | d :: ds, h, hc, hb => by
      simp only [Reactor.insert]
      split
      · rename_i hle
        refine List.pairwise_cons.mpr ⟨?_, insert_sortedQ c ds h.tail (fun ht x hx => hc ht x (List.mem_cons_of_mem _ hx))
          (fun x hx => hb x (List.mem_cons_of_mem _ hx))⟩
        intro x hx
        rcases mem_insert.mp hx with rfl | hx
        · refine ⟨hle, fun hsd ht => ?_, fun _ => hb d List.mem_cons_self⟩
          have := hc ht d List.mem_cons_self
          rw [this] at hsd; cases hsd
        · exact h.head x hx
      · rename_i hgt
        refine List.pairwise_cons.mpr ⟨?_, h⟩
        intro x hx
        have hlt : c.time < x.time := by
          rcases List.mem_cons.mp hx with rfl | hx
          · omega
          · have := (h.head x hx).1; omega
        exact ⟨by omega, fun _ _ => hlt, fun he => by omega⟩

theorem SortedQ.filter {q : List (DCall (QAct CAct))} (f : DCall (QAct CAct) → Bool) (h : SortedQ q) :
    SortedQ (q.filter f) := List.Pairwise.filter f h

structure Inv1 (p : Prog) (w : W) : Prop where
  sorted : SortedQ w.calls
  ge : ∀ c ∈ w.calls, w.now ≤ c.time
  ttime : ∀ c ∈ w.calls, c.act.isTimeout = true → c.time = p.timeout
  tcount : (w.calls.filter (·.act.isTimeout)).length = if w.sp.tcall = .pending then 1 else 0
  pend : w.sp.tcall = .pending → w.sp.success = none ∧ w.sp.failure = none
  called : w.sp.tcall = .called → p.timeout ≤ w.now ∧ w.sp.failure = some .timeout ∧ w.sp.success = none
            ∧ ∀ s ∈ p.stops, p.timeout ≤ s
  cancelled : w.sp.tcall = .cancelled → w.sp.success.isSome = true ∧ w.sp.failure = none
  nounset : w.sp.tcall ≠ .unset
  alive : w.crashed = false → w.sp.tcall = .pending ∧ w.sp.spinning = true
  stops : ∀ s ∈ p.stops, (⟨s, .user 0 .stop⟩ : DCall (QAct CAct)) ∈ w.calls ∨ (w.crashed = true ∧ s = w.now)
  stopcalls : ∀ c ∈ w.calls, ∀ l, c.act = .user l .stop → c.time ∈ p.stops
  cause : w.crashed = true → w.sp.tcall = .called ∨ w.sp.success.isSome = true ∨ ∃ s ∈ p.stops, s = w.now
  born : ∀ c ∈ w.calls, bornOf c.act ≤ w.u.iter

theorem inv1_upd {p : Prog} {w : W} (f : Chain → Chain) (hf : w.u.iter ≤ (f w.u).iter) (h : Inv1 p w) : Inv1 p (updU f w) :=
  ⟨h.sorted, h.ge, h.ttime, h.tcount, h.pend, h.called, h.cancelled, h.nounset, h.alive, h.stops, h.stopcalls, h.cause,
   fun c hc => Nat.le_trans (h.born c hc) hf⟩

theorem filter_insert_length (f : DCall (QAct CAct) → Bool) (c : DCall (QAct CAct)) (q : List (DCall (QAct CAct))) :
    ((insert c q).filter f).length = ((c :: q).filter f).length :=
  ((insert_perm c q).filter f).length_eq

theorem inv1_sched {p : Prog} {w : W} (d : Nat) (a : CAct) (ha : a ≠ .stop) (h : Inv1 p w) :
    Inv1 p (schedule (w.now + d) (.user w.u.iter a) w) := by
  refine ⟨?_, ?_, ?_, ?_, h.pend, h.called, h.cancelled, h.nounset, h.alive, ?_, ?_, h.cause, ?_⟩
  · exact insert_sortedQ _ _ h.sorted (fun ht => by cases ht) h.born
  · intro c hc
    rcases mem_insert.mp hc with rfl | hc
    · show w.now ≤ w.now + d; omega
    · exact h.ge c hc
  · intro c hc ht
    rcases mem_insert.mp hc with rfl | hc
    · cases ht
    · exact h.ttime c hc ht
  · show ((Reactor.insert ⟨w.now + d, .user w.u.iter a⟩ w.calls).filter (·.act.isTimeout)).length = _
    rw [filter_insert_length, List.filter_cons_of_neg (by simp [QAct.isTimeout])]
    exact h.tcount
  · intro s hs
    rcases h.stops s hs with h1 | h1
    · exact Or.inl (mem_insert.mpr (Or.inr h1))
    · exact Or.inr h1
  · intro c hc l hcl
    rcases mem_insert.mp hc with rfl | hc
    · simp only [QAct.user.injEq] at hcl
      exact absurd hcl.2 ha
    · exact h.stopcalls c hc l hcl
  · intro c hc
    rcases mem_insert.mp hc with rfl | hc
    · exact Nat.le_refl _
    · exact h.born c hc

theorem filter_timeout_nil (q : List (DCall (QAct CAct))) :
    ((q.filter fun c => !c.act.isTimeout).filter (·.act.isTimeout)) = [] := by
  rw [List.filter_filter]
  apply List.filter_eq_nil_iff.mpr
  intro c _
  cases c.act.isTimeout <;> simp

theorem inv1_deliver {p : Prog} {w : W} (b : Nat) (h : Inv1 p w) : Inv1 p (deliver (.value b) w) := by
  by_cases hp : w.sp.tcall = .pending
  · have hcr : (deliver (.value b) w).crashed = true := by
      unfold deliver
      simp only [hp, stopReactor_crashed]
      cases hw : w.crashed with
      | true => simp
      | false => simp [(h.alive hw).2]
    have htc : (deliver (.value b) w).sp.tcall = .cancelled := by unfold deliver; simp [hp]
    have hsucc : (deliver (.value b) w).sp.success = some b := by unfold deliver; simp [hp]
    have hfail : (deliver (.value b) w).sp.failure = none := by unfold deliver; simp [hp, (h.pend hp).2]
    have hcalls : (deliver (.value b) w).calls = w.calls.filter (fun c => !c.act.isTimeout) := by
      rw [deliver_calls]; simp [hp]
    refine ⟨?_, ?_, ?_, ?_, ?_, ?_, ?_, ?_, ?_, ?_, ?_, ?_,
      (fun c hc => by rw [hcalls] at hc; simpa using h.born c (List.mem_filter.mp hc).1)⟩
    · rw [hcalls]; exact h.sorted.filter _
    · intro c hc; rw [hcalls] at hc; simpa using h.ge c (List.mem_filter.mp hc).1
    · intro c hc; rw [hcalls] at hc; exact h.ttime c (List.mem_filter.mp hc).1
    · rw [hcalls, htc, filter_timeout_nil]; simp
    · intro ht; rw [htc] at ht; cases ht
    · intro ht; rw [htc] at ht; cases ht
    · intro _; exact ⟨by rw [hsucc]; rfl, hfail⟩
    · rw [htc]; simp
    · intro hc; rw [hcr] at hc; cases hc
    · intro s hs
      rcases h.stops s hs with h1 | h1
      · left; rw [hcalls]; exact List.mem_filter.mpr ⟨h1, rfl⟩
      · right; exact ⟨hcr, by simpa using h1.2⟩
    · intro c hc l hcl; rw [hcalls] at hc; exact h.stopcalls c (List.mem_filter.mp hc).1 l hcl
    · intro _; right; left; rw [hsucc]; rfl
  · rw [deliver_of_not_pending _ _ hp]
    have hcr : w.crashed = true := by
      cases hw : w.crashed with
      | true => rfl
      | false => exact absurd (h.alive hw).1 hp
    refine ⟨by simpa using h.sorted, by simpa using h.ge, by simpa using h.ttime, by simpa using h.tcount,
      by simpa using h.pend, by simpa using h.called, by simpa using h.cancelled, by simpa using h.nounset, ?_, ?_,
      by simpa using h.stopcalls, ?_, by simpa using h.born⟩
    · intro hc; rw [stopReactor_crashed, hcr] at hc; simp at hc
    · intro s hs
      rcases h.stops s hs with h1 | h1
      · exact Or.inl (by simpa using h1)
      · exact Or.inr ⟨by simp [stopReactor_crashed, hcr], by simpa using h1.2⟩
    · intro _; simpa using h.cause hcr

theorem inv1_reach {p : Prog} {k : Nat} {w w' : W} (hr : Reach k w w') (h : Inv1 p w) : Inv1 p w' :=
  Reach.inv (Inv1 p) (fun w n h => inv1_upd _ (Nat.le_refl _) h)
    (fun w f hf h => inv1_upd f (by rw [(hf w.u).2.1]; exact Nat.le_refl _) h) (fun _ d a ha h => inv1_sched d a ha h)
    (fun _ b h => inv1_deliver b h) hr h

/-- popping the head keeps the queue part of the invariant -/
theorem inv1_pop_frame {p : Prog} {w : W} (h : Inv1 p w) (c : DCall (QAct CAct)) (rest : List (DCall (QAct CAct)))
    (hc : w.calls = c :: rest) :
    SortedQ rest ∧ (∀ x ∈ rest, w.now ≤ x.time) ∧ (∀ x ∈ rest, x.act.isTimeout = true → x.time = p.timeout) ∧
    (∀ x ∈ rest, ∀ l, x.act = .user l .stop → x.time ∈ p.stops) := by
  have hs := h.sorted; rw [hc] at hs
  refine ⟨hs.tail, fun x hx => h.ge x (by rw [hc]; exact List.mem_cons_of_mem _ hx),
    fun x hx => h.ttime x (by rw [hc]; exact List.mem_cons_of_mem _ hx),
    fun x hx => h.stopcalls x (by rw [hc]; exact List.mem_cons_of_mem _ hx)⟩

theorem inv1_pop {p : Prog} {w : W} (h : Inv1 p w) (c : DCall (QAct CAct)) (rest : List (DCall (QAct CAct)))
    (hc : w.calls = c :: rest) (hdue : c.time ≤ w.now) : Inv1 p (execCall (exec p) c { w with calls := rest }) := by
  obtain ⟨hsr, hger, httr, hscr⟩ := inv1_pop_frame h c rest hc
  have hnow : c.time = w.now := by
    have := h.ge c (by rw [hc]; exact List.mem_cons_self); omega
  have htc := h.tcount
  rw [hc] at htc
  rcases c with ⟨t, q⟩
  cases q with
  | timeout =>
    -- the timeout call: `_timed_out`
    rw [List.filter_cons_of_pos (by rfl)] at htc
    simp only [List.length_cons] at htc
    have hpend : w.sp.tcall = .pending := by
      by_cases hp : w.sp.tcall = .pending
      · exact hp
      · simp [hp] at htc
    have hrest0 : (rest.filter (·.act.isTimeout)).length = 0 := by rw [hpend] at htc; simpa using htc
    have ht0 : t = p.timeout := h.ttime ⟨t, .timeout⟩ (by rw [hc]; exact List.mem_cons_self) rfl
    have hs := h.sorted; rw [hc] at hs
    have hcr : (execCall (exec p) ⟨t, .timeout⟩ { w with calls := rest }).crashed = true := by
      simp only [execCall, execTimeout, stopReactor_crashed, logEvent_crashed]
      cases hw : w.crashed with
      | true => simp
      | false => simp [logEvent, (h.alive hw).2]
    refine ⟨by simpa [execCall] using hsr, by simpa [execCall] using hger, by simpa [execCall] using httr, ?_,
      by simp [execCall], ?_, by simp [execCall], by simp [execCall], ?_, ?_, by simpa [execCall] using hscr, ?_,
      (fun x hx => by
        have hx' : x ∈ rest := by simpa [execCall] using hx
        simpa [execCall] using h.born x (by rw [hc]; exact List.mem_cons_of_mem _ hx'))⟩
    · simp only [execCall, execTimeout_calls, execTimeout_tcall]
      simpa using hrest0
    · intro _
      simp only [execCall, execTimeout_now, execTimeout_failure, execTimeout_success]
      refine ⟨by simp at hnow; omega, by simp, (h.pend hpend).1, ?_⟩
      intro s hs'
      rcases h.stops s hs' with h1 | h1
      · rw [hc] at h1
        rcases List.mem_cons.mp h1 with h1 | h1
        · cases h1
        · have := (hs.head _ h1).1; simp at this; omega
      · simp at hnow; omega
    · intro hcr'; rw [hcr] at hcr'; cases hcr'
    · intro s hs'
      rcases h.stops s hs' with h1 | h1
      · rw [hc] at h1
        rcases List.mem_cons.mp h1 with h1 | h1
        · cases h1
        · left; simpa [execCall] using h1
      · right; exact ⟨hcr, by simpa [execCall] using h1.2⟩
    · intro _; left; simp [execCall]
  | user l a =>
    rw [List.filter_cons_of_neg (by simp [QAct.isTimeout])] at htc
    -- the state after the pop, before the action runs (for an action that is not a stop request)
    have hbase : a ≠ .stop → Inv1 p (logEvent (.user l) { w with calls := rest }) := by
      intro ha
      refine ⟨hsr, hger, httr, htc, h.pend, h.called, h.cancelled, h.nounset, h.alive, ?_, hscr, h.cause,
        fun x hx => h.born x (by rw [hc]; exact List.mem_cons_of_mem _ hx)⟩
      intro s hs'
      rcases h.stops s hs' with h1 | h1
      · rw [hc] at h1
        rcases List.mem_cons.mp h1 with h1 | h1
        · injection h1 with _ h1a
          injection h1a with _ h1a
          exact absurd h1a.symm ha
        · exact Or.inl h1
      · exact Or.inr h1
    cases a with
    | noop => exact hbase (by simp)
    | stageDone r =>
      obtain ⟨k, hk, _⟩ := resume_reach p r (logEvent (.user l) { w with calls := rest })
      exact inv1_reach hk (hbase (by simp))
    | stop =>
      have htin : t ∈ p.stops := h.stopcalls ⟨t, .user l .stop⟩ (by rw [hc]; exact List.mem_cons_self) l rfl
      have hcr : (execCall (exec p) ⟨t, .user l .stop⟩ { w with calls := rest }).crashed = true := by
        simp only [execCall, exec]; split <;> rfl
      have hfr : (execCall (exec p) ⟨t, .user l .stop⟩ { w with calls := rest }).calls = rest ∧
          (execCall (exec p) ⟨t, .user l .stop⟩ { w with calls := rest }).now = w.now ∧
          (execCall (exec p) ⟨t, .user l .stop⟩ { w with calls := rest }).sp = w.sp ∧
          (execCall (exec p) ⟨t, .user l .stop⟩ { w with calls := rest }).u.iter = w.u.iter := by
        simp only [execCall, exec]; split <;> exact ⟨rfl, rfl, rfl, rfl⟩
      obtain ⟨e1, e2, e3, e4⟩ := hfr
      refine ⟨by rw [e1]; exact hsr, by rw [e1, e2]; exact hger, by rw [e1]; exact httr, by rw [e1, e3]; exact htc,
        by rw [e3]; exact h.pend, by rw [e3, e2]; exact h.called, by rw [e3]; exact h.cancelled, by rw [e3]; exact h.nounset,
        ?_, ?_, by rw [e1]; exact hscr, ?_,
        by rw [e1, e4]; exact fun x hx => h.born x (by rw [hc]; exact List.mem_cons_of_mem _ hx)⟩
      · intro hcr'; rw [hcr] at hcr'; cases hcr'
      · intro s hs'
        rw [e1, e2]
        rcases h.stops s hs' with h1 | h1
        · rw [hc] at h1
          rcases List.mem_cons.mp h1 with h1 | h1
          · right
            injection h1 with h1t _
            exact ⟨hcr, by simp at hnow; omega⟩
          · exact Or.inl h1
        · exact Or.inr ⟨hcr, h1.2⟩
      · intro _
        right; right
        exact ⟨t, htin, by rw [e2]; simpa using hnow⟩

theorem inv1_adv {p : Prog} {w : W} (h : Inv1 p w) (c : DCall (QAct CAct)) (rest : List (DCall (QAct CAct)))
    (hc : w.calls = c :: rest) (hcr : w.crashed = false) : Inv1 p { w with now := max w.now c.time } := by
  have hs := h.sorted; rw [hc] at hs
  have hge := h.ge c (by rw [hc]; exact List.mem_cons_self)
  have hmax : max w.now c.time = c.time := by omega
  refine ⟨h.sorted, ?_, h.ttime, h.tcount, h.pend, ?_, h.cancelled, h.nounset, h.alive, ?_, h.stopcalls, ?_, h.born⟩
  · intro x hx
    show max w.now c.time ≤ x.time
    rw [hmax]
    rw [hc] at hx
    rcases List.mem_cons.mp hx with rfl | hx
    · exact Nat.le_refl _
    · exact (hs.head x hx).1
  · intro ht
    have := (h.alive hcr).1
    rw [this] at ht; cases ht
  · intro s hs'
    rcases h.stops s hs' with h1 | h1
    · exact Or.inl h1
    · rw [hcr] at h1; cases h1.1
  · intro hcr'
    rw [hcr] at hcr'; cases hcr'

/-! ### invariants through the reactor's iterations -/

theorem drainB_inv (p : Prog) (P : W → Prop)
    (hpop : ∀ w c rest, P w → w.calls = c :: rest → c.time ≤ w.now → P (execCall (exec p) c { w with calls := rest })) :
    ∀ n w, P w → P (drainB p n w)
  | 0, _, h => h
  | n + 1, w, h => by
      unfold drainB
      split
      · exact h
      · rename_i c rest hc
        split
        · rename_i hd
          exact drainB_inv p P hpop n _ (hpop w c rest h hc hd.1)
        · exact h

theorem iterateB_inv (p : Prog) (P : W → Prop)
    (hpop : ∀ w c rest, P w → w.calls = c :: rest → c.time ≤ w.now → P (execCall (exec p) c { w with calls := rest }))
    (hit : ∀ w, P w → P (nextIter w)) (n : Nat) (w : W) (h : P w) : P (iterateB p n w) :=
  drainB_inv p P hpop n _ (hit w h)

theorem spinB_inv (p : Prog) (B : Nat) (P : W → Prop)
    (hpop : ∀ w c rest, P w → w.calls = c :: rest → c.time ≤ w.now → P (execCall (exec p) c { w with calls := rest }))
    (hit : ∀ w, P w → P (nextIter w))
    (hadv : ∀ w c rest, P w → w.calls = c :: rest → w.crashed = false → P { w with now := max w.now c.time }) :
    ∀ n w, P w → P (spinB p B n w)
  | 0, _, h => h
  | n + 1, w, h => by
      unfold spinB
      split
      · exact h
      · rename_i hcr
        split
        · exact h
        · rename_i c rest hc
          have hcr' : w.crashed = false := by simpa using hcr
          exact spinB_inv p B P hpop hit hadv n _ (iterateB_inv p P hpop hit _ _ (hadv w c rest h hc hcr'))

theorem inv1_nextIter {p : Prog} {w : W} (h : Inv1 p w) : Inv1 p (nextIter w) :=
  inv1_upd _ (Nat.le_succ _) h

/-! ## the loop ends: a potential that every executed call lowers -/

theorem reach_calls_length {k : Nat} {w w' : W} (h : Reach k w w') : w'.calls.length ≤ w.calls.length + k := by
  induction h with
  | refl w => simp
  | log n _ ih => simpa using ih
  | upd f _ _ ih => simpa using ih
  | sched d a ha _ ih =>
    simp only [schedule_calls, insert_length] at ih
    omega
  | deliv b _ ih =>
    rename_i k w w' _
    have : (deliver (.value b) w).calls.length ≤ w.calls.length := by
      rw [deliver_calls]; split
      · exact List.length_filter_le _ _
      · exact Nat.le_refl _
    omega

/-- pending calls plus what the chain may still schedule -/
def pot (p : Prog) (w : W) : Nat := w.calls.length + rem p w.u

theorem pot_pop (p : Prog) (w : W) (c : DCall (QAct CAct)) (rest : List (DCall (QAct CAct))) (hc : w.calls = c :: rest) :
    pot p (execCall (exec p) c { w with calls := rest }) < pot p w := by
  have hw : pot p w = rest.length + 1 + rem p w.u := by simp [pot, hc]
  rw [hw]
  rcases c with ⟨t, q⟩
  cases q with
  | timeout => simp [pot, execCall]
  | user l a =>
    cases a with
    | noop => simp [pot, execCall, exec]
    | stop =>
      simp only [pot, execCall, exec]
      split <;> simp [rem]
    | stageDone r =>
      obtain ⟨k, hk, hk2⟩ := resume_reach p r (logEvent (.user l) { w with calls := rest })
      have := reach_calls_length hk
      simp only [pot, execCall, exec]
      simp only [logEvent_calls, logEvent_u] at this hk2
      omega

/-- nothing that is still queued is both due and eligible for the iteration in progress -/
def NoDue (w : W) : Prop := ∀ c ∈ w.calls, ¬ (c.time ≤ w.now ∧ eligible w.u.iter c = true)

theorem pot_nextIter (p : Prog) (w : W) : pot p (nextIter w) = pot p w := rfl

theorem drainB_pot (p : Prog) : ∀ (n : Nat) (w : W), pot p (drainB p n w) ≤ pot p w
  | 0, w => Nat.le_refl _
  | n + 1, w => by
      unfold drainB
      split
      · exact Nat.le_refl _
      · rename_i c rest hc
        split
        · exact Nat.le_trans (drainB_pot p n _) (Nat.le_of_lt (pot_pop p w c rest hc))
        · exact Nat.le_refl _

/-- the iteration counter does not change while an iteration runs -/
theorem exec_iter (p : Prog) (c : DCall (QAct CAct)) (w : W) : (execCall (exec p) c w).u.iter = w.u.iter := by
  rcases c with ⟨t, q⟩
  cases q with
  | timeout => simp [execCall]
  | user l a =>
    cases a with
    | noop => rfl
    | stop => simp only [execCall, exec]; split <;> rfl
    | stageDone r =>
      obtain ⟨k, hk, _⟩ := resume_reach p r (logEvent (.user l) w)
      exact Reach.inv (fun w' : W => w'.u.iter = w.u.iter) (fun w' n h => h) (fun w' f hf h => by simp [(hf w'.u).2.1, h]) (fun _ _ _ _ h => h)
        (fun w' b h => by simpa using h) hk rfl

/-- the head is not (due and eligible): then nothing in the sorted queue is (inside an iteration) -/
theorem noDue_of_head {p : Prog} {w : W} (hi : Inv1 p w) (hiter : 0 < w.u.iter)
    (hh : ∀ c rest, w.calls = c :: rest → ¬ (c.time ≤ w.now ∧ eligible w.u.iter c = true)) : NoDue w := by
  intro x hx ⟨hx1, hx2⟩
  cases hcalls : w.calls with
  | nil => rw [hcalls] at hx; cases hx
  | cons c rest =>
    have hs := hi.sorted
    rw [hcalls] at hx hs
    rcases List.mem_cons.mp hx with rfl | hx
    · exact hh _ rest hcalls ⟨hx1, hx2⟩
    · obtain ⟨h1, _, h3⟩ := hs.head x hx
      have hgc := hi.ge c (by rw [hcalls]; exact List.mem_cons_self)
      have hct : c.time = x.time := by omega
      have hb := h3 hct
      -- the head is due; `x`, scheduled no earlier than the head, is eligible: so is the head
      apply hh c rest hcalls
      refine ⟨by omega, ?_⟩
      rcases c with ⟨tc, qc⟩
      rcases x with ⟨tx, qx⟩
      cases qc with
      | timeout => rfl
      | user lc ac =>
        cases qx with
        | timeout =>
          simp only [bornOf] at hb
          simp only [eligible, decide_eq_true_eq]
          omega
        | user lx ax =>
          simp only [bornOf] at hb
          simp only [eligible, decide_eq_true_eq] at hx2 ⊢
          omega

theorem drainB_done (p : Prog) : ∀ (n : Nat) (w : W), Inv1 p w → 0 < w.u.iter → pot p w ≤ n → NoDue (drainB p n w)
  | 0, w, hi, hit, h => by
      have : w.calls = [] := List.eq_nil_of_length_eq_zero (by unfold pot at h; omega)
      intro c hc; simp [drainB, this] at hc
  | n + 1, w, hi, hit, h => by
      unfold drainB
      split
      · rename_i hc; intro c hc'; rw [hc] at hc'; cases hc'
      · rename_i c rest hc
        split
        · rename_i hd
          have := pot_pop p w c rest hc
          exact drainB_done p n _ (inv1_pop hi c rest hc hd.1) (by rw [exec_iter]; exact hit) (by omega)
        · rename_i hnd
          apply noDue_of_head hi hit
          intro c' rest' hc'
          rw [hc] at hc'
          obtain ⟨rfl, _⟩ := List.cons.inj hc'
          exact hnd

theorem drainB_pot_lt (p : Prog) (n : Nat) (w : W) (c : DCall (QAct CAct)) (rest : List (DCall (QAct CAct)))
    (hc : w.calls = c :: rest) (hdue : c.time ≤ w.now ∧ eligible w.u.iter c = true) :
    pot p (drainB p (n + 1) w) < pot p w := by
  unfold drainB
  simp only [hc, hdue, and_self, if_true]
  exact Nat.lt_of_le_of_lt (drainB_pot p n _) (pot_pop p w c rest hc)

theorem drainB_crashed (p : Prog) (n : Nat) (w : W) : (drainB p n w).u.iter = w.u.iter := by
  induction n generalizing w with
  | zero => rfl
  | succ n ih =>
    unfold drainB
    split
    · rfl
    · split
      · rw [ih, exec_iter]
      · rfl

/-- the loop of `reactor.run()` ends because the reactor is crashed (or nothing is left), and then nothing that
is still queued is due and eligible -/
theorem spinB_done (p : Prog) (B : Nat) : ∀ (n : Nat) (w : W), Inv1 p w → pot p w ≤ B → pot p w < n →
    ((spinB p B n w).crashed = true ∨ (spinB p B n w).calls = []) ∧
    (w.crashed = false → w.calls ≠ [] → NoDue (spinB p B n w) ∧ 0 < (spinB p B n w).u.iter) ∧
    pot p (spinB p B n w) ≤ pot p w
  | 0, _, _, _, h => by omega
  | n + 1, w, hi, hB, hn => by
      unfold spinB
      split
      · rename_i hcr
        exact ⟨Or.inl hcr, (fun h => by rw [hcr] at h; cases h), Nat.le_refl _⟩
      · rename_i hcr
        have hcr' : w.crashed = false := by simpa using hcr
        split
        · rename_i hc
          exact ⟨Or.inr hc, (fun _ h => absurd hc h), Nat.le_refl _⟩
        · rename_i c rest hc
          obtain ⟨w1, hw1⟩ : ∃ w1 : W, w1 = nextIter { w with now := max w.now c.time } := ⟨_, rfl⟩
          have hi1 : Inv1 p w1 := hw1 ▸ inv1_nextIter (inv1_adv hi c rest hc hcr')
          have hp1 : pot p w1 = pot p w := by rw [hw1]; rfl
          have hc1 : w1.calls = c :: rest := by rw [hw1]; exact hc
          have hit1 : 0 < w1.u.iter := by rw [hw1]; exact Nat.succ_pos _
          have hdue : c.time ≤ w1.now ∧ eligible w1.u.iter c = true := by
            refine ⟨by rw [hw1]; show c.time ≤ max w.now c.time; omega, ?_⟩
            have hb := hi.born c (by rw [hc]; exact List.mem_cons_self)
            have hiter1 : w1.u.iter = w.u.iter + 1 := by rw [hw1]; rfl
            rw [hiter1]
            rcases c with ⟨tc, qc⟩
            cases qc with
            | timeout => rfl
            | user l a =>
              simp only [bornOf] at hb
              simp only [eligible, decide_eq_true_eq]
              omega
          have hB1 : 1 ≤ B := by simp [pot, hc] at hB; omega
          obtain ⟨B', rfl⟩ : ∃ B', B = B' + 1 := ⟨B - 1, by omega⟩
          have hlt := drainB_pot_lt p B' w1 c rest hc1 hdue
          have hnd := drainB_done p (B' + 1) w1 hi1 hit1 (by omega)
          have hi2 : Inv1 p (drainB p (B' + 1) w1) :=
            drainB_inv p (Inv1 p) (fun _ c rest h hc hd => inv1_pop h c rest hc hd) _ _ hi1
          have hit2 : 0 < (drainB p (B' + 1) w1).u.iter := by rw [drainB_crashed]; exact hit1
          have heq : iterateB p (B' + 1) { w with now := max w.now c.time } = drainB p (B' + 1) w1 := by
            rw [hw1]; rfl
          rw [heq]
          have ih := spinB_done p (B' + 1) n (drainB p (B' + 1) w1) hi2 (by omega) (by omega)
          refine ⟨ih.1, fun _ _ => ?_, by omega⟩
          cases hcr2 : (drainB p (B' + 1) w1).crashed with
          | false =>
            cases hc2 : (drainB p (B' + 1) w1).calls with
            | nil =>
              have : spinB p (B' + 1) n (drainB p (B' + 1) w1) = drainB p (B' + 1) w1 := by
                cases n with
                | zero => rfl
                | succ n => unfold spinB; simp [hcr2, hc2]
              rw [this]; exact ⟨hnd, hit2⟩
            | cons c2 r2 => exact ih.2.1 hcr2 (by rw [hc2]; simp)
          | true =>
            have : spinB p (B' + 1) n (drainB p (B' + 1) w1) = drainB p (B' + 1) w1 := by
              cases n with
              | zero => rfl
              | succ n => unfold spinB; simp [hcr2]
            rw [this]; exact ⟨hnd, hit2⟩

/-! ## the stage log and the path -/

def sidesOf (pre : List (SName × Stage)) : List Side := (pre.map (·.2.sides)).flatten
def allSyncL (pre : List (SName × Stage)) : Bool := pre.all fun x => isSync x.2.beh

theorem seqOk_snoc : ∀ (pre : List (SName × Stage)) (log : List (SName × Nat × Nat)) (e0 : Option Nat) (e t o : Nat)
    (n : SName) (st : Stage), pre.length = log.length → seqOk pre log e0 = true → overAt e0 pre log = some e → e ≤ t →
    seqOk (pre ++ [(n, st)]) (log ++ [(n, t, o)]) e0 = true ∧
    overAt e0 (pre ++ [(n, st)]) (log ++ [(n, t, o)]) = (delayOf st.beh).map (t + ·)
  | [], [], e0, e, t, o, n, st, _, _, hov, hle => by
      simp only [overAt] at hov
      subst hov
      simp [seqOk, overAt, hle]
  | [], _ :: _, _, _, _, _, _, _, hl, _, _, _ => by simp at hl
  | _ :: _, [], _, _, _, _, _, _, hl, _, _, _ => by simp at hl
  | (n1, s1) :: pre, (n1', t1, o1) :: log, e0, e, t, o, n, st, hl, hs, hov, hle => by
      cases e0 with
      | none => simp [seqOk] at hs
      | some e1 =>
        simp only [seqOk, Bool.and_eq_true] at hs
        simp only [overAt] at hov
        have ih := seqOk_snoc pre log ((delayOf s1.beh).map (t1 + ·)) e t o n st (by simpa using hl) hs.2 hov hle
        simp only [List.cons_append, seqOk, overAt, hs.1.1, hs.1.2, Bool.true_and, ih.1, ih.2]
        exact ⟨trivial, trivial⟩

theorem seqOk_append_path : ∀ (pre fut : List (SName × Stage)) (log : List (SName × Nat × Nat)) (e0 : Option Nat),
    pre.length = log.length → seqOk (pre ++ fut) log e0 = seqOk pre log e0 ∧ overAt e0 (pre ++ fut) log = overAt e0 pre log
  | [], fut, [], e0, _ => by cases fut <;> simp [seqOk, overAt]
  | [], _, _ :: _, _, hl => by simp at hl
  | _ :: _, _, [], _, hl => by simp at hl
  | (n1, s1) :: pre, fut, (n1', t1, o1) :: log, e0, hl => by
      have ih := seqOk_append_path pre fut log ((delayOf s1.beh).map (t1 + ·)) (by simpa using hl)
      cases e0 with
      | none => simp [seqOk, overAt, ih.2]
      | some e1 => simp only [List.cons_append, seqOk, overAt, ih.1, ih.2, and_self]

/-! ### registering cleanups, and the order in which they run -/

/-- what `register` does to the stack only depends on the stack and the counter -/
theorem register_congr (cs : List Stage) (c c' : Chain) (h1 : c.stack = c'.stack) (h2 : c.nextCleanup = c'.nextCleanup) :
    (Chain.register cs c).stack = (Chain.register cs c').stack ∧
    (Chain.register cs c).nextCleanup = (Chain.register cs c').nextCleanup := by
  rw [(register_stack cs c).1, (register_stack cs c).2, (register_stack cs c').1, (register_stack cs c').2, h1, h2]
  exact ⟨rfl, rfl⟩

/-- enough fuel is enough -/
theorem expand_fuel : ∀ (n m next : Nat) (stack : List (Nat × Stage)), stackSize stack < n → stackSize stack < m →
    expand n next stack = expand m next stack
  | 0, _, _, _, h, _ => by omega
  | _, 0, _, _, _, h => by omega
  | n + 1, m + 1, next, [], _, _ => rfl
  | n + 1, m + 1, next, (i, c) :: rest, hn, hm => by
      have hsz := size_eq c
      have h1 : stackSize ((number next c.cleanups).reverse ++ rest) = sizeL c.cleanups + stackSize rest := by
        rw [stackSize_append, stackSize_reverse, stackSize_number]
      have h2 : stackSize ((i, c) :: rest) = c.size + stackSize rest := by simp [stackSize]
      simp only [expand]
      rw [expand_fuel n m _ _ (by omega) (by omega)]

/-- the cleanups still to run, from the chain state -/
def cleanupsOf (c : Chain) : List (SName × Stage) := expand (stackSize c.stack + 1) c.nextCleanup c.stack

/-- what the chain will still go through from where it waits -/
def future (p : Prog) (c : Chain) : List (SName × Stage) :=
  match c.pos with
  | .setUp =>
    if behOk p.setUp.beh then
      (SName.body, p.body) :: (SName.tearDown, p.tearDown) ::
        cleanupsOf (Chain.register p.tearDown.cleanups (Chain.register p.body.cleanups c))
    else cleanupsOf c
  | .body => (SName.tearDown, p.tearDown) :: cleanupsOf (Chain.register p.tearDown.cleanups c)
  | .tearDown | .cleanup => cleanupsOf c
  | _ => []

theorem cleanupsOf_congr (c c' : Chain) (h1 : c.stack = c'.stack) (h2 : c.nextCleanup = c'.nextCleanup) :
    cleanupsOf c = cleanupsOf c' := by
  simp only [cleanupsOf, h1, h2]

/-- the path, seen from the start of `setUp` (cleanups of `setUp` registered on an empty stack) -/
theorem path_eq (p : Prog) (c : Chain) (hs : c.stack = []) (hn : c.nextCleanup = 0) :
    path p = (SName.setUp, p.setUp) ::
      (if behOk p.setUp.beh then
        (SName.body, p.body) :: (SName.tearDown, p.tearDown) ::
          cleanupsOf (Chain.register p.tearDown.cleanups
            (Chain.register p.body.cleanups (Chain.register p.setUp.cleanups c)))
       else cleanupsOf (Chain.register p.setUp.cleanups c)) := by
  have e1 := register_stack p.setUp.cleanups c
  rw [hs, hn] at e1
  have e2 := register_stack p.body.cleanups (Chain.register p.setUp.cleanups c)
  have e3 := register_stack p.tearDown.cleanups (Chain.register p.body.cleanups (Chain.register p.setUp.cleanups c))
  simp only [path, cleanupsOf]
  congr 1
  split
  · rw [e3.1, e3.2, e2.1, e2.2, e1.1, e1.2]
    simp
  · rw [e1.1, e1.2]
    simp

/-! ## the chain invariant -/

/-- the stage-firing calls in the queue: (time, result) -/
def sdOf (q : List (DCall (QAct CAct))) : List (Nat × Option Exc) :=
  q.filterMap fun c => match c.act with
    | .user _ (.stageDone r) => some (c.time, r)
    | _ => none

theorem sdOf_insert_other (c : DCall (QAct CAct)) (h : isSD c = false) : ∀ q, sdOf (Reactor.insert c q) = sdOf q
  | [] => by
      rcases c with ⟨t, a⟩
      cases a with
      | timeout => rfl
      | user l a => cases a <;> first | rfl | simp [isSD] at h
  | d :: ds => by
      simp only [Reactor.insert]
      split
      · simp only [sdOf, List.filterMap_cons] at *
        rw [show List.filterMap _ (Reactor.insert c ds) = List.filterMap _ ds from sdOf_insert_other c h ds]
      · rcases c with ⟨t, a⟩
        cases a with
        | timeout => rfl
        | user l a => cases a <;> first | rfl | simp [isSD] at h

theorem sdOf_insert_sd (t : Nat) (l : Nat) (r : Option Exc) : ∀ q, sdOf q = [] →
    sdOf (Reactor.insert ⟨t, .user l (.stageDone r)⟩ q) = [(t, r)]
  | [], _ => rfl
  | d :: ds, h => by
      have hd : (match d.act with | .user _ (.stageDone r) => some (d.time, r) | _ => none) = none ∧ sdOf ds = [] := by
        simp only [sdOf, List.filterMap_cons] at h
        split at h
        · exact ⟨by assumption, h⟩
        · cases h
      simp only [Reactor.insert]
      split
      · simp only [sdOf, List.filterMap_cons, hd.1]
        exact sdOf_insert_sd t l r ds hd.2
      · simp only [sdOf, List.filterMap_cons, hd.1]
        simpa [sdOf] using hd.2

theorem sdOf_filter (q : List (DCall (QAct CAct))) : sdOf (q.filter fun c => !c.act.isTimeout) = sdOf q := by
  induction q with
  | nil => rfl
  | cons c rest ih =>
    rcases c with ⟨t, a⟩
    cases a with
    | timeout => simpa [List.filter_cons, QAct.isTimeout, sdOf] using ih
    | user l a => simp only [List.filter_cons, QAct.isTimeout, Bool.not_false, if_true, sdOf, List.filterMap_cons] at ih ⊢; rw [ih]

def resOf : Beh → Option Exc
  | .failD _ k => some k
  | _ => none

structure Book (pre : List (SName × Stage)) (c : Chain) : Prop where
  forced : c.forced = (sidesOf pre).contains .expect
  logged : c.logged = loggedLeft (sidesOf pre)
  dropped : c.dropped = 0 ↔ (sidesOf pre).contains .dropfailed = false
  excs : c.excs ≠ [] ↔ c.fails = true
  obs : ∀ e ∈ c.stages, e.2.2 = c.observers.length
  kiMain : ∀ x ∈ pre, isMain x.1 = true → x.2.beh = .raise .ki → Exc.ki ∈ c.excs
  kiSome : (Exc.ki ∈ c.excs ∨ c.lastExc = some .ki) → ∃ x ∈ pre, hasKI x.2.beh = true

/-- the chain is executing (synchronously, at `now`): `pre` has run and is over, `fut` is still to come -/
structure Run (p : Prog) (w : W) (pre fut : List (SName × Stage)) : Prop where
  path : path p = pre ++ fut
  len : pre.length = w.u.stages.length
  seq : seqOk pre w.u.stages (some 0) = true
  over : overAt (some 0) pre w.u.stages = some w.now
  noSD : sdOf w.calls = []
  book : Book pre w.u
  failsOk : (w.u.fails = true ∨ w.u.lastExc.isSome = true) ↔ ∃ x ∈ pre, behOk x.2.beh = false
  unrec : w.sp.success = none
  tA : w.sp.tcall = .pending → (allSyncL pre = true ∧ w.now = 0) ∨ (w.now < p.timeout ∧ ∀ s ∈ p.stops, w.now ≤ s)
  tB : w.sp.tcall ≠ .pending → allSyncL pre = false ∧ p.timeout ≤ w.now

def isPending : Pos → Bool
  | .setUp | .body | .tearDown | .cleanup => true
  | _ => false

/-- the chain waits for the Deferred of the last stage of `pre ++ [(n, st)]` -/
structure Susp (p : Prog) (w : W) : Prop where
  ex : ∃ (pre : List (SName × Stage)) (n : SName) (st : Stage),
    path p = (pre ++ [(n, st)]) ++ future p w.u ∧
    (pre ++ [(n, st)]).length = w.u.stages.length ∧
    seqOk (pre ++ [(n, st)]) w.u.stages (some 0) = true ∧
    isSync st.beh = false ∧ isPending w.u.pos = true ∧ (w.u.pos = .setUp → st = p.setUp) ∧
    sdOf w.calls = (match overAt (some 0) (pre ++ [(n, st)]) w.u.stages with
      | some over => [(over, resOf st.beh)]
      | none => []) ∧
    (delayOf st.beh = none → overAt (some 0) (pre ++ [(n, st)]) w.u.stages = none) ∧
    Book (pre ++ [(n, st)]) w.u ∧
    ((w.u.fails = true ∨ w.u.lastExc.isSome = true) ↔ ∃ x ∈ pre, behOk x.2.beh = false) ∧
    w.sp.success = none

/-- in time, as a proposition about the stages that ran and the log -/
def InTimeP (p : Prog) (pre : List (SName × Stage)) (log : List (SName × Nat × Nat)) : Prop :=
  ∃ over, overAt (some 0) pre log = some over ∧
    ((allSyncL pre = true ∧ over = 0) ∨ (over < p.timeout ∧ ∀ s ∈ p.stops, over ≤ s))

/-- the chain is over -/
structure Fin (p : Prog) (w : W) : Prop where
  ex : ∃ pre : List (SName × Stage),
    path p = pre ∧ pre.length = w.u.stages.length ∧ seqOk pre w.u.stages (some 0) = true ∧
    sdOf w.calls = [] ∧ Book pre w.u ∧ w.u.pos = .done ∧
    (w.u.fails = true ↔ (∃ x ∈ pre, behOk x.2.beh = false) ∨ w.u.forced = true) ∧
    (∀ b, w.sp.success = some b → b = (if w.u.fails then 0 else 1) ∧ InTimeP p pre w.u.stages) ∧
    (w.sp.success = none →
      -- the chain ended when `Spinner.run` had already left `reactor.run()`: nothing was recorded
      (w.sp.tcall = .pending ∧ w.u.over = true) ∨
      -- or the timeout had fired before
      (allSyncL pre = false ∧ ∃ over, overAt (some 0) pre w.u.stages = some over ∧ p.timeout ≤ over))

def CInv (p : Prog) (w : W) : Prop := Susp p w ∨ Fin p w

/-! ### one stage -/

theorem sidesW_frame (sides : List Side) (w : W) :
    (sides.foldl (fun w s => doSide s w) w).now = w.now ∧ (sides.foldl (fun w s => doSide s w) w).sp = w.sp ∧
    sdOf (sides.foldl (fun w s => doSide s w) w).calls = sdOf w.calls := by
  induction sides generalizing w with
  | nil => exact ⟨rfl, rfl, rfl⟩
  | cons s rest ih =>
    obtain ⟨h1, h2, h3⟩ := ih (doSide s w)
    simp only [List.foldl_cons]
    rw [h1, h2, h3]
    cases s with
    | junk d => exact ⟨rfl, rfl, sdOf_insert_other _ rfl _⟩
    | logerr => exact ⟨rfl, rfl, rfl⟩
    | dropfailed => exact ⟨rfl, rfl, rfl⟩
    | flush => exact ⟨rfl, rfl, rfl⟩
    | expect => exact ⟨rfl, rfl, rfl⟩

def logStep (n : Nat) (s : Side) : Nat :=
  match s with
  | .logerr => n + 1
  | .flush => 0
  | _ => n

theorem loggedLeft_eq (sides : List Side) : loggedLeft sides = sides.foldl logStep 0 := by
  unfold loggedLeft
  congr 1

theorem sidesC_book (sides : List Side) (c : Chain) :
    (sides.foldl (fun c s => Chain.side s c) c).forced = (c.forced || sides.contains .expect) ∧
    (sides.foldl (fun c s => Chain.side s c) c).logged = sides.foldl logStep c.logged ∧
    ((sides.foldl (fun c s => Chain.side s c) c).dropped = 0 ↔ (c.dropped = 0 ∧ sides.contains .dropfailed = false)) := by
  induction sides generalizing c with
  | nil => simp
  | cons s rest ih =>
    obtain ⟨h1, h2, h3⟩ := ih (Chain.side s c)
    simp only [List.foldl_cons]
    rw [h1, h2, h3]
    cases s <;> simp [Chain.side, logStep, List.contains_cons] <;> omega

theorem launch_world (n : SName) (st : Stage) (w : W) :
    (launch n st w).now = w.now ∧ (launch n st w).sp = w.sp ∧
    (sdOf w.calls = [] → sdOf (launch n st w).calls = (match st.beh with
      | .fire d => [(w.now + d, none)]
      | .failD d k => [(w.now + d, some k)]
      | _ => [])) := by
  obtain ⟨h1, h2, h3⟩ := sidesW_frame st.sides (updU (Chain.log n w.now w.running) w)
  simp only [launch]
  cases st.beh with
  | ret => exact ⟨h1, h2, fun h => by rw [h3]; exact h⟩
  | raise k => exact ⟨h1, h2, fun h => by rw [h3]; exact h⟩
  | never => exact ⟨h1, h2, fun h => by rw [h3]; exact h⟩
  | fire d =>
    refine ⟨h1, h2, fun h => ?_⟩
    simp only [schedule_calls, h1]
    exact sdOf_insert_sd _ _ _ _ (by rw [h3]; exact h)
  | failD d k =>
    refine ⟨h1, h2, fun h => ?_⟩
    simp only [schedule_calls, h1]
    exact sdOf_insert_sd _ _ _ _ (by rw [h3]; exact h)

/-- updates that leave the accounting alone (stack, position, counter) -/
structure Frame (g : Chain → Chain) : Prop where
  stages : ∀ c, (g c).stages = c.stages
  forced : ∀ c, (g c).forced = c.forced
  logged : ∀ c, (g c).logged = c.logged
  dropped : ∀ c, (g c).dropped = c.dropped
  excs : ∀ c, (g c).excs = c.excs
  fails : ∀ c, (g c).fails = c.fails
  lastExc : ∀ c, (g c).lastExc = c.lastExc
  observers : ∀ c, (g c).observers = c.observers

theorem frame_register (cs : List Stage) : Frame (Chain.register cs) := by
  have : ∀ (cs : List Stage) (c : Chain), (Chain.register cs c).stages = c.stages ∧ (Chain.register cs c).forced = c.forced ∧
      (Chain.register cs c).logged = c.logged ∧ (Chain.register cs c).dropped = c.dropped ∧
      (Chain.register cs c).excs = c.excs ∧ (Chain.register cs c).fails = c.fails ∧
      (Chain.register cs c).lastExc = c.lastExc ∧ (Chain.register cs c).observers = c.observers := by
    intro cs
    induction cs with
    | nil => intro c; exact ⟨rfl, rfl, rfl, rfl, rfl, rfl, rfl, rfl⟩
    | cons s rest ih =>
      intro c
      simp only [Chain.register, List.foldl_cons] at ih ⊢
      obtain ⟨a1, a2, a3, a4, a5, a6, a7, a8⟩ := ih { c with stack := (c.nextCleanup, s) :: c.stack, nextCleanup := c.nextCleanup + 1 }
      exact ⟨a1, a2, a3, a4, a5, a6, a7, a8⟩
  exact ⟨fun c => (this cs c).1, fun c => (this cs c).2.1, fun c => (this cs c).2.2.1, fun c => (this cs c).2.2.2.1,
    fun c => (this cs c).2.2.2.2.1, fun c => (this cs c).2.2.2.2.2.1, fun c => (this cs c).2.2.2.2.2.2.1,
    fun c => (this cs c).2.2.2.2.2.2.2⟩

theorem frame_stack (rest : List (Nat × Stage)) : Frame (fun u => { u with stack := rest }) :=
  ⟨fun _ => rfl, fun _ => rfl, fun _ => rfl, fun _ => rfl, fun _ => rfl, fun _ => rfl, fun _ => rfl, fun _ => rfl⟩

theorem frame_pos (q : Pos) : Frame (fun u => { u with pos := q }) :=
  ⟨fun _ => rfl, fun _ => rfl, fun _ => rfl, fun _ => rfl, fun _ => rfl, fun _ => rfl, fun _ => rfl, fun _ => rfl⟩

theorem book_frame {pre : List (SName × Stage)} {c : Chain} {g : Chain → Chain} (hg : Frame g) (h : Book pre c) :
    Book pre (g c) :=
  ⟨by rw [hg.forced]; exact h.forced, by rw [hg.logged]; exact h.logged, by rw [hg.dropped]; exact h.dropped,
   by rw [hg.excs, hg.fails]; exact h.excs, by rw [hg.stages, hg.observers]; exact h.obs,
   by rw [hg.excs]; exact h.kiMain, by rw [hg.excs, hg.lastExc]; exact h.kiSome⟩

theorem run_frame {p : Prog} {w : W} {pre fut : List (SName × Stage)} {g : Chain → Chain} (hg : Frame g)
    (h : Run p w pre fut) : Run p (updU g w) pre fut :=
  ⟨h.path, by simpa [hg.stages] using h.len, by simpa [hg.stages] using h.seq, by simpa [hg.stages] using h.over,
   h.noSD, book_frame hg h.book, by simpa [hg.fails, hg.lastExc] using h.failsOk, h.unrec, h.tA, h.tB⟩

/-- what noting the result of a completed stage may change -/
structure NoteOK (r : Option Exc) (main : Bool) (f : Chain → Chain) : Prop where
  stages : ∀ c, (f c).stages = c.stages
  forced : ∀ c, (f c).forced = c.forced
  logged : ∀ c, (f c).logged = c.logged
  dropped : ∀ c, (f c).dropped = c.dropped
  observers : ∀ c, (f c).observers = c.observers
  excs : ∀ c, (c.excs ≠ [] ↔ c.fails = true) → ((f c).excs ≠ [] ↔ (f c).fails = true)
  fails : ∀ c, ((f c).fails = true ∨ (f c).lastExc.isSome = true) ↔
    (c.fails = true ∨ c.lastExc.isSome = true ∨ r.isSome = true)
  mono : ∀ c e, e ∈ c.excs → e ∈ (f c).excs
  kiMain : main = true → r = some .ki → ∀ c, Exc.ki ∈ (f c).excs
  kiSome : ∀ c, (Exc.ki ∈ (f c).excs ∨ (f c).lastExc = some .ki) → (Exc.ki ∈ c.excs ∨ c.lastExc = some .ki ∨ r = some .ki)

theorem noteOK_main (r : Option Exc) : NoteOK r true (Chain.noteMain r) := by
  cases r with
  | none =>
    exact ⟨fun _ => rfl, fun _ => rfl, fun _ => rfl, fun _ => rfl, fun _ => rfl, fun _ h => h, (fun c => by simp [Chain.noteMain]),
      fun _ _ h => h, (fun _ h => by cases h), (fun c h => by
        rcases h with h | h
        · exact Or.inl h
        · exact Or.inr (Or.inl h))⟩
  | some k =>
    refine ⟨fun _ => rfl, fun _ => rfl, fun _ => rfl, fun _ => rfl, fun _ => rfl, fun c _ => ?_, fun c => ?_,
      fun c e h => ?_, fun _ h c => ?_, fun c h => ?_⟩
    · simp [Chain.noteMain, Chain.caught]
    · simp [Chain.noteMain, Chain.caught]
    · simp [Chain.noteMain, Chain.caught, h]
    · injection h with h; subst h; simp [Chain.noteMain, Chain.caught]
    · simp only [Chain.noteMain, Chain.caught, List.mem_append, List.mem_singleton] at h
      rcases h with (h | h) | h
      · exact Or.inl h
      · exact Or.inr (Or.inr (by rw [h]))
      · exact Or.inr (Or.inl h)

theorem noteOK_cleanup (r : Option Exc) : NoteOK r false (Chain.noteCleanup r) := by
  cases r with
  | none =>
    exact ⟨fun _ => rfl, fun _ => rfl, fun _ => rfl, fun _ => rfl, fun _ => rfl, fun _ h => h, (fun c => by simp [Chain.noteCleanup]),
      fun _ _ h => h, (fun h => by cases h), (fun c h => by
        rcases h with h | h
        · exact Or.inl h
        · exact Or.inr (Or.inl h))⟩
  | some k =>
    refine ⟨fun _ => rfl, fun _ => rfl, fun _ => rfl, fun _ => rfl, fun _ => rfl, fun c h => ?_, fun c => ?_,
      fun c e h => h, (fun h => by cases h), fun c h => ?_⟩
    · simpa [Chain.noteCleanup] using h
    · simp [Chain.noteCleanup]
    · simp only [Chain.noteCleanup] at h
      rcases h with h | h
      · exact Or.inl h
      · exact Or.inr (Or.inr h)

/-- the unclaimed-exception accounting after the result `r` of a stage of `pre` has been noted -/
theorem ki_note {pre : List (SName × Stage)} {c : Chain} {r : Option Exc} {main : Bool} {f : Chain → Chain}
    (hf : NoteOK r main f)
    (hsome : (Exc.ki ∈ c.excs ∨ c.lastExc = some .ki ∨ r = some .ki) → ∃ x ∈ pre, hasKI x.2.beh = true)
    (hmain : ∀ x ∈ pre, isMain x.1 = true → x.2.beh = .raise .ki → Exc.ki ∈ c.excs ∨ (main = true ∧ r = some .ki)) :
    (∀ x ∈ pre, isMain x.1 = true → x.2.beh = .raise .ki → Exc.ki ∈ (f c).excs) ∧
    ((Exc.ki ∈ (f c).excs ∨ (f c).lastExc = some .ki) → ∃ x ∈ pre, hasKI x.2.beh = true) := by
  constructor
  · intro x hx h1 h2
    rcases hmain x hx h1 h2 with h | ⟨h3, h4⟩
    · exact hf.mono c _ h
    · exact hf.kiMain h3 h4 c
  · intro h
    exact hsome (hf.kiSome c h)

theorem sidesOf_snoc (pre : List (SName × Stage)) (n : SName) (st : Stage) :
    sidesOf (pre ++ [(n, st)]) = sidesOf pre ++ st.sides := by
  simp [sidesOf]

theorem contains_append (a b : List Side) (x : Side) : (a ++ b).contains x = (a.contains x || b.contains x) := by
  induction a with
  | nil => simp
  | cons y rest ih => simp [List.contains_cons, ih, Bool.or_assoc]

/-- the accounting after a stage has been launched -/
theorem book_launch_core {pre : List (SName × Stage)} {c : Chain} (n : SName) (st : Stage) (t : Nat) (b : Bool) (h : Book pre c) :
    let c' := st.sides.foldl (fun c s => Chain.side s c) (Chain.log n t b c)
    c'.forced = (sidesOf (pre ++ [(n, st)])).contains .expect ∧ c'.logged = loggedLeft (sidesOf (pre ++ [(n, st)])) ∧
    (c'.dropped = 0 ↔ (sidesOf (pre ++ [(n, st)])).contains .dropfailed = false) ∧ (c'.excs ≠ [] ↔ c'.fails = true) ∧
    (∀ e ∈ c'.stages, e.2.2 = c'.observers.length) ∧ c'.excs = c.excs ∧ c'.lastExc = c.lastExc := by
  obtain ⟨f1, f2, f3, f4, f5, f6, f7, f8⟩ := sidesC_frame st.sides (Chain.log n t b c)
  obtain ⟨b1, b2, b3⟩ := sidesC_book st.sides (Chain.log n t b c)
  refine ⟨?_, ?_, ?_, ?_, ?_, by rw [f4]; rfl, by rw [f6]; rfl⟩
  · rw [b1, sidesOf_snoc, contains_append]
    simp [Chain.log, h.forced]
  · rw [b2, sidesOf_snoc, loggedLeft_eq, List.foldl_append, ← loggedLeft_eq]
    simp [Chain.log, h.logged]
  · rw [b3, sidesOf_snoc, contains_append]
    simp only [Chain.log, Bool.or_eq_false_iff]
    rw [h.dropped]
  · rw [f4, f5]; exact h.excs
  · rw [f7, f8]
    intro e he
    simp only [Chain.log, List.mem_append, List.mem_singleton] at he
    rcases he with he | rfl
    · exact h.obs e he
    · rfl

/-- the accounting after a stage has been launched (its own exception, if any, not yet noted) -/
theorem book_launch {pre : List (SName × Stage)} {c : Chain} (n : SName) (st : Stage) (t : Nat) (b : Bool) (h : Book pre c)
    (hnew : isMain n = true → st.beh = .raise .ki → Exc.ki ∈ c.excs) :
    Book (pre ++ [(n, st)]) (st.sides.foldl (fun c s => Chain.side s c) (Chain.log n t b c)) := by
  obtain ⟨c1, c2, c3, c4, c5, c6, c7⟩ := book_launch_core n st t b h
  refine ⟨c1, c2, c3, c4, c5, ?_, ?_⟩
  · rw [c6]
    intro x hx h1 h2
    rcases List.mem_append.mp hx with hx | hx
    · exact h.kiMain x hx h1 h2
    · simp only [List.mem_singleton] at hx; subst hx; exact hnew h1 h2
  · rw [c6, c7]
    intro hk
    obtain ⟨x, hx, hx2⟩ := h.kiSome hk
    exact ⟨x, List.mem_append_left _ hx, hx2⟩

theorem launch_stages (n : SName) (st : Stage) (w : W) :
    (launch n st w).u.stages = w.u.stages ++ [(n, w.now, w.u.observers.length)] ∧
    (launch n st w).u.fails = w.u.fails ∧ (launch n st w).u.lastExc = w.u.lastExc ∧
    (launch n st w).u.excs = w.u.excs := by
  rw [launch_u]
  obtain ⟨_, _, _, f4, f5, f6, f7, _⟩ := sidesC_frame st.sides (Chain.log n w.now w.running w.u)
  exact ⟨by rw [f7]; rfl, by rw [f5]; rfl, by rw [f6]; rfl, by rw [f4]; rfl⟩

theorem allSyncL_snoc (pre : List (SName × Stage)) (n : SName) (st : Stage) :
    allSyncL (pre ++ [(n, st)]) = (allSyncL pre && isSync st.beh) := by
  simp [allSyncL]

/-- a synchronous stage: launched, over, its result noted -/
theorem launch_completed {p : Prog} {w : W} {pre fut : List (SName × Stage)} {n : SName} {st : Stage}
    (h : Run p w pre ((n, st) :: fut)) (r : Option Exc) (hs : statusOf st.beh = .completed r)
    (f : Chain → Chain) {main : Bool} (hf : NoteOK r main f) (hmain : isMain n = main) :
    Run p (updU f (launch n st w)) (pre ++ [(n, st)]) fut := by
  obtain ⟨l1, l2, l3, l4⟩ := launch_stages n st w
  obtain ⟨w1, w2, w3⟩ := launch_world n st w
  have hsync : isSync st.beh = true ∧ delayOf st.beh = some 0 ∧ (r.isSome = true ↔ behOk st.beh = false) ∧
      (∀ k, st.beh = .raise k ↔ r = some k) := by
    cases hb : st.beh <;> simp [statusOf, hb] at hs <;> subst hs <;> simp [isSync, delayOf, behOk]
  have hsnoc := seqOk_snoc pre w.u.stages (some 0) w.now w.now w.u.observers.length n st h.len h.seq h.over (Nat.le_refl _)
  refine ⟨by simp [h.path], ?_, ?_, ?_, ?_, ?_, ?_, ?_, ?_, ?_⟩
  · simp [hf.stages, l1, h.len]
  · simp only [updU_u, hf.stages, l1]; exact hsnoc.1
  · simp only [updU_u, hf.stages, l1, updU_now, w1]
    rw [hsnoc.2, hsync.2.1]; simp
  · simp only [updU_calls]
    rw [w3 h.noSD]
    cases hb : st.beh <;> simp [statusOf, hb] at hs <;> rfl
  · obtain ⟨c1, c2, c3, c4, c5, c6, c7⟩ := book_launch_core n st w.now w.running h.book
    rw [← launch_u] at c1 c2 c3 c4 c5 c6 c7
    obtain ⟨k1, k2⟩ := ki_note (pre := pre ++ [(n, st)]) (c := (launch n st w).u) hf
      (by
        rw [c6, c7]
        rintro (hk | hk | hk)
        · obtain ⟨x, hx, hx2⟩ := h.book.kiSome (Or.inl hk); exact ⟨x, List.mem_append_left _ hx, hx2⟩
        · obtain ⟨x, hx, hx2⟩ := h.book.kiSome (Or.inr hk); exact ⟨x, List.mem_append_left _ hx, hx2⟩
        · refine ⟨(n, st), by simp, ?_⟩
          have := (hsync.2.2.2 .ki).mpr hk
          simp [hasKI, this])
      (by
        rw [c6]
        intro x hx h1 h2
        rcases List.mem_append.mp hx with hx | hx
        · exact Or.inl (h.book.kiMain x hx h1 h2)
        · simp only [List.mem_singleton] at hx; subst hx
          exact Or.inr ⟨by rw [← hmain]; exact h1, (hsync.2.2.2 .ki).mp h2⟩)
    exact ⟨by simp [hf.forced, c1], by simp [hf.logged, c2], by simp [hf.dropped, c3],
      by simpa using hf.excs _ c4, by simpa [hf.stages, hf.observers] using c5, k1, k2⟩
  · simp only [updU_u]
    rw [hf.fails, l2, l3]
    constructor
    · rintro (h1 | h1 | h1)
      · obtain ⟨x, hx, hx2⟩ := h.failsOk.mp (Or.inl h1)
        exact ⟨x, List.mem_append_left _ hx, hx2⟩
      · obtain ⟨x, hx, hx2⟩ := h.failsOk.mp (Or.inr h1)
        exact ⟨x, List.mem_append_left _ hx, hx2⟩
      · exact ⟨(n, st), by simp, hsync.2.2.1.mp h1⟩
    · rintro ⟨x, hx, hx2⟩
      rcases List.mem_append.mp hx with hx | hx
      · rcases h.failsOk.mpr ⟨x, hx, hx2⟩ with h1 | h1
        · exact Or.inl h1
        · exact Or.inr (Or.inl h1)
      · simp only [List.mem_singleton] at hx
        subst hx
        exact Or.inr (Or.inr (hsync.2.2.1.mpr hx2))
  · simp only [updU_sp, w2]; exact h.unrec
  · simp only [updU_sp, w2, updU_now, w1, allSyncL_snoc, hsync.1, Bool.and_true]; exact h.tA
  · simp only [updU_sp, w2, updU_now, w1, allSyncL_snoc, hsync.1, Bool.and_true]; exact h.tB

/-- an asynchronous stage has been launched (facts about the world right after `launch`) -/
structure Pend (p : Prog) (w : W) (pre : List (SName × Stage)) (n : SName) (st : Stage) (fut : List (SName × Stage)) : Prop where
  path : path p = (pre ++ [(n, st)]) ++ fut
  len : (pre ++ [(n, st)]).length = w.u.stages.length
  seq : seqOk (pre ++ [(n, st)]) w.u.stages (some 0) = true
  async : isSync st.beh = false
  sd : sdOf w.calls = (match overAt (some 0) (pre ++ [(n, st)]) w.u.stages with
      | some over => [(over, resOf st.beh)]
      | none => [])
  never : delayOf st.beh = none → overAt (some 0) (pre ++ [(n, st)]) w.u.stages = none
  book : Book (pre ++ [(n, st)]) w.u
  failsOk : (w.u.fails = true ∨ w.u.lastExc.isSome = true) ↔ ∃ x ∈ pre, behOk x.2.beh = false
  unrec : w.sp.success = none

theorem launch_pending {p : Prog} {w : W} {pre fut : List (SName × Stage)} {n : SName} {st : Stage}
    (h : Run p w pre ((n, st) :: fut)) (hs : statusOf st.beh = .pending) : Pend p (launch n st w) pre n st fut := by
  obtain ⟨l1, l2, l3, l4⟩ := launch_stages n st w
  obtain ⟨w1, w2, w3⟩ := launch_world n st w
  have hsnoc := seqOk_snoc pre w.u.stages (some 0) w.now w.now w.u.observers.length n st h.len h.seq h.over (Nat.le_refl _)
  have hb := book_launch n st w.now w.running h.book (by
    intro _ h2; rw [h2] at hs; simp [statusOf] at hs)
  rw [← launch_u] at hb
  refine ⟨by simp [h.path], by simp [l1, h.len], by rw [l1]; exact hsnoc.1, ?_, ?_, ?_, hb, by rw [l2, l3]; exact h.failsOk,
    by rw [w2]; exact h.unrec⟩
  · cases hb' : st.beh <;> simp [statusOf, hb'] at hs <;> rfl
  · rw [l1, hsnoc.2, w3 h.noSD]
    cases hb' : st.beh <;> simp [statusOf, hb'] at hs <;> simp [delayOf, resOf]
  · intro hd
    rw [l1, hsnoc.2, hd]; rfl

theorem susp_of_pend {p : Prog} {w : W} {pre fut : List (SName × Stage)} {n : SName} {st : Stage}
    (h : Pend p w pre n st fut) (g : Chain → Chain) (hg : Frame g) (hpos : isPending (g w.u).pos = true)
    (hfut : fut = future p (g w.u)) (hsu : (g w.u).pos = .setUp → st = p.setUp) : Susp p (updU g w) :=
  ⟨pre, n, st, by show path p = pre ++ [(n, st)] ++ future p (g w.u); rw [← hfut]; exact h.path, by simpa [hg.stages] using h.len, by simpa [hg.stages] using h.seq,
    h.async, hpos, hsu, by simpa [hg.stages] using h.sd, by simpa [hg.stages] using h.never, book_frame hg h.book,
    by simpa [hg.fails, hg.lastExc] using h.failsOk, h.unrec⟩

/-! ### the end of the chain and the cleanups -/

theorem finish_fields (c : Chain) :
    c.finish.fails = (c.fails || c.lastExc.isSome || c.forced) ∧ c.finish.forced = c.forced ∧ c.finish.stages = c.stages ∧
    c.finish.logged = c.logged ∧ c.finish.dropped = c.dropped ∧ c.finish.observers = c.observers ∧ c.finish.pos = .done ∧
    ((c.excs ≠ [] ↔ c.fails = true) → (c.finish.excs ≠ [] ↔ c.finish.fails = true)) := by
  unfold Chain.finish
  cases h1 : c.lastExc <;> cases h2 : c.forced <;> simp [h1, h2]

theorem finish_ki (c : Chain) :
    (∀ e ∈ c.excs, e ∈ c.finish.excs) ∧ (Exc.ki ∈ c.finish.excs → Exc.ki ∈ c.excs ∨ c.lastExc = some .ki) ∧
    c.finish.lastExc = c.lastExc := by
  refine ⟨?_, ?_, ?_⟩ <;> unfold Chain.finish <;> cases h1 : c.lastExc <;> cases h2 : c.forced <;> simp [h1, h2]
  all_goals first
    | (intro e h; exact Or.inl h)
    | (intro h; rcases h with h | h
       · exact Or.inl h
       · exact Or.inr h.symm)

theorem finishChain_fin {p : Prog} {w : W} {pre : List (SName × Stage)} (h : Run p w pre []) : Fin p (finishChain w) := by
  obtain ⟨f1, f2, f3, f4, f5, f6, f7, f8⟩ := finish_fields w.u
  have hu : (finishChain w).u = w.u.finish := finishChain_u w
  have hfails : w.u.finish.fails = true ↔ (∃ x ∈ pre, behOk x.2.beh = false) ∨ w.u.finish.forced = true := by
    rw [f1, f2, ← h.failsOk]
    simp only [Bool.or_eq_true]
  have hbook : Book pre w.u.finish := by
    obtain ⟨g1, g2, g3⟩ := finish_ki w.u
    exact ⟨by rw [f2]; exact h.book.forced, by rw [f4]; exact h.book.logged, by rw [f5]; exact h.book.dropped,
      f8 h.book.excs, by rw [f3, f6]; exact h.book.obs, fun x hx h1 h2 => g1 _ (h.book.kiMain x hx h1 h2),
      fun hk => h.book.kiSome (by
        rcases hk with hk | hk
        · exact g2 hk
        · rw [g3] at hk; exact Or.inr hk)⟩
  cases hov : w.u.over with
  | true =>
    -- the run is over: the final Deferred fires into dead callbacks
    have hw : finishChain w = updU Chain.finish w := finishChain_over hov
    refine ⟨pre, by simpa using h.path, by rw [hu, f3]; exact h.len, by rw [hu, f3]; exact h.seq, by rw [hw]; exact h.noSD,
      by rw [hu]; exact hbook, by rw [hu]; exact f7, by rw [hu]; exact hfails, ?_, ?_⟩
    · intro b hb; rw [hw] at hb; have := h.unrec; simp only [updU_sp] at hb; rw [this] at hb; cases hb
    · intro _
      by_cases hp : w.sp.tcall = .pending
      · exact Or.inl ⟨by rw [hw]; exact hp, by rw [hu, finish_over]; exact hov⟩
      · obtain ⟨h1, h2⟩ := h.tB hp
        rw [hu, f3]
        exact Or.inr ⟨h1, w.now, h.over, h2⟩
  | false =>
    have hw := finishChain_live hov
    have hcalls : sdOf (finishChain w).calls = [] := by
      rw [hw]
      simp only [deliver_calls]
      split
      · rw [sdOf_filter]; exact h.noSD
      · exact h.noSD
    refine ⟨pre, by simpa using h.path, by rw [hu, f3]; exact h.len, by rw [hu, f3]; exact h.seq, hcalls, by rw [hu]; exact hbook,
      by rw [hu]; exact f7, by rw [hu]; exact hfails, ?_, ?_⟩
    · intro b hb
      by_cases hp : w.sp.tcall = .pending
      · have hs : (finishChain w).sp.success = some (if w.u.finish.fails then 0 else 1) := by
          rw [hw]; simp [deliver, hp]
        rw [hs] at hb
        injection hb with hb
        refine ⟨by rw [hu, ← hb], ?_⟩
        rw [hu, f3]
        exact ⟨w.now, h.over, h.tA hp⟩
      · have : (finishChain w).sp.success = none := by
          rw [hw, deliver_of_not_pending _ _ (by simpa using hp)]
          simpa using h.unrec
        rw [this] at hb; cases hb
    · intro hn
      by_cases hp : w.sp.tcall = .pending
      · have hs : (finishChain w).sp.success = some (if w.u.finish.fails then 0 else 1) := by
          rw [hw]; simp [deliver, hp]
        rw [hs] at hn; cases hn
      · obtain ⟨h1, h2⟩ := h.tB hp
        rw [hu, f3]
        exact Or.inr ⟨h1, w.now, h.over, h2⟩

theorem launch_stack (n : SName) (st : Stage) (w : W) : (launch n st w).u.stack = w.u.stack ∧
    (launch n st w).u.nextCleanup = w.u.nextCleanup := ⟨(launch_frame n st w).2.1, (launch_frame n st w).2.2⟩

theorem isMain_cleanup (i : Nat) : isMain (.cleanup i) = false := rfl

theorem runCleanups_cinv {p : Prog} : ∀ (n : Nat) (w : W) (pre : List (SName × Stage)), stackSize w.u.stack < n →
    Run p w pre (expand n w.u.nextCleanup w.u.stack) → CInv p (runCleanups n w)
  | 0, _, _, hn, _ => by omega
  | n + 1, w, pre, hn, h => by
      unfold runCleanups
      split
      · rename_i hst
        rw [hst] at h
        exact Or.inr (finishChain_fin (by simpa [expand] using h))
      · rename_i i c rest hst
        obtain ⟨w1, hw1⟩ : ∃ w1 : W, w1 = updU (fun u => Chain.register c.cleanups { u with stack := rest }) w := ⟨_, rfl⟩
        have hreg := register_stack c.cleanups { w.u with stack := rest }
        have hst1 : w1.u.stack = (number w.u.nextCleanup c.cleanups).reverse ++ rest := by rw [hw1]; exact hreg.1
        have hnx1 : w1.u.nextCleanup = w.u.nextCleanup + c.cleanups.length := by rw [hw1]; exact hreg.2
        have hz1 : stackSize w1.u.stack = sizeL c.cleanups + stackSize rest := by
          rw [hst1, stackSize_append, stackSize_reverse, stackSize_number]
        have hsz := size_eq c
        have hsize : stackSize w.u.stack = c.size + stackSize rest := by rw [hst]; simp [stackSize]
        have hfr : Frame (fun u => Chain.register c.cleanups { u with stack := rest }) := by
          have f1 := frame_register c.cleanups
          exact ⟨fun u => f1.stages _, fun u => f1.forced _, fun u => f1.logged _, fun u => f1.dropped _, fun u => f1.excs _,
            fun u => f1.fails _, fun u => f1.lastExc _, fun u => f1.observers _⟩
        have h' : Run p w1 pre ((SName.cleanup i, c) :: expand n w1.u.nextCleanup w1.u.stack) := by
          rw [hw1]
          have := run_frame hfr h
          rw [hst] at this
          simpa [expand, hreg.1, hreg.2] using this
        simp only [← hw1]
        have hls := launch_stack (.cleanup i) c w1
        cases hs : statusOf c.beh with
        | completed r =>
          simp only []
          have hr := launch_completed h' r hs _ (noteOK_cleanup r) (isMain_cleanup i)
          apply runCleanups_cinv n _ _ (by simp only [updU_u, (noteCleanup_stack _ _).1, hls.1]; omega)
          simpa [(noteCleanup_stack _ _).1, (noteCleanup_stack _ _).2, hls.1, hls.2] using hr
        | pending =>
          simp only []
          have hp := launch_pending h' hs
          refine Or.inl (susp_of_pend hp _ (frame_pos .cleanup) rfl ?_ (by intro h; cases h))
          simp only [future, cleanupsOf, hls.1, hls.2]
          exact expand_fuel _ _ _ _ (by omega) (by omega)

theorem cleanUp_cinv {p : Prog} {w : W} {pre : List (SName × Stage)} (h : Run p w pre (cleanupsOf w.u)) :
    CInv p (cleanUp w) := runCleanups_cinv _ _ _ (Nat.lt_succ_self _) h

theorem startTearDown_cinv {p : Prog} {w : W} {pre : List (SName × Stage)}
    (h : Run p w pre ((SName.tearDown, p.tearDown) :: cleanupsOf (Chain.register p.tearDown.cleanups w.u))) :
    CInv p (startTearDown p w) := by
  have h' := run_frame (frame_register p.tearDown.cleanups) h
  have hls := launch_stack .tearDown p.tearDown (updU (Chain.register p.tearDown.cleanups) w)
  simp only [startTearDown]
  cases hs : statusOf p.tearDown.beh with
  | completed r =>
    simp only [afterTearDown]
    have hr := launch_completed h' r hs _ (noteOK_main r) rfl
    apply cleanUp_cinv
    rw [cleanupsOf_congr _ (Chain.register p.tearDown.cleanups w.u)
      (by simp [(noteMain_stack _ _).1, hls.1]) (by simp [(noteMain_stack _ _).2, hls.2])]
    exact hr
  | pending =>
    simp only []
    have hp := launch_pending h' hs
    refine Or.inl (susp_of_pend hp _ (frame_pos .tearDown) rfl ?_ (by intro h; cases h))
    simp only [future]
    exact cleanupsOf_congr _ _ (by simp [hls.1]) (by simp [hls.2])

theorem startBody_cinv {p : Prog} {w : W} {pre : List (SName × Stage)}
    (h : Run p w pre ((SName.body, p.body) :: (SName.tearDown, p.tearDown) ::
      cleanupsOf (Chain.register p.tearDown.cleanups (Chain.register p.body.cleanups w.u)))) :
    CInv p (startBody p w) := by
  have h' := run_frame (frame_register p.body.cleanups) h
  have hls := launch_stack .body p.body (updU (Chain.register p.body.cleanups) w)
  simp only [startBody]
  cases hs : statusOf p.body.beh with
  | completed r =>
    simp only [afterBody]
    have hr := launch_completed h' r hs _ (noteOK_main r) rfl
    apply startTearDown_cinv
    have hc := register_congr p.tearDown.cleanups
      (updU (Chain.noteMain r) (launch .body p.body (updU (Chain.register p.body.cleanups) w))).u
      (Chain.register p.body.cleanups w.u)
      (by simp [(noteMain_stack _ _).1, hls.1]) (by simp [(noteMain_stack _ _).2, hls.2])
    rw [cleanupsOf_congr _ _ hc.1 hc.2]
    exact hr
  | pending =>
    simp only []
    have hp := launch_pending h' hs
    refine Or.inl (susp_of_pend hp _ (frame_pos .body) rfl ?_ (by intro h; cases h))
    have hc := register_congr p.tearDown.cleanups
      ({ (launch .body p.body (updU (Chain.register p.body.cleanups) w)).u with pos := .body })
      (Chain.register p.body.cleanups w.u) (by simp [hls.1]) (by simp [hls.2])
    simp only [future]
    rw [cleanupsOf_congr _ _ hc.1 hc.2]

/-- the futures the chain has when `setUp` is over, by its result -/
theorem afterSetUp_cinv {p : Prog} {w : W} {pre : List (SName × Stage)} (r : Option Exc)
    (hr : r.isSome = true ↔ behOk p.setUp.beh = false)
    (h : ∀ f, NoteOK r true f → Run p (updU f w) pre
      (if behOk p.setUp.beh then
        (SName.body, p.body) :: (SName.tearDown, p.tearDown) ::
          cleanupsOf (Chain.register p.tearDown.cleanups (Chain.register p.body.cleanups w.u))
       else cleanupsOf w.u)) :
    CInv p (afterSetUp p r w) := by
  cases r with
  | some k =>
    have hb : behOk p.setUp.beh = false := hr.mp rfl
    have := h (Chain.noteMain (some k)) (noteOK_main _)
    simp only [hb, Bool.false_eq_true, if_false] at this
    simp only [afterSetUp]
    exact cleanUp_cinv this
  | none =>
    have hb : behOk p.setUp.beh = true := by
      cases hb' : behOk p.setUp.beh with
      | true => rfl
      | false => have := hr.mpr hb'; cases this
    have := h (Chain.noteMain none) (noteOK_main _)
    simp only [hb, if_true] at this
    simp only [afterSetUp]
    exact startBody_cinv this

theorem startSetUp_cinv {p : Prog} {w : W} (h : Run p w [] (path p)) (hs : w.u.stack = []) (hn : w.u.nextCleanup = 0) :
    CInv p (startSetUp p w) := by
  have hpath := path_eq p w.u hs hn
  have h0 : Run p w [] ((SName.setUp, p.setUp) ::
      (if behOk p.setUp.beh then
        (SName.body, p.body) :: (SName.tearDown, p.tearDown) ::
          cleanupsOf (Chain.register p.tearDown.cleanups
            (Chain.register p.body.cleanups (Chain.register p.setUp.cleanups w.u)))
       else cleanupsOf (Chain.register p.setUp.cleanups w.u))) := by
    rw [← hpath]; exact h
  have h' := run_frame (frame_register p.setUp.cleanups) h0
  have hls := launch_stack .setUp p.setUp (updU (Chain.register p.setUp.cleanups) w)
  -- the futures expressed by the chain state after the launch (same stack and counter)
  have hcongr : ∀ c' : Chain, c'.stack = (Chain.register p.setUp.cleanups w.u).stack →
      c'.nextCleanup = (Chain.register p.setUp.cleanups w.u).nextCleanup →
      (if behOk p.setUp.beh then
        (SName.body, p.body) :: (SName.tearDown, p.tearDown) ::
          cleanupsOf (Chain.register p.tearDown.cleanups (Chain.register p.body.cleanups c'))
       else cleanupsOf c') =
      (if behOk p.setUp.beh then
        (SName.body, p.body) :: (SName.tearDown, p.tearDown) ::
          cleanupsOf (Chain.register p.tearDown.cleanups
            (Chain.register p.body.cleanups (Chain.register p.setUp.cleanups w.u)))
       else cleanupsOf (Chain.register p.setUp.cleanups w.u)) := by
    intro c' h1 h2
    have hb := register_congr p.body.cleanups c' (Chain.register p.setUp.cleanups w.u) h1 h2
    have ht := register_congr p.tearDown.cleanups _ _ hb.1 hb.2
    rw [cleanupsOf_congr _ _ ht.1 ht.2, cleanupsOf_congr c' _ h1 h2]
  simp only [startSetUp]
  cases hst : statusOf p.setUp.beh with
  | completed r =>
    simp only []
    apply afterSetUp_cinv r
    · cases hb : p.setUp.beh <;> simp [statusOf, hb] at hst <;> subst hst <;> simp [behOk]
    · intro f hf
      have hr := launch_completed h' r hst f hf rfl
      rw [hcongr _ hls.1 hls.2]
      simpa using hr
  | pending =>
    simp only []
    have hp := launch_pending h' hst
    refine Or.inl (susp_of_pend hp _ (frame_pos .setUp) rfl ?_ (fun _ => rfl))
    simp only [future]
    exact (hcongr _ (by simp [hls.1]) (by simp [hls.2])).symm

theorem book_note {pre : List (SName × Stage)} {c : Chain} {r : Option Exc} {main : Bool} {f : Chain → Chain}
    (hf : NoteOK r main f) (h : Book pre c) (hr : r = some .ki → ∃ x ∈ pre, hasKI x.2.beh = true) : Book pre (f c) := by
  obtain ⟨k1, k2⟩ := ki_note (pre := pre) (c := c) hf
    (by
      rintro (hk | hk | hk)
      · exact h.kiSome (Or.inl hk)
      · exact h.kiSome (Or.inr hk)
      · exact hr hk)
    (fun x hx h1 h2 => Or.inl (h.kiMain x hx h1 h2))
  exact ⟨by rw [hf.forced]; exact h.forced, by rw [hf.logged]; exact h.logged, by rw [hf.dropped]; exact h.dropped,
   hf.excs c h.excs, by rw [hf.stages, hf.observers]; exact h.obs, k1, k2⟩

/-- **the pending stage's Deferred fires**: the chain resumes from a suspended state -/
theorem resume_cinv {p : Prog} {w0 : W} (hs : Susp p w0) (hi : Inv1 p w0) (t l : Nat) (r : Option Exc)
    (rest : List (DCall (QAct CAct))) (hc : w0.calls = ⟨t, .user l (.stageDone r)⟩ :: rest) (hdue : t ≤ w0.now) :
    CInv p (resume p r (logEvent (.user l) { w0 with calls := rest })) := by
  obtain ⟨pre, n, st, hpath, hlen, hseq, hasync, hpos, hsu, hsd, hnever, hbook, hfails, hunrec⟩ := hs.ex
  have hnow : t = w0.now := by
    have := hi.ge ⟨t, .user l (.stageDone r)⟩ (by rw [hc]; exact List.mem_cons_self)
    simp at this; omega
  -- the fired call is the one the chain waits for
  rw [hc] at hsd
  have hsd' : sdOf (⟨t, .user l (.stageDone r)⟩ :: rest) = (t, r) :: sdOf rest := rfl
  rw [hsd'] at hsd
  cases hov : overAt (some 0) (pre ++ [(n, st)]) w0.u.stages with
  | none => rw [hov] at hsd; cases hsd
  | some over =>
    rw [hov] at hsd
    simp only [List.cons.injEq, Prod.mk.injEq] at hsd
    obtain ⟨⟨hto, hres⟩, hrest⟩ := hsd
    have hdelay : delayOf st.beh ≠ none := by
      intro hd; rw [hnever hd] at hov; cases hov
    have hrok : r.isSome = true ↔ behOk st.beh = false := by
      rw [hres]
      cases hb : st.beh <;> simp [hb, isSync, delayOf] at hasync hdelay <;> simp [resOf, behOk]
    obtain ⟨wp, hwp⟩ : ∃ wp : W, wp = logEvent (.user l) { w0 with calls := rest } := ⟨_, rfl⟩
    have hwu : wp.u = w0.u := by rw [hwp]; rfl
    have hwsp : wp.sp = w0.sp := by rw [hwp]; rfl
    have hwnow : wp.now = w0.now := by rw [hwp]; rfl
    have hwcalls : wp.calls = rest := by rw [hwp]; rfl
    rw [← hwp]
    have hs0 := hi.sorted; rw [hc] at hs0
    have hrki : r = some .ki → ∃ x ∈ pre ++ [(n, st)], hasKI x.2.beh = true := by
      intro hk
      refine ⟨(n, st), by simp, ?_⟩
      rw [hres] at hk
      cases hb : st.beh <;> simp [hb, resOf] at hk
      subst hk; rfl
    have key : ∀ (main : Bool) f, NoteOK r main f → Run p (updU f wp) (pre ++ [(n, st)]) (future p w0.u) := by
      intro main f hf
      refine ⟨hpath, by simp [hf.stages, hwu, hlen], by simp [hf.stages, hwu, hseq],
        by simp [hf.stages, hwu, hov, hwnow, ← hnow, hto], by simp [hwcalls, hrest],
        by simpa [hwu] using book_note hf hbook hrki, ?_, by simpa [hwsp] using hunrec, ?_, ?_⟩
      · simp only [updU_u, hwu]
        rw [hf.fails]
        constructor
        · rintro (h1 | h1 | h1)
          · obtain ⟨x, hx, hx2⟩ := hfails.mp (Or.inl h1); exact ⟨x, List.mem_append_left _ hx, hx2⟩
          · obtain ⟨x, hx, hx2⟩ := hfails.mp (Or.inr h1); exact ⟨x, List.mem_append_left _ hx, hx2⟩
          · exact ⟨(n, st), by simp, hrok.mp h1⟩
        · rintro ⟨x, hx, hx2⟩
          rcases List.mem_append.mp hx with hx | hx
          · rcases hfails.mpr ⟨x, hx, hx2⟩ with h1 | h1
            · exact Or.inl h1
            · exact Or.inr (Or.inl h1)
          · simp only [List.mem_singleton] at hx
            subst hx
            exact Or.inr (Or.inr (hrok.mpr hx2))
      · -- the timeout call is still pending: we are strictly before the timeout and no stop request came earlier
        intro hp
        right
        simp only [updU_sp, hwsp] at hp
        simp only [updU_now, hwnow]
        constructor
        · have htc := hi.tcount
          rw [hp, hc, List.filter_cons_of_neg (by simp [QAct.isTimeout])] at htc
          simp only [if_true] at htc
          obtain ⟨x, hx⟩ := List.exists_mem_of_length_pos (by omega : 0 < (rest.filter (·.act.isTimeout)).length)
          obtain ⟨hx1, hx2⟩ := List.mem_filter.mp hx
          have := (hs0.head x hx1).2.1 rfl hx2
          have hxt := hi.ttime x (by rw [hc]; exact List.mem_cons_of_mem _ hx1) hx2
          simp at this; omega
        · intro s hs'
          rcases hi.stops s hs' with h1 | h1
          · have := hi.ge _ h1; simpa using this
          · omega
      · intro hp
        simp only [updU_sp, hwsp] at hp
        simp only [updU_now, hwnow, allSyncL_snoc, hasync, Bool.and_false, true_and]
        cases htc : w0.sp.tcall with
        | pending => exact absurd htc hp
        | unset => exact absurd htc hi.nounset
        | called => exact (hi.called htc).1
        | cancelled =>
          have := (hi.cancelled htc).1
          rw [hunrec] at this; cases this
    -- dispatch on where the chain was waiting
    simp only [resume, hwu]
    cases hpos' : w0.u.pos with
    | idle => rw [hpos'] at hpos; cases hpos
    | done => rw [hpos'] at hpos; cases hpos
    | setUp =>
      simp only []
      have hst := hsu hpos'
      apply afterSetUp_cinv r (by rw [← hst]; exact hrok)
      intro f hf
      have := key _ f hf
      simpa [future, hpos', hwu] using this
    | body =>
      simp only [afterBody]
      apply startTearDown_cinv
      have := key _ _ (noteOK_main r)
      have hcg := register_congr p.tearDown.cleanups (updU (Chain.noteMain r) wp).u w0.u
        (by simp [(noteMain_stack _ _).1, hwu]) (by simp [(noteMain_stack _ _).2, hwu])
      rw [cleanupsOf_congr _ _ hcg.1 hcg.2]
      simpa [future, hpos'] using this
    | tearDown =>
      simp only [afterTearDown]
      apply cleanUp_cinv
      have := key _ _ (noteOK_main r)
      rw [cleanupsOf_congr _ w0.u (by simp [(noteMain_stack _ _).1, hwu]) (by simp [(noteMain_stack _ _).2, hwu])]
      simpa [future, hpos'] using this
    | cleanup =>
      simp only [afterCleanup]
      apply cleanUp_cinv
      have := key _ _ (noteOK_cleanup r)
      rw [cleanupsOf_congr _ w0.u (by simp [(noteCleanup_stack _ _).1, hwu]) (by simp [(noteCleanup_stack _ _).2, hwu])]
      simpa [future, hpos'] using this

/-! ### the chain invariant through the loop -/

theorem future_congr (p : Prog) (c c' : Chain) (hpos : c.pos = c'.pos) (hs : c.stack = c'.stack)
    (hn : c.nextCleanup = c'.nextCleanup) : future p c = future p c' := by
  have h1 := register_congr p.body.cleanups c c' hs hn
  have h2 := register_congr p.tearDown.cleanups _ _ h1.1 h1.2
  have h3 := register_congr p.tearDown.cleanups c c' hs hn
  simp only [future, hpos, cleanupsOf_congr _ _ h2.1 h2.2, cleanupsOf_congr _ _ h3.1 h3.2, cleanupsOf_congr c c' hs hn]

theorem future_realStops (p : Prog) (c : Chain) (k j : Nat) (o : Bool) :
    future p { c with realStops := k, iter := j, over := o } = future p c :=
  future_congr p _ _ rfl rfl rfl

/-- a step that leaves the chain state (up to the stop counter, the iteration counter and the `over` flag, which is only ever
raised), the stage-firing calls, the recorded success and the state of the timeout call alone keeps the chain invariant -/
theorem cinv_congr {p : Prog} {w w' : W} (h : CInv p w) (k j : Nat) (o : Bool)
    (hu : w'.u = { w.u with realStops := k, iter := j, over := o }) (ho : w.u.over = true → o = true)
    (hsd : sdOf w'.calls = sdOf w.calls) (hsucc : w'.sp.success = w.sp.success) (htc : w'.sp.tcall = w.sp.tcall) : CInv p w' := by
  have hb : ∀ pre, Book pre w.u → Book pre w'.u := by
    intro pre hb; rw [hu]; exact ⟨hb.forced, hb.logged, hb.dropped, hb.excs, hb.obs, hb.kiMain, hb.kiSome⟩
  rcases h with h | h
  · obtain ⟨pre, n, st, h1, h2, h3, h4, h5, h6, h7, h8, h9, h10, h11⟩ := h.ex
    refine Or.inl ⟨pre, n, st, ?_, ?_, ?_, h4, ?_, ?_, ?_, ?_, hb _ h9, ?_, by rw [hsucc]; exact h11⟩
    · rw [hu, future_realStops]; exact h1
    · rw [hu]; exact h2
    · rw [hu]; exact h3
    · rw [hu]; exact h5
    · rw [hu]; exact h6
    · rw [hsd, hu]; exact h7
    · rw [hu]; exact h8
    · rw [hu]; exact h10
  · obtain ⟨pre, h1, h2, h3, h4, h5, h6, h7, h8, h9⟩ := h.ex
    refine Or.inr ⟨pre, h1, by rw [hu]; exact h2, by rw [hu]; exact h3, by rw [hsd]; exact h4, hb _ h5,
      by rw [hu]; exact h6, by rw [hu]; exact h7, ?_, ?_⟩
    · intro b hb'; rw [hsucc] at hb'; rw [hu]; exact h8 b hb'
    · intro hn; rw [hsucc] at hn
      rcases h9 hn with ⟨g1, g2⟩ | g
      · exact Or.inl ⟨by rw [htc]; exact g1, by rw [hu]; exact ho g2⟩
      · rw [hu]; exact Or.inr g

theorem realStops_self (c : Chain) : c = { c with realStops := c.realStops } := rfl

/-- `hearly`: once `Spinner.run` has left the loop with its timeout call still pending (an interrupt), the clock stands
still before the timeout instant -/
theorem cinv_pop {p : Prog} {w : W} (h : CInv p w) (hi : Inv1 p w)
    (hearly : w.u.over = true → w.sp.tcall = .pending → w.now < p.timeout)
    (c : DCall (QAct CAct)) (rest : List (DCall (QAct CAct)))
    (hc : w.calls = c :: rest) (hdue : c.time ≤ w.now) : CInv p (execCall (exec p) c { w with calls := rest }) := by
  rcases c with ⟨t, q⟩
  cases q with
  | timeout =>
    -- the timeout call was pending, and it is due
    have hp : w.sp.tcall = .pending := by
      cases htc' : w.sp.tcall with
      | pending => rfl
      | _ =>
        have htc := hi.tcount
        rw [hc, List.filter_cons_of_pos (by rfl)] at htc
        simp [htc'] at htc
    have hT : p.timeout ≤ w.now := by
      have := hi.ttime ⟨t, .timeout⟩ (by rw [hc]; exact List.mem_cons_self) rfl
      simp only at this hdue
      omega
    have hsdc : sdOf (execCall (exec p) ⟨t, .timeout⟩ { w with calls := rest }).calls = sdOf w.calls := by
      simp only [execCall, execTimeout_calls, hc]; rfl
    rcases h with h | h
    · obtain ⟨pre, n, st, h1, h2, h3, h4, h5, h6, h7, h8, h9, h10, h11⟩ := h.ex
      exact Or.inl ⟨pre, n, st, by simpa [execCall] using h1, by simpa [execCall] using h2, by simpa [execCall] using h3, h4,
        by simpa [execCall] using h5, by simpa [execCall] using h6, by rw [hsdc]; simpa [execCall] using h7,
        by simpa [execCall] using h8, by simpa [execCall] using h9, by simpa [execCall] using h10, by simpa [execCall] using h11⟩
    · obtain ⟨pre, h1, h2, h3, h4, h5, h6, h7, h8, h9⟩ := h.ex
      refine Or.inr ⟨pre, h1, by simpa [execCall] using h2, by simpa [execCall] using h3, by rw [hsdc]; exact h4,
        by simpa [execCall] using h5, by simpa [execCall] using h6, by simpa [execCall] using h7, ?_, ?_⟩
      · intro b hb'
        have hb'' : w.sp.success = some b := by simpa [execCall] using hb'
        simpa [execCall] using h8 b hb''
      · intro hn
        have hn' : w.sp.success = none := by simpa [execCall] using hn
        rcases h9 hn' with ⟨_, g2⟩ | g
        · have := hearly g2 hp; omega
        · exact Or.inr (by simpa [execCall] using g)
  | user l a =>
    cases a with
    | noop =>
      refine cinv_congr h w.u.realStops w.u.iter w.u.over rfl id ?_ rfl rfl
      simp only [execCall, exec, logEvent_calls, hc]; rfl
    | stop =>
      simp only [execCall, exec]
      split
      · refine cinv_congr h w.u.realStops w.u.iter w.u.over rfl id ?_ rfl rfl
        simp only [logEvent_calls, hc]; rfl
      · refine cinv_congr h (w.u.realStops + 1) w.u.iter w.u.over rfl id ?_ rfl rfl
        simp only [logEvent_calls, hc]; rfl
    | stageDone r =>
      rcases h with h | h
      · exact resume_cinv h hi t l r rest hc hdue
      · obtain ⟨_, _, _, _, h4, _⟩ := h.ex
        rw [hc] at h4
        cases h4

theorem cinv_now {p : Prog} {w : W} (h : CInv p w) (t : Nat) : CInv p { w with now := t } :=
  cinv_congr h w.u.realStops w.u.iter w.u.over rfl id rfl rfl rfl

/-- both invariants together, through `drain` and `spin` -/
def LInv (p : Prog) (w : W) : Prop := Inv1 p w ∧ CInv p w

/-- what popping and running one call leaves alone: the `over` flag, the clock; and it never makes the timeout call pending -/
theorem pop_frame2 {p : Prog} (w : W) (c : DCall (QAct CAct)) (rest : List (DCall (QAct CAct))) :
    (execCall (exec p) c { w with calls := rest }).u.over = w.u.over ∧
    (execCall (exec p) c { w with calls := rest }).now = w.now ∧
    ((execCall (exec p) c { w with calls := rest }).sp.tcall = .pending → w.sp.tcall = .pending) := by
  rcases c with ⟨t, q⟩
  cases q with
  | timeout => exact ⟨by simp [execCall], by simp [execCall], fun h => by simp [execCall] at h⟩
  | user l a =>
    cases a with
    | noop => exact ⟨rfl, rfl, id⟩
    | stop => simp only [execCall, exec]; split <;> exact ⟨rfl, rfl, id⟩
    | stageDone r =>
      obtain ⟨k, hk, _⟩ := resume_reach p r (logEvent (.user l) { w with calls := rest })
      exact Reach.inv (fun w' : W => w'.u.over = w.u.over ∧ w'.now = w.now ∧ (w'.sp.tcall = .pending → w.sp.tcall = .pending))
        (fun _ _ h => h) (fun w' f hf h => ⟨by rw [updU_u, (hf w'.u).2.2.2.2]; exact h.1, h.2.1, h.2.2⟩) (fun _ _ _ _ h => h)
        (fun w' b h => ⟨by simpa using h.1, by simpa using h.2.1, fun hp => by
          by_cases hp' : w'.sp.tcall = .pending
          · exact h.2.2 hp'
          · rw [deliver_of_not_pending _ _ hp'] at hp
            exact absurd (by simpa using hp) hp'⟩) hk ⟨rfl, rfl, id⟩

theorem linv_pop {p : Prog} (w : W) (c : DCall (QAct CAct)) (rest : List (DCall (QAct CAct))) (h : LInv p w)
    (hearly : w.u.over = true → w.sp.tcall = .pending → w.now < p.timeout)
    (hc : w.calls = c :: rest) (hd : c.time ≤ w.now) : LInv p (execCall (exec p) c { w with calls := rest }) :=
  ⟨inv1_pop h.1 c rest hc hd, cinv_pop h.2 h.1 hearly c rest hc hd⟩

theorem linv_nextIter {p : Prog} (w : W) (h : LInv p w) : LInv p (nextIter w) :=
  ⟨inv1_nextIter h.1, cinv_congr h.2 w.u.realStops (w.u.iter + 1) w.u.over rfl id rfl rfl rfl⟩

/-- the invariants during `_clean`'s iterations (the clock stands still) -/
def LInvE (p : Prog) (w : W) : Prop := LInv p w ∧ (w.u.over = true → w.sp.tcall = .pending → w.now < p.timeout)

theorem linv_iterate {p : Prog} (n : Nat) (w : W) (h : LInvE p w) : LInvE p (iterateB p n w) :=
  iterateB_inv p (LInvE p)
    (fun w c rest h hc hd => ⟨linv_pop w c rest h.1 h.2 hc hd, by
      obtain ⟨e1, e2, e3⟩ := pop_frame2 (p := p) w c rest
      intro ho hp; rw [e2]; rw [e1] at ho; exact h.2 ho (e3 hp)⟩)
    (fun w h => ⟨linv_nextIter w h.1, h.2⟩) n w h

/-- … and while `reactor.run()` runs -/
theorem linv_spin {p : Prog} (B n : Nat) (w : W) (h : LInv p w) (ho : w.u.over = false) :
    LInv p (spinB p B n w) ∧ (spinB p B n w).u.over = false :=
  spinB_inv p B (fun w => LInv p w ∧ w.u.over = false)
    (fun w c rest h hc hd => ⟨linv_pop w c rest h.1 (fun ho => by rw [h.2] at ho; cases ho) hc hd, by
      rw [(pop_frame2 (p := p) w c rest).1]; exact h.2⟩)
    (fun w h => ⟨linv_nextIter w h.1, h.2⟩)
    (fun _ c rest h hc hcr => ⟨⟨inv1_adv h.1.1 c rest hc hcr, cinv_now h.1.2 _⟩, h.2⟩) n w ⟨h, ho⟩

/-! ## the run: from the start of `Spinner.run` to the end of `_clean`'s iterations -/

/-- the state in which `_run_deferred` is called: interrupts scheduled, log fixtures installed, results
forgotten, timeout call scheduled, `reactor.stop` patched, reactor running -/
def entryW (p : Prog) : W :=
  let w := prepare p
  let w : W := { w with sp := { w.sp with success := none, failure := none } }
  let w := schedule (w.now + p.timeout) .timeout w
  { w with stopPatched := true, running := true, crashed := false,
           sp := { w.sp with tcall := .pending, spinning := true } }

theorem spinPhase_eq (p : Prog) :
    spinPhase p (prepare p) = spinB p (bound p) (bound p + 1) (startSetUp p (entryW p)) := rfl

theorem schedStops_spec : ∀ (stops : List Nat) (w : W),
    (schedStops stops w).now = w.now ∧ (schedStops stops w).u = w.u ∧ (schedStops stops w).sp = w.sp ∧
    (schedStops stops w).crashed = w.crashed ∧
    (∀ c, c ∈ (schedStops stops w).calls ↔ c ∈ w.calls ∨ ∃ s ∈ stops, c = ⟨w.now + s, .user 0 .stop⟩) ∧
    (SortedQ w.calls → (∀ x ∈ w.calls, bornOf x.act = 0) → SortedQ (schedStops stops w).calls) ∧
    (schedStops stops w).calls.length = w.calls.length + stops.length
  | [], w => by
      refine ⟨rfl, rfl, rfl, rfl, ?_, fun h _ => h, rfl⟩
      intro c; simp [schedStops]
  | s :: rest, w => by
      obtain ⟨h1, h2, h3, h4, h5, h6, h7⟩ := schedStops_spec rest (schedule (w.now + s) (.user 0 .stop) w)
      simp only [schedStops]
      refine ⟨h1, h2, h3, h4, ?_, ?_, ?_⟩
      · intro c
        rw [h5 c]
        simp only [schedule_calls, mem_insert, schedule_now, List.mem_cons, exists_eq_or_imp]
        constructor
        · rintro ((h | h) | h)
          · exact Or.inr (Or.inl h)
          · exact Or.inl h
          · exact Or.inr (Or.inr h)
        · rintro (h | h | h)
          · exact Or.inl (Or.inr h)
          · exact Or.inl (Or.inl h)
          · exact Or.inr h
      · intro hs hb0
        refine h6 (insert_sortedQ _ _ hs (fun ht => by cases ht) (fun x hx => by rw [hb0 x hx]; exact Nat.zero_le _)) ?_
        intro x hx
        rcases mem_insert.mp hx with rfl | hx
        · rfl
        · exact hb0 x hx
      · rw [h7]; simp [insert_length]; omega

theorem prepare_spec (p : Prog) :
    (prepare p).now = 0 ∧ (prepare p).u = { observers := (duringObs p).1 } ∧ (prepare p).sp = {} ∧
    (prepare p).crashed = false ∧
    (∀ c, c ∈ (prepare p).calls ↔ ∃ s ∈ p.stops, c = ⟨s, .user 0 .stop⟩) ∧ SortedQ (prepare p).calls ∧
    (prepare p).calls.length = p.stops.length := by
  obtain ⟨h1, h2, h3, h4, h5, h6, h7⟩ := schedStops_spec p.stops ({ u := { observers := (duringObs p).1 } } : W)
  refine ⟨h1, h2, h3, h4, ?_, h6 (by simp [SortedQ]) (by simp), by rw [prepare]; simpa using h7⟩
  intro c
  rw [prepare, h5 c]
  simp

theorem entry_inv1 (p : Prog) : Inv1 p (entryW p) := by
  obtain ⟨h1, h2, h3, h4, h5, h6, h7⟩ := prepare_spec p
  have hcalls : (entryW p).calls = Reactor.insert ⟨p.timeout, .timeout⟩ (prepare p).calls := by
    simp [entryW, h1]
  have hnot : ∀ x ∈ (prepare p).calls, x.act.isTimeout = false ∧ isSD x = false := by
    intro x hx
    obtain ⟨s, _, rfl⟩ := (h5 x).mp hx
    exact ⟨rfl, rfl⟩
  have hf0 : (prepare p).calls.filter (·.act.isTimeout) = [] :=
    List.filter_eq_nil_iff.mpr (fun x hx => by simp [(hnot x hx).1])
  have hborn0 : ∀ x ∈ (prepare p).calls, bornOf x.act = 0 := by
    intro x hx
    obtain ⟨s, _, rfl⟩ := (h5 x).mp hx
    rfl
  refine ⟨?_, ?_, ?_, ?_, ?_, ?_, ?_, ?_, ?_, ?_, ?_, ?_, ?_⟩
  · rw [hcalls]; exact insert_sortedQ _ _ h6 (fun _ x hx => (hnot x hx).2) (fun x hx => by rw [hborn0 x hx]; exact Nat.zero_le _)
  · intro c _; simp [entryW, h1]
  · intro c hc ht
    rw [hcalls] at hc
    rcases mem_insert.mp hc with rfl | hc
    · rfl
    · rw [(hnot c hc).1] at ht; cases ht
  · rw [hcalls, filter_insert_length, List.filter_cons_of_pos (by rfl), hf0]
    simp [entryW]
  · intro _; simp [entryW]
  · intro h; simp [entryW] at h
  · intro h; simp [entryW] at h
  · simp [entryW]
  · intro _; simp [entryW]
  · intro s hs
    left
    rw [hcalls]
    exact mem_insert.mpr (Or.inr ((h5 _).mpr ⟨s, hs, rfl⟩))
  · intro c hc l hcl
    rw [hcalls] at hc
    rcases mem_insert.mp hc with rfl | hc
    · cases hcl
    · obtain ⟨s, hs, rfl⟩ := (h5 c).mp hc
      exact hs
  · intro h; simp [entryW] at h
  · intro c hc
    rw [hcalls] at hc
    rcases mem_insert.mp hc with rfl | hc
    · exact Nat.zero_le _
    · rw [hborn0 c hc]; exact Nat.zero_le _

theorem entry_run (p : Prog) : Run p (entryW p) [] (path p) ∧ (entryW p).u.stack = [] ∧ (entryW p).u.nextCleanup = 0 := by
  obtain ⟨h1, h2, h3, h4, h5, h6, h7⟩ := prepare_spec p
  have hu : (entryW p).u = { observers := (duringObs p).1 } := by simp [entryW, h2]
  have hnow : (entryW p).now = 0 := by simp [entryW, h1]
  have hsd : sdOf (entryW p).calls = [] := by
    have : (entryW p).calls = Reactor.insert ⟨p.timeout, .timeout⟩ (prepare p).calls := by simp [entryW, h1]
    rw [this, sdOf_insert_other _ rfl]
    apply List.filterMap_eq_nil_iff.mpr
    intro x hx
    obtain ⟨s, _, rfl⟩ := (h5 x).mp hx
    rfl
  refine ⟨⟨by simp, by simp [hu], by simp [hu, seqOk], by simp [hu, overAt, hnow], hsd, ?_, by simp [hu],
    by simp [entryW], fun _ => Or.inl ⟨rfl, hnow⟩, fun h => by simp [entryW] at h⟩, by simp [hu], by simp [hu]⟩
  rw [hu]
  exact ⟨by simp [sidesOf], by simp [sidesOf, loggedLeft], by simp [sidesOf], by simp, by simp, by simp, by simp⟩

/-- a step of the chain never un-crashes the reactor, and crashes it only by recording a result -/
theorem reach_crashed {k : Nat} {w w' : W} (h : Reach k w w') :
    (w.crashed = true → w'.crashed = true) ∧ (w'.crashed = true → w.crashed = true ∨ w'.sp.success.isSome = true ∨ w.sp.tcall ≠ .pending) := by
  induction h with
  | refl w => exact ⟨id, Or.inl⟩
  | log n _ ih => exact ih
  | upd f _ _ ih => exact ih
  | sched d a ha _ ih => exact ih
  | deliv b _ ih =>
    rename_i k w w' hr
    refine ⟨fun hc => ih.1 (by simp [deliver, stopReactor_crashed, hc]; split <;> simp [stopReactor_crashed, hc]), ?_⟩
    intro hc
    by_cases hp : w.sp.tcall = .pending
    · right; left
      -- the result has been recorded; later steps of the chain keep it (no second `deliver` while pending)
      have hsucc : (deliver (.value b) w).sp.success = some b := by unfold deliver; simp [hp]
      have htc : (deliver (.value b) w).sp.tcall = .cancelled := by unfold deliver; simp [hp]
      have keep : ∀ {k : Nat} {w1 w2 : W}, Reach k w1 w2 → w1.sp.success = some b → w1.sp.tcall = .cancelled →
          w2.sp.success = some b := by
        intro k w1 w2 hr
        induction hr with
        | refl w => exact fun h _ => h
        | log n _ ih => exact ih
        | upd f _ _ ih => exact ih
        | sched d a ha _ ih => exact ih
        | deliv b' _ ih =>
          intro h1 h2
          rename_i w3 _ _
          have : deliver (.value b') w3 = stopReactor w3 := deliver_of_not_pending _ _ (by rw [h2]; simp)
          exact ih (by rw [this]; simpa using h1) (by rw [this]; simpa using h2)
      rw [keep hr hsucc htc]; rfl
    · exact Or.inr (Or.inr hp)

def startW (p : Prog) : W := startSetUp p (entryW p)

theorem start_linv (p : Prog) : LInv p (startW p) := by
  obtain ⟨k, hk, _⟩ := startSetUp_reach p (entryW p)
  obtain ⟨hr, hs, hn⟩ := entry_run p
  exact ⟨inv1_reach hk (entry_inv1 p), startSetUp_cinv hr hs hn⟩

theorem start_over (p : Prog) : (startW p).u.over = false := by
  obtain ⟨k, hk, _⟩ := startSetUp_reach p (entryW p)
  have h0 : (entryW p).u.over = false := by
    obtain ⟨_, h2, _⟩ := prepare_spec p
    simp [entryW, h2]
  exact Reach.inv (fun w : W => w.u.over = false) (fun _ _ h => h) (fun w f hf h => by rw [updU_u, (hf w.u).2.2.2.2]; exact h)
    (fun _ _ _ _ h => h) (fun w b h => by simpa using h) hk h0

theorem entry_calls_length (p : Prog) : (entryW p).calls.length = p.stops.length + 1 := by
  obtain ⟨h1, _, _, _, _, _, h7⟩ := prepare_spec p
  simp [entryW, insert_length, h7]

theorem start_pot (p : Prog) : pot p (startW p) ≤ bound p := by
  obtain ⟨k, hk, hk2⟩ := startSetUp_reach p (entryW p)
  have := reach_calls_length hk
  have hs := (entry_run p).2.1
  rw [entry_calls_length] at this
  simp only [hs, stackCalls, List.map_nil, List.sum_nil, Nat.add_zero] at hk2
  simp only [pot, startW, bound]
  omega

theorem start_crashed (p : Prog) (h : (startW p).crashed = true) : (startW p).sp.success.isSome = true := by
  obtain ⟨k, hk, _⟩ := startSetUp_reach p (entryW p)
  rcases (reach_crashed hk).2 h with h1 | h1 | h1
  · simp [entryW] at h1
  · exact h1
  · simp [entryW] at h1

/-- a recorded success stays recorded -/
def SInv (p : Prog) (b : Nat) (w : W) : Prop := Inv1 p w ∧ w.sp.success = some b

theorem sinv_pop {p : Prog} {b : Nat} {w : W} (h : SInv p b w) (c : DCall (QAct CAct)) (rest : List (DCall (QAct CAct)))
    (hc : w.calls = c :: rest) (hdue : c.time ≤ w.now) : SInv p b (execCall (exec p) c { w with calls := rest }) := by
  refine ⟨inv1_pop h.1 c rest hc hdue, ?_⟩
  have hnp : w.sp.tcall ≠ .pending := by
    intro hp; have := (h.1.pend hp).1; rw [h.2] at this; cases this
  rcases c with ⟨t, q⟩
  cases q with
  | timeout =>
    have htc := h.1.tcount
    rw [hc, List.filter_cons_of_pos (by rfl)] at htc
    simp [hnp] at htc
  | user l a =>
    cases a with
    | noop => exact h.2
    | stop => simp only [execCall, exec]; split <;> exact h.2
    | stageDone r =>
      obtain ⟨k, hk, _⟩ := resume_reach p r (logEvent (.user l) { w with calls := rest })
      have : (fun w : W => w.sp.tcall ≠ .pending ∧ w.sp.success = some b) (resume p r (logEvent (.user l) { w with calls := rest })) :=
        Reach.inv (fun w : W => w.sp.tcall ≠ .pending ∧ w.sp.success = some b) (fun _ _ h => h) (fun _ _ _ h => h)
          (fun _ _ _ _ h => h)
          (fun w b' h => by
            rw [deliver_of_not_pending _ _ h.1]
            exact ⟨by simpa using h.1, by simpa using h.2⟩) hk ⟨hnp, h.2⟩
      exact this.2

theorem sinv_nextIter {p : Prog} {b : Nat} (w : W) (h : SInv p b w) : SInv p b (nextIter w) :=
  ⟨inv1_nextIter h.1, h.2⟩

theorem sinv_iterate {p : Prog} {b : Nat} (n : Nat) (w : W) (h : SInv p b w) : SInv p b (iterateB p n w) :=
  iterateB_inv p (SInv p b) (fun _ c rest h hc hd => sinv_pop h c rest hc hd) sinv_nextIter n w h

theorem sinv_spin {p : Prog} {b : Nat} (B n : Nat) (w : W) (h : SInv p b w) : SInv p b (spinB p B n w) :=
  spinB_inv p B (SInv p b) (fun _ c rest h hc hd => sinv_pop h c rest hc hd) sinv_nextIter
    (fun _ c rest h hc hcr => ⟨inv1_adv h.1 c rest hc hcr, h.2⟩) n w h

/-- the timeout has fired: it stays fired (a late result is not recorded) -/
def TInv (p : Prog) (w : W) : Prop := Inv1 p w ∧ w.sp.tcall = .called

theorem tinv_pop {p : Prog} {w : W} (h : TInv p w) (c : DCall (QAct CAct)) (rest : List (DCall (QAct CAct)))
    (hc : w.calls = c :: rest) (hdue : c.time ≤ w.now) : TInv p (execCall (exec p) c { w with calls := rest }) := by
  refine ⟨inv1_pop h.1 c rest hc hdue, ?_⟩
  have hnp : w.sp.tcall ≠ .pending := by rw [h.2]; simp
  rcases c with ⟨t, q⟩
  cases q with
  | timeout =>
    have htc := h.1.tcount
    rw [hc, List.filter_cons_of_pos (by rfl)] at htc
    simp [hnp] at htc
  | user l a =>
    cases a with
    | noop => exact h.2
    | stop => simp only [execCall, exec]; split <;> exact h.2
    | stageDone r =>
      obtain ⟨k, hk, _⟩ := resume_reach p r (logEvent (.user l) { w with calls := rest })
      exact Reach.inv (fun w : W => w.sp.tcall = .called) (fun _ _ h => h) (fun _ _ _ h => h)
          (fun _ _ _ _ h => h)
          (fun w b' h => by
            rw [deliver_of_not_pending _ _ (by rw [h]; simp)]
            simpa using h) hk h.2

theorem tinv_iterate {p : Prog} (n : Nat) (w : W) (h : TInv p w) : TInv p (iterateB p n w) :=
  iterateB_inv p (TInv p) (fun _ c rest h hc hd => tinv_pop h c rest hc hd) (fun _ h => ⟨inv1_nextIter h.1, h.2⟩) n w h

theorem crashed_pop {p : Prog} {w : W} (h : w.crashed = true) (c : DCall (QAct CAct)) (rest : List (DCall (QAct CAct))) :
    (execCall (exec p) c { w with calls := rest }).crashed = true := by
  rcases c with ⟨t, q⟩
  cases q with
  | timeout => simp [execCall, execTimeout, stopReactor_crashed, h]
  | user l a =>
    cases a with
    | noop => exact h
    | stop => simp only [execCall, exec]; split <;> rfl
    | stageDone r =>
      obtain ⟨k, hk, _⟩ := resume_reach p r (logEvent (.user l) { w with calls := rest })
      exact (reach_crashed hk).1 h

theorem crashed_iterate {p : Prog} (n : Nat) (w : W) (h : w.crashed = true) : (iterateB p n w).crashed = true :=
  iterateB_inv p (fun w => w.crashed = true) (fun _ c rest h _ _ => crashed_pop h c rest) (fun _ h => h) n w h

/-- the `finally:` of `Spinner.run` (the loop has ended by a crash) -/
theorem linv_flags {p : Prog} {w : W} (h : LInv p w) (hcr : w.crashed = true) (a b : Bool) :
    LInv p { w with running := a, stopPatched := b, sp := { w.sp with spinning := false }, u := { w.u with over := true } } :=
  ⟨⟨h.1.sorted, h.1.ge, h.1.ttime, h.1.tcount, h.1.pend, h.1.called, h.1.cancelled, h.1.nounset,
    (fun hc => by rw [show w.crashed = true from hcr] at hc; cases hc), h.1.stops,
    h.1.stopcalls, h.1.cause, h.1.born⟩, cinv_congr h.2 w.u.realStops w.u.iter true rfl (fun _ => rfl) rfl rfl rfl⟩

/-! ### properties of the chain's state alone, through the calls the reactor runs -/

theorem pop_uinv {p : Prog} (P : W → Prop)
    (hlog : ∀ (w : W) (n : SName), P w → P (updU (Chain.log n w.now w.running) w))
    (hfr : ∀ w w' : W, w'.u.stages = w.u.stages → w'.u.live = w.u.live → w'.u.observers = w.u.observers →
      w'.running = w.running → w'.sels = w.sels → P w → P w')
    {w : W} (h : P w) (c : DCall (QAct CAct)) (rest : List (DCall (QAct CAct))) :
    P (execCall (exec p) c { w with calls := rest }) := by
  rcases c with ⟨t, q⟩
  cases q with
  | timeout => exact hfr w _ (by simp [execCall]) (by simp [execCall]) (by simp [execCall]) (by simp [execCall]) (by simp [execCall]) h
  | user l a =>
    cases a with
    | noop => exact hfr w _ rfl rfl rfl rfl rfl h
    | stop => simp only [execCall, exec]; split <;> exact hfr w _ rfl rfl rfl rfl rfl h
    | stageDone r =>
      obtain ⟨k, hk, _⟩ := resume_reach p r (logEvent (.user l) { w with calls := rest })
      exact Reach.inv P hlog
        (fun w f hf h => hfr w _ (hf w.u).2.2.1 (hf w.u).2.2.2.1 (hf w.u).1 rfl rfl h)
        (fun w _ _ _ h => hfr w _ rfl rfl rfl rfl rfl h)
        (fun w b h => hfr w _ (by simp) (by simp) (by simp) (by simp) (by simp) h) hk (hfr w _ rfl rfl rfl rfl rfl h)

/-- while `reactor.run()` runs: every logged stage was started by the running reactor -/
def Live1 (w : W) : Prop := w.running = true ∧ w.u.live.length = w.u.stages.length ∧ w.u.live.all id = true

theorem live1_frame (w w' : W) (h1 : w'.u.stages = w.u.stages) (h2 : w'.u.live = w.u.live) (h3 : w'.running = w.running)
    (h : Live1 w) : Live1 w' := by
  unfold Live1; rw [h1, h2, h3]; exact h

theorem live1_log (w : W) (n : SName) (h : Live1 w) : Live1 (updU (Chain.log n w.now w.running) w) := by
  obtain ⟨h1, h2, h3⟩ := h
  refine ⟨h1, ?_, ?_⟩
  · simp [Chain.log, h2]
  · simp only [updU_u, Chain.log, List.all_append, h3, h1]; rfl

theorem live1_pop {p : Prog} {w : W} (h : Live1 w) (c : DCall (QAct CAct)) (rest : List (DCall (QAct CAct))) :
    Live1 (execCall (exec p) c { w with calls := rest }) :=
  pop_uinv Live1 live1_log (fun w w' h1 h2 _ h3 _ h => live1_frame w w' h1 h2 h3 h) h c rest

/-- during `_clean`'s iterations: the log only grows -/
def Live2 (l0 : List Bool) (w : W) : Prop := w.u.live.length = w.u.stages.length ∧ ∃ extra, w.u.live = l0 ++ extra

theorem live2_pop {p : Prog} {l0 : List Bool} {w : W} (h : Live2 l0 w) (c : DCall (QAct CAct)) (rest : List (DCall (QAct CAct))) :
    Live2 l0 (execCall (exec p) c { w with calls := rest }) :=
  pop_uinv (Live2 l0)
    (fun w n h => by
      obtain ⟨h1, extra, h2⟩ := h
      refine ⟨by simp [Chain.log, h1], extra ++ [w.running], ?_⟩
      simp [Chain.log, h2])
    (fun w w' h1 h2 _ _ _ h => by unfold Live2; rw [h1, h2]; exact h) h c rest

/-! ### what never changes during a run: no selectables, the log observers -/

def Static (p : Prog) (w : W) : Prop := w.sels = [] ∧ w.u.observers = (duringObs p).1

theorem static_pop {p : Prog} {w : W} (h : Static p w) (c : DCall (QAct CAct)) (rest : List (DCall (QAct CAct))) :
    Static p (execCall (exec p) c { w with calls := rest }) :=
  pop_uinv (Static p) (fun w n h => ⟨h.1, by simpa [Chain.log] using h.2⟩)
    (fun w w' _ _ h1 _ h2 h => ⟨by rw [h2]; exact h.1, by rw [h1]; exact h.2⟩) h c rest

theorem static_reach {p : Prog} {k : Nat} {w w' : W} (hr : Reach k w w') (h : Static p w) : Static p w' :=
  Reach.inv (Static p) (fun w n h => ⟨h.1, by simpa [Chain.log] using h.2⟩) (fun w f hf h => ⟨h.1, by simp [(hf w.u).1, h.2]⟩)
    (fun _ _ _ _ h => h) (fun w b h => ⟨by simpa using h.1, by simpa using h.2⟩) hr h

/-! ### the state when `reactor.run()` returns, and after `_clean`'s iterations -/

theorem start_static (p : Prog) : Static p (startW p) := by
  have h0 : Static p (entryW p) := by
    obtain ⟨_, h2, _⟩ := prepare_spec p
    have hs : (prepare p).sels = [] := by
      have : ∀ (stops : List Nat) (w : W), (schedStops stops w).sels = w.sels := by
        intro stops; induction stops with
        | nil => intro w; rfl
        | cons s rest ih => intro w; simp only [schedStops]; rw [ih]; rfl
      rw [prepare, this]
    exact ⟨by simpa [entryW] using hs, by simp [entryW, h2]⟩
  obtain ⟨k, hk, _⟩ := startSetUp_reach p (entryW p)
  exact static_reach hk h0

theorem start_live (p : Prog) : Live1 (startW p) := by
  have h0 : Live1 (entryW p) := by
    obtain ⟨_, h2, _⟩ := prepare_spec p
    exact ⟨rfl, by simp [entryW, h2], by simp [entryW, h2]⟩
  obtain ⟨k, hk, _⟩ := startSetUp_reach p (entryW p)
  exact Reach.inv Live1 live1_log (fun w f hf h => live1_frame w _ (hf w.u).2.2.1 (hf w.u).2.2.2.1 rfl h)
    (fun w _ _ _ h => live1_frame w _ rfl rfl rfl h)
    (fun w b h => live1_frame w _ (by simp) (by simp) (by simp) h) hk h0

/-- when `reactor.run()` has returned -/
structure SpinEnd (p : Prog) (w : W) : Prop where
  linv : LInv p w
  crashed : w.crashed = true
  static : Static p w
  lenLive : w.u.live.length = w.u.stages.length
  allLive : w.u.live.all id = true
  noDue : w.sp.success = none → NoDue w
  early : w.sp.tcall = .pending → w.now < p.timeout

theorem spin_end (p : Prog) : SpinEnd p (afterSpin p) := by
  have hS := start_linv p
  have hE : LInv p (spinPhase p (prepare p)) := by rw [spinPhase_eq]; exact (linv_spin _ _ _ hS (start_over p)).1
  obtain ⟨hd1, hd2, _⟩ := spinB_done p (bound p) (bound p + 1) (startW p) hS.1 (start_pot p) (by have := start_pot p; omega)
  have hsp : spinB p (bound p) (bound p + 1) (startW p) = spinPhase p (prepare p) := (spinPhase_eq p).symm
  rw [hsp] at hd1 hd2
  have hcrE : (spinPhase p (prepare p)).crashed = true := by
    rcases hd1 with h | h
    · exact h
    · cases hcr : (spinPhase p (prepare p)).crashed with
      | true => rfl
      | false =>
        have htc := hE.1.tcount
        rw [(hE.1.alive hcr).1, h] at htc
        simp at htc
  have hA : LInv p (afterSpin p) := linv_flags hE hcrE false false
  have hst : Static p (spinPhase p (prepare p)) := by
    rw [spinPhase_eq]
    exact spinB_inv p _ (Static p) (fun _ c rest h _ _ => static_pop h c rest) (fun _ h => h) (fun _ _ _ h _ _ => h) _ _
      (start_static p)
  have hlv : Live1 (spinPhase p (prepare p)) := by
    rw [spinPhase_eq]
    exact spinB_inv p _ Live1 (fun _ c rest h _ _ => live1_pop h c rest) (fun _ h => h) (fun _ _ _ h _ _ => h) _ _
      (start_live p)
  have hnoDue : (afterSpin p).sp.success = none → NoDue (afterSpin p) := ?_
  · refine ⟨hA, hcrE, hst, hlv.2.1, hlv.2.2, hnoDue, ?_⟩
    -- an interrupted run: the timeout call is still queued and was not due
    intro hp
    have hnd := hnoDue (hA.1.pend hp).1
    have htc := hA.1.tcount
    rw [hp] at htc
    simp only [if_true] at htc
    obtain ⟨x, hx⟩ := List.exists_mem_of_length_pos (by omega : 0 < ((afterSpin p).calls.filter (·.act.isTimeout)).length)
    obtain ⟨hx1, hx2⟩ := List.mem_filter.mp hx
    have hge := hA.1.ge x hx1
    have htt := hA.1.ttime x hx1 hx2
    have hel : eligible (afterSpin p).u.iter x = true := by
      rcases x with ⟨t, a⟩
      cases a with
      | timeout => rfl
      | user l a => simp [QAct.isTimeout] at hx2
    have : ¬ x.time ≤ (afterSpin p).now := fun h => hnd x hx1 ⟨h, hel⟩
    omega
  intro hnone
  -- no success recorded: the chain was suspended when the loop started, so the loop ran and was drained
  have hstart : (startW p).crashed = false := by
    cases hcr : (startW p).crashed with
    | false => rfl
    | true =>
      exfalso
      obtain ⟨b, hb⟩ := Option.isSome_iff_exists.mp (start_crashed p hcr)
      have hsS : SInv p b (startW p) := ⟨hS.1, hb⟩
      have hsE : SInv p b (spinPhase p (prepare p)) := by
        rw [spinPhase_eq]
        exact sinv_spin _ _ _ hsS
      have : (afterSpin p).sp.success = some b := hsE.2
      rw [this] at hnone; cases hnone
  have hne : (startW p).calls ≠ [] := by
    intro he
    have htc := hS.1.tcount
    rw [(hS.1.alive hstart).1, he] at htc
    simp at htc
  exact (hd2 hstart hne).1

/-- after `_clean`'s iterations -/
structure IterEnd (p : Prog) (w : W) : Prop where
  linve : LInvE p w
  crashed : w.crashed = true
  static : Static p w
  live : Live2 (afterSpin p).u.live w
  succ : ∀ b, (afterSpin p).sp.success = some b → w.sp.success = some b
  called : (afterSpin p).sp.tcall = .called → w.sp.tcall = .called
  now : w.now = (afterSpin p).now

theorem iterate_now (p : Prog) (n : Nat) (w : W) : (iterateB p n w).now = w.now := by
  have : ∀ n (w : W), (drainB p n w).now = w.now := by
    intro n
    induction n with
    | zero => intro w; rfl
    | succ n ih =>
      intro w
      unfold drainB
      split
      · rfl
      · split
        · rename_i c rest hc hd
          rw [ih]
          rcases c with ⟨t, q⟩
          cases q with
          | timeout => simp [execCall]
          | user l a =>
            cases a with
            | noop => rfl
            | stop => simp only [execCall, exec]; split <;> rfl
            | stageDone r =>
              obtain ⟨k, hk, _⟩ := resume_reach p r (logEvent (.user l) { w with calls := rest })
              exact Reach.inv (fun w' : W => w'.now = w.now) (fun _ _ h => h) (fun _ _ _ h => h) (fun _ _ _ _ h => h)
                (fun w' b h => by simpa using h) hk rfl
        · rfl
  exact this n (nextIter w)

theorem iterEnd_step {p : Prog} {w : W} (n : Nat) (h : IterEnd p w) : IterEnd p (iterateB p n w) := by
  refine ⟨linv_iterate n w h.linve, crashed_iterate n w h.crashed, ?_, ?_, ?_, ?_, by rw [iterate_now]; exact h.now⟩
  · exact iterateB_inv p (Static p) (fun _ c rest h _ _ => static_pop h c rest) (fun _ h => h) n w h.static
  · exact iterateB_inv p (Live2 _) (fun _ c rest h _ _ => live2_pop h c rest) (fun _ h => h) n w h.live
  · intro b hb
    exact (sinv_iterate n w ⟨h.linve.1.1, h.succ b hb⟩).2
  · intro hc
    exact (tinv_iterate n w ⟨h.linve.1.1, h.called hc⟩).2

theorem iter_end (p : Prog) : IterEnd p (afterIter p) := by
  have hs := spin_end p
  have h0 : IterEnd p (afterSpin p) :=
    ⟨⟨hs.linv, fun _ => hs.early⟩, hs.crashed, hs.static, ⟨hs.lenLive, [], by simp⟩, fun _ h => h, id, rfl⟩
  unfold afterIter; split
  · exact iterEnd_step _ (iterEnd_step _ h0)
  · exact h0

/-! ### the log fixtures put the observers back -/

theorem removeAll_spec (obs : List Nat) (hnd : obs.Nodup) : removeAll obs = ([], obs) := by
  -- generalised: removing the observers `r.reverse` (last first) from `pre ++ r.reverse`
  have key : ∀ (r pre acc : List Nat), (pre ++ r.reverse).Nodup →
      r.foldl (fun (a : List Nat × List Nat) o => (a.1.erase o, o :: a.2)) (pre ++ r.reverse, acc) = (pre, r.reverse ++ acc) := by
    intro r
    induction r with
    | nil => intro pre acc _; simp
    | cons x r ih =>
      intro pre acc hnd
      rw [List.reverse_cons] at hnd ⊢
      rw [List.foldl_cons]
      have hnd' : ((pre ++ r.reverse) ++ [x]).Nodup := by rw [List.append_assoc]; exact hnd
      have hx : x ∉ pre ++ r.reverse := by
        intro hx
        exact (List.nodup_append.mp hnd').2.2 x hx x (by simp) rfl
      have herase : (pre ++ (r.reverse ++ [x])).erase x = pre ++ r.reverse := by
        rw [← List.append_assoc, List.erase_append_right _ hx]
        simp
      simp only [herase]
      rw [ih pre (x :: acc) (List.nodup_append.mp hnd').1]
      simp
  have := key obs.reverse [] [] (by simpa using hnd)
  simpa [removeAll] using this

theorem reAdd_spec (obs cs : List Nat) : reAdd obs cs = obs ++ cs := by
  induction cs generalizing obs with
  | nil => simp [reAdd]
  | cons c rest ih => simp only [reAdd, List.foldl_cons] at ih ⊢; rw [ih]; simp

theorem erase_snoc_new (l : List Nat) (x : Nat) (h : x ∉ l) : (l ++ [x]).erase x = l := by
  rw [List.erase_append_right _ h]; simp

theorem afterObs_eq (p : Prog) : afterObs p = List.range p.nObs := by
  have hnd : (List.range p.nObs).Nodup := List.nodup_range
  have h1 : p.nObs ∉ List.range p.nObs := by simp
  have h2 : p.nObs + 1 ∉ List.range p.nObs := by simp
  simp only [afterObs, duringObs]
  cases hs : p.suppress <;> cases hst : p.store <;>
    simp [removeAll_spec _ hnd, reAdd_spec, erase_snoc_new, h1, h2, List.erase_append_right]

theorem duringObs_length (p : Prog) : (duringObs p).1.length = duringCount p := by
  have hnd : (List.range p.nObs).Nodup := List.nodup_range
  simp only [duringObs, duringCount]
  cases hs : p.suppress <;> cases hst : p.store <;> simp [removeAll_spec _ hnd]

/-! ## what the final state means -/

theorem result_cases {p : Prog} {w : W} (h : Inv1 p w) :
    (w.sp.tcall = .pending ∧ w.sp.success = none ∧ getResult w.sp = .noresult) ∨
    (w.sp.tcall = .called ∧ w.sp.success = none ∧ getResult w.sp = .timeout) ∨
    (w.sp.tcall = .cancelled ∧ ∃ b, w.sp.success = some b ∧ getResult w.sp = .value b) := by
  cases htc : w.sp.tcall with
  | unset => exact absurd htc h.nounset
  | pending =>
    obtain ⟨h1, h2⟩ := h.pend htc
    exact Or.inl ⟨rfl, h1, by simp [getResult, h1, h2]⟩
  | called =>
    obtain ⟨_, h2, h3, _⟩ := h.called htc
    exact Or.inr (Or.inl ⟨rfl, h3, by simp [getResult, h2]⟩)
  | cancelled =>
    obtain ⟨h1, h2⟩ := h.cancelled htc
    obtain ⟨b, hb⟩ := Option.isSome_iff_exists.mp h1
    exact Or.inr (Or.inr ⟨rfl, b, hb, by simp [getResult, h2, hb]⟩)

theorem mem_sdOf {q : List (DCall (QAct CAct))} {t : Nat} {r : Option Exc} (h : (t, r) ∈ sdOf q) :
    ∃ c ∈ q, c.time = t := by
  simp only [sdOf, List.mem_filterMap] at h
  obtain ⟨c, hc, hm⟩ := h
  refine ⟨c, hc, ?_⟩
  split at hm
  · injection hm with hm; injection hm with hm _
  · cases hm

theorem sdOf_of_mem {q : List (DCall (QAct CAct))} {c : DCall (QAct CAct)} (hc : c ∈ q) (h : isSD c = true) : sdOf q ≠ [] := by
  intro hq
  have : ∀ x ∈ q, (match x.act with | .user _ (.stageDone r) => some (x.time, r) | _ => none) = none :=
    List.filterMap_eq_nil_iff.mp hq
  have := this c hc
  rcases c with ⟨t, a⟩
  cases a with
  | timeout => simp [isSD] at h
  | user l a => cases a <;> simp [isSD] at h this

/-- the meaning of the final state, by the stages `pre` that ran (`fut`: those that did not) -/
structure FinalSem (p : Prog) (pre fut : List (SName × Stage)) : Prop where
  path : path p = pre ++ fut
  len : pre.length = (afterIter p).u.stages.length
  seq : seqOk pre (afterIter p).u.stages (some 0) = true
  book : Book pre (afterIter p).u
  cases : (∃ b, getResult (afterSpin p).sp = .value b) ∨ getResult (afterSpin p).sp = .timeout ∨
    getResult (afterSpin p).sp = .noresult
  /-- `Spinner.run` returned the chain's verdict -/
  value : ∀ b, getResult (afterSpin p).sp = .value b →
    fut = [] ∧ (afterIter p).u.live.length = (afterIter p).u.stages.length ∧ (afterIter p).u.live.all id = true ∧
    InTimeP p pre (afterIter p).u.stages ∧ b = (if (afterIter p).u.fails then 0 else 1) ∧
    ((afterIter p).u.fails = true ↔ (∃ x ∈ pre, behOk x.2.beh = false) ∨ (afterIter p).u.forced = true) ∧
    ∀ c ∈ (afterIter p).calls, isLeftover c = true
  /-- it raised `TimeoutError` -/
  timeout : getResult (afterSpin p).sp = .timeout →
    (∀ s ∈ p.stops, p.timeout ≤ s) ∧ allSyncL pre = false ∧
    ∀ over, overAt (some 0) pre (afterIter p).u.stages = some over → p.timeout ≤ over
  /-- it raised `NoResultError` -/
  noresult : getResult (afterSpin p).sp = .noresult → ∃ s ∈ p.stops, s < p.timeout

theorem final_sem (p : Prog) : ∃ pre fut, FinalSem p pre fut := by
  have hs := spin_end p
  have he := iter_end p
  have hi := he.linve.1.1
  -- what the chain's state after the iterations says
  have hcommon : ∃ pre fut, path p = pre ++ fut ∧ pre.length = (afterIter p).u.stages.length ∧
      seqOk pre (afterIter p).u.stages (some 0) = true ∧ Book pre (afterIter p).u ∧
      (∀ b, (afterIter p).sp.success = some b → fut = [] ∧ InTimeP p pre (afterIter p).u.stages ∧
        b = (if (afterIter p).u.fails then 0 else 1) ∧
        ((afterIter p).u.fails = true ↔ (∃ x ∈ pre, behOk x.2.beh = false) ∨ (afterIter p).u.forced = true) ∧
        sdOf (afterIter p).calls = []) ∧
      ((afterIter p).sp.tcall = .called → allSyncL pre = false ∧
        ∀ over, overAt (some 0) pre (afterIter p).u.stages = some over → p.timeout ≤ over) := by
    rcases he.linve.1.2 with hc | hc
    · obtain ⟨pre0, n, st, h1, h2, h3, h4, h5, h6, h7, h8, h9, h10, h11⟩ := hc.ex
      refine ⟨pre0 ++ [(n, st)], future p (afterIter p).u, h1, h2, h3, h9, ?_, ?_⟩
      · intro b hb; rw [h11] at hb; cases hb
      · intro hcalled
        refine ⟨by rw [allSyncL_snoc, h4]; simp, ?_⟩
        intro over ho
        rw [ho] at h7
        obtain ⟨c, hc1, hc2⟩ := mem_sdOf (t := over) (r := resOf st.beh) (by rw [h7]; simp)
        have := hi.ge c hc1
        have := (hi.called hcalled).1
        omega
    · obtain ⟨pre, h1, h2, h3, h4, h5, h6, h7, h8, h9⟩ := hc.ex
      refine ⟨pre, [], by simpa using h1, h2, h3, h5, ?_, ?_⟩
      · intro b hb
        exact ⟨rfl, (h8 b hb).2, (h8 b hb).1, h7, h4⟩
      · intro hcalled
        rcases h9 (hi.called hcalled).2.2.1 with ⟨hp, _⟩ | ⟨hsync, over, ho, hle⟩
        · rw [hcalled] at hp; cases hp
        refine ⟨hsync, ?_⟩
        intro over' ho'
        rw [ho] at ho'; injection ho' with ho'; omega
  obtain ⟨pre, fut, c1, c2, c3, c4, c5, c6⟩ := hcommon
  refine ⟨pre, fut, c1, c2, c3, c4, ?_, ?_, ?_, ?_⟩
  · rcases result_cases hs.linv.1 with h | h | h
    · exact Or.inr (Or.inr h.2.2)
    · exact Or.inr (Or.inl h.2.2)
    · obtain ⟨b, _, hb⟩ := h.2
      exact Or.inl ⟨b, hb⟩
  · intro b hb
    have hsuccS : (afterSpin p).sp.success = some b := by
      rcases result_cases hs.linv.1 with h | h | h
      · rw [h.2.2] at hb; cases hb
      · rw [h.2.2] at hb; cases hb
      · obtain ⟨b', hb1, hb2⟩ := h.2
        rw [hb2] at hb; injection hb with hb; subst hb; exact hb1
    have hsucc : (afterIter p).sp.success = some b := he.succ b hsuccS
    obtain ⟨d1, d2, d3, d4, d5⟩ := c5 b hsucc
    -- the chain was over when `reactor.run()` returned: the iterations log nothing
    have hlenS : (afterSpin p).u.stages.length = (Spec.C14.path p).length := by
      rcases hs.linv.2 with hc | hc
      · obtain ⟨_, _, _, _, _, _, _, _, _, _, _, _, _, h11⟩ := hc.ex
        rw [h11] at hsuccS; cases hsuccS
      · obtain ⟨pre', h1, h2, _⟩ := hc.ex
        rw [h1, h2]
    obtain ⟨hl1, extra, hl2⟩ := he.live
    have hextra : extra = [] := by
      have : (afterIter p).u.live.length = (afterSpin p).u.live.length + extra.length := by rw [hl2]; simp
      have h3 : (Spec.C14.path p).length = pre.length := by rw [c1, d1]; simp
      have h4 := hs.lenLive
      exact List.eq_nil_of_length_eq_zero (by omega)
    refine ⟨d1, hl1, ?_, d2, d3, d4, ?_⟩
    · rw [hl2, hextra, List.append_nil]; exact hs.allLive
    · intro c hc
      have hnp : (afterIter p).sp.tcall ≠ .pending := by
        intro hp; have := (hi.pend hp).1; rw [hsucc] at this; cases this
      have htc := hi.tcount
      simp only [hnp, if_false, List.length_eq_zero_iff] at htc
      have hnt : c.act.isTimeout = false := by
        cases hto : c.act.isTimeout with
        | false => rfl
        | true =>
          have : c ∈ (afterIter p).calls.filter (·.act.isTimeout) := List.mem_filter.mpr ⟨hc, hto⟩
          rw [htc] at this; cases this
      have hnsd : isSD c = false := by
        cases hsd : isSD c with
        | false => rfl
        | true => exact absurd d5 (sdOf_of_mem hc hsd)
      rcases c with ⟨t, a⟩
      cases a with
      | timeout => simp [QAct.isTimeout] at hnt
      | user l a => cases a <;> simp [isSD] at hnsd <;> rfl
  · intro ht
    have hcalledS : (afterSpin p).sp.tcall = .called := by
      rcases result_cases hs.linv.1 with h | h | h
      · rw [h.2.2] at ht; cases ht
      · exact h.1
      · obtain ⟨b', _, hb2⟩ := h.2
        rw [hb2] at ht; cases ht
    exact ⟨(hs.linv.1.called hcalledS).2.2.2, c6 (he.called hcalledS)⟩
  · intro hn
    have hS := hs.linv.1
    have hpend : (afterSpin p).sp.tcall = .pending ∧ (afterSpin p).sp.success = none := by
      rcases result_cases hS with h | h | h
      · exact ⟨h.1, h.2.1⟩
      · rw [h.2.2] at hn; cases hn
      · obtain ⟨b', _, hb2⟩ := h.2
        rw [hb2] at hn; cases hn
    have hnd := hs.noDue hpend.2
    rcases hS.cause hs.crashed with h1 | h1 | ⟨s, hs1, hs2⟩
    · rw [hpend.1] at h1; cases h1
    · rw [hpend.2] at h1; cases h1
    · refine ⟨s, hs1, ?_⟩
      have htc := hS.tcount
      rw [hpend.1] at htc
      simp only [if_true] at htc
      obtain ⟨x, hx⟩ := List.exists_mem_of_length_pos (by omega : 0 < ((afterSpin p).calls.filter (·.act.isTimeout)).length)
      obtain ⟨hx1, hx2⟩ := List.mem_filter.mp hx
      have hge := hS.ge x hx1
      have htt := hS.ttime x hx1 hx2
      have hne : ¬ (x.time ≤ (afterSpin p).now ∧ eligible (afterSpin p).u.iter x = true) := hnd x hx1
      have hel : eligible (afterSpin p).u.iter x = true := by
        rcases x with ⟨t, a⟩
        cases a with
        | timeout => rfl
        | user l a => simp [QAct.isTimeout] at hx2
      have : ¬ x.time ≤ (afterSpin p).now := fun h => hne ⟨h, hel⟩
      omega

/-! ## the spec's vocabulary in terms of the stages that ran -/

theorem spec_terms (p : Prog) (t : Trace) (pre fut : List (SName × Stage)) (hp : path p = pre ++ fut)
    (hl : pre.length = t.stages.length) :
    ranStages p t = pre.map (·.2) ∧ (complete p t = true ↔ fut = []) ∧
    (lastBeforeTimeout p t = true ↔
      (allSyncL pre = true ∨ ∃ over, overAt (some 0) pre t.stages = some over ∧ over < p.timeout)) ∧
    sidesRan p t = sidesOf pre ∧ cSequential p t = seqOk pre t.stages (some 0) ∧
    (path p).take t.stages.length = pre ∧ overAt (some 0) (path p) t.stages = overAt (some 0) pre t.stages := by
  have htake : (path p).take t.stages.length = pre := by rw [hp, ← hl, List.take_left']; rfl
  have hran : ranStages p t = pre.map (·.2) := by
    simp only [ranStages, htake]
  have hov := (seqOk_append_path pre fut t.stages (some 0) hl)
  refine ⟨hran, ?_, ?_, ?_, ?_, htake, by rw [hp, hov.2]⟩
  · simp only [complete, hp, List.length_append, ← hl, beq_iff_eq]
    constructor
    · intro h; exact List.eq_nil_of_length_eq_zero (by omega)
    · intro h; simp [h]
  · simp only [lastBeforeTimeout, hran, hp, hov.2, Bool.or_eq_true, allSyncL, List.all_map]
    constructor
    · rintro (h | h)
      · exact Or.inl h
      · right
        cases ho : overAt (some 0) pre t.stages with
        | none => rw [ho] at h; cases h
        | some over =>
          rw [ho] at h
          exact ⟨over, rfl, by simpa using h⟩
    · rintro (h | ⟨over, ho, h1⟩)
      · exact Or.inl h
      · right
        rw [ho]
        simpa using h1
  · simp only [sidesRan, hran, sidesOf, List.map_map]
    rfl
  · simp only [cSequential, hp, hov.1]

/-! ## `_run_core`'s accounting -/

theorem outcomeOf_err_tail (xs ys : List Exc) (hy : ∀ y ∈ ys, y = Exc.err) : outcomeOf (xs ++ [.err] ++ ys) = .error := by
  unfold outcomeOf
  split
  · rfl
  · simp only [List.reverse_append, List.reverse_cons, List.reverse_nil, List.nil_append, List.append_assoc]
    cases hr : ys.reverse with
    | nil => simp
    | cons y r =>
      have : y = .err := hy y (by rw [← List.mem_reverse, hr]; exact List.mem_cons_self)
      subst this
      simp

theorem isOutcome_outcomeOf (xs : List Exc) : isOutcome (outcomeOf xs) = true ∧ outcomeOf xs ≠ .success := by
  unfold outcomeOf
  split
  · simp [isOutcome]
  · split <;> simp [isOutcome]

theorem outcomeOf_ki (xs : List Exc) (h : xs.contains .ki = true) : outcomeOf xs = .error := by
  unfold outcomeOf; rw [if_pos h]

theorem account_value (b : Nat) (excs : List Exc) (logged dropped : Nat) (junk : Bool) :
    (account (.value b) excs logged dropped junk).stopReq = false ∧
    ((account (.value b) excs logged dropped junk).successful = true ↔ b = 1 ∧ logged = 0 ∧ dropped = 0 ∧ junk = false) ∧
    ((account (.value b) excs logged dropped junk).excs = [] ↔ excs = [] ∧ logged = 0 ∧ dropped = 0 ∧ junk = false) := by
  by_cases h1 : logged > 0 <;> by_cases h2 : dropped > 0 <;> cases junk <;>
    simp [account, h1, h2] <;> omega

theorem account_ki (r : Res) (excs : List Exc) (logged dropped : Nat) (junk : Bool) :
    Exc.ki ∈ (account r excs logged dropped junk).excs ↔ Exc.ki ∈ excs := by
  cases r <;> by_cases h1 : logged > 0 <;> by_cases h2 : dropped > 0 <;> cases junk <;>
    simp [account, h1, h2, List.mem_replicate]

theorem account_other (r : Res) (hr : ∀ b, r ≠ .value b) (excs : List Exc) (logged dropped : Nat) (junk : Bool) :
    (account r excs logged dropped junk).successful = false ∧ (account r excs logged dropped junk).excs ≠ [] ∧
    outcomeOf (account r excs logged dropped junk).excs = .error ∧
    (account r excs logged dropped junk).stopReq = (r == .noresult) := by
  have key : ∀ sr : Bool, (
      let (excs1, successful, unhandled, stopReq) : List Exc × Bool × Nat × Bool := (excs ++ [Exc.err], false, 0, sr)
      let (excs2, successful) : List Exc × Bool :=
        if logged > 0 then (excs1 ++ List.replicate logged .err, false) else (excs1, successful)
      let (excs3, successful) : List Exc × Bool :=
        if unhandled > 0 then (excs2 ++ List.replicate unhandled .err, false) else (excs2, successful)
      let (excs4, successful) : List Exc × Bool :=
        if junk then (excs3 ++ [.err], false) else (excs3, successful)
      successful = false ∧ excs4 ≠ [] ∧ outcomeOf excs4 = .error) := by
    intro sr
    by_cases h1 : logged > 0 <;> cases junk <;> simp only [h1, if_true, if_false, Nat.lt_irrefl, Bool.false_eq_true]
    · refine ⟨trivial, by simp, ?_⟩
      have := outcomeOf_err_tail excs (List.replicate logged .err) (by
        intro y hy; exact (List.mem_replicate.mp hy).2)
      simpa [List.append_assoc] using this
    · refine ⟨trivial, by simp, ?_⟩
      have := outcomeOf_err_tail excs (List.replicate logged .err ++ [.err]) (by
        intro y hy; simp only [List.mem_append, List.mem_replicate, List.mem_singleton] at hy
        rcases hy with ⟨_, h⟩ | h <;> exact h)
      simpa [List.append_assoc] using this
    · refine ⟨trivial, by simp, ?_⟩
      have := outcomeOf_err_tail excs [] (by simp)
      simpa using this
    · refine ⟨trivial, by simp, ?_⟩
      have := outcomeOf_err_tail excs [.err] (by simp)
      simpa [List.append_assoc] using this
  cases r with
  | value b => exact absurd rfl (hr b)
  | noresult => exact ⟨(key true).1, (key true).2.1, (key true).2.2, rfl⟩
  | raised e => exact ⟨(key false).1, (key false).2.1, (key false).2.2, rfl⟩
  | timeout => exact ⟨(key false).1, (key false).2.1, (key false).2.2, rfl⟩
  | reentry => exact ⟨(key false).1, (key false).2.1, (key false).2.2, rfl⟩
  | stalejunk => exact ⟨(key false).1, (key false).2.1, (key false).2.2, rfl⟩
  | rejected => exact ⟨(key false).1, (key false).2.1, (key false).2.2, rfl⟩

/-! ## the clauses of the executable spec hold of the model's trace -/

/-- the account `_run_core` draws up at the end: what `Spinner.run` returned or raised (decided before `_clean`'s
iterations) and the chain's state after them -/
def finalAccount (p : Prog) : Account :=
  account (getResult (afterSpin p).sp) (afterIter p).u.excs (afterIter p).u.logged (afterIter p).u.dropped
    (!(leftovers (afterIter p)).isEmpty)

theorem model_fields (p : Prog) :
    (model p).events = [.startTest] ++ outcomeEvents (finalAccount p) ++ [.stopTest] ∧
    (model p).stopRequested = (finalAccount p).stopReq ∧ (model p).raised = (finalAccount p).excs.contains .ki ∧
    (model p).stages = (afterIter p).u.stages ∧
    (model p).leftover = ((afterIter p).calls.filter isLeftover).length ∧ (model p).pending = 0 ∧
    (model p).obsRestored = (afterObs p == List.range p.nObs) ∧ (model p).live = (afterIter p).u.live :=
  ⟨rfl, rfl, rfl, rfl, rfl, rfl, rfl, rfl⟩

/-- exactly one outcome, and which -/
theorem events_shape (p : Prog) (pre fut : List (SName × Stage)) (hf : FinalSem p pre fut) :
    ∃ X, (model p).events = [.startTest, X, .stopTest] ∧ isOutcome X = true ∧
      (X = .success ↔ (finalAccount p).successful = true) ∧
      ((∀ b, getResult (afterSpin p).sp ≠ .value b) → X = .error) ∧
      ((finalAccount p).excs.contains .ki = true → X = .error) := by
  rw [(model_fields p).1]
  by_cases hv : ∃ b, getResult (afterSpin p).sp = .value b
  · obtain ⟨b, hb⟩ := hv
    obtain ⟨_, _, _, _, hb1, _, _⟩ := hf.value b hb
    obtain ⟨_, a2, a3⟩ := account_value b (afterIter p).u.excs (afterIter p).u.logged (afterIter p).u.dropped
      (!(leftovers (afterIter p)).isEmpty)
    have hb1' : b = 1 ↔ (afterIter p).u.excs = [] := by
      have := hf.book.excs
      cases hfl : (afterIter p).u.fails with
      | true =>
        rw [hfl] at hb1 this
        simp only [if_true] at hb1
        constructor
        · intro h; omega
        · intro h; exact absurd h (this.mpr rfl)
      | false =>
        rw [hfl] at hb1 this
        simp only [Bool.false_eq_true, if_false] at hb1
        constructor
        · intro _
          cases hex : (afterIter p).u.excs with
          | nil => rfl
          | cons a l => have := this.mp (by rw [hex]; simp); cases this
        · intro _; exact hb1
    have hiff : (finalAccount p).successful = true ↔ (finalAccount p).excs = [] := by
      simp only [finalAccount, hb]
      rw [a2, a3, hb1']
    simp only [outcomeEvents]
    by_cases hs : (finalAccount p).successful = true
    · have he := hiff.mp hs
      refine ⟨.success, by simp [hs, he], rfl, by simp [hs], fun h => absurd hb (h b), fun h => ?_⟩
      rw [he] at h; cases h
    · have he : (finalAccount p).excs ≠ [] := fun h => hs (hiff.mpr h)
      have hs' : (finalAccount p).successful = false := by simpa using hs
      obtain ⟨o1, o2⟩ := isOutcome_outcomeOf (finalAccount p).excs
      refine ⟨outcomeOf (finalAccount p).excs, ?_, o1, ?_, fun h => absurd hb (h b), outcomeOf_ki _⟩
      · simp [hs', he]
      · constructor
        · intro h; exact absurd h o2
        · intro h; rw [hs'] at h; cases h
  · have hv' : ∀ b, getResult (afterSpin p).sp ≠ .value b := fun b hb => hv ⟨b, hb⟩
    obtain ⟨o1, o2, o3, _⟩ := account_other _ hv' (afterIter p).u.excs (afterIter p).u.logged (afterIter p).u.dropped
      (!(leftovers (afterIter p)).isEmpty)
    refine ⟨.error, ?_, rfl, ?_, fun _ => rfl, fun _ => rfl⟩
    · simp only [outcomeEvents, finalAccount, o1, Bool.false_eq_true, if_false, List.nil_append]
      have : (account (getResult (afterSpin p).sp) (afterIter p).u.excs (afterIter p).u.logged (afterIter p).u.dropped
          (!(leftovers (afterIter p)).isEmpty)).excs.isEmpty = false := by
        cases he : (account (getResult (afterSpin p).sp) (afterIter p).u.excs (afterIter p).u.logged (afterIter p).u.dropped
          (!(leftovers (afterIter p)).isEmpty)).excs with
        | nil => exact absurd he o2
        | cons _ _ => rfl
      simp [this, o3]
    · constructor
      · intro h; cases h
      · intro h; simp only [finalAccount] at h; rw [o1] at h; cases h

theorem outcome_of_shape {t : Trace} {X : Ev} (h : t.events = [.startTest, X, .stopTest]) : outcome t = some X := by
  simp [outcome, h]

theorem leftovers_empty_iff (w : W) (hs : w.sels = []) : (leftovers w).isEmpty = true ↔ w.calls = [] := by
  simp only [leftovers, hs, List.map_nil, List.append_nil, List.isEmpty_iff, List.map_eq_nil_iff]

/-- the value case: what the recorded success and the chain state say about the stages that ran -/
theorem value_meaning (p : Prog) (pre fut : List (SName × Stage)) (hf : FinalSem p pre fut) (b : Nat)
    (hres : getResult (afterSpin p).sp = .value b) :
    ((finalAccount p).successful = true ↔
      ((pre.map (·.2)).all (fun st => behOk st.beh) = true ∧ (sidesOf pre).contains .expect = false ∧
       loggedLeft (sidesOf pre) = 0 ∧ (sidesOf pre).contains .dropfailed = false ∧
       ((afterIter p).calls.filter isLeftover).length = 0)) := by
  obtain ⟨_, _, _, _, hb1, hfails, hleft⟩ := hf.value b hres
  obtain ⟨_, a2, _⟩ := account_value b (afterIter p).u.excs (afterIter p).u.logged (afterIter p).u.dropped
    (!(leftovers (afterIter p)).isEmpty)
  simp only [finalAccount, hres]
  rw [a2]
  have hb1' : b = 1 ↔ (afterIter p).u.fails = false := by
    cases hfl : (afterIter p).u.fails <;> simp [hfl] at hb1 ⊢ <;> omega
  have hfails' : (afterIter p).u.fails = false ↔
      ((pre.map (·.2)).all (fun st => behOk st.beh) = true ∧ (sidesOf pre).contains .expect = false) := by
    rw [← hf.book.forced]
    constructor
    · intro h
      have hn : ¬ ((∃ x ∈ pre, behOk x.2.beh = false) ∨ (afterIter p).u.forced = true) := by
        intro h'; have := hfails.mpr h'; rw [h] at this; cases this
      refine ⟨?_, by cases hfo : (afterIter p).u.forced with | false => rfl | true => exact absurd (Or.inr hfo) hn⟩
      simp only [List.all_map, List.all_eq_true]
      intro x hx
      cases hok : behOk x.2.beh with
      | true => simpa using hok
      | false => exact absurd (Or.inl ⟨x, hx, hok⟩) hn
    · rintro ⟨h1, h2⟩
      cases hfl : (afterIter p).u.fails with
      | false => rfl
      | true =>
        rcases hfails.mp hfl with ⟨x, hx, hok⟩ | h
        · simp only [List.all_map, List.all_eq_true] at h1
          have := h1 x hx; simp [hok] at this
        · rw [h2] at h; cases h
  have hjunk : (!(leftovers (afterIter p)).isEmpty) = false ↔ ((afterIter p).calls.filter isLeftover).length = 0 := by
    have hse := (iter_end p).static.1
    have hall : (afterIter p).calls.filter isLeftover = (afterIter p).calls :=
      List.filter_eq_self.mpr hleft
    rw [hall]
    simp only [Bool.not_eq_false', leftovers_empty_iff _ hse, List.length_eq_zero_iff]
  rw [hb1', hfails', hf.book.logged, hf.book.dropped, hjunk]
  constructor
  · rintro ⟨⟨h1, h2⟩, h3, h4, h5⟩; exact ⟨h1, h2, h3, h4, h5⟩
  · rintro ⟨h1, h2, h3, h4, h5⟩; exact ⟨⟨h1, h2⟩, h3, h4, h5⟩

/-- in time, in the spec's sense ⇔ `Spinner.run` returned the chain's verdict -/
theorem inTime_iff (p : Prog) (pre fut : List (SName × Stage)) (hf : FinalSem p pre fut) :
    inTime p (model p) = true ↔ ∃ b, getResult (afterSpin p).sp = .value b := by
  obtain ⟨m1, m2, m3, m4, m5, m6, m7, m8⟩ := model_fields p
  have hlen : pre.length = (model p).stages.length := by rw [m4]; exact hf.len
  obtain ⟨t1, t2, t3, t4, t5, t6, t7⟩ := spec_terms p (model p) pre fut hf.path hlen
  simp only [inTime, Bool.and_eq_true, Bool.not_eq_true']
  constructor
  · rintro ⟨⟨⟨hc, hl⟩, hb⟩, hsr⟩
    rcases hf.cases with h | h | h
    · exact h
    · exfalso
      obtain ⟨_, h2, h3⟩ := hf.timeout h
      rcases t3.mp hb with hb | ⟨over, ho, hlt⟩
      · rw [h2] at hb; cases hb
      · rw [m4] at ho
        have := h3 over ho; omega
    · exfalso
      have hnv : ∀ b, getResult (afterSpin p).sp ≠ .value b := fun b hb => by rw [h] at hb; cases hb
      obtain ⟨_, _, _, o4⟩ := account_other _ hnv (afterIter p).u.excs (afterIter p).u.logged (afterIter p).u.dropped
        (!(leftovers (afterIter p)).isEmpty)
      rw [m2] at hsr
      simp only [finalAccount] at hsr
      rw [o4, h] at hsr
      cases hsr
  · rintro ⟨b, hb⟩
    obtain ⟨v1, v2, v3, v4, _⟩ := hf.value b hb
    refine ⟨⟨⟨t2.mpr v1, ?_⟩, ?_⟩, ?_⟩
    · simp only [allLive, Bool.and_eq_true, beq_iff_eq, m8, m4]
      exact ⟨v2, v3⟩
    · apply t3.mpr
      obtain ⟨over, ho, h | h⟩ := v4
      · exact Or.inl h.1
      · exact Or.inr ⟨over, by rw [m4]; exact ho, h.1⟩
    · rw [m2]
      simp only [finalAccount, hb]
      exact (account_value b _ _ _ _).1

/-- **Headline.** The executable specification holds of the model's trace, for every program. -/
theorem holds_model (p : Prog) : holds p (model p) = true := by
  obtain ⟨pre, fut, hf⟩ := final_sem p
  obtain ⟨X, hX1, hX2, hX3, hX4, hX5⟩ := events_shape p pre fut hf
  obtain ⟨m1, m2, m3, m4, m5, m6, m7, m8⟩ := model_fields p
  have hlen : pre.length = (model p).stages.length := by rw [m4]; exact hf.len
  obtain ⟨t1, t2, t3, t4, t5, t6, t7⟩ := spec_terms p (model p) pre fut hf.path hlen
  have hout := outcome_of_shape hX1
  have hin := inTime_iff p pre fut hf
  simp only [holds, clauses, List.all_cons, List.all_nil, Bool.and_true, Bool.and_eq_true]
  refine ⟨?_, ?_, ?_, ?_, ?_, ?_⟩
  · -- bracket
    simp [cBracket, hX1, hX2]
  · -- sequential
    rw [t5, m4]; exact hf.seq
  · -- success-iff
    simp only [cSuccessIff, hout, t1, t4, m5]
    by_cases hrec : ∃ b, getResult (afterSpin p).sp = .value b
    · obtain ⟨b, hb⟩ := hrec
      have hv := value_meaning p pre fut hf b hb
      have hi' : inTime p (model p) = true := hin.mpr ⟨b, hb⟩
      rw [hi']
      have hl : (some X == some Ev.success) = true ↔ (finalAccount p).successful = true := by
        rw [← hX3]; simp
      have hr : (true && ((pre.map (·.2)).all fun st => behOk st.beh) && !(sidesOf pre).contains Side.expect
          && loggedLeft (sidesOf pre) == 0 && !(sidesOf pre).contains Side.dropfailed
          && ((afterIter p).calls.filter isLeftover).length == 0) = true ↔ (finalAccount p).successful = true := by
        rw [hv]
        simp only [Bool.true_and, Bool.and_eq_true, Bool.not_eq_true', beq_iff_eq, and_assoc]
      rw [Bool.eq_iff_iff.mpr (hl.trans hr.symm)]
      simp
    · have hi' : inTime p (model p) = false := by
        cases h : inTime p (model p) with
        | false => rfl
        | true => exact absurd (hin.mp h) hrec
      have hXe : X = .error := hX4 (fun b hb => hrec ⟨b, hb⟩)
      simp [hi', hXe]
  · -- timeout-interrupt
    simp only [cTimeoutInterrupt, hout, m2, Bool.and_eq_true, Bool.or_eq_true, Bool.not_eq_true', beq_iff_eq]
    refine ⟨⟨?_, ?_⟩, ?_⟩
    · by_cases hrec : ∃ b, getResult (afterSpin p).sp = .value b
      · exact Or.inl (hin.mpr hrec)
      · exact Or.inr (by rw [hX4 (fun b hb => hrec ⟨b, hb⟩)])
    · cases hsr : (finalAccount p).stopReq with
      | false => exact Or.inl rfl
      | true =>
        right
        rcases hf.cases with ⟨b, hb⟩ | h | h
        · have := (account_value b (afterIter p).u.excs (afterIter p).u.logged (afterIter p).u.dropped
            (!(leftovers (afterIter p)).isEmpty)).1
          simp only [finalAccount, hb] at hsr
          rw [this] at hsr; cases hsr
        · have hnv : ∀ b, getResult (afterSpin p).sp ≠ .value b := fun b hb => by rw [h] at hb; cases hb
          obtain ⟨_, _, _, o4⟩ := account_other _ hnv (afterIter p).u.excs (afterIter p).u.logged (afterIter p).u.dropped
            (!(leftovers (afterIter p)).isEmpty)
          simp only [finalAccount] at hsr
          rw [o4, h] at hsr; cases hsr
        · obtain ⟨s, hs1, hs2⟩ := hf.noresult h
          exact List.any_eq_true.mpr ⟨s, hs1, by simpa using hs2⟩
    · cases hsr : (finalAccount p).stopReq with
      | true => exact Or.inr rfl
      | false =>
        left
        rw [List.any_eq_false]
        intro s hs1 hint
        simp only [interruptedFor, Bool.and_eq_true, decide_eq_true_eq, Bool.or_eq_true, Bool.not_eq_true'] at hint
        obtain ⟨hlt, hint⟩ := hint
        rcases hf.cases with ⟨b, hb⟩ | h | h
        · obtain ⟨v1, _, _, ⟨over, ho, hcase⟩, _⟩ := hf.value b hb
          have hcomp : complete p (model p) = true := t2.mpr v1
          rw [hcomp, t7, m4, ho] at hint
          rcases hint with hint | hint
          · cases hint
          · have hint : s < over := by simpa using hint
            rcases hcase with ⟨_, h0⟩ | ⟨_, hall⟩
            · omega
            · have := hall s hs1; omega
        · have := (hf.timeout h).1 s hs1; omega
        · have hnv : ∀ b, getResult (afterSpin p).sp ≠ .value b := fun b hb => by rw [h] at hb; cases hb
          obtain ⟨_, _, _, o4⟩ := account_other _ hnv (afterIter p).u.excs (afterIter p).u.logged (afterIter p).u.dropped
            (!(leftovers (afterIter p)).isEmpty)
          simp only [finalAccount] at hsr
          rw [o4, h] at hsr; cases hsr
  · -- clean-after
    have hobs : ∀ e ∈ (model p).stages, e.2.2 = duringCount p := by
      intro e he
      rw [m4] at he
      rw [hf.book.obs e he, (iter_end p).static.2, duringObs_length]
    simp only [cCleanAfter, m6, m7, afterObs_eq, beq_self_eq_true, Bool.and_true, Bool.true_and, List.all_eq_true, beq_iff_eq]
    exact hobs
  · -- unclaimed
    have hki : (model p).raised = true ↔ Exc.ki ∈ (afterIter p).u.excs := by
      rw [m3]
      simp only [finalAccount, List.contains_eq_mem, decide_eq_true_eq]
      exact account_ki _ _ _ _ _
    simp only [cUnclaimed, hout, t1, t6, Bool.and_eq_true, Bool.or_eq_true, Bool.not_eq_true', beq_iff_eq]
    refine ⟨⟨?_, ?_⟩, ?_⟩
    · cases hr : (model p).raised with
      | false => exact Or.inl rfl
      | true =>
        right
        rw [hX5 (by rw [← m3]; exact hr)]
    · cases hr : (model p).raised with
      | true => exact Or.inr rfl
      | false =>
        left
        rw [List.any_eq_false]
        intro x hx hm
        simp only [Bool.and_eq_true, beq_iff_eq] at hm
        have := hki.mpr (hf.book.kiMain x hx hm.1 hm.2)
        rw [hr] at this; cases this
    · cases hr : (model p).raised with
      | false => exact Or.inl rfl
      | true =>
        right
        obtain ⟨x, hx1, hx2⟩ := hf.book.kiSome (Or.inl (hki.mp hr))
        exact List.any_eq_true.mpr ⟨x.2, List.mem_map.mpr ⟨x, hx1, rfl⟩, hx2⟩

/-! # The property theorems -/

theorem clauses_hold (p : Prog) :
    cBracket p (model p) = true ∧ cSequential p (model p) = true ∧ cSuccessIff p (model p) = true ∧
    cTimeoutInterrupt p (model p) = true ∧ cCleanAfter p (model p) = true ∧ cUnclaimed p (model p) = true := by
  have := holds_model p
  simpa [holds, clauses] using this

/-- **C14 (bracket).**  Exactly one outcome is reported between `startTest` and `stopTest` —
for every program, timeout, interrupt, runner variant and logging option. -/
theorem C14_bracket (p : Prog) :
    ∃ X, (model p).events = [.startTest, X, .stopTest] ∧ isOutcome X = true := by
  have h := (clauses_hold p).1
  simp only [cBracket] at h
  split at h
  · rename_i x heq
    exact ⟨x, heq, h⟩
  · cases h

/-- names of the stages that ran = a prefix of the path's names; no stage starts before its predecessor is over -/
theorem seqOk_reading : ∀ (pth : List (SName × Stage)) (log : List (SName × Nat × Nat)) (e : Option Nat),
    seqOk pth log e = true →
    (∃ fut, pth.map (·.1) = log.map (·.1) ++ fut) ∧
    (∀ e0, e = some e0 → ∀ x ∈ log, e0 ≤ x.2.1) ∧
    (∀ i (h1 : i + 1 < log.length) (h2 : i < pth.length),
      ∃ d, delayOf pth[i].2.beh = some d ∧ log[i].2.1 + d ≤ log[i + 1].2.1)
  | pth, [], _, _ => ⟨⟨pth.map (·.1), by simp⟩, by simp, by simp⟩
  | [], _ :: _, _, h => by simp [seqOk] at h
  | _ :: _, _ :: _, none, h => by simp [seqOk] at h
  | (n, st) :: pth, (n', t, o) :: log, some e, h => by
      simp only [seqOk, Bool.and_eq_true, beq_iff_eq, decide_eq_true_eq] at h
      obtain ⟨⟨hn, hle⟩, hrest⟩ := h
      obtain ⟨⟨fut, hf⟩, ih2, ih3⟩ := seqOk_reading pth log _ hrest
      refine ⟨⟨fut, by simp [hn, hf]⟩, ?_, ?_⟩
      · intro e0 he0 x hx
        injection he0 with he0; subst he0
        rcases List.mem_cons.mp hx with rfl | hx
        · exact hle
        · -- later stages start even later
          cases hd : delayOf st.beh with
          | none =>
            rw [hd] at hrest
            cases log with
            | nil => cases hx
            | cons y ys => cases pth <;> simp [seqOk] at hrest
          | some d =>
            rw [hd] at ih2
            have := ih2 (t + d) rfl x hx
            omega
      · intro i h1 h2
        cases i with
        | zero =>
          cases log with
          | nil => simp at h1
          | cons y ys =>
            cases hd : delayOf st.beh with
            | none => rw [hd] at hrest; cases pth <;> simp [seqOk] at hrest
            | some d =>
              rw [hd] at ih2
              have := ih2 (t + d) rfl y List.mem_cons_self
              exact ⟨d, by simpa using hd, by simpa using this⟩
        | succ i =>
          have := ih3 i (by simpa using h1) (by simpa using h2)
          simpa using this

/-- **C14 (sequential).**  The stages that run are a prefix of the program's path — `setUp`, then (iff `setUp` went
well) the test and `tearDown`, then every registered cleanup, last registered first — and the next stage starts
only when the Deferred of the previous one has fired: never after a stage that never fires, and not before the
previous stage's start plus its delay. -/
theorem C14_sequential (p : Prog) :
    (∃ fut, (path p).map (·.1) = (model p).stages.map (·.1) ++ fut) ∧
    (∀ i (h1 : i + 1 < (model p).stages.length) (h2 : i < (path p).length),
      ∃ d, delayOf (path p)[i].2.beh = some d ∧ (model p).stages[i].2.1 + d ≤ (model p).stages[i + 1].2.1) := by
  have h := (clauses_hold p).2.1
  obtain ⟨h1, _, h3⟩ := seqOk_reading (path p) (model p).stages (some 0) h
  exact ⟨h1, h3⟩

/-- **C14 (success iff).**  The outcome is success **iff** the whole path ran and its last Deferred fired strictly
before the timeout and not after a stop request (`inTime`), every stage that ran returned or fired cleanly, no
expectation failed, no error logged to Twisted was left unflushed, no failed Deferred was dropped, and nothing
the test scheduled was left in the reactor. -/
theorem C14_success_iff (p : Prog) :
    outcome (model p) = some .success ↔
      (inTime p (model p) = true ∧ (∀ st ∈ ranStages p (model p), behOk st.beh = true) ∧
       Side.expect ∉ sidesRan p (model p) ∧ loggedLeft (sidesRan p (model p)) = 0 ∧
       Side.dropfailed ∉ sidesRan p (model p) ∧ (model p).leftover = 0) := by
  have h := (clauses_hold p).2.2.1
  simp only [cSuccessIff, beq_iff_eq] at h
  have hb : (outcome (model p) == some Ev.success) = true ↔ outcome (model p) = some .success := by simp
  rw [← hb, h]
  simp only [Bool.and_eq_true, List.all_eq_true, Bool.not_eq_true', beq_iff_eq, List.contains_eq_mem,
    decide_eq_false_iff_not, and_assoc]

/-- **C14 (timeout / interrupt).**  If the run is not in time the outcome is an error; the result is asked to stop
only if an interrupt came before the timeout instant; and it is asked to stop whenever an interrupt came before
the timeout while the chain was not over (the log is incomplete, or its last stage was over only later). -/
theorem C14_timeout_interrupt (p : Prog) :
    (inTime p (model p) = false → outcome (model p) = some .error) ∧
    ((model p).stopRequested = true → ∃ s ∈ p.stops, s < p.timeout) ∧
    (∀ s ∈ p.stops, interruptedFor p (model p) s = true → (model p).stopRequested = true) := by
  have h := (clauses_hold p).2.2.2.1
  simp only [cTimeoutInterrupt, Bool.and_eq_true, Bool.or_eq_true, beq_iff_eq, Bool.not_eq_true'] at h
  obtain ⟨⟨h1, h2⟩, h3⟩ := h
  refine ⟨?_, ?_, ?_⟩
  · intro hi
    rcases h1 with h1 | h1
    · rw [hi] at h1; cases h1
    · exact h1
  · intro hs
    rcases h2 with h2 | h2
    · rw [hs] at h2; cases h2
    · obtain ⟨s, hs1, hs2⟩ := List.any_eq_true.mp h2
      exact ⟨s, hs1, by simpa using hs2⟩
  · intro s hs hint
    rcases h3 with h3 | h3
    · rw [List.any_eq_false] at h3
      exact absurd hint (h3 s hs)
    · exact h3

/-- **C14 (clean afterwards).**  After every run — success, failure, timeout or interrupt — the reactor has no
pending delayed calls and Twisted's log observers are exactly those installed before (same order); while the test
ran they were: unless suppressed the installed ones, the capturing one if logs are stored, the error observer. -/
theorem C14_clean_after (p : Prog) :
    (model p).pending = 0 ∧ (model p).obsRestored = true ∧ ∀ e ∈ (model p).stages, e.2.2 = duringCount p := by
  have h := (clauses_hold p).2.2.2.2.1
  simp only [cCleanAfter, Bool.and_eq_true, beq_iff_eq, List.all_eq_true] at h
  exact ⟨h.1.1, h.1.2, h.2⟩

/-- **C14 (unclaimed exceptions).**  `run()` re-raises (after `stopTest`) only an exception that no handler claims
(`KeyboardInterrupt`, `SystemExit`), and then the outcome reported is an error; it does so whenever `setUp`, the test
method or `tearDown` raised one; and only if some stage that ran raised one or returned a Deferred failing with
one.  (Of the cleanups' exceptions `_run_cleanups` keeps the last only.) -/
theorem C14_unclaimed (p : Prog) :
    ((model p).raised = true → outcome (model p) = some .error) ∧
    (∀ x ∈ (path p).take (model p).stages.length, isMain x.1 = true → x.2.beh = .raise .ki → (model p).raised = true) ∧
    ((model p).raised = true → ∃ st ∈ ranStages p (model p), hasKI st.beh = true) := by
  have h := (clauses_hold p).2.2.2.2.2
  simp only [cUnclaimed, Bool.and_eq_true, Bool.or_eq_true, beq_iff_eq, Bool.not_eq_true'] at h
  obtain ⟨⟨h1, h2⟩, h3⟩ := h
  refine ⟨?_, ?_, ?_⟩
  · intro hr
    rcases h1 with h1 | h1
    · rw [hr] at h1; cases h1
    · exact h1
  · intro x hx hm hb
    rcases h2 with h2 | h2
    · rw [List.any_eq_false] at h2
      exact absurd (by simp [hm, hb]) (h2 x hx)
    · exact h2
  · intro hr
    rcases h3 with h3 | h3
    · rw [hr] at h3; cases h3
    · obtain ⟨st, hs1, hs2⟩ := List.any_eq_true.mp h3
      exact ⟨st, hs1, hs2⟩

/-- the log fixtures as list operations: whatever was installed comes back, in order -/
theorem C14_observers_restored (p : Prog) : afterObs p = List.range p.nObs := afterObs_eq p

/-- **C14 (in time ⇔ recorded).**  `inTime` (a statement about the program and the observed stage log) holds exactly
when the chain's final Deferred fired while the spinner's timeout call was still pending and the reactor had not
been stopped, i.e. `Spinner.run` returned the chain's verdict instead of raising `TimeoutError` / `NoResultError`.
The result is the one determined when `reactor.run()` returns — before `_clean`'s shake-out iterations; what
completes during those is not recorded as the run's result. -/
theorem C14_in_time_iff_recorded (p : Prog) :
    inTime p (model p) = true ↔ ∃ b, getResult (afterSpin p).sp = .value b := by
  obtain ⟨pre, fut, hf⟩ := final_sem p
  exact inTime_iff p pre fut hf

/-- **C14 (the loop ends).**  `reactor.run()` always ends because the reactor was crashed — by the chain's result,
the timeout or an interrupt — within the fuel the model gives it, and when no result was recorded nothing that is
still queued was due and runnable in that iteration. -/
theorem C14_loop_ends_by_crash (p : Prog) :
    (afterSpin p).crashed = true ∧
    ((afterSpin p).sp.success = none →
      ∀ c ∈ (afterSpin p).calls, ¬ (c.time ≤ (afterSpin p).now ∧ eligible (afterSpin p).u.iter c = true)) :=
  ⟨(spin_end p).crashed, (spin_end p).noDue⟩

/-! # The translator tie: the model is the interpretation of the source of `_runtest.py`

`harness/pyasync2lean.py` re-reads the asynchronous runner on every run and emits `TTV/Generated/AsyncSkel.lean`; each theorem
first checks that what was found IS the reference term (`by decide`) and then that its interpretation is the hand-written model. -/

section src
open TTV.AsyncSkel

/-- the nested callbacks of `_run_deferred`, with the references between them resolved, are the reference decision tree: setUp;
caught (by IDENTITY with the `exception_caught` marker) → fail, cleanups; else the test, tearDown (each marking a failure when
caught), cleanups; then `clean_up_done`, `force_failure`, the success guard -/
theorem C14_src_chain_tree : flatten Generated.AsyncSkel.runDeferred = refFlat := by
  have e : Generated.AsyncSkel.runDeferred = refSrc := by decide
  rw [e]; decide

/-- the sub-trees of the reference tree -/
def flatC : Flat := .cleanups refTail
def flatT : Flat := .run .tearDown (.ifCaught true (.markFail flatC) flatC)
def flatB : Flat := .run .test (.ifCaught true (.markFail flatT) flatT)

theorem refFlat_eq : refFlat = .run .setUp (.ifCaught true (.markFail flatC) flatB) := rfl

theorem exec_flatC (p : Prog) (x : Option (Option Exc)) (w : W) : AsyncSkel.exec p flatC x w = cleanUp w := by
  simp [flatC, AsyncSkel.exec]

theorem exec_after_tearDown (p : Prog) (r : Option Exc) (w : W) :
    AsyncSkel.exec p (.ifCaught true (.markFail flatC) flatC) (some r) w = afterTearDown r w := by
  cases r with
  | none => simp only [AsyncSkel.exec, exec_flatC, afterTearDown, Chain.noteMain]; rfl
  | some k => simp only [AsyncSkel.exec, exec_flatC, afterTearDown, Chain.noteMain]; rfl

theorem exec_flatT (p : Prog) (x : Option (Option Exc)) (w : W) : AsyncSkel.exec p flatT x w = startTearDown p w := by
  unfold flatT startTearDown
  simp only [AsyncSkel.exec, stageOf, nameOf, posOf]
  cases statusOf p.tearDown.beh with
  | pending => rfl
  | completed r => exact exec_after_tearDown p r _

theorem exec_after_body (p : Prog) (r : Option Exc) (w : W) :
    AsyncSkel.exec p (.ifCaught true (.markFail flatT) flatT) (some r) w = afterBody p r w := by
  cases r with
  | none => simp only [AsyncSkel.exec, exec_flatT, afterBody, Chain.noteMain]; rfl
  | some k => simp only [AsyncSkel.exec, exec_flatT, afterBody, Chain.noteMain]; rfl

theorem exec_flatB (p : Prog) (x : Option (Option Exc)) (w : W) : AsyncSkel.exec p flatB x w = startBody p w := by
  unfold flatB startBody
  simp only [AsyncSkel.exec, stageOf, nameOf, posOf]
  cases statusOf p.body.beh with
  | pending => rfl
  | completed r => exact exec_after_body p r _

theorem exec_after_setUp (p : Prog) (r : Option Exc) (w : W) :
    AsyncSkel.exec p (.ifCaught true (.markFail flatC) flatB) (some r) w = afterSetUp p r w := by
  cases r with
  | none => simp only [AsyncSkel.exec, exec_flatB, afterSetUp]
  | some k => simp only [AsyncSkel.exec, exec_flatC, afterSetUp]; rfl

/-- running that tree over the model's primitives IS the model's chain: from the start … -/
theorem C14_src_chain_start (p : Prog) (w : W) :
    AsyncSkel.exec p (flatten Generated.AsyncSkel.runDeferred) none w = startSetUp p w := by
  rw [C14_src_chain_tree, refFlat_eq]
  unfold startSetUp
  simp only [AsyncSkel.exec, stageOf, nameOf, posOf]
  cases statusOf p.setUp.beh with
  | pending => rfl
  | completed r => exact exec_after_setUp p r _

/-- … and when the Deferred of the stage it waits for fires (`pos`: setUp, the test method, tearDown) -/
theorem C14_src_chain_resume (p : Prog) (r : Option Exc) (w : W)
    (hpos : w.u.pos = .setUp ∨ w.u.pos = .body ∨ w.u.pos = .tearDown) :
    (match contOf w.u.pos (flatten Generated.AsyncSkel.runDeferred) with
     | some k => AsyncSkel.exec p k (some r) w
     | none => w) = resume p r w := by
  rw [C14_src_chain_tree, refFlat_eq]
  rcases hpos with h | h | h <;> rw [h]
  · simp only [contOf, posOf, if_true, resume, h]
    exact exec_after_setUp p r w
  · have : contOf Pos.body (Flat.run StageRef.setUp (Flat.ifCaught true (Flat.markFail flatC) flatB)) =
        some (.ifCaught true (.markFail flatT) flatT) := by decide
    rw [this]
    simp only [resume, h]
    exact exec_after_body p r w
  · have : contOf Pos.tearDown (Flat.run StageRef.setUp (Flat.ifCaught true (Flat.markFail flatC) flatB)) =
        some (.ifCaught true (.markFail flatC) flatC) := by decide
    rw [this]
    simp only [resume, h]
    exact exec_after_tearDown p r w

/-- the tail of every path (`clean_up_done`: the last cleanup exception is recorded and fails the test; `force_failure`; the final
Deferred fires with `len(fails) == 0`) is `Chain.finish` -/
theorem C14_src_chain_tail (c : Chain) : tailC refTail c = some (Chain.finish c) := by
  unfold Chain.finish
  cases hl : c.lastExc <;> cases hf : c.forced <;> simp [tailC, refTail, hl, hf]

/-- `_run_cleanups`, `_run_user`, `_log_user_exception`, the helpers: the shapes the model transcribes (the live stack popped last
registered first; every failure - any BaseException - reported and only the last one remembered; the cleanup called through a thunk,
waited for on a Deferred of the runner's own) -/
theorem C14_src_shapes :
    Generated.AsyncSkel.runCleanups = refCleanups ∧ Generated.AsyncSkel.runCleanupsIsInlineCallbacks = true ∧
    Generated.AsyncSkel.runUser = refRunUser ∧ Generated.AsyncSkel.logUserException = .raisesAndReportsExcInfo ∧
    Generated.AsyncSkel.flushLoggedErrors = .flushesGlobalObserver ∧
    Generated.AsyncSkel.assertFailsWith = .successRaisesFailureTrapsGiven ∧
    Generated.AsyncSkel.errorObserverSetUp = .installedThroughLegacyWrapper := by decide

/-- `_blocking_run_deferred` and `_run_core` as found in the source are the model's `account`: NoResultError → reported +
`result.stop()`; TimeoutError → reported; then the logged errors, the unhandled errors in Deferreds (only when `Spinner.run`
returned), the junk - each an error and no success -/
theorem C14_src_account (result : Res) (excs : List Exc) (logged dropped : Nat) (junk : Bool) :
    let a := coreI Generated.AsyncSkel.blocking result logged dropped junk Generated.AsyncSkel.runCore
      { excs := excs, successful := false, unhandled := 0, stopReq := false }
    account result excs logged dropped junk = { excs := a.excs, successful := a.successful, stopReq := a.stopReq } := by
  have e1 : Generated.AsyncSkel.blocking = refBlocking := by decide
  have e2 : Generated.AsyncSkel.runCore = refCore := by decide
  rw [e1, e2]
  cases result <;> by_cases h1 : logged > 0 <;> by_cases h2 : dropped > 0 <;> cases junk <;>
    simp [account, coreI, bI, refCore, refBlocking, h1, h2]

/-- the obligatory iterations: none for the plain runner, `brokenIterations` for `…ForBrokenTwisted` - as many as the model runs -/
theorem C14_src_iterations (p : Prog) :
    afterIter p = Nat.repeat (iterateB p (bound p))
      (if p.broken then Generated.AsyncSkel.brokenIterations else Generated.SpinnerSkel.obligatoryIterations) (afterSpin p) := by
  have e1 : Generated.AsyncSkel.brokenIterations = 2 := by decide
  have e2 : Generated.SpinnerSkel.obligatoryIterations = 0 := by decide
  rw [e1, e2]
  unfold afterIter
  cases p.broken <;> rfl

end src

/-! ## non-vacuity: concrete programs, evaluated by the kernel -/

def plain (beh : Beh) : Stage := .mk [] [] beh
def withSides (sides : List Side) (beh : Beh) : Stage := .mk [] sides beh

def prog (timeout : Nat) (stops : List Nat) (suppress store : Bool) (nObs : Nat) (setUp body tearDown : Stage) : Prog :=
  { timeout := timeout, stops := stops, broken := false, suppress := suppress, store := store, nObs := nObs,
    setUp := setUp, body := body, tearDown := tearDown }

def threeDeferreds : Stage := .mk [plain (.fire 1)] [] (.fire 2)

/-- three Deferred-returning stages and a cleanup, in time: success -/
example : (model (prog 10 [] true true 1 threeDeferreds (plain (.fire 3)) (plain .ret))).events
    = [.startTest, .success, .stopTest] := by decide

/-- the same, but the last Deferred fires exactly at the timeout instant: error -/
example : (model (prog 6 [] true true 1 threeDeferreds (plain (.fire 3)) (plain .ret))).events
    = [.startTest, .error, .stopTest] := by decide

/-- an interrupt while the test method's Deferred is pending: error, and the result is asked to stop -/
example : (model (prog 10 [3] true true 0 (plain .ret) (plain (.fire 5)) (plain .ret))).stopRequested = true := by decide

/-- a logged error that is not flushed, a dropped failed Deferred, a leftover delayed call: each an error -/
example : ((model (prog 10 [] true true 0 (plain .ret) (withSides [.logerr] .ret) (plain .ret))).events,
           (model (prog 10 [] true true 0 (plain .ret) (withSides [.dropfailed] .ret) (plain .ret))).events,
           (model (prog 10 [] true true 0 (plain .ret) (withSides [.junk 1] .ret) (plain .ret))).events)
  = ([.startTest, .error, .stopTest], [.startTest, .error, .stopTest], [.startTest, .error, .stopTest]) := by decide

/-- … but a logged error that is flushed is fine -/
example : (model (prog 10 [] false false 2 (plain .ret) (withSides [.logerr, .flush] (.fire 1)) (plain .ret))).events
    = [.startTest, .success, .stopTest] := by decide

/-- a cleanup registered by a cleanup runs right after it: cleanup 1 (registered last) first, then cleanup 2 (which
it registered), then cleanup 0 -/
example : ((model (prog 10 [] true true 0 (plain .ret)
      (.mk [plain .ret, .mk [plain (.fire 1)] [] (.fire 1)] [] .ret) (plain .ret))).stages.map (·.1))
    = [.setUp, .body, .tearDown, .cleanup 1, .cleanup 2, .cleanup 0] := by decide

/-- `KeyboardInterrupt` out of the last cleanup that fails: the remaining cleanups still run, an error is reported
and the exception is re-raised by `run()` -/
example : ((model (prog 10 [] true true 0 (plain .ret) (.mk [plain .ret, plain (.raise .ki)] [] .ret) (plain .ret))).events,
           (model (prog 10 [] true true 0 (plain .ret) (.mk [plain .ret, plain (.raise .ki)] [] .ret) (plain .ret))).raised,
           (model (prog 10 [] true true 0 (plain .ret) (.mk [plain .ret, plain (.raise .ki)] [] .ret) (plain .ret))).stages.length)
    = ([.startTest, .error, .stopTest], true, 5) := by decide

/-- … but of the cleanups' exceptions only the last is kept: a later ordinary error hides the `KeyboardInterrupt` -/
example : (model (prog 10 [] true true 0 (plain .ret) (.mk [plain (.raise .err), plain (.raise .ki)] [] .ret) (plain .ret))).raised
    = false := by decide

/-- the result is determined before `_clean`'s iterations (broken-Twisted variant: two of them): the interrupt at
instant 2 ends the spin while tearDown's zero-delay Deferred, scheduled in that very iteration, has not fired; it
fires in a shake-out iteration, and the cleanup it starts is logged as not live - the whole path ran, yet the run
is an error with a stop request -/
example :
    let t := model { timeout := 10, stops := [2], broken := true, suppress := true, store := true, nObs := 0,
                     setUp := plain .ret, body := .mk [plain .ret] [] (.fire 2), tearDown := plain (.fire 0) }
    (t.events, t.stopRequested, t.live, t.stages.length) = ([.startTest, .error, .stopTest], true, [true, true, true, false], 4) := by
  decide

end TTV.Props.C14
